(* C19 (splines, part 3): constant-twist motions on SE3 itself.
   The one-parameter-subgroup law Exp(a xi) Exp(b xi) = Exp((a+b) xi) of the modelled se3_Exp on its
   closed-form branch (|a phi|, |b phi| > eps, or a parameter exactly 0), from the closed forms of
   so3_Exp (half-angle quaternion), so3_Jl and Rodrigues' formula as polynomials in K = [phi]x;
   then the B-spline through T0 Exp(n xi) is T0 Exp(t xi) at the right times. *)
From Coq Require Import Reals Lra Psatz List ZArith Lia.
From Interval Require Import Tactic.
Import ListNotations.
From PV Require Import Base.Num Base.RTac Base.ListAux Model.LieGroup Model.LieExp Model.LieLog Model.Spline
  Model.Metric Proofs.LieGroup Proofs.LieExp Proofs.LieLog Proofs.LieLog2 Proofs.LieLog3 Proofs.LieLog4
  Proofs.LieTangent2 Proofs.LieTangent3 Proofs.Spline Proofs.Metric Proofs.Spline2.
Local Open Scope R_scope.
#[local] Remove Hints NumQ NumZ : typeclass_instances.

(* ------------------------------------------------------------------ closed form of Exp(a (tau, phi)) *)
Definition Ecf (phi tau : vec3R) (a : R) : se3R :=
  let th := vnorm phi in
  (mvmul (pm a ((1 - cos (a * th)) / (th * th)) ((a * th - sin (a * th)) / (th * th * th)) (skew phi)) tau,
   (vscale (sin (a * th / 2) / th) phi, cos (a * th / 2))).

Lemma pm_skew_scale (a x0 x1 x2 : R) (phi : vec3R) :
  pm x0 x1 x2 (skew (vscale a phi)) = pm x0 (a * x1) (a * a * x2) (skew phi).
Proof. unfold pm. destruct phi as [[x y] z]. lie_unfold. split_pairs; ring. Qed.
Lemma pm_add_mv (x0 x1 x2 y0 y1 y2 : R) (K : @mat3 R) (v : vec3R) :
  vadd (mvmul (pm x0 x1 x2 K) v) (mvmul (pm y0 y1 y2 K) v) = mvmul (pm (x0 + y0) (x1 + y1) (x2 + y2) K) v.
Proof.
  unfold pm. destruct K as [[[[k00 k01] k02] [[k10 k11] k12]] [[k20 k21] k22]], v as [[p q] r].
  lie_unfold. split_pairs; ring.
Qed.
Lemma SO3_matrix_axis (s c : R) (phi : vec3R) :
  SO3_matrix ((vscale s phi, c) : quatR) = pm 1 (2 * c * s) (2 * s * s) (skew phi).
Proof. unfold pm. destruct phi as [[x y] z]. lie_unfold. split_pairs; ring. Qed.
Lemma SO3_mul_axis (s1 c1 s2 c2 : R) (phi : vec3R) :
  SO3_mul ((vscale s1 phi, c1) : quatR) (vscale s2 phi, c2)
  = (vscale (c1 * s2 + c2 * s1) phi, c1 * c2 - s1 * s2 * vdot phi phi).
Proof. destruct phi as [[x y] z]. lie_unfold. split_pairs; ring. Qed.

Lemma se3_exp_scaled_cf (eps : R) (phi tau : vec3R) (a : R) : 0 <= eps -> 0 < a -> eps < a * vnorm phi ->
  se3_exp eps (se3_scale a (tau, phi)) = Ecf phi tau a.
Proof.
  intros He Ha Hlt. unfold se3_exp, se3_scale, Ecf. cbn [fst snd].
  assert (Hn : vnorm (vscale a phi) = a * vnorm phi) by (rewrite vnorm_scale, Rabs_pos_eq; lra).
  pose proof (vnorm_nonneg phi) as Hp. set (th := vnorm phi) in *.
  assert (Hth : 0 < th) by nra.
  apply pair_eq.
  - rewrite so3_Jl_pm, Hn. unfold so3_Jl_coef. branch_true. cbn [fst snd].
    rewrite pm_skew_scale, mvmul_vscale, <- mvmul_mscale3, pm_scale. f_equal. num_simpl.
    apply pm_ext; field; lra.
  - rewrite so3_exp_is_cf by (rewrite Hn; assumption). unfold so3_exp_cf. rewrite Hn.
    rewrite vscale_vscale. apply pair_eq; [|reflexivity]. f_equal. field. lra.
Qed.

Lemma Ecf_0 (phi tau : vec3R) : Ecf phi tau 0 = SE3_id.
Proof.
  unfold Ecf, SE3_id, SO3_id, pm. cbv zeta. rewrite !Rmult_0_l. replace (0 / 2) with 0 by field.
  rewrite sin_0, cos_0. unfold Rdiv. rewrite !Rminus_diag_eq, !Rmult_0_l by reflexivity.
  destruct phi as [[x y] z], tau as [[p q] r]. lie_unfold. split_pairs; ring.
Qed.
Lemma Ecf_valid (phi tau : vec3R) (a : R) : vnorm phi <> 0 -> valid_SE3 (Ecf phi tau a).
Proof.
  intros Hth. unfold valid_SE3, unitq, qnorm2, Ecf. cbn [snd qv qw fst]. rewrite vdot_scale, <- vnorm_sq.
  pose proof (sin2_cos2 (a * vnorm phi / 2)) as H. unfold Rsqr in H.
  set (S := sin _) in *. set (C := cos _) in *. num_simpl. field_simplify_eq; [|assumption]. nra.
Qed.

(* the one-parameter-subgroup law for the closed form: every a, b *)
Lemma Ecf_mul (phi tau : vec3R) (a b : R) : vnorm phi <> 0 ->
  SE3_mul (Ecf phi tau a) (Ecf phi tau b) = Ecf phi tau (a + b).
Proof.
  intros Hth. pose proof (vnorm_sq phi) as Hs. unfold Ecf, SE3_mul. cbv zeta. cbn [fst snd].
  set (th := vnorm phi) in *.
  assert (Hsa : sin (a * th) = 2 * sin (a * th / 2) * cos (a * th / 2))
    by (replace (a * th) with (2 * (a * th / 2)) at 1 by field; apply sin_2a).
  assert (Hca : cos (a * th) = 1 - 2 * sin (a * th / 2) * sin (a * th / 2))
    by (replace (a * th) with (2 * (a * th / 2)) at 1 by field; apply cos_2a_sin).
  apply pair_eq.
  - rewrite SO3_act_is_matrix, SO3_matrix_axis, mvmul_mmul3.
    destruct phi as [[x y] z].
    assert (Hn : x * x + y * y + z * z = th * th) by (revert Hs; lie_unfold; intros; lra).
    rewrite (pm_mul x y z (th * th)) by exact Hn. rewrite pm_add_mv. f_equal.
    replace ((a + b) * th) with (a * th + b * th) by ring. rewrite sin_plus, cos_plus.
    rewrite Hsa, Hca.
    set (Sa := sin (a * th / 2)). set (Ca := cos (a * th / 2)). set (Sb := sin (b * th)). set (Cb := cos (b * th)).
    apply pm_ext; field; assumption.
  - rewrite SO3_mul_axis, <- Hs. replace ((a + b) * th / 2) with (a * th / 2 + b * th / 2) by field.
    rewrite sin_plus, cos_plus. apply pair_eq; [f_equal|]; field; assumption.
Qed.

(* ------------------------------------------------------------------ the model's Exp on scaled twists *)
(* parameters on which Exp(a xi) is evaluated by closed forms (or is exactly the identity) *)
Definition good (eps th a : R) : Prop := a = 0 \/ (0 < a /\ eps < a * th).
Lemma good_add eps th a b : 0 <= eps -> 0 < th -> good eps th a -> good eps th b -> good eps th (a + b).
Proof.
  intros He Ht [->|[Ha Ha']] [->|[Hb Hb']]; [left; ring|right|right|right]; split; try lra; try nra.
Qed.
Lemma good_int eps th (j : Z) : 0 <= eps -> eps < th -> (0 <= j)%Z -> good eps th (IZR j).
Proof.
  intros He Ht Hj. destruct (Z.eq_dec j 0) as [->|Hn]; [now left|right].
  assert (1 <= IZR j) by (apply IZR_le; lia). split; nra.
Qed.

Lemma se3_exp_scaled_good (eps : R) (phi tau : vec3R) (a : R) : 0 <= eps -> good eps (vnorm phi) a ->
  se3_exp eps (se3_scale a (tau, phi)) = Ecf phi tau a.
Proof.
  intros He [->|[Ha Hlt]].
  - rewrite se3_scale_0, se3_exp_zero, Ecf_0 by assumption. reflexivity.
  - now apply se3_exp_scaled_cf.
Qed.

(* Exp(a xi) Exp(b xi) = Exp((a+b) xi) for the model's se3_Exp *)
Theorem se3_exp_one_param (eps : R) (phi tau : vec3R) (a b : R) : 0 <= eps -> eps < vnorm phi ->
  good eps (vnorm phi) a -> good eps (vnorm phi) b ->
  SE3_mul (se3_exp eps (se3_scale a (tau, phi))) (se3_exp eps (se3_scale b (tau, phi)))
  = se3_exp eps (se3_scale (a + b) (tau, phi)).
Proof.
  intros He Hth Ha Hb. rewrite !se3_exp_scaled_good by (try assumption; apply good_add; auto; lra).
  apply Ecf_mul. lra.
Qed.

(* ------------------------------------------------------------------ one window of a constant-twist path *)
Section Twist.
Variable eps : R.
Variables (T0 : se3R) (tau phi : vec3R).
Hypothesis He : 0 <= eps.
Hypothesis HT0 : valid_SE3 T0.
Hypothesis Hlo : eps < vnorm phi.
Hypothesis Hpi : vnorm phi < PI.
Hypothesis Hsin : eps < sin (vnorm phi / 2).
Hypothesis Hcos : eps < cos (vnorm phi / 2).
Local Notation th := (vnorm phi).
Local Notation E a := (se3_exp eps (se3_scale a (tau, phi))).

Lemma E_valid a : good eps th a -> valid_SE3 (E a).
Proof. intros Ha. rewrite se3_exp_scaled_good by assumption. apply Ecf_valid. lra. Qed.
Lemma log_E1 : SE3_log eps (E 1) = (tau, phi).
Proof.
  rewrite se3_scale_1. apply log_exp_se3; cbn [snd]; try assumption.
  rewrite vnorm_qv_exp_cf by (pose proof PI_RGT_0; lra). assumption.
Qed.
Lemma good_1 : good eps th 1.
Proof. right. split; lra. Qed.

(* the relative pose of two consecutive knots is Exp(xi) *)
Lemma twist_rel (j : Z) : (0 <= j)%Z ->
  SE3_log eps (SE3_mul (SE3_inv (SE3_mul T0 (E (IZR j)))) (SE3_mul T0 (E (IZR (j + 1))))) = (tau, phi).
Proof.
  intros Hj. pose proof (good_int eps th j He Hlo Hj) as Hg. pose proof (E_valid _ Hg) as Hv.
  rewrite SE3_rel_left by assumption. rewrite plus_IZR.
  rewrite <- (se3_exp_one_param eps phi tau (IZR j) 1) by (try assumption; apply good_1).
  rewrite <- SE3_mul_assoc by (try assumption; now apply valid_SE3_inv).
  rewrite SE3_inv_l by assumption. rewrite SE3_id_l. apply log_E1.
Qed.

Lemma bs_seg_SE3_twist (i : Z) (w0 w1 w2 : R) : (0 <= i)%Z ->
  good eps th w0 -> good eps th w1 -> good eps th w2 ->
  bs_seg_SE3 (F:=R) eps (SE3_mul T0 (E (IZR i)), SE3_mul T0 (E (IZR (i + 1))),
                         SE3_mul T0 (E (IZR (i + 1 + 1))), SE3_mul T0 (E (IZR (i + 1 + 1 + 1)))) (w0, w1, w2)
  = SE3_mul T0 (E (IZR i + (w0 + w1 + w2))).
Proof.
  intros Hi H0 H1 H2. unfold bs_seg_SE3, bs_seg.
  rewrite !twist_rel by lia.
  assert (Hth : 0 < th) by lra.
  rewrite (se3_exp_one_param eps phi tau w0 w1) by assumption.
  rewrite (se3_exp_one_param eps phi tau (w0 + w1) w2) by (try assumption; now apply good_add).
  pose proof (good_int eps th i He Hlo Hi) as Hg.
  rewrite SE3_mul_assoc by (try assumption; now apply E_valid).
  rewrite (se3_exp_one_param eps phi tau (IZR i) (w0 + w1 + w2)) by (try assumption; repeat apply good_add; auto).
  reflexivity.
Qed.
End Twist.

(* ------------------------------------------------------------------ the weights are good parameters *)
Lemma q3_bounds (q : R) : 0 < q -> q < 1 -> 0 < q * q * q < 1.
Proof. intros H0 H1. assert (0 < q * q < 1) by nra. split; nra. Qed.
Lemma twist_eps_bounds (eps th q : R) : 0 <= eps -> 0 < q -> q < 1 -> eps < q * q * q / 6 * th -> 0 < th /\ eps < th / 6.
Proof.
  intros He Hq Hq1 Hlt. destruct (q3_bounds q Hq Hq1) as [Hq30 Hq3].
  assert (Hth : 0 < th).
  { destruct (Rlt_or_le 0 th) as [H|H]; [assumption|]. exfalso.
    assert (Hc : 0 < q * q * q / 6) by lra.
    remember (q * q * q / 6) as c eqn:Ec. clear Ec Hq30 Hq3. nra. }
  split; [assumption|].
  apply Rlt_trans with (1 := Hlt). unfold Rdiv. rewrite (Rmult_comm th). apply Rmult_lt_compat_r; [assumption|]. lra.
Qed.
Lemma bs_w_good (eps th q u : R) : 0 <= eps -> 0 < q -> q < 1 -> eps < q * q * q / 6 * th -> u = 0 \/ q <= u -> u <= 1 ->
  good eps th (fst (fst (bs_w u))) /\ good eps th (snd (fst (bs_w u))) /\ good eps th (snd (bs_w u)).
Proof.
  intros He Hq Hq1 Hlt Hu Hu1. unfold bs_w, bs_row. cbn [fst snd]. num_unfold.
  assert (Hq30 : 0 < q * q * q) by (assert (0 < q * q) by nra; nra).
  assert (Hth : 0 < th).
  { destruct (Rlt_or_le 0 th) as [H|H]; [assumption|]. exfalso.
    assert (Hc : 0 < q * q * q / 6) by lra.
    remember (q * q * q / 6) as c eqn:Ec. clear Ec Hq30. nra. }
  assert (Hq3 : q * q * q < 1) by (assert (q * q < 1) by nra; nra).
  assert (He6 : eps < th / 6).
  { apply Rlt_trans with (1 := Hlt). unfold Rdiv. rewrite (Rmult_comm th). apply Rmult_lt_compat_r; [assumption|]. lra. }
  assert (Hu0 : 0 <= u) by (destruct Hu; lra).
  assert (Hc : 0 <= u * (1 - u)) by nra.
  assert (Hu3 : 0 <= u * u * u) by nra.
  assert (Hu2 : 0 <= u * u <= 1) by nra.
  split; [|split].
  - right. assert (5 / 6 <= IZR 5 / IZR 6 * 1 + IZR 3 / IZR 6 * u + IZR (-3) / IZR 6 * (u * u) + IZR 1 / IZR 6 * (u * u * u)) by nra.
    split; [lra|nra].
  - right. assert (u * u * u <= u * u) by nra.
    assert (1 / 6 <= IZR 1 / IZR 6 * 1 + IZR 3 / IZR 6 * u + IZR 3 / IZR 6 * (u * u) + IZR (-2) / IZR 6 * (u * u * u)) by nra.
    split; [lra|nra].
  - destruct Hu as [->|Hu]; [left; field|right].
    assert (q * q * q <= u * u * u).
    { assert (q * q <= u * u) by nra. nra. }
    replace (IZR 0 / IZR 6 * 1 + IZR 0 / IZR 6 * u + IZR 0 / IZR 6 * (u * u) + IZR 1 / IZR 6 * (u * u * u)) with (u * u * u / 6) by field.
    split; [lra|]. nra.
Qed.

(* ------------------------------------------------------------------ the spline through T0 Exp(n xi) *)
Definition twist_path_SE3 (eps : R) (T0 : se3R) (xi : vec3R * vec3R) (N : nat) : list se3R :=
  twist_path se3R (vec3R * vec3R) SE3_mul (se3_exp eps) se3_scale T0 xi N.

Theorem bspline_SE3_constant_twist (eps : R) k q (T0 : se3R) (tau phi : vec3R) N (d : se3R) :
  0 <= eps -> chs_kq k q -> (4 <= N)%nat -> valid_SE3 T0 ->
  vnorm phi < PI -> eps < sin (vnorm phi / 2) -> eps < cos (vnorm phi / 2) -> eps < q * q * q / 6 * vnorm phi ->
  exists out, bspline_SE3 (F:=R) eps k q false (twist_path_SE3 eps T0 (tau, phi) N) = Some out /\
    (forall i j, (i + 3 < N)%nat -> (j < k)%nat ->
       nth (i * k + j) out d = SE3_mul T0 (se3_exp eps (se3_scale (INR i + 1 + INR j * q) (tau, phi)))) /\
    nth ((N - 3) * k) out d = SE3_mul T0 (se3_exp eps (se3_scale (INR N - 2) (tau, phi))).
Proof.
  intros He Hkq HN HT0 Hpi Hsin Hcos Hq3.
  pose proof (chs_kq_lt1 _ _ Hkq) as Hq. destruct (Hkq) as (Hk2 & Hq0 & _).
  destruct (twist_eps_bounds eps (vnorm phi) q He Hq0 Hq Hq3) as [Hth0 He6].
  assert (Hlo : eps < vnorm phi) by lra.
  unfold twist_path_SE3, bspline_SE3.
  set (P := twist_path se3R (vec3R * vec3R) SE3_mul (se3_exp eps) se3_scale T0 (tau, phi) N).
  assert (HlenP : length P = N) by (unfold P, twist_path; now rewrite map_length, length_zrange).
  rewrite bspline_unfold by assumption.
  pose proof (length_windows4 P) as HL. rewrite HlenP in HL.
  destruct (windows4 se3R P) as [|W0 ws] eqn:E; [cbn in HL; lia|]. rewrite <- E in *.
  eexists; split; [reflexivity|].
  assert (Hnth : forall n, (n < N)%nat -> nth n P d = SE3_mul T0 (se3_exp eps (se3_scale (IZR (Z.of_nat n)) (tau, phi)))).
  { intros n Hn. unfold P, twist_path. rewrite (nth_map_d _ _ _ _ 0%Z) by (now rewrite length_zrange).
    now rewrite nth_zrange. }
  assert (Hwin : forall i, (i + 3 < N)%nat -> forall w0 w1 w2,
     good eps (vnorm phi) w0 -> good eps (vnorm phi) w1 -> good eps (vnorm phi) w2 ->
     bs_seg_SE3 (F:=R) eps (nth i (windows4 se3R P) W0) (w0, w1, w2)
     = SE3_mul T0 (se3_exp eps (se3_scale (INR i + (w0 + w1 + w2)) (tau, phi)))).
  { intros i Hi w0 w1 w2 H0 H1 H2. rewrite (nth_windows4 P i d W0) by (rewrite HlenP; lia).
    rewrite !Hnth by lia.
    replace (Z.of_nat (i + 1)) with (Z.of_nat i + 1)%Z by lia.
    replace (Z.of_nat (i + 2)) with (Z.of_nat i + 1 + 1)%Z by lia.
    replace (Z.of_nat (i + 3)) with (Z.of_nat i + 1 + 1 + 1)%Z by lia.
    rewrite bs_seg_SE3_twist by (try assumption; lia). now rewrite <- INR_IZR_INZ. }
  split.
  - intros i j Hi Hj. rewrite nth_bs_out_inner by lia. fold_seg eps.
    set (u := IZR (Z.of_nat j) * q).
    assert (Hu : 0 <= u < 1) by (apply (chs_kq_j k); [assumption|lia]).
    assert (Hu' : u = 0 \/ q <= u).
    { unfold u. destruct j as [|j]; [left; cbn; ring|right].
      assert (1 <= IZR (Z.of_nat (S j))) by (apply IZR_le; lia). nra. }
    destruct (bs_w_good eps (vnorm phi) q u He Hq0 Hq Hq3 Hu' ltac:(lra)) as (G0 & G1 & G2).
    pose proof (bs_w_sum u) as Hsum. destruct (bs_w u) as [[w0 w1] w2] eqn:Ew. cbn [fst snd] in *.
    rewrite Hwin by assumption. rewrite Hsum. unfold u. rewrite <- INR_IZR_INZ. do 3 f_equal. ring.
  - rewrite <- HL, nth_bs_out_last, last_nth, HL by lia. fold_seg eps. rewrite bs_wend_val.
    rewrite Hwin; try lia.
    + do 3 f_equal. replace (N - 3 - 1)%nat with (N - 4)%nat by lia.
      rewrite minus_INR by lia. change (INR 4) with (1 + 1 + 1 + 1). field.
    + right. split; lra.
    + right. split; lra.
    + right. split; lra.
Qed.

(* the hypotheses are satisfiable: float64 eps, rotation by 1 rad about x with a translation along y,
   ten samples per unit interval *)
Lemma twist_hyps_ok :
  let phi : vec3R := (1, 0, 0) in let q := 1 / 10 in
  0 <= eps_f64 /\ chs_kq 10 q /\ valid_SE3 SE3_id /\ vnorm phi < PI /\ eps_f64 < sin (vnorm phi / 2) /\
  eps_f64 < cos (vnorm phi / 2) /\ eps_f64 < q * q * q / 6 * vnorm phi.
Proof.
  cbv zeta. rewrite vnorm_x00, Rabs_pos_eq by lra. unfold eps_f64.
  split; [interval|]. split.
  { unfold chs_kq. cbn [Nat.sub INR]. split; [lia|]. split; lra. }
  split; [apply unitq_id|]. split; [interval|]. split; [interval|]. split; interval.
Qed.
