(* C14: at state and input dimension 1 the matrix transcription of lqr.py (Proofs/LQRMat2.v) computes
   exactly what the tied model Model/LQR.v computes - states, inputs, cost, time, raising - when the
   Cholesky routines are the 1x1 ones of the model (raise unless Quu > 0, else divide); and these
   1x1 routines satisfy both halves of the contract assumed by the matrix theorems (non-vacuity). *)
From Coq Require Import ZArith List Bool Arith Lia Reals Lra.
Import ListNotations.
From PV Require Import Base.Num Base.Mat Model.Dynamics Model.Controller Model.LQR.
From PV Require Proofs.LQR Proofs.LQR2.
From PV Require Import Proofs.LQRMat1 Proofs.LQRMat2 Proofs.LQRMat3.
#[local] Remove Hints NumQ NumZ : typeclass_instances.
Local Open Scope R_scope.

Ltac nu := cbn [add sub mul div opp zero one ofZ half ltb NumR] in *.

Definition e1 (x : R) : list R := [x].
Definition m1 (a : R) : matR := [[a]].
Definition embst (st : stage (F:=R)) : stageN :=
  {| Nxx := m1 (qxx st); Nxu := m1 (qxu st); Nux := m1 (qux st); Nuu := m1 (quu st);
     npx := e1 (px st); npu := e1 (pu st) |}.
Definition embsys (s : ssys (F:=R)) : sysN :=
  {| nk := sk s;
     ncoef := fun t => (m1 (fst (fst (scoef s t))), m1 (snd (fst (scoef s t))), option_map e1 (snd (scoef s t))) |}.
(* the 1x1 Cholesky routines of Model/LQR.v *)
Definition chol1 (M : matR) : option R := if Rltb 0 (mget M 0 0) then Some (mget M 0 0) else None.
Definition csm1 (q : R) (M : matR) : matR := mkmat 1 (mcols M) (fun i j => mget M i j / q).
Definition csv1 (q : R) (b : list R) : list R := [vget b 0 / q].

Lemma m1_eq a b : a = b -> m1 a = m1 b. Proof. now intros ->. Qed.
Lemma e1_eq a b : a = b -> e1 a = e1 b. Proof. now intros ->. Qed.

(* ---- the operations of Base/Mat.v on 1x1 data *)
Lemma mapply_1 a x : mapply (m1 a) (e1 x) = e1 (a * x).
Proof. cbv [mapply m1 e1 mrows mcols mkvec length seq map sumn mget vget nth]. mnum. apply e1_eq. ring. Qed.
Lemma vplus_1 a b : vplus (e1 a) (e1 b) = e1 (a + b).
Proof. reflexivity. Qed.
Lemma vminus_1 a b : vminus (e1 a) (e1 b) = e1 (a - b).
Proof. reflexivity. Qed.
Lemma vscal_1 c a : vscal c (e1 a) = e1 (c * a).
Proof. reflexivity. Qed.
Lemma mmul_1 a b : mmul (m1 a) (m1 b) = m1 (a * b).
Proof. cbv [mmul m1 mrows mcols mkmat mkvec length seq map sumn mget nth]. mnum. apply m1_eq. ring. Qed.
Lemma mtr_1 a : mtr (m1 a) = m1 a.
Proof. reflexivity. Qed.
Lemma madd_1 a b : madd (m1 a) (m1 b) = m1 (a + b).
Proof. reflexivity. Qed.
Lemma mscale_1 c a : mscale c (m1 a) = m1 (c * a).
Proof. reflexivity. Qed.
Lemma vdot_1 a b : vdot (e1 a) (e1 b) = a * b.
Proof. cbv [vdot e1 length sumn vget nth]. mnum. ring. Qed.
Lemma bil_1 a x y : bil (m1 a) (e1 x) (e1 y) = x * (a * y).
Proof. unfold bil. now rewrite mapply_1, vdot_1. Qed.
Lemma csm1_1 q a : csm1 q (m1 a) = m1 (a / q).
Proof. reflexivity. Qed.
Lemma csv1_1 q a : csv1 q (e1 a) = e1 (a / q).
Proof. reflexivity. Qed.
Lemma chol1_1 d : chol1 (m1 d) = if Rltb 0 d then Some d else None.
Proof. reflexivity. Qed.
Lemma vzero_1 : vzero (F:=R) 1 = e1 0.
Proof. reflexivity. Qed.
#[local] Hint Rewrite mapply_1 vplus_1 vminus_1 vscal_1 mmul_1 mtr_1 madd_1 mscale_1 vdot_1 bil_1 csm1_1 csv1_1 : dim1.

Lemma wf_m1 a : wf 1 1 (m1 a).
Proof. repeat split; try lia. constructor; [reflexivity|constructor]. Qed.

(* ---- the 1x1 routines satisfy the Cholesky contract of the matrix theorems *)
Lemma wf11 (M : matR) : wf 1 1 M -> M = m1 (mget M 0 0).
Proof.
  intros (_ & _ & Hl & Hf). destruct M as [|r [|? ?]]; try discriminate.
  pose proof (Forall_inv Hf) as Hr. destruct r as [|a [|? ?]]; try discriminate. reflexivity.
Qed.
Lemma len1 (b : list R) : length b = 1%nat -> b = e1 (vget b 0).
Proof. destruct b as [|a [|? ?]]; try discriminate. reflexivity. Qed.

Lemma chol1_sound : forall Quu L, wf 1 1 Quu -> chol1 Quu = Some L ->
  (forall m M, wf 1 m M -> wf 1 m (csm1 L M) /\ mmul Quu (csm1 L M) = M) /\
  (forall b, length b = 1%nat -> length (csv1 L b) = 1%nat /\ mapply Quu (csv1 L b) = b).
Proof.
  intros Quu L W H. rewrite (wf11 Quu W) in *. set (q := mget Quu 0 0) in *. rewrite chol1_1 in H.
  destruct (Rltb 0 q) eqn:Eq; [|discriminate]. injection H as <-. apply Rltb_true in Eq. split.
  - intros m M WM. assert (Wc : wf 1 m (csm1 q M)).
    { unfold csm1. rewrite (wf_cols _ _ _ WM). apply wf_mkmat; [lia|exact (wf_pos_c _ _ _ WM)]. }
    split; [exact Wc|].
    apply (mat_ext 1 m); [apply (wf_mmul 1 1 m); [apply wf_m1|exact Wc]|exact WM|].
    intros i j Hi Hj. rewrite (mget_mmul 1 1 m) by (try assumption; apply wf_m1).
    assert (i = 0)%nat by lia. subst i. cbn [sumn]. unfold csm1. rewrite (wf_cols _ _ _ WM).
    rewrite mget_mkmat by lia. change (mget (m1 q) 0 0) with q. mnum. field. lra.
  - intros b Hb. split; [reflexivity|]. rewrite (len1 b Hb). rewrite csv1_1, mapply_1. apply e1_eq.
    change (vget (e1 (vget b 0)) 0) with (vget b 0). field. lra.
Qed.
Lemma chol1_complete : forall Quu, SPD 1 Quu -> chol1 Quu <> None.
Proof.
  intros Quu (W & _ & P). rewrite (wf11 Quu W) in *. set (q := mget Quu 0 0) in *. rewrite chol1_1.
  assert (Hq : 0 < q).
  { pose proof (P (e1 1) eq_refl) as H. unfold qform in H. change (vdot (e1 1) (mapply (m1 q) (e1 1))) with (bil (m1 q) (e1 1) (e1 1)) in H.
    rewrite bil_1 in H. assert (0 < 1 * (q * 1)); [|lra]. apply H. exists 0%nat. split; [cbn; lia|]. cbn. lra. }
  rewrite (proj2 (Rltb_true 0 q) Hq). discriminate.
Qed.

(* ---- step functions *)
Lemma sN_next_1 s t x u : sN_next (embsys s) t (e1 x) (e1 u) = e1 (s_next s t x u).
Proof.
  unfold sN_next, s_next, nA, nB, nC, embsys. cbn [ncoef fst snd].
  destruct (scoef s t) as [[a b] [c|]]; cbn [fst snd option_map]; autorewrite with dim1; reflexivity.
Qed.
Lemma pbarN_1 st xb ub : pbarN (embst st) (e1 xb) (e1 ub) = (e1 (fst (pbar st xb ub)), e1 (snd (pbar st xb ub))).
Proof. unfold pbarN, pbar, embst. cbn [Nxx Nxu Nux Nuu npx npu fst snd]. autorewrite with dim1. reflexivity. Qed.
Lemma stage_costN_1 st x u : stage_costN (embst st) (e1 x) (e1 u) = stage_cost st x u.
Proof.
  unfold stage_costN, bqN, stage_cost, quad, embst. cbn [Nxx Nxu Nux Nuu npx npu]. autorewrite with dim1. nu. ring.
Qed.

Definition emb4 (r : R * R * R * R) : matR * list R * matR * list R :=
  let '(K, k, V, v) := r in (m1 K, e1 k, m1 V, e1 v).
Lemma gainsN_1 a b c d e f :
  gainsN R chol1 csm1 csv1 (m1 a) (m1 b) (m1 c) (m1 d) (e1 e) (e1 f) = option_map emb4 (gains a b c d e f).
Proof.
  unfold gainsN, gains. rewrite chol1_1. nu. destruct (Rltb 0 d); [|reflexivity].
  cbn [option_map emb4]. unfold gV, gv, gK, gk. autorewrite with dim1.
  assert (H : forall A A' B B' C C' D D' : R, A = A' -> B = B' -> C = C' -> D = D' ->
              Some (m1 A, e1 B, m1 C, e1 D) = Some (m1 A', e1 B', m1 C', e1 D')) by (intros; subst; reflexivity).
  apply H; ring.
Qed.

Definition embit (it : stage (F:=R) * R * R) : stageN * list R * list R :=
  let '(st, xb, ub) := it in (embst st, e1 xb, e1 ub).
Definition embK (Kk : R * R) : matR * list R := (m1 (fst Kk), e1 (snd Kk)).
Definition embb (r : list (R * R) * R * R * Z) : list (matR * list R) * matR * list R * Z :=
  let '(Ks, V, v, tm) := r in (map embK Ks, m1 V, e1 v, tm).

Lemma bwdN_1 s dt : forall l t tm,
  bwdN R chol1 csm1 csv1 (embsys s) dt t tm (map embit l) = option_map embb (bwd s dt t tm l).
Proof.
  induction l as [|[[st xb] ub] rest IH]; intros t tm; [reflexivity|].
  destruct rest as [|it2 r2].
  - cbn [map embit]. rewrite (LQRMat3.bwd_one R chol1 csm1 csv1), LQR.bwd_one. unfold tgainN, LQR.tgain.
    rewrite pbarN_1. cbn [fst snd]. unfold embst at 1 2 3 4. cbn [Nxx Nxu Nux Nuu]. rewrite gainsN_1.
    destruct (gains _ _ _ _ _ _) as [[[[K k] V] v]|]; reflexivity.
  - change (map embit ((st, xb, ub) :: it2 :: r2)) with ((embst st, e1 xb, e1 ub) :: embit it2 :: map embit r2).
    rewrite (LQRMat3.bwd_cons2 R chol1 csm1 csv1), LQR.bwd_cons2.
    change (embit it2 :: map embit r2) with (map embit (it2 :: r2)). rewrite IH.
    destruct (bwd s dt (t + 1)%Z tm (it2 :: r2)) as [[[[Ks V] v] tm1]|]; [|reflexivity].
    cbn [option_map embb]. cbv zeta.
    change (setrefN (embsys s) tm1 (t * dt)) with (setref s tm1 (t * dt)).
    unfold bgainN, LQR.bgain. rewrite pbarN_1. cbn [fst snd].
    unfold nA, nB, embsys. cbn [ncoef fst snd]. unfold embst at 1 2 3 4. cbn [Nxx Nxu Nux Nuu].
    autorewrite with dim1. rewrite gainsN_1.
    match goal with |- match option_map emb4 ?g1 with _ => _ end = option_map embb (match ?g2 with _ => _ end) =>
      replace g1 with g2 end.
    + destruct (gains _ _ _ _ _ _) as [[[[K k] V0] v0]|]; reflexivity.
    + nu. f_equal; ring.
Qed.

Definition embit4 (it : stage (F:=R) * R * R * (R * R)) : stageN * list R * list R * (matR * list R) :=
  let '(st, xb, ub, Kk) := it in (embst st, e1 xb, e1 ub, embK Kk).
Definition embf (r : list R * list R * R * Z) : list (list R) * list (list R) * R * Z :=
  let '(xs, us, c, tm) := r in (map e1 xs, map e1 us, c, tm).
Lemma fwdN_1 s : forall l tm x c,
  fwdN (embsys s) tm (e1 x) (map embit4 l) c = embf (fwd s tm x l c).
Proof.
  induction l as [|[[[st xb] ub] [K k]] r IH]; intros tm x c; [reflexivity|].
  cbn [map embit4]. unfold embK. cbn [fst snd]. rewrite LQRMat3.fwd_cons, LQR.fwd_cons. cbv zeta.
  autorewrite with dim1. rewrite sN_next_1, stage_costN_1. nu. rewrite IH.
  destruct (fwd s (tm + 1)%Z _ r _) as [[[xs us] cf] tmf]. reflexivity.
Qed.

Lemma nomN_1 s : forall prob t x ub,
  nomN (embsys s) t (e1 x) (map embst prob) (map e1 ub) = map embit (LQR2.nomF s t x prob ub).
Proof.
  induction prob as [|st pr IH]; intros t x ub; [reflexivity|]. destruct ub as [|u ur]; [reflexivity|].
  cbn [map nomN LQR2.nomF embit]. rewrite sN_next_1, IH. reflexivity.
Qed.
Lemma combine_emb l : forall Ks, combine (map embit l) (map embK Ks) = map embit4 (combine l Ks).
Proof.
  induction l as [|[[st xb] ub] l IH]; intros Ks; [reflexivity|]. destruct Ks as [|Kk Ks]; [reflexivity|].
  cbn [map combine]. rewrite IH. reflexivity.
Qed.

Lemma map_repeat' {A B} (f : A -> B) a n : map f (repeat a n) = repeat (f a) n.
Proof. induction n as [|n IH]; [reflexivity|]. cbn. now rewrite IH. Qed.
Definition embo (un : option (list R)) : option (list (list R)) := option_map (map e1) un.
Lemma nominalN_1 prob un : nominalN 1 (map embst prob) (embo un) = map e1 (LQR2.nominal prob un).
Proof.
  destruct un as [u|]; [reflexivity|]. cbn [embo option_map nominalN LQR2.nominal].
  rewrite map_length, vzero_1. nu. now rewrite map_repeat'.
Qed.

(* ---- the whole solve *)
Theorem lqrN_dim1_is_model s dt prob x0 un tm :
  lqrN_solve 1 R chol1 csm1 csv1 (embsys s) dt (map embst prob) (e1 x0) (embo un) tm =
  option_map embf (lqr_solve s dt prob x0 un tm).
Proof.
  destruct (Nat.eq_dec (length (LQR2.nominal prob un)) (length prob)) as [El|Hn].
  - destruct prob as [|st0 pr].
    + rewrite LQR2.lqr_solve_nil by exact El. unfold lqrN_solve. rewrite nominalN_1, !map_length, El. reflexivity.
    + rewrite LQR2.lqr_solve_eq by (congruence || exact El). set (prob := st0 :: pr) in *.
      unfold lqrN_solve. rewrite nominalN_1, !map_length, El, Nat.eqb_refl. cbn [negb].
      change (map embst prob) with (embst st0 :: map embst pr). lazy beta iota.
      change (embst st0 :: map embst pr) with (map embst prob). rewrite !tresetN_eq.
      rewrite nomN_1, bwdN_1.
      destruct (bwd s dt 0%Z _ _) as [[[[Ks V] v] tm2]|]; [|reflexivity].
      cbn [option_map embb]. rewrite tresetN_eq, combine_emb, fwdN_1. cbv zeta. change (@zero R NumR) with 0.
      destruct (fwd s 0%Z x0 _ 0) as [[[xs us] c] tm3]. reflexivity.
  - rewrite LQR2.lqr_solve_len by exact Hn. unfold lqrN_solve. rewrite nominalN_1, !map_length.
    apply Nat.eqb_neq in Hn. rewrite Hn. reflexivity.
Qed.

(* ---- the embedding preserves the hypotheses of the matrix theorems *)
Lemma wfsys_1 s : wfsys 1 1 (embsys s).
Proof.
  intros t. unfold nA, nB, nC, embsys. cbn [ncoef fst snd]. split; [apply wf_m1|]. split; [apply wf_m1|].
  destruct (snd (scoef s t)); [reflexivity|exact I].
Qed.
Lemma pdN_1 st : LQR.pd st -> pdN 1 1 (embst st).
Proof.
  intros (Hxx & Huu & Hsym & Hdet). unfold pdN, wfstage, embst. cbn [Nxx Nxu Nux Nuu npx npu].
  split; [repeat (split; [first [apply wf_m1|reflexivity]|]); reflexivity|].
  split; [reflexivity|]. split; [reflexivity|]. split; [rewrite Hsym; reflexivity|]. split.
  - intros x u Hx Hu. rewrite (len1 x Hx), (len1 u Hu). unfold bqN. cbn [Nxx Nxu Nux Nuu]. autorewrite with dim1.
    rewrite Hsym. set (a := vget x 0). set (b := vget u 0). clearbody a b.
    (* qxx a^2 + 2 qxu a b + quu b^2 >= 0 *)
    assert (H : qxx st * (a * (qxx st * a) + a * (qxu st * b) + b * (qxu st * a) + b * (quu st * b))
                = (qxx st * a + qxu st * b) * (qxx st * a + qxu st * b) + (qxx st * quu st - qxu st * qxu st) * (b * b)) by ring.
    assert (0 <= (qxx st * a + qxu st * b) * (qxx st * a + qxu st * b)) by apply Rle_0_sqr.
    assert (0 <= (qxx st * quu st - qxu st * qxu st) * (b * b)) by (apply Rmult_le_pos; [lra|apply Rle_0_sqr]).
    destruct (Rle_or_lt 0 (a * (qxx st * a) + a * (qxu st * b) + b * (qxu st * a) + b * (quu st * b))) as [|Hneg]; [assumption|].
    exfalso. assert (qxx st * (a * (qxx st * a) + a * (qxu st * b) + b * (qxu st * a) + b * (quu st * b)) < 0); [|lra].
    replace (qxx st * (a * (qxx st * a) + a * (qxu st * b) + b * (qxu st * a) + b * (quu st * b)))
      with (- (qxx st * - (a * (qxx st * a) + a * (qxu st * b) + b * (qxu st * a) + b * (quu st * b)))) by ring.
    apply Ropp_lt_gt_0_contravar. apply Rmult_lt_0_compat; lra.
  - intros x Hx (i & Hi & Hne). rewrite (len1 x Hx) in *. unfold qform.
    change (vdot (e1 (vget x 0)) (mapply (m1 (quu st)) (e1 (vget x 0)))) with (bil (m1 (quu st)) (e1 (vget x 0)) (e1 (vget x 0))).
    rewrite bil_1. cbn [length e1] in Hi. assert (i = 0)%nat by lia. subst i.
    change (vget (e1 (vget x 0)) 0) with (vget x 0) in Hne. set (a := vget x 0) in *. clearbody a.
    assert (0 < a * a) by nra. rewrite <- Rmult_assoc, (Rmult_comm a (quu st)), Rmult_assoc. apply Rmult_lt_0_compat; assumption.
Qed.
