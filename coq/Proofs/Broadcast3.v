(* C06, third file: shape-only torch functions that keep the last dimension intact, for ALL shapes.

   A LieTensor of lshape s and item size d IS a torch tensor of shape s ++ [d] ([raw]).  A shape-only
   function builds its result by picking, for every position j of the result, one position of a source
   ([tabulate] / [reindex]: the function written as an index map; this is the specification of the torch
   function and is NOT tied to torch by the harness, which compares the LieTensor result with the same
   torch function on the raw tensor).  What is proved here is the pypose-side claim of the property:
   whenever the index map leaves the last coordinate alone (dimension arguments address batch dimensions),
   the function applied to the raw tensor is the raw tensor of the item-level function -- the result holds
   exactly the selected items, whole -- and LieTensor.__torch_function__ (Model/Broadcast.v) returns it as a
   LieTensor of the first LieTensor argument's ltype without a shape warning. *)
From Coq Require Import String.
From Coq Require Import List Arith Bool PeanoNat Lia.
Import ListNotations.
From PV Require Import Base.Num Model.LieGroup Model.Broadcast Proofs.Broadcast Proofs.Broadcast2.

(* ======================= lists ======================= *)
Lemma flat_map_map' {X Y Z} (f : X -> Y) (g : Y -> list Z) l : flat_map g (map f l) = flat_map (fun x => g (f x)) l.
Proof. induction l; simpl; auto. now rewrite IHl. Qed.
Lemma map_flat_map' {X Y Z} (f : Y -> Z) (g : X -> list Y) l : map f (flat_map g l) = flat_map (fun x => map f (g x)) l.
Proof. induction l; simpl; auto. now rewrite map_app, IHl. Qed.
Lemma flat_map_app' {X Y} (f : X -> list Y) l m : flat_map f (l ++ m) = flat_map f l ++ flat_map f m.
Proof. induction l; simpl; auto. now rewrite IHl, app_assoc. Qed.
Lemma flat_map_flat_map' {X Y Z} (f : X -> list Y) (g : Y -> list Z) l :
  flat_map g (flat_map f l) = flat_map (fun x => flat_map g (f x)) l.
Proof. induction l; simpl; auto. now rewrite flat_map_app', IHl. Qed.
Lemma flat_map_ext' {X Y} (f g : X -> list Y) l : (forall x, In x l -> f x = g x) -> flat_map f l = flat_map g l.
Proof. induction l; simpl; intros H; auto. rewrite H, IHl; auto. Qed.

Lemma map_nth_seq {X} (dX : X) (l : list X) : map (fun c => nth c l dX) (seq 0 (length l)) = l.
Proof.
  induction l as [|a l IH]; simpl; auto. f_equal. rewrite <- seq_shift, map_map. exact IH.
Qed.

(* ======================= enumeration of multi-indices ======================= *)
Lemma indices_valid T : forall i, In i (indices T) -> valid_idx T i.
Proof.
  unfold valid_idx. induction T as [|d T IH]; intros i H; simpl in H.
  - destruct H as [<-|[]]. constructor.
  - apply in_flat_map in H. destruct H as (k & Hk & H). apply in_map_iff in H. destruct H as (i' & <- & H).
    apply in_seq in Hk. constructor; [lia|auto].
Qed.

Lemma indices_app T U : indices (T ++ U) = flat_map (fun i => map (app i) (indices U)) (indices T).
Proof.
  induction T as [|d T IH]; simpl.
  - rewrite app_nil_r. transitivity (map (fun i : list nat => i) (indices U)); [now rewrite map_id|].
    apply map_ext. reflexivity.
  - rewrite IH, flat_map_flat_map'. apply flat_map_ext'. intros k _.
    rewrite map_flat_map', flat_map_map'. apply flat_map_ext'. intros i _. rewrite map_map. reflexivity.
Qed.

Lemma indices_1 d : indices [d] = map (fun c => [c]) (seq 0 d).
Proof. simpl. generalize 0. induction d; intros a; simpl; [reflexivity|]. now rewrite IHd. Qed.

(* ======================= a tensor given entry by entry ======================= *)
Definition tabulate {A} (R : shape) (d : nat) (g : list nat -> A) : tensor A := mkT R d (map g (indices R)).

Lemma tabulate_wf {A} R d (g : list nat -> A) : wf (tabulate R d g).
Proof. unfold wf, tabulate. simpl. now rewrite map_length, indices_length. Qed.
Lemma tabulate_get {A} (dA : A) R d (g : list nat -> A) i : valid_idx R i -> tget dA (tabulate R d g) i = g i.
Proof.
  intros H. unfold tget, tabulate. simpl. apply nth_error_nth.
  now rewrite (map_nth_error g _ _ (nth_error_indices R i H)).
Qed.
Lemma tabulate_ext {A} R d (g g' : list nat -> A) : (forall i, valid_idx R i -> g i = g' i) -> tabulate R d g = tabulate R d g'.
Proof. intros H. unfold tabulate. f_equal. apply map_ext_in. intros i Hi. apply H. now apply indices_valid. Qed.

(* ======================= the raw tensor of a LieTensor ======================= *)
Definition raw {E} (x : tensor (list E)) : tensor E := mkT (tshape x ++ [tdim x]) 1 (concat (titems x)).
(* well-formed, and every item has the size of the last dimension *)
Definition items_ok {E} (x : tensor (list E)) : Prop := wf x /\ Forall (fun it => length it = tdim x) (titems x).

Lemma concat_length_const {E} d (l : list (list E)) : Forall (fun it => length it = d) l -> length (concat l) = length l * d.
Proof. induction 1; simpl; auto. rewrite app_length. lia. Qed.
Lemma concat_nth_const {E} (dE : E) d : forall (l : list (list E)) m c,
  Forall (fun it => length it = d) l -> m < length l -> c < d -> nth (m * d + c) (concat l) dE = nth c (nth m l []) dE.
Proof.
  induction l as [|a l IH]; intros m c H Hm Hc; simpl in Hm; [lia|].
  inversion H as [|? ? La Hl]; subst. simpl concat. destruct m.
  - simpl. apply app_nth1. lia.
  - rewrite app_nth2 by (simpl; lia). replace (S m * length a + c - length a) with (m * length a + c) by (simpl; lia).
    apply IH; auto. lia.
Qed.

Lemma raw_wf {E} (x : tensor (list E)) : items_ok x -> wf (raw x).
Proof.
  intros [W I]. unfold wf, raw in *. simpl. rewrite numel_app, (concat_length_const _ _ I), W. simpl. lia.
Qed.

Lemma item_length {E} (x : tensor (list E)) i : items_ok x -> valid_idx (tshape x) i -> length (tget [] x i) = tdim x.
Proof.
  intros [W I] V. unfold tget. rewrite Forall_forall in I. apply I. apply nth_In. rewrite W. now apply ravel_lt.
Qed.

(* entry c of item i *)
Lemma tget_raw {E} (dE : E) (x : tensor (list E)) i c : items_ok x -> valid_idx (tshape x) i -> c < tdim x ->
  tget dE (raw x) (i ++ [c]) = nth c (tget [] x i) dE.
Proof.
  intros [W I] V Hc. unfold tget, raw. simpl.
  rewrite ravel_app by (now apply valid_idx_length). simpl.
  replace (ravel [tdim x] [c]) with c by (unfold ravel; simpl; lia). rewrite Nat.mul_1_r.
  apply concat_nth_const; auto. rewrite W. now apply ravel_lt.
Qed.

(* THE GENERIC STATEMENT: a tensor of shape T ++ [d] whose entry (i, c) is entry c of an item [it i] of size d
   is the raw tensor of the LieTensor of lshape T with items [it i] *)
Theorem tabulate_raw {E} (dE : E) T d (it : list nat -> list E) (g : list nat -> E) :
  (forall i, valid_idx T i -> length (it i) = d) ->
  (forall i c, valid_idx T i -> c < d -> g (i ++ [c]) = nth c (it i) dE) ->
  tabulate (T ++ [d]) 1 g = raw (tabulate T d it).
Proof.
  intros L G. unfold tabulate, raw. simpl. f_equal.
  rewrite indices_app, flat_map_concat_map, concat_map, map_map. f_equal.
  apply map_ext_in. intros i Hi. apply indices_valid in Hi.
  rewrite indices_1, !map_map.
  transitivity (map (fun c => nth c (it i) dE) (seq 0 (length (it i)))); [|apply map_nth_seq].
  rewrite (L i Hi). apply map_ext_in. intros c Hc. apply in_seq in Hc. apply G; [exact Hi|lia].
Qed.

Lemma tabulate_items_ok {E} T d (it : list nat -> list E) :
  (forall i, valid_idx T i -> length (it i) = d) -> items_ok (tabulate T d it).
Proof.
  intros L. split; [apply tabulate_wf|]. unfold tabulate. simpl. apply Forall_forall. intros y Hy.
  apply in_map_iff in Hy. destruct Hy as (i & <- & Hi). apply L. now apply indices_valid.
Qed.

(* ======================= one source, an index map ======================= *)
(* result[j] = t[sigma j] for every position j of the result shape R *)
Definition reindex {A} (dA : A) (R : shape) (sigma : list nat -> list nat) (t : tensor A) : tensor A :=
  tabulate R (tdim t) (fun j => tget dA t (sigma j)).

(* if sigma acts on the batch part of the index only, the function selects whole items *)
Theorem reindex_raw {E} (dE : E) (x : tensor (list E)) T (phi sigma : list nat -> list nat) :
  items_ok x ->
  (forall i, valid_idx T i -> valid_idx (tshape x) (phi i)) ->
  (forall i c, valid_idx T i -> c < tdim x -> sigma (i ++ [c]) = phi i ++ [c]) ->
  reindex dE (T ++ [tdim x]) sigma (raw x) = raw (reindex [] T phi x) /\
  items_ok (reindex [] T phi x) /\
  forall i, valid_idx T i -> tget [] (reindex [] T phi x) i = tget [] x (phi i).
Proof.
  intros OK V S. split; [|split].
  - unfold reindex. simpl. apply (tabulate_raw dE).
    + intros i Hi. apply item_length; auto.
    + intros i c Hi Hc. rewrite (S i c Hi Hc). apply tget_raw; auto.
  - apply tabulate_items_ok. intros i Hi. apply item_length; auto.
  - intros i Hi. unfold reindex. now rewrite tabulate_get.
Qed.

(* ======================= index surgery ======================= *)
Definition del_at {X} (k : nat) (l : list X) : list X := firstn k l ++ skipn (S k) l.
Definition ins_at {X} (k : nat) (v : X) (l : list X) : list X := firstn k l ++ v :: skipn k l.
Definition set_at {X} (k : nat) (v : X) (l : list X) : list X := firstn k l ++ v :: skipn (S k) l.

Lemma firstn_app_le {X} k (l m : list X) : k <= length l -> firstn k (l ++ m) = firstn k l.
Proof. intros H. rewrite firstn_app. replace (k - length l) with 0 by lia. simpl. apply app_nil_r. Qed.
Lemma skipn_app_le {X} k (l m : list X) : k <= length l -> skipn k (l ++ m) = skipn k l ++ m.
Proof. intros H. rewrite skipn_app. replace (k - length l) with 0 by lia. reflexivity. Qed.

Lemma del_at_app {X} k (l m : list X) : k < length l -> del_at k (l ++ m) = del_at k l ++ m.
Proof. intros H. unfold del_at. rewrite firstn_app_le, skipn_app_le by lia. now rewrite app_assoc. Qed.
Lemma ins_at_app {X} k v (l m : list X) : k <= length l -> ins_at k v (l ++ m) = ins_at k v l ++ m.
Proof. intros H. unfold ins_at. rewrite firstn_app_le, skipn_app_le by lia. now rewrite <- app_assoc. Qed.
Lemma set_at_app {X} k v (l m : list X) : k < length l -> set_at k v (l ++ m) = set_at k v l ++ m.
Proof. intros H. unfold set_at. rewrite firstn_app_le, skipn_app_le by lia. now rewrite <- app_assoc. Qed.

Lemma split_at {X} (d : X) k (l : list X) : k < length l -> l = firstn k l ++ nth k l d :: skipn (S k) l.
Proof.
  revert l. induction k; intros [|a l] H; simpl in *; try lia; auto. f_equal. apply IHk. lia.
Qed.

Lemma Forall2_firstn {X Y} (P : X -> Y -> Prop) m : forall l l', Forall2 P l l' -> Forall2 P (firstn m l) (firstn m l').
Proof. induction m; intros l l' H; simpl; [constructor|]. destruct H; simpl; constructor; auto. Qed.

Lemma valid_split k s i : valid_idx s i -> valid_idx (firstn k s) (firstn k i) /\ valid_idx (skipn k s) (skipn k i).
Proof. unfold valid_idx. intros H. split; [now apply Forall2_firstn|now apply Forall2_skipn]. Qed.

Lemma firstn_exact {X} k (l m : list X) : length l = k -> firstn k (l ++ m) = l.
Proof. intros <-. rewrite firstn_app, Nat.sub_diag, firstn_all. simpl. apply app_nil_r. Qed.
Lemma skipn_exact {X} k (l m : list X) : length l = k -> skipn k (l ++ m) = m.
Proof. intros <-. rewrite skipn_app, Nat.sub_diag, skipn_all. reflexivity. Qed.

(* the three validity facts *)
Lemma valid_ins k m s i : k < length s -> m < nth k s 0 -> valid_idx (del_at k s) i -> valid_idx s (ins_at k m i).
Proof.
  intros Hk Hm V. unfold del_at in V. destruct (valid_split k _ _ V) as [V1 V2].
  assert (Lk : length (firstn k s) = k) by (rewrite firstn_length; lia).
  rewrite (firstn_exact k) in V1 by exact Lk. rewrite (skipn_exact k) in V2 by exact Lk.
  rewrite (split_at 0 k s Hk) at 1. unfold ins_at. apply valid_idx_app; [exact V1|]. constructor; assumption.
Qed.

Lemma valid_set k e v s i : k < length s -> v < nth k s 0 -> valid_idx (set_at k e s) i -> valid_idx s (set_at k v i).
Proof.
  intros Hk Hv V. unfold set_at in V. destruct (valid_split k _ _ V) as [V1 V2].
  assert (Lk : length (firstn k s) = k) by (rewrite firstn_length; lia).
  rewrite (firstn_exact k) in V1 by exact Lk. rewrite (skipn_exact k) in V2 by exact Lk.
  inversion V2 as [|a e' rest s2 Ha Hrest E1 E2]; subst.
  assert (Er : skipn (S k) i = rest).
  { replace (S k) with (k + 1) by lia. rewrite <- skipn_skipn', <- E1. reflexivity. }
  rewrite (split_at 0 k s Hk) at 1. unfold set_at. apply valid_idx_app; [exact V1|]. rewrite Er. constructor; assumption.
Qed.

Lemma valid_set_nth k e s i : k < length s -> valid_idx (set_at k e s) i -> nth k i 0 < e.
Proof.
  intros Hk V. unfold set_at in V. destruct (valid_split k _ _ V) as [_ V2].
  assert (Lk : length (firstn k s) = k) by (rewrite firstn_length; lia).
  rewrite (skipn_exact k) in V2 by exact Lk.
  inversion V2 as [|a e' rest s2 Ha Hrest E1 E2]; subst.
  rewrite <- (Nat.add_0_r k). rewrite <- nth_skipn', <- E1. exact Ha.
Qed.

Lemma valid_del k e s i : k <= length s -> valid_idx (ins_at k e s) i -> valid_idx s (del_at k i) /\ nth k i 0 < e.
Proof.
  intros Hk V. unfold ins_at in V. destruct (valid_split k _ _ V) as [V1 V2].
  assert (Lk : length (firstn k s) = k) by (rewrite firstn_length; lia).
  rewrite (firstn_exact k) in V1 by exact Lk. rewrite (skipn_exact k) in V2 by exact Lk.
  inversion V2 as [|a e' rest s2 Ha Hrest E1 E2]; subst.
  assert (Er : skipn (S k) i = rest).
  { replace (S k) with (k + 1) by lia. rewrite <- skipn_skipn', <- E1. reflexivity. }
  split.
  - rewrite <- (firstn_skipn k s). unfold del_at. apply valid_idx_app; [exact V1|]. now rewrite Er.
  - rewrite <- (Nat.add_0_r k). rewrite <- nth_skipn', <- E1. exact Ha.
Qed.

Lemma del_at_length {X} k (l : list X) : k < length l -> length (del_at k l) = length l - 1.
Proof. intros H. unfold del_at. rewrite app_length, firstn_length, skipn_length. lia. Qed.
Lemma ins_at_length {X} k v (l : list X) : k <= length l -> length (ins_at k v l) = S (length l).
Proof. intros H. unfold ins_at. rewrite app_length, firstn_length. cbn [length]. rewrite skipn_length. lia. Qed.
Lemma set_at_length {X} k v (l : list X) : k < length l -> length (set_at k v l) = length l.
Proof. intros H. unfold set_at. rewrite app_length, firstn_length. cbn [length]. rewrite skipn_length. lia. Qed.
Lemma set_at_self {X} (d : X) k (l : list X) : k < length l -> set_at k (nth k l d) l = l.
Proof. intros H. unfold set_at. symmetry. now apply split_at. Qed.
Lemma nth_set_at {X} (d : X) k v (l : list X) : k < length l -> nth k (set_at k v l) d = v.
Proof.
  intros H. unfold set_at. rewrite app_nth2 by (rewrite firstn_length; lia).
  rewrite firstn_length. replace (k - Nat.min k (length l)) with 0 by lia. reflexivity.
Qed.
Lemma set_at_set_at {X} k v w (l : list X) : k < length l -> set_at k v (set_at k w l) = set_at k v l.
Proof.
  intros H. unfold set_at at 1 3.
  assert (Lk : length (firstn k l) = k) by (rewrite firstn_length; lia).
  unfold set_at. rewrite (firstn_exact k) by exact Lk.
  replace (S k) with (k + 1) at 1 by lia. rewrite <- skipn_skipn', (skipn_exact k) by exact Lk. reflexivity.
Qed.

(* ======================= the functions (specification of the torch functions as index maps) ======================= *)
Fixpoint pos (m : nat) (p : list nat) : nat :=
  match p with [] => 0 | a :: r => if a =? m then 0 else S (pos m r) end.
Definition unperm (p : list nat) (i : list nat) : list nat := map (fun m => nth (pos m p) i 0) (seq 0 (length p)).
(* p lists 0 .. n-1 in some order *)
Definition is_perm (p : list nat) (n : nat) : Prop := length p = n /\ Forall (fun m => m < n) p /\ forall m, m < n -> In m p.

Section Funcs.
Context {A : Type} (dA : A).
(* X.select(k, m), X[:, .., m] with an integer, one piece of unbind(k) *)
Definition t_select (k m : nat) (t : tensor A) : tensor A := reindex dA (del_at k (tshape t)) (ins_at k m) t.
(* dimension k gets extent e; position i of the result reads position h(i) of dimension k:
   narrow / split and chunk pieces / slices with a step / index_select / tensor indices / flip / roll /
   repeat and tile along k / gather and take_along_dim with an index that is constant along the last dimension *)
Definition t_remap (k e : nat) (h : list nat -> nat) (t : tensor A) : tensor A :=
  reindex dA (set_at k e (tshape t)) (fun i => set_at k (h i) i) t.
(* X.unsqueeze(k), X[:, .., None] *)
Definition t_unsqueeze (k : nat) (t : tensor A) : tensor A := reindex dA (ins_at k 1 (tshape t)) (del_at k) t.
(* X.expand(T), expand_as *)
Definition t_expand (T : shape) (t : tensor A) : tensor A := reindex dA T (bidx (tshape t)) t.
(* view / reshape / view_as of a contiguous tensor: same data, another shape *)
Definition t_reshape (T : shape) (t : tensor A) : tensor A := mkT T (tdim t) (titems t).
(* X.permute(p) (transpose, swapaxes, swapdims, movedim, moveaxis are permutations): result dimension q is source dimension p[q] *)
Definition t_permute (p : list nat) (t : tensor A) : tensor A :=
  reindex dA (map (fun m => nth m (tshape t) 0) p) (unperm p) t.
(* torch.cat([x, y], k) (concat, vstack / hstack / dstack / row_stack on suitable ranks) *)
Definition t_cat (k : nat) (x y : tensor A) : tensor A :=
  let e1 := nth k (tshape x) 0 in
  tabulate (set_at k (e1 + nth k (tshape y) 0) (tshape x)) (tdim x)
           (fun i => if nth k i 0 <? e1 then tget dA x i else tget dA y (set_at k (nth k i 0 - e1) i)).
(* torch.stack(xs, k), all of the shape of x0 *)
Definition t_stack (k : nat) (x0 : tensor A) (xs : list (tensor A)) : tensor A :=
  tabulate (ins_at k (length xs) (tshape x0)) (tdim x0) (fun i => tget dA (nth (nth k i 0) xs x0) (del_at k i)).
End Funcs.

Section RawCommutes.
Context {E : Type} (dE : E).
Variable x : tensor (list E).
Hypothesis OK : items_ok x.
Local Notation s := (tshape x).
Local Notation d := (tdim x).

Theorem select_raw k m : k < length s -> m < nth k s 0 ->
  t_select dE k m (raw x) = raw (t_select [] k m x) /\ items_ok (t_select [] k m x) /\
  forall i, valid_idx (del_at k s) i -> tget [] (t_select [] k m x) i = tget [] x (ins_at k m i).
Proof.
  intros Hk Hm. unfold t_select. change (tshape (raw x)) with (s ++ [d]). rewrite del_at_app by exact Hk.
  apply reindex_raw; auto.
  - intros i V. now apply valid_ins.
  - intros i c V _. apply ins_at_app. rewrite (valid_idx_length _ _ V), del_at_length by exact Hk. lia.
Qed.

Theorem remap_raw k e h : k < length s -> (forall i, valid_idx (set_at k e s) i -> h i < nth k s 0) ->
  t_remap dE k e (fun j => h (removelast j)) (raw x) = raw (t_remap [] k e h x) /\ items_ok (t_remap [] k e h x) /\
  forall i, valid_idx (set_at k e s) i -> tget [] (t_remap [] k e h x) i = tget [] x (set_at k (h i) i).
Proof.
  intros Hk Hh. unfold t_remap. change (tshape (raw x)) with (s ++ [d]). rewrite set_at_app by exact Hk.
  apply (reindex_raw dE x (set_at k e s) (fun i => set_at k (h i) i)); auto.
  - intros i V. eapply valid_set; eauto.
  - intros i c V _. rewrite removelast_last. apply set_at_app.
    rewrite (valid_idx_length _ _ V), set_at_length by exact Hk. exact Hk.
Qed.

Theorem unsqueeze_raw k : k <= length s ->
  t_unsqueeze dE k (raw x) = raw (t_unsqueeze [] k x) /\ items_ok (t_unsqueeze [] k x) /\
  forall i, valid_idx (ins_at k 1 s) i -> tget [] (t_unsqueeze [] k x) i = tget [] x (del_at k i).
Proof.
  intros Hk. unfold t_unsqueeze. change (tshape (raw x)) with (s ++ [d]). rewrite ins_at_app by exact Hk.
  apply reindex_raw; auto.
  - intros i V. now apply (valid_del k 1).
  - intros i c V _. apply del_at_app. rewrite (valid_idx_length _ _ V), ins_at_length by exact Hk. lia.
Qed.

Lemma bidx_eq_length : forall s0 i, length i = length s0 -> length (bidx_eq s0 i) = length s0.
Proof. induction s0; intros [|j i] L; simpl in *; try discriminate; auto. Qed.

Theorem expand_raw T : length s <= length T -> compat (pad (length T) s) T ->
  t_expand dE (T ++ [d]) (raw x) = raw (t_expand [] T x) /\ items_ok (t_expand [] T x) /\
  forall i, valid_idx T i -> tget [] (t_expand [] T x) i = tget [] x (bidx s i).
Proof.
  intros Hl Hc. unfold t_expand. change (tshape (raw x)) with (s ++ [d]).
  apply reindex_raw; auto.
  - intros i V. now apply (bidx_valid s T).
  - intros i c V Hcd. pose proof (valid_idx_length _ _ V) as Li. unfold bidx.
    rewrite !app_length. simpl length.
    replace (length i + 1 - (length s + 1)) with (length i - length s) by lia.
    assert (Ep : pad (length i + 1) (s ++ [d]) = pad (length i) s ++ [d]).
    { unfold pad. rewrite app_length. simpl length.
      replace (length i + 1 - (length s + 1)) with (length i - length s) by lia. now rewrite app_assoc. }
    rewrite Ep. rewrite bidx_eq_app by (rewrite pad_length; lia).
    rewrite skipn_app_le by (rewrite bidx_eq_length; rewrite pad_length; lia).
    f_equal. simpl. destruct (d =? 1) eqn:E1; [apply Nat.eqb_eq in E1; f_equal; lia|reflexivity].
Qed.

Theorem reshape_raw T : numel T = numel s ->
  t_reshape (T ++ [d]) (raw x) = raw (t_reshape T x) /\ items_ok (t_reshape T x) /\
  forall i, valid_idx T i -> tget [] (t_reshape T x) i = tget [] x (unravel s (ravel T i)).
Proof.
  intros Hn. destruct OK as [W I]. split; [reflexivity|]. split; [split; [unfold wf, t_reshape in *; simpl; congruence|exact I]|].
  intros i V. unfold tget at 1. simpl. apply tget_flat. rewrite <- Hn. now apply ravel_lt.
Qed.
End RawCommutes.

(* ---------------- permutations ---------------- *)
Lemma pos_in m : forall p, In m p -> pos m p < length p /\ nth (pos m p) p 0 = m.
Proof.
  induction p as [|a p IH]; intros H; [destruct H|]. simpl.
  destruct (a =? m) eqn:E; [apply Nat.eqb_eq in E; simpl; split; [lia|exact E]|].
  destruct H as [H|H]; [apply Nat.eqb_neq in E; contradiction|]. destruct (IH H). split; [lia|assumption].
Qed.
Lemma pos_notin m : forall p, ~ In m p -> pos m p = length p.
Proof.
  induction p as [|a p IH]; intros H; simpl; auto.
  destruct (a =? m) eqn:E; [apply Nat.eqb_eq in E; exfalso; apply H; now left|].
  f_equal. apply IH. intro; apply H; now right.
Qed.
Lemma pos_app_in m p q : In m p -> pos m (p ++ q) = pos m p.
Proof.
  induction p as [|a p IH]; intros H; [destruct H|]. simpl. destruct (a =? m) eqn:E; auto.
  destruct H as [H|H]; [apply Nat.eqb_neq in E; contradiction|]. now rewrite IH.
Qed.
Lemma pos_app_notin m p q : ~ In m p -> pos m (p ++ q) = length p + pos m q.
Proof.
  induction p as [|a p IH]; intros H; simpl; auto.
  destruct (a =? m) eqn:E; [apply Nat.eqb_eq in E; exfalso; apply H; now left|].
  f_equal. apply IH. intro; apply H; now right.
Qed.

Lemma valid_nth s i : valid_idx s i <-> length i = length s /\ forall q, q < length s -> nth q i 0 < nth q s 0.
Proof.
  unfold valid_idx. split.
  - induction 1 as [|j a i' s' Hj H IH]; simpl.
    + split; [reflexivity|intros q Hq; lia].
    + destruct IH as [L G]. split; [lia|]. intros [|q] Hq; [assumption|apply G; lia].
  - revert i. induction s as [|a s IH]; intros [|j i] [L H]; simpl in L; try discriminate; constructor.
    + apply (H 0). simpl. lia.
    + apply IH. split; [lia|]. intros q Hq. apply (H (S q)). simpl. lia.
Qed.

Lemma nth_map_default {X} (f : nat -> X) (dX : X) p q : q < length p -> nth q (map f p) dX = f (nth q p 0).
Proof. intros H. rewrite (nth_indep _ dX (f 0)) by (now rewrite map_length). apply map_nth. Qed.

Lemma valid_unperm p s i : is_perm p (length s) ->
  valid_idx (map (fun m => nth m s 0) p) i -> valid_idx s (unperm p i).
Proof.
  intros (Lp & Rp & Ip) V. apply valid_nth in V. destruct V as [Li V]. rewrite map_length in Li, V.
  apply valid_nth. unfold unperm. rewrite map_length, seq_length. split; [exact Lp|].
  intros q Hq. rewrite Lp. rewrite nth_map_seq by exact Hq.
  destruct (pos_in q p (Ip q Hq)) as [P1 P2].
  specialize (V _ P1). rewrite nth_map_default in V by exact P1. now rewrite P2 in V.
Qed.

Section RawCommutes2.
Context {E : Type} (dE : E).
Variable x : tensor (list E).
Hypothesis OK : items_ok x.
Local Notation s := (tshape x).
Local Notation d := (tdim x).

(* permute with the last dimension kept last *)
Theorem permute_raw p : is_perm p (length s) ->
  t_permute dE (p ++ [length s]) (raw x) = raw (t_permute [] p x) /\ items_ok (t_permute [] p x) /\
  forall i, valid_idx (map (fun m => nth m s 0) p) i -> tget [] (t_permute [] p x) i = tget [] x (unperm p i).
Proof.
  intros P. pose proof P as (Lp & Rp & Ip). unfold t_permute. change (tshape (raw x)) with (s ++ [d]).
  assert (Es : map (fun m => nth m (s ++ [d]) 0) (p ++ [length s]) = map (fun m => nth m s 0) p ++ [d]).
  { rewrite map_app. simpl. rewrite app_nth2, Nat.sub_diag by lia. simpl. f_equal.
    apply map_ext_in. intros m Hm. rewrite Forall_forall in Rp. apply app_nth1. now apply Rp. }
  rewrite Es. apply reindex_raw; auto.
  - intros i V. now apply valid_unperm.
  - intros i c V _. pose proof (valid_idx_length _ _ V) as Li. rewrite map_length in Li.
    unfold unperm. rewrite app_length. simpl length. rewrite seq_app, map_app. simpl. f_equal.
    + apply map_ext_in. intros m Hm. apply in_seq in Hm.
      assert (Im : In m p) by (apply Ip; lia).
      rewrite (pos_app_in m p _ Im). apply app_nth1. rewrite Li. now apply pos_in.
    + f_equal. assert (Nn : ~ In (length p) p).
      { intro I. rewrite Forall_forall in Rp. specialize (Rp _ I). lia. }
      rewrite Lp at 1. rewrite <- Lp at 1. rewrite (pos_app_notin _ p _ Nn). simpl.
      rewrite Lp, Nat.eqb_refl, Nat.add_0_r. rewrite <- Lp, <- Li. rewrite app_nth2, Nat.sub_diag by lia. reflexivity.
Qed.
End RawCommutes2.

(* ---------------- several sources: cat, stack ---------------- *)
Section RawCommutes3.
Context {E : Type} (dE : E).

(* cat along a batch dimension k: y has the lshape of x except for dimension k *)
Theorem cat_raw (x y : tensor (list E)) k e2 : items_ok x -> items_ok y -> tdim y = tdim x ->
  k < length (tshape x) -> tshape y = set_at k e2 (tshape x) ->
  t_cat dE k (raw x) (raw y) = raw (t_cat [] k x y) /\ items_ok (t_cat [] k x y) /\
  forall i, valid_idx (set_at k (nth k (tshape x) 0 + e2) (tshape x)) i ->
    tget [] (t_cat [] k x y) i =
    if nth k i 0 <? nth k (tshape x) 0 then tget [] x i else tget [] y (set_at k (nth k i 0 - nth k (tshape x) 0) i).
Proof.
  intros Ox Oy Dy Hk Sy. set (s := tshape x) in *. set (e1 := nth k s 0).
  assert (Ey : nth k (tshape y) 0 = e2) by (rewrite Sy; now apply nth_set_at).
  (* where the two branches read *)
  assert (Vx : forall i, valid_idx (set_at k (e1 + e2) s) i -> nth k i 0 < e1 -> valid_idx s i).
  { intros i V Hi. rewrite <- (set_at_self 0 k i) by (rewrite (valid_idx_length _ _ V), set_at_length; assumption).
    eapply valid_set; eauto. }
  assert (Vy : forall i, valid_idx (set_at k (e1 + e2) s) i -> e1 <= nth k i 0 ->
                         valid_idx (tshape y) (set_at k (nth k i 0 - e1) i)).
  { intros i V Hi. pose proof (valid_set_nth _ _ _ _ Hk V) as Hlt.
    apply (valid_set k (e1 + e2)); [rewrite Sy, set_at_length; assumption|rewrite Ey; (subst e1 s; lia)|].
    now rewrite Sy, set_at_set_at. }
  assert (Lit : forall i, valid_idx (set_at k (e1 + e2) s) i ->
     length (if nth k i 0 <? e1 then tget [] x i else tget [] y (set_at k (nth k i 0 - e1) i)) = tdim x).
  { intros i V. destruct (nth k i 0 <? e1) eqn:C.
    - apply Nat.ltb_lt in C. apply item_length; auto.
    - apply Nat.ltb_ge in C. rewrite <- Dy. apply item_length; auto. }
  split; [|split].
  - unfold t_cat. change (tshape (raw x)) with (s ++ [tdim x]). change (tshape (raw y)) with (tshape y ++ [tdim y]).
    change (tdim (raw x)) with 1.
    rewrite !app_nth1 by (try rewrite Sy, set_at_length; assumption). fold e1. rewrite Ey.
    rewrite set_at_app by exact Hk. apply (tabulate_raw dE); [exact Lit|].
    intros i c V Hc. pose proof (valid_idx_length _ _ V) as Li. rewrite set_at_length in Li by exact Hk.
    rewrite app_nth1 by (subst e1 s; lia). fold s. fold e1. fold s in V. fold e1 in V. destruct (nth k i 0 <? e1) eqn:C.
    + apply Nat.ltb_lt in C. apply tget_raw; auto.
    + apply Nat.ltb_ge in C. rewrite set_at_app by (subst e1 s; lia). apply tget_raw; [exact Oy|now apply Vy|now rewrite Dy].
  - unfold t_cat. fold s. fold e1. rewrite Ey. now apply tabulate_items_ok.
  - intros i V. unfold t_cat. fold s. fold e1. rewrite Ey. now rewrite tabulate_get.
Qed.

(* stack along a batch position k <= lrank: all operands have the lshape and item size of x0 *)
Theorem stack_raw (x0 : tensor (list E)) (xs : list (tensor (list E))) k :
  Forall (fun x => items_ok x /\ tshape x = tshape x0 /\ tdim x = tdim x0) xs -> k <= length (tshape x0) ->
  t_stack dE k (raw x0) (map raw xs) = raw (t_stack [] k x0 xs) /\ items_ok (t_stack [] k x0 xs) /\
  forall i, valid_idx (ins_at k (length xs) (tshape x0)) i ->
    tget [] (t_stack [] k x0 xs) i = tget [] (nth (nth k i 0) xs x0) (del_at k i).
Proof.
  intros H Hk. set (s := tshape x0) in *. set (d := tdim x0) in *.
  assert (G : forall i, valid_idx (ins_at k (length xs) s) i ->
     let xi := nth (nth k i 0) xs x0 in items_ok xi /\ tshape xi = s /\ tdim xi = d /\ valid_idx s (del_at k i)).
  { intros i V. destruct (valid_del _ _ _ _ Hk V) as [Vd Hn]. rewrite Forall_forall in H.
    destruct (H (nth (nth k i 0) xs x0) (nth_In _ _ Hn)) as (A & B & C). auto. }
  assert (Lit : forall i, valid_idx (ins_at k (length xs) s) i -> length (tget [] (nth (nth k i 0) xs x0) (del_at k i)) = d).
  { intros i V. destruct (G i V) as (A & B & C & Vd). rewrite <- C. apply item_length; [exact A|now rewrite B]. }
  split; [|split].
  - unfold t_stack. change (tshape (raw x0)) with (s ++ [d]). change (tdim (raw x0)) with 1. rewrite map_length.
    rewrite ins_at_app by exact Hk. apply (tabulate_raw dE); [exact Lit|].
    intros i c V Hc. destruct (G i V) as (A & B & C & Vd).
    pose proof (valid_idx_length _ _ V) as Li. rewrite ins_at_length in Li by exact Hk.
    rewrite app_nth1 by (subst s d; lia). rewrite del_at_app by (subst s d; lia).
    change (raw x0) with ((fun t => raw t) x0). rewrite map_nth.
    apply tget_raw; [exact A|now rewrite B|now rewrite C].
  - unfold t_stack. fold s. fold d. now apply tabulate_items_ok.
  - intros i V. unfold t_stack. fold s. now rewrite tabulate_get.
Qed.
End RawCommutes3.

(* ---------------- writing one tensor into another: scatter family ---------------- *)
(* result[j] = src[sigma j] where sel j holds, x[j] elsewhere, shape of x: select_scatter, index_copy, index_put,
   scatter / scatter-like assignments whose index does not depend on the position inside an item *)
Definition t_overwrite {A} (dA : A) (sel : list nat -> bool) (sigma : list nat -> list nat) (x src : tensor A) : tensor A :=
  tabulate (tshape x) (tdim x) (fun j => if sel j then tget dA src (sigma j) else tget dA x j).

Theorem overwrite_raw {E} (dE : E) (x src : tensor (list E)) (sel : list nat -> bool) (phi : list nat -> list nat) :
  items_ok x -> items_ok src -> tdim src = tdim x ->
  (forall i, valid_idx (tshape x) i -> sel i = true -> valid_idx (tshape src) (phi i)) ->
  t_overwrite dE (fun j => sel (removelast j)) (fun j => phi (removelast j) ++ [last j 0]) (raw x) (raw src)
    = raw (t_overwrite [] sel phi x src) /\
  items_ok (t_overwrite [] sel phi x src) /\
  forall i, valid_idx (tshape x) i ->
    tget [] (t_overwrite [] sel phi x src) i = if sel i then tget [] src (phi i) else tget [] x i.
Proof.
  intros Ox Os Ds V.
  assert (Lit : forall i, valid_idx (tshape x) i -> length (if sel i then tget [] src (phi i) else tget [] x i) = tdim x).
  { intros i Hi. destruct (sel i) eqn:S; [rewrite <- Ds|]; apply item_length; auto. }
  split; [|split].
  - unfold t_overwrite. change (tshape (raw x)) with (tshape x ++ [tdim x]). change (tdim (raw x)) with 1.
    apply (tabulate_raw dE); [exact Lit|]. intros i c Hi Hc. rewrite removelast_last, last_last.
    destruct (sel i) eqn:S; apply tget_raw; auto. now rewrite Ds.
  - unfold t_overwrite. now apply tabulate_items_ok.
  - intros i Hi. unfold t_overwrite. now rewrite tabulate_get.
Qed.

Lemma valid_del_at k s i : valid_idx s i -> valid_idx (del_at k s) (del_at k i).
Proof.
  intros V. unfold del_at. apply valid_idx_app; [apply (valid_split k _ _ V)|apply (valid_split (S k) _ _ V)].
Qed.

(* X.select_scatter(src, k, m): the items of src at position m of dimension k, the items of X elsewhere *)
Theorem select_scatter_raw {E} (dE : E) (x src : tensor (list E)) k m :
  items_ok x -> items_ok src -> tdim src = tdim x -> tshape src = del_at k (tshape x) ->
  let sel := fun i => nth k i 0 =? m in
  t_overwrite dE (fun j => sel (removelast j)) (fun j => del_at k (removelast j) ++ [last j 0]) (raw x) (raw src)
    = raw (t_overwrite [] sel (del_at k) x src) /\
  forall i, valid_idx (tshape x) i ->
    tget [] (t_overwrite [] sel (del_at k) x src) i = if nth k i 0 =? m then tget [] src (del_at k i) else tget [] x i.
Proof.
  intros Ox Os Ds Ss sel.
  destruct (overwrite_raw dE x src sel (del_at k) Ox Os Ds) as (A & _ & C).
  - intros i Hi _. rewrite Ss. now apply valid_del_at.
  - split; [exact A|exact C].
Qed.

(* the index-map specification of expand agrees with the strided view of Model/Broadcast.v (which IS tied) *)
Lemma flat_expand_is_t_expand {A} (dA : A) (x : tensor A) T st : tdim x <> 0 -> expand_strides (tshape x) T = Some st ->
  flat_expand dA x T = Some (titems (t_expand dA T x)).
Proof.
  intros Hd He. unfold flat_expand. apply Nat.eqb_neq in Hd. rewrite Hd, He. f_equal.
  unfold t_expand, reindex, tabulate. simpl. apply map_ext_in. intros i Hi. apply indices_valid in Hi.
  unfold tget. now rewrite (expand_offset _ _ _ _ He Hi).
Qed.

(* ======================= chains of shape-only calls ======================= *)
Inductive sop :=
| OSelect (k m : nat) | ORemap (k e : nat) (h : list nat -> nat) | OUnsqueeze (k : nat)
| OExpand (T : shape) | OReshape (T : shape) | OPermute (p : list nat).
(* the preconditions: dimension arguments address batch dimensions, indices in range, torch's own shape rules *)
Definition sop_ok (o : sop) (s : shape) : Prop :=
  match o with
  | OSelect k m => k < length s /\ m < nth k s 0
  | ORemap k e h => k < length s /\ forall i, valid_idx (set_at k e s) i -> h i < nth k s 0
  | OUnsqueeze k => k <= length s
  | OExpand T => length s <= length T /\ compat (pad (length T) s) T
  | OReshape T => numel T = numel s
  | OPermute p => is_perm p (length s)
  end.
Definition sop_apply {A} (dA : A) (o : sop) (t : tensor A) : tensor A :=
  match o with
  | OSelect k m => t_select dA k m t | ORemap k e h => t_remap dA k e h t | OUnsqueeze k => t_unsqueeze dA k t
  | OExpand T => t_expand dA T t | OReshape T => t_reshape T t | OPermute p => t_permute dA p t
  end.
(* the same call as torch sees it on the raw tensor of lrank n and last dimension d *)
Definition sop_lift (n d : nat) (o : sop) : sop :=
  match o with
  | ORemap k e h => ORemap k e (fun j => h (removelast j))
  | OExpand T => OExpand (T ++ [d]) | OReshape T => OReshape (T ++ [d]) | OPermute p => OPermute (p ++ [n])
  | o => o
  end.

Theorem sop_raw {E} (dE : E) (x : tensor (list E)) o : items_ok x -> sop_ok o (tshape x) ->
  sop_apply dE (sop_lift (length (tshape x)) (tdim x) o) (raw x) = raw (sop_apply [] o x) /\
  items_ok (sop_apply [] o x) /\ tdim (sop_apply [] o x) = tdim x.
Proof.
  intros OK H. destruct o as [k m|k e h|k|T|T|p]; simpl in *.
  - destruct H. destruct (select_raw dE x OK k m) as (A & B & _); auto.
  - destruct H. destruct (remap_raw dE x OK k e h) as (A & B & _); auto.
  - destruct (unsqueeze_raw dE x OK k) as (A & B & _); auto.
  - destruct H. destruct (expand_raw dE x OK T) as (A & B & _); auto.
  - destruct (reshape_raw x OK T) as (A & B & _); auto.
  - destruct (permute_raw dE x OK p) as (A & B & _); auto.
Qed.

Fixpoint run_ops {A} (dA : A) (ops : list sop) (t : tensor A) : tensor A :=
  match ops with [] => t | o :: r => run_ops dA r (sop_apply dA o t) end.
Fixpoint ops_ok {E} (ops : list sop) (x : tensor (list E)) : Prop :=
  match ops with [] => True | o :: r => sop_ok o (tshape x) /\ ops_ok r (sop_apply [] o x) end.
Fixpoint lift_ops {E} (ops : list sop) (x : tensor (list E)) : list sop :=
  match ops with [] => [] | o :: r => sop_lift (length (tshape x)) (tdim x) o :: lift_ops r (sop_apply [] o x) end.

(* any chain, any length, any shapes: the raw results are the raw tensors of the item-level results *)
Theorem ops_raw {E} (dE : E) : forall ops (x : tensor (list E)), items_ok x -> ops_ok ops x ->
  run_ops dE (lift_ops ops x) (raw x) = raw (run_ops [] ops x) /\
  items_ok (run_ops [] ops x) /\ tdim (run_ops [] ops x) = tdim x.
Proof.
  induction ops as [|o r IH]; intros x OK H; simpl.
  - auto.
  - destruct H as [Ho Hr]. destruct (sop_raw dE x o OK Ho) as (A & B & C).
    rewrite A. destruct (IH _ B Hr) as (A' & B' & C'). rewrite A'. repeat split; try apply B'. congruence.
Qed.

(* ======================= LieTensor.__torch_function__ on such results ======================= *)
Lemma last_is_app ls d d' : last_is (ls ++ [d]) d' = (d =? d').
Proof. unfold last_is. now rewrite rev_app_distr. Qed.

(* a handled function whose result keeps the last dimension: every result tensor becomes a LieTensor of the
   ltype of the FIRST LieTensor argument, same shape, no warning -- any number of result tensors (split, unbind, ..) *)
Theorem wrap_keeps_ltype name lt rest lts kws (Ts : list shape) : handled name = true -> lts ++ kws = lt :: rest ->
  torch_function (Some name) (Some (map (fun T => LPlain (T ++ [dimension lt])) Ts)) lts kws =
  TFData (map (fun T => LLie (Some lt) (T ++ [dimension lt])) Ts) (map (fun _ => false) Ts).
Proof.
  intros H E. unfold torch_function. rewrite H, E. rewrite !map_map. f_equal.
  apply map_ext. intros T. simpl. now rewrite last_is_app, Nat.eqb_refl.
Qed.
(* and it warns exactly when the last dimension is not the ltype's (rank 0 included) *)
Theorem wrap_warns_iff name lt rest lts kws shp : handled name = true -> lts ++ kws = lt :: rest ->
  torch_function (Some name) (Some [LPlain shp]) lts kws =
  TFData [LLie (Some lt) shp] [match rev shp with [] => true | d :: _ => negb (d =? dimension lt) end].
Proof.
  intros H E. unfold torch_function. rewrite H, E. simpl. unfold last_is. destruct (rev shp); reflexivity.
Qed.
(* only the first LieTensor among (positional, then keyword) arguments matters *)
Theorem wrap_first_only name data lt lts kws lts' kws' :
  torch_function name data (lt :: lts) kws = torch_function name data (lt :: lts') kws' /\
  torch_function name data [] (lt :: kws) = torch_function name data [lt] kws'.
Proof. split; unfold torch_function; destruct data, name; simpl; try reflexivity; destruct (handled s); reflexivity. Qed.

(* the result of a shape-only function on a LieTensor x of ltype lt (its raw result is raw r, with r an
   item-level tensor of the same item size) comes back as a LieTensor of ltype lt with lshape (tshape r) *)
Theorem shape_only_result {E} name lt rest lts kws (x r : tensor (list E)) :
  handled name = true -> lts ++ kws = lt :: rest -> tdim x = dimension lt -> tdim r = tdim x ->
  torch_function (Some name) (Some [LPlain (tshape (raw r))]) lts kws = TFData [LLie (Some lt) (tshape r ++ [dimension lt])] [false].
Proof.
  intros H El Dx Dr. unfold raw. simpl. rewrite Dr, Dx. exact (wrap_keeps_ltype name lt rest lts kws [tshape r] H El).
Qed.

(* ---------------- the hypotheses are satisfiable ---------------- *)
Example is_perm_example : is_perm [1; 0; 2] 3 /\ is_perm [] 0.
Proof.
  split; (split; [reflexivity|split; [repeat constructor|]]); intros m Hm; simpl.
  - destruct m as [|[|[|m]]]; auto; lia.
  - lia.
Qed.
Open Scope string_scope.
(* X of lshape (2,3), SO3 items; X[1].unsqueeze(0).expand(4,3).permute(1,0) *)
Example chain_example :
  let x := tabulate [2; 3] 4 (fun i => map (fun c => 100 * nth 0 i 0 + 10 * nth 1 i 0 + c) (seq 0 4)) in
  let ops := [OSelect 0 1; OUnsqueeze 0; OExpand [4; 3]; OPermute [1; 0]] in
  items_ok x /\ ops_ok ops x /\
  tshape (run_ops [] ops x) = [3; 4] /\
  tget [] (run_ops [] ops x) [2; 3] = [120; 121; 122; 123] /\
  run_ops 0 (lift_ops ops x) (raw x) = raw (run_ops [] ops x) /\
  torch_function (Some "permute") (Some [LPlain (tshape (raw (run_ops [] ops x)))]) [SO3_t] [] = TFData [LLie (Some SO3_t) [3; 4; 4]] [false].
Proof.
  intros x ops.
  assert (OK : items_ok x) by (apply tabulate_items_ok; intros; now rewrite map_length, seq_length).
  assert (O : ops_ok ops x).
  { cbn [ops_ok ops sop_ok].
    split. { split; vm_compute; lia. }
    split. { vm_compute. lia. }
    split. { split; [vm_compute; lia|]. vm_compute. constructor; [right; reflexivity|constructor; [left; reflexivity|constructor]]. }
    split; [|exact I].
    split; [reflexivity|]. split; [vm_compute; repeat constructor|].
    intros m Hm. assert (m < 2) by exact Hm. destruct m as [|[|m]]; simpl; auto; lia. }
  split; [exact OK|]. split; [exact O|]. split; [reflexivity|]. split; [reflexivity|].
  split; [apply (ops_raw 0 ops x OK O)|reflexivity].
Qed.
Close Scope string_scope.
