(* C17, seventh part: EPnP._compute_scale.  The eigenvector torch.linalg.eig returns for the null
   space of M is normalised with an arbitrary sign: x = k * (true camera-frame control points), k <> 0.
   [epnp_compute_scale] is a transcription made HERE of EPnP._compute_scale (norms, vecdot quotient,
   `any(z < 0)` sign fix); it is not exercised by the correspondence harness.  Theorem: for every
   k <> 0, points in front of the camera (depth > 0) that are not all equal, and weights meeting the
   solve contract, the scaled points it hands to svdtf ARE the true camera-frame points and the
   returned scale is 1/k; with Proofs/Align5.v: svdtf then returns the true pose. *)
From Coq Require Import Reals Lra Psatz List Nsatz ZArith Bool Arith.
Import ListNotations.
From PV Require Import Base.Num Base.RTac Model.LieGroup Model.Controller Model.Align Proofs.LieGroup
  Proofs.Align Proofs.Align2 Proofs.Align3 Proofs.Align5.
Local Open Scope R_scope.
#[local] Remove Hints NumQ NumZ : typeclass_instances.

Definition vnormR (v : vec3R) : R := sqrt (sqnorm v).
Definition ctrl_scale (s : R) (c : ctrlR) : ctrlR :=
  let '(c0, c1, c2, c3) := c in (vscale s c0, vscale s c1, vscale s c2, vscale s c3).
(* bases: the candidate control points (nullv^T beta, unflattened); returns (bases, scalep, scale) *)
Definition epnp_compute_scale (alphas : list vec4R) (bases : ctrlR) (points : cloudR) : ctrlR * cloudR * R :=
  let transp := map (fun a => ctrl_comb a bases) alphas in
  let dw := map vnormR (centered points) in
  let dc := map vnormR (centered transp) in
  let scale := dotl dc dw / dotl dc dc in
  let bases' := ctrl_scale scale bases in
  let scalep := map (fun a => ctrl_comb a bases') alphas in
  let mask := existsb (fun p => Rltb (vz p) 0) scalep in
  let sign := if mask then -1 else 1 in
  (bases', map (vscale sign) scalep, sign * scale).

Lemma ctrl_comb_scale (a : vec4R) (k : R) (c : ctrlR) : ctrl_comb a (ctrl_scale k c) = vscale k (ctrl_comb a c).
Proof.
  destruct a as [[[a0 a1] a2] a3]. destruct c as [[[c0 c1] c2] c3].
  destruct_tuples. cbv [ctrl_comb ctrl_scale]. al_unfold. split_pairs; ring.
Qed.
Lemma ctrl_scale_scale k j c : ctrl_scale k (ctrl_scale j c) = ctrl_scale (k * j) c.
Proof.
  destruct c as [[[c0 c1] c2] c3]. destruct_tuples. cbv [ctrl_scale]. al_unfold. split_pairs; ring.
Qed.

(* centroids commute with affine maps *)
Lemma vsum3_affine (B : mat3R) (u : vec3R) (l : cloudR) :
  vsum3 (map (fun p => vadd (mvmul B p) u) l) = vadd (mvmul B (vsum3 l)) (vscale (INR (length l)) u).
Proof.
  induction l as [|p l IH].
  - cbn. al_ring.
  - cbn [map vsum3 fold_right length]. fold (vsum3 (map (fun p => vadd (mvmul B p) u) l)). rewrite IH, S_INR.
    fold (vsum3 l). set (s := vsum3 l). set (n := INR (length l)). clearbody s n. al_ring.
Qed.
Lemma centroid_affine (B : mat3R) (u : vec3R) (l : cloudR) : l <> [] ->
  centroid (map (fun p => vadd (mvmul B p) u) l) = vadd (mvmul B (centroid l)) u.
Proof.
  intros Hne. unfold centroid. rewrite vsum3_affine, map_length, ofN_INR.
  assert (Hn : INR (length l) <> 0) by (apply not_0_INR; destruct l; [contradiction | discriminate]).
  set (s := vsum3 l). set (n := INR (length l)) in *. clearbody s n.
  destruct_tuples. al_unfold. split_pairs; field; exact Hn.
Qed.
Lemma centered_affine (B : mat3R) (u : vec3R) (l : cloudR) : l <> [] ->
  centered (map (fun p => vadd (mvmul B p) u) l) = map (mvmul B) (centered l).
Proof.
  intros Hne. unfold centered. rewrite (centroid_affine B u l Hne), !map_map. apply map_ext.
  intros p. generalize (centroid l). intros c. al_ring.
Qed.

Lemma vnormR_scaled_rot (k : R) (A : mat3R) (d : vec3R) : orth A ->
  vnormR (mvmul (mscale3 k A) d) = Rabs k * vnormR d.
Proof.
  intros HA. unfold vnormR.
  assert (E : sqnorm (mvmul (mscale3 k A) d) = (k * k) * sqnorm (mvmul A d)) by al_ring.
  rewrite E, (sqnorm_orth A d HA).
  rewrite sqrt_mult_alt by apply Rle_0_sqr. f_equal. apply sqrt_Rsqr_abs.
Qed.
Lemma dotl_scale_l (k : R) : forall x r, dotl (map (Rmult k) x) r = k * dotl x r.
Proof.
  induction x as [|a x IH]; intros [|b r]; cbn [dotl map]; try (cbn; ring).
  rewrite IH. cbn [add mul NumR]. ring.
Qed.
Lemma dotl_norms (l : cloudR) : dotl (map vnormR l) (map vnormR l) = sumsq l.
Proof.
  unfold sumsq, sumF. induction l as [|p l IH]; cbn [map dotl fold_right]; [reflexivity|].
  rewrite IH. cbn [add mul NumR]. f_equal. unfold vnormR. apply sqrt_sqrt, sqnorm_nonneg.
Qed.
Lemma existsb_neg_false (l : cloudR) : Forall (fun p => 0 < vz p) l -> existsb (fun p => Rltb (vz p) 0) l = false.
Proof.
  induction 1 as [|p l Hp _ IH]; [reflexivity|]. cbn [existsb]. rewrite IH, orb_false_r. apply Rltb_false. lra.
Qed.
Lemma existsb_neg_true (l : cloudR) : l <> [] -> Forall (fun p => vz p < 0) l -> existsb (fun p => Rltb (vz p) 0) l = true.
Proof.
  intros Hne H. destruct H as [|p l Hp _]; [contradiction|]. cbn [existsb].
  replace (Rltb (vz p) 0) with true by (symmetry; apply Rltb_true; exact Hp). reflexivity.
Qed.
Lemma vscale_1 (v : vec3R) : vscale 1 v = v.
Proof. al_ring. Qed.
Lemma vscale_vscale a b (v : vec3R) : vscale a (vscale b v) = vscale (a * b) v.
Proof. al_ring. Qed.
Lemma vz_vscale a (v : vec3R) : vz (vscale a v) = a * vz v.
Proof. al_ring. Qed.

Theorem epnp_compute_scale_true (A : mat3R) (t : vec3R) (cw : ctrlR) alphas points (k : R) :
  Forall2 (alpha_ok cw) alphas points -> rot A -> k <> 0 ->
  Forall (fun p => 0 < vz (rigid_apply A t p)) points ->
  0 < sumsq (centered points) ->
  snd (fst (epnp_compute_scale alphas (ctrl_scale k (ctrl_move A t cw)) points)) = map (rigid_apply A t) points /\
  snd (epnp_compute_scale alphas (ctrl_scale k (ctrl_move A t cw)) points) = 1 / k.
Proof.
  intros Hal HA Hk Hz HS.
  assert (Hne : points <> []) by (intros ->; cbn in HS; lra).
  set (pc := map (rigid_apply A t) points).
  assert (Ecomb : forall j, map (fun a => ctrl_comb a (ctrl_scale j (ctrl_move A t cw))) alphas = map (vscale j) pc).
  { intros j. unfold pc. rewrite <- (epnp_transp A t cw alphas points Hal), map_map. apply map_ext.
    intros a. apply ctrl_comb_scale. }
  unfold epnp_compute_scale. cbv zeta. cbn [fst snd].
  rewrite ctrl_scale_scale, !Ecomb.
  (* the scale *)
  assert (Etr : map (vscale k) pc = map (fun p => vadd (mvmul (mscale3 k A) p) (vscale k t)) points).
  { unfold pc. rewrite map_map. apply map_ext. intros p. al_ring. }
  rewrite Etr, (centered_affine _ _ points Hne), (map_map (mvmul (mscale3 k A)) vnormR).
  rewrite (map_ext (fun d => vnormR (mvmul (mscale3 k A) d)) (fun d => Rabs k * vnormR d))
    by (intros d; apply vnormR_scaled_rot, HA).
  rewrite <- (map_map vnormR (Rmult (Rabs k))).
  rewrite !dotl_scale_l, dotl_scale, dotl_norms.
  set (S := sumsq (centered points)) in *.
  assert (Hak : 0 < Rabs k) by (now apply Rabs_pos_lt).
  assert (Esc : Rabs k * S / (Rabs k * (Rabs k * S)) = / Rabs k) by (field; split; lra).
  rewrite Esc.
  destruct (Rlt_dec 0 k) as [Hpos | Hneg].
  - rewrite (Rabs_right k) by lra.
    replace (/ k * k) with 1 by (field; lra).
    assert (Em : existsb (fun p => Rltb (vz p) 0) (map (vscale 1) pc) = false).
    { apply existsb_neg_false. unfold pc. rewrite !Forall_map. eapply Forall_impl; [|exact Hz].
      intros p Hp. cbv beta. now rewrite vscale_1. }
    rewrite Em. split; [|field; lra].
    rewrite map_map. rewrite (map_ext _ (fun p => p)) by (intros p; now rewrite !vscale_1). apply map_id.
  - assert (Hlt : k < 0) by lra. rewrite (Rabs_left k) by lra.
    replace (/ - k * k) with (-1) by (field; lra).
    assert (Em : existsb (fun p => Rltb (vz p) 0) (map (vscale (-1)) pc) = true).
    { apply existsb_neg_true; [unfold pc; now repeat apply map_nonempty|].
      unfold pc. rewrite !Forall_map. eapply Forall_impl; [|exact Hz].
      intros p Hp. cbv beta in *. rewrite vz_vscale. lra. }
    rewrite Em. split; [|field; lra].
    rewrite map_map. rewrite (map_ext _ (fun p => p)); [apply map_id|].
    intros p. rewrite vscale_vscale. replace (-1 * -1) with 1 by ring. apply vscale_1.
Qed.

(* EPnP from any multiple of the true control points: _compute_scale then svdtf give the true pose *)
Section Pose.
Variable svd : mat3R -> mat3R * vec3R * mat3R.
Theorem epnp_solution_true_pose (A : mat3R) (t : vec3R) (cw : ctrlR) alphas points (k : R) :
  Forall2 (alpha_ok cw) alphas points -> rot A -> k <> 0 ->
  Forall (fun p => 0 < vz (rigid_apply A t p)) points ->
  noncollinear points ->
  let transp := snd (fst (epnp_compute_scale alphas (ctrl_scale k (ctrl_move A t cw)) points)) in
  svd_contract svd (svdtf_M points transp) ->
  exists T, svdtf svd points transp = Some T /\ unitq (snd T) /\ fst T = t /\ SO3_matrix (snd T) = A.
Proof.
  intros Hal HA Hk Hz Hnc. cbv zeta.
  destruct (epnp_compute_scale_true A t cw alphas points k Hal HA Hk Hz (noncollinear_spread _ Hnc)) as [E _].
  rewrite E. intros Hc.
  destruct (svdtf_call_exact_unique svd points _ A t eq_refl Hnc HA Hc) as (T & ET & Hq & E1 & E2 & _).
  exists T. auto.
Qed.
End Pose.
