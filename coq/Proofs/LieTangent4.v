(* C05 (extension): Jr and Jinvp clauses (over R). *)
From Coq Require Import Reals Lra Psatz List Nsatz.
Import ListNotations.
From PV Require Import Base.Num Base.RTac Model.LieGroup Model.LieExp Model.LieLog Model.LieJac Model.LieTangent
  Proofs.LieGroup Proofs.LieExp Proofs.LieLog Proofs.LieTangent Proofs.LieTangent2 Proofs.LieTangent3.
Local Open Scope R_scope.
#[local] Remove Hints NumQ NumZ : typeclass_instances.

(* ---------------- Jr on the small-angle branch: the code returns the identity *)
Lemma l_v3_l (x : vec3R) : l_v3 (v3_l x) = x.
Proof. destruct x as [[a b] c]. reflexivity. Qed.
Lemma Jr_small (eps : R) (x : vec3R) : vnorm x <= eps -> so3_Jr eps (v3_l x) = lid 3.
Proof.
  intros H. unfold so3_Jr. rewrite l_v3_l.
  replace (ltb eps (vnorm x)) with false by (symmetry; cbn; now apply Rltb_false). reflexivity.
Qed.
(* ... which is Jl(-x) only at x = 0: for 0 < |x| <= eps the returned I differs from Jl(-x) (by O(|x|)) *)
Lemma Jr_is_Jl_neg_small_refuted (eps : R) : 0 < eps -> eps <= 1 ->
  exists x : vec3R, vnorm x <= eps /\ so3_Jr eps (v3_l x) <> m3rows (so3_Jl eps (vneg x)).
Proof.
  intros He He1. exists (eps, 0, 0).
  assert (Hn : vnorm (F:=R) (eps, 0, 0) = eps).
  { unfold vnorm. cbn [tsqrt TransR]. replace (vdot (F:=R) (eps, 0, 0) (eps, 0, 0)) with (eps * eps) by (lie_unfold; ring).
    apply sqrt_square. lra. }
  split; [rewrite Hn; lra|]. rewrite Jr_small by (rewrite Hn; lra).
  unfold so3_Jl, so3_Jl_coef. rewrite vnorm_neg, Hn.
  replace (ltb eps eps) with false by (symmetry; cbn; apply Rltb_false; lra).
  cbn [fst snd]. unfold lid, m3rows, v3_l. cbn [map seq Nat.eqb]. lie_unfold. intros Heq.
  inversion Heq as [[H0 H1 H2 H3 H4 H5 H6 H7 H8]]. clear - H5 He He1. nra.
Qed.

(* ---------------- Jl Jl_inv = I: polynomials in K commute *)
Lemma so3_Jl_inv_pm (eps : R) (x : vec3R) :
  so3_Jl_inv eps x = pm 1 (- (1 / 2)) (so3_Jl_inv_coef eps (vnorm x)) (skew x).
Proof.
  unfold so3_Jl_inv, pm. generalize (so3_Jl_inv_coef eps (vnorm x)). intros k.
  destruct x as [[a b] c]. lie_unfold. split_pairs; ring.
Qed.
Lemma pm_comm (x : vec3R) (x0 x1 x2 y0 y1 y2 : R) :
  mmul3 (pm x0 x1 x2 (skew x)) (pm y0 y1 y2 (skew x)) = mmul3 (pm y0 y1 y2 (skew x)) (pm x0 x1 x2 (skew x)).
Proof.
  destruct x as [[a b] c]. rewrite !(pm_mul a b c (a * a + b * b + c * c)) by reflexivity. apply pm_ext; ring.
Qed.
Lemma so3_Jl_Jl_inv (eps : R) (x : vec3R) : 0 <= eps -> eps < vnorm x -> vnorm x < 2 * PI ->
  mmul3 (so3_Jl eps x) (so3_Jl_inv eps x) = mid3.
Proof.
  intros He H Hp. rewrite <- (so3_Jl_inv_Jl eps x He H Hp). rewrite so3_Jl_pm, so3_Jl_inv_pm. apply pm_comm.
Qed.
Lemma so3_Jl_Jl_inv_v (eps : R) (x v : vec3R) : 0 <= eps -> eps < vnorm x -> vnorm x < 2 * PI ->
  mvmul (so3_Jl eps x) (mvmul (so3_Jl_inv eps x) v) = v.
Proof. intros He H Hp. now rewrite mvmul_mmul3, so3_Jl_Jl_inv, mvmul_id. Qed.

(* ---------------- list-level matrix-vector products of the block Jacobians *)
Lemma lmv_m3rows (M : @mat3 R) (p : list R) : length p = 3%nat -> lmv (m3rows M) p = v3_l (mvmul M (l_v3 p)).
Proof.
  intros H. destruct p as [|p0 [|p1 [|p2 [|? ?]]]]; try discriminate.
  destruct M as [[[[m00 m01] m02] [[m10 m11] m12]] [[m20 m21] m22]].
  unfold lmv, m3rows, v3_l, l_v3. cbn [map ldot nth]. lie_unfold.
  repeat (f_equal; try ring).
Qed.
Lemma lmv_block6 (A B D : @mat3 R) (p : list R) : length p = 6%nat ->
  lmv (hcat (m3rows A) (m3rows B) ++ hcat (lzm 3 3) (m3rows D)) p =
  v3_l (vadd (mvmul A (l_v3 p)) (mvmul B (l_v3 (skipn 3 p)))) ++ v3_l (mvmul D (l_v3 (skipn 3 p))).
Proof.
  intros H. destruct p as [|p0 [|p1 [|p2 [|p3 [|p4 [|p5 [|? ?]]]]]]]; try discriminate.
  destruct A as [[[[a00 a01] a02] [[a10 a11] a12]] [[a20 a21] a22]],
           B as [[[[b00 b01] b02] [[b10 b11] b12]] [[b20 b21] b22]],
           D as [[[[d00 d01] d02] [[d10 d11] d12]] [[d20 d21] d22]].
  unfold lmv, hcat, m3rows, v3_l, l_v3, lzm, lzeros. cbn [map ldot nth skipn app seq]. lie_unfold.
  repeat (f_equal; try ring).
Qed.
Lemma lmv_block4 (A : @mat3 R) (p : list R) : length p = 4%nat ->
  lmv (hcat (m3rows A) (lzm 3 1) ++ [lzeros 3 ++ [one]]) p = v3_l (mvmul A (l_v3 p)) ++ [nth 3 p 0].
Proof.
  intros H. destruct p as [|p0 [|p1 [|p2 [|p3 [|? ?]]]]]; try discriminate.
  destruct A as [[[[a00 a01] a02] [[a10 a11] a12]] [[a20 a21] a22]].
  unfold lmv, hcat, m3rows, v3_l, l_v3, lzm, lzeros. cbn [map ldot nth skipn app seq]. lie_unfold.
  repeat (f_equal; try ring).
Qed.

(* ---------------- Jinvp(X, p) = Jl_inv(Log X) p is the solution of Jl(Log X) y = p (SO3, SE3, RxSO3) *)
Lemma jinvp_def (eps : R) g X p : jinvp eps g X p = lmv (Jl_invM eps g (log_l eps g X)) p.
Proof. reflexivity. Qed.
Lemma v3_l_length (v : vec3R) : length (v3_l v) = 3%nat.
Proof. reflexivity. Qed.
Lemma l_v3_app (u : vec3R) (l : list R) : l_v3 (v3_l u ++ l) = u.
Proof. destruct u as [[a b] c]. reflexivity. Qed.
Lemma skipn3_app (u : vec3R) (l : list R) : skipn 3 (v3_l u ++ l) = l.
Proof. destruct u as [[a b] c]. reflexivity. Qed.
Lemma v3_l_l_v3 (p : list R) : length p = 3%nat -> v3_l (l_v3 p) = p.
Proof. intros H. destruct p as [|p0 [|p1 [|p2 [|? ?]]]]; try discriminate. reflexivity. Qed.

Theorem jinvp_SO3 (eps : R) (X p : list R) : 0 <= eps -> length p = 3%nat ->
  eps < vnorm (SO3_log eps (l_q X)) -> vnorm (SO3_log eps (l_q X)) < 2 * PI ->
  lmv (JlM eps 0 (log_l eps 0 X)) (jinvp eps 0 X p) = p.
Proof.
  intros He Hp H1 H2. unfold jinvp, log_fwd, JlM, Jl_invM, so3_JlM, so3_Jl_invM, log_l. rewrite l_v3_l.
  rewrite (lmv_m3rows _ p Hp), lmv_m3rows by apply v3_l_length. rewrite l_v3_l.
  rewrite so3_Jl_Jl_inv_v by assumption. now apply v3_l_l_v3.
Qed.

Lemma list6_split (p : list R) : length p = 6%nat -> p = v3_l (l_v3 p) ++ v3_l (l_v3 (skipn 3 p)).
Proof. intros H. destruct p as [|p0 [|p1 [|p2 [|p3 [|p4 [|p5 [|? ?]]]]]]]; try discriminate. reflexivity. Qed.
Theorem jinvp_SE3 (eps : R) (X p : list R) : 0 <= eps -> length p = 6%nat ->
  eps < vnorm (SO3_log eps (snd (l_SE3 X))) -> vnorm (SO3_log eps (snd (l_SE3 X))) < 2 * PI ->
  lmv (JlM eps 1 (log_l eps 1 X)) (jinvp eps 1 X p) = p.
Proof.
  intros He Hp H1 H2. unfold jinvp, log_fwd, JlM, Jl_invM, se3_JlM, se3_Jl_invM, log_l. cbv zeta.
  unfold SE3_log. cbn [fst snd]. set (phi := SO3_log eps (snd (l_SE3 X))) in *.
  rewrite !skipn3_app, !l_v3_l.
  match goal with |- context [calcQ eps ?x] => generalize (calcQ eps x) end. intros Q.
  rewrite (lmv_block6 _ _ _ p Hp), lmv_block6 by reflexivity.
  rewrite skipn3_app, l_v3_app, l_v3_l.
  transitivity (v3_l (l_v3 p) ++ v3_l (l_v3 (skipn 3 p))); [|symmetry; now apply list6_split].
  set (u := l_v3 p). set (v := l_v3 (skipn 3 p)). f_equal; f_equal.
  - rewrite mvmul_vadd, so3_Jl_Jl_inv_v by assumption.
    rewrite <- !mvmul_mmul3. unfold mneg3.
    replace (mvmul (mscale3 (- one) (so3_Jl_inv eps phi)) (mvmul Q (mvmul (so3_Jl_inv eps phi) v)))
      with (vneg (mvmul (so3_Jl_inv eps phi) (mvmul Q (mvmul (so3_Jl_inv eps phi) v)))).
    2:{ generalize (mvmul Q (mvmul (so3_Jl_inv eps phi) v)) (so3_Jl_inv eps phi). intros z M.
        destruct z as [[z0 z1] z2]. lie_ring. }
    rewrite mvmul_vneg, so3_Jl_Jl_inv_v by assumption.
    generalize (mvmul Q (mvmul (so3_Jl_inv eps phi) v)). intros z. clearbody u.
    destruct z as [[z0 z1] z2], u as [[u0 u1] u2]. lie_unfold. split_pairs; ring.
  - now apply so3_Jl_Jl_inv_v.
Qed.

Lemma list4_split (p : list R) : length p = 4%nat -> p = v3_l (l_v3 p) ++ [nth 3 p 0].
Proof. intros H. destruct p as [|p0 [|p1 [|p2 [|p3 [|? ?]]]]]; try discriminate. reflexivity. Qed.
Theorem jinvp_RxSO3 (eps : R) (X p : list R) : 0 <= eps -> length p = 4%nat ->
  eps < vnorm (SO3_log eps (fst (l_RxSO3 X))) -> vnorm (SO3_log eps (fst (l_RxSO3 X))) < 2 * PI ->
  lmv (JlM eps 2 (log_l eps 2 X)) (jinvp eps 2 X p) = p.
Proof.
  intros He Hp H1 H2. unfold jinvp, log_fwd, JlM, Jl_invM, rxso3_JlM, rxso3_Jl_invM, so3_JlM, so3_Jl_invM, log_l. cbv zeta.
  unfold RxSO3_log. cbn [fst snd]. set (phi := SO3_log eps (fst (l_RxSO3 X))) in *.
  rewrite !l_v3_app.
  rewrite (lmv_block4 _ p Hp), lmv_block4 by reflexivity. rewrite l_v3_app.
  transitivity (v3_l (l_v3 p) ++ [nth 3 p 0]); [|symmetry; now apply list4_split].
  f_equal. f_equal. now apply so3_Jl_Jl_inv_v.
Qed.

(* ---------------- on the small-angle branch the returned identity is within |x| (<= eps) of Jl(-x), entrywise *)
Definition lget (M : lmat (F:=R)) (i j : nat) : R := nth j (nth i M []) 0.
Lemma sq_le_abs (a t : R) : 0 <= t -> a * a <= t * t -> - t <= a <= t.
Proof. intros. split; nra. Qed.
Lemma prod_bound (a b c t : R) : a * a + b * b + c * c = t * t -> - (t * t) <= 2 * (a * b) <= t * t.
Proof.
  intros H. pose proof (Rle_0_sqr (a + b)) as H1. pose proof (Rle_0_sqr (a - b)) as H2. pose proof (Rle_0_sqr c) as H3.
  unfold Rsqr in *. split; nra.
Qed.
Lemma Jr_small_close (eps : R) (x : vec3R) : vnorm x <= eps -> eps <= 1 ->
  forall i j, (i < 3)%nat -> (j < 3)%nat ->
  Rabs (lget (so3_Jr eps (v3_l x)) i j - lget (m3rows (so3_Jl eps (vneg x))) i j) <= vnorm x.
Proof.
  intros H He i j Hi Hj. rewrite Jr_small by assumption.
  pose proof (vnorm_sq x) as Hs. pose proof (vnorm_nonneg x) as Hp.
  unfold so3_Jl, so3_Jl_coef. rewrite vnorm_neg.
  replace (ltb eps (vnorm x)) with false by (symmetry; cbn; now apply Rltb_false).
  cbn [fst snd]. set (t := vnorm x) in *. assert (Ht1 : t <= 1) by lra. clearbody t. clear H He.
  destruct x as [[a b] c].
  assert (Hn : a * a + b * b + c * c = t * t) by (revert Hs; lie_unfold; intros; lra). clear Hs.
  assert (Ha : - t <= a <= t) by (apply sq_le_abs; nra).
  assert (Hb : - t <= b <= t) by (apply sq_le_abs; nra).
  assert (Hc : - t <= c <= t) by (apply sq_le_abs; nra).
  assert (Htt : t * t <= t) by nra.
  assert (Hab : - (t * t) <= 2 * (a * b) <= t * t) by (apply (prod_bound a b c); lra).
  assert (Hac : - (t * t) <= 2 * (a * c) <= t * t) by (apply (prod_bound a c b); lra).
  assert (Hbc : - (t * t) <= 2 * (b * c) <= t * t) by (apply (prod_bound b c a); lra).
  assert (Haa : 0 <= a * a <= t * t) by nra.
  assert (Hbb : 0 <= b * b <= t * t) by nra.
  assert (Hcc : 0 <= c * c <= t * t) by nra.
  assert (Hk1 : 0 <= 1 / 2 - 1 / 24 * (t * t) <= 1 / 2) by nra.
  assert (Hk2 : 0 <= 1 / 6 - 1 / 120 * (t * t) <= 1 / 6) by nra.
  unfold lget, lid, m3rows, v3_l.
  destruct i as [|[|[|i]]]; try lia; destruct j as [|[|[|j]]]; try lia;
    cbn [map seq Nat.eqb nth]; lie_unfold; apply Rabs_le.
  all: revert Hk1 Hk2; generalize (1 / 2 - 1 / 24 * (t * t)) (1 / 6 - 1 / 120 * (t * t)); intros k1 k2 Hk1 Hk2.
  all: assert (P1 : - (t / 2) <= k1 * a <= t / 2) by (clear - Hk1 Ha Hp; split; nra).
  all: assert (P2 : - (t / 2) <= k1 * b <= t / 2) by (clear - Hk1 Hb Hp; split; nra).
  all: assert (P3 : - (t / 2) <= k1 * c <= t / 2) by (clear - Hk1 Hc Hp; split; nra).
  all: assert (Q1 : - (t / 6) <= k2 * (a * b) <= t / 6) by (clear - Hk2 Hab Htt Hp; split; nra).
  all: assert (Q2 : - (t / 6) <= k2 * (a * c) <= t / 6) by (clear - Hk2 Hac Htt Hp; split; nra).
  all: assert (Q3 : - (t / 6) <= k2 * (b * c) <= t / 6) by (clear - Hk2 Hbc Htt Hp; split; nra).
  all: assert (Q4 : 0 <= k2 * (a * a) + k2 * (b * b) + k2 * (c * c) <= t / 6) by (clear - Hk2 Hn Htt Hp; split; nra).
  all: assert (Q5 : 0 <= k2 * (a * a)) by (clear - Hk2 Haa; nra).
  all: assert (Q6 : 0 <= k2 * (b * b)) by (clear - Hk2 Hbb; nra).
  all: assert (Q7 : 0 <= k2 * (c * c)) by (clear - Hk2 Hcc; nra).
  all: clear - P1 P2 P3 Q1 Q2 Q3 Q4 Q5 Q6 Q7 Hp; split; nra.
Qed.

(* ---------------- the Adj identities for EVERY algebra element (all regimes): rotation / scale parts exact, the
   translation parts differ by the defect of the single-matrix identity at psi = R phi *)
Theorem adj_identity_SE3_all (eps : R) (X : se3R) (a : vec3R * vec3R) : unitq (snd X) ->
  let psi := SO3_AdjXa (snd X) (snd a) in let t := fst X in
  snd (SE3_mul X (se3_exp eps a)) = snd (SE3_mul (se3_exp eps (SE3_AdjXa X a)) X) /\
  fst (SE3_mul (se3_exp eps (SE3_AdjXa X a)) X) =
    vadd (fst (SE3_mul X (se3_exp eps a)))
         (vsub (SO3_act (so3_exp eps psi) t) (vadd t (mvmul (so3_Jl eps psi) (vcross psi t)))).
Proof.
  intros Hu psi t. split; [|apply (adj_SE3_translation eps X a Hu)].
  unfold SE3_mul, se3_exp, SE3_AdjXa. cbn [fst snd]. apply adj_identity_SO3. assumption.
Qed.
Theorem adj_identity_Sim3_all (eps : R) (X : sim3R) (tau phi : vec3R) (sg : R) : unitq (fst (snd X)) ->
  let psi := SO3_AdjXa (fst (snd X)) phi in let t := fst X in
  snd (Sim3_mul X (sim3_exp eps (tau, (phi, sg)))) =
    snd (Sim3_mul (sim3_exp eps (sim3_arg (Sim3_AdjXa X (tau, phi, sg)))) X) /\
  fst (Sim3_mul (sim3_exp eps (sim3_arg (Sim3_AdjXa X (tau, phi, sg)))) X) =
    vadd (fst (Sim3_mul X (sim3_exp eps (tau, (phi, sg)))))
         (vsub (vscale (exp sg) (SO3_act (so3_exp eps psi) t))
               (vadd t (mvmul (rxso3_Ws eps (psi, sg)) (vadd (vcross psi t) (vscale sg t))))).
Proof.
  intros Hu psi t. split; [|apply (adj_Sim3_translation eps X tau phi sg Hu)].
  rewrite Sim3_AdjXa_expand. unfold Sim3_mul, sim3_exp, sim3_arg. cbn [fst snd].
  apply (adj_identity_RxSO3 eps (snd X) (phi, sg)). assumption.
Qed.
Lemma SO3_Jr_def (eps : R) (X : list R) : SO3_Jr eps X = so3_Jr eps (log_l eps 0 X).
Proof. reflexivity. Qed.
