(* C10, block-sparse product: the two-pointer merge finds exactly the common indices; the layout
   dispatch table; (further down) the product is the dense product. *)
From Coq Require Import Reals Lra List Arith Lia Bool ZArith.
Import ListNotations.
From PV Require Import Base.Num Base.RTac Model.Solver Model.BSR Proofs.Solver.
#[local] Remove Hints NumQ NumZ : typeclass_instances.

(* ------------------------------------------------------------------------------------------ *)
(* the merge *)
(* strictly increasing on the positions lo .. hi-1 *)
Definition sinc (l : list nat) (lo hi : nat) : Prop :=
  forall k k', lo <= k -> k < k' -> k' < hi -> nth k l 0 < nth k' l 0.

Lemma advance_spec row c hi : forall fuel k2, k2 < hi -> hi - 1 - k2 <= fuel ->
  k2 <= advance fuel row c k2 hi /\ advance fuel row c k2 hi < hi /\
  (forall k, k2 <= k -> k < advance fuel row c k2 hi -> nth k row 0 < c) /\
  (c <= nth (advance fuel row c k2 hi) row 0 \/ advance fuel row c k2 hi = hi - 1).
Proof.
  induction fuel as [|f IH]; intros k2 H1 H2; cbn [advance].
  - repeat split; auto; try lia.
  - destruct (nth k2 row 0 <? c) eqn:E1; cbn [andb].
    + destruct (k2 <? hi - 1) eqn:E2.
      * apply Nat.ltb_lt in E1, E2. destruct (IH (S k2) ltac:(lia) ltac:(lia)) as (A1 & A2 & A3 & A4).
        repeat split; auto; try lia. intros k Hk1 Hk2. destruct (Nat.eq_dec k k2) as [->|]; auto. apply A3; lia.
      * apply Nat.ltb_ge in E2. repeat split; auto; try lia.
    + apply Nat.ltb_ge in E1. repeat split; auto; try lia.
Qed.

Lemma seg_find_unfold idx lo hi t : lo < hi ->
  seg_find idx lo hi t = if nth lo idx 0 =? t then Some lo else seg_find idx (S lo) hi t.
Proof.
  intros H. unfold seg_find. replace (hi - lo) with (S (hi - S lo)) by lia. reflexivity.
Qed.
Lemma seg_find_empty idx lo hi t : hi <= lo -> seg_find idx lo hi t = None.
Proof. intros H. unfold seg_find. replace (hi - lo) with 0 by lia. reflexivity. Qed.
Lemma seg_find_none idx t : forall len lo, (forall k, lo <= k -> k < lo + len -> nth k idx 0 <> t) ->
  seg_find idx lo (lo + len) t = None.
Proof.
  induction len as [|len IH]; intros lo H.
  - apply seg_find_empty. lia.
  - rewrite seg_find_unfold by lia. destruct (nth lo idx 0 =? t) eqn:E.
    + apply Nat.eqb_eq in E. exfalso. apply (H lo); auto; lia.
    + replace (lo + S len) with (S lo + len) by lia. apply IH. intros k H1 H2. apply H; lia.
Qed.
Lemma seg_find_first idx t hi : forall len lo k, lo + len = k -> k < hi -> nth k idx 0 = t ->
  (forall k', lo <= k' -> k' < k -> nth k' idx 0 <> t) -> seg_find idx lo hi t = Some k.
Proof.
  induction len as [|len IH]; intros lo k Hk Hhi Ht Hbefore.
  - assert (lo = k) by lia. subst lo. rewrite seg_find_unfold by lia. now rewrite Ht, Nat.eqb_refl.
  - rewrite seg_find_unfold by lia. destruct (nth lo idx 0 =? t) eqn:E.
    + apply Nat.eqb_eq in E. exfalso. apply (Hbefore lo); auto; lia.
    + apply IH; auto; try lia. intros k' H1 H2. apply Hbefore; lia.
Qed.
Lemma seg_find_some idx lo hi t k : seg_find idx lo hi t = Some k -> lo <= k /\ k < hi /\ nth k idx 0 = t.
Proof.
  unfold seg_find. intros H. apply find_some in H. destruct H as (H1 & H2).
  apply in_seq in H1. apply Nat.eqb_eq in H2. lia.
Qed.

(* the matches, as a specification: for each stored position k1 of the block row (in order), the
   position k2 of the block column holding the same inner index, if there is one *)
Definition join_spec (col row : list nat) (k1s : list nat) (lo2 hi2 : nat) : list (nat * nat) :=
  flat_map (fun k1 => match seg_find row lo2 hi2 (nth k1 col 0) with Some k2 => [(k1, k2)] | None => [] end) k1s.

Lemma flat_map_nil {X Y} (f : X -> list Y) l : (forall x, In x l -> f x = []) -> flat_map f l = [].
Proof. induction l as [|a l IH]; cbn; intros H; auto. rewrite (H a), IH; auto. Qed.

Lemma merge_k1_spec col row lo2 hi2 : sinc row lo2 hi2 -> forall len1 lo1 k2,
  sinc col lo1 (lo1 + len1) -> lo2 <= k2 -> (k2 < hi2 \/ (k2 = hi2 /\ lo2 = hi2)) ->
  (forall k, lo2 <= k -> k < k2 -> 0 < len1 -> nth k row 0 < nth lo1 col 0) ->
  merge_k1 (seq lo1 len1) col row k2 hi2 = join_spec col row (seq lo1 len1) lo2 hi2.
Proof.
  intros Hrow. induction len1 as [|len1 IH]; intros lo1 k2 Hcol Hk2 Hcase Hinv; [reflexivity|].
  cbn [seq merge_k1 join_spec flat_map].
  destruct Hcase as [Hlt|(He1 & He2)].
  - replace (k2 =? hi2) with false by (symmetry; apply Nat.eqb_neq; lia).
    set (c := nth lo1 col 0).
    destruct (advance_spec row c hi2 (hi2 - k2) k2 Hlt ltac:(lia)) as (A1 & A2 & A3 & A4).
    set (k2' := advance (hi2 - k2) row c k2 hi2) in *.
    assert (Hbelow : forall k, lo2 <= k -> k < k2' -> nth k row 0 < c).
    { intros k H1 H2. destruct (Nat.lt_ge_cases k k2); [apply Hinv; auto; lia|apply A3; lia]. }
    assert (Hnext : forall k, lo2 <= k -> k < k2' -> 0 < len1 -> nth k row 0 < nth (S lo1) col 0).
    { intros k H1 H2 H3. specialize (Hbelow k H1 H2). specialize (Hcol lo1 (S lo1) ltac:(lia) ltac:(lia) ltac:(lia)). fold c in Hcol. lia. }
    assert (Hcol' : sinc col (S lo1) (S lo1 + len1)).
    { intros k k' H1 H2 H3. apply Hcol; lia. }
    destruct (nth k2' row 0 =? c) eqn:E.
    + apply Nat.eqb_eq in E.
      rewrite (seg_find_first row c hi2 (k2' - lo2) lo2 k2') by (auto; try lia; intros k' H1 H2; specialize (Hbelow k' H1 H2); lia).
      cbn [app]. f_equal. apply IH; auto; lia.
    + apply Nat.eqb_neq in E.
      replace hi2 with (lo2 + (hi2 - lo2)) at 2 by lia. rewrite seg_find_none.
      * cbn [app]. apply IH; auto; lia.
      * intros k H1 H2. destruct (Nat.lt_trichotomy k k2') as [Hk|[->|Hk]]; auto.
        -- specialize (Hbelow k H1 Hk). lia.
        -- destruct A4 as [A4|A4]; [|lia]. specialize (Hrow k2' k ltac:(lia) Hk ltac:(lia)). lia.
  - subst k2. rewrite Nat.eqb_refl. symmetry.
    change (join_spec col row (lo1 :: seq (S lo1) len1) lo2 hi2 = []).
    apply flat_map_nil. intros x _. rewrite seg_find_empty; auto; lia.
Qed.

(* ---- merge_join_correct: for strictly increasing index lists, the matches of a block row with a
        block column are exactly the pairs of positions that hold a common inner index ---- *)
Theorem merge_join_correct (crow col ccol row : list nat) (i j : nat) :
  let lo1 := nth i crow 0 in let hi1 := nth (S i) crow 0 in
  let lo2 := nth j ccol 0 in let hi2 := nth (S j) ccol 0 in
  lo1 <= hi1 -> lo2 <= hi2 -> sinc col lo1 hi1 -> sinc row lo2 hi2 ->
  cell_matches crow col ccol row i j = join_spec col row (seq lo1 (hi1 - lo1)) lo2 hi2 /\
  forall k1 k2, In (k1, k2) (cell_matches crow col ccol row i j) <->
                (lo1 <= k1 < hi1 /\ lo2 <= k2 < hi2 /\ nth k1 col 0 = nth k2 row 0).
Proof.
  intros lo1 hi1 lo2 hi2 H1 H2 Hc Hr.
  assert (E : cell_matches crow col ccol row i j = join_spec col row (seq lo1 (hi1 - lo1)) lo2 hi2).
  { unfold cell_matches. fold lo1 hi1 lo2 hi2. apply merge_k1_spec; auto; try lia.
    replace (lo1 + (hi1 - lo1)) with hi1 by lia. exact Hc. }
  split; [exact E|]. intros k1 k2. rewrite E. unfold join_spec. rewrite in_flat_map. split.
  - intros (x & Hx & Hin). apply in_seq in Hx.
    destruct (seg_find row lo2 hi2 (nth x col 0)) as [k|] eqn:Es; [|contradiction].
    destruct Hin as [Hin|[]]. inversion Hin; subst. apply seg_find_some in Es. lia.
  - intros (Ha & Hb & Hc'). exists k1. split; [apply in_seq; lia|].
    rewrite (seg_find_first row (nth k1 col 0) hi2 (k2 - lo2) lo2 k2); auto; try lia; [now left|].
    intros k' Hk1 Hk2. specialize (Hr k' k2 Hk1 Hk2 ltac:(lia)). lia.
Qed.

(* ------------------------------------------------------------------------------------------ *)
(* the dispatch table *)
Theorem dispatch_table : forall l1 l2,
  snd (dispatch 3 l1 l2) =
  Some (match l1, l2 with
        | Bsr, Bsc => TBsrBsc
        | Bsc, Bsr => TNotImpl
        | (Csr | Csc), (Csr | Csc) => TAddmm Csr
        | _, Strided => TAddmm Strided
        | l, _ => TTuple l
        end)
  /\ length (fst (dispatch 3 l1 l2)) <= 2.
Proof. intros [] []; cbn; split; auto. Qed.

(* ------------------------------------------------------------------------------------------ *)
(* bsr_bsc_matmul returns the dense product (values in R)                                       *)
Local Open Scope R_scope.
Notation blockR := (block (F:=R)).
Notation bsR := (bs (F:=R)).

(* ---- finite sums ---- *)
Fixpoint Asum (l : list R) : R := match l with [] => 0 | a :: t => a + Asum t end.
Lemma Asum_app l1 l2 : Asum (l1 ++ l2) = Asum l1 + Asum l2.
Proof. induction l1 as [|a l IH]; cbn; [lra|]. rewrite IH. lra. Qed.
Lemma Asum_zero {X} (f : X -> R) l : (forall x, In x l -> f x = 0) -> Asum (map f l) = 0.
Proof. induction l as [|a l IH]; cbn; intros H; auto. rewrite (H a), IH; auto. lra. Qed.
Lemma Asum_ext {X} (f g : X -> R) l : (forall x, In x l -> f x = g x) -> Asum (map f l) = Asum (map g l).
Proof. intros H. f_equal. now apply map_ext_in. Qed.
Lemma Asum_flat_map {X Y} (g : Y -> R) (h : X -> list Y) l :
  Asum (map g (flat_map h l)) = Asum (map (fun x => Asum (map g (h x))) l).
Proof. induction l as [|a l IH]; cbn; auto. rewrite map_app, Asum_app, IH. reflexivity. Qed.
Lemma Asum_scale {X} c (f : X -> R) l : Asum (map (fun x => c * f x) l) = c * Asum (map f l).
Proof. induction l as [|a l IH]; cbn; [lra|]. rewrite IH. lra. Qed.
(* changing a zero term *)
Lemma Asum_single a x (f : nat -> R) : forall n s, (s <= a < s + n)%nat -> f a = 0 ->
  Asum (map (fun t => if (t =? a)%nat then x else f t) (seq s n)) = x + Asum (map f (seq s n)).
Proof.
  induction n as [|n IH]; intros s Hs Hf; [lia|]. cbn [seq map Asum].
  destruct (Nat.eq_dec s a) as [->|Hne].
  - rewrite Nat.eqb_refl, Hf.
    rewrite (Asum_ext _ f); [lra|]. intros t Ht. apply in_seq in Ht.
    replace (t =? a)%nat with false; auto. symmetry. apply Nat.eqb_neq. lia.
  - replace (s =? a)%nat with false by (symmetry; apply Nat.eqb_neq; lia).
    rewrite IH by (auto; lia). lra.
Qed.
(* a sum over the stored positions of a strictly increasing segment = a sum over all inner indices *)
Lemma sorted_sum idx sn (h : nat -> nat -> R) : forall len lo,
  sinc idx lo (lo + len) -> (forall k, (lo <= k < lo + len)%nat -> (nth k idx O < sn)%nat) ->
  Asum (map (fun k => h (nth k idx O) k) (seq lo len)) =
  Asum (map (fun t => match seg_find idx lo (lo + len) t with Some k => h t k | None => 0 end) (seq 0 sn)).
Proof.
  induction len as [|len IH]; intros lo Hs Hb.
  - cbn. symmetry. apply Asum_zero. intros t _. rewrite seg_find_empty; auto; lia.
  - cbn [seq map Asum].
    set (a := nth lo idx O).
    set (F' := fun t => match seg_find idx (S lo) (S lo + len) t with Some k => h t k | None => 0 end).
    assert (E : Asum (map (fun t => match seg_find idx lo (lo + S len) t with Some k => h t k | None => 0 end) (seq 0 sn)) =
                Asum (map (fun t => if (t =? a)%nat then h a lo else F' t) (seq 0 sn))).
    { apply Asum_ext. intros t _. rewrite seg_find_unfold by lia. fold a. rewrite (Nat.eqb_sym a t).
      destruct (t =? a)%nat eqn:E; [apply Nat.eqb_eq in E; now subst|].
      replace (lo + S len)%nat with (S lo + len)%nat by lia. reflexivity. }
    rewrite E. rewrite Asum_single.
    + f_equal. apply IH.
      * intros k k' H1 H2 H3. apply Hs; lia.
      * intros k Hk. apply Hb. lia.
    + split; [lia|]. apply (Hb lo). lia.
    + unfold F'. rewrite seg_find_none; auto.
      intros k H1 H2. specialize (Hs lo k ltac:(lia) ltac:(lia) ltac:(lia)). fold a in Hs. lia.
Qed.

(* ---- blocks ---- *)
Definition wf_block (h w : nat) (X : blockR) : Prop := length X = h /\ Forall (fun r => length r = w) X.
Lemma wf_block_row h w X u : wf_block h w X -> (u < h)%nat -> length (nth u X []) = w.
Proof. intros (H1 & H2) Hu. rewrite Forall_forall in H2. apply H2. apply nth_In. lia. Qed.
Lemma dot_seq_sum (f g : nat -> R) : forall n s,
  dot (map f (seq s n)) (map g (seq s n)) = Asum (map (fun w => f w * g w) (seq s n)).
Proof. induction n as [|n IH]; intros s; cbn; auto. rewrite IH. reflexivity. Qed.
Lemma list_as_map_seq (l : list R) : l = map (fun w => nth w l 0) (seq 0 (length l)).
Proof.
  induction l as [|a l IH]; cbn; auto. f_equal. rewrite <- seq_shift, map_map. exact IH.
Qed.
Lemma dot_nth_sum (xs ys : list R) d : length xs = d -> length ys = d ->
  dot xs ys = Asum (map (fun w => nth w xs 0 * nth w ys 0) (seq 0 d)).
Proof.
  intros H1 H2. rewrite (list_as_map_seq xs) at 1. rewrite (list_as_map_seq ys) at 1.
  rewrite H1, H2. apply dot_seq_sum.
Qed.
Lemma nth_map_in {X Y} (f : X -> Y) l k dx dy : (k < length l)%nat -> nth k (map f l) dy = f (nth k l dx).
Proof. intros H. rewrite (nth_indep _ dy (f dx)) by now rewrite map_length. apply map_nth. Qed.
Lemma bentry_bmul dm dn dp (X Y : blockR) u v : wf_block dm dn X -> wf_block dn dp Y -> (u < dm)%nat -> (v < dp)%nat ->
  bentry (bmul dp X Y) u v = Asum (map (fun w => bentry X u w * bentry Y w v) (seq 0 dn)).
Proof.
  intros HX HY Hu Hv. unfold bentry at 1, bmul.
  rewrite (nth_map_in _ X u [] []) by (destruct HX; lia).
  rewrite (nth_map_in _ (seq 0 dp) v O 0) by now rewrite seq_length. rewrite seq_nth by auto. cbn [plus].
  rewrite (dot_nth_sum _ _ dn).
  - apply Asum_ext. intros w Hw. apply in_seq in Hw. unfold bentry. f_equal.
    unfold col. rewrite (nth_map_in _ Y w [] 0); auto. destruct HY; lia.
  - now apply (wf_block_row dm dn).
  - unfold col. rewrite map_length. apply HY.
Qed.
Lemma wf_block_bmul dm dp (X Y : blockR) : length X = dm -> wf_block dm dp (bmul dp X Y).
Proof.
  intros H. unfold bmul. split; [now rewrite map_length|]. apply Forall_forall. intros r Hr.
  apply in_map_iff in Hr. destruct Hr as (xr & <- & _). now rewrite map_length, seq_length.
Qed.
Lemma wf_block_bzero h w : wf_block h w (bzero h w).
Proof. unfold bzero. split; [apply repeat_length|]. apply Forall_forall. intros r Hr. apply repeat_spec in Hr. subst. apply repeat_length. Qed.
Lemma bentry_bzero h w u v : bentry (bzero h w) u v = 0.
Proof.
  unfold bentry, bzero. destruct (Nat.lt_ge_cases u h) as [Hu|Hu].
  - rewrite (nth_indep _ [] (repeat 0 w)) by now rewrite repeat_length. rewrite nth_repeat.
    destruct (Nat.lt_ge_cases v w); [now rewrite nth_repeat|]. apply nth_overflow. now rewrite repeat_length.
  - rewrite (nth_overflow _ []) by now rewrite repeat_length. now destruct v.
Qed.
Lemma vmap2_add_nth : forall (r1 r2 : list R) v, length r1 = length r2 ->
  nth v (vmap2 add r1 r2) 0 = nth v r1 0 + nth v r2 0.
Proof.
  induction r1 as [|a r1 IH]; intros [|b r2] v H; cbn in *; try discriminate.
  - destruct v; lra.
  - destruct v; [reflexivity|]. apply IH. lia.
Qed.
Lemma badd_spec h w : forall (X Y : blockR), wf_block h w X -> wf_block h w Y ->
  wf_block h w (badd X Y) /\ forall u v, bentry (badd X Y) u v = bentry X u v + bentry Y u v.
Proof.
  unfold badd. intros X. revert h. induction X as [|r1 X IH]; intros h [|r2 Y] (H1 & H2) (H3 & H4); cbn in *; subst h; try discriminate.
  - split; [split; auto|]. intros u v. unfold bentry. destruct u, v; cbn; lra.
  - inversion H2; subst. inversion H4; subst.
    destruct (IH (length X) Y) as ((I1 & I2) & I3); [split; auto|split; auto; lia|].
    split.
    + split; [cbn; lia|]. constructor; auto. rewrite vmap2_length. lia.
    + intros [|u] v; unfold bentry; cbn.
      * apply vmap2_add_nth. lia.
      * apply I3.
Qed.

(* ---- well-formed block-compressed operands ---- *)
Record wf_bs (so si : nat) (X : bsR) : Prop := {
  wf_ptr_mono : forall i, (i < so)%nat -> (nth i (s_ptr X) O <= nth (S i) (s_ptr X) O)%nat;
  wf_ptr_bound : forall i, (i <= so)%nat -> (nth i (s_ptr X) O <= length (s_idx X))%nat;
  wf_sorted : forall i, (i < so)%nat -> sinc (s_idx X) (nth i (s_ptr X) O) (nth (S i) (s_ptr X) O);
  wf_idx_bound : forall k, (k < length (s_idx X))%nat -> (nth k (s_idx X) O < si)%nat;
  wf_vals_len : length (s_vals X) = length (s_idx X);
  wf_vals : Forall (wf_block (s_bh X) (s_bw X)) (s_vals X) }.

Lemma wf_vals_nth so si X k : wf_bs so si X -> (k < length (s_idx X))%nat -> wf_block (s_bh X) (s_bw X) (nth k (s_vals X) []).
Proof.
  intros W Hk. pose proof (wf_vals _ _ _ W) as H. rewrite Forall_forall in H. apply H. apply nth_In.
  rewrite (wf_vals_len _ _ _ W). exact Hk.
Qed.
Lemma blk_pos_range so si X i t k : wf_bs so si X -> (i < so)%nat -> blk_pos X i t = Some k ->
  (k < length (s_idx X))%nat /\ nth k (s_idx X) O = t.
Proof.
  intros W Hi H. unfold blk_pos in H. apply seg_find_some in H. destruct H as (H1 & H2 & H3).
  pose proof (wf_ptr_bound _ _ _ W (S i) ltac:(lia)). split; auto; lia.
Qed.

(* the inner product of block row (i, u) of A with block column (j, v) of B, block by block *)
Definition block_term (A B : bsR) (u v k1 k2 : nat) : R :=
  Asum (map (fun w => bentry (nth k1 (s_vals A) []) u w * bentry (nth k2 (s_vals B) []) w v) (seq 0 (s_bw A))).
Definition cell_value (A B : bsR) (sn i j u v : nat) : R :=
  Asum (map (fun t => match blk_pos A i t, blk_pos B j t with
                      | Some k1, Some k2 => block_term A B u v k1 k2
                      | _, _ => 0 end) (seq 0 sn)).

(* (b) the products gathered for cell (i, j), summed, give the cell value *)
Lemma cell_sum_spec (A B : bsR) sm sn sp i j u v :
  wf_bs sm sn A -> wf_bs sp sn B -> s_bw A = s_bh B -> (i < sm)%nat -> (j < sp)%nat -> (u < s_bh A)%nat -> (v < s_bw B)%nat ->
  Asum (map (fun s => bentry (bmul (s_bw B) (nth (fst s) (s_vals A) []) (nth (snd s) (s_vals B) [])) u v)
            (cell_matches (s_ptr A) (s_idx A) (s_ptr B) (s_idx B) i j))
  = cell_value A B sn i j u v.
Proof.
  intros WA WB Hd Hi Hj Hu Hv.
  pose proof (wf_ptr_mono _ _ _ WA i Hi) as Hm1. pose proof (wf_ptr_mono _ _ _ WB j Hj) as Hm2.
  destruct (merge_join_correct (s_ptr A) (s_idx A) (s_ptr B) (s_idx B) i j Hm1 Hm2
              (wf_sorted _ _ _ WA i Hi) (wf_sorted _ _ _ WB j Hj)) as (E & _).
  rewrite E. unfold join_spec. rewrite Asum_flat_map.
  set (lo1 := nth i (s_ptr A) O) in *. set (hi1 := nth (S i) (s_ptr A) O) in *.
  set (lo2 := nth j (s_ptr B) O) in *. set (hi2 := nth (S j) (s_ptr B) O) in *.
  pose proof (wf_ptr_bound _ _ _ WA (S i) ltac:(lia)) as Hb1. fold hi1 in Hb1.
  (* per stored position k1 of the block row *)
  set (H := fun (t k1 : nat) => match seg_find (s_idx B) lo2 hi2 t with
                                | Some k2 => block_term A B u v k1 k2 | None => 0 end).
  rewrite (Asum_ext _ (fun k1 => H (nth k1 (s_idx A) O) k1)).
  - assert (Ehi : (lo1 + (hi1 - lo1))%nat = hi1) by lia.
    rewrite (sorted_sum (s_idx A) sn H (hi1 - lo1) lo1).
    + rewrite Ehi. unfold cell_value. apply Asum_ext. intros t _. unfold blk_pos. fold lo1 lo2 hi1 hi2.
      destruct (seg_find (s_idx A) lo1 hi1 t) as [k1|]; auto.
    + rewrite Ehi. apply (wf_sorted _ _ _ WA i Hi).
    + intros k Hk. apply (wf_idx_bound _ _ _ WA). lia.
  - intros k1 Hk1. apply in_seq in Hk1. unfold H.
    destruct (seg_find (s_idx B) lo2 hi2 (nth k1 (s_idx A) O)) as [k2|] eqn:Es; cbn; [|reflexivity].
    apply seg_find_some in Es. destruct Es as (Es1 & Es2 & _).
    pose proof (wf_ptr_bound _ _ _ WB (S j) ltac:(lia)) as Hb2. fold hi2 in Hb2.
    rewrite (bentry_bmul (s_bh A) (s_bw A) (s_bw B)); auto.
    + unfold block_term. lra.
    + apply (wf_vals_nth sm sn); auto. lia.
    + rewrite Hd. apply (wf_vals_nth sp sn); auto. lia.
Qed.

(* (c) the dense inner product, regrouped by inner blocks *)
Lemma map_seq_shift {X} (f : nat -> X) : forall n a, map f (seq a n) = map (fun w => f (a + w)%nat) (seq 0 n).
Proof.
  induction n as [|n IH]; intros a; [reflexivity|]. cbn [seq map]. rewrite Nat.add_0_r. f_equal.
  rewrite IH. rewrite <- (seq_shift n 0), map_map. apply map_ext. intros w. f_equal. lia.
Qed.
Lemma sum_blocks (f : nat -> R) dn : forall sn,
  Asum (map f (seq 0 (sn * dn))) = Asum (map (fun t => Asum (map (fun w => f (t * dn + w)%nat) (seq 0 dn))) (seq 0 sn)).
Proof.
  induction sn as [|sn IH]; [reflexivity|].
  replace (S sn * dn)%nat with (sn * dn + dn)%nat by lia.
  rewrite seq_app, map_app, Asum_app, IH. rewrite seq_S, map_app, Asum_app. cbn [map Asum plus].
  f_equal. rewrite Rplus_0_r. now rewrite map_seq_shift.
Qed.

Lemma dense_inner (A B : bsR) sn r c :
  s_bw A = s_bh B -> s_bw A <> O ->
  Asum (map (fun s => bsr_entry A r s * bsc_entry B s c) (seq 0 (sn * s_bw A))) =
  cell_value A B sn (r / s_bh A) (c / s_bw B) (r mod s_bh A) (c mod s_bw B).
Proof.
  intros Hd Hn. rewrite sum_blocks. unfold cell_value. apply Asum_ext. intros t _.
  assert (Ediv : forall w, (w < s_bw A)%nat -> ((t * s_bw A + w) / s_bw A = t /\ (t * s_bw A + w) mod s_bw A = w)%nat).
  { intros w Hw. split.
    - rewrite Nat.div_add_l by auto. rewrite Nat.div_small by auto. lia.
    - rewrite Nat.add_comm, Nat.mod_add by auto. now apply Nat.mod_small. }
  destruct (blk_pos A (r / s_bh A) t) as [k1|] eqn:E1.
  - destruct (blk_pos B (c / s_bw B) t) as [k2|] eqn:E2.
    + unfold block_term. apply Asum_ext. intros w Hw. apply in_seq in Hw.
      destruct (Ediv w ltac:(lia)) as (D1 & D2).
      unfold bsr_entry, bsc_entry. rewrite <- Hd. rewrite D1, D2, E1, E2. reflexivity.
    + apply Asum_zero. intros w Hw. apply in_seq in Hw. destruct (Ediv w ltac:(lia)) as (D1 & D2).
      unfold bsc_entry. rewrite <- Hd. rewrite D1, E2. num_unfold. lra.
  - apply Asum_zero. intros w Hw. apply in_seq in Hw. destruct (Ediv w ltac:(lia)) as (D1 & D2).
    unfold bsr_entry. rewrite D1, E1. num_unfold. lra.
Qed.

(* ---- the loops: what result_step, coo_indices, index, source are ---- *)
Section Loops.
Variables crow col ccol row : list nat.
Definition ms (c : nat * nat) : list (nat * nat) := cell_matches crow col ccol row (fst c) (snd c).
Definition nzb (c : nat * nat) : bool := match ms c with [] => false | _ :: _ => true end.
Definition nzl (cs : list (nat * nat)) : list (nat * nat) := filter nzb cs.
Fixpoint idxl (s0 : nat) (cs : list (nat * nat)) : list nat :=
  match cs with
  | [] => []
  | c :: cs' => match ms c with
                | [] => idxl s0 cs'
                | _ :: _ => map (fun _ => s0) (ms c) ++ idxl (S s0) cs'
                end
  end.
Definition cells (sm sp : nat) : list (nat * nat) := flat_map (fun i => map (pair i) (seq 0 sp)) (seq 0 sm).

Lemma fold_cells : forall cs s0 coo0 idx0 src0,
  fold_left (fun st c => cell_step crow col ccol row st (fst c) (snd c)) cs (s0, coo0, idx0, src0) =
  ((s0 + length (nzl cs))%nat, coo0 ++ nzl cs, idx0 ++ idxl s0 cs, src0 ++ flat_map ms cs).
Proof.
  induction cs as [|c cs IH]; intros s0 coo0 idx0 src0.
  - cbn. now rewrite Nat.add_0_r, !app_nil_r.
  - cbn [fold_left]. unfold cell_step at 2. fold (ms c). cbn [nzl filter idxl flat_map].
    destruct (ms c) as [|p l] eqn:E.
    + assert (Hz : nzb c = false) by (unfold nzb; now rewrite E). rewrite Hz.
      cbn [map app]. rewrite !app_nil_r. rewrite IH. reflexivity.
    + assert (Hz : nzb c = true) by (unfold nzb; now rewrite E). rewrite Hz.
      rewrite IH. destruct c as [i j]. cbn [fst snd length]. fold (nzl cs). f_equal; [f_equal; [f_equal|]|].
      * lia.
      * now rewrite <- app_assoc.
      * now rewrite <- app_assoc.
      * now rewrite <- app_assoc.
Qed.
Lemma fold_nested {S} (g : S -> nat -> nat -> S) (js : list nat) : forall (is : list nat) st,
  fold_left (fun st i => fold_left (fun st j => g st i j) js st) is st =
  fold_left (fun st c => g st (fst c) (snd c)) (flat_map (fun i => map (pair i) js) is) st.
Proof.
  induction is as [|i is IH]; intros st; [reflexivity|]. cbn [fold_left flat_map]. rewrite fold_left_app, IH. f_equal.
  clear. revert st. induction js as [|j js IH]; intros st; [reflexivity|]. cbn. apply IH.
Qed.
Lemma loops_spec sm sp :
  loops crow col ccol row sm sp =
  (length (nzl (cells sm sp)), nzl (cells sm sp), idxl O (cells sm sp), flat_map ms (cells sm sp)).
Proof. unfold loops. rewrite (fold_nested (cell_step crow col ccol row)). fold (cells sm sp). now rewrite fold_cells. Qed.

(* selecting the entries of a value list whose index is s *)
Fixpoint sel (s : nat) (index : list nat) (vals : list R) : R :=
  match index, vals with
  | i :: il, x :: xl => (if (i =? s)%nat then x else 0) + sel s il xl
  | _, _ => 0
  end.
Lemma sel_app s : forall i1 v1 i2 v2, length i1 = length v1 -> sel s (i1 ++ i2) (v1 ++ v2) = sel s i1 v1 + sel s i2 v2.
Proof.
  induction i1 as [|i i1 IH]; intros [|x v1] i2 v2 H; cbn in *; try discriminate; [lra|].
  rewrite IH by lia. lra.
Qed.
Lemma sel_const s s0 {X} (g : X -> R) (l : list X) :
  sel s (map (fun _ => s0) l) (map g l) = if (s0 =? s)%nat then Asum (map g l) else 0.
Proof.
  induction l as [|a l IH]; cbn; [now destruct (s0 =? s)%nat|]. rewrite IH. destruct (s0 =? s)%nat; lra.
Qed.
Lemma sel_struct s (g : nat * nat -> R) : forall cs s0,
  sel s (idxl s0 cs) (map g (flat_map ms cs)) =
  match nth_error (nzl cs) (s - s0) with
  | Some c => if (s0 <=? s)%nat then Asum (map g (ms c)) else 0
  | None => 0
  end.
Proof.
  induction cs as [|c cs IH]; intros s0.
  - cbn. now destruct (s - s0)%nat.
  - cbn [idxl flat_map nzl filter]. destruct (ms c) as [|p l] eqn:E.
    + assert (Hz : nzb c = false) by (unfold nzb; now rewrite E). rewrite Hz. cbn [app]. apply IH.
    + assert (Hz : nzb c = true) by (unfold nzb; now rewrite E). rewrite Hz.
      rewrite <- E. rewrite map_app, sel_app by now rewrite !map_length. rewrite sel_const, IH.
      fold (nzl cs). destruct (Nat.lt_trichotomy s s0) as [Hlt|[->|Hgt]].
      * replace (s0 =? s)%nat with false by (symmetry; apply Nat.eqb_neq; lia).
        replace (S s0 <=? s)%nat with false by (symmetry; apply Nat.leb_gt; lia).
        replace (s0 <=? s)%nat with false by (symmetry; apply Nat.leb_gt; lia).
        destruct (nth_error (nzl cs) (s - S s0)); destruct (nth_error (c :: nzl cs) (s - s0)); lra.
      * rewrite Nat.eqb_refl, Nat.sub_diag. cbn [nth_error]. rewrite Nat.leb_refl.
        replace (S s0 <=? s0)%nat with false by (symmetry; apply Nat.leb_gt; lia).
        destruct (nth_error (nzl cs) (s0 - S s0)); lra.
      * replace (s0 =? s)%nat with false by (symmetry; apply Nat.eqb_neq; lia).
        replace (s - s0)%nat with (S (s - S s0)) by lia. cbn [nth_error].
        replace (S s0 <=? s)%nat with true by (symmetry; apply Nat.leb_le; lia).
        replace (s0 <=? s)%nat with true by (symmetry; apply Nat.leb_le; lia). lra.
Qed.
Lemma idxl_bound : forall cs s0, Forall (fun i => (i < s0 + length (nzl cs))%nat) (idxl s0 cs).
Proof.
  induction cs as [|c cs IH]; intros s0; [constructor|].
  cbn [idxl nzl filter]. destruct (ms c) as [|p l] eqn:E.
  { assert (Hz : nzb c = false) by (unfold nzb; now rewrite E). rewrite Hz. apply IH. }
  assert (Hz : nzb c = true) by (unfold nzb; now rewrite E). rewrite Hz.
  rewrite <- E. apply Forall_app. split.
  - apply Forall_forall. intros x Hx. apply in_map_iff in Hx. destruct Hx as (_ & <- & _). cbn. lia.
  - fold (nzl cs). specialize (IH (S s0)). eapply Forall_impl; [|exact IH]. cbn. intros; lia.
Qed.
End Loops.

(* ---- scatter_add ---- *)
Lemma upd_length {X} : forall (l : list X) k v, length (upd l k v) = length l.
Proof. induction l as [|a l IH]; intros [|k] v; cbn; auto. Qed.
Lemma upd_nth {X} (d : X) : forall (l : list X) k v s, (k < length l)%nat ->
  nth s (upd l k v) d = if (s =? k)%nat then v else nth s l d.
Proof.
  induction l as [|a l IH]; intros [|k] v [|s] H; cbn in *; try lia; auto. apply IH. lia.
Qed.
Lemma upd_Forall {X} (P : X -> Prop) : forall (l : list X) k v, Forall P l -> P v -> Forall P (upd l k v).
Proof.
  induction l as [|a l IH]; intros [|k] v Hl Hv; cbn; auto; inversion Hl; subst; constructor; auto.
Qed.
Lemma scatter_fold dm dp steps s u v : (s < steps)%nat ->
  forall index prod red, length red = steps -> Forall (wf_block dm dp) red -> Forall (wf_block dm dp) prod ->
  Forall (fun i => (i < steps)%nat) index ->
  bentry (nth s (fold_left (fun red ip => upd red (fst ip) (badd (nth (fst ip) red (bzero dm dp)) (snd ip)))
                           (combine index prod) red) []) u v
  = bentry (nth s red []) u v + sel s index (map (fun P => bentry P u v) prod).
Proof.
  intros Hs. induction index as [|i il IH]; intros [|P pl] red Hl Hr Hp Hi; cbn [combine fold_left sel map]; try lra.
  inversion Hp; subst. inversion Hi; subst.
  assert (Hwi : wf_block dm dp (nth i red (bzero dm dp))).
  { rewrite Forall_forall in Hr. apply Hr. apply nth_In. lia. }
  destruct (badd_spec dm dp _ _ Hwi H1) as (Hwf & Hent).
  rewrite IH; auto.
  - cbn [fst snd]. rewrite (upd_nth [] red i (badd (nth i red (bzero dm dp)) P) s H3).
    destruct (Nat.eqb_spec s i) as [->|Hne].
    + rewrite Nat.eqb_refl. rewrite Hent. rewrite (nth_indep red (bzero dm dp) []) by lia. lra.
    + replace (i =? s)%nat with false by (symmetry; apply Nat.eqb_neq; lia). cbv iota. unfold block in *. lra.
  - now rewrite upd_length.
  - apply upd_Forall; auto.
Qed.
Lemma scatter_spec dm dp steps index prod s u v : (s < steps)%nat ->
  Forall (wf_block dm dp) prod -> Forall (fun i => (i < steps)%nat) index ->
  bentry (nth s (scatter_add steps dm dp index prod) []) u v = sel s index (map (fun P => bentry P u v) prod).
Proof.
  intros Hs Hp Hi. unfold scatter_add. rewrite (scatter_fold dm dp steps s u v Hs); auto.
  - replace (nth s (repeat (bzero dm dp) steps) []) with (bzero (F:=R) dm dp).
    + rewrite bentry_bzero. lra.
    + symmetry. rewrite (nth_indep (repeat (bzero dm dp) steps) [] (bzero dm dp)) by now rewrite repeat_length.
      apply nth_repeat.
  - apply repeat_length.
  - apply Forall_forall. intros x Hx. apply repeat_spec in Hx. subst. apply wf_block_bzero.
Qed.

(* ---- COO -> CSR on a row-major list of (row, column) pairs ---- *)
From Coq Require Import Sorting.Sorted.
Definition plt (a b : nat * nat) : Prop := pair_lt a b = true.
Lemma coalesce_sorted l : Sorted plt l -> coalesce l = l.
Proof.
  induction l as [|a l IH]; intros H; [reflexivity|]. inversion H; subst. cbn [coalesce fold_right].
  fold (coalesce l). rewrite IH by auto. destruct l as [|b t]; [reflexivity|].
  inversion H3; subst. cbn [insert_pair]. unfold plt in H1. now rewrite H1.
Qed.
Lemma SS_app {X} (Rl : X -> X -> Prop) l1 l2 : StronglySorted Rl l1 -> StronglySorted Rl l2 ->
  (forall x y, In x l1 -> In y l2 -> Rl x y) -> StronglySorted Rl (l1 ++ l2).
Proof.
  induction l1 as [|a l1 IH]; intros H1 H2 Hc; [exact H2|]. inversion H1; subst. cbn. constructor.
  - apply IH; auto. intros x y Hx Hy. apply Hc; auto. now right.
  - apply Forall_app. split; auto. apply Forall_forall. intros y Hy. apply Hc; auto. now left.
Qed.
Lemma SS_seq : forall n a, StronglySorted lt (seq a n).
Proof.
  induction n as [|n IH]; intros a; cbn; constructor; auto. apply Forall_forall. intros x Hx. apply in_seq in Hx. lia.
Qed.
Lemma SS_filter {X} (Rl : X -> X -> Prop) p l : StronglySorted Rl l -> StronglySorted Rl (filter p l).
Proof.
  induction l as [|a l IH]; intros H; [constructor|]. inversion H; subst. cbn. destruct (p a); auto.
  constructor; auto. apply Forall_forall. intros x Hx. apply filter_In in Hx. rewrite Forall_forall in H3. apply H3. tauto.
Qed.
Lemma filter_all {X} (p : X -> bool) l : (forall x, In x l -> p x = true) -> filter p l = l.
Proof. induction l as [|a l IH]; intros H; cbn; auto. rewrite (H a) by now left. f_equal. apply IH. intros; apply H; now right. Qed.
Lemma filter_none {X} (p : X -> bool) l : (forall x, In x l -> p x = false) -> filter p l = [].
Proof. induction l as [|a l IH]; intros H; cbn; auto. rewrite (H a) by now left. apply IH. intros; apply H; now right. Qed.
Lemma filter_flat_map' {X Y} (p : Y -> bool) (f : X -> list Y) l : filter p (flat_map f l) = flat_map (fun x => filter p (f x)) l.
Proof. induction l as [|a l IH]; cbn; auto. now rewrite filter_app, IH. Qed.
Lemma filter_map_pair (p : nat * nat -> bool) i l : filter p (map (pair i) l) = map (pair i) (filter (fun j => p (i, j)) l).
Proof. induction l as [|a l IH]; cbn; auto. destruct (p (i, a)); cbn; now rewrite IH. Qed.

Section Ragged.
Variable rows : nat -> list nat.
Definition rag (a n : nat) : list (nat * nat) := flat_map (fun i => map (pair i) (rows i)) (seq a n).
Lemma rag_fst : forall n a rc, In rc (rag a n) -> (a <= fst rc < a + n)%nat.
Proof.
  intros n a rc H. unfold rag in H. apply in_flat_map in H. destruct H as (i & Hi & Hin).
  apply in_seq in Hi. apply in_map_iff in Hin. destruct Hin as (j & <- & _). cbn. lia.
Qed.
Lemma rag_app a n1 n2 : rag a (n1 + n2) = rag a n1 ++ rag (a + n1) n2.
Proof. unfold rag. now rewrite seq_app, flat_map_app. Qed.
Lemma rag_one i : rag i 1 = map (pair i) (rows i).
Proof. unfold rag. cbn. now rewrite app_nil_r. Qed.
Lemma rag_split i sm : (i < sm)%nat -> rag 0 sm = rag 0 i ++ map (pair i) (rows i) ++ rag (S i) (sm - S i).
Proof.
  intros H. replace sm with (i + (1 + (sm - S i)))%nat at 1 by lia. rewrite rag_app, rag_app, rag_one. cbn [plus].
  now replace (i + 1)%nat with (S i) by lia.
Qed.
Lemma filter_rag i sm : (i <= sm)%nat -> filter (fun rc => (fst rc <? i)%nat) (rag 0 sm) = rag 0 i.
Proof.
  intros H. replace sm with (i + (sm - i))%nat by lia. rewrite rag_app, filter_app. cbn [plus].
  rewrite filter_all, filter_none; [now rewrite app_nil_r| |].
  - intros x Hx. apply rag_fst in Hx. apply Nat.ltb_ge. lia.
  - intros x Hx. apply rag_fst in Hx. apply Nat.ltb_lt. lia.
Qed.
Lemma rag_sorted : (forall i, StronglySorted lt (rows i)) -> forall n a, StronglySorted plt (rag a n).
Proof.
  intros Hr. induction n as [|n IH]; intros a; [constructor|].
  replace (S n) with (1 + n)%nat by lia. rewrite rag_app, rag_one. apply SS_app.
  - specialize (Hr a). induction (rows a) as [|x l IHl]; [constructor|]. inversion Hr; subst. cbn. constructor; auto.
    apply Forall_forall. intros y Hy. apply in_map_iff in Hy. destruct Hy as (z & <- & Hz).
    rewrite Forall_forall in H2. specialize (H2 z Hz). unfold plt, pair_lt. cbn [fst snd].
    rewrite Nat.eqb_refl. replace (x <? z)%nat with true by (symmetry; apply Nat.ltb_lt; lia). now rewrite orb_true_r.
  - apply IH.
  - intros x y Hx Hy. apply in_map_iff in Hx. destruct Hx as (z & <- & _). apply rag_fst in Hy.
    unfold plt, pair_lt. cbn [fst snd]. replace (a <? fst y)%nat with true by (symmetry; apply Nat.ltb_lt; lia). reflexivity.
Qed.

(* looking (i, j) up through crow / col built from the list *)
Lemma rag_lookup i j sm : (i < sm)%nat ->
  let crow := map (fun i => length (filter (fun rc => (fst rc <? i)%nat) (rag 0 sm))) (seq 0 (S sm)) in
  let ccol := map snd (rag 0 sm) in
  match seg_find ccol (nth i crow O) (nth (S i) crow O) j with
  | Some s => In j (rows i) /\ nth_error (rag 0 sm) s = Some (i, j)
  | None => ~ In j (rows i)
  end.
Proof.
  intros Hi crow ccol.
  assert (E1 : nth i crow O = length (rag 0 i)).
  { unfold crow. rewrite (nth_map_seq _ O (S sm) i 0) by lia. cbn [plus]. now rewrite filter_rag by lia. }
  assert (E2 : nth (S i) crow O = (length (rag 0 i) + length (rows i))%nat).
  { unfold crow. rewrite (nth_map_seq _ O (S sm) (S i) 0) by lia. cbn [plus]. rewrite filter_rag by lia.
    replace (S i) with (i + 1)%nat by lia. rewrite rag_app, rag_one, app_length, map_length. reflexivity. }
  rewrite E1, E2. set (o := length (rag 0 i)). set (rw := rows i).
  assert (Ecol : forall q, (q < length rw)%nat -> nth (o + q) ccol O = nth q rw O).
  { intros q Hq. unfold ccol. rewrite (rag_split i sm Hi), !map_app, map_map. cbn [snd]. rewrite map_id.
    unfold o. rewrite <- (map_length snd (rag 0 i)). rewrite app_nth2_plus. now rewrite app_nth1. }
  destruct (seg_find ccol o (o + length rw) j) as [s|] eqn:Es.
  - apply seg_find_some in Es. destruct Es as (S1 & S2 & S3).
    assert (Hq : (s - o < length rw)%nat) by lia.
    replace s with (o + (s - o))%nat in S3 by lia. rewrite Ecol in S3 by auto. split.
    + rewrite <- S3. now apply nth_In.
    + rewrite (rag_split i sm Hi). fold rw. rewrite nth_error_app2 by (fold o; lia). fold o.
      rewrite nth_error_app1 by now rewrite map_length.
      rewrite (map_nth_error (pair i) (s - o) rw (d := nth (s - o) rw O)); [now rewrite S3|].
      now apply nth_error_nth'.
  - intros Hin. apply (In_nth _ _ O) in Hin. destruct Hin as (q & Hq & Hn).
    unfold seg_find in Es. assert (Hf := find_none _ _ Es (o + q)%nat ltac:(apply in_seq; lia)).
    cbv beta in Hf. rewrite Ecol in Hf by auto. rewrite Hn, Nat.eqb_refl in Hf. discriminate.
Qed.
End Ragged.

(* ---- assembling: bsr_bsc_matmul returns the dense product ---- *)
Section Final.
Variables (A B : bsR) (sm sn sp : nat).
Hypothesis WA : wf_bs sm sn A.
Hypothesis WB : wf_bs sp sn B.
Hypothesis Hd : s_bw A = s_bh B.
Hypothesis Hdm : s_bh A <> O.
Hypothesis Hdn : s_bw A <> O.
Hypothesis Hdp : s_bw B <> O.
Hypothesis HrA : s_rows A = (sm * s_bh A)%nat.
Hypothesis HcA : s_cols A = (sn * s_bw A)%nat.
Hypothesis HrB : s_rows B = (sn * s_bw A)%nat.
Hypothesis HcB : s_cols B = (sp * s_bw B)%nat.

Notation msAB := (ms (s_ptr A) (s_idx A) (s_ptr B) (s_idx B)).
Notation nzbAB := (nzb (s_ptr A) (s_idx A) (s_ptr B) (s_idx B)).
Definition prodf (s : nat * nat) : blockR := bmul (s_bw B) (nth (fst s) (s_vals A) []) (nth (snd s) (s_vals B) []).
Definition nzAB : list (nat * nat) := nzl (s_ptr A) (s_idx A) (s_ptr B) (s_idx B) (cells sm sp).
Definition reducedAB : list blockR :=
  scatter_add (length nzAB) (s_bh A) (s_bw B) (idxl (s_ptr A) (s_idx A) (s_ptr B) (s_idx B) O (cells sm sp))
              (map prodf (flat_map msAB (cells sm sp))).
Definition resultAB : bsR :=
  mkbs (s_rows A) (s_cols B) (s_bh A) (s_bw B) (fst (csr_of_coo sm nzAB)) (snd (csr_of_coo sm nzAB)) reducedAB.

Lemma matmul_runs : bsr_bsc_matmul A B = Some resultAB.
Proof.
  unfold bsr_bsc_matmul. rewrite HcA, HrB, Nat.eqb_refl. cbn [negb].
  replace (s_bh A =? 0)%nat with false by (symmetry; now apply Nat.eqb_neq).
  replace (s_bw A =? 0)%nat with false by (symmetry; now apply Nat.eqb_neq).
  replace (s_bw B =? 0)%nat with false by (symmetry; now apply Nat.eqb_neq). cbn [orb].
  rewrite HrA, HcB, !Nat.div_mul by auto.
  rewrite !(Nat.mul_comm (s_bh A) sm), !(Nat.mul_comm (s_bw A) sn), !(Nat.mul_comm (s_bw B) sp), !Nat.eqb_refl.
  cbn [andb negb]. rewrite loops_spec. rewrite Hd, Nat.eqb_refl. cbn [negb].
  unfold resultAB, reducedAB, nzAB, prodf. rewrite HrA, HcB.
  destruct (csr_of_coo sm _) as [cr cc]. reflexivity.
Qed.

Definition Rrows (i : nat) : list nat := filter (fun j => nzbAB (i, j)) (seq 0 sp).
Lemma nz_rag : nzAB = rag Rrows 0 sm.
Proof.
  unfold nzAB, nzl, cells, rag. rewrite filter_flat_map'. apply flat_map_ext. intros i. apply filter_map_pair.
Qed.
Lemma nz_coalesce : coalesce nzAB = nzAB.
Proof.
  apply coalesce_sorted. apply StronglySorted_Sorted. rewrite nz_rag. apply rag_sorted.
  intros i. apply SS_filter, SS_seq.
Qed.

Lemma prod_wf : Forall (wf_block (s_bh A) (s_bw B)) (map prodf (flat_map msAB (cells sm sp))).
Proof.
  apply Forall_forall. intros P HP. apply in_map_iff in HP. destruct HP as ([k1 k2] & <- & Hin).
  apply in_flat_map in Hin. destruct Hin as ([i j] & Hc & Hin).
  unfold cells in Hc. apply in_flat_map in Hc. destruct Hc as (i' & Hi' & Hc). apply in_map_iff in Hc.
  destruct Hc as (j' & E & Hj'). inversion E; subst i' j'. apply in_seq in Hi', Hj'.
  unfold ms in Hin. cbn [fst snd] in Hin.
  pose proof (wf_ptr_mono _ _ _ WA i ltac:(lia)) as Hm1. pose proof (wf_ptr_mono _ _ _ WB j ltac:(lia)) as Hm2.
  destruct (merge_join_correct (s_ptr A) (s_idx A) (s_ptr B) (s_idx B) i j Hm1 Hm2
              (wf_sorted _ _ _ WA i ltac:(lia)) (wf_sorted _ _ _ WB j ltac:(lia))) as (_ & Hchar).
  apply Hchar in Hin. destruct Hin as (H1 & _ & _).
  pose proof (wf_ptr_bound _ _ _ WA (S i) ltac:(lia)) as Hb1.
  unfold prodf. cbn [fst snd]. apply wf_block_bmul.
  apply (wf_vals_nth sm sn A k1 WA). lia.
Qed.

Lemma result_entry r c : (r < sm * s_bh A)%nat -> (c < sp * s_bw B)%nat ->
  bsr_entry resultAB r c = cell_value A B sn (r / s_bh A) (c / s_bw B) (r mod s_bh A) (c mod s_bw B).
Proof.
  intros Hr Hc.
  assert (Hi : (r / s_bh A < sm)%nat) by (apply Nat.div_lt_upper_bound; auto; lia).
  assert (Hj : (c / s_bw B < sp)%nat) by (apply Nat.div_lt_upper_bound; auto; lia).
  assert (Hu : (r mod s_bh A < s_bh A)%nat) by now apply Nat.mod_upper_bound.
  assert (Hv : (c mod s_bw B < s_bw B)%nat) by now apply Nat.mod_upper_bound.
  set (i := (r / s_bh A)%nat) in *. set (j := (c / s_bw B)%nat) in *.
  set (u := (r mod s_bh A)%nat) in *. set (v := (c mod s_bw B)%nat) in *.
  rewrite <- (cell_sum_spec A B sm sn sp i j u v WA WB Hd Hi Hj Hu Hv).
  change (cell_matches (s_ptr A) (s_idx A) (s_ptr B) (s_idx B) i j) with (msAB (i, j)).
  unfold bsr_entry. cbn [resultAB s_bh s_bw s_ptr s_idx s_vals]. fold i j u v.
  unfold blk_pos. cbn [resultAB s_ptr s_idx]. unfold csr_of_coo. cbn [fst snd]. rewrite nz_coalesce, nz_rag.
  pose proof (rag_lookup Rrows i j sm Hi) as L. cbv zeta in L.
  assert (HinR : In j (Rrows i) <-> nzbAB (i, j) = true).
  { unfold Rrows. rewrite filter_In, in_seq. split; [tauto|]. intros; split; auto; lia. }
  destruct (seg_find _ _ _ j) as [s|].
  - destruct L as (L1 & L2). rewrite <- nz_rag in L2.
    assert (Hs : (s < length nzAB)%nat) by (apply nth_error_Some; congruence).
    unfold reducedAB. rewrite scatter_spec; auto.
    + rewrite map_map. rewrite (sel_struct (s_ptr A) (s_idx A) (s_ptr B) (s_idx B) s (fun p => bentry (prodf p) u v) (cells sm sp) O).
      rewrite Nat.sub_0_r. fold nzAB. rewrite L2. cbn [Nat.leb]. reflexivity.
    + exact prod_wf.
    + pose proof (idxl_bound (s_ptr A) (s_idx A) (s_ptr B) (s_idx B) (cells sm sp) O) as Hb. cbn [plus] in Hb. exact Hb.
  - assert (Hz : nzbAB (i, j) = false).
    { destruct (nzbAB (i, j)) eqn:E; auto. exfalso. apply L. now apply HinR. }
    unfold nzb in Hz. destruct (msAB (i, j)); [|discriminate]. reflexivity.
Qed.

Lemma ncols_tabulate n p (f : nat -> nat -> R) : (0 < n)%nat -> ncols (tabulate n p f) = p.
Proof. intros H. destruct n; [lia|]. unfold tabulate. cbn. now rewrite map_length, seq_length. Qed.
Lemma col_tabulate n p (f : nat -> nat -> R) c : (c < p)%nat -> col c (tabulate n p f) = map (fun s => f s c) (seq 0 n).
Proof.
  intros H. unfold col, tabulate. rewrite map_map. apply map_ext. intros s.
  now rewrite (nth_map_seq _ 0 p c 0 H).
Qed.

(* ---- bsr_matmul_dense ---- *)
Theorem bsr_matmul_dense_thm : (0 < sn)%nat ->
  exists C, bsr_bsc_matmul A B = Some C /\ bsr_to_dense C = mm (bsr_to_dense A) (bsc_to_dense B).
Proof.
  intros Hsn. exists resultAB. split; [exact matmul_runs|].
  unfold bsr_to_dense, bsc_to_dense. cbn [resultAB s_rows s_cols].
  assert (Hn : (0 < s_rows B)%nat) by (rewrite HrB; nia).
  unfold mm. rewrite (ncols_tabulate _ _ _ Hn). unfold tabulate at 1 3. rewrite map_map.
  apply map_ext_in. intros r Hr. apply in_seq in Hr. apply map_ext_in. intros c Hc. apply in_seq in Hc.
  rewrite col_tabulate by lia. rewrite HcA, HrB. rewrite dot_seq_sum.
  rewrite dense_inner by auto. apply result_entry; lia.
Qed.
End Final.

(* the hypotheses are satisfiable, also with an empty block row and an explicit zero: a 2 x 2 grid of
   1 x 1 blocks [[0, 0], [0, 5]] (block row 0 empty) times a 2 x 1 grid [[3], [0 (stored)]] *)
Definition exA : bsR := mkbs 2 2 1 1 [0; 0; 1]%nat [1]%nat [[[5]]].
Definition exB : bsR := mkbs 2 1 1 1 [0; 2]%nat [0; 1]%nat [[[3]]; [[0]]].
Lemma exA_wf : wf_bs 2 2 exA.
Proof.
  split; cbn.
  - intros i Hi. destruct i as [|[|]]; cbn; lia.
  - intros i Hi. destruct i as [|[|[|]]]; cbn; lia.
  - intros i Hi k k' H1 H2 H3. destruct i as [|[|]]; cbn in *; lia.
  - intros k Hk. destruct k as [|]; cbn; lia.
  - reflexivity.
  - repeat constructor.
Qed.
Lemma exB_wf : wf_bs 1 2 exB.
Proof.
  split; cbn.
  - intros i Hi. destruct i as [|]; cbn; lia.
  - intros i Hi. destruct i as [|[|]]; cbn; lia.
  - intros i Hi k k' H1 H2 H3. destruct i as [|]; cbn in *; [|lia]. destruct k as [|[|]], k' as [|[|]]; cbn; lia.
  - intros k Hk. destruct k as [|[|]]; cbn; lia.
  - reflexivity.
  - repeat constructor.
Qed.
Example bsr_matmul_dense_example :
  exists C, bsr_bsc_matmul exA exB = Some C /\ bsr_to_dense C = mm (bsr_to_dense exA) (bsc_to_dense exB).
Proof. apply (bsr_matmul_dense_thm exA exB 2 2 1 exA_wf exB_wf); cbn; auto; lia. Qed.
