(* More proofs for C18, voxel_filter: when it raises, what the voxel index means geometrically
   (column minimum, truncated quotient = axis-aligned cell), voxel counts = numbers of members,
   the random variant's hypotheses are satisfiable for every cloud. *)
From Coq Require Import QArith.
Close Scope Q_scope.
From Coq Require Import ZArith Reals Lra Lia List Bool Arith Permutation Sorted Psatz.
Import ListNotations.
From PV Require Import Base.Num Model.LieGroup Model.Cloud Proofs.Cloud.
#[local] Remove Hints NumQ NumZ : typeclass_instances.
Local Open Scope R_scope.

(* ====================================================================== raising *)
Lemma voxel_ok_false (pts : cloudR) (voxel : vecR) :
  voxel_ok pts voxel = false <-> pts = [] \/ Exists (fun v => v = 0) voxel.
Proof.
  unfold voxel_ok. destruct pts as [|p pts].
  - split; auto.
  - split.
    + intros H. right. induction voxel as [|v voxel IH]; [discriminate|].
      cbn [forallb] in H. apply andb_false_iff in H. destruct H as [H|H].
      * left. apply negb_false_iff in H. now apply Reqb_true in H.
      * right. auto.
    + intros [H|H]; [discriminate|].
      induction H as [v voxel Hv | v voxel _ IH]; cbn [forallb].
      * replace (v =? zero)%num with true by (symmetry; now apply Reqb_true). reflexivity.
      * rewrite IH. apply andb_false_r.
Qed.

Lemma voxel_filter_none unique (pts : cloudR) (voxel : vecR) :
  voxel_filter unique pts voxel = None <-> pts = [] \/ Exists (fun v => v = 0) voxel.
Proof.
  rewrite <- voxel_ok_false. unfold voxel_filter.
  destruct (voxel_ok pts voxel); cbn [negb].
  - destruct (unique (vox_keys_of pts voxel)). split; discriminate.
  - split; auto.
Qed.
Lemma voxel_filter_random_raises unique argsort draws (pts : cloudR) (voxel : vecR) :
  pts = [] \/ Exists (fun v => v = 0) voxel -> voxel_filter_random unique argsort draws pts voxel = None.
Proof.
  intros H. apply voxel_ok_false in H. unfold voxel_filter_random. now rewrite H.
Qed.

(* ====================================================================== column minimum *)
Lemma nth_map2_minF (a b : vecR) j : (j < length a)%nat -> (j < length b)%nat ->
  nth j (map2 minF a b) 0 = Rmin (nth j a 0) (nth j b 0).
Proof. intros Ha Hb. rewrite (nth_map2 _ 0 0 0) by auto. apply minF_R. Qed.

Lemma fold_min_spec n j : (j < n)%nat -> forall (t : cloudR) (acc : vecR),
  length acc = n -> Forall (fun r => length r = n) t ->
  let m := fold_left (map2 minF) t acc in
  length m = n /\ nth j m 0 <= nth j acc 0 /\ (forall r, In r t -> nth j m 0 <= nth j r 0) /\
  (nth j m 0 = nth j acc 0 \/ exists r, In r t /\ nth j m 0 = nth j r 0).
Proof.
  intros Hj. induction t as [|r t IH]; intros acc Ha Ht; cbn [fold_left].
  - repeat split; auto; try lra. intros r [].
  - inversion Ht as [|? ? Hr Ht']; subst.
    assert (Hl : length (map2 minF acc r) = length acc) by (rewrite map2_length; lia).
    destruct (IH (map2 minF acc r) Hl Ht') as [H1 [H2 [H3 H4]]].
    rewrite nth_map2_minF in H2, H4 by lia.
    split; [congruence|]. split; [|split].
    + eapply Rle_trans; [exact H2 | apply Rmin_l].
    + intros q [<-|Hq]; [eapply Rle_trans; [exact H2 | apply Rmin_r] | now apply H3].
    + destruct H4 as [H4 | [q [Hq H4]]].
      * unfold Rmin in H4. destruct (Rle_dec (nth j acc 0) (nth j r 0)); [now left|].
        right. exists r. split; [now left | exact H4].
      * right. exists q. split; [now right | exact H4].
Qed.

Lemma col_min_spec (rows : cloudR) n j : rows <> [] -> Forall (fun r => length r = n) rows -> (j < n)%nat ->
  length (col_min rows) = n /\ (forall r, In r rows -> nth j (col_min rows) 0 <= nth j r 0) /\
  (exists r, In r rows /\ nth j (col_min rows) 0 = nth j r 0).
Proof.
  intros Hne Hr Hj. destruct rows as [|r t]; [congruence|]. cbn [col_min].
  inversion Hr as [|? ? Hr0 Ht]; subst.
  destruct (fold_min_spec (length r) j Hj t r eq_refl Ht) as [H1 [H2 [H3 H4]]].
  split; [exact H1|]. split.
  - intros q [<-|Hq]; auto.
  - destruct H4 as [H4 | [q [Hq H4]]]; [exists r | exists q]; split; auto; [now left | now right].
Qed.

(* the shift used by voxel_filter is, per coordinate, the minimum over the cloud (attained) *)
Lemma vox_minp_spec (pts : cloudR) (voxel : vecR) j :
  pts <> [] -> Forall (fun p => (length voxel <= length p)%nat) pts -> (j < length voxel)%nat ->
  length (vox_minp pts voxel) = length voxel /\
  (forall p, In p pts -> nth j (vox_minp pts voxel) 0 <= nth j p 0) /\
  (exists p, In p pts /\ nth j (vox_minp pts voxel) 0 = nth j p 0).
Proof.
  intros Hne Hlen Hj. unfold vox_minp.
  assert (Hfn : forall p, nth j (firstn (length voxel) p) 0 = nth j p 0).
  { intros p. rewrite <- (firstn_skipn (length voxel) p) at 2.
    destruct (Nat.lt_ge_cases j (length (firstn (length voxel) p))) as [H|H].
    - now rewrite app_nth1.
    - rewrite firstn_length in H.
      rewrite (nth_overflow (firstn _ _)) by (rewrite firstn_length; lia).
      assert (length p <= j)%nat by lia.
      rewrite nth_overflow; auto. rewrite app_length, firstn_length, skipn_length. lia. }
  destruct (col_min_spec (map (firstn (length voxel)) pts) (length voxel) j) as [H1 [H2 H3]]; auto.
  - destruct pts; [congruence | discriminate].
  - rewrite Forall_map. refine (Forall_impl _ _ Hlen). intros p Hp. rewrite firstn_length. lia.
  - split; [exact H1|]. split.
    + intros p Hp. rewrite <- (Hfn p). apply H2. now apply in_map.
    + destruct H3 as [r [Hr E]]. apply in_map_iff in Hr. destruct Hr as [p [<- Hp]].
      exists p. split; auto. now rewrite <- (Hfn p).
Qed.

(* ====================================================================== truncation = cell *)
Lemma Int_part_unique (r : R) (z : Z) : IZR z <= r -> r < IZR z + 1 -> Int_part r = z.
Proof.
  intros H1 H2. unfold Int_part. rewrite <- (up_tech r z); auto; [lia|]. now rewrite plus_IZR.
Qed.
Lemma Int_part_nonneg (r : R) : 0 <= r -> (0 <= Int_part r)%Z.
Proof.
  intros H. destruct (base_Int_part r) as [_ H2].
  assert (-1 < IZR (Int_part r)) by lra. apply lt_IZR in H0. lia.
Qed.

(* truncation toward zero of y / v for y >= 0: floor of y / |v| with the sign of v *)
Lemma Rtrunc_quot (y v : R) : 0 <= y -> v <> 0 ->
  Rtrunc (y / v) = if Rlt_dec v 0 then (- Int_part (y / Rabs v))%Z else Int_part (y / Rabs v).
Proof.
  intros Hy Hv. unfold Rtrunc. destruct (Rlt_dec v 0) as [Hneg|Hpos].
  - rewrite (Rabs_left v Hneg).
    assert (E : - (y / v) = y / - v) by (field; lra).
    destruct (Rlt_dec (y / v) 0) as [H|H].
    + now rewrite E.
    + assert (Hq : y / v <= 0).
      { unfold Rdiv. replace (y * / v) with (- (y * / - v)) by (field; lra).
        assert (0 < / - v) by (apply Rinv_0_lt_compat; lra). nra. }
      assert (Hz : y / v = 0) by lra. rewrite <- E, Hz, Ropp_0.
      rewrite (Int_part_unique 0 0) by (cbn; lra). reflexivity.
  - assert (0 < v) by lra. rewrite (Rabs_right v) by lra.
    destruct (Rlt_dec (y / v) 0) as [H'|H']; auto.
    exfalso. assert (0 < / v) by (now apply Rinv_0_lt_compat). unfold Rdiv in H'. nra.
Qed.

Lemma trunc_cell (y v : R) (c : Z) : 0 <= y -> v <> 0 ->
  Rtrunc (y / v) = c <->
  ((if Rlt_dec v 0 then (c <= 0)%Z else (0 <= c)%Z) /\
   IZR (Z.abs c) * Rabs v <= y < (IZR (Z.abs c) + 1) * Rabs v).
Proof.
  intros Hy Hv. rewrite Rtrunc_quot by auto.
  assert (Ha : 0 < Rabs v) by (now apply Rabs_pos_lt).
  assert (Hq : 0 <= y / Rabs v).
  { unfold Rdiv. assert (0 < / Rabs v) by (now apply Rinv_0_lt_compat). nra. }
  pose proof (Int_part_nonneg _ Hq) as Hn.
  destruct (base_Int_part (y / Rabs v)) as [B1 B2].
  assert (Hbox : forall n : Z, IZR n * Rabs v <= y < (IZR n + 1) * Rabs v <-> Int_part (y / Rabs v) = n).
  { intros n. split.
    - intros [L U]. apply Int_part_unique.
      + apply (Rmult_le_reg_r (Rabs v)); auto. unfold Rdiv. rewrite Rmult_assoc, Rinv_l by lra. lra.
      + apply (Rmult_lt_reg_r (Rabs v)); auto. unfold Rdiv. rewrite Rmult_assoc, Rinv_l by lra. lra.
    - intros <-. split.
      + apply (Rmult_le_compat_r (Rabs v)) in B1; [|lra].
        unfold Rdiv in B1 at 2. rewrite Rmult_assoc, Rinv_l in B1 by lra. lra.
      + assert (B3 : y / Rabs v < IZR (Int_part (y / Rabs v)) + 1) by lra.
        apply (Rmult_lt_compat_r (Rabs v)) in B3; auto.
        unfold Rdiv in B3 at 1. rewrite Rmult_assoc, Rinv_l in B3 by lra. lra. }
  destruct (Rlt_dec v 0).
  - split.
    + intros <-. split; [lia|]. apply Hbox. lia.
    + intros [Hs Hb]. apply Hbox in Hb. lia.
  - split.
    + intros <-. split; [lia|]. apply Hbox. lia.
    + intros [Hs Hb]. apply Hbox in Hb. lia.
Qed.

(* coordinate j of the integer voxel index of p *)
Lemma nth_vox_of (pts : cloudR) (voxel : vecR) (p : vecR) j :
  length (vox_minp pts voxel) = length voxel -> (length voxel <= length p)%nat -> (j < length voxel)%nat ->
  length (vox_of pts voxel p) = length voxel /\
  nth j (vox_of pts voxel p) 0%Z = Rtrunc ((nth j p 0 - nth j (vox_minp pts voxel) 0) / nth j voxel 0).
Proof.
  intros Hm Hp Hj. unfold vox_of, vox_index.
  assert (Hf : length (firstn (length voxel) p) = length voxel) by (rewrite firstn_length; lia).
  assert (Hs : length (vsubl (firstn (length voxel) p) (vox_minp pts voxel)) = length voxel).
  { unfold vsubl. rewrite map2_length. lia. }
  split.
  - rewrite map_length, map2_length. lia.
  - rewrite (nth_map' truncZ 0 0%Z) by (rewrite map2_length; lia).
    rewrite (nth_map2 _ 0 0 0) by lia. unfold vsubl.
    rewrite (nth_map2 _ 0 0 0) by lia.
    assert (Hfn : nth j (firstn (length voxel) p) 0 = nth j p 0).
    { rewrite <- (firstn_skipn (length voxel) p) at 2. rewrite app_nth1; auto. lia. }
    rewrite Hfn. reflexivity.
Qed.

(* the voxel of a point, geometrically: coordinate j of its index is c iff the point lies in the
   |c|-th cell of width |voxel_j| above the cloud minimum (c carries the sign of voxel_j) *)
Lemma vox_cell (pts : cloudR) (voxel : vecR) (p : vecR) j (c : Z) :
  Forall (fun q => (length voxel <= length q)%nat) pts -> Forall (fun v => v <> 0) voxel ->
  In p pts -> (j < length voxel)%nat ->
  let m := nth j (vox_minp pts voxel) 0 in
  let v := nth j voxel 0 in
  nth j (vox_of pts voxel p) 0%Z = c <->
  ((if Rlt_dec v 0 then (c <= 0)%Z else (0 <= c)%Z) /\
   IZR (Z.abs c) * Rabs v <= nth j p 0 - m < (IZR (Z.abs c) + 1) * Rabs v).
Proof.
  intros Hlen Hv Hp Hj m v. subst m v.
  assert (Hne : pts <> []) by (intros ->; destruct Hp).
  destruct (vox_minp_spec pts voxel j Hne Hlen Hj) as [Hml [Hmin _]].
  assert (Hpl : (length voxel <= length p)%nat) by (rewrite Forall_forall in Hlen; auto).
  destruct (nth_vox_of pts voxel p j Hml Hpl Hj) as [_ E]. rewrite E.
  apply trunc_cell.
  - specialize (Hmin p Hp). lra.
  - rewrite Forall_forall in Hv. apply Hv. now apply nth_In.
Qed.

(* ====================================================================== counts and members *)
Lemma sel_length {A} (k : nat) : forall (inv : list nat) (rows : list A), length rows = length inv ->
  length (sel k inv rows) = length (filter (Nat.eqb k) inv).
Proof.
  induction inv as [|i inv IH]; intros [|r rows] H; try discriminate; auto.
  cbn [sel filter]. rewrite (Nat.eqb_sym k i). destruct (Nat.eqb i k); cbn [length]; rewrite IH; auto.
Qed.

Section Counts.
Variable unique : list (list Z) -> list (list Z) * list nat.
Hypothesis Hu : uniq_contract unique.

(* the count torch.unique reports for voxel k = the number of points whose index is key k *)
Lemma vox_count_members (pts : cloudR) (voxel : vecR) k :
  let keys := fst (unique (map (vox_of pts voxel) pts)) in
  let inv := snd (unique (map (vox_of pts voxel) pts)) in
  (k < length keys)%nat ->
  length (filter (Nat.eqb k) inv) = length (vox_members pts voxel (nth k keys [])).
Proof.
  intros keys inv Hk.
  destruct (Hu (map (vox_of pts voxel) pts)) as [Hs [Hin Hinv]]. fold keys in Hs, Hin, Hinv. fold inv in Hinv.
  assert (Hnd : NoDup keys) by (eapply sorted_strict_nodup; [apply lex_lt_irrefl | exact Hs]).
  assert (Hlen : length pts = length inv) by (apply Forall2_len in Hinv; now rewrite map_length in Hinv).
  rewrite <- (sel_length k inv pts Hlen).
  now rewrite (sel_filter keys k (vox_of pts voxel) Hnd Hk inv pts Hinv).
Qed.

(* every reported voxel is occupied *)
Lemma vox_members_nonempty (pts : cloudR) (voxel : vecR) key :
  In key (fst (unique (map (vox_of pts voxel) pts))) -> vox_members pts voxel key <> [].
Proof.
  intros Hk. destruct (Hu (map (vox_of pts voxel) pts)) as [_ [Hin _]].
  apply Hin in Hk. apply in_map_iff in Hk. destruct Hk as [p [E Hp]].
  assert (In p (vox_members pts voxel key)).
  { unfold vox_members. apply filter_In. split; auto. now apply lZ_eqb_true. }
  intros E0. rewrite E0 in H. destruct H.
Qed.

(* and every point is a member of exactly one reported voxel *)
Lemma vox_members_cover (pts : cloudR) (voxel : vecR) p :
  In p pts -> exists key, In key (fst (unique (map (vox_of pts voxel) pts))) /\ In p (vox_members pts voxel key) /\
                          forall key', In p (vox_members pts voxel key') -> key' = key.
Proof.
  intros Hp. destruct (Hu (map (vox_of pts voxel) pts)) as [_ [Hin _]].
  exists (vox_of pts voxel p). split; [|split].
  - apply Hin. now apply in_map.
  - apply filter_In. split; auto. now apply lZ_eqb_true.
  - intros key' H. apply filter_In in H. destruct H as [_ H]. apply lZ_eqb_true in H. congruence.
Qed.

(* random=True with the bound on the draws stated on the members; in particular the all-zero
   draws are admissible for EVERY cloud, so the hypotheses of the spec are never vacuous *)
Variable argsort : list nat -> list nat.
Hypothesis Ha : argsort_contract argsort.

Lemma voxel_filter_random_spec_members (draws : list nat) (pts : cloudR) (voxel : vecR) :
  Forall (fun v => v <> 0) voxel -> pts <> [] ->
  let keys := fst (unique (map (vox_of pts voxel) pts)) in
  length draws = length keys ->
  (forall k, (k < length keys)%nat -> (nth k draws 0 < length (vox_members pts voxel (nth k keys [])))%nat) ->
  exists sel, voxel_filter_random unique argsort draws pts voxel = Some sel /\ length sel = length keys /\
              forall k, (k < length keys)%nat -> In (nth k sel []) (vox_members pts voxel (nth k keys [])).
Proof.
  intros Hv Hne keys Hdl Hd.
  apply (voxel_filter_random_spec unique argsort Hu Ha draws pts voxel Hv Hne Hdl).
  intros k Hk. rewrite vox_count_members by exact Hk. now apply Hd.
Qed.

Lemma voxel_filter_random_zero_draws (pts : cloudR) (voxel : vecR) :
  Forall (fun v => v <> 0) voxel -> pts <> [] ->
  let keys := fst (unique (map (vox_of pts voxel) pts)) in
  exists sel, voxel_filter_random unique argsort (repeat 0%nat (length keys)) pts voxel = Some sel /\
              length sel = length keys /\
              forall k, (k < length keys)%nat -> In (nth k sel []) (vox_members pts voxel (nth k keys [])).
Proof.
  intros Hv Hne keys. apply voxel_filter_random_spec_members; auto.
  - apply repeat_length.
  - intros k Hk. rewrite nth_repeat' by exact Hk.
    pose proof (vox_members_nonempty pts voxel (nth k keys []) (nth_In _ _ Hk)) as H.
    assert (G : forall l : cloudR, l <> [] -> (0 < length l)%nat) by (intros [|? ?] ?; [congruence | cbn; lia]).
    apply G. exact H.
Qed.
End Counts.
