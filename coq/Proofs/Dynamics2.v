(* C15, second part: operation histories of ANY shape on the LTV / LTI / NLS machines (the traces the
   tie compares), the reference point after histories with several set_refpoint (raising ones
   included), entries and shapes of the linearisation matrices, index guards of the time-indexed LTV. *)
From Coq Require Import Reals Lra Lia ZArith List Bool Arith Psatz.
From Coquelicot Require Import Coquelicot.
Import ListNotations.
From PV Require Import Base.Num Model.Dynamics Proofs.Dynamics.
#[local] Remove Hints NumQ NumZ : typeclass_instances.

(* ================================================================== 1. the time trace *)
Lemma time_trace_length k : forall ops t, length (time_trace k t ops) = length ops.
Proof. induction ops as [|o ops IH]; intros t; cbn; [reflexivity|]. now rewrite IH. Qed.

(* entry n of the trace (what the tie compares) is the time after the first n+1 operations, and
   nothing raised *)
Lemma time_trace_nth k : forall ops t n d, (n < length ops)%nat ->
  nth n (time_trace k t ops) d = (run_time k t (firstn (S n) ops), false).
Proof.
  induction ops as [|o ops IH]; intros t n d Hn; [cbn in Hn; lia|].
  destruct n as [|n].
  - cbn. destruct (step_time_total k t o) as [t' E]. now rewrite E.
  - cbn [time_trace nth]. rewrite IH by (cbn in Hn; lia). reflexivity.
Qed.

Lemma step_call k t : step_time k t Call = Some (t + 1)%Z.
Proof. reflexivity. Qed.
Lemma step_direct k t : step_time k t Direct = Some t.
Proof. reflexivity. Qed.
Lemma step_reset k t v : step_time k t (Reset v) = Some v.
Proof. reflexivity. Qed.
Lemma step_settime k t v : step_time k t (SetTime v) = Some v.
Proof. reflexivity. Qed.
Lemma step_setref k t ot : step_time k t (SetRef ot) =
  Some (match k, ot with KLTV, Some v => v | _, _ => t end).
Proof. destruct k, ot; reflexivity. Qed.

(* ================================================================== 2. LTV: every history *)
Section LTVHist.
Local Open Scope Z_scope.
Variable s : ltv (F:=R).

Lemma ltv_step_total (st : Z * list R) (o : lop (F:=R)) : exists st' out, ltv_step s st o = Some (st', out).
Proof. destruct st as [t x]. destruct o as [u|u|v|v|[v|]]; cbn; eauto. Qed.

Lemma ltv_run_app : forall a st b, ltv_run s st (a ++ b) = ltv_run s (ltv_run s st a) b.
Proof.
  induction a as [|o a IH]; intros st b; [reflexivity|].
  cbn [app ltv_run]. destruct (ltv_step s st o) as [[st' out]|]; apply IH.
Qed.

Lemma ltv_trace_length : forall ops st, length (ltv_trace s st ops) = length ops.
Proof.
  induction ops as [|o ops IH]; intros st; [reflexivity|].
  cbn [ltv_trace]. destruct (ltv_step s st o) as [[st' out]|]; cbn; now rewrite IH.
Qed.

(* entry number |pre| of the trace of pre ++ o :: post: the step o taken from the state reached by pre *)
Lemma ltv_trace_nth : forall pre st o post d,
  nth (length pre) (ltv_trace s st (pre ++ o :: post)) d =
    match ltv_step s (ltv_run s st pre) o with
    | Some (st', out) => (fst st', false, out)
    | None => (fst (ltv_run s st pre), true, [])
    end.
Proof.
  induction pre as [|p pre IH]; intros st o post d.
  - cbn [app length nth ltv_trace ltv_run]. destruct (ltv_step s st o) as [[st' out]|]; reflexivity.
  - cbn [app length ltv_trace ltv_run]. destruct (ltv_step s st p) as [[st' out]|]; cbn [nth]; apply IH.
Qed.

(* the state (second component) is only changed by calls *)
Definition lop_is_call (o : lop (F:=R)) : bool := match o with LCall _ => true | _ => false end.
Lemma ltv_noncall_keeps_state : forall ops t x,
  (forall o, In o ops -> lop_is_call o = false) -> snd (ltv_run s (t, x) ops) = x.
Proof.
  induction ops as [|o ops IH]; intros t x H; [reflexivity|].
  assert (Ho : lop_is_call o = false) by (apply H; now left).
  assert (Hr : forall o', In o' ops -> lop_is_call o' = false) by (intros o' Hi; apply H; now right).
  destruct o as [u|u|v|v|[v|]]; try discriminate; cbn [ltv_run ltv_step]; now apply IH.
Qed.

(* any history, any position: a call made after the operations [pre] applies the matrices of the time
   reached by [pre] (= last assignment + calls since, C15_time_after_ops) to the state reached by
   [pre], advances the time by one and returns next state ++ observation *)
Theorem ltv_history_call (t0 : Z) (x0 : list R) (pre : list (lop (F:=R))) (u : list R) (post : list (lop (F:=R))) d :
  let t := run_time KLTV t0 (map lop_erase pre) in
  let x := snd (ltv_run s (t0, x0) pre) in
  let m := ltv_at s t in
  ltv_run s (t0, x0) (pre ++ [LCall u]) = ((t + 1)%Z, lti_next m x u) /\
  nth (length pre) (ltv_trace s (t0, x0) (pre ++ LCall u :: post)) d =
    ((t + 1)%Z, false, lti_next m x u ++ lti_obs m x u).
Proof.
  intros t x m. subst t x m. rewrite <- (ltv_run_time s pre t0 x0).
  destruct (ltv_run s (t0, x0) pre) as [t x] eqn:E. cbn [fst snd]. split.
  - rewrite ltv_run_app, E. reflexivity.
  - rewrite ltv_trace_nth, E. reflexivity.
Qed.

(* a direct forward / state_transition / observation call: same matrices, time and state untouched *)
Theorem ltv_history_direct (t0 : Z) (x0 : list R) (pre : list (lop (F:=R))) (u : list R) (post : list (lop (F:=R))) d :
  let t := run_time KLTV t0 (map lop_erase pre) in
  let x := snd (ltv_run s (t0, x0) pre) in
  let m := ltv_at s t in
  ltv_run s (t0, x0) (pre ++ [LDirect u]) = (t, x) /\
  nth (length pre) (ltv_trace s (t0, x0) (pre ++ LDirect u :: post)) d =
    (t, false, lti_next m x u ++ lti_obs m x u).
Proof.
  intros t x m. subst t x m. rewrite <- (ltv_run_time s pre t0 x0).
  destruct (ltv_run s (t0, x0) pre) as [t x] eqn:E. cbn [fst snd]. split.
  - rewrite ltv_run_app, E. reflexivity.
  - rewrite ltv_trace_nth, E. reflexivity.
Qed.

(* the state a call is applied to: the result of the most recent call, or the initial state *)
Theorem ltv_state_is_last_call (t0 : Z) (x0 : list R) (ops : list (lop (F:=R))) :
  ((forall o, In o ops -> lop_is_call o = false) /\ snd (ltv_run s (t0, x0) ops) = x0) \/
  (exists pre u post, ops = pre ++ LCall u :: post /\ (forall o, In o post -> lop_is_call o = false) /\
     snd (ltv_run s (t0, x0) ops) =
       lti_next (ltv_at s (run_time KLTV t0 (map lop_erase pre))) (snd (ltv_run s (t0, x0) pre)) u).
Proof.
  assert (SP : forall ops : list (lop (F:=R)),
             (forall o, In o ops -> lop_is_call o = false) \/
             exists pre u post, ops = pre ++ LCall u :: post /\ (forall o, In o post -> lop_is_call o = false)).
  { induction ops0 as [|o ops0 IH]; [left; intros o []|].
    destruct IH as [Hn|(pre & u & post & -> & Hp)].
    - destruct (lop_is_call o) eqn:Ho.
      + right. destruct o as [u| | | |]; try discriminate. exists [], u, ops0. split; [reflexivity|exact Hn].
      + left. intros o' [<-|Hi]; auto.
    - right. exists (o :: pre), u, post. split; [reflexivity|exact Hp]. }
  destruct (SP ops) as [Hn|(pre & u & post & -> & Hp)].
  - left. split; [exact Hn|]. now apply ltv_noncall_keeps_state.
  - right. exists pre, u, post. split; [reflexivity|]. split; [exact Hp|].
    replace (pre ++ LCall u :: post) with ((pre ++ [LCall u]) ++ post) by (now rewrite <- app_assoc).
    rewrite ltv_run_app.
    destruct (ltv_history_call t0 x0 pre u [] (0, false, [])) as [E _]. cbv zeta in E. rewrite E.
    now apply ltv_noncall_keeps_state.
Qed.

(* ---- the index into the stacked matrices *)
Lemma tidx_range T t : 0 < T -> (tidx T t < Z.to_nat T)%nat.
Proof. intros HT. unfold tidx. pose proof (Z.mod_pos_bound t T HT). lia. Qed.
Lemma ltv_at_periodic t k : ltv_at s (t + k * vT s) = ltv_at s t.
Proof. unfold ltv_at, tidx. now rewrite Z_mod_plus_full. Qed.
Lemma ltv_at_mod t : ltv_at s (t mod vT s) = ltv_at s t.
Proof. unfold ltv_at, tidx. now rewrite Zmod_mod. Qed.
(* period 1 = a time-invariant system: every time selects the same matrices *)
Lemma ltv_T1_invariant t : vT s = 1 -> ltv_at s t = ltv_at s 0.
Proof. intros H. unfold ltv_at, tidx. now rewrite H, !Z.mod_1_r. Qed.
End LTVHist.

(* LTI: with period 1 every call of every history applies the same A, B, C, D, c1, c2 *)
Theorem lti_history_call (s : ltv (F:=R)) (t0 : Z) (x0 : list R) (pre : list (lop (F:=R))) (u : list R)
        (post : list (lop (F:=R))) d :
  vT s = 1%Z ->
  let x := snd (ltv_run s (t0, x0) pre) in
  let m := ltv_at s 0 in
  nth (length pre) (ltv_trace s (t0, x0) (pre ++ LCall u :: post)) d =
    ((run_time KLTV t0 (map lop_erase pre) + 1)%Z, false, lti_next m x u ++ lti_obs m x u).
Proof.
  intros HT x m. destruct (ltv_history_call s t0 x0 pre u post d) as [_ E]. cbv zeta in E.
  rewrite E. subst x m. now rewrite (ltv_T1_invariant s _ HT).
Qed.

(* a stacked system that is well formed for its period never reads a default matrix *)
Definition ltv_wf (s : ltv (F:=R)) : Prop :=
  (0 < vT s)%Z /\ length (vA s) = Z.to_nat (vT s) /\ length (vB s) = Z.to_nat (vT s) /\
  length (vC s) = Z.to_nat (vT s) /\ length (vD s) = Z.to_nat (vT s) /\
  (forall c, vc1 s = Some c -> length c = Z.to_nat (vT s)) /\
  (forall c, vc2 s = Some c -> length c = Z.to_nat (vT s)).
Lemma ltv_wf_index (s : ltv (F:=R)) t : ltv_wf s ->
  let i := tidx (vT s) t in
  (i < length (vA s))%nat /\ (i < length (vB s))%nat /\ (i < length (vC s))%nat /\ (i < length (vD s))%nat /\
  (forall c, vc1 s = Some c -> (i < length c)%nat) /\ (forall c, vc2 s = Some c -> (i < length c)%nat).
Proof.
  intros (HT & HA & HB & HC & HD & H1 & H2) i. pose proof (tidx_range (vT s) t HT) as Hi. fold i in Hi.
  rewrite HA, HB, HC, HD. repeat split; try assumption.
  - intros c Hc. now rewrite (H1 c Hc).
  - intros c Hc. now rewrite (H2 c Hc).
Qed.
(* negative times count from the end of the period, as torch's remainder does *)
Lemma tidx_negative T t : (0 < T)%Z -> (0 < t <= T)%Z -> tidx T (- t) = Z.to_nat (T - t).
Proof.
  intros HT Ht. unfold tidx. f_equal.
  replace (- t)%Z with ((T - t) + (-1) * T)%Z by ring. rewrite Z_mod_plus_full. apply Z.mod_small. lia.
Qed.
Example ltv_wf_example :
  ltv_wf {| vT := 2; vA := [[[1]]; [[2]]]; vB := [[[1]]; [[0]]]; vC := [[[1]]; [[1]]]; vD := [[[0]]; [[0]]];
            vc1 := Some [[1]; [0]]; vc2 := None |}.
Proof.
  unfold ltv_wf. cbn. repeat split; try lia; try reflexivity.
  - intros c [= <-]. reflexivity.
  - intros c [=].
Qed.
Example lti_wf_example :
  lti_wf {| sA := [[1; 2]; [0; 1]]; sB := [[1]; [0]]; sC := [[1; 0]]; sD := [[0]]; sc1 := Some [1; 1]; sc2 := None |}.
Proof.
  unfold lti_wf. cbn. repeat split; try reflexivity.
  - intros c [= <-]. reflexivity.
  - intros c [=].
Qed.

(* shapes: next state has one entry per row of A, observation one per row of C *)
Lemma addc_length (v : list R) c : (forall cv, c = Some cv -> length cv = length v) -> length (addc v c) = length v.
Proof. destruct c as [cv|]; cbn; intros H; [|reflexivity]. rewrite vadd_length; auto. symmetry. now apply H. Qed.
Lemma lti_shapes (s : lti (F:=R)) x u : lti_wf s ->
  length (lti_next s x u) = length (sA s) /\ length (lti_obs s x u) = length (sC s).
Proof.
  intros (H1 & H2 & H3 & H4). unfold lti_next, lti_obs. split.
  - rewrite addc_length; rewrite vadd_length; rewrite !mv_length; auto.
  - rewrite addc_length; rewrite vadd_length; rewrite !mv_length; auto.
Qed.
(* dot is the finite sum of products when the lengths agree (what bmv computes per row) *)
Lemma dot_as_sum : forall (a b : list R), length a = length b ->
  dot a b = fold_right Rplus 0%R (map (fun p => (fst p * snd p)%R) (combine a b)).
Proof.
  induction a as [|x a IH]; intros [|y b] H; cbn in H; try lia; [reflexivity|].
  cbn [dot combine map fold_right fst snd]. rewrite IH by lia. reflexivity.
Qed.

(* ================================================================== 3. NLS: every history *)
Section NLSHist.
Variables fs gs : list (fexpr (F:=R)).

Lemma nls_run_app : forall a (st : nst (F:=R)) b,
  nls_run fs gs st (a ++ b) = nls_run fs gs (nls_run fs gs st a) b.
Proof. induction a as [|o a IH]; intros st b; [reflexivity|]. cbn. apply IH. Qed.

Lemma nls_trace_length : forall ops (st : nst (F:=R)), length (nls_trace fs gs st ops) = length ops.
Proof.
  induction ops as [|o ops IH]; intros st; [reflexivity|].
  unfold nls_trace in *. cbn [nls_trace_gen]. destruct (nls_step_gen false fs gs st o) as [[st' out]|]; cbn; now rewrite IH.
Qed.

Lemma nls_trace_nth : forall pre (st : nst (F:=R)) o post d,
  nth (length pre) (nls_trace fs gs st (pre ++ o :: post)) d =
    match nls_step fs gs (nls_run fs gs st pre) o with
    | Some (st', out) => (n_t st', false, out)
    | None => (n_t (nls_run fs gs st pre), true, [])
    end.
Proof.
  unfold nls_trace, nls_run, nls_step.
  induction pre as [|p pre IH]; intros st o post d.
  - cbn [app length nth nls_trace_gen nls_run_gen]. destruct (nls_step_gen false fs gs st o) as [[st' out]|]; reflexivity.
  - cbn [app length nls_trace_gen nls_run_gen]. unfold nls_step'_gen at 1 2.
    destruct (nls_step_gen false fs gs st p) as [[st' out]|]; cbn [nth]; apply IH.
Qed.

(* any history, any position: system(x, u) after the operations [pre] evaluates f and g at
   (x, u, time reached by pre), advances the time by one and remembers (x, u) *)
Theorem nls_history_call (st : nst (F:=R)) (pre : list (nop (F:=R))) (x u : list R) (post : list (nop (F:=R))) d :
  let t := run_time KNLS (n_t st) (map nop_erase pre) in
  nth (length pre) (nls_trace fs gs st (pre ++ NCall x u :: post)) d =
    ((t + 1)%Z, false, evals fs x u (IZR t) ++ evals gs x u (IZR t)) /\
  n_last (nls_run fs gs st (pre ++ [NCall x u])) = Some (x, u) /\
  n_t (nls_run fs gs st (pre ++ [NCall x u])) = (t + 1)%Z.
Proof.
  intros t. subst t. rewrite <- (nls_run_time fs gs pre st). split; [|split].
  - rewrite nls_trace_nth. reflexivity.
  - rewrite nls_run_app. reflexivity.
  - rewrite nls_run_app. reflexivity.
Qed.

(* ---- the reference point: an invariant of every history *)
Definition ref_ok (r : nref (F:=R)) : Prop :=
  exists v, r_t r = TFixed v /\ r_f r = evals fs (r_x r) (r_u r) v /\ r_g r = evals gs (r_x r) (r_u r) v.
Definition st_ok (st : nst (F:=R)) : Prop := forall r, n_ref st = Some r -> ref_ok r.

Lemma st_ok_init t : st_ok (nst_init t).
Proof. intros r H. discriminate. Qed.
Lemma nls_step_ok (st : nst (F:=R)) o : st_ok st -> st_ok (nls_step' fs gs st o).
Proof.
  intros H. unfold nls_step', nls_step'_gen, nls_step_gen.
  destruct o as [x u|x u t|v|v|ox ou ot|]; try exact H.
  - destruct (match ox with Some x => Some x | None => option_map fst (n_last st) end) as [x|]; [|exact H].
    destruct (match ou with Some u => Some u | None => option_map snd (n_last st) end) as [u|]; [|exact H].
    intros r [= <-]. destruct ot as [v|]; eexists; cbn; repeat split; reflexivity.
  - destruct (n_ref st); exact H.
Qed.
Lemma nls_run_ok : forall ops (st : nst (F:=R)), st_ok st -> st_ok (nls_run fs gs st ops).
Proof.
  induction ops as [|o ops IH]; intros st H; [exact H|].
  change (st_ok (nls_run fs gs (nls_step' fs gs st o) ops)). apply IH. now apply nls_step_ok.
Qed.

(* in EVERY history from a fresh system (any number of set_refpoint, raising ones included), every
   read of A, B, C, D, c1, c2 that does not raise returns a linearisation nls_lin_l at one point:
   Jacobians and offsets always belong to the same (x, u, t) - and the read changes nothing *)
Theorem nls_read_always_consistent (t0 : Z) (ops : list (nop (F:=R))) :
  let st := nls_run fs gs (nst_init t0) ops in
  forall st' out, nls_step fs gs st NRead = Some (st', out) ->
    st' = st /\ exists x u tr, n_ref st = Some {| r_x := x; r_u := u; r_t := TFixed tr;
                                                  r_f := evals fs x u tr; r_g := evals gs x u tr |} /\
                               out = nls_lin_l fs gs x u tr.
Proof.
  intros st st' out. pose proof (nls_run_ok ops (nst_init t0) (st_ok_init t0)) as Hok. fold st in Hok.
  unfold nls_step, nls_step_gen. destruct (n_ref st) as [r|] eqn:E; [|discriminate].
  intros [= <- <-]. split; [reflexivity|].
  destruct (Hok r E) as (v & Hv & Hf & Hg). destruct r as [rx ru rt rf rg]. cbn in *. subst rt rf rg.
  exists rx, ru, v. split; reflexivity.
Qed.
(* a read raises exactly when no set_refpoint has succeeded yet *)
Lemma nls_read_raises_iff (st : nst (F:=R)) : nls_step fs gs st NRead = None <-> n_ref st = None.
Proof. unfold nls_step, nls_step_gen. destruct (n_ref st); split; intros; congruence. Qed.

(* ---- which point: the one of the last set_refpoint that did not raise.
   [quiet st post]: every set_refpoint in [post], run from [st], raises *)
Fixpoint quiet (st : nst (F:=R)) (post : list (nop (F:=R))) : Prop :=
  match post with
  | [] => True
  | o :: r => match o with NSetRef _ _ _ => nls_step fs gs st o = None | _ => True end /\
              quiet (nls_step' fs gs st o) r
  end.
Lemma no_setref_quiet : forall post st, no_setref post -> quiet st post.
Proof.
  induction post as [|o post IH]; intros st H; [exact I|]. split.
  - specialize (H o (or_introl eq_refl)). destruct o; try exact I. contradiction.
  - apply IH. intros o' Hi. apply H. now right.
Qed.
Lemma quiet_keeps_ref : forall post st, quiet st post -> n_ref (nls_run fs gs st post) = n_ref st.
Proof.
  induction post as [|o post IH]; intros st Hq; [reflexivity|]. destruct Hq as [Ho Hq].
  change (n_ref (nls_run fs gs (nls_step' fs gs st o) post) = n_ref st). rewrite IH by exact Hq.
  destruct o as [x u|x u t|v|v|ox ou ot|]; try (apply nls_step_keeps_ref; exact I).
  unfold nls_step', nls_step'_gen. unfold nls_step in Ho. now rewrite Ho.
Qed.

(* when set_refpoint raises / succeeds *)
Lemma nls_setref_succeeds_iff (st : nst (F:=R)) ox ou ot :
  (exists st', nls_step fs gs st (NSetRef ox ou ot) = Some (st', [])) <->
  (exists x u, ref_arg ox (option_map fst (n_last st)) = Some x /\ ref_arg ou (option_map snd (n_last st)) = Some u).
Proof.
  unfold nls_step, nls_step_gen, ref_arg.
  destruct ox as [x|]; destruct ou as [u|]; destruct (n_last st) as [[lx lu]|]; cbn; split; intros H;
    try (eexists; reflexivity); try (eexists; eexists; split; reflexivity);
    try (destruct H as [? H]; discriminate H);
    try (destruct H as (? & ? & H1 & H2); discriminate).
Qed.
Lemma nls_setref_raises_iff (st : nst (F:=R)) ox ou ot :
  nls_step fs gs st (NSetRef ox ou ot) = None <-> ((ox = None \/ ou = None) /\ n_last st = None).
Proof.
  unfold nls_step, nls_step_gen.
  destruct ox as [x|]; destruct ou as [u|]; destruct (n_last st) as [[lx lu]|]; cbn; split; intros H;
    try discriminate; try reflexivity; try (destruct H as [[H|H] H']; discriminate);
    try (split; [auto|reflexivity]).
Qed.

(* set_refpoint(x, u, t) that does not raise, then ANY history in which no later set_refpoint
   succeeds: the read is the linearisation at (x, u, t) *)
Theorem nls_read_last_setref (st : nst (F:=R)) ox ou ot x u post :
  ref_arg ox (option_map fst (n_last st)) = Some x ->
  ref_arg ou (option_map snd (n_last st)) = Some u ->
  let st1 := nls_step' fs gs st (NSetRef ox ou ot) in
  quiet st1 post ->
  let st2 := nls_run fs gs st1 post in
  nls_step fs gs st2 NRead = Some (st2, nls_lin_l fs gs x u (ref_time st ot)).
Proof.
  intros Hx Hu st1 Hq st2. set (tr := ref_time st ot).
  assert (R1 : n_ref st1 = Some {| r_x := x; r_u := u; r_t := TFixed tr;
                                   r_f := evals fs x u tr; r_g := evals gs x u tr |}).
  { subst st1 tr. unfold nls_step', nls_step'_gen, nls_step_gen, ref_time. unfold ref_arg in Hx, Hu.
    destruct ot as [v|]; destruct ox as [x0|]; destruct ou as [u0|]; cbn in Hx, Hu |- *;
      try rewrite Hx; try rewrite Hu; try (injection Hx as ->); try (injection Hu as ->); reflexivity. }
  assert (R2 : n_ref st2 = n_ref st1) by (subst st2; now apply quiet_keeps_ref).
  unfold nls_step, nls_step_gen. rewrite R2, R1. reflexivity.
Qed.

(* every history has one of the two shapes: no set_refpoint succeeded, or there is a last one that did *)
Theorem nls_history_split : forall (ops : list (nop (F:=R))) (st : nst (F:=R)),
  quiet st ops \/
  exists pre ox ou ot post x u,
    ops = pre ++ NSetRef ox ou ot :: post /\
    let stp := nls_run fs gs st pre in
    ref_arg ox (option_map fst (n_last stp)) = Some x /\
    ref_arg ou (option_map snd (n_last stp)) = Some u /\
    quiet (nls_step' fs gs stp (NSetRef ox ou ot)) post.
Proof.
  induction ops as [|o ops IH]; intros st; [left; exact I|].
  destruct (IH (nls_step' fs gs st o)) as [Hq|(pre & ox & ou & ot & post & x & u & -> & Hx & Hu & Hq)].
  - destruct o as [x u|x u t|v|v|ox ou ot|]; try (left; split; [exact I|exact Hq]).
    destruct (nls_step fs gs st (NSetRef ox ou ot)) as [[st' out]|] eqn:E.
    + right. destruct (proj1 (nls_setref_succeeds_iff st ox ou ot)) as (x & u & Hx & Hu).
      { unfold nls_step, nls_step_gen in E |- *.
        destruct (match ox with Some x => Some x | None => option_map fst (n_last st) end); [|discriminate].
        destruct (match ou with Some u => Some u | None => option_map snd (n_last st) end); [|discriminate].
        eauto. }
      exists [], ox, ou, ot, ops, x, u. split; [reflexivity|]. cbv zeta. cbn [nls_run nls_run_gen].
      split; [exact Hx|]. split; [exact Hu|exact Hq].
    + left. split; [exact E|exact Hq].
  - right. exists (o :: pre), ox, ou, ot, post, x, u. split; [reflexivity|]. cbv zeta in *.
    change (nls_run fs gs st (o :: pre)) with (nls_run fs gs (nls_step' fs gs st o) pre).
    split; [exact Hx|]. split; [exact Hu|exact Hq].
Qed.

(* both together: for EVERY history from a fresh system, reading A..c2 either raises (no set_refpoint
   has succeeded) or returns the linearisation at the point of the last set_refpoint that did not
   raise, with t* the given time or the system time when it ran *)
Theorem nls_read_any_history (t0 : Z) (ops : list (nop (F:=R))) :
  let st2 := nls_run fs gs (nst_init t0) ops in
  (quiet (nst_init t0) ops /\ nls_step fs gs st2 NRead = None) \/
  (exists pre ox ou ot post x u,
     ops = pre ++ NSetRef ox ou ot :: post /\
     let stp := nls_run fs gs (nst_init t0) pre in
     ref_arg ox (option_map fst (n_last stp)) = Some x /\
     ref_arg ou (option_map snd (n_last stp)) = Some u /\
     quiet (nls_step' fs gs stp (NSetRef ox ou ot)) post /\
     nls_step fs gs st2 NRead =
       Some (st2, nls_lin_l fs gs x u
                    (match ot with Some v => v
                                 | None => IZR (run_time KNLS t0 (map nop_erase pre)) end))).
Proof.
  intros st2. destruct (nls_history_split ops (nst_init t0)) as [Hq|(pre & ox & ou & ot & post & x & u & E & Hx & Hu & Hq)].
  - left. split; [exact Hq|]. apply nls_read_raises_iff. subst st2. now rewrite quiet_keeps_ref.
  - right. exists pre, ox, ou, ot, post, x, u. split; [exact E|]. cbv zeta in *.
    split; [exact Hx|]. split; [exact Hu|]. split; [exact Hq|].
    pose proof (nls_read_last_setref (nls_run fs gs (nst_init t0) pre) ox ou ot x u post Hx Hu Hq) as H.
    cbv zeta in H. subst st2. rewrite E.
    replace (pre ++ NSetRef ox ou ot :: post) with ((pre ++ [NSetRef ox ou ot]) ++ post) by (now rewrite <- app_assoc).
    rewrite !nls_run_app. cbn [nls_run nls_run_gen] in *.
    change (nls_step'_gen false fs gs) with (nls_step' fs gs). rewrite H.
    unfold ref_time. rewrite (nls_run_time fs gs pre (nst_init t0)). reflexivity.
Qed.
End NLSHist.

(* the hypotheses of nls_read_last_setref / C15_nls_read_after_setref are satisfiable in a non-trivial
   way: state and input taken from the last call, a raising set_refpoint cannot occur afterwards but a
   reset, a call and a time assignment do *)
Example nls_read_example :
  let fs := [EMul ET (ESin (EX 0))] in let gs := [EAdd (EX 0) (EU 0)] in
  let ops := [NCall [1] [2]; NSetRef None None None; NReset 7; NCall [3] [4]; NSetTime 0; NRead] in
  let st2 := nls_run fs gs (nst_init 5) ops in
  nls_step fs gs st2 NRead = Some (st2, nls_lin_l fs gs [1] [2] 6) /\ n_t st2 = 0%Z.
Proof.
  cbv zeta. split; [|reflexivity].
  pose proof (nls_read_last_setref [EMul ET (ESin (EX 0))] [EAdd (EX 0) (EU 0)]
                (nls_run [EMul ET (ESin (EX 0))] [EAdd (EX 0) (EU 0)] (nst_init 5) [NCall [1] [2]])
                None None None [1] [2] [NReset 7; NCall [3] [4]; NSetTime 0; NRead]
                eq_refl eq_refl) as H.
  cbv zeta in H. apply H. apply no_setref_quiet.
  intros o [<-|[<-|[<-|[<-|[]]]]]; exact I.
Qed.
(* a raising set_refpoint in the tail is really possible (and leaves the reference alone) *)
Example quiet_example :
  let fs := [EX 0] in let gs := [EX 0] in
  quiet fs gs (nls_step' fs gs (nst_init 0) (NSetRef (Some [1]) (Some [2]) None)) [NSetRef None None (Some 3%R)].
Proof. cbv zeta. split; [reflexivity|exact I]. Qed.

(* ================================================================== 4. entries and shapes of A, B, C, D *)
Lemma jac_length (fs : list (fexpr (F:=R))) vs x u t : length (jac fs vs x u t) = length fs.
Proof. unfold jac. apply map_length. Qed.
Lemma jac_row_length (fs : list (fexpr (F:=R))) vs x u t i : (i < length fs)%nat ->
  length (nth i (jac fs vs x u t) []) = length vs.
Proof. intros H. unfold jac. rewrite (nth_map_list _ fs ET) by assumption. unfold grad. apply map_length. Qed.
Lemma nls_A_shape (fs : list (fexpr (F:=R))) x u t :
  length (nls_A fs x u t) = length fs /\
  forall i, (i < length fs)%nat -> length (nth i (nls_A fs x u t) []) = length x.
Proof.
  split; [apply jac_length|]. intros i Hi. unfold nls_A. rewrite jac_row_length by assumption.
  unfold xvars. now rewrite map_length, seq_length.
Qed.
Lemma nls_B_shape (fs : list (fexpr (F:=R))) x u t :
  length (nls_B fs x u t) = length fs /\
  forall i, (i < length fs)%nat -> length (nth i (nls_B fs x u t) []) = length u.
Proof.
  split; [apply jac_length|]. intros i Hi. unfold nls_B. rewrite jac_row_length by assumption.
  unfold uvars. now rewrite map_length, seq_length.
Qed.
Lemma nls_A_entry (fs : list (fexpr (F:=R))) x u t i j : (i < length fs)%nat -> (j < length x)%nat ->
  nth j (nth i (nls_A fs x u t) []) 0%R = eval (deriv (nth i fs ET) (VX j)) x u t.
Proof.
  intros Hi Hj. unfold nls_A, jac. rewrite (nth_map_list _ fs ET) by assumption.
  rewrite grad_xvars. unfold gradx. now rewrite nth_map_seq.
Qed.
Lemma nls_B_entry (fs : list (fexpr (F:=R))) x u t i j : (i < length fs)%nat -> (j < length u)%nat ->
  nth j (nth i (nls_B fs x u t) []) 0%R = eval (deriv (nth i fs ET) (VU j)) x u t.
Proof.
  intros Hi Hj. unfold nls_B, jac. rewrite (nth_map_list _ fs ET) by assumption.
  rewrite grad_uvars. unfold gradu. now rewrite nth_map_seq.
Qed.
Lemma deriv_correct_u_at (e : fexpr (F:=R)) (x u : list R) (t : R) j : (j < length u)%nat ->
  is_derive (fun s => eval e x (upd u j s) t) (nth j u 0%R) (eval (deriv e (VU j)) x u t).
Proof. intros Hj. pose proof (deriv_correct_u e x u t j Hj (nth j u 0%R)) as H. now rewrite upd_same in H. Qed.

(* entry (i, j) of A (C with gs for fs) IS the partial derivative of component i with respect to
   state component j at the reference point; entry (i, j) of B (D) the one w.r.t. input component j *)
Theorem nls_A_is_jacobian (fs : list (fexpr (F:=R))) x u t i j : (i < length fs)%nat -> (j < length x)%nat ->
  is_derive (fun s => nth i (evals fs (upd x j s) u t) 0%R) (nth j x 0%R) (nth j (nth i (nls_A fs x u t) []) 0%R).
Proof.
  intros Hi Hj. rewrite nls_A_entry by assumption.
  apply (is_derive_ext (fun s => eval (nth i fs ET) (upd x j s) u t)).
  { intros s. unfold evals. now rewrite (nth_map_R _ fs ET). }
  now apply deriv_correct_x_at.
Qed.
Theorem nls_B_is_jacobian (fs : list (fexpr (F:=R))) x u t i j : (i < length fs)%nat -> (j < length u)%nat ->
  is_derive (fun s => nth i (evals fs x (upd u j s) t) 0%R) (nth j u 0%R) (nth j (nth i (nls_B fs x u t) []) 0%R).
Proof.
  intros Hi Hj. rewrite nls_B_entry by assumption.
  apply (is_derive_ext (fun s => eval (nth i fs ET) x (upd u j s) t)).
  { intros s. unfold evals. now rewrite (nth_map_R _ fs ET). }
  now apply deriv_correct_u_at.
Qed.

(* what a read returns, spelled out: A, B, C, D row-major, then c1, c2 *)
Lemma nls_lin_l_unfold (fs gs : list (fexpr (F:=R))) x u t :
  nls_lin_l fs gs x u t =
    concat (nls_A fs x u t) ++ concat (nls_B fs x u t) ++ concat (nls_A gs x u t) ++ concat (nls_B gs x u t) ++
    nls_c (evals fs x u t) (nls_A fs x u t) (nls_B fs x u t) x u ++
    nls_c (evals gs x u t) (nls_A gs x u t) (nls_B gs x u t) x u.
Proof. reflexivity. Qed.

(* ================================================================== 5. "the most recent state / input" *)
Definition nop_is_call (o : nop (F:=R)) : bool := match o with NCall _ _ => true | _ => false end.
Lemma nls_step_keeps_last fs gs (st : nst (F:=R)) o : nop_is_call o = false ->
  n_last (nls_step' fs gs st o) = n_last st.
Proof.
  unfold nls_step', nls_step'_gen, nls_step_gen. destruct o as [x u|x u t|v|v|ox ou ot|]; try discriminate; intros _;
    try reflexivity.
  - destruct (match ox with Some x => Some x | None => option_map fst (n_last st) end); [|reflexivity].
    destruct (match ou with Some u => Some u | None => option_map snd (n_last st) end); reflexivity.
  - destruct (n_ref st); reflexivity.
Qed.
Lemma nls_noncall_keeps_last fs gs : forall ops (st : nst (F:=R)),
  (forall o, In o ops -> nop_is_call o = false) -> n_last (nls_run fs gs st ops) = n_last st.
Proof.
  induction ops as [|o ops IH]; intros st H; [reflexivity|].
  change (n_last (nls_run fs gs (nls_step' fs gs st o) ops) = n_last st).
  rewrite IH by (intros o' Hi; apply H; now right). apply nls_step_keeps_last. apply H. now left.
Qed.
(* in every history the state / input set_refpoint() defaults to are those of the most recent call,
   whatever resets, time assignments, reads, direct calls or set_refpoint came after it *)
Theorem nls_last_is_last_call fs gs (st : nst (F:=R)) (ops : list (nop (F:=R))) :
  ((forall o, In o ops -> nop_is_call o = false) /\ n_last (nls_run fs gs st ops) = n_last st) \/
  (exists pre x u post, ops = pre ++ NCall x u :: post /\ (forall o, In o post -> nop_is_call o = false) /\
     n_last (nls_run fs gs st ops) = Some (x, u)).
Proof.
  assert (SP : forall ops : list (nop (F:=R)),
             (forall o, In o ops -> nop_is_call o = false) \/
             exists pre x u post, ops = pre ++ NCall x u :: post /\ (forall o, In o post -> nop_is_call o = false)).
  { induction ops0 as [|o ops0 IH]; [left; intros o []|].
    destruct IH as [Hn|(pre & x & u & post & -> & Hp)].
    - destruct (nop_is_call o) eqn:Ho.
      + right. destruct o as [x u| | | | |]; try discriminate. exists [], x, u, ops0. split; [reflexivity|exact Hn].
      + left. intros o' [<-|Hi]; auto.
    - right. exists (o :: pre), x, u, post. split; [reflexivity|exact Hp]. }
  destruct (SP ops) as [Hn|(pre & x & u & post & -> & Hp)].
  - left. split; [exact Hn|]. now apply nls_noncall_keeps_last.
  - right. exists pre, x, u, post. split; [reflexivity|]. split; [exact Hp|].
    replace (pre ++ NCall x u :: post) with ((pre ++ [NCall x u]) ++ post) by (now rewrite <- app_assoc).
    rewrite nls_run_app, nls_noncall_keeps_last by exact Hp.
    rewrite nls_run_app. reflexivity.
Qed.
