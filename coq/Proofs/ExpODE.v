(* C01: uniqueness for the initial value problem Y' = [x]x Y, Y(0) = I, hence
   "the matrix of so3 Exp(x) IS the matrix exponential of [x]x" as an equivalence. *)
From Coq Require Import Reals Lra Psatz List Nsatz.
From Coquelicot Require Import Coquelicot.
Import ListNotations.
From PV Require Import Base.Num Base.RTac Model.LieGroup Model.LieExp Proofs.LieGroup Proofs.LieExp.
Local Open Scope R_scope.
#[local] Remove Hints NumQ NumZ : typeclass_instances.

Section Uniq.
Variables a b c th : R.
Hypothesis Hth : th <> 0.
Hypothesis Hn : a * a + b * b + c * c = th * th.
(* an arbitrary entrywise-differentiable solution *)
Variables y00 y01 y02 y10 y11 y12 y20 y21 y22 : R -> R.
Definition Ym (t : R) : @mat3 R := ((y00 t, y01 t, y02 t), (y10 t, y11 t, y12 t), (y20 t, y21 t, y22 t)).
Definition KY (t : R) : @mat3 R := mmul3 (skew (a, b, c)) (Ym t).
Hypothesis D00 : forall t, is_derive y00 t (m3get (KY t) 0 0).
Hypothesis D01 : forall t, is_derive y01 t (m3get (KY t) 0 1).
Hypothesis D02 : forall t, is_derive y02 t (m3get (KY t) 0 2).
Hypothesis D10 : forall t, is_derive y10 t (m3get (KY t) 1 0).
Hypothesis D11 : forall t, is_derive y11 t (m3get (KY t) 1 1).
Hypothesis D12 : forall t, is_derive y12 t (m3get (KY t) 1 2).
Hypothesis D20 : forall t, is_derive y20 t (m3get (KY t) 2 0).
Hypothesis D21 : forall t, is_derive y21 t (m3get (KY t) 2 1).
Hypothesis D22 : forall t, is_derive y22 t (m3get (KY t) 2 2).
Hypothesis Y0 : Ym 0 = mid3.

(* Z(t) = Rodrigues(-t x) *)
Definition Zm (t : R) : @mat3 R := rod_th th (a, b, c) (- t).
Definition P (t : R) : @mat3 R := mmul3 (Zm t) (Ym t).

Ltac yder :=
  repeat match goal with
  | |- context [Derive (fun x => ?f x) ?t] => change (Derive (fun x => f x) t) with (Derive f t)
  end;
  rewrite ?(is_derive_unique _ _ _ (D00 _)), ?(is_derive_unique _ _ _ (D01 _)), ?(is_derive_unique _ _ _ (D02 _)),
          ?(is_derive_unique _ _ _ (D10 _)), ?(is_derive_unique _ _ _ (D11 _)), ?(is_derive_unique _ _ _ (D12 _)),
          ?(is_derive_unique _ _ _ (D20 _)), ?(is_derive_unique _ _ _ (D21 _)), ?(is_derive_unique _ _ _ (D22 _)).

Lemma P_const_entry i j : (i < 3)%nat -> (j < 3)%nat -> forall t, is_derive (fun t => m3get (P t) i j) t 0.
Proof.
  intros Hi Hj t.
  assert (E00 := fun t => ex_intro _ _ (D00 t)). assert (E01 := fun t => ex_intro _ _ (D01 t)).
  assert (E02 := fun t => ex_intro _ _ (D02 t)). assert (E10 := fun t => ex_intro _ _ (D10 t)).
  assert (E11 := fun t => ex_intro _ _ (D11 t)). assert (E12 := fun t => ex_intro _ _ (D12 t)).
  assert (E20 := fun t => ex_intro _ _ (D20 t)). assert (E21 := fun t => ex_intro _ _ (D21 t)).
  assert (E22 := fun t => ex_intro _ _ (D22 t)).
  destruct i as [|[|[|i]]]; try lia; destruct j as [|[|[|j]]]; try lia;
  (unfold P, Zm, Ym, rod_th, m3get; lie_unfold; auto_derive;
   [ repeat split; first [apply E00|apply E01|apply E02|apply E10|apply E11|apply E12|apply E20|apply E21|apply E22|exact I]
   | yder; unfold KY, Ym, m3get; lie_unfold;
     set (S := sin (- t * th)); set (C := cos (- t * th)); clearbody S C;
     field_simplify_eq; auto; cbn [Rpow_def.pow];
     generalize (y00 t) (y01 t) (y02 t) (y10 t) (y11 t) (y12 t) (y20 t) (y21 t) (y22 t); intros; clear - Hn; nsatz ]).
Qed.
End Uniq.

(* a function R -> R with derivative 0 everywhere is constant *)
Lemma zero_derivative_const (f : R -> R) : (forall t, is_derive f t 0) -> forall t, f t = f 0.
Proof.
  intros H t.
  destruct (MVT_gen f 0 t (fun _ => 0)) as (c & _ & Hc).
  - intros x _. apply H.
  - intros x _. apply continuity_pt_filterlim. apply (ex_derive_continuous f x). exists 0. apply H.
  - lra.
Qed.

Lemma m3_ext (A B : @mat3 R) : (forall i j, (i < 3)%nat -> (j < 3)%nat -> m3get A i j = m3get B i j) -> A = B.
Proof.
  intros H.
  pose proof (H 0%nat 0%nat) as H00. pose proof (H 0%nat 1%nat) as H01. pose proof (H 0%nat 2%nat) as H02.
  pose proof (H 1%nat 0%nat) as H10. pose proof (H 1%nat 1%nat) as H11. pose proof (H 1%nat 2%nat) as H12.
  pose proof (H 2%nat 0%nat) as H20. pose proof (H 2%nat 1%nat) as H21. pose proof (H 2%nat 2%nat) as H22.
  clear H. destruct_tuples. unfold m3get in *. lie_unfold.
  rewrite H00, H01, H02, H10, H11, H12, H20, H21, H22 by lia. reflexivity.
Qed.

Section Uniq2.
Variables a b c th : R.
Hypothesis Hth : th <> 0.
Hypothesis Hn : a * a + b * b + c * c = th * th.
Variables y00 y01 y02 y10 y11 y12 y20 y21 y22 : R -> R.
Notation Y := (Ym y00 y01 y02 y10 y11 y12 y20 y21 y22).
Notation KYt := (KY a b c y00 y01 y02 y10 y11 y12 y20 y21 y22).
Hypothesis D00 : forall t, is_derive y00 t (m3get (KYt t) 0 0).
Hypothesis D01 : forall t, is_derive y01 t (m3get (KYt t) 0 1).
Hypothesis D02 : forall t, is_derive y02 t (m3get (KYt t) 0 2).
Hypothesis D10 : forall t, is_derive y10 t (m3get (KYt t) 1 0).
Hypothesis D11 : forall t, is_derive y11 t (m3get (KYt t) 1 1).
Hypothesis D12 : forall t, is_derive y12 t (m3get (KYt t) 1 2).
Hypothesis D20 : forall t, is_derive y20 t (m3get (KYt t) 2 0).
Hypothesis D21 : forall t, is_derive y21 t (m3get (KYt t) 2 1).
Hypothesis D22 : forall t, is_derive y22 t (m3get (KYt t) 2 2).
Hypothesis Y0 : Y 0 = mid3.
Notation Pt := (P a b c th y00 y01 y02 y10 y11 y12 y20 y21 y22).
Notation Zt := (Zm a b c th).

Lemma P_is_identity t : Pt t = mid3.
Proof.
  assert (H0 : Pt 0 = mid3).
  { unfold P. rewrite Y0. unfold Zm, rod_th. rewrite Ropp_0, Rmult_0_l, sin_0, cos_0. lie_unfold. split_pairs; field; auto. }
  rewrite <- H0. apply m3_ext. intros i j Hi Hj.
  apply (zero_derivative_const (fun t => m3get (Pt t) i j)). intros u.
  apply (P_const_entry a b c th Hth Hn y00 y01 y02 y10 y11 y12 y20 y21 y22 D00 D01 D02 D10 D11 D12 D20 D21 D22 i j Hi Hj).
Qed.

(* W(t) Z(t) = I for W = Rodrigues(t x), Z = Rodrigues(-t x) *)
Lemma W_Z_identity t : mmul3 (rod_th th (a, b, c) t) (Zt t) = mid3.
Proof.
  unfold Zm, rod_th. replace (- t * th) with (- (t * th)) by ring. rewrite sin_neg, cos_neg.
  pose proof (sin2_cos2 (t * th)) as Hsc. unfold Rsqr in Hsc.
  set (S := sin (t * th)) in *. set (C := cos (t * th)) in *. clearbody S C.
  lie_unfold. split_pairs; field_simplify_eq; auto; cbn [Rpow_def.pow]; clear - Hn Hsc; nsatz.
Qed.
Lemma mmul3_assoc (A B C : @mat3 R) : mmul3 (mmul3 A B) C = mmul3 A (mmul3 B C).
Proof. lie_ring. Qed.
Lemma mmul3_id_l (A : @mat3 R) : mmul3 mid3 A = A.
Proof. lie_ring. Qed.
Lemma mmul3_id_r (A : @mat3 R) : mmul3 A mid3 = A.
Proof. lie_ring. Qed.

(* every solution of the initial value problem is Rodrigues' curve *)
Theorem ode_solution_unique t : Y t = rod_th th (a, b, c) t.
Proof.
  rewrite <- (mmul3_id_l (Y t)), <- (W_Z_identity t), mmul3_assoc.
  change (mmul3 (Zt t) (Y t)) with (Pt t). rewrite P_is_identity. apply mmul3_id_r.
Qed.
End Uniq2.

(* packaged: E is the matrix exponential of [x]x  (E = Y 1 for the unique entrywise-differentiable
   Y with Y 0 = I and Y' = [x]x Y)  iff  E = rodrigues x *)
Definition is_mexp_so3 (x : vec3R) (E : @mat3 R) : Prop :=
  exists Yf : R -> @mat3 R,
    Yf 0 = mid3 /\
    (forall t i j, (i < 3)%nat -> (j < 3)%nat ->
        is_derive (fun t => m3get (Yf t) i j) t (m3get (mmul3 (skew x) (Yf t)) i j)) /\
    Yf 1 = E.
Theorem rodrigues_is_the_exponential (x : vec3R) (E : @mat3 R) : vnorm x <> 0 ->
  (is_mexp_so3 x E <-> E = rodrigues x).
Proof.
  intros Hx. split.
  - intros (Yf & H0 & Hd & H1). subst E. rewrite <- rod_t_1. unfold rod_t.
    pose proof (vnorm_sq x) as Hs. set (th := vnorm x) in *. clearbody th.
    destruct x as [[a b] c].
    assert (Hn : a * a + b * b + c * c = th * th) by (revert Hs; lie_unfold; intros; lra).
    set (g := fun i j t => m3get (Yf t) i j).
    assert (HY : forall t, Yf t = Ym (g 0 0)%nat (g 0 1)%nat (g 0 2)%nat (g 1 0)%nat (g 1 1)%nat (g 1 2)%nat (g 2 0)%nat (g 2 1)%nat (g 2 2)%nat t).
    { intros t. unfold Ym, g, m3get. destruct (Yf t) as [[[[p0 p1] p2] [[q0 q1] q2]] [[r0 r1] r2]]. reflexivity. }
    rewrite HY.
    apply (ode_solution_unique a b c th Hx Hn); try (rewrite <- HY; exact H0);
      intros t; unfold KY; rewrite <- HY; apply Hd; lia.
  - intros ->. exists (rod_t x). split; [now apply rod_t_0|]. split; [intros; now apply rod_t_ode | apply rod_t_1].
Qed.
