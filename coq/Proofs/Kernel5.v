(* C09, fifth file: batch dimensions (the correctors commute with flattening a leading batch
   dimension, so the identities hold for residual tensors of any batch shape (..., d)), several
   residual groups with their own kernels (additivity), and strict positivity of the built-in rho'. *)
From Coq Require Import Reals Lra Psatz List Lia Bool.
From Coquelicot Require Import Coquelicot.
Import ListNotations.
From PV Require Import Base.Num Base.RTac Model.Kernel Proofs.Kernel Proofs.Kernel2.
Local Open Scope R_scope.
#[local] Remove Hints NumQ NumZ : typeclass_instances.

(* ====================================================================== batch dimensions *)
Definition option_map2 {A B C} (f : A -> B -> C) (a : option A) (b : option B) : option C :=
  match a, b with Some x, Some y => Some (f x y) | _, _ => None end.

Lemma mapM_app {A B} (f : A -> option B) : forall l1 l2 : list A,
  mapM f (l1 ++ l2) = option_map2 (@app B) (mapM f l1) (mapM f l2).
Proof.
  induction l1 as [|a l1 IH]; intros l2; cbn.
  - destruct (mapM f l2); reflexivity.
  - rewrite IH. destruct (f a); [|reflexivity].
    destruct (mapM f l1); [|reflexivity]. destruct (mapM f l2); reflexivity.
Qed.
(* flattening one batch dimension: the corrector of the flattened tensor is the flattening of the
   correctors of the sub-batches (and raises iff one of them does) *)
Lemma mapM_concat {A B} (f : A -> option B) : forall ls : list (list A),
  mapM f (concat ls) = option_map (@concat B) (mapM (mapM f) ls).
Proof.
  induction ls as [|l ls IH]; cbn; [reflexivity|].
  rewrite mapM_app, IH. destruct (mapM f l); [|reflexivity].
  destruct (mapM (mapM f) ls); reflexivity.
Qed.
Lemma fasttriggs_concat (rho1 : R -> R) (bss : list (list blockR)) :
  fasttriggs rho1 (concat bss) = option_map (@concat blockR) (mapM (fasttriggs rho1) bss).
Proof. unfold fasttriggs. apply mapM_concat. Qed.
Lemma triggs_concat (rho1 rho2 : R -> R) (bss : list (list blockR)) :
  triggs rho1 rho2 (concat bss) = option_map (@concat blockR) (mapM (triggs rho1 rho2) bss).
Proof. unfold triggs. apply mapM_concat. Qed.

Lemma bsum_app (f : blockR -> R) (l1 l2 : list blockR) : bsum f (l1 ++ l2) = bsum f l1 + bsum f l2.
Proof. unfold bsum. induction l1 as [|b l1 IH]; cbn; [ring|]. rewrite IH. ring. Qed.
Lemma bsum_concat (f : blockR -> R) (ls : list (list blockR)) :
  bsum f (concat ls) = fold_right (fun l acc => bsum f l + acc) 0 ls.
Proof. induction ls as [|l ls IH]; cbn [concat fold_right]; [reflexivity|]. now rewrite bsum_app, IH. Qed.
Lemma robust_grad_app (rho1 : R -> R) (l1 l2 : list blockR) (l : nat) :
  robust_grad rho1 (l1 ++ l2) l = robust_grad rho1 l1 l + robust_grad rho1 l2 l.
Proof. unfold robust_grad. induction l1 as [|b l1 IH]; cbn; [ring|]. rewrite IH. ring. Qed.
Lemma robust_grad_concat (rho1 : R -> R) (ls : list (list blockR)) (l : nat) :
  robust_grad rho1 (concat ls) l = fold_right (fun bs acc => robust_grad rho1 bs l + acc) 0 ls.
Proof.
  induction ls as [|bs ls IH]; cbn [concat fold_right]; [reflexivity|]. now rewrite robust_grad_app, IH.
Qed.

(* two-level batch (B1, B2, d), stated on the nested tensor: FastTriggs on every sub-batch, then the
   sum over everything, is the robust gradient summed over the sub-batches *)
Lemma fasttriggs_grad_nested (rho1 : R -> R) (bss bss' : list (list blockR)) :
  mapM (fasttriggs rho1) bss = Some bss' ->
  fasttriggs rho1 (concat bss) = Some (concat bss') /\
  forall l, bsum (fun b => JtR b l) (concat bss')
            = fold_right (fun bs acc => robust_grad rho1 bs l + acc) 0 bss.
Proof.
  intros H. assert (HF : fasttriggs rho1 (concat bss) = Some (concat bss')).
  { rewrite fasttriggs_concat, H. reflexivity. }
  split; [exact HF|]. intros l. rewrite (fasttriggs_grad rho1 _ _ HF). apply robust_grad_concat.
Qed.
Lemma triggs_grad_nested (rho1 rho2 : R -> R) (p : nat) (bss bss' : list (list blockR)) :
  mapM (triggs rho1 rho2) bss = Some bss' -> Forall (Forall (wf_block p)) bss ->
  triggs rho1 rho2 (concat bss) = Some (concat bss') /\
  forall l, (l < p)%nat ->
    bsum (fun b => JtR b l) (concat bss') = fold_right (fun bs acc => robust_grad rho1 bs l + acc) 0 bss.
Proof.
  intros H Hwf. assert (HT : triggs rho1 rho2 (concat bss) = Some (concat bss')).
  { rewrite triggs_concat, H. reflexivity. }
  split; [exact HT|]. intros l Hl.
  rewrite (triggs_grad rho1 rho2 p _ _ HT); [apply robust_grad_concat| |exact Hl].
  apply Forall_forall. intros b Hin. apply in_concat in Hin as [bs [Hbs Hb]].
  rewrite Forall_forall in Hwf. specialize (Hwf bs Hbs). rewrite Forall_forall in Hwf. auto.
Qed.

(* ====================================================================== several residual groups *)
(* RobustModel.loss sums kernel_j(|R_j|^2) over the residual groups; with one corrector per group the
   stacked system's J'^T R' is the sum of the groups' robust gradients (additivity only: which
   kernel / corrector goes with which residual is decided by the optimizer's constructor, C07) *)
Lemma fasttriggs_groups_grad (groups : list ((R -> R) * list blockR)) (outs : list (list blockR)) :
  mapM (fun g => fasttriggs (fst g) (snd g)) groups = Some outs ->
  forall l, bsum (fun b => JtR b l) (concat outs)
            = fold_right (fun g acc => robust_grad (fst g) (snd g) l + acc) 0 groups.
Proof.
  revert outs. induction groups as [|[rho1 bs] groups IH]; intros outs H l; cbn [mapM fst snd] in H.
  - inversion H. reflexivity.
  - destruct (fasttriggs rho1 bs) as [bs'|] eqn:Hb; [|discriminate].
    destruct (mapM _ groups) as [r|] eqn:Hr; [|discriminate]. inversion H; subst.
    cbn [concat fold_right fst snd]. rewrite bsum_app, (IH r eq_refl l), (fasttriggs_grad rho1 bs bs' Hb l).
    reflexivity.
Qed.

(* ====================================================================== rho' > 0 for the built-in kernels *)
Lemma kernel_d1_pos k p1 p2 x : kernel_params k p1 p2 -> 0 <= x -> 0 < kernel_d1 k p1 p2 x.
Proof.
  intros Hp Hx. destruct k; cbn in Hp.
  - destruct (Rlt_dec x (p1 * p1)).
    + rewrite huber_d1_below by auto. lra.
    + rewrite huber_d1_above by lra. assert (0 < x) by nra. assert (0 < sqrt x) by (now apply sqrt_lt_R0).
      now apply Rdiv_lt_0_compat.
  - cbn [kernel_d1]. rnum. assert (H1 : p1 <> 0) by lra. pose proof (div_sq_nonneg p1 x H1 Hx).
    assert (0 < sqrt (x / (p1 * p1) + 1)) by (apply sqrt_lt_R0; lra). apply Rdiv_lt_0_compat; lra.
  - cbn [kernel_d1]. rnum. assert (H1 : p1 <> 0) by lra. pose proof (div_sq_nonneg p1 x H1 Hx).
    apply Rdiv_lt_0_compat; lra.
  - cbn [kernel_d1]. rnum. assert (H1 : p1 <> 0) by lra. pose proof (sq_pos_of_ne p1 H1).
    assert (0 < 1 / (p1 * p1)) by (apply Rdiv_lt_0_compat; lra).
    assert (0 < sqrt (1 / (p1 * p1) + x)) by (apply sqrt_lt_R0; lra). apply Rdiv_lt_0_compat; lra.
  - cbn [kernel_d1]. rnum. cbv zeta. set (u := x / (p1 * p1)). assert (0 < 1 + u * u) by nra.
    apply Rdiv_lt_0_compat; lra.
  - cbn [kernel_d1]. rnum. cbv zeta. pose proof (exp_pos ((x - p1) / p2)). apply Rdiv_lt_0_compat; lra.
  - cbn [kernel_d1]. lra.
Qed.
(* so with a built-in kernel the corrected Jacobian is a strictly positive multiple of J on every
   block: no row of J is lost *)
Lemma fasttriggs_kernel_block (k : kname) p1 p2 Rv J : kernel_params k p1 p2 ->
  let s := sqrt (kernel_d1 k p1 p2 (dot Rv Rv)) in
  0 < s /\ fasttriggs_kernel k p1 p2 [(Rv, J)] = Some [(scale_vec s Rv, map (scale_vec s) J)]
        /\ triggs_kernel k p1 p2 [(Rv, J)] = Some [(scale_vec s Rv, map (scale_vec s) J)].
Proof.
  intros Hp s. pose proof (kernel_d1_pos k p1 p2 (dot Rv Rv) Hp (dot_self_nonneg Rv)) as Hpos.
  split; [now apply sqrt_lt_R0|].
  assert (HF : fasttriggs_kernel k p1 p2 [(Rv, J)] = Some [(scale_vec s Rv, map (scale_vec s) J)]).
  { unfold fasttriggs_kernel, fasttriggs. cbn [mapM fst snd]. unfold sqnorm. cbn [fst].
    rewrite fasttriggs_block_some by lra. reflexivity. }
  split; [exact HF|]. now rewrite triggs_kernel_eq_fasttriggs.
Qed.

(* ====================================================================== a small positive rho'' *)
(* - x rho''/rho' <= alpha <= 0: when autograd's rho'' is positive rounding noise (Tolerant with large
   a/|b|), Triggs takes the masked branch with |alpha| <= x rho''/rho', i.e. it stays that close to
   FastTriggs, and the gradient identity holds exactly whatever rho'' is (triggs_grad) *)
Lemma triggs_alpha_bound g1 g2 x : 0 < g1 -> 0 < g2 -> 0 <= x ->
  - (x * g2 / g1) <= triggs_alpha g1 g2 x <= 0.
Proof.
  intros H1 H2 Hx. pose proof (triggs_beta_ge1 g1 g2 x H1 H2 Hx) as Hb.
  pose proof (triggs_beta_sq g1 g2 x H1 H2 Hx) as Hs. unfold triggs_alpha.
  assert (Hu : 0 <= x * g2 / g1).
  { apply Rmult_le_pos; [nra|]. left. now apply Rinv_0_lt_compat. }
  replace (2 * x * g2 / g1) with (2 * (x * g2 / g1)) in Hs by (field; lra).
  set (beta := triggs_beta g1 g2 x) in *. set (u := x * g2 / g1) in *. clearbody beta u.
  split; [|lra]. nra.
Qed.
