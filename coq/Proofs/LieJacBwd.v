(* C04: every modelled backward of Model/LieJac.v (mul_bwd, inv_bwd, act_bwd, act4_bwd, adj_bwd, adjT_bwd; all four groups) is the
   TRANSPOSE of the map L of the derivative statements of Proofs/LieJac.v, LieJac2.v, LieJac3.v:
       <backward(cotangent), d> = <cotangent, L d>      for all lists of the right lengths
   (ldot = dot product of lists; the zero slot of group-typed gradients is cut off by firstn).  These are polynomial
   identities (no unit-norm hypothesis); generated file, one lemma per op / argument / group. *)
From Coq Require Import Reals Lra List Lia.
Import ListNotations.
From PV Require Import Base.Num Base.RTac Model.LieGroup Model.LieExp Model.LieJac Proofs.LieGroup Proofs.LieExp Proofs.LieJac
  Proofs.LieJac2 Proofs.LieJac3 Proofs.LieJacPair2.
Local Open Scope R_scope.
#[local] Remove Hints NumQ NumZ : typeclass_instances.
Ltac bwd_unfold :=
  cbv [adjT_bwd adjT_bwd_old adj_bwd mul_bwd inv_bwd act_bwd act4_bwd act4_jac matrix4x4 lmscale t_of g_translation zslot lneg lvm ladd lsub lscale lzip lmv ldot map AdjM adjM
       SO3_AdjM SE3_AdjM RxSO3_AdjM Sim3_AdjM so3_adjM se3_adjM rxso3_adjM sim3_adjM act_jac hcat m3rows lzm lzeros lid colv
       g_inv SE3_l q_l l_SE3 l_q l_RxSO3 RxSO3_l l_Sim3 Sim3_l se3_ad rxso3_ad sim3_ad v6neg v4neg v7neg
       seq Nat.eqb app firstn skipn nth l_v3 v3_l l_pair3 l_v4a l_v7 adim sR_of v6_l v4_l v7_l].

(* ---------- SO3 *)
Lemma mul_bwd_SO3_X (X gz d : list R) : length X = 4%nat -> length gz = 4%nat -> length d = 3%nat ->
  ldot (firstn 3 (fst (mul_bwd 0 X gz))) d = ldot (firstn 3 gz) d.
Proof.
  intros HX Hgz Hd.
  destruct X as [|x1 [|x2 [|x3 [|x4 [|? ?]]]]]; try discriminate.
  destruct gz as [|g1 [|g2 [|g3 [|g4 [|? ?]]]]]; try discriminate.
  destruct d as [|d1 [|d2 [|d3 [|? ?]]]]; try discriminate.
  bwd_unfold. lie_unfold. ring.
Qed.
Lemma mul_bwd_SO3_Y (X gz d : list R) : length X = 4%nat -> length gz = 4%nat -> length d = 3%nat ->
  ldot (firstn 3 (snd (mul_bwd 0 X gz))) d = ldot (firstn 3 gz) (v3_l (SO3_AdjXa (l_q X) (l_v3 d))).
Proof.
  intros HX Hgz Hd.
  destruct X as [|x1 [|x2 [|x3 [|x4 [|? ?]]]]]; try discriminate.
  destruct gz as [|g1 [|g2 [|g3 [|g4 [|? ?]]]]]; try discriminate.
  destruct d as [|d1 [|d2 [|d3 [|? ?]]]]; try discriminate.
  bwd_unfold. lie_unfold. ring.
Qed.
Lemma inv_bwd_SO3 (X gz d : list R) : length X = 4%nat -> length gz = 4%nat -> length d = 3%nat ->
  ldot (firstn 3 (inv_bwd 0 X gz)) d = ldot (firstn 3 gz) (v3_l (vneg (SO3_AdjXa (l_q X) (l_v3 d)))).
Proof.
  intros HX Hgz Hd.
  destruct X as [|x1 [|x2 [|x3 [|x4 [|? ?]]]]]; try discriminate.
  destruct gz as [|g1 [|g2 [|g3 [|g4 [|? ?]]]]]; try discriminate.
  destruct d as [|d1 [|d2 [|d3 [|? ?]]]]; try discriminate.
  bwd_unfold. lie_unfold. ring.
Qed.
Lemma act_bwd_SO3_X (X o gp d : list R) : length X = 4%nat -> length o = 3%nat -> length gp = 3%nat -> length d = 3%nat ->
  ldot (firstn 3 (fst (act_bwd 0 X o gp))) d = ldot gp (v3_l (mvmul (skew (vneg (l_v3 o))) (l_v3 d))).
Proof.
  intros HX Ho Hgp Hd.
  destruct X as [|x1 [|x2 [|x3 [|x4 [|? ?]]]]]; try discriminate.
  destruct o as [|o1 [|o2 [|o3 [|? ?]]]]; try discriminate.
  destruct gp as [|g1 [|g2 [|g3 [|? ?]]]]; try discriminate.
  destruct d as [|d1 [|d2 [|d3 [|? ?]]]]; try discriminate.
  bwd_unfold. lie_unfold. ring.
Qed.
Lemma act_bwd_SO3_p (X o gp d : list R) : length X = 4%nat -> length o = 3%nat -> length gp = 3%nat -> length d = 3%nat ->
  ldot (snd (act_bwd 0 X o gp)) d = ldot gp (v3_l (mvmul (SO3_Adj (l_q X)) (l_v3 d))).
Proof.
  intros HX Ho Hgp Hd.
  destruct X as [|x1 [|x2 [|x3 [|x4 [|? ?]]]]]; try discriminate.
  destruct o as [|o1 [|o2 [|o3 [|? ?]]]]; try discriminate.
  destruct gp as [|g1 [|g2 [|g3 [|? ?]]]]; try discriminate.
  destruct d as [|d1 [|d2 [|d3 [|? ?]]]]; try discriminate.
  bwd_unfold. lie_unfold. ring.
Qed.
Lemma act4_bwd_SO3_X (X o gp d : list R) : length X = 4%nat -> length o = 4%nat -> length gp = 4%nat -> length d = 3%nat ->
  ldot (firstn 3 (fst (act4_bwd 0 X o gp))) d = ldot gp (v3_l (mvmul (skew (vneg (l_v3 o))) (l_v3 d)) ++ [0]).
Proof.
  intros HX Ho Hgp Hd.
  destruct X as [|x1 [|x2 [|x3 [|x4 [|? ?]]]]]; try discriminate.
  destruct o as [|o1 [|o2 [|o3 [|o4 [|? ?]]]]]; try discriminate.
  destruct gp as [|g1 [|g2 [|g3 [|g4 [|? ?]]]]]; try discriminate.
  destruct d as [|d1 [|d2 [|d3 [|? ?]]]]; try discriminate.
  bwd_unfold. lie_unfold. ring.
Qed.
Lemma act4_bwd_SO3_p (X o gp d : list R) : length X = 4%nat -> length o = 4%nat -> length gp = 4%nat -> length d = 4%nat ->
  ldot (snd (act4_bwd 0 X o gp)) d = ldot gp (v3_l (vadd (mvmul (SO3_Adj (l_q X)) (l_v3 d)) (vscale (nth 3 d 0) (vzero))) ++ [nth 3 d 0]).
Proof.
  intros HX Ho Hgp Hd.
  destruct X as [|x1 [|x2 [|x3 [|x4 [|? ?]]]]]; try discriminate.
  destruct o as [|o1 [|o2 [|o3 [|o4 [|? ?]]]]]; try discriminate.
  destruct gp as [|g1 [|g2 [|g3 [|g4 [|? ?]]]]]; try discriminate.
  destruct d as [|d1 [|d2 [|d3 [|d4 [|? ?]]]]]; try discriminate.
  bwd_unfold. lie_unfold. ring.
Qed.
Lemma adj_bwd_SO3_X (X o gz d : list R) : length X = 4%nat -> length o = 3%nat -> length gz = 3%nat -> length d = 3%nat ->
  ldot (firstn 3 (fst (adj_bwd 0 X o gz))) d = ldot gz (v3_l (vneg (vcross (l_v3 o) (l_v3 d)))).
Proof.
  intros HX Ho Hgz Hd.
  destruct X as [|x1 [|x2 [|x3 [|x4 [|? ?]]]]]; try discriminate.
  destruct o as [|o1 [|o2 [|o3 [|? ?]]]]; try discriminate.
  destruct gz as [|g1 [|g2 [|g3 [|? ?]]]]; try discriminate.
  destruct d as [|d1 [|d2 [|d3 [|? ?]]]]; try discriminate.
  bwd_unfold. lie_unfold. ring.
Qed.
Lemma adj_bwd_SO3_a (X o gz d : list R) : length X = 4%nat -> length o = 3%nat -> length gz = 3%nat -> length d = 3%nat ->
  ldot (snd (adj_bwd 0 X o gz)) d = ldot gz (v3_l (SO3_AdjXa (l_q X) (l_v3 d))).
Proof.
  intros HX Ho Hgz Hd.
  destruct X as [|x1 [|x2 [|x3 [|x4 [|? ?]]]]]; try discriminate.
  destruct o as [|o1 [|o2 [|o3 [|? ?]]]]; try discriminate.
  destruct gz as [|g1 [|g2 [|g3 [|? ?]]]]; try discriminate.
  destruct d as [|d1 [|d2 [|d3 [|? ?]]]]; try discriminate.
  bwd_unfold. lie_unfold. ring.
Qed.
Lemma adjT_bwd_SO3_X (X a gz d : list R) : length X = 4%nat -> length a = 3%nat -> length gz = 3%nat -> length d = 3%nat ->
  ldot (firstn 3 (fst (adjT_bwd 0 X a gz))) d = ldot gz (v3_l (SO3_AdjTXa (l_q X) (vcross (l_v3 a) (l_v3 d)))).
Proof.
  intros HX Ha Hgz Hd.
  destruct X as [|x1 [|x2 [|x3 [|x4 [|? ?]]]]]; try discriminate.
  destruct a as [|a1 [|a2 [|a3 [|? ?]]]]; try discriminate.
  destruct gz as [|g1 [|g2 [|g3 [|? ?]]]]; try discriminate.
  destruct d as [|d1 [|d2 [|d3 [|? ?]]]]; try discriminate.
  bwd_unfold. lie_unfold. ring.
Qed.
Lemma adjT_bwd_SO3_a (X a gz d : list R) : length X = 4%nat -> length a = 3%nat -> length gz = 3%nat -> length d = 3%nat ->
  ldot (snd (adjT_bwd 0 X a gz)) d = ldot gz (v3_l (SO3_AdjTXa (l_q X) (l_v3 d))).
Proof.
  intros HX Ha Hgz Hd.
  destruct X as [|x1 [|x2 [|x3 [|x4 [|? ?]]]]]; try discriminate.
  destruct a as [|a1 [|a2 [|a3 [|? ?]]]]; try discriminate.
  destruct gz as [|g1 [|g2 [|g3 [|? ?]]]]; try discriminate.
  destruct d as [|d1 [|d2 [|d3 [|? ?]]]]; try discriminate.
  bwd_unfold. lie_unfold. ring.
Qed.

(* ---------- SE3 *)
Lemma mul_bwd_SE3_X (X gz d : list R) : length X = 7%nat -> length gz = 7%nat -> length d = 6%nat ->
  ldot (firstn 6 (fst (mul_bwd 1 X gz))) d = ldot (firstn 6 gz) d.
Proof.
  intros HX Hgz Hd.
  destruct X as [|x1 [|x2 [|x3 [|x4 [|x5 [|x6 [|x7 [|? ?]]]]]]]]; try discriminate.
  destruct gz as [|g1 [|g2 [|g3 [|g4 [|g5 [|g6 [|g7 [|? ?]]]]]]]]; try discriminate.
  destruct d as [|d1 [|d2 [|d3 [|d4 [|d5 [|d6 [|? ?]]]]]]]; try discriminate.
  bwd_unfold. lie_unfold. ring.
Qed.
Lemma mul_bwd_SE3_Y (X gz d : list R) : length X = 7%nat -> length gz = 7%nat -> length d = 6%nat ->
  ldot (firstn 6 (snd (mul_bwd 1 X gz))) d = ldot (firstn 6 gz) (v6_l (SE3_AdjXa (l_SE3 X) (l_pair3 d))).
Proof.
  intros HX Hgz Hd.
  destruct X as [|x1 [|x2 [|x3 [|x4 [|x5 [|x6 [|x7 [|? ?]]]]]]]]; try discriminate.
  destruct gz as [|g1 [|g2 [|g3 [|g4 [|g5 [|g6 [|g7 [|? ?]]]]]]]]; try discriminate.
  destruct d as [|d1 [|d2 [|d3 [|d4 [|d5 [|d6 [|? ?]]]]]]]; try discriminate.
  bwd_unfold. lie_unfold. ring.
Qed.
Lemma inv_bwd_SE3 (X gz d : list R) : length X = 7%nat -> length gz = 7%nat -> length d = 6%nat ->
  ldot (firstn 6 (inv_bwd 1 X gz)) d = ldot (firstn 6 gz) (v6_l (v6neg (SE3_AdjXa (l_SE3 X) (l_pair3 d)))).
Proof.
  intros HX Hgz Hd.
  destruct X as [|x1 [|x2 [|x3 [|x4 [|x5 [|x6 [|x7 [|? ?]]]]]]]]; try discriminate.
  destruct gz as [|g1 [|g2 [|g3 [|g4 [|g5 [|g6 [|g7 [|? ?]]]]]]]]; try discriminate.
  destruct d as [|d1 [|d2 [|d3 [|d4 [|d5 [|d6 [|? ?]]]]]]]; try discriminate.
  bwd_unfold. lie_unfold. ring.
Qed.
Lemma act_bwd_SE3_X (X o gp d : list R) : length X = 7%nat -> length o = 3%nat -> length gp = 3%nat -> length d = 6%nat ->
  ldot (firstn 6 (fst (act_bwd 1 X o gp))) d = ldot gp (v3_l (vadd (fst (l_pair3 d)) (mvmul (skew (vneg (l_v3 o))) (snd (l_pair3 d))))).
Proof.
  intros HX Ho Hgp Hd.
  destruct X as [|x1 [|x2 [|x3 [|x4 [|x5 [|x6 [|x7 [|? ?]]]]]]]]; try discriminate.
  destruct o as [|o1 [|o2 [|o3 [|? ?]]]]; try discriminate.
  destruct gp as [|g1 [|g2 [|g3 [|? ?]]]]; try discriminate.
  destruct d as [|d1 [|d2 [|d3 [|d4 [|d5 [|d6 [|? ?]]]]]]]; try discriminate.
  bwd_unfold. lie_unfold. ring.
Qed.
Lemma act_bwd_SE3_p (X o gp d : list R) : length X = 7%nat -> length o = 3%nat -> length gp = 3%nat -> length d = 3%nat ->
  ldot (snd (act_bwd 1 X o gp)) d = ldot gp (v3_l (mvmul (SO3_Adj (snd (l_SE3 X))) (l_v3 d))).
Proof.
  intros HX Ho Hgp Hd.
  destruct X as [|x1 [|x2 [|x3 [|x4 [|x5 [|x6 [|x7 [|? ?]]]]]]]]; try discriminate.
  destruct o as [|o1 [|o2 [|o3 [|? ?]]]]; try discriminate.
  destruct gp as [|g1 [|g2 [|g3 [|? ?]]]]; try discriminate.
  destruct d as [|d1 [|d2 [|d3 [|? ?]]]]; try discriminate.
  bwd_unfold. lie_unfold. ring.
Qed.
Lemma act4_bwd_SE3_X (X o gp d : list R) : length X = 7%nat -> length o = 4%nat -> length gp = 4%nat -> length d = 6%nat ->
  ldot (firstn 6 (fst (act4_bwd 1 X o gp))) d = ldot gp (v3_l (vadd (vscale (nth 3 o 0) (fst (l_pair3 d))) (mvmul (skew (vneg (l_v3 o))) (snd (l_pair3 d)))) ++ [0]).
Proof.
  intros HX Ho Hgp Hd.
  destruct X as [|x1 [|x2 [|x3 [|x4 [|x5 [|x6 [|x7 [|? ?]]]]]]]]; try discriminate.
  destruct o as [|o1 [|o2 [|o3 [|o4 [|? ?]]]]]; try discriminate.
  destruct gp as [|g1 [|g2 [|g3 [|g4 [|? ?]]]]]; try discriminate.
  destruct d as [|d1 [|d2 [|d3 [|d4 [|d5 [|d6 [|? ?]]]]]]]; try discriminate.
  bwd_unfold. lie_unfold. ring.
Qed.
Lemma act4_bwd_SE3_p (X o gp d : list R) : length X = 7%nat -> length o = 4%nat -> length gp = 4%nat -> length d = 4%nat ->
  ldot (snd (act4_bwd 1 X o gp)) d = ldot gp (v3_l (vadd (mvmul (SO3_Adj (snd (l_SE3 X))) (l_v3 d)) (vscale (nth 3 d 0) (fst (l_SE3 X)))) ++ [nth 3 d 0]).
Proof.
  intros HX Ho Hgp Hd.
  destruct X as [|x1 [|x2 [|x3 [|x4 [|x5 [|x6 [|x7 [|? ?]]]]]]]]; try discriminate.
  destruct o as [|o1 [|o2 [|o3 [|o4 [|? ?]]]]]; try discriminate.
  destruct gp as [|g1 [|g2 [|g3 [|g4 [|? ?]]]]]; try discriminate.
  destruct d as [|d1 [|d2 [|d3 [|d4 [|? ?]]]]]; try discriminate.
  bwd_unfold. lie_unfold. ring.
Qed.
Lemma adj_bwd_SE3_X (X o gz d : list R) : length X = 7%nat -> length o = 6%nat -> length gz = 6%nat -> length d = 6%nat ->
  ldot (firstn 6 (fst (adj_bwd 1 X o gz))) d = ldot gz (v6_l (v6neg (se3_ad (l_pair3 o) (l_pair3 d)))).
Proof.
  intros HX Ho Hgz Hd.
  destruct X as [|x1 [|x2 [|x3 [|x4 [|x5 [|x6 [|x7 [|? ?]]]]]]]]; try discriminate.
  destruct o as [|o1 [|o2 [|o3 [|o4 [|o5 [|o6 [|? ?]]]]]]]; try discriminate.
  destruct gz as [|g1 [|g2 [|g3 [|g4 [|g5 [|g6 [|? ?]]]]]]]; try discriminate.
  destruct d as [|d1 [|d2 [|d3 [|d4 [|d5 [|d6 [|? ?]]]]]]]; try discriminate.
  bwd_unfold. lie_unfold. ring.
Qed.
Lemma adj_bwd_SE3_a (X o gz d : list R) : length X = 7%nat -> length o = 6%nat -> length gz = 6%nat -> length d = 6%nat ->
  ldot (snd (adj_bwd 1 X o gz)) d = ldot gz (v6_l (SE3_AdjXa (l_SE3 X) (l_pair3 d))).
Proof.
  intros HX Ho Hgz Hd.
  destruct X as [|x1 [|x2 [|x3 [|x4 [|x5 [|x6 [|x7 [|? ?]]]]]]]]; try discriminate.
  destruct o as [|o1 [|o2 [|o3 [|o4 [|o5 [|o6 [|? ?]]]]]]]; try discriminate.
  destruct gz as [|g1 [|g2 [|g3 [|g4 [|g5 [|g6 [|? ?]]]]]]]; try discriminate.
  destruct d as [|d1 [|d2 [|d3 [|d4 [|d5 [|d6 [|? ?]]]]]]]; try discriminate.
  bwd_unfold. lie_unfold. ring.
Qed.
Lemma adjT_bwd_SE3_X (X a gz d : list R) : length X = 7%nat -> length a = 6%nat -> length gz = 6%nat -> length d = 6%nat ->
  ldot (firstn 6 (fst (adjT_bwd 1 X a gz))) d = ldot gz (v6_l (SE3_AdjTXa (l_SE3 X) (se3_ad (l_pair3 a) (l_pair3 d)))).
Proof.
  intros HX Ha Hgz Hd.
  destruct X as [|x1 [|x2 [|x3 [|x4 [|x5 [|x6 [|x7 [|? ?]]]]]]]]; try discriminate.
  destruct a as [|a1 [|a2 [|a3 [|a4 [|a5 [|a6 [|? ?]]]]]]]; try discriminate.
  destruct gz as [|g1 [|g2 [|g3 [|g4 [|g5 [|g6 [|? ?]]]]]]]; try discriminate.
  destruct d as [|d1 [|d2 [|d3 [|d4 [|d5 [|d6 [|? ?]]]]]]]; try discriminate.
  bwd_unfold. lie_unfold. ring.
Qed.
Lemma adjT_bwd_SE3_a (X a gz d : list R) : length X = 7%nat -> length a = 6%nat -> length gz = 6%nat -> length d = 6%nat ->
  ldot (snd (adjT_bwd 1 X a gz)) d = ldot gz (v6_l (SE3_AdjTXa (l_SE3 X) (l_pair3 d))).
Proof.
  intros HX Ha Hgz Hd.
  destruct X as [|x1 [|x2 [|x3 [|x4 [|x5 [|x6 [|x7 [|? ?]]]]]]]]; try discriminate.
  destruct a as [|a1 [|a2 [|a3 [|a4 [|a5 [|a6 [|? ?]]]]]]]; try discriminate.
  destruct gz as [|g1 [|g2 [|g3 [|g4 [|g5 [|g6 [|? ?]]]]]]]; try discriminate.
  destruct d as [|d1 [|d2 [|d3 [|d4 [|d5 [|d6 [|? ?]]]]]]]; try discriminate.
  bwd_unfold. lie_unfold. ring.
Qed.

(* ---------- RxSO3 *)
Lemma mul_bwd_RxSO3_X (X gz d : list R) : length X = 5%nat -> length gz = 5%nat -> length d = 4%nat ->
  ldot (firstn 4 (fst (mul_bwd 2 X gz))) d = ldot (firstn 4 gz) d.
Proof.
  intros HX Hgz Hd.
  destruct X as [|x1 [|x2 [|x3 [|x4 [|x5 [|? ?]]]]]]; try discriminate.
  destruct gz as [|g1 [|g2 [|g3 [|g4 [|g5 [|? ?]]]]]]; try discriminate.
  destruct d as [|d1 [|d2 [|d3 [|d4 [|? ?]]]]]; try discriminate.
  bwd_unfold. lie_unfold. ring.
Qed.
Lemma mul_bwd_RxSO3_Y (X gz d : list R) : length X = 5%nat -> length gz = 5%nat -> length d = 4%nat ->
  ldot (firstn 4 (snd (mul_bwd 2 X gz))) d = ldot (firstn 4 gz) (v4_l (RxSO3_AdjXa (l_RxSO3 X) (l_v4a d))).
Proof.
  intros HX Hgz Hd.
  destruct X as [|x1 [|x2 [|x3 [|x4 [|x5 [|? ?]]]]]]; try discriminate.
  destruct gz as [|g1 [|g2 [|g3 [|g4 [|g5 [|? ?]]]]]]; try discriminate.
  destruct d as [|d1 [|d2 [|d3 [|d4 [|? ?]]]]]; try discriminate.
  bwd_unfold. lie_unfold. ring.
Qed.
Lemma inv_bwd_RxSO3 (X gz d : list R) : length X = 5%nat -> length gz = 5%nat -> length d = 4%nat ->
  ldot (firstn 4 (inv_bwd 2 X gz)) d = ldot (firstn 4 gz) (v4_l (v4neg (RxSO3_AdjXa (l_RxSO3 X) (l_v4a d)))).
Proof.
  intros HX Hgz Hd.
  destruct X as [|x1 [|x2 [|x3 [|x4 [|x5 [|? ?]]]]]]; try discriminate.
  destruct gz as [|g1 [|g2 [|g3 [|g4 [|g5 [|? ?]]]]]]; try discriminate.
  destruct d as [|d1 [|d2 [|d3 [|d4 [|? ?]]]]]; try discriminate.
  bwd_unfold. lie_unfold. ring.
Qed.
Lemma act_bwd_RxSO3_X (X o gp d : list R) : length X = 5%nat -> length o = 3%nat -> length gp = 3%nat -> length d = 4%nat ->
  ldot (firstn 4 (fst (act_bwd 2 X o gp))) d = ldot gp (v3_l (vadd (mvmul (skew (vneg (l_v3 o))) (fst (l_v4a d))) (vscale (snd (l_v4a d)) (l_v3 o)))).
Proof.
  intros HX Ho Hgp Hd.
  destruct X as [|x1 [|x2 [|x3 [|x4 [|x5 [|? ?]]]]]]; try discriminate.
  destruct o as [|o1 [|o2 [|o3 [|? ?]]]]; try discriminate.
  destruct gp as [|g1 [|g2 [|g3 [|? ?]]]]; try discriminate.
  destruct d as [|d1 [|d2 [|d3 [|d4 [|? ?]]]]]; try discriminate.
  bwd_unfold. lie_unfold. ring.
Qed.
Lemma act_bwd_RxSO3_p (X o gp d : list R) : length X = 5%nat -> length o = 3%nat -> length gp = 3%nat -> length d = 3%nat ->
  ldot (snd (act_bwd 2 X o gp)) d = ldot gp (v3_l (mvmul (mscale3 (snd (l_RxSO3 X)) (SO3_Adj (fst (l_RxSO3 X)))) (l_v3 d))).
Proof.
  intros HX Ho Hgp Hd.
  destruct X as [|x1 [|x2 [|x3 [|x4 [|x5 [|? ?]]]]]]; try discriminate.
  destruct o as [|o1 [|o2 [|o3 [|? ?]]]]; try discriminate.
  destruct gp as [|g1 [|g2 [|g3 [|? ?]]]]; try discriminate.
  destruct d as [|d1 [|d2 [|d3 [|? ?]]]]; try discriminate.
  bwd_unfold. lie_unfold. ring.
Qed.
Lemma act4_bwd_RxSO3_X (X o gp d : list R) : length X = 5%nat -> length o = 4%nat -> length gp = 4%nat -> length d = 4%nat ->
  ldot (firstn 4 (fst (act4_bwd 2 X o gp))) d = ldot gp (v3_l (vadd (mvmul (skew (vneg (l_v3 o))) (fst (l_v4a d))) (vscale (snd (l_v4a d)) (l_v3 o))) ++ [0]).
Proof.
  intros HX Ho Hgp Hd.
  destruct X as [|x1 [|x2 [|x3 [|x4 [|x5 [|? ?]]]]]]; try discriminate.
  destruct o as [|o1 [|o2 [|o3 [|o4 [|? ?]]]]]; try discriminate.
  destruct gp as [|g1 [|g2 [|g3 [|g4 [|? ?]]]]]; try discriminate.
  destruct d as [|d1 [|d2 [|d3 [|d4 [|? ?]]]]]; try discriminate.
  bwd_unfold. lie_unfold. ring.
Qed.
Lemma act4_bwd_RxSO3_p (X o gp d : list R) : length X = 5%nat -> length o = 4%nat -> length gp = 4%nat -> length d = 4%nat ->
  ldot (snd (act4_bwd 2 X o gp)) d = ldot gp (v3_l (vadd (mvmul (mscale3 (snd (l_RxSO3 X)) (SO3_Adj (fst (l_RxSO3 X)))) (l_v3 d)) (vscale (nth 3 d 0) (vzero))) ++ [nth 3 d 0]).
Proof.
  intros HX Ho Hgp Hd.
  destruct X as [|x1 [|x2 [|x3 [|x4 [|x5 [|? ?]]]]]]; try discriminate.
  destruct o as [|o1 [|o2 [|o3 [|o4 [|? ?]]]]]; try discriminate.
  destruct gp as [|g1 [|g2 [|g3 [|g4 [|? ?]]]]]; try discriminate.
  destruct d as [|d1 [|d2 [|d3 [|d4 [|? ?]]]]]; try discriminate.
  bwd_unfold. lie_unfold. ring.
Qed.
Lemma adj_bwd_RxSO3_X (X o gz d : list R) : length X = 5%nat -> length o = 4%nat -> length gz = 4%nat -> length d = 4%nat ->
  ldot (firstn 4 (fst (adj_bwd 2 X o gz))) d = ldot gz (v4_l (v4neg (rxso3_ad (l_v4a o) (l_v4a d)))).
Proof.
  intros HX Ho Hgz Hd.
  destruct X as [|x1 [|x2 [|x3 [|x4 [|x5 [|? ?]]]]]]; try discriminate.
  destruct o as [|o1 [|o2 [|o3 [|o4 [|? ?]]]]]; try discriminate.
  destruct gz as [|g1 [|g2 [|g3 [|g4 [|? ?]]]]]; try discriminate.
  destruct d as [|d1 [|d2 [|d3 [|d4 [|? ?]]]]]; try discriminate.
  bwd_unfold. lie_unfold. ring.
Qed.
Lemma adj_bwd_RxSO3_a (X o gz d : list R) : length X = 5%nat -> length o = 4%nat -> length gz = 4%nat -> length d = 4%nat ->
  ldot (snd (adj_bwd 2 X o gz)) d = ldot gz (v4_l (RxSO3_AdjXa (l_RxSO3 X) (l_v4a d))).
Proof.
  intros HX Ho Hgz Hd.
  destruct X as [|x1 [|x2 [|x3 [|x4 [|x5 [|? ?]]]]]]; try discriminate.
  destruct o as [|o1 [|o2 [|o3 [|o4 [|? ?]]]]]; try discriminate.
  destruct gz as [|g1 [|g2 [|g3 [|g4 [|? ?]]]]]; try discriminate.
  destruct d as [|d1 [|d2 [|d3 [|d4 [|? ?]]]]]; try discriminate.
  bwd_unfold. lie_unfold. ring.
Qed.
Lemma adjT_bwd_RxSO3_X (X a gz d : list R) : length X = 5%nat -> length a = 4%nat -> length gz = 4%nat -> length d = 4%nat ->
  ldot (firstn 4 (fst (adjT_bwd 2 X a gz))) d = ldot gz (v4_l (RxSO3_AdjTXa (l_RxSO3 X) (rxso3_ad (l_v4a a) (l_v4a d)))).
Proof.
  intros HX Ha Hgz Hd.
  destruct X as [|x1 [|x2 [|x3 [|x4 [|x5 [|? ?]]]]]]; try discriminate.
  destruct a as [|a1 [|a2 [|a3 [|a4 [|? ?]]]]]; try discriminate.
  destruct gz as [|g1 [|g2 [|g3 [|g4 [|? ?]]]]]; try discriminate.
  destruct d as [|d1 [|d2 [|d3 [|d4 [|? ?]]]]]; try discriminate.
  bwd_unfold. lie_unfold. ring.
Qed.
Lemma adjT_bwd_RxSO3_a (X a gz d : list R) : length X = 5%nat -> length a = 4%nat -> length gz = 4%nat -> length d = 4%nat ->
  ldot (snd (adjT_bwd 2 X a gz)) d = ldot gz (v4_l (RxSO3_AdjTXa (l_RxSO3 X) (l_v4a d))).
Proof.
  intros HX Ha Hgz Hd.
  destruct X as [|x1 [|x2 [|x3 [|x4 [|x5 [|? ?]]]]]]; try discriminate.
  destruct a as [|a1 [|a2 [|a3 [|a4 [|? ?]]]]]; try discriminate.
  destruct gz as [|g1 [|g2 [|g3 [|g4 [|? ?]]]]]; try discriminate.
  destruct d as [|d1 [|d2 [|d3 [|d4 [|? ?]]]]]; try discriminate.
  bwd_unfold. lie_unfold. ring.
Qed.

(* ---------- Sim3 *)
Lemma mul_bwd_Sim3_X (X gz d : list R) : length X = 8%nat -> length gz = 8%nat -> length d = 7%nat ->
  ldot (firstn 7 (fst (mul_bwd 3 X gz))) d = ldot (firstn 7 gz) d.
Proof.
  intros HX Hgz Hd.
  destruct X as [|x1 [|x2 [|x3 [|x4 [|x5 [|x6 [|x7 [|x8 [|? ?]]]]]]]]]; try discriminate.
  destruct gz as [|g1 [|g2 [|g3 [|g4 [|g5 [|g6 [|g7 [|g8 [|? ?]]]]]]]]]; try discriminate.
  destruct d as [|d1 [|d2 [|d3 [|d4 [|d5 [|d6 [|d7 [|? ?]]]]]]]]; try discriminate.
  bwd_unfold. lie_unfold. ring.
Qed.
Lemma mul_bwd_Sim3_Y (X gz d : list R) : length X = 8%nat -> length gz = 8%nat -> length d = 7%nat ->
  ldot (firstn 7 (snd (mul_bwd 3 X gz))) d = ldot (firstn 7 gz) (v7_l (Sim3_AdjXa (l_Sim3 X) (l_v7 d))).
Proof.
  intros HX Hgz Hd.
  destruct X as [|x1 [|x2 [|x3 [|x4 [|x5 [|x6 [|x7 [|x8 [|? ?]]]]]]]]]; try discriminate.
  destruct gz as [|g1 [|g2 [|g3 [|g4 [|g5 [|g6 [|g7 [|g8 [|? ?]]]]]]]]]; try discriminate.
  destruct d as [|d1 [|d2 [|d3 [|d4 [|d5 [|d6 [|d7 [|? ?]]]]]]]]; try discriminate.
  bwd_unfold. lie_unfold. ring.
Qed.
Lemma inv_bwd_Sim3 (X gz d : list R) : length X = 8%nat -> length gz = 8%nat -> length d = 7%nat ->
  ldot (firstn 7 (inv_bwd 3 X gz)) d = ldot (firstn 7 gz) (v7_l (v7neg (Sim3_AdjXa (l_Sim3 X) (l_v7 d)))).
Proof.
  intros HX Hgz Hd.
  destruct X as [|x1 [|x2 [|x3 [|x4 [|x5 [|x6 [|x7 [|x8 [|? ?]]]]]]]]]; try discriminate.
  destruct gz as [|g1 [|g2 [|g3 [|g4 [|g5 [|g6 [|g7 [|g8 [|? ?]]]]]]]]]; try discriminate.
  destruct d as [|d1 [|d2 [|d3 [|d4 [|d5 [|d6 [|d7 [|? ?]]]]]]]]; try discriminate.
  bwd_unfold. lie_unfold. ring.
Qed.
Lemma act_bwd_Sim3_X (X o gp d : list R) : length X = 8%nat -> length o = 3%nat -> length gp = 3%nat -> length d = 7%nat ->
  ldot (firstn 7 (fst (act_bwd 3 X o gp))) d = ldot gp (v3_l (vadd (vadd (fst (fst (l_v7 d))) (mvmul (skew (vneg (l_v3 o))) (snd (fst (l_v7 d))))) (vscale (snd (l_v7 d)) (l_v3 o)))).
Proof.
  intros HX Ho Hgp Hd.
  destruct X as [|x1 [|x2 [|x3 [|x4 [|x5 [|x6 [|x7 [|x8 [|? ?]]]]]]]]]; try discriminate.
  destruct o as [|o1 [|o2 [|o3 [|? ?]]]]; try discriminate.
  destruct gp as [|g1 [|g2 [|g3 [|? ?]]]]; try discriminate.
  destruct d as [|d1 [|d2 [|d3 [|d4 [|d5 [|d6 [|d7 [|? ?]]]]]]]]; try discriminate.
  bwd_unfold. lie_unfold. ring.
Qed.
Lemma act_bwd_Sim3_p (X o gp d : list R) : length X = 8%nat -> length o = 3%nat -> length gp = 3%nat -> length d = 3%nat ->
  ldot (snd (act_bwd 3 X o gp)) d = ldot gp (v3_l (mvmul (mscale3 (snd (snd (l_Sim3 X))) (SO3_Adj (fst (snd (l_Sim3 X))))) (l_v3 d))).
Proof.
  intros HX Ho Hgp Hd.
  destruct X as [|x1 [|x2 [|x3 [|x4 [|x5 [|x6 [|x7 [|x8 [|? ?]]]]]]]]]; try discriminate.
  destruct o as [|o1 [|o2 [|o3 [|? ?]]]]; try discriminate.
  destruct gp as [|g1 [|g2 [|g3 [|? ?]]]]; try discriminate.
  destruct d as [|d1 [|d2 [|d3 [|? ?]]]]; try discriminate.
  bwd_unfold. lie_unfold. ring.
Qed.
Lemma act4_bwd_Sim3_X (X o gp d : list R) : length X = 8%nat -> length o = 4%nat -> length gp = 4%nat -> length d = 7%nat ->
  ldot (firstn 7 (fst (act4_bwd 3 X o gp))) d = ldot gp (v3_l (vadd (vadd (vscale (nth 3 o 0) (fst (fst (l_v7 d)))) (mvmul (skew (vneg (l_v3 o))) (snd (fst (l_v7 d))))) (vscale (snd (l_v7 d)) (l_v3 o))) ++ [0]).
Proof.
  intros HX Ho Hgp Hd.
  destruct X as [|x1 [|x2 [|x3 [|x4 [|x5 [|x6 [|x7 [|x8 [|? ?]]]]]]]]]; try discriminate.
  destruct o as [|o1 [|o2 [|o3 [|o4 [|? ?]]]]]; try discriminate.
  destruct gp as [|g1 [|g2 [|g3 [|g4 [|? ?]]]]]; try discriminate.
  destruct d as [|d1 [|d2 [|d3 [|d4 [|d5 [|d6 [|d7 [|? ?]]]]]]]]; try discriminate.
  bwd_unfold. lie_unfold. ring.
Qed.
Lemma act4_bwd_Sim3_p (X o gp d : list R) : length X = 8%nat -> length o = 4%nat -> length gp = 4%nat -> length d = 4%nat ->
  ldot (snd (act4_bwd 3 X o gp)) d = ldot gp (v3_l (vadd (mvmul (mscale3 (snd (snd (l_Sim3 X))) (SO3_Adj (fst (snd (l_Sim3 X))))) (l_v3 d)) (vscale (nth 3 d 0) (fst (l_Sim3 X)))) ++ [nth 3 d 0]).
Proof.
  intros HX Ho Hgp Hd.
  destruct X as [|x1 [|x2 [|x3 [|x4 [|x5 [|x6 [|x7 [|x8 [|? ?]]]]]]]]]; try discriminate.
  destruct o as [|o1 [|o2 [|o3 [|o4 [|? ?]]]]]; try discriminate.
  destruct gp as [|g1 [|g2 [|g3 [|g4 [|? ?]]]]]; try discriminate.
  destruct d as [|d1 [|d2 [|d3 [|d4 [|? ?]]]]]; try discriminate.
  bwd_unfold. lie_unfold. ring.
Qed.
Lemma adj_bwd_Sim3_X (X o gz d : list R) : length X = 8%nat -> length o = 7%nat -> length gz = 7%nat -> length d = 7%nat ->
  ldot (firstn 7 (fst (adj_bwd 3 X o gz))) d = ldot gz (v7_l (v7neg (sim3_ad (l_v7 o) (l_v7 d)))).
Proof.
  intros HX Ho Hgz Hd.
  destruct X as [|x1 [|x2 [|x3 [|x4 [|x5 [|x6 [|x7 [|x8 [|? ?]]]]]]]]]; try discriminate.
  destruct o as [|o1 [|o2 [|o3 [|o4 [|o5 [|o6 [|o7 [|? ?]]]]]]]]; try discriminate.
  destruct gz as [|g1 [|g2 [|g3 [|g4 [|g5 [|g6 [|g7 [|? ?]]]]]]]]; try discriminate.
  destruct d as [|d1 [|d2 [|d3 [|d4 [|d5 [|d6 [|d7 [|? ?]]]]]]]]; try discriminate.
  bwd_unfold. lie_unfold. ring.
Qed.
Lemma adj_bwd_Sim3_a (X o gz d : list R) : length X = 8%nat -> length o = 7%nat -> length gz = 7%nat -> length d = 7%nat ->
  ldot (snd (adj_bwd 3 X o gz)) d = ldot gz (v7_l (Sim3_AdjXa (l_Sim3 X) (l_v7 d))).
Proof.
  intros HX Ho Hgz Hd.
  destruct X as [|x1 [|x2 [|x3 [|x4 [|x5 [|x6 [|x7 [|x8 [|? ?]]]]]]]]]; try discriminate.
  destruct o as [|o1 [|o2 [|o3 [|o4 [|o5 [|o6 [|o7 [|? ?]]]]]]]]; try discriminate.
  destruct gz as [|g1 [|g2 [|g3 [|g4 [|g5 [|g6 [|g7 [|? ?]]]]]]]]; try discriminate.
  destruct d as [|d1 [|d2 [|d3 [|d4 [|d5 [|d6 [|d7 [|? ?]]]]]]]]; try discriminate.
  bwd_unfold. lie_unfold. ring.
Qed.
Lemma adjT_bwd_Sim3_X (X a gz d : list R) : length X = 8%nat -> length a = 7%nat -> length gz = 7%nat -> length d = 7%nat ->
  ldot (firstn 7 (fst (adjT_bwd 3 X a gz))) d = ldot gz (v7_l (Sim3_AdjTXa (l_Sim3 X) (sim3_ad (l_v7 a) (l_v7 d)))).
Proof.
  intros HX Ha Hgz Hd.
  destruct X as [|x1 [|x2 [|x3 [|x4 [|x5 [|x6 [|x7 [|x8 [|? ?]]]]]]]]]; try discriminate.
  destruct a as [|a1 [|a2 [|a3 [|a4 [|a5 [|a6 [|a7 [|? ?]]]]]]]]; try discriminate.
  destruct gz as [|g1 [|g2 [|g3 [|g4 [|g5 [|g6 [|g7 [|? ?]]]]]]]]; try discriminate.
  destruct d as [|d1 [|d2 [|d3 [|d4 [|d5 [|d6 [|d7 [|? ?]]]]]]]]; try discriminate.
  bwd_unfold. lie_unfold. ring.
Qed.
Lemma adjT_bwd_Sim3_a (X a gz d : list R) : length X = 8%nat -> length a = 7%nat -> length gz = 7%nat -> length d = 7%nat ->
  ldot (snd (adjT_bwd 3 X a gz)) d = ldot gz (v7_l (Sim3_AdjTXa (l_Sim3 X) (l_v7 d))).
Proof.
  intros HX Ha Hgz Hd.
  destruct X as [|x1 [|x2 [|x3 [|x4 [|x5 [|x6 [|x7 [|x8 [|? ?]]]]]]]]]; try discriminate.
  destruct a as [|a1 [|a2 [|a3 [|a4 [|a5 [|a6 [|a7 [|? ?]]]]]]]]; try discriminate.
  destruct gz as [|g1 [|g2 [|g3 [|g4 [|g5 [|g6 [|g7 [|? ?]]]]]]]]; try discriminate.
  destruct d as [|d1 [|d2 [|d3 [|d4 [|d5 [|d6 [|d7 [|? ?]]]]]]]]; try discriminate.
  bwd_unfold. lie_unfold. ring.
Qed.

