(* C13, eighth file: the Monte-Carlo RATE of the resampling stage of the particle filter.
   For N independent uniform draws r_1 .. r_N on [0,1] (expectation = N-fold iterated Riemann integral) and ANY
   function g of the selected particle index, the resampled mean  M = (1/N) sum_t g(index(r_t))  satisfies
        E[M] = mu = sum_i q_i g(i)            (unbiased)
        E[(M - mu)^2] = sigma^2 / N,   sigma^2 = sum_i q_i (g(i) - mu)^2     (Monte-Carlo rate)
   conditional on the propagated particles and their weights q.  With g(i) = component j of particle i this is
   the estimate returned by PF.forward.  What remains tie-only is the first stage (the N normal draws of
   generate_particles: convergence of sum_i q_i xs_i to the posterior mean of the documented particle model). *)
From Coq Require Import Reals Lra Lia List Arith ZArith Psatz FunctionalExtensionality.
From Coquelicot Require Import Coquelicot.
From PV Require Import Base.Num Base.Mat Model.Filter Proofs.Filter Proofs.Filter3 Proofs.Filter4.
Import ListNotations.
#[local] Remove Hints NumQ NumZ : typeclass_instances.
Local Open Scope R_scope.

(* ------------------------------------------------------------------ real-valued integrals, plain arithmetic *)
Lemma isR_plus (f g : R -> R) (a b If Ig : R) : is_RInt f a b If -> is_RInt g a b Ig ->
  is_RInt (fun y => f y + g y) a b (If + Ig).
Proof. exact (is_RInt_plus (V := R_NormedModule) f g a b If Ig). Qed.
Lemma isR_scal (f : R -> R) (a b k If : R) : is_RInt f a b If -> is_RInt (fun y => k * f y) a b (k * If).
Proof. exact (is_RInt_scal (V := R_NormedModule) f a b k If). Qed.
Lemma isR_const (c : R) : is_RInt (fun _ : R => c) 0 1 c.
Proof.
  assert (H := is_RInt_const (V := R_NormedModule) 0 1 c).
  match type of H with is_RInt _ _ _ ?v => replace v with c in H end; [exact H|].
  unfold scal; cbn. unfold mult; cbn. ring.
Qed.
Lemma isR_ext (f g : R -> R) (l : R) : (forall x, 0 < x < 1 -> f x = g x) -> is_RInt f 0 1 l -> is_RInt g 0 1 l.
Proof.
  intros H. apply (is_RInt_ext (V := R_NormedModule)). intros x Hx.
  rewrite Rmin_left, Rmax_right in Hx by lra. now apply H.
Qed.
Lemma isR_unique (f : R -> R) (l1 l2 : R) : is_RInt f 0 1 l1 -> is_RInt f 0 1 l2 -> l1 = l2.
Proof.
  intros H1 H2. rewrite <- (is_RInt_unique (V := R_CompleteNormedModule) f 0 1 l1 H1).
  now apply (is_RInt_unique (V := R_CompleteNormedModule)).
Qed.

(* ------------------------------------------------------------------ expectation over N independent uniforms *)
(* [isEN N F v]: the N-fold iterated Riemann integral of F over [0,1]^N exists and equals v *)
Fixpoint isEN (N : nat) (F : list R -> R) (v : R) : Prop :=
  match N with
  | O => F [] = v
  | S N' => exists phi : R -> R,
      (forall r, 0 < r < 1 -> isEN N' (fun l => F (r :: l)) (phi r)) /\ is_RInt phi 0 1 v
  end.

Lemma isEN_unique N : forall F v1 v2, isEN N F v1 -> isEN N F v2 -> v1 = v2.
Proof.
  induction N as [|N IH]; intros F v1 v2 H1 H2; cbn in *; [congruence|].
  destruct H1 as (p1 & A1 & I1). destruct H2 as (p2 & A2 & I2).
  apply (isR_unique p2); [|exact I2]. apply (isR_ext p1); [|exact I1].
  intros r Hr. apply (IH (fun l => F (r :: l))); [now apply A1 | now apply A2].
Qed.

(* only the values on (0,1)^N matter *)
Lemma isEN_ext N : forall F G v,
  (forall l, length l = N -> Forall (fun r => 0 < r < 1) l -> F l = G l) -> isEN N F v -> isEN N G v.
Proof.
  induction N as [|N IH]; intros F G v HE H; cbn in *.
  - rewrite <- HE by (reflexivity || constructor). exact H.
  - destruct H as (phi & A & I). exists phi. split; [|exact I].
    intros r Hr. apply (IH (fun l => F (r :: l))); [|now apply A].
    intros l Hl Hall. apply HE; [cbn; now rewrite Hl | now constructor].
Qed.

Lemma isEN_const N c : isEN N (fun _ => c) c.
Proof.
  induction N as [|N IH]; cbn; [reflexivity|].
  exists (fun _ => c). split; [intros; exact IH | apply isR_const].
Qed.

Lemma isEN_lin N : forall F G a b v w, isEN N F v -> isEN N G w ->
  isEN N (fun l => a * F l + b * G l) (a * v + b * w).
Proof.
  induction N as [|N IH]; intros F G a b v w HF HG; cbn in *; [now rewrite HF, HG|].
  destruct HF as (pf & AF & IF). destruct HG as (pg & AG & IG).
  exists (fun r => a * pf r + b * pg r). split.
  - intros r Hr. apply (IH (fun l => F (r :: l)) (fun l => G (r :: l))); [now apply AF | now apply AG].
  - apply isR_plus; now apply isR_scal.
Qed.

Lemma isEN_scal N F a v : isEN N F v -> isEN N (fun l => a * F l) (a * v).
Proof.
  intros H. assert (H2 := isEN_lin N F (fun _ => 0) a 0 v 0 H (isEN_const N 0)).
  replace (a * v + 0 * 0) with (a * v) in H2 by ring.
  apply (isEN_ext N (fun l => a * F l + 0 * 0)); [intros; ring | exact H2].
Qed.

(* ------------------------------------------------------------------ sums over the draws *)
Fixpoint SumG (h : R -> R) (l : list R) : R :=
  match l with [] => 0 | r :: l' => h r + SumG h l' end.

Lemma SumG_sumn h l : SumG h l = sumn (length l) (fun t => h (nth t l 0)).
Proof.
  induction l as [|r l IH]; [reflexivity|]. cbn [SumG length]. rewrite sumn_S_first. cbn [nth]. now rewrite IH.
Qed.

Lemma isEN_sum N h m1 : is_RInt h 0 1 m1 -> isEN N (SumG h) (INR N * m1).
Proof.
  intros Ih. induction N as [|N IH]; [cbn; lra|].
  cbn [isEN]. exists (fun r => h r + INR N * m1). split.
  - intros r _.
    replace (fun l => SumG h (r :: l)) with (fun l => 1 * (fun _ : list R => h r) l + 1 * SumG h l)
      by (apply functional_extensionality; intros l; cbn [SumG]; ring).
    replace (h r + INR N * m1) with (1 * h r + 1 * (INR N * m1)) by ring.
    apply isEN_lin; [apply isEN_const | exact IH].
  - rewrite S_INR. replace ((INR N + 1) * m1) with (m1 + INR N * m1) by ring.
    apply isR_plus; [exact Ih | apply isR_const].
Qed.

(* centred summands: E[(sum_t h(r_t))^2] = N E[h^2] *)
Lemma isEN_sq N h v : is_RInt h 0 1 0 -> is_RInt (fun r => h r * h r) 0 1 v ->
  isEN N (fun l => SumG h l * SumG h l) (INR N * v).
Proof.
  intros I1 I2. induction N as [|N IH]; [cbn; lra|].
  assert (E0 : isEN N (SumG h) 0).
  { replace 0 with (INR N * 0) by ring. now apply isEN_sum. }
  cbn [isEN]. exists (fun r => h r * h r + INR N * v). split.
  - intros r _.
    replace (fun l => SumG h (r :: l) * SumG h (r :: l))
      with (fun l => 1 * (1 * (fun _ : list R => h r * h r) l + (2 * h r) * SumG h l) + 1 * (SumG h l * SumG h l))
      by (apply functional_extensionality; intros l; cbn [SumG]; ring).
    replace (h r * h r + INR N * v) with (1 * (1 * (h r * h r) + (2 * h r) * 0) + 1 * (INR N * v)) by ring.
    apply isEN_lin; [|exact IH]. apply isEN_lin; [apply isEN_const | exact E0].
  - rewrite S_INR. replace ((INR N + 1) * v) with (v + INR N * v) by ring.
    apply isR_plus; [exact I2 | apply isR_const].
Qed.

(* ------------------------------------------------------------------ the resampled mean *)
Section Rate.
Variable q : list R.
Hypothesis Hq : forall b, In b q -> 0 <= b.
Hypothesis Hsum : fold_left add q 0 = 1.
Variable g : nat -> R.

Let mu := sumn (length q) (fun i => vget q i * g i).
Let var := sumn (length q) (fun i => vget q i * ((g i - mu) * (g i - mu))).
Let sel := fun r => g (searchsorted (cumsum q) r).

Lemma rate_total : sumn (length q) (vget q) = 1.
Proof. change (psum q (length q) = 1). rewrite psum_total. exact Hsum. Qed.

Lemma rate_sel_int : is_RInt sel 0 1 mu.
Proof. assert (H := resample_expectation q g Hq). rewrite Hsum in H. exact H. Qed.

Lemma rate_centred_int : is_RInt (fun r => sel r - mu) 0 1 0.
Proof.
  assert (H := resample_expectation q (fun i => g i - mu) Hq). rewrite Hsum in H. cbv beta in H.
  replace (sumn (length q) (fun i => vget q i * (g i - mu))) with 0 in H; [exact H|].
  rewrite (sumn_ext _ _ (fun i => vget q i * g i - mu * vget q i)) by (intros; ring).
  rewrite sumn_minus, sumn_scal_l, rate_total. fold mu. ring.
Qed.

Lemma rate_centred_sq_int : is_RInt (fun r => (sel r - mu) * (sel r - mu)) 0 1 var.
Proof.
  assert (H := resample_expectation q (fun i => (g i - mu) * (g i - mu)) Hq). rewrite Hsum in H. exact H.
Qed.

(* the mean over N draws of g(selected index) *)
Definition resampled_mean (N : nat) (l : list R) : R := 1 / INR N * SumG sel l.

Theorem resampled_mean_unbiased N : (0 < N)%nat -> isEN N (resampled_mean N) mu.
Proof.
  intros HN. assert (HNR : 0 < INR N) by (apply lt_0_INR; lia).
  assert (H := isEN_sum N sel mu rate_sel_int).
  assert (H2 := isEN_scal N (SumG sel) (1 / INR N) _ H).
  replace (1 / INR N * (INR N * mu)) with mu in H2 by (field; lra).
  exact H2.
Qed.

Theorem resampled_mean_mc_rate N : (0 < N)%nat ->
  isEN N (fun l => (resampled_mean N l - mu) * (resampled_mean N l - mu)) (var / INR N).
Proof.
  intros HN. assert (HNR : 0 < INR N) by (apply lt_0_INR; lia).
  set (h := fun r => sel r - mu).
  assert (H := isEN_sq N h var rate_centred_int rate_centred_sq_int).
  assert (H2 := isEN_scal N _ (1 / (INR N * INR N)) _ H).
  replace (1 / (INR N * INR N) * (INR N * var)) with (var / INR N) in H2 by (field; lra).
  apply (isEN_ext N (fun l => 1 / (INR N * INR N) * (SumG h l * SumG h l))); [|exact H2].
  intros l Hl _. unfold resampled_mean.
  assert (E : SumG h l = SumG sel l - INR N * mu).
  { rewrite <- Hl. clear. induction l as [|r l IH]; [cbn; lra|].
    cbn [SumG length]. rewrite IH, S_INR. unfold h. ring. }
  rewrite E. field. lra.
Qed.
End Rate.

(* ------------------------------------------------------------------ the estimate PF.forward returns *)
(* component j of the estimate, as a function of the N uniform draws (0 where the model reports an index error:
   never on [0,1]^N) *)
Definition pf_estimate_component (q : list R) (xs : matR) (Q : matR) (j : nat) (l : list R) : R :=
  match pf_estimate q xs l Q with Some (x', _) => vget x' j | None => 0 end.

Lemma pf_estimate_component_is_resampled_mean n (q : list R) (xs Q : matR) (j N : nat) (l : list R) :
  (forall b, In b q -> 0 <= b) -> fold_left add q 0 = 1 -> q <> [] -> length q = length xs ->
  (forall p, In p xs -> length p = n) -> (0 < n)%nat -> wf n n Q -> (j < n)%nat -> (0 < N)%nat ->
  length l = N -> Forall (fun r => 0 < r < 1) l ->
  pf_estimate_component q xs Q j l = resampled_mean q (fun i => mget xs i j) N l.
Proof.
  intros Hq Hsum Hne Hl Hxs Hn HQ Hj HN Ll Hall.
  assert (Hr : forall ri, In ri l -> ri <= fold_left add q 0).
  { intros ri Hri. rewrite Hsum. rewrite Forall_forall in Hall. specialize (Hall ri Hri). lra. }
  destruct (pf_estimate_some q xs l Q Hne Hl Hr) as [Hidx E].
  assert (Hl0 : l <> []) by (intros ->; cbn in Ll; lia).
  destruct (pf_estimate_spec n q xs l Q _ _ Hxs Hn Hl0 HQ E) as (_ & _ & Em & _).
  unfold pf_estimate_component. rewrite E. rewrite (Em j Hj).
  unfold resampled_mean. rewrite SumG_sumn. rewrite Ll. f_equal.
  apply sumn_ext. intros t Ht. unfold mget at 1.
  rewrite (nth_map_lt (fun i => nth i xs []) (map (searchsorted (cumsum q)) l) t [] 0%nat) by (rewrite map_length; lia).
  rewrite (nth_map_lt (searchsorted (cumsum q)) l t 0%nat 0) by lia. reflexivity.
Qed.

(* unbiased, variance sigma^2 / N: the Monte-Carlo rate of the resampling stage, for the estimate as returned *)
Theorem pf_estimate_mc_rate n (q : list R) (xs Q : matR) (j N : nat) :
  (forall b, In b q -> 0 <= b) -> fold_left add q 0 = 1 -> q <> [] -> length q = length xs ->
  (forall p, In p xs -> length p = n) -> (0 < n)%nat -> wf n n Q -> (j < n)%nat -> (0 < N)%nat ->
  let mu := sumn (length q) (fun i => vget q i * mget xs i j) in
  let var := sumn (length q) (fun i => vget q i * ((mget xs i j - mu) * (mget xs i j - mu))) in
  isEN N (pf_estimate_component q xs Q j) mu /\
  isEN N (fun l => (pf_estimate_component q xs Q j l - mu) * (pf_estimate_component q xs Q j l - mu)) (var / INR N).
Proof.
  intros Hq Hsum Hne Hl Hxs Hn HQ Hj HN mu var.
  assert (EQ : forall l, length l = N -> Forall (fun r => 0 < r < 1) l ->
               resampled_mean q (fun i => mget xs i j) N l = pf_estimate_component q xs Q j l).
  { intros l Ll Hall. symmetry. now apply (pf_estimate_component_is_resampled_mean n). }
  split.
  - apply (isEN_ext N (resampled_mean q (fun i => mget xs i j) N)); [exact EQ|].
    now apply resampled_mean_unbiased.
  - apply (isEN_ext N (fun l => (resampled_mean q (fun i => mget xs i j) N l - mu) *
                                (resampled_mean q (fun i => mget xs i j) N l - mu))).
    + intros l Ll Hall. now rewrite (EQ l Ll Hall).
    + now apply resampled_mean_mc_rate.
Qed.

(* the hypotheses on the weights are those a softmax satisfies (PF.forward), and a concrete instance *)
Lemma softmax_weights_ok (l : list R) : l <> [] ->
  (forall b, In b (softmax l) -> 0 <= b) /\ fold_left add (softmax l) 0 = 1 /\ softmax l <> [] /\
  length (softmax l) = length l.
Proof.
  intros Hl. destruct (softmax_positive_sums_to_one l Hl) as [Hpos Hsum].
  split; [intros b Hb; apply Rlt_le; now apply Hpos|]. split; [exact Hsum|].
  assert (L : length (softmax l) = length l) by (unfold softmax; now rewrite !map_length).
  split; [|exact L]. intros E. rewrite E in L. destruct l; [congruence | discriminate].
Qed.

Example mc_rate_hypotheses_satisfiable :
  (forall b, In b [1/2; 1/2] -> 0 <= b) /\ fold_left add [1/2; 1/2] 0 = 1 /\ [1/2; 1/2] <> [] /\
  length [1/2; 1/2] = length [[0]; [1]] /\ (forall p, In p [[0]; [1]] -> length p = 1%nat) /\ wf 1 1 [[1]].
Proof.
  split; [intros b [<-|[<-|[]]]; lra|]. split; [cbn; lra|]. split; [discriminate|]. split; [reflexivity|].
  split; [intros p [<-|[<-|[]]]; reflexivity | apply wf_lit_1x1].
Qed.
