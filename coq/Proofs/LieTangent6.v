(* C05 (extension): Jinvp(X, p) is the derivative of Log(Exp(e p) @ X) at e = 0 (SO3, regime 1 of Log), over R. *)
From Coq Require Import Reals Lra Psatz List Nsatz.
From Coquelicot Require Import Coquelicot.
Import ListNotations.
From PV Require Import Base.Num Base.RTac Model.LieGroup Model.LieExp Model.LieLog Model.LieJac Model.LieTangent
  Proofs.LieGroup Proofs.LieExp Proofs.LieLog Proofs.LieJac Proofs.LieTangent Proofs.LieTangent2 Proofs.LieTangent5.
Local Open Scope R_scope.
#[local] Remove Hints NumQ NumZ : typeclass_instances.

Definition log_cf (q : quatR) : vec3R := vscale (2 * atan (vnorm (qv q) / qw q) / vnorm (qv q)) (qv q).

Ltac zsimp := unfold Rdiv;
  repeat (rewrite ?Rmult_0_l, ?Rmult_0_r, ?Rplus_0_l, ?Rplus_0_r, ?Rmult_1_l, ?Rmult_1_r, ?Rminus_0_r, ?Ropp_0, ?Rminus_0_l).

Lemma log_cf_left_derivative (a b c w p1 p2 p3 : R) (i : nat) :
  0 < a * a + b * b + c * c -> 0 < w -> a * a + b * b + c * c + w * w = 1 ->
  is_derive (fun e => vc i (log_cf (SO3_mul (exp0 (vscale e (p1, p2, p3))) ((a, b, c), w)))) 0
            (vc i (mvmul (madd3 (madd3 mid3 (mscale3 (- (atan (sqrt (a * a + b * b + c * c) / w) / sqrt (a * a + b * b + c * c))) (skew (a, b, c))))
                                (mscale3 ((1 - atan (sqrt (a * a + b * b + c * c) / w) * w / sqrt (a * a + b * b + c * c)) /
                                          (sqrt (a * a + b * b + c * c) * sqrt (a * a + b * b + c * c)))
                                         (mmul3 (skew (a, b, c)) (skew (a, b, c))))) (p1, p2, p3))).
Proof.
  intros Hp Hw Hu. unfold log_cf, exp0, vnorm, vc. cbn [tsqrt TransR]. lie_unfold.
  assert (HN : 0 < sqrt (a * a + b * b + c * c)) by (now apply sqrt_lt_R0).
  assert (HNN : sqrt (a * a + b * b + c * c) * sqrt (a * a + b * b + c * c) = a * a + b * b + c * c) by (apply sqrt_sqrt; lra).
  d3 i;
  (auto_derive;
   [ zsimp; repeat split; auto; lra
   | zsimp; set (N := sqrt (a * a + b * b + c * c)) in *; set (At := atan (N * / w)); clearbody At; clearbody N;
     assert (Nn : N <> 0) by lra; assert (Wn : w <> 0) by lra;
     assert (Dn : w * w + N * N <> 0) by nra;
     field_simplify_eq; [|auto]; cbn [Rpow_def.pow]; clear - HNN Hu; timeout 300 nsatz ]).
Qed.

