(* C14, arbitrary state / input dimensions (ns, nc >= 1): a transcription of lqr.py
   (lqr_backward + lqr_forward) with matrices of Base/Mat.v in place of the scalars of Model/LQR.v -
   same recursion, same formulas, same time-counter operations - and its algebra:
   stage cost, value function and dynamics as block quadratic functions of the deviation from the
   nominal trajectory.  The Cholesky factorisation and the two cholesky_solve calls are Section
   variables with their contract as hypotheses.  (Proofs/LQRMat3.v: Bellman induction; LQRMat4.v: at
   ns = nc = 1 this transcription computes what the tied model Model/LQR.v computes.) *)
From Coq Require Import ZArith List Arith Lia Reals Lra.
Import ListNotations.
From PV Require Import Base.Num Base.Mat Model.Dynamics Proofs.LQRMat1.
#[local] Remove Hints NumQ NumZ : typeclass_instances.
Local Open Scope R_scope.

(* one stage of the cost in block form: Q_t = [[Nxx Nxu] [Nux Nuu]], p_t = (npx, npu) *)
Record stageN := { Nxx : matR; Nxu : matR; Nux : matR; Nuu : matR; npx : list R; npu : list R }.
(* the system object: its class and (A, B, c1) as read at time t *)
Record sysN := { nk : kind; ncoef : Z -> matR * matR * option (list R) }.

Definition nA (s : sysN) (t : Z) : matR := fst (fst (ncoef s t)).
Definition nB (s : sysN) (t : Z) : matR := snd (fst (ncoef s t)).
Definition nC (s : sysN) (t : Z) : option (list R) := snd (ncoef s t).

(* LTI.state_transition: z = bmv(A, x) + bmv(B, u); z if c1 is None else z + c1 *)
Definition sN_next (s : sysN) (t : Z) (x u : list R) : list R :=
  let z := vplus (mapply (nA s t) x) (mapply (nB s t) u) in
  match nC s t with None => z | Some c => vplus z c end.
Definition tickN (s : sysN) (t : Z) : Z := step_time' (nk s) t Call.
Definition setrefN (s : sysN) (t v : Z) : Z := step_time' (nk s) t (SetRef (Some v)).
Definition tresetN (s : sysN) (t : Z) : Z := step_time' (nk s) t (Reset 0).

(* p = bmv(Q, xut) + p at one step *)
Definition pbarN (st : stageN) (xb ub : list R) : list R * list R :=
  (vplus (vplus (mapply (Nxx st) xb) (mapply (Nxu st) ub)) (npx st),
   vplus (vplus (mapply (Nux st) xb) (mapply (Nuu st) ub)) (npu st)).

(* bvmv(xut, Q, xut) and vecdot(xut, p), in blocks *)
Definition bqN (st : stageN) (x u : list R) : R :=
  bil (Nxx st) x x + bil (Nxu st) x u + bil (Nux st) u x + bil (Nuu st) u u.
Definition stage_costN (st : stageN) (x u : list R) : R :=
  1 / 2 * bqN st x u + (vdot x (npx st) + vdot u (npu st)).

Section LQRN.
Variables ns nc : nat.
Variable Lt : Type.                             (* a Cholesky factor *)
Variable chol : matR -> option Lt.              (* torch.linalg.cholesky; None = raises *)
Variable csm : Lt -> matR -> matR.              (* torch.cholesky_solve, matrix right-hand side *)
Variable csv : Lt -> list R -> list R.          (* the same with a vector (unsqueeze / squeeze) *)

(* L = cholesky(Quu); K = -cholesky_solve(Qux, L); k = -cholesky_solve(qu, L);
   V = Qxx + Qxu K + K^T Qux + K^T Quu K;  v = qx + Qxu k + K^T qu + (K^T Quu) k *)
Definition gainsN (Qxx Qxu Qux Quu : matR) (qx qu : list R) : option (matR * list R * matR * list R) :=
  match chol Quu with
  | None => None
  | Some L =>
      let X := csm L Qux in let y := csv L qu in
      Some (gK X, gk y, gV Qxx Qxu Qux Quu X, gv Qxu Quu qx qu X y)
  end.

(* the backward loop on the steps t, t+1, ...; items = (Q_t p_t, nominal x_t, nominal u_t) *)
Fixpoint bwdN (s : sysN) (dt : Z) (t : Z) (tm : Z) (l : list (stageN * list R * list R))
  : option (list (matR * list R) * matR * list R * Z) :=
  match l with
  | [] => None
  | (st, xb, ub) :: rest =>
      let '(pbx, pbu) := pbarN st xb ub in
      match rest with
      | [] =>
          match gainsN (Nxx st) (Nxu st) (Nux st) (Nuu st) pbx pbu with
          | Some (K, k, V, v) => Some ([(K, k)], V, v, tm)
          | None => None
          end
      | _ :: _ =>
          match bwdN s dt (t + 1)%Z tm rest with
          | None => None
          | Some (Ks, V, v, tm1) =>
              let tm2 := setrefN s tm1 (t * dt)%Z in
              let a := nA s tm2 in let b := nB s tm2 in
              (* Qt = Q[t] + F^T V F, qt = p[t] + F^T v,  F = [A B] *)
              match gainsN (madd (Nxx st) (mmul (mmul (mtr a) V) a)) (madd (Nxu st) (mmul (mmul (mtr a) V) b))
                           (madd (Nux st) (mmul (mmul (mtr b) V) a)) (madd (Nuu st) (mmul (mmul (mtr b) V) b))
                           (vplus pbx (mapply (mtr a) v)) (vplus pbu (mapply (mtr b) v)) with
              | Some (K, k, V', v') => Some ((K, k) :: Ks, V', v', tm2)
              | None => None
              end
          end
      end
  end.

(* the forward loop; items = (Q_t p_t, nominal x_t, nominal u_t, (K_t, k_t)) *)
Fixpoint fwdN (s : sysN) (tm : Z) (x : list R) (l : list (stageN * list R * list R * (matR * list R))) (cost : R)
  : list (list R) * list (list R) * R * Z :=
  match l with
  | [] => ([], [], cost, tm)
  | (st, xb, ub, (K, k)) :: r =>
      let dx := vminus x xb in
      let du := vplus (mapply K dx) k in
      let u := vplus du ub in
      let x' := sN_next s tm x u in
      let c := cost + stage_costN st x u in
      let '(xs, us, cf, tmf) := fwdN s (tickN s tm) x' r c in
      (x' :: xs, u :: us, cf, tmf)
  end.

(* the nominal roll-out (runsys from time 0 after system.reset()) zipped with the stages *)
Fixpoint nomN (s : sysN) (t : Z) (x : list R) (prob : list stageN) (ub : list (list R))
  : list (stageN * list R * list R) :=
  match prob, ub with
  | st :: pr, u :: ur => (st, x, u) :: nomN s (t + 1)%Z (sN_next s t x u) pr ur
  | _, _ => []
  end.
Definition nominalN (prob : list stageN) (un : option (list (list R))) : list (list R) :=
  match un with None => repeat (vzero nc) (length prob) | Some u => u end.

(* LQR.forward(x_init, dt, u_traj) on a system whose counter is tm (the shape of Model/LQR.v's
   lqr_solve after Proofs/LQR2.v: lqr_solve_eq) *)
Definition lqrN_solve (s : sysN) (dt : Z) (prob : list stageN) (x_init : list R) (un : option (list (list R)))
  (tm : Z) : option (list (list R) * list (list R) * R * Z) :=
  let ub := nominalN prob un in
  if negb (Nat.eqb (length ub) (length prob)) then None else
  match prob with
  | [] => Some ([x_init], [], 0, tresetN s (tresetN s tm))
  | _ :: _ =>
      let items := nomN s (tresetN s tm) x_init prob ub in
      match bwdN s dt 0%Z (Z.of_nat (length prob - 1)) items with
      | None => None
      | Some (Ks, _, _, tm2) =>
          let '(xs, us, c, tm3) := fwdN s (tresetN s tm2) x_init (combine items Ks) 0 in
          Some (x_init :: xs, us, c, tm3)
      end
  end.

(* the LQ problem itself *)
Fixpoint JcostN (s : sysN) (t : Z) (x : list R) (prob : list stageN) (us : list (list R)) : R :=
  match prob, us with
  | st :: pr, u :: ur => stage_costN st x u + JcostN s (t + 1)%Z (sN_next s t x u) pr ur
  | _, _ => 0
  end.
Fixpoint trajN (s : sysN) (t : Z) (x : list R) (us : list (list R)) : list (list R) :=
  match us with
  | [] => []
  | u :: r => let x' := sN_next s t x u in x' :: trajN s (t + 1)%Z x' r
  end.

(* ---------------------------------------------------------------- well-formedness, PD *)
Definition wfsys (s : sysN) : Prop :=
  forall t, wf ns ns (nA s t) /\ wf ns nc (nB s t) /\ match nC s t with None => True | Some c => length c = ns end.
Definition wfstage (st : stageN) : Prop :=
  wf ns ns (Nxx st) /\ wf ns nc (Nxu st) /\ wf nc ns (Nux st) /\ wf nc nc (Nuu st) /\
  length (npx st) = ns /\ length (npu st) = nc.
(* Q_t symmetric, positive semidefinite jointly and positive definite in the input block
   (implied by, and weaker than, Q_t positive definite) *)
Definition pdN (st : stageN) : Prop :=
  wfstage st /\ msym (Nxx st) /\ msym (Nuu st) /\ Nux st = mtr (Nxu st) /\
  (forall x u, length x = ns -> length u = nc -> 0 <= bqN st x u) /\ PD nc (Nuu st).

Lemma sN_next_len s t x u : wfsys s -> length (sN_next s t x u) = ns.
Proof.
  intros W. destruct (W t) as (WA & WB & WC). unfold sN_next. destruct (nC s t); len.
Qed.

(* the dynamics in deviations *)
Lemma sN_next_diff s t x u xb ub : wfsys s ->
  length x = ns -> length xb = ns -> length u = nc -> length ub = nc ->
  vminus (sN_next s t x u) (sN_next s t xb ub) =
  vplus (mapply (nA s t) (vminus x xb)) (mapply (nB s t) (vminus u ub)).
Proof.
  intros W Hx Hxb Hu Hub. destruct (W t) as (WA & WB & WC).
  rewrite (mapply_vminus ns ns) by assumption. rewrite (mapply_vminus ns nc) by assumption.
  assert (L1 : length (mapply (nA s t) x) = ns) by len. assert (L2 : length (mapply (nA s t) xb) = ns) by len.
  assert (L3 : length (mapply (nB s t) u) = ns) by len. assert (L4 : length (mapply (nB s t) ub) = ns) by len.
  unfold sN_next. destruct (nC s t) as [c|].
  - apply (vec_ext ns); [len|len|]. intros i Hi.
    rewrite vget_vminus by (rewrite !length_vplus; lia). rewrite !vget_vplus by (rewrite ?length_vplus, ?length_vminus; lia).
    rewrite !vget_vminus by lia. mnum. lra.
  - apply (vec_ext ns); [len|len|]. intros i Hi.
    rewrite vget_vminus by (rewrite !length_vplus; lia). rewrite !vget_vplus by (rewrite ?length_vplus, ?length_vminus; lia).
    rewrite !vget_vminus by lia. mnum. lra.
Qed.

(* ---------------------------------------------------------------- block algebra *)
(* jform / Phi of LQRMat1 are additive in the blocks *)
Lemma jform_madd (A1 B1 C1 D1 A2 B2 C2 D2 : matR) dx du :
  wf ns ns A1 -> wf ns nc B1 -> wf nc ns C1 -> wf nc nc D1 ->
  wf ns ns A2 -> wf ns nc B2 -> wf nc ns C2 -> wf nc nc D2 -> length dx = ns -> length du = nc ->
  jform (madd A1 A2) (madd B1 B2) (madd C1 C2) (madd D1 D2) dx du = jform A1 B1 C1 D1 dx du + jform A2 B2 C2 D2 dx du.
Proof.
  intros. unfold jform. rewrite (bil_madd ns ns), (bil_madd ns nc), (bil_madd nc ns), (bil_madd nc nc) by assumption. lra.
Qed.
(* [A B]^T V [A B] as a joint form: (A dx + B du)^T V (A dx + B du) *)
Lemma jform_sandwich (a b V : matR) dx du :
  wf ns ns a -> wf ns nc b -> wf ns ns V -> length dx = ns -> length du = nc ->
  jform (mmul (mmul (mtr a) V) a) (mmul (mmul (mtr a) V) b) (mmul (mmul (mtr b) V) a) (mmul (mmul (mtr b) V) b) dx du
  = bil V (vplus (mapply a dx) (mapply b du)) (vplus (mapply a dx) (mapply b du)).
Proof.
  intros Wa Wb WV Hd Hu. unfold jform.
  rewrite (bil_sandwich ns ns ns a V a), (bil_sandwich ns ns nc a V b), (bil_sandwich ns nc ns b V a),
          (bil_sandwich ns nc nc b V b) by assumption.
  assert (L1 : length (mapply a dx) = ns) by len. assert (L2 : length (mapply b du) = ns) by len.
  rewrite (bil_plus_l ns) by assumption. rewrite !(bil_plus_r ns ns) by assumption. lra.
Qed.
Lemma lin_sandwich (a b : matR) v dx du :
  wf ns ns a -> wf ns nc b -> length v = ns -> length dx = ns -> length du = nc ->
  vdot (mapply (mtr a) v) dx + vdot (mapply (mtr b) v) du = vdot v (vplus (mapply a dx) (mapply b du)).
Proof.
  intros Wa Wb Hv Hd Hu.
  rewrite (vdot_mtr_l ns ns a v dx), (vdot_mtr_l ns nc b v du) by assumption.
  rewrite (vdot_vplus_r' ns) by len. reflexivity.
Qed.

(* the stage cost as a quadratic function of the deviation from (xb, ub) *)
Lemma stage_cost_dev st xb ub dx du : pdN st ->
  length xb = ns -> length ub = nc -> length dx = ns -> length du = nc ->
  stage_costN st (vplus xb dx) (vplus ub du) =
  stage_costN st xb ub +
  Phi (Nxx st) (Nxu st) (Nux st) (Nuu st) (fst (pbarN st xb ub)) (snd (pbarN st xb ub)) dx du.
Proof.
  intros ((Wxx & Wxu & Wux & Wuu & Lpx & Lpu) & Sxx & Suu & Sux & _ & _) Hxb Hub Hd Hu.
  unfold stage_costN, bqN, Phi, jform, pbarN. cbn [fst snd].
  bexp ns nc.
  rewrite (vdot_mapply_l ns ns (Nxx st) xb dx), (vdot_mapply_l ns nc (Nxu st) ub dx),
          (vdot_mapply_l nc ns (Nux st) xb du), (vdot_mapply_l nc nc (Nuu st) ub du) by assumption.
  pose proof (bil_sym ns (Nxx st) xb dx Wxx Sxx Hxb Hd) as E1.
  pose proof (bil_sym nc (Nuu st) ub du Wuu Suu Hub Hu) as E2.
  assert (E3 : forall a b, length a = nc -> length b = ns -> bil (Nux st) a b = bil (Nxu st) b a).
  { intros a b Ha Hb. rewrite Sux. now apply (bil_mtr ns nc). }
  rewrite (E3 ub xb), (E3 ub dx), (E3 du xb), (E3 du dx) by assumption.
  rewrite (vdot_comm' ns (npx st) dx), (vdot_comm' nc (npu st) du) by assumption.
  lra.
Qed.
Lemma stage_cost_dev' st xb ub x u : pdN st ->
  length xb = ns -> length ub = nc -> length x = ns -> length u = nc ->
  stage_costN st x u =
  stage_costN st xb ub +
  Phi (Nxx st) (Nxu st) (Nux st) (Nuu st) (fst (pbarN st xb ub)) (snd (pbarN st xb ub)) (vminus x xb) (vminus u ub).
Proof.
  intros Hpd Hxb Hub Hx Hu.
  pose proof (stage_cost_dev st xb ub (vminus x xb) (vminus u ub) Hpd Hxb Hub ltac:(len) ltac:(len)) as H.
  rewrite (vplus_vminus_cancel ns), (vplus_vminus_cancel nc) in H by assumption. exact H.
Qed.
End LQRN.
