(* Proofs about Model/Patch.v *)
From Coq Require Import List Arith Bool PeanoNat Lia ZArith QArith Qabs.
Import ListNotations.
From PV Require Import Model.Patch.
Close Scope Q_scope.

(* ======================================================================================== *)
(* Part 2 first: argument mutation                                                           *)
(* ======================================================================================== *)
Section EffProofs.
Variable D : Type.
Variable d0 : D.

Lemma set_nth_length (l : list D) : forall n x, length (set_nth D l n x) = length l.
Proof. induction l; intros [|n] x; simpl; auto. Qed.

Lemma set_nth_other (l : list D) : forall n x i, i <> n -> nth i (set_nth D l n x) d0 = nth i l d0.
Proof.
  induction l as [|a l IH]; intros [|n] x [|i] H; simpl; auto; try lia.
Qed.

(* soundness of the static check: storages of arguments that are not reported keep their contents *)
Lemma mut_sound (nargs : nat) : forall (p : prog D) env st T,
  (forall v, env v < nargs -> T v = Some (env v)) -> nargs <= length st ->
  length st <= length (fst (exec D d0 p env st)) /\
  forall id, id < nargs -> ~ In id (mut D p T) -> nth id (fst (exec D d0 p env st)) d0 = nth id st d0.
Proof.
  induction p as [vs|dst src k IH|dst f srcs k IH|dst f srcs k IH|c srcs kt IHt ke IHe]; intros env st T Inv Hn; simpl.
  - split; auto.
  - apply IH; auto. intros v Hv. unfold upd in *. destruct (v =? dst); auto.
  - destruct (IH (upd env dst (length st)) (st ++ [f (map (rd D d0 env st) srcs)]) (upd T dst None)) as [L N].
    + intros v Hv. unfold upd in *. destruct (v =? dst); [lia|auto].
    + rewrite app_length. simpl. lia.
    + rewrite app_length in L. simpl in L. split; [lia|].
      intros id Hid Hni. rewrite (N id Hid Hni). apply app_nth1. lia.
  - destruct (IH env (set_nth D st (env dst) (f (map (rd D d0 env st) srcs))) T Inv) as [L N].
    + now rewrite set_nth_length.
    + rewrite set_nth_length in L. split; [exact L|].
      intros id Hid Hni.
      assert (Hne : id <> env dst /\ ~ In id (mut D k T)).
      { destruct (Nat.lt_ge_cases (env dst) nargs) as [Hlt|Hge].
        - rewrite (Inv _ Hlt) in Hni. simpl in Hni. split; intro; apply Hni; auto.
        - split; [lia|]. destruct (T dst); simpl in Hni; intro; apply Hni; auto. }
      destruct Hne as [Hne Hk]. rewrite (N id Hid Hk). now apply set_nth_other.
  - destruct (c (map (rd D d0 env st) srcs)).
    + destruct (IHt env st T Inv Hn) as [L N]. split; auto.
      intros id Hid Hni. apply N; auto. intro; apply Hni; apply in_or_app; auto.
    + destruct (IHe env st T Inv Hn) as [L N]. split; auto.
      intros id Hid Hni. apply N; auto. intro; apply Hni; apply in_or_app; auto.
Qed.

Lemma firstn_ext (l : list D) : forall l', length l <= length l' ->
  (forall i, i < length l -> nth i l' d0 = nth i l d0) -> firstn (length l) l' = l.
Proof.
  induction l as [|a l IH]; intros l' Hl H; simpl; auto.
  destruct l' as [|b l']; simpl in Hl; [lia|].
  f_equal.
  - apply (H 0). simpl; lia.
  - apply IH; [lia|]. intros i Hi. apply (H (S i)). simpl; lia.
Qed.

(* a function whose check reports nothing returns its arguments unchanged, whatever the kernels compute *)
Theorem pure_if_check_empty (p : prog D) (args : list D) :
  may_mutate D (length args) p = [] -> post_args D d0 p args = args.
Proof.
  intros H. unfold post_args, run_prog.
  destruct (mut_sound (length args) p (fun v => v) args (taint0 (length args))) as [L N].
  - intros v Hv. unfold taint0. apply Nat.ltb_lt in Hv. now rewrite Hv.
  - lia.
  - apply firstn_ext; auto. intros i Hi. apply N; auto.
    unfold may_mutate in H. rewrite H. auto.
Qed.

(* and, argument by argument *)
Theorem arg_kept_if_not_reported (p : prog D) (args : list D) (a : nat) :
  a < length args -> ~ In a (may_mutate D (length args) p) ->
  nth a (fst (run_prog D d0 p args)) d0 = nth a args d0.
Proof.
  intros Ha H. unfold run_prog.
  destruct (mut_sound (length args) p (fun v => v) args (taint0 (length args))) as [L N]; auto.
  intros v Hv. unfold taint0. apply Nat.ltb_lt in Hv. now rewrite Hv.
Qed.

(* ---------------- the modelled functions without a trailing underscore ---------------- *)
Variable K : nat -> list D -> D.
Variable Cnd : nat -> list D -> bool.

Lemma binop_check cx cy : may_mutate D 2 (p_binop D K cx cy) = [].
Proof. destruct cx, cy; reflexivity. Qed.
Lemma unop_check : may_mutate D 1 (p_unop D K) = [].
Proof. reflexivity. Qed.
Lemma slice_check : may_mutate D 1 (p_slice D) = [].
Proof. reflexivity. Qed.
Lemma self_check : may_mutate D 1 (p_self D) = [].
Proof. reflexivity. Qed.
Lemma retr_check cx cy : may_mutate D 2 (p_retr D K cx cy) = [].
Proof. destruct cx, cy; reflexivity. Qed.
Lemma add_check : may_mutate D 2 (p_add D K) = [].
Proof. reflexivity. Qed.
Lemma quat2unit_other_check : may_mutate D 1 (p_quat2unit_other D) = [].
Proof. reflexivity. Qed.

Lemma cumops_loop_check : forall n T, T 1 = None -> mut D (p_cumops_loop D K n 1) T = [].
Proof.
  induction n; intros T H; simpl; auto.
  assert (E : upd (upd (upd T 10 None) 11 None) 12 None 1 = None) by (unfold upd; simpl; exact H).
  rewrite E. apply IHn. exact E.
Qed.
Lemma cumops_check n : may_mutate D 1 (p_cumops D K n) = [].
Proof. unfold may_mutate, p_cumops. simpl. apply cumops_loop_check. reflexivity. Qed.

Lemma ape_check (e_longer r64 e64 : bool) : may_mutate D 4 (p_ape D K r64 e64 e_longer) = [].
Proof. destruct e_longer, r64, e64; reflexivity. Qed.
Lemma quat2unit_check : may_mutate D 1 (p_quat2unit D K Cnd) = [].
Proof. reflexivity. Qed.
Lemma matching_check : may_mutate D 2 (p_matching D K) = [].
Proof. reflexivity. Qed.

Lemma cg_loop_check has_M : forall n first T,
  T 4 = None -> T 5 = None -> T 6 = None -> T 7 = None -> (first = true \/ T 9 = None) ->
  mut D (p_cg_loop D K Cnd has_M n first) T = [].
Proof.
  induction n; intros first T H4 H5 H6 H7 H9; simpl; auto.
  destruct has_M, first; simpl; unfold upd; simpl;
    rewrite ?H4, ?H5, ?H6, ?H7; try (destruct H9 as [H9|H9]; [discriminate|rewrite H9]); simpl;
    apply IHn; simpl; auto.
Qed.
Lemma cg_check has_x has_M n : may_mutate D 4 (p_cg D K Cnd has_x has_M n) = [].
Proof.
  unfold may_mutate, p_cg, p_cg_gen. destruct has_x, has_M; simpl; rewrite !cg_loop_check; auto.
Qed.

(* history: what the check reports for the three functions as they were before the fixes *)
Lemma quat2unit_old_reported : may_mutate D 1 (p_quat2unit_old D K Cnd) = [0].
Proof. reflexivity. Qed.
Lemma matching_old_reported : may_mutate D 2 (p_matching_old D K) = [1].
Proof. reflexivity. Qed.
Lemma cg_old_x0_reported has_M n : In 2 (may_mutate D 4 (p_cg_old D K Cnd true has_M (S n))).
Proof. destruct has_M; simpl; unfold may_mutate; simpl; rewrite ?in_app_iff; simpl; auto 10. Qed.
End EffProofs.

(* ---------------- concrete witnesses: the reported writes do change caller data ---------------- *)
Open Scope Q_scope.
(* matching_time_indices(stamps_1 = [0], stamps_2 = [0], offset_2 = 1) *)
Definition K_matching (offset : Q) (i : nat) (l : list (list Q)) : list Q :=
  match i with
  | 0%nat => map (fun t => t + offset) (nth 0%nat l [])
  | 1%nat => flat_map (fun a => map (fun b => Qabs (a - b)) (nth 1%nat l [])) (nth 0%nat l [])
  | _ => nth 0%nat l []
  end.
Lemma matching_witness :
  post_args (list Q) [] (p_matching_old (list Q) (K_matching 1)) [[0]; [0]] = [[0]; [0 + 1]].
Proof. reflexivity. Qed.

(* quat2unit: whatever `normalize` returns is written into the caller's tensor *)
Definition K_quat2unit (normalize : list Q -> list Q) (a b : nat) (i : nat) (l : list (list Q)) : list Q :=
  match i with
  | 0%nat => normalize (firstn (b - a)%nat (skipn a (nth 0%nat l [])))
  | 2%nat => nth 0%nat l []
  | _ => firstn a (nth 0%nat l []) ++ nth 1%nat l [] ++ skipn b (nth 0%nat l [])
  end.
Lemma quat2unit_witness (normalize : list Q -> list Q) (zero_detected : nat -> list (list Q) -> bool) (a b : nat) (input : list Q) :
  post_args (list Q) [] (p_quat2unit_old (list Q) (K_quat2unit normalize a b) zero_detected) [input]
  = [firstn a input ++ normalize (firstn (b - a)%nat (skipn a input)) ++ skipn b input].
Proof. unfold post_args, run_prog. simpl. destruct (zero_detected _ _); reflexivity. Qed.

(* CG on the 1x1 system A = [[a]], b = [b], initial guess x = [x0] (norms are absolute values) *)
Definition q0 (l : list Q) : Q := nth 0%nat l 0.
Definition K_cg1 (i : nat) (l : list (list Q)) : list Q :=
  let a k := q0 (nth k l []) in
  match i with
  | 0%nat => [0] | 1%nat => [Qabs (a 0%nat)] | 2%nat => [a 0%nat - a 1%nat * a 2%nat] | 3%nat => [a 0%nat] | 4%nat => [0]
  | 5%nat => [a 0%nat * a 1%nat] | 6%nat => [a 0%nat * a 1%nat]
  | 7%nat => [a 0%nat * (a 1%nat / a 2%nat) + a 3%nat]
  | 8%nat => [a 0%nat * a 1%nat] | 9%nat => [a 0%nat / (a 1%nat * a 2%nat)]
  | 10%nat => [a 0%nat + a 1%nat * a 2%nat] | _ => [a 0%nat - a 1%nat * a 2%nat]
  end.
Definition C_cg1 (tol : Q) (i : nat) (l : list (list Q)) : bool :=
  let a k := q0 (nth k l []) in
  match i with
  | 0%nat => Qeq_bool (a 0%nat) 0
  | 1%nat => negb (Qeq_bool (a 0%nat) 0)
  | _ => negb (Qle_bool (tol * a 1%nat) (Qabs (a 0%nat)))
  end.
(* A = [[1]], b = [1], x = [0], M = None (unused slot): the caller's x becomes [1] *)
Lemma cg_witness :
  map (map Qred) (post_args (list Q) [] (p_cg_old (list Q) K_cg1 (C_cg1 (1 # 100000)) true false 10%nat) [[1]; [1]; [0]; []])
  = [[1]; [1]; [1]; []].
Proof. vm_compute. reflexivity. Qed.
Close Scope Q_scope.

(* ======================================================================================== *)
(* Part 1: retain_ltype                                                                      *)
(* ======================================================================================== *)
Definition same_attrs (s s' : pstate) : Prop := forall k, getattr s' k = getattr s k.
(* the three patched attributes exist (true in any process that has imported torch) *)
Definition sites_defined (s : pstate) : Prop := forall x, getattr s (site_key x) <> None.

Lemma site_val_defined s x : sites_defined s -> getattr s (site_key x) = Some (site_val s x).
Proof. intros H. specialize (H x). unfold site_val. destruct (getattr s (site_key x)); congruence. Qed.

Lemma run_nest inner k s : run (BNest inner k) s =
  let '(s1, saved) := enter s in
  let '(s2, r, t) := run inner s1 in
  let s3 := leave s2 saved in
  if r then (s3, true, t) else let '(s4, r', t') := run k s3 in (s4, r', t ++ t').
Proof. reflexivity. Qed.

Lemma enter_sites_defined s : sites_defined (fst (enter s)).
Proof. intros x. destruct x; unfold enter, getattr; simpl; discriminate. Qed.

Lemma enter_other s k : (forall x, k <> site_key x) -> getattr (fst (enter s)) k = getattr s k.
Proof.
  intros H. destruct k as [m a].
  destruct m, a; try reflexivity;
    solve [ exfalso; apply (H S_make_dual); reflexivity | exfalso; apply (H S_wrap_grad); reflexivity
          | exfalso; apply (H S_add_batch); reflexivity ].
Qed.

Lemma leave_site s s2 x : getattr (leave s2 (snd (enter s))) (site_key x) = Some (site_val s x).
Proof. destruct x; reflexivity. Qed.

Lemma leave_other s s2 k : (forall x, k <> site_key x) -> getattr (leave s2 (snd (enter s))) k = getattr s2 k.
Proof.
  intros H. destruct k as [m a].
  destruct m, a; try reflexivity;
    solve [ exfalso; apply (H S_make_dual); reflexivity | exfalso; apply (H S_wrap_grad); reflexivity
          | exfalso; apply (H S_add_batch); reflexivity ].
Qed.

Lemma enter_fmods s : fmods (fst (enter s)) = fmods s. Proof. reflexivity. Qed.
Lemma leave_fmods s s2 : fmods (leave s2 (snd (enter s))) = fmods s2. Proof. reflexivity. Qed.

Lemma key_site_dec (k : key) : {x | k = site_key x} + {forall x, k <> site_key x}.
Proof.
  destruct k as [m a].
  destruct m, a; try (right; intros []; discriminate);
    [left; exists S_make_dual | left; exists S_wrap_grad | left; exists S_add_batch]; reflexivity.
Qed.

(* every behaviour of the body, any nesting depth: every module attribute and every __module__ is
   afterwards what it was before *)
Theorem run_restores : forall b s s' r t, run b s = (s', r, t) -> sites_defined s ->
  same_attrs s s' /\ fmods s' = fmods s.
Proof.
  induction b as [| |x k IH|inner IHi k IHk]; intros s s' r t R W.
  - simpl in R. inversion R; subst. split; [intros ?|]; reflexivity.
  - simpl in R. inversion R; subst. split; [intros ?|]; reflexivity.
  - simpl in R. destruct (run k s) as [[s1 r1] t1] eqn:E. inversion R; subst. eapply IH; eauto.
  - rewrite run_nest in R. destruct (enter s) as [s1 saved] eqn:En.
    assert (Es1 : s1 = fst (enter s)) by (rewrite En; reflexivity).
    assert (Esv : saved = snd (enter s)) by (rewrite En; reflexivity).
    destruct (run inner s1) as [[s2 r2] t2] eqn:Ei.
    assert (W1 : sites_defined s1) by (rewrite Es1; apply enter_sites_defined).
    destruct (IHi _ _ _ _ Ei W1) as (A12 & F12).
    remember (leave s2 saved) as s3 eqn:Es3.
    assert (A3 : same_attrs s s3).
    { intros kk. rewrite Es3, Esv. destruct (key_site_dec kk) as [[x ->]|Hk].
      - rewrite leave_site. symmetry. now apply site_val_defined.
      - rewrite leave_other by exact Hk. rewrite (A12 kk), Es1. now apply enter_other. }
    assert (F3 : fmods s3 = fmods s) by (rewrite Es3, Esv, leave_fmods, F12, Es1; apply enter_fmods).
    assert (W3 : sites_defined s3) by (intros x; rewrite (A3 (site_key x)); apply W).
    cbv zeta in R. destruct r2.
    + inversion R; subst. auto.
    + destruct (run k s3) as [[s4 r4] t4] eqn:Ek. inversion R; subst.
      destruct (IHk _ _ _ _ Ek W3) as (A34 & F34). split.
      * intros k0. etransitivity; [apply A34 | apply A3].
      * congruence.
Qed.

Lemma with_retain_raises b s :
  snd (fst (with_retain_ltype b s)) = snd (fst (run b (fst (enter s)))).
Proof.
  unfold with_retain_ltype. rewrite run_nest. destruct (enter s) as [s1 saved]. cbn [fst].
  destruct (run b s1) as [[s2 r] t]. destruct r; reflexivity.
Qed.

Lemma fmod_of_fmods s s' f : fmods s' = fmods s -> fmod s' f = fmod s f.
Proof. intros H. unfold fmod. now rewrite H. Qed.

Theorem retain_ltype_restores b s : sites_defined s ->
  let '(s', raised, _) := with_retain_ltype b s in
  (forall k, getattr s' k = getattr s k) /\ (forall f, fmod s' f = fmod s f) /\
  raised = snd (fst (run b (fst (enter s)))).
Proof.
  intros W. pose proof (with_retain_raises b s) as R.
  destruct (with_retain_ltype b s) as [[s' r] t] eqn:E. simpl in R.
  destruct (run_restores _ _ _ _ _ E W) as (A & F).
  split; [exact A|]. split; [|exact R]. intros f. now apply fmod_of_fmods.
Qed.

Lemma pristine_defined : sites_defined pristine.
Proof. intros []; discriminate. Qed.

(* calls inside go through exactly as many wrapper layers as there are enclosing contexts *)
Example layers_example :
  snd (with_retain_ltype (BCall S_add_batch (BNest (BCall S_add_batch BRaise) BRet)) pristine)
  = [(S_add_batch, 1); (S_add_batch, 2)].
Proof. reflexivity. Qed.

(* ---- history: the code before fix 084bc81 *)
Definition std_ord : list site := [S_make_dual; S_wrap_grad; S_add_batch].
(* first use after import: _add_batch_dim.__module__ was changed for good *)
Lemma old_module_rewrite_persists :
  let s' := fst (fst (with_retain_ltype_old std_ord BRet pristine)) in
  fmod pristine (Orig S_add_batch) = M_predispatch /\ fmod s' (Orig S_add_batch) = M_vmap.
Proof. split; reflexivity. Qed.
(* nesting (jacrev inside jacrev): new attributes named `wrapper` stayed behind *)
Lemma old_nested_leaks_attributes :
  let s' := fst (fst (with_retain_ltype_old std_ord (BNest BRet BRet) normal)) in
  getattr normal (M_vmap, A_wrapper) = None /\ getattr normal (M_lietensor, A_wrapper) = None /\
  getattr s' (M_vmap, A_wrapper) = Some (Wrap 2 (Orig S_add_batch)) /\
  getattr s' (M_lietensor, A_wrapper) = Some (Wrap 1 (Orig S_wrap_grad)).
Proof. repeat split; reflexivity. Qed.

(* ---- the statements cited by Props/C06.v *)
Theorem pure_ops (D : Type) (d0 : D) (K : nat -> list D -> D) (Cnd : nat -> list D -> bool) :
  (forall cx cy X Y, post_args D d0 (p_binop D K cx cy) [X; Y] = [X; Y]) /\
  (forall X, post_args D d0 (p_unop D K) [X] = [X]) /\
  (forall X, post_args D d0 (p_slice D) [X] = [X]) /\
  (forall X, post_args D d0 (p_self D) [X] = [X]) /\
  (forall cx cy X a, post_args D d0 (p_retr D K cx cy) [X; a] = [X; a]) /\
  (forall X o, post_args D d0 (p_add D K) [X; o] = [X; o]) /\
  (forall n X, post_args D d0 (p_cumops D K n) [X] = [X]) /\
  (forall X, post_args D d0 (p_quat2unit D K Cnd) [X] = [X]) /\
  (forall X, post_args D d0 (p_quat2unit_other D) [X] = [X]) /\
  (forall s1 s2, post_args D d0 (p_matching D K) [s1; s2] = [s1; s2]) /\
  (forall (e_longer r64 e64 : bool) rs rp es ep,
     post_args D d0 (p_ape D K r64 e64 e_longer) [rs; rp; es; ep] = [rs; rp; es; ep]) /\
  (forall has_x has_M n A b x M, post_args D d0 (p_cg D K Cnd has_x has_M n) [A; b; x; M] = [A; b; x; M]).
Proof.
  repeat split; intros; apply pure_if_check_empty; simpl length;
    first [ apply binop_check | apply unop_check | apply slice_check | apply self_check
          | apply retr_check | apply add_check | apply cumops_check | apply quat2unit_check
          | apply quat2unit_other_check | apply matching_check | apply ape_check | apply cg_check ].
Qed.

(* ---- history: before the fixes some input was changed *)
Open Scope Q_scope.
Theorem matching_old_refuted : exists stamps_1 stamps_2 offset,
  post_args (list Q) [] (p_matching_old (list Q) (K_matching offset)) [stamps_1; stamps_2] <> [stamps_1; stamps_2].
Proof. exists [0], [0], 1. rewrite matching_witness. intro H. inversion H. Qed.

Theorem quat2unit_old_refuted : forall (normalize : list Q -> list Q) (zero_detected : nat -> list (list Q) -> bool),
  normalize [0; 0; 0; 2] = [0; 0; 0; 1] ->
  exists input, post_args (list Q) [] (p_quat2unit_old (list Q) (K_quat2unit normalize 0 4) zero_detected) [input] <> [input].
Proof.
  intros normalize zd Hn. exists [0; 0; 0; 2]. rewrite quat2unit_witness. simpl. rewrite Hn. simpl.
  intro H. inversion H.
Qed.

Theorem cg_old_refuted : exists A b x M,
  map (map Qred) (post_args (list Q) [] (p_cg_old (list Q) K_cg1 (C_cg1 (1 # 100000)) true false 10%nat) [A; b; x; M])
  <> map (map Qred) [A; b; x; M].
Proof. exists [1], [1], [0], []. rewrite cg_witness. vm_compute. intro H. inversion H. Qed.

(* and the repaired functions on the same inputs *)
Lemma cg_same_input_kept :
  post_args (list Q) [] (p_cg (list Q) K_cg1 (C_cg1 (1 # 100000)) true false 10%nat) [[1]; [1]; [0]; []] = [[1]; [1]; [0]; []].
Proof. vm_compute. reflexivity. Qed.
Close Scope Q_scope.
