(* Proofs about Model/Patch.v *)
From Coq Require Import List Arith Bool PeanoNat Lia ZArith QArith Qabs.
Import ListNotations.
From PV Require Import Model.Patch.
Close Scope Q_scope.

(* ======================================================================================== *)
(* Part 2 first: argument mutation                                                           *)
(* ======================================================================================== *)
Section EffProofs.
Variable D : Type.
Variable d0 : D.

Lemma set_nth_length (l : list D) : forall n x, length (set_nth D l n x) = length l.
Proof. induction l; intros [|n] x; simpl; auto. Qed.

Lemma set_nth_other (l : list D) : forall n x i, i <> n -> nth i (set_nth D l n x) d0 = nth i l d0.
Proof.
  induction l as [|a l IH]; intros [|n] x [|i] H; simpl; auto; try lia.
Qed.

(* soundness of the static check: storages of arguments that are not reported keep their contents *)
Lemma mut_sound (nargs : nat) : forall (p : prog D) env st T,
  (forall v, env v < nargs -> T v = Some (env v)) -> nargs <= length st ->
  length st <= length (fst (exec D d0 p env st)) /\
  forall id, id < nargs -> ~ In id (mut D p T) -> nth id (fst (exec D d0 p env st)) d0 = nth id st d0.
Proof.
  induction p as [vs|dst src k IH|dst f srcs k IH|dst f srcs k IH|c srcs kt IHt ke IHe]; intros env st T Inv Hn; simpl.
  - split; auto.
  - apply IH; auto. intros v Hv. unfold upd in *. destruct (v =? dst); auto.
  - destruct (IH (upd env dst (length st)) (st ++ [f (map (rd D d0 env st) srcs)]) (upd T dst None)) as [L N].
    + intros v Hv. unfold upd in *. destruct (v =? dst); [lia|auto].
    + rewrite app_length. simpl. lia.
    + rewrite app_length in L. simpl in L. split; [lia|].
      intros id Hid Hni. rewrite (N id Hid Hni). apply app_nth1. lia.
  - destruct (IH env (set_nth D st (env dst) (f (map (rd D d0 env st) srcs))) T Inv) as [L N].
    + now rewrite set_nth_length.
    + rewrite set_nth_length in L. split; [exact L|].
      intros id Hid Hni.
      assert (Hne : id <> env dst /\ ~ In id (mut D k T)).
      { destruct (Nat.lt_ge_cases (env dst) nargs) as [Hlt|Hge].
        - rewrite (Inv _ Hlt) in Hni. simpl in Hni. split; intro; apply Hni; auto.
        - split; [lia|]. destruct (T dst); simpl in Hni; intro; apply Hni; auto. }
      destruct Hne as [Hne Hk]. rewrite (N id Hid Hk). now apply set_nth_other.
  - destruct (c (map (rd D d0 env st) srcs)).
    + destruct (IHt env st T Inv Hn) as [L N]. split; auto.
      intros id Hid Hni. apply N; auto. intro; apply Hni; apply in_or_app; auto.
    + destruct (IHe env st T Inv Hn) as [L N]. split; auto.
      intros id Hid Hni. apply N; auto. intro; apply Hni; apply in_or_app; auto.
Qed.

Lemma firstn_ext (l : list D) : forall l', length l <= length l' ->
  (forall i, i < length l -> nth i l' d0 = nth i l d0) -> firstn (length l) l' = l.
Proof.
  induction l as [|a l IH]; intros l' Hl H; simpl; auto.
  destruct l' as [|b l']; simpl in Hl; [lia|].
  f_equal.
  - apply (H 0). simpl; lia.
  - apply IH; [lia|]. intros i Hi. apply (H (S i)). simpl; lia.
Qed.

(* a function whose check reports nothing returns its arguments unchanged, whatever the kernels compute *)
Theorem pure_if_check_empty (p : prog D) (args : list D) :
  may_mutate D (length args) p = [] -> post_args D d0 p args = args.
Proof.
  intros H. unfold post_args, run_prog.
  destruct (mut_sound (length args) p (fun v => v) args (taint0 (length args))) as [L N].
  - intros v Hv. unfold taint0. apply Nat.ltb_lt in Hv. now rewrite Hv.
  - lia.
  - apply firstn_ext; auto. intros i Hi. apply N; auto.
    unfold may_mutate in H. rewrite H. auto.
Qed.

(* and, argument by argument *)
Theorem arg_kept_if_not_reported (p : prog D) (args : list D) (a : nat) :
  a < length args -> ~ In a (may_mutate D (length args) p) ->
  nth a (fst (run_prog D d0 p args)) d0 = nth a args d0.
Proof.
  intros Ha H. unfold run_prog.
  destruct (mut_sound (length args) p (fun v => v) args (taint0 (length args))) as [L N]; auto.
  intros v Hv. unfold taint0. apply Nat.ltb_lt in Hv. now rewrite Hv.
Qed.

(* ---------------- the modelled functions without a trailing underscore ---------------- *)
Variable K : nat -> list D -> D.
Variable Cnd : nat -> list D -> bool.

Lemma binop_check cx cy : may_mutate D 2 (p_binop D K cx cy) = [].
Proof. destruct cx, cy; reflexivity. Qed.
Lemma unop_check : may_mutate D 1 (p_unop D K) = [].
Proof. reflexivity. Qed.
Lemma slice_check : may_mutate D 1 (p_slice D) = [].
Proof. reflexivity. Qed.
Lemma self_check : may_mutate D 1 (p_self D) = [].
Proof. reflexivity. Qed.
Lemma retr_check cx cy : may_mutate D 2 (p_retr D K cx cy) = [].
Proof. destruct cx, cy; reflexivity. Qed.
Lemma add_check : may_mutate D 2 (p_add D K) = [].
Proof. reflexivity. Qed.
Lemma quat2unit_other_check : may_mutate D 1 (p_quat2unit_other D) = [].
Proof. reflexivity. Qed.

Lemma cumops_loop_check : forall n T, T 1 = None -> mut D (p_cumops_loop D K n 1) T = [].
Proof.
  induction n; intros T H; simpl; auto.
  assert (E : upd (upd (upd T 10 None) 11 None) 12 None 1 = None) by (unfold upd; simpl; exact H).
  rewrite E. apply IHn. exact E.
Qed.
Lemma cumops_check n : may_mutate D 1 (p_cumops D K n) = [].
Proof. unfold may_mutate, p_cumops. simpl. apply cumops_loop_check. reflexivity. Qed.

Lemma ape_check_f32 (e_longer r64 e64 : bool) :
  (if e_longer then e64 else r64) = false -> may_mutate D 4 (p_ape D K r64 e64 e_longer) = [].
Proof. destruct e_longer, r64, e64; intros H; try discriminate; reflexivity. Qed.

Lemma cg_loop_check has_M : forall n first T,
  T 4 = None -> T 5 = None -> T 6 = None -> T 7 = None -> (first = true \/ T 9 = None) ->
  mut D (p_cg_loop D K Cnd has_M n first) T = [].
Proof.
  induction n; intros first T H4 H5 H6 H7 H9; simpl; auto.
  destruct has_M, first; simpl; unfold upd; simpl;
    rewrite ?H4, ?H5, ?H6, ?H7; try (destruct H9 as [H9|H9]; [discriminate|rewrite H9]); simpl;
    apply IHn; simpl; auto.
Qed.
Lemma cg_check has_M n : may_mutate D 4 (p_cg D K Cnd false has_M n) = [].
Proof.
  unfold may_mutate, p_cg. destruct has_M; simpl; rewrite !cg_loop_check; auto.
Qed.

(* the three functions the check does report *)
Lemma quat2unit_reported : may_mutate D 1 (p_quat2unit D K Cnd) = [0].
Proof. reflexivity. Qed.
Lemma matching_reported : may_mutate D 2 (p_matching D K) = [1].
Proof. reflexivity. Qed.
Lemma cg_x0_reported has_M n : In 2 (may_mutate D 4 (p_cg D K Cnd true has_M (S n))).
Proof. destruct has_M; simpl; unfold may_mutate; simpl; rewrite ?in_app_iff; simpl; auto 10. Qed.
End EffProofs.

(* ---------------- concrete witnesses: the reported writes do change caller data ---------------- *)
Open Scope Q_scope.
(* matching_time_indices(stamps_1 = [0], stamps_2 = [0], offset_2 = 1) *)
Definition K_matching (offset : Q) (i : nat) (l : list (list Q)) : list Q :=
  match i with
  | 0%nat => map (fun t => t + offset) (nth 0%nat l [])
  | 1%nat => flat_map (fun a => map (fun b => Qabs (a - b)) (nth 1%nat l [])) (nth 0%nat l [])
  | _ => nth 0%nat l []
  end.
Lemma matching_witness :
  post_args (list Q) [] (p_matching (list Q) (K_matching 1)) [[0]; [0]] = [[0]; [0 + 1]].
Proof. reflexivity. Qed.

(* quat2unit: whatever `normalize` returns is written into the caller's tensor *)
Definition K_quat2unit (normalize : list Q -> list Q) (a b : nat) (i : nat) (l : list (list Q)) : list Q :=
  match i with
  | 0%nat => normalize (firstn (b - a)%nat (skipn a (nth 0%nat l [])))
  | _ => firstn a (nth 0%nat l []) ++ nth 1%nat l [] ++ skipn b (nth 0%nat l [])
  end.
Lemma quat2unit_witness (normalize : list Q -> list Q) (zero_detected : nat -> list (list Q) -> bool) (a b : nat) (input : list Q) :
  post_args (list Q) [] (p_quat2unit (list Q) (K_quat2unit normalize a b) zero_detected) [input]
  = [firstn a input ++ normalize (firstn (b - a)%nat (skipn a input)) ++ skipn b input].
Proof. unfold post_args, run_prog. simpl. destruct (zero_detected _ _); reflexivity. Qed.

(* CG on the 1x1 system A = [[a]], b = [b], initial guess x = [x0] (norms are absolute values) *)
Definition q0 (l : list Q) : Q := nth 0%nat l 0.
Definition K_cg1 (i : nat) (l : list (list Q)) : list Q :=
  let a k := q0 (nth k l []) in
  match i with
  | 0%nat => [0] | 1%nat => [Qabs (a 0%nat)] | 2%nat => [a 0%nat - a 1%nat * a 2%nat] | 3%nat => [a 0%nat] | 4%nat => [0]
  | 5%nat => [a 0%nat * a 1%nat] | 6%nat => [a 0%nat * a 1%nat]
  | 7%nat => [a 0%nat * (a 1%nat / a 2%nat) + a 3%nat]
  | 8%nat => [a 0%nat * a 1%nat] | 9%nat => [a 0%nat / (a 1%nat * a 2%nat)]
  | 10%nat => [a 0%nat + a 1%nat * a 2%nat] | _ => [a 0%nat - a 1%nat * a 2%nat]
  end.
Definition C_cg1 (tol : Q) (i : nat) (l : list (list Q)) : bool :=
  let a k := q0 (nth k l []) in
  match i with
  | 0%nat => Qeq_bool (a 0%nat) 0
  | 1%nat => negb (Qeq_bool (a 0%nat) 0)
  | _ => negb (Qle_bool (tol * a 1%nat) (Qabs (a 0%nat)))
  end.
(* A = [[1]], b = [1], x = [0], M = None (unused slot): the caller's x becomes [1] *)
Lemma cg_witness :
  map (map Qred) (post_args (list Q) [] (p_cg (list Q) K_cg1 (C_cg1 (1 # 100000)) true false 10%nat) [[1]; [1]; [0]; []])
  = [[1]; [1]; [1]; []].
Proof. vm_compute. reflexivity. Qed.
Close Scope Q_scope.

(* ======================================================================================== *)
(* Part 1: retain_ltype                                                                      *)
(* ======================================================================================== *)
Lemma mod_eqb_refl m : mod_eqb m m = true. Proof. destruct m; reflexivity. Qed.
Lemma attr_eqb_refl a : attr_eqb a a = true. Proof. destruct a; reflexivity. Qed.
Lemma site_eqb_refl a : site_eqb a a = true. Proof. destruct a; reflexivity. Qed.
Lemma key_eqb_refl k : key_eqb k k = true.
Proof. destruct k; unfold key_eqb; simpl. now rewrite mod_eqb_refl, attr_eqb_refl. Qed.
Lemma mod_eqb_eq a b : mod_eqb a b = true -> a = b. Proof. destruct a, b; simpl; congruence. Qed.
Lemma attr_eqb_eq a b : attr_eqb a b = true -> a = b. Proof. destruct a, b; simpl; congruence. Qed.
Lemma site_eqb_eq a b : site_eqb a b = true -> a = b. Proof. destruct a, b; simpl; congruence. Qed.
Lemma key_eqb_eq a b : key_eqb a b = true -> a = b.
Proof.
  destruct a, b; unfold key_eqb; simpl. intros H. apply andb_true_iff in H. destruct H.
  f_equal; [now apply mod_eqb_eq|now apply attr_eqb_eq].
Qed.
Lemma key_eqb_neq a b : a <> b -> key_eqb a b = false.
Proof. intros H. destruct (key_eqb a b) eqn:E; auto. apply key_eqb_eq in E. contradiction. Qed.
Lemma fn_eqb_refl f : fn_eqb f f = true.
Proof. induction f; simpl; [apply site_eqb_refl|]. now rewrite Nat.eqb_refl, IHf. Qed.
Lemma fn_eqb_eq : forall a b, fn_eqb a b = true -> a = b.
Proof.
  induction a; destruct b; simpl; try discriminate; intros H.
  - f_equal. now apply site_eqb_eq.
  - apply andb_true_iff in H. destruct H as [H1 H2]. apply Nat.eqb_eq in H1. f_equal; auto.
Qed.

Lemma fn_eq_dec (a b : fn) : {a = b} + {a <> b}.
Proof. decide equality; [decide equality | apply Nat.eq_dec]. Qed.

Definition is_wrap (f : fn) : bool := match f with Wrap _ _ => true | _ => false end.
Definition is_site_key (k : key) : bool := negb (attr_eqb (snd k) A_wrapper).

Lemma getattr_setattr s k f k' :
  getattr (setattr s k f) k' = if key_eqb k k' then Some f else getattr s k'.
Proof. reflexivity. Qed.
Lemma fmod_setattr s k f g : fmod (setattr s k f) g = fmod s g.
Proof. reflexivity. Qed.

(* the well-formed states: every patched site holds its own original or some closure, and the
   __module__ of the originals of the first two sites is the module they live in *)
Definition site_ok (s : pstate) (x : site) : Prop :=
  exists f, getattr s (site_key x) = Some f /\ (f = Orig x \/ is_wrap f = true).
Definition wfp (s : pstate) : Prop :=
  (forall x, site_ok s x) /\ fmod s (Orig S_make_dual) = M_forward_ad /\ fmod s (Orig S_wrap_grad) = M_eager.
(* once _add_batch_dim.__module__ has been rewritten it stays rewritten *)
Definition vm (s : pstate) : Prop := fmod s (Orig S_add_batch) = M_vmap.
(* two states agree on everything observable *)
Definition same_attrs (s s' : pstate) : Prop := forall k, getattr s' k = getattr s k.
Definition same_sites (s s' : pstate) : Prop := forall x, getattr s' (site_key x) = getattr s (site_key x).
Definition same_mods (s s' : pstate) : Prop := forall f, fmod s' f = fmod s f.

Lemma fn_key_site s f x : fn_key s f = site_key x -> f = Orig x.
Proof.
  unfold fn_key. intros H. assert (N : fn_name f = snd (site_key x)) by (rewrite <- H; reflexivity).
  destruct f as [[]|]; destruct x; simpl in N; try discriminate; reflexivity.
Qed.

(* module names only ever change to M_vmap, and only for the function found at the third site *)
Lemma fmod_set_module s f m g :
  fmod (set_module s f m) g = if fn_eqb f g then m else fmod s g.
Proof. unfold fmod, set_module. simpl. destruct (fn_eqb f g); reflexivity. Qed.

(* --- patch_all / leave touch only the keys of the functions they are given *)
Lemma patch_all_fmod : forall fs s g, fmod (patch_all s fs) g = fmod s g.
Proof. induction fs; intros s g; simpl; auto. rewrite IHfs. reflexivity. Qed.

Lemma patch_all_getattr : forall fs s k,
  (forall f, In f fs -> fn_key s f <> k) -> getattr (patch_all s fs) k = getattr s k.
Proof.
  induction fs as [|f fs IH]; intros s k H; simpl; auto.
  rewrite IH.
  - unfold getattr. simpl. rewrite key_eqb_neq; auto. apply H. now left.
  - intros g Hg. unfold fn_key. simpl. apply (H g). now right.
Qed.

Lemma patch_all_getattr_wrap : forall fs s k f',
  getattr (patch_all s fs) k = Some f' -> getattr s k = Some f' \/ is_wrap f' = true.
Proof.
  induction fs as [|f fs IH]; intros s k f' H; simpl in *; auto.
  apply IH in H. destruct H as [H|H]; auto.
  unfold getattr in H. simpl in H. destruct (key_eqb (fn_key s f) k); auto.
  inversion H; subst. right; reflexivity.
Qed.

Lemma patch_all_getattr_some : forall fs s k f0,
  getattr s k = Some f0 -> exists f', getattr (patch_all s fs) k = Some f'.
Proof.
  induction fs as [|f fs IH]; intros s k f0 H; simpl; eauto.
  destruct (key_eqb (fn_key s f) k) eqn:E.
  - eapply IH. unfold getattr. simpl. rewrite E. reflexivity.
  - eapply IH. unfold getattr. simpl. rewrite E. exact H.
Qed.

Lemma leave_fmod : forall fs s g, fmod (leave s fs) g = fmod s g.
Proof. induction fs; intros s g; simpl; auto. rewrite IHfs. reflexivity. Qed.

Lemma leave_getattr_other : forall fs s k,
  (forall f, In f fs -> fn_key s f <> k) -> getattr (leave s fs) k = getattr s k.
Proof.
  induction fs as [|f fs IH]; intros s k H; simpl; auto.
  rewrite IH.
  - rewrite getattr_setattr, key_eqb_neq; auto. apply H. now left.
  - intros g Hg. unfold fn_key. rewrite fmod_setattr. apply (H g). now right.
Qed.

(* if every function that is written back to key k is the same f, k holds f afterwards *)
Lemma leave_getattr_same : forall fs s k f,
  In f fs -> fn_key s f = k -> (forall g, In g fs -> fn_key s g = k -> g = f) ->
  getattr (leave s fs) k = Some f.
Proof.
  induction fs as [|g fs IH]; intros s k f Hin Hk Hu; simpl; [contradiction|].
  destruct (in_dec fn_eq_dec f fs) as [Hf|Hf].
  - apply IH; auto.
    intros h Hh Hhk. apply Hu; auto. now right.
  - destruct Hin as [->|Hin]; [|contradiction].
    rewrite leave_getattr_other.
    + rewrite getattr_setattr. now rewrite Hk, key_eqb_refl.
    + intros h Hh Hhk. apply Hf.
      rewrite (Hu h) in Hh; auto. now right.
Qed.

Lemma key_eq_dec (a b : key) : {a = b} + {a <> b}.
Proof. decide equality; decide equality. Qed.

Lemma site_eq_dec (a b : site) : {a = b} + {a <> b}.
Proof. decide equality. Qed.

Lemma site_val_get s x : site_ok s x ->
  getattr s (site_key x) = Some (site_val s x) /\ (site_val s x = Orig x \/ is_wrap (site_val s x) = true).
Proof. intros (f & Hf & Hk). unfold site_val. rewrite Hf. auto. Qed.

Lemma set_module_getattr s f m k : getattr (set_module s f m) k = getattr s k.
Proof. reflexivity. Qed.

(* a function taken from the sites can only be written to the site it came from *)
Lemma funcs_key_site s ord x : (forall y, site_ok s y) ->
  forall f s', In f (funcs_of s ord) -> fn_key s' f = site_key x -> In x ord /\ site_val s x = Orig x /\ f = Orig x.
Proof.
  intros W f s' Hin Hk. apply fn_key_site in Hk. subst f.
  unfold funcs_of in Hin. apply in_map_iff in Hin. destruct Hin as (y & Hy & Hin).
  destruct (site_val_get s y (W y)) as [_ [E|E]].
  - rewrite E in Hy. inversion Hy; subst. auto.
  - rewrite Hy in E. discriminate.
Qed.

Lemma enter_fmod s ord g :
  fmod (fst (enter s ord)) g = if fn_eqb (site_val s S_add_batch) g then M_vmap else fmod s g.
Proof. unfold enter. simpl. rewrite patch_all_fmod. apply fmod_set_module. Qed.

Lemma enter_wfp s ord : wfp s ->
  wfp (fst (enter s ord)) /\ (site_val s S_add_batch = Orig S_add_batch -> vm (fst (enter s ord))) /\
  (vm s -> vm (fst (enter s ord))).
Proof.
  intros (W & M0 & M1).
  destruct (site_val_get s S_add_batch (W S_add_batch)) as [_ V2].
  assert (N0 : fn_eqb (site_val s S_add_batch) (Orig S_make_dual) = false).
  { destruct V2 as [E|E]; [rewrite E; reflexivity|]. destruct (site_val s S_add_batch); [discriminate|reflexivity]. }
  assert (N1 : fn_eqb (site_val s S_add_batch) (Orig S_wrap_grad) = false).
  { destruct V2 as [E|E]; [rewrite E; reflexivity|]. destruct (site_val s S_add_batch); [discriminate|reflexivity]. }
  assert (A : forall x, site_ok (fst (enter s ord)) x).
  { intros x. destruct (W x) as (f & Hf & Hk).
    unfold enter. simpl.
    destruct (patch_all_getattr_some (funcs_of s ord) (set_module s (site_val s S_add_batch) M_vmap) (site_key x) f Hf) as [f' Hf'].
    exists f'. split; auto.
    destruct (patch_all_getattr_wrap _ _ _ _ Hf') as [H|H]; auto.
    rewrite set_module_getattr, Hf in H. inversion H; subst. exact Hk. }
  assert (B : fmod (fst (enter s ord)) (Orig S_make_dual) = M_forward_ad) by now rewrite enter_fmod, N0.
  assert (C : fmod (fst (enter s ord)) (Orig S_wrap_grad) = M_eager) by now rewrite enter_fmod, N1.
  split; [exact (conj A (conj B C))|]. split.
  - intros E. unfold vm. rewrite enter_fmod, E. reflexivity.
  - intros V. unfold vm in *. rewrite enter_fmod.
    destruct (fn_eqb (site_val s S_add_batch) (Orig S_add_batch)); auto.
Qed.

Lemma enter_sites_other s ord x : (forall y, site_ok s y) ->
  ~ (In x ord /\ site_val s x = Orig x) ->
  getattr (fst (enter s ord)) (site_key x) = getattr s (site_key x).
Proof.
  intros W H. unfold enter. simpl. rewrite patch_all_getattr; [apply set_module_getattr|].
  intros f Hin Hk. apply H. destruct (funcs_key_site s ord x W f _ Hin Hk) as (A & B & _). auto.
Qed.

Lemma site_mod s x : wfp s -> (x = S_add_batch -> vm s) -> fn_key s (Orig x) = site_key x.
Proof.
  intros (_ & M0 & M1) V. unfold fn_key. destruct x; simpl; try now rewrite ?M0, ?M1.
  unfold vm in V. now rewrite V.
Qed.

(* the heart: leaving restores the site values seen at entry *)
Lemma leave_sites s ord s2 : wfp s -> wfp s2 ->
  (site_val s S_add_batch = Orig S_add_batch -> vm s2) ->
  forall x, getattr (leave s2 (funcs_of s ord)) (site_key x) =
            if in_dec site_eq_dec x ord then
              match site_val s x with Orig _ => getattr s (site_key x) | Wrap _ _ => getattr s2 (site_key x) end
            else getattr s2 (site_key x).
Proof.
  intros Ws Ws2 V x. destruct Ws as (W & _).
  destruct (site_val_get s x (W x)) as [G Vx].
  assert (Other : ~ (In x ord /\ site_val s x = Orig x) ->
                  getattr (leave s2 (funcs_of s ord)) (site_key x) = getattr s2 (site_key x)).
  { intros H. apply leave_getattr_other. intros f Hin Hk. apply H.
    destruct (funcs_key_site s ord x W f _ Hin Hk) as (A & B & _). auto. }
  destruct (in_dec site_eq_dec x ord) as [I|I].
  - destruct Vx as [E|E].
    + rewrite E. rewrite G, E.
      apply leave_getattr_same.
      * unfold funcs_of. apply in_map_iff. exists x. auto.
      * apply site_mod; auto. intros ->. apply V. exact E.
      * intros g _ Hk. now apply fn_key_site in Hk.
    + destruct (site_val s x) eqn:Ev; [discriminate|]. apply Other. intros [_ H]. discriminate.
  - apply Other. intros [H _]. contradiction.
Qed.

Lemma run_nest ord inner k s : run (BNest ord inner k) s =
  let '(s1, fs) := enter s ord in
  let '(s2, r, t) := run inner s1 in
  let s3 := leave s2 fs in
  if r then (s3, true, t) else let '(s4, r', t') := run k s3 in (s4, r', t ++ t').
Proof. reflexivity. Qed.

Theorem run_inv : forall b s s' r t, run b s = (s', r, t) -> wfp s ->
  wfp s' /\ same_sites s s' /\ (vm s -> vm s').
Proof.
  induction b as [| |x k IH|ord inner IHi k IHk]; intros s s' r t R W.
  - simpl in R. inversion R; subst. split; [auto|split; [intros ?; reflexivity|auto]].
  - simpl in R. inversion R; subst. split; [auto|split; [intros ?; reflexivity|auto]].
  - simpl in R. destruct (run k s) as [[s1 r1] t1] eqn:E. inversion R; subst. eapply IH; eauto.
  - rewrite run_nest in R. destruct (enter s ord) as [s1 fs] eqn:En.
    assert (Es1 : s1 = fst (enter s ord)) by (rewrite En; reflexivity).
    assert (Efs : fs = funcs_of s ord) by (unfold enter in En; inversion En; reflexivity).
    destruct (run inner s1) as [[s2 r2] t2] eqn:Ei.
    destruct (enter_wfp s ord W) as (W1 & V1 & V1'). rewrite <- Es1 in *.
    destruct (IHi _ _ _ _ Ei W1) as (W2 & S12 & V2).
    remember (leave s2 fs) as s3 eqn:Es3.
    assert (W3 : wfp s3 /\ same_sites s s3 /\ (vm s -> vm s3)).
    { assert (S3 : same_sites s s3).
      { intros x. rewrite Es3, Efs, (leave_sites s ord s2 W W2) by auto.
        destruct W as (Wsites & _).
        destruct (in_dec site_eq_dec x ord) as [I|I].
        - destruct (site_val s x) eqn:Ev; auto.
          rewrite S12, Es1. apply enter_sites_other; auto. intros [_ H]. rewrite Ev in H. discriminate.
        - rewrite S12, Es1. apply enter_sites_other; auto. intros [H _]. contradiction. }
      split; [|split; auto].
      - destruct W as (Wsites & M0 & M1). destruct W2 as (_ & M0' & M1').
        split; [|split].
        + intros x. destruct (Wsites x) as (f & Hf & Hk). exists f. split; auto. now rewrite S3.
        + rewrite Es3. now rewrite leave_fmod.
        + rewrite Es3. now rewrite leave_fmod.
      - intros V. unfold vm. rewrite Es3, leave_fmod. apply V2. auto. }
    destruct W3 as (W3 & S3 & V3).
    destruct r2.
    + cbv zeta in R. inversion R; subst. split; [exact W3|split; [exact S3|exact V3]].
    + cbv zeta in R. destruct (run k s3) as [[s4 r4] t4] eqn:Ek. inversion R; subst.
      destruct (IHk _ _ _ _ Ek W3) as (W4 & S34 & V4).
      refine (conj W4 (conj _ (fun V => V4 (V3 V)))). intros x. etransitivity; [apply S34 | apply S3].
Qed.

(* exceptions propagate: the body raises iff the context raises *)
Lemma with_retain_raises ord b s :
  snd (fst (with_retain_ltype ord b s)) = snd (fst (run b (fst (enter s ord)))).
Proof.
  unfold with_retain_ltype. rewrite run_nest. destruct (enter s ord) as [s1 fs]. cbn [fst].
  destruct (run b s1) as [[s2 r] t]. destruct r; reflexivity.
Qed.

(* ---- one level, from a state in which the patching has been used before: everything observable
   (every module attribute, every __module__) is as before *)
Fixpoint flat (b : body) : bool :=
  match b with BRet | BRaise => true | BCall _ k => flat k | BNest _ _ _ => false end.
Lemma run_flat : forall b s, flat b = true -> fst (fst (run b s)) = s.
Proof.
  induction b; intros s H; simpl in *; auto; try discriminate.
  specialize (IHb s H). destruct (run b s) as [[s' r] t]. exact IHb.
Qed.

Definition clean (s : pstate) : Prop :=
  (forall x, getattr s (site_key x) = Some (Orig x)) /\ vm s /\
  fmod s (Orig S_make_dual) = M_forward_ad /\ fmod s (Orig S_wrap_grad) = M_eager.

Lemma clean_wfp s : clean s -> wfp s.
Proof. intros (G & _ & M0 & M1). split; [|auto]. intros x. exists (Orig x). auto. Qed.

Theorem one_level_restores_everything ord b s : clean s -> flat b = true ->
  let s' := fst (fst (with_retain_ltype ord b s)) in same_attrs s s' /\ same_mods s s'.
Proof.
  intros C F. pose proof (clean_wfp s C) as W. destruct C as (G & V & M0 & M1).
  unfold with_retain_ltype. rewrite run_nest.
  destruct (enter s ord) as [s1 fs] eqn:En.
  assert (Es1 : s1 = fst (enter s ord)) by (rewrite En; reflexivity).
  assert (Efs : fs = funcs_of s ord) by (unfold enter in En; inversion En; reflexivity).
  pose proof (run_flat b s1 F) as Rf. destruct (run b s1) as [[s2 r] t]. simpl in Rf. subst s2.
  assert (SV : forall x, site_val s x = Orig x) by (intros x; unfold site_val; now rewrite G).
  assert (FM : forall g, fmod s1 g = fmod s g).
  { intros g. rewrite Es1, enter_fmod, SV. destruct (fn_eqb (Orig S_add_batch) g) eqn:E; auto.
    apply fn_eqb_eq in E. subst g. symmetry. exact V. }
  assert (KEY : forall x, fn_key s1 (Orig x) = site_key x).
  { intros x. unfold fn_key. rewrite FM. destruct x; simpl; unfold vm in V; now rewrite ?M0, ?M1, ?V. }
  assert (R : same_attrs s (leave s1 fs) /\ same_mods s (leave s1 fs)).
  { split.
    - intros k.
      destruct (in_dec key_eq_dec k (map site_key ord)) as [I|I].
      + apply in_map_iff in I. destruct I as (x & <- & I).
        rewrite G. apply leave_getattr_same.
        * rewrite Efs. unfold funcs_of. apply in_map_iff. exists x. auto.
        * apply KEY.
        * intros g _ Hk. now apply fn_key_site in Hk.
      + rewrite leave_getattr_other.
        * rewrite Es1. unfold enter. simpl. rewrite patch_all_getattr; [reflexivity|].
          intros f Hf Hk. apply I. rewrite Efs in *. clear Efs.
          unfold funcs_of in Hf. apply in_map_iff in Hf. destruct Hf as (x & <- & Hx).
          rewrite SV in Hk. apply in_map_iff. exists x. split; auto.
          rewrite <- Hk. unfold fn_key. rewrite fmod_set_module, SV.
          destruct x; simpl; unfold vm in V; now rewrite ?M0, ?M1, ?V.
        * intros f Hf Hk. apply I. rewrite Efs in Hf.
          unfold funcs_of in Hf. apply in_map_iff in Hf. destruct Hf as (x & <- & Hx).
          rewrite SV in Hk. apply in_map_iff. exists x. split; auto. rewrite <- Hk. symmetry. apply KEY.
    - intros g. rewrite leave_fmod. apply FM. }
  destruct r; exact R.
Qed.

(* ---- refutations on the faithful model *)
Definition std_ord : list site := [S_make_dual; S_wrap_grad; S_add_batch].
(* first use after import: _add_batch_dim.__module__ is changed for good *)
Lemma module_rewrite_persists :
  let s' := fst (fst (with_retain_ltype std_ord BRet pristine)) in
  fmod pristine (Orig S_add_batch) = M_predispatch /\ fmod s' (Orig S_add_batch) = M_vmap.
Proof. split; reflexivity. Qed.
(* nesting (jacrev inside jacrev): new attributes named `wrapper` stay behind *)
Lemma nested_leaks_attributes :
  let s' := fst (fst (with_retain_ltype std_ord (BNest std_ord BRet BRet) normal)) in
  getattr normal (M_vmap, A_wrapper) = None /\ getattr normal (M_lietensor, A_wrapper) = None /\
  getattr s' (M_vmap, A_wrapper) = Some (Wrap 2 (Orig S_add_batch)) /\
  getattr s' (M_lietensor, A_wrapper) = Some (Wrap 1 (Orig S_wrap_grad)).
Proof. repeat split; reflexivity. Qed.

(* ---- the statements cited by Props/C06.v *)
Theorem retain_ltype_restores ord b s : wfp s ->
  let '(s', raised, _) := with_retain_ltype ord b s in
  wfp s' /\ same_sites s s' /\ raised = snd (fst (run b (fst (enter s ord)))).
Proof.
  intros W. pose proof (with_retain_raises ord b s) as R.
  destruct (with_retain_ltype ord b s) as [[s' r] t] eqn:E. simpl in R.
  destruct (run_inv _ _ _ _ _ E W) as (W' & S & _). auto.
Qed.

Lemma pristine_wfp : wfp pristine.
Proof. split; [|split; reflexivity]. intros []; eexists; (split; [reflexivity|auto]). Qed.
Lemma normal_clean : clean normal.
Proof. split; [|repeat split]. intros []; reflexivity. Qed.

Theorem pure_ops (D : Type) (d0 : D) (K : nat -> list D -> D) (Cnd : nat -> list D -> bool) :
  (forall cx cy X Y, post_args D d0 (p_binop D K cx cy) [X; Y] = [X; Y]) /\
  (forall X, post_args D d0 (p_unop D K) [X] = [X]) /\
  (forall X, post_args D d0 (p_slice D) [X] = [X]) /\
  (forall X, post_args D d0 (p_self D) [X] = [X]) /\
  (forall cx cy X a, post_args D d0 (p_retr D K cx cy) [X; a] = [X; a]) /\
  (forall X o, post_args D d0 (p_add D K) [X; o] = [X; o]) /\
  (forall n X, post_args D d0 (p_cumops D K n) [X] = [X]) /\
  (forall X, post_args D d0 (p_quat2unit_other D) [X] = [X]) /\
  (forall has_M n A b x M, post_args D d0 (p_cg D K Cnd false has_M n) [A; b; x; M] = [A; b; x; M]) /\
  (forall (e_longer r64 e64 : bool) rs rp es ep, (if e_longer then e64 else r64) = false ->
     post_args D d0 (p_ape D K r64 e64 e_longer) [rs; rp; es; ep] = [rs; rp; es; ep]).
Proof.
  repeat split; intros; apply pure_if_check_empty; simpl length;
    first [ apply binop_check | apply unop_check | apply slice_check | apply self_check
          | apply retr_check | apply add_check | apply cumops_check | apply quat2unit_other_check
          | apply cg_check | now apply ape_check_f32 ].
Qed.


(* ---- the refutations in the form "some input is changed" *)
Open Scope Q_scope.
Theorem matching_refuted : exists stamps_1 stamps_2 offset,
  post_args (list Q) [] (p_matching (list Q) (K_matching offset)) [stamps_1; stamps_2] <> [stamps_1; stamps_2].
Proof. exists [0], [0], 1. rewrite matching_witness. intro H. inversion H. Qed.

Theorem quat2unit_refuted : forall (normalize : list Q -> list Q) (zero_detected : nat -> list (list Q) -> bool),
  normalize [0; 0; 0; 2] = [0; 0; 0; 1] ->
  exists input, post_args (list Q) [] (p_quat2unit (list Q) (K_quat2unit normalize 0 4) zero_detected) [input] <> [input].
Proof.
  intros normalize zd Hn. exists [0; 0; 0; 2]. rewrite quat2unit_witness. simpl. rewrite Hn. simpl.
  intro H. inversion H.
Qed.

Theorem cg_refuted : exists A b x M,
  map (map Qred) (post_args (list Q) [] (p_cg (list Q) K_cg1 (C_cg1 (1 # 100000)) true false 10%nat) [A; b; x; M])
  <> map (map Qred) [A; b; x; M].
Proof. exists [1], [1], [0], []. rewrite cg_witness. vm_compute. intro H. inversion H. Qed.
Close Scope Q_scope.
