(* C01: the small-angle (Taylor) branches of so3_Exp, so3_Jl, rxso3_Ws are close to the true exponential.
   Coefficient bounds from the alternating series bounds of sin / cos (pre_sin_bound, pre_cos_bound),
   matrix-level corollaries through the entry bound for matrices A K + B K^2 + C I. *)
From Coq Require Import Reals Lra Psatz List Nsatz.
From Coquelicot Require Import Coquelicot.
Import ListNotations.
From PV Require Import Base.Num Base.RTac Model.LieGroup Model.LieExp Proofs.LieGroup Proofs.LieExp
  Proofs.ExpODE Proofs.ExpODE2 Proofs.ExpODE3 Proofs.ExpODE4.
Local Open Scope R_scope.
#[local] Remove Hints NumQ NumZ : typeclass_instances.

(* ================= series bounds ================= *)
Lemma pow_abs_bound th (n m : nat) : 0 <= th <= 1 -> (m <= n)%nat -> th ^ n <= th ^ m.
Proof.
  intros [H0 H1] Hnm. replace n with (m + (n - m))%nat by lia. rewrite pow_add.
  rewrite <- (Rmult_1_r (th ^ m)) at 2. apply Rmult_le_compat_l; [apply pow_le; lra|].
  rewrite <- (pow1 (n - m)). apply pow_incr. lra.
Qed.
Lemma sin_taylor7 u : 0 <= u <= 1 ->
  u - u^3/6 + u^5/120 - u^7/5040 <= sin u <= u - u^3/6 + u^5/120.
Proof.
  intros [H0 H1].
  destruct (pre_sin_bound u 1 H0 ltac:(lra)) as [Hl _].
  destruct (pre_sin_bound u 0 H0 ltac:(lra)) as [_ Hu].
  unfold sin_approx, sin_term in *.
  change (2 * 1 + 1)%nat with 3%nat in Hl. change (2 * (0 + 1))%nat with 2%nat in Hu.
  cbn [sum_f_R0 Nat.mul Nat.add] in Hl, Hu.
  replace (INR (fact 7)) with 5040 in * by (rewrite INR_IZR_INZ; reflexivity).
  replace (INR (fact 5)) with 120 in * by (rewrite INR_IZR_INZ; reflexivity).
  replace (INR (fact 3)) with 6 in * by (rewrite INR_IZR_INZ; reflexivity).
  replace (INR (fact 1)) with 1 in * by (rewrite INR_IZR_INZ; reflexivity).
  split; [eapply Rle_trans; [|apply Hl] | eapply Rle_trans; [apply Hu|]]; apply Req_le; field.
Qed.
Lemma sin_taylor3 u : 0 <= u <= 1 -> u - u^3/6 <= sin u <= u.
Proof.
  intros [H0 H1].
  destruct (pre_sin_bound u 0 H0 ltac:(lra)) as [Hl _].
  unfold sin_approx, sin_term in *. change (2 * 0 + 1)%nat with 1%nat in Hl.
  cbn [sum_f_R0 Nat.mul Nat.add] in Hl.
  replace (INR (fact 3)) with 6 in * by (rewrite INR_IZR_INZ; reflexivity).
  replace (INR (fact 1)) with 1 in * by (rewrite INR_IZR_INZ; reflexivity).
  split; [eapply Rle_trans; [|apply Hl]; apply Req_le; field|].
  destruct (sin_taylor7 u (conj H0 H1)) as [_ Hu].
  assert (0 <= u^3) by (apply pow_le; lra).
  assert (u^5 <= u^3) by (apply pow_abs_bound; [lra | lia]).
  lra.
Qed.
Lemma cos_taylor8 u : -1 <= u <= 1 ->
  1 - u^2/2 + u^4/24 - u^6/720 <= cos u <= 1 - u^2/2 + u^4/24 - u^6/720 + u^8/40320.
Proof.
  intros [H0 H1].
  destruct (pre_cos_bound u 1 ltac:(lra) ltac:(lra)) as [Hl Hu].
  unfold cos_approx, cos_term in *.
  change (2 * 1 + 1)%nat with 3%nat in Hl. change (2 * (1 + 1))%nat with 4%nat in Hu.
  cbn [sum_f_R0 Nat.mul Nat.add] in Hl, Hu.
  replace (INR (fact 8)) with 40320 in * by (rewrite INR_IZR_INZ; reflexivity).
  replace (INR (fact 6)) with 720 in * by (rewrite INR_IZR_INZ; reflexivity).
  replace (INR (fact 4)) with 24 in * by (rewrite INR_IZR_INZ; reflexivity).
  replace (INR (fact 2)) with 2 in * by (rewrite INR_IZR_INZ; reflexivity).
  replace (INR (fact 0)) with 1 in * by (rewrite INR_IZR_INZ; reflexivity).
  split; [eapply Rle_trans; [|apply Hl] | eapply Rle_trans; [apply Hu|]]; apply Req_le; field.
Qed.
Lemma cos_taylor4 u : -1 <= u <= 1 -> 1 - u^2/2 <= cos u <= 1 - u^2/2 + u^4/24.
Proof.
  intros [H0 H1].
  destruct (pre_cos_bound u 0 ltac:(lra) ltac:(lra)) as [Hl Hu].
  unfold cos_approx, cos_term in *.
  change (2 * 0 + 1)%nat with 1%nat in Hl. change (2 * (0 + 1))%nat with 2%nat in Hu.
  cbn [sum_f_R0 Nat.mul Nat.add] in Hl, Hu.
  replace (INR (fact 4)) with 24 in * by (rewrite INR_IZR_INZ; reflexivity).
  replace (INR (fact 2)) with 2 in * by (rewrite INR_IZR_INZ; reflexivity).
  replace (INR (fact 0)) with 1 in * by (rewrite INR_IZR_INZ; reflexivity).
  split; [eapply Rle_trans; [|apply Hl] | eapply Rle_trans; [apply Hu|]]; apply Req_le; field.
Qed.

(* exp near 0 *)
Lemma exp_upper s : s < 1 -> exp s <= 1 / (1 - s).
Proof.
  intros H. pose proof (exp_ineq1_le (- s)) as H1. pose proof (exp_pos s) as Hp.
  assert (He : exp s * exp (- s) = 1) by (rewrite <- exp_plus; replace (s + - s) with 0 by ring; apply exp_0).
  apply Rle_div_r; [lra|]. nra.
Qed.
Lemma exp_m1_bound s : Rabs s <= 1/2 -> Rabs (exp s - 1) <= 2 * Rabs s.
Proof.
  intros H. apply Rabs_le_between in H. pose proof (exp_ineq1_le s) as Hl.
  pose proof (exp_upper s ltac:(lra)) as Hu.
  assert (Hu' : exp s * (1 - s) <= 1) by (apply Rle_div_r in Hu; lra).
  pose proof (exp_pos s) as Hp.
  destruct (Rle_dec 0 s) as [Hs|Hs].
  - rewrite (Rabs_pos_eq s) by lra. rewrite Rabs_pos_eq by lra. nra.
  - rewrite (Rabs_left s) by lra. rewrite Rabs_left1 by nra. lra.
Qed.
Lemma exp_m1_m_bound s : Rabs s <= 1/2 -> 0 <= exp s - 1 - s <= 2 * (s * s).
Proof.
  intros H. apply Rabs_le_between in H. pose proof (exp_ineq1_le s) as Hl.
  pose proof (exp_upper s ltac:(lra)) as Hu.
  assert (Hu' : exp s * (1 - s) <= 1) by (apply Rle_div_r in Hu; lra).
  pose proof (exp_pos s) as Hp. split; [lra|]. nra.
Qed.
Lemma Cex_close s : Rabs s <= 1/2 -> Rabs (Cex s - 1) <= 2 * Rabs s.
Proof.
  intros H. unfold Cex. destruct (Req_EM_T s 0) as [->|Hs].
  - rewrite Rminus_diag_eq by reflexivity. rewrite !Rabs_R0. lra.
  - pose proof (exp_m1_m_bound s H) as [H1 H2].
    replace ((exp s - 1) / s - 1) with ((exp s - 1 - s) / s) by (field; auto).
    unfold Rdiv. rewrite Rabs_mult, Rabs_Rinv by auto. rewrite (Rabs_pos_eq _ H1).
    pose proof (Rabs_pos_lt s Hs) as Hp. apply Rle_div_l; [lra|].
    replace (s * s) with (Rabs s * Rabs s) in H2 by (rewrite <- Rabs_mult; apply Rabs_pos_eq; nra). lra.
Qed.

(* ================= coefficient bounds of the Taylor branches, 0 < theta <= 1 ================= *)
Lemma div_between a th lo hi : 0 < th -> lo * th <= a <= hi * th -> lo <= a / th <= hi.
Proof. intros Ht [H1 H2]. split; [apply Rle_div_r; lra | apply Rle_div_l; lra]. Qed.

(* so3_Exp: imaginary factor  1/2 - th^2/48 + th^4/3840  vs  sin(th/2)/th *)
Lemma so3_exp_coef_im_close th : 0 < th <= 1 ->
  0 <= (1/2 - th^2/48 + th^4/3840) - sin (th/2) / th <= th^6 / 645120.
Proof.
  intros [H0 H1]. destruct (sin_taylor7 (th/2) ltac:(lra)) as [Hl Hu].
  assert (Hb : (1/2 - th^2/48 + th^4/3840 - th^6/645120) <= sin (th/2) / th <= (1/2 - th^2/48 + th^4/3840)).
  { apply div_between; [lra|]. set (s := sin (th/2)) in *. clearbody s. split.
    - eapply Rle_trans; [|apply Hl]. apply Req_le. field.
    - eapply Rle_trans; [apply Hu|]. apply Req_le. field. }
  lra.
Qed.
(* so3_Exp: real factor  1 - th^2/8 + th^4/384  vs  cos(th/2) *)
Lemma so3_exp_coef_re_close th : 0 <= th <= 1 ->
  0 <= (1 - th^2/8 + th^4/384) - cos (th/2) <= th^6 / 46080.
Proof.
  intros [H0 H1]. destruct (cos_taylor8 (th/2) ltac:(lra)) as [Hl _]. destruct (cos_taylor4 (th/2) ltac:(lra)) as [_ Hu].
  set (c := cos (th/2)) in *. clearbody c.
  assert (E1 : 1 - (th/2)^2/2 + (th/2)^4/24 = 1 - th^2/8 + th^4/384) by field.
  assert (E2 : (th/2)^6/720 = th^6/46080) by field.
  lra.
Qed.
(* so3_Jl: 1/2 - th^2/24  vs  (1 - cos th)/th^2 ;  1/6 - th^2/120  vs  (th - sin th)/th^3 *)
Lemma so3_Jl_coef1_close th : 0 < th <= 1 ->
  0 <= (1 - cos th) / (th * th) - (1/2 - th^2/24) <= th^4 / 720.
Proof.
  intros [H0 H1]. destruct (cos_taylor8 th ltac:(lra)) as [Hl _]. destruct (cos_taylor4 th ltac:(lra)) as [_ Hu].
  assert (Hb : (1/2 - th^2/24) <= (1 - cos th) / (th * th) <= (1/2 - th^2/24 + th^4/720)).
  { apply div_between; [nra|]. set (c := cos th) in *. clearbody c. split.
    - apply Rle_trans with (1 - (1 - th^2/2 + th^4/24)); [apply Req_le; field | lra].
    - apply Rle_trans with (1 - (1 - th^2/2 + th^4/24 - th^6/720)); [lra | apply Req_le; field]. }
  lra.
Qed.
Lemma so3_Jl_coef2_close th : 0 < th <= 1 ->
  0 <= (th - sin th) / (th * (th * th)) - (1/6 - th^2/120) <= th^4 / 5040.
Proof.
  intros [H0 H1]. destruct (sin_taylor7 th ltac:(lra)) as [Hl Hu].
  assert (Hp : 0 < th * (th * th)) by (apply Rmult_lt_0_compat; nra).
  assert (Hb : (1/6 - th^2/120) <= (th - sin th) / (th * (th * th)) <= (1/6 - th^2/120 + th^4/5040)).
  { apply div_between; [exact Hp|]. set (s := sin th) in *. clearbody s. split.
    - apply Rle_trans with (th - (th - th^3/6 + th^5/120)); [apply Req_le; field | lra].
    - apply Rle_trans with (th - (th - th^3/6 + th^5/120 - th^7/5040)); [lra | apply Req_le; field]. }
  lra.
Qed.
(* products appearing in the matrix of the Taylor-branch quaternion (k x, w):  2 w k  vs  sin th/th,
   2 k^2  vs  (1 - cos th)/th^2 *)
Lemma so3_taylor_2wk_close th : 0 < th <= 1 ->
  let k := 1/2 - th^2/48 + th^4/3840 in let w := 1 - th^2/8 + th^4/384 in
  Rabs (2 * w * k - sin th / th) <= th^6 / 5000.
Proof.
  intros [H0 H1] k w. destruct (sin_taylor7 th ltac:(lra)) as [Hl Hu].
  assert (Hb : (1 - th^2/6 + th^4/120 - th^6/5040) <= sin th / th <= (1 - th^2/6 + th^4/120)).
  { apply div_between; [lra|]. set (s := sin th) in *. clearbody s. split.
    - eapply Rle_trans; [|apply Hl]. apply Req_le. field.
    - eapply Rle_trans; [apply Hu|]. apply Req_le. field. }
  set (q := sin th / th) in *. clearbody q.
  assert (Hk : 2 * w * k = 1 - th^2/6 + th^4/120 - th^6/5760 + th^8/737280) by (unfold k, w; field).
  rewrite Hk.
  assert (H6 : 0 <= th^6) by (apply pow_le; lra).
  assert (H8 : th^8 <= th^6) by (apply pow_abs_bound; [lra | lia]).
  assert (H8p : 0 <= th^8) by (apply pow_le; lra).
  apply Rabs_le. lra.
Qed.
Lemma so3_taylor_2kk_close th : 0 < th <= 1 ->
  let k := 1/2 - th^2/48 + th^4/3840 in
  Rabs (2 * k * k - (1 - cos th) / (th * th)) <= th^6 / 40000.
Proof.
  intros [H0 H1] k. destruct (cos_taylor8 th ltac:(lra)) as [Hl Hu].
  assert (Hb : (1/2 - th^2/24 + th^4/720 - th^6/40320) <= (1 - cos th) / (th * th) <= (1/2 - th^2/24 + th^4/720)).
  { apply div_between; [nra|]. set (c := cos th) in *. clearbody c. split.
    - apply Rle_trans with (1 - (1 - th^2/2 + th^4/24 - th^6/720 + th^8/40320)); [apply Req_le; field | lra].
    - apply Rle_trans with (1 - (1 - th^2/2 + th^4/24 - th^6/720)); [lra | apply Req_le; field]. }
  set (q := (1 - cos th) / (th * th)) in *. clearbody q.
  assert (Hk : 2 * k * k = 1/2 - th^2/24 + th^4/720 - th^6/46080 + th^8/7372800) by (unfold k; field).
  rewrite Hk.
  assert (H6 : 0 <= th^6) by (apply pow_le; lra).
  assert (H8 : th^8 <= th^6) by (apply pow_abs_bound; [lra | lia]).
  assert (H8p : 0 <= th^8) by (apply pow_le; lra).
  apply Rabs_le. lra.
Qed.

(* ================= matrices  A K + B K^2 + C I  and their entries ================= *)
Definition abc (A B C : R) (x : vec3R) : @mat3 R :=
  madd3 (madd3 (mscale3 A (skew x)) (mscale3 B (mmul3 (skew x) (skew x)))) (mscale3 C mid3).

Lemma lin_bound dA dB dC k k2 d th :
  Rabs k <= th -> Rabs k2 <= th * th -> Rabs d <= 1 ->
  Rabs (dA * k + dB * k2 + dC * d) <= Rabs dA * th + Rabs dB * (th * th) + Rabs dC.
Proof.
  intros Hk Hk2 Hd.
  eapply Rle_trans; [apply Rabs_triang|]. apply Rplus_le_compat; [eapply Rle_trans; [apply Rabs_triang|]; apply Rplus_le_compat|];
    rewrite Rabs_mult.
  - apply Rmult_le_compat_l; [apply Rabs_pos | exact Hk].
  - apply Rmult_le_compat_l; [apply Rabs_pos | exact Hk2].
  - rewrite <- (Rmult_1_r (Rabs dC)) at 2. apply Rmult_le_compat_l; [apply Rabs_pos | exact Hd].
Qed.
Lemma abc_entry_bound (A B C A' B' C' a b c th : R) : 0 <= th -> a * a + b * b + c * c = th * th ->
  forall i j, (i < 3)%nat -> (j < 3)%nat ->
  Rabs (m3get (abc A B C (a, b, c)) i j - m3get (abc A' B' C' (a, b, c)) i j)
    <= Rabs (A - A') * th + Rabs (B - B') * (th * th) + Rabs (C - C').
Proof.
  intros Ht Hn i j Hi Hj.
  assert (Ha : - th <= a <= th) by (split; nra). assert (Hb : - th <= b <= th) by (split; nra).
  assert (Hc : - th <= c <= th) by (split; nra).
  assert (Hab : - (th * th) <= a * b <= th * th) by (split; nra).
  assert (Hac : - (th * th) <= a * c <= th * th) by (split; nra).
  assert (Hbc : - (th * th) <= b * c <= th * th) by (split; nra).
  assert (H1 : Rabs 1 <= 1) by (rewrite Rabs_R1; lra). assert (H0 : Rabs 0 <= 1) by (rewrite Rabs_R0; lra).
  assert (H0t : Rabs 0 <= th) by (rewrite Rabs_R0; lra).
  destruct i as [|[|[|i]]]; try lia; destruct j as [|[|[|j]]]; try lia; unfold abc, m3get; lie_unfold.
  - eapply Rle_trans; [|apply (lin_bound (A - A') (B - B') (C - C') 0 (- (b * b + c * c)) 1 th); auto; apply Rabs_le; nra].
    apply Req_le; f_equal; ring.
  - eapply Rle_trans; [|apply (lin_bound (A - A') (B - B') (C - C') (- c) (a * b) 0 th); auto; apply Rabs_le; lra].
    apply Req_le; f_equal; ring.
  - eapply Rle_trans; [|apply (lin_bound (A - A') (B - B') (C - C') b (a * c) 0 th); auto; apply Rabs_le; lra].
    apply Req_le; f_equal; ring.
  - eapply Rle_trans; [|apply (lin_bound (A - A') (B - B') (C - C') c (a * b) 0 th); auto; apply Rabs_le; lra].
    apply Req_le; f_equal; ring.
  - eapply Rle_trans; [|apply (lin_bound (A - A') (B - B') (C - C') 0 (- (a * a + c * c)) 1 th); auto; apply Rabs_le; nra].
    apply Req_le; f_equal; ring.
  - eapply Rle_trans; [|apply (lin_bound (A - A') (B - B') (C - C') (- a) (b * c) 0 th); auto; apply Rabs_le; lra].
    apply Req_le; f_equal; ring.
  - eapply Rle_trans; [|apply (lin_bound (A - A') (B - B') (C - C') (- b) (a * c) 0 th); auto; apply Rabs_le; lra].
    apply Req_le; f_equal; ring.
  - eapply Rle_trans; [|apply (lin_bound (A - A') (B - B') (C - C') a (b * c) 0 th); auto; apply Rabs_le; lra].
    apply Req_le; f_equal; ring.
  - eapply Rle_trans; [|apply (lin_bound (A - A') (B - B') (C - C') 0 (- (a * a + b * b)) 1 th); auto; apply Rabs_le; nra].
    apply Req_le; f_equal; ring.
Qed.
Lemma abc_entry_bound_v (A B C A' B' C' : R) (x : vec3R) :
  forall i j, (i < 3)%nat -> (j < 3)%nat ->
  Rabs (m3get (abc A B C x) i j - m3get (abc A' B' C' x) i j)
    <= Rabs (A - A') * vnorm x + Rabs (B - B') * (vnorm x * vnorm x) + Rabs (C - C').
Proof.
  pose proof (vnorm_sq x) as Hs. pose proof (vnorm_nonneg x) as Hp. set (th := vnorm x) in *. clearbody th.
  destruct x as [[a b] c]. apply abc_entry_bound; [exact Hp|]. revert Hs. lie_unfold. intros; lra.
Qed.

(* the matrices of the development in abc form *)
Lemma rodrigues_abc (x : vec3R) : rodrigues x = abc (sin (vnorm x) / vnorm x) ((1 - cos (vnorm x)) / (vnorm x * vnorm x)) 1 x.
Proof. unfold rodrigues, abc. set (t := vnorm x). clearbody t. destruct x as [[a b] c]. lie_unfold. split_pairs; ring. Qed.
Lemma V1_abc (x : vec3R) : V1 x = abc ((1 - cos (vnorm x)) / (vnorm x * vnorm x))
                                     ((vnorm x - sin (vnorm x)) / (vnorm x * (vnorm x * vnorm x))) 1 x.
Proof.
  unfold V1, V_th, abc. rewrite !Rmult_1_l. set (t := vnorm x). clearbody t. destruct x as [[a b] c]. lie_unfold.
  split_pairs; ring.
Qed.
Lemma SO3_matrix_abc (k w : R) (x : vec3R) : SO3_matrix (vscale k x, w) = abc (2 * w * k) (2 * k * k) 1 x.
Proof. unfold abc. destruct x as [[a b] c]. lie_unfold. split_pairs; ring. Qed.
Lemma so3_Jl_abc (eps : R) (x : vec3R) : so3_Jl eps x = abc (fst (so3_Jl_coef eps (vnorm x))) (snd (so3_Jl_coef eps (vnorm x))) 1 x.
Proof.
  unfold so3_Jl, abc. set (cf := so3_Jl_coef eps (vnorm x)). clearbody cf. destruct cf as [c1 c2]. cbn [fst snd].
  destruct x as [[a b] c]. lie_unfold. split_pairs; ring.
Qed.

(* ================= so3: the Taylor-branch matrix is within theta^7/3000 of the exponential ================= *)
Theorem so3_exp_taylor_matrix_close (eps : R) (x : vec3R) : 0 < vnorm x <= eps -> eps <= 1 ->
  forall i j, (i < 3)%nat -> (j < 3)%nat ->
  Rabs (m3get (SO3_matrix (so3_exp eps x)) i j - m3get (rodrigues x) i j) <= (vnorm x)^7 / 3000.
Proof.
  intros [H0 He] H1 i j Hi Hj. unfold so3_exp, so3_exp_coef.
  replace (ltb eps (vnorm x)) with false by (symmetry; cbn; now apply Rltb_false).
  cbn [fst snd]. rewrite SO3_matrix_abc, rodrigues_abc.
  eapply Rle_trans; [apply abc_entry_bound_v; assumption|].
  set (th := vnorm x) in *. clearbody th. assert (Ht : 0 < th <= 1) by lra.
  pose proof (so3_taylor_2wk_close th Ht) as HA. pose proof (so3_taylor_2kk_close th Ht) as HB. cbv zeta in HA, HB.
  num_unfold.
  match goal with |- Rabs ?a * th + Rabs ?b * (th * th) + Rabs (1 - 1) <= _ =>
    replace a with (2 * (1 - th ^ 2 / 8 + th ^ 4 / 384) * (1 / 2 - th ^ 2 / 48 + th ^ 4 / 3840) - sin th / th) by (field; lra);
    replace b with (2 * (1 / 2 - th ^ 2 / 48 + th ^ 4 / 3840) * (1 / 2 - th ^ 2 / 48 + th ^ 4 / 3840) - (1 - cos th) / (th * th))
      by (field; lra) end.
  rewrite (Rminus_diag_eq 1 1), Rabs_R0 by reflexivity.
  set (ra := Rabs _) in *. set (rb := Rabs _) in HB |- *. clearbody ra rb.
  assert (Ha : ra * th <= th ^ 6 / 5000 * th) by (apply Rmult_le_compat_r; lra).
  assert (Hb : rb * (th * th) <= th ^ 6 / 40000 * (th * th)) by (apply Rmult_le_compat_r; nra).
  assert (H87 : th ^ 8 <= th ^ 7) by (apply pow_abs_bound; [lra | lia]).
  assert (H7 : 0 <= th ^ 7) by (apply pow_le; lra).
  lra.
Qed.

(* ================= se3: the Taylor branch of so3_Jl is within theta^5/600 of V1 ================= *)
Theorem so3_Jl_taylor_close (eps : R) (x : vec3R) : 0 < vnorm x <= eps -> eps <= 1 ->
  forall i j, (i < 3)%nat -> (j < 3)%nat ->
  Rabs (m3get (so3_Jl eps x) i j - m3get (V1 x) i j) <= (vnorm x)^5 / 600.
Proof.
  intros [H0 He] H1 i j Hi Hj. rewrite so3_Jl_abc, V1_abc.
  eapply Rle_trans; [apply abc_entry_bound_v; assumption|]. unfold so3_Jl_coef.
  replace (ltb eps (vnorm x)) with false by (symmetry; cbn; now apply Rltb_false).
  cbn [fst snd]. set (th := vnorm x) in *. clearbody th. assert (Ht : 0 < th <= 1) by lra.
  pose proof (so3_Jl_coef1_close th Ht) as HA. pose proof (so3_Jl_coef2_close th Ht) as HB.
  num_unfold. rewrite (Rminus_diag_eq 1 1), Rabs_R0 by reflexivity.
  assert (Ha : Rabs (1 / 2 - 1 / 24 * (th * th) - (1 - cos th) / (th * th)) <= th ^ 4 / 720) by (apply Rabs_le; lra).
  assert (Hb : Rabs (1 / 6 - 1 / 120 * (th * th) - (th - sin th) / (th * (th * th))) <= th ^ 4 / 5040) by (apply Rabs_le; lra).
  set (ra := Rabs _) in Ha |- *. set (rb := Rabs _) in Hb |- *. clearbody ra rb.
  assert (Ha' : ra * th <= th ^ 4 / 720 * th) by (apply Rmult_le_compat_r; lra).
  assert (Hb' : rb * (th * th) <= th ^ 4 / 5040 * (th * th)) by (apply Rmult_le_compat_r; nra).
  assert (H65 : th ^ 6 <= th ^ 5) by (apply pow_abs_bound; [lra | lia]).
  assert (H5 : 0 <= th ^ 5) by (apply pow_le; lra).
  lra.
Qed.

(* entry bounds on a matrix give bounds on the vector it maps tau to *)
Definition norm1 (v : vec3R) : R := Rabs (vx v) + Rabs (vy v) + Rabs (vz v).
Lemma lin3_bound d0 d1 d2 t0 t1 t2 B : Rabs d0 <= B -> Rabs d1 <= B -> Rabs d2 <= B ->
  Rabs (d0 * t0 + d1 * t1 + d2 * t2) <= B * (Rabs t0 + Rabs t1 + Rabs t2).
Proof.
  intros H0 H1 H2. eapply Rle_trans; [apply Rabs_triang|]. rewrite !Rmult_plus_distr_l.
  apply Rplus_le_compat; [eapply Rle_trans; [apply Rabs_triang|]; apply Rplus_le_compat|];
    rewrite Rabs_mult; apply Rmult_le_compat_r; auto using Rabs_pos.
Qed.
Lemma mvmul_entry_bound (M M' : @mat3 R) (tau : vec3R) (B : R) :
  (forall i j, (i < 3)%nat -> (j < 3)%nat -> Rabs (m3get M i j - m3get M' i j) <= B) ->
  forall i, (i < 3)%nat -> Rabs (vc i (mvmul M tau) - vc i (mvmul M' tau)) <= B * norm1 tau.
Proof.
  intros H i Hi.
  pose proof (H 0%nat 0%nat ltac:(lia) ltac:(lia)) as H00. pose proof (H 0%nat 1%nat ltac:(lia) ltac:(lia)) as H01.
  pose proof (H 0%nat 2%nat ltac:(lia) ltac:(lia)) as H02. pose proof (H 1%nat 0%nat ltac:(lia) ltac:(lia)) as H10.
  pose proof (H 1%nat 1%nat ltac:(lia) ltac:(lia)) as H11. pose proof (H 1%nat 2%nat ltac:(lia) ltac:(lia)) as H12.
  pose proof (H 2%nat 0%nat ltac:(lia) ltac:(lia)) as H20. pose proof (H 2%nat 1%nat ltac:(lia) ltac:(lia)) as H21.
  pose proof (H 2%nat 2%nat ltac:(lia) ltac:(lia)) as H22. clear H.
  destruct M as [[[[p0 p1] p2] [[q0 q1] q2]] [[r0 r1] r2]]. destruct M' as [[[[p0' p1'] p2'] [[q0' q1'] q2']] [[r0' r1'] r2']].
  destruct tau as [[t0 t1] t2]. unfold norm1, m3get, vc in *. lie_unfold.
  destruct i as [|[|[|i]]]; try lia.
  - eapply Rle_trans; [|apply (lin3_bound (p0 - p0') (p1 - p1') (p2 - p2') t0 t1 t2 B); assumption]. apply Req_le; f_equal; ring.
  - eapply Rle_trans; [|apply (lin3_bound (q0 - q0') (q1 - q1') (q2 - q2') t0 t1 t2 B); assumption]. apply Req_le; f_equal; ring.
  - eapply Rle_trans; [|apply (lin3_bound (r0 - r0') (r1 - r1') (r2 - r2') t0 t1 t2 B); assumption]. apply Req_le; f_equal; ring.
Qed.
Corollary se3_exp_taylor_translation_close (eps : R) (tau phi : vec3R) : 0 < vnorm phi <= eps -> eps <= 1 ->
  forall i, (i < 3)%nat ->
  Rabs (vc i (fst (se3_exp eps (tau, phi))) - vc i (mvmul (V1 phi) tau)) <= (vnorm phi)^5 / 600 * norm1 tau.
Proof.
  intros H He i Hi. unfold se3_exp. cbn [fst snd]. apply mvmul_entry_bound; [|exact Hi].
  intros i' j' Hi' Hj'. now apply so3_Jl_taylor_close.
Qed.

(* ================= sim3: coefficient functions of Ws along t (phi, sigma), their derivatives ================= *)
Definition At (sg th t : R) : R :=
  (exp (t * sg) * sin (t * th) * sg + (1 - exp (t * sg) * cos (t * th)) * th) / (th * (th * th + sg * sg)).
Definition Bt (sg th t : R) : R :=
  ((exp (t * sg) - 1) / sg - ((exp (t * sg) * cos (t * th) - 1) * sg + exp (t * sg) * sin (t * th) * th) / (th * th + sg * sg))
  / (th * th).
Definition Cs (sg t : R) : R := (exp (t * sg) - 1) / sg.
Lemma Ws_th_abc sg th x t : Ws_th sg th x t = abc (At sg th t) (Bt sg th t) (Cs sg t) x.
Proof. reflexivity. Qed.

Lemma mvt_bound (f df : R -> R) (M : R) :
  (forall t, is_derive f t (df t)) -> (forall t, 0 <= t <= 1 -> Rabs (df t) <= M) -> Rabs (f 1 - f 0) <= M.
Proof.
  intros Hd Hb.
  destruct (MVT_gen f 0 1 df) as (c & Hc & He).
  - intros x _. apply Hd.
  - intros x _. apply continuity_pt_filterlim, (ex_derive_continuous f x). eexists; apply Hd.
  - rewrite Rmin_left, Rmax_right in Hc by lra. rewrite He, Rminus_0_r, Rmult_1_r. now apply Hb.
Qed.
Lemma exp_t_bound sg t : Rabs sg <= 1/2 -> 0 <= t <= 1 -> Rabs (exp (t * sg) - 1) <= 2 * Rabs sg.
Proof.
  intros Hs Ht. assert (H : Rabs (t * sg) <= Rabs sg).
  { rewrite Rabs_mult, (Rabs_pos_eq t) by lra. pose proof (Rabs_pos sg). nra. }
  eapply Rle_trans; [apply exp_m1_bound; lra|]. lra.
Qed.

Lemma At_derive sg th t : th <> 0 -> is_derive (At sg th) t (exp (t * sg) * (sin (t * th) / th)).
Proof.
  intros H. pose proof (sq_sum_pos th sg H) as Hc. unfold At. auto_derive; [exact I|]. field. split; auto.
Qed.
Lemma Bt_derive sg th t : th <> 0 -> sg <> 0 -> is_derive (Bt sg th) t (exp (t * sg) * ((1 - cos (t * th)) / (th * th))).
Proof.
  intros H Hs. pose proof (sq_sum_pos th sg H) as Hc. unfold Bt. auto_derive; [exact I|]. field. repeat split; auto.
Qed.
Lemma Cs_derive sg t : sg <> 0 -> is_derive (Cs sg) t (exp (t * sg)).
Proof. intros Hs. unfold Cs. auto_derive; [exact I|]. field. auto. Qed.
Lemma At_0 sg th : th <> 0 -> At sg th 0 = 0.
Proof. intros H. pose proof (sq_sum_pos th sg H) as Hc. unfold At. rewrite !Rmult_0_l, sin_0, cos_0, exp_0. field. split; auto. Qed.
Lemma Bt_0 sg th : th <> 0 -> sg <> 0 -> Bt sg th 0 = 0.
Proof. intros H Hs. pose proof (sq_sum_pos th sg H) as Hc. unfold Bt. rewrite !Rmult_0_l, sin_0, cos_0, exp_0. field. repeat split; auto. Qed.
Lemma Cs_1 sg : sg <> 0 -> Cs sg 1 = Cex sg.
Proof. intros H. unfold Cs. rewrite Rmult_1_l. symmetry. now apply Cex_nz. Qed.

Lemma traj_bound (F G dF dG : R -> R) (M : R) :
  (forall t, is_derive F t (dF t)) -> (forall t, is_derive G t (dG t)) -> F 0 = G 0 ->
  (forall t, 0 <= t <= 1 -> Rabs (dF t - dG t) <= M) -> Rabs (F 1 - G 1) <= M.
Proof.
  intros HF HG H0 Hb.
  pose proof (mvt_bound (fun t => F t - G t) (fun t => dF t - dG t) M) as H.
  replace (F 1 - G 1) with ((F 1 - G 1) - (F 0 - G 0)) by (rewrite H0; ring). apply H; [|exact Hb].
  intros t. exact (is_derive_minus F G t (dF t) (dG t) (HF t) (HG t)).
Qed.
Lemma perturbed_product e q g E Q D : Rabs (e - 1) <= E -> Rabs q <= Q -> Rabs (q - g) <= D ->
  Rabs (e * q - g) <= E * Q + D.
Proof.
  intros He Hq Hd. replace (e * q - g) with ((e - 1) * q + (q - g)) by ring.
  eapply Rle_trans; [apply Rabs_triang|]. apply Rplus_le_compat; [|exact Hd].
  rewrite Rabs_mult. apply Rmult_le_compat; auto using Rabs_pos.
Qed.

(* trajectories of the se3 coefficients *)
Lemma aV_derive th t : th <> 0 -> is_derive (fun t => (1 - cos (t * th)) / (th * th)) t (sin (t * th) / th).
Proof. intros H. auto_derive; [exact I|]. field. auto. Qed.
Lemma bV_derive th t : th <> 0 ->
  is_derive (fun t => (t * th - sin (t * th)) / (th * (th * th))) t ((1 - cos (t * th)) / (th * th)).
Proof. intros H. auto_derive; [exact I|]. field. auto. Qed.

(* ---- regime |sigma| <= eps < theta:  model coefficients = se3 coefficients, true ones = At, Bt, Cs at t = 1 *)
Lemma Ws_coef_small_sigma sg th : 0 < th -> sg <> 0 -> Rabs sg <= 1/2 ->
  Rabs ((1 - cos th) / (th * th) - At sg th 1) * th <= 2 * Rabs sg /\
  Rabs ((th - sin th) / (th * (th * th)) - Bt sg th 1) * (th * th) <= 4 * Rabs sg /\
  Rabs (1 - Cs sg 1) <= 2 * Rabs sg.
Proof.
  intros Ht Hs Hsg. assert (Hth : th <> 0) by lra. pose proof (Rabs_pos sg) as Hsp.
  split; [|split].
  - rewrite Rabs_minus_sym. apply Rle_div_r; [lra|].
    pose proof (traj_bound (At sg th) (fun t => (1 - cos (t * th)) / (th * th))
                  (fun t => exp (t * sg) * (sin (t * th) / th)) (fun t => sin (t * th) / th) (2 * Rabs sg / th)) as H.
    cbv beta in H. rewrite Rmult_1_l in H. apply H; clear H.
    + intros t. now apply At_derive.
    + intros t. now apply aV_derive.
    + rewrite At_0 by assumption. rewrite Rmult_0_l, cos_0. field. auto.
    + intros t Htt. replace (exp (t * sg) * (sin (t * th) / th) - sin (t * th) / th)
        with ((exp (t * sg) - 1) * sin (t * th) / th) by (field; auto).
      unfold Rdiv. rewrite Rabs_mult, Rabs_Rinv, (Rabs_pos_eq th) by lra.
      apply Rmult_le_compat_r; [left; apply Rinv_0_lt_compat; lra|].
      rewrite Rabs_mult. rewrite <- (Rmult_1_r (2 * Rabs sg)).
      apply Rmult_le_compat; auto using Rabs_pos; [now apply exp_t_bound|].
      apply Rabs_le. pose proof (SIN_bound (t * th)). lra.
  - rewrite Rabs_minus_sym. assert (Hp : 0 < th * th) by nra. apply Rle_div_r; [lra|].
    pose proof (traj_bound (Bt sg th) (fun t => (t * th - sin (t * th)) / (th * (th * th)))
                  (fun t => exp (t * sg) * ((1 - cos (t * th)) / (th * th))) (fun t => (1 - cos (t * th)) / (th * th))
                  (4 * Rabs sg / (th * th))) as H.
    cbv beta in H. rewrite !Rmult_1_l in H. apply H; clear H.
    + intros t. now apply Bt_derive.
    + intros t. now apply bV_derive.
    + rewrite Bt_0 by assumption. rewrite !Rmult_0_l, sin_0. field. auto.
    + intros t Htt. replace (exp (t * sg) * ((1 - cos (t * th)) / (th * th)) - (1 - cos (t * th)) / (th * th))
        with ((exp (t * sg) - 1) * (1 - cos (t * th)) / (th * th)) by (field; auto).
      unfold Rdiv. rewrite Rabs_mult, Rabs_Rinv, (Rabs_pos_eq (th * th)) by lra.
      apply Rmult_le_compat_r; [left; apply Rinv_0_lt_compat; lra|].
      rewrite Rabs_mult. replace (4 * Rabs sg) with (2 * Rabs sg * 2) by ring.
      apply Rmult_le_compat; auto using Rabs_pos; [now apply exp_t_bound|].
      apply Rabs_le. pose proof (COS_bound (t * th)). lra.
  - rewrite Cs_1 by assumption. rewrite Rabs_minus_sym. now apply Cex_close.
Qed.

Theorem rxso3_Ws_small_sigma_close (eps : R) (phi : vec3R) (sg : R) :
  0 <= eps -> eps < vnorm phi -> Rabs sg <= eps -> eps <= 1/2 ->
  forall i j, (i < 3)%nat -> (j < 3)%nat ->
  Rabs (m3get (rxso3_Ws eps (phi, sg)) i j - m3get (mexp_Vmat phi sg) i j) <= 8 * Rabs sg.
Proof.
  intros He H Hs He2 i j Hi Hj. rewrite rxso3_Ws_small_sigma by assumption. unfold mexp_Vmat.
  destruct (Req_EM_T (vnorm phi) 0) as [Hz|Hz]; [lra|].
  destruct (Req_EM_T sg 0) as [->|Hsg].
  - rewrite Rminus_diag_eq by reflexivity. rewrite !Rabs_R0. lra.
  - unfold Ws1. rewrite Ws_th_abc, V1_abc.
    eapply Rle_trans; [apply abc_entry_bound_v; assumption|].
    assert (Hp : 0 < vnorm phi) by lra. assert (Hh : Rabs sg <= 1/2) by lra.
    destruct (Ws_coef_small_sigma sg (vnorm phi) Hp Hsg Hh) as (HA & HB & HC). lra.
Qed.

(* ---- regime theta <= eps, |sigma| <= eps:  model coefficients 1/2, 1/6, 1 *)
Lemma sin_over_th_bounds th t : 0 < th <= 1 -> 0 <= t <= 1 ->
  t - th * th / 6 <= sin (t * th) / th <= t /\ 0 <= sin (t * th) / th.
Proof.
  intros Ht Htt. assert (Hu : 0 <= t * th <= 1) by nra.
  destruct (sin_taylor3 (t * th) Hu) as [Hl Hh].
  assert (Ht3 : t ^ 3 <= 1) by (replace 1 with (t ^ 0) by reflexivity; apply pow_abs_bound; [lra | lia]).
  assert (Ht3p : 0 <= t ^ 3) by (apply pow_le; lra).
  assert (Hb : t - t ^ 3 * (th * th) / 6 <= sin (t * th) / th <= t).
  { apply div_between; [lra|]. split; [eapply Rle_trans; [|apply Hl]; apply Req_le; field | lra]. }
  assert (Hq : t ^ 3 * (th * th) <= th * th) by nra.
  assert (Htt1 : t * t <= 1) by nra. assert (Hth1 : th * th <= 1) by nra.
  assert (Hm : (t * t) * (th * th) <= 1) by (replace 1 with (1 * 1) by ring; apply Rmult_le_compat; nra).
  assert (Hq2 : t ^ 3 * (th * th) <= t) by (replace (t ^ 3 * (th * th)) with (t * ((t * t) * (th * th))) by ring; nra).
  split; [lra|]. lra.
Qed.
Lemma omcos_over_th2_bounds th t : 0 < th <= 1 -> 0 <= t <= 1 ->
  t * t / 2 - th * th / 24 <= (1 - cos (t * th)) / (th * th) <= t * t / 2 /\ 0 <= (1 - cos (t * th)) / (th * th).
Proof.
  intros Ht Htt. assert (Hu : -1 <= t * th <= 1) by nra.
  destruct (cos_taylor4 (t * th) Hu) as [Hl Hh].
  assert (Ht4 : t ^ 4 <= 1) by (replace 1 with (t ^ 0) by reflexivity; apply pow_abs_bound; [lra | lia]).
  assert (Ht4p : 0 <= t ^ 4) by (apply pow_le; lra).
  assert (Hp : 0 < th * th) by nra.
  assert (Hb : t * t / 2 - t ^ 4 * (th * th) / 24 <= (1 - cos (t * th)) / (th * th) <= t * t / 2).
  { apply div_between; [lra|]. set (c := cos (t * th)) in *. clearbody c. split.
    - apply Rle_trans with (1 - (1 - (t * th) ^ 2 / 2 + (t * th) ^ 4 / 24)); [apply Req_le; field | lra].
    - apply Rle_trans with (1 - (1 - (t * th) ^ 2 / 2)); [lra | apply Req_le; field]. }
  assert (Hq : t ^ 4 * (th * th) <= th * th) by nra.
  split; [lra|]. pose proof (COS_bound (t * th)) as [_ Hc]. apply Rle_div_r; [lra|]. lra.
Qed.
Lemma Ws_coef_small_both sg th : 0 < th <= 1 -> sg <> 0 -> Rabs sg <= 1/2 ->
  Rabs (1/2 - At sg th 1) <= 2 * Rabs sg + th * th / 6 /\
  Rabs (1/6 - Bt sg th 1) <= Rabs sg + th * th / 24 /\
  Rabs (1 - Cs sg 1) <= 2 * Rabs sg.
Proof.
  intros Ht Hs Hsg. assert (Hth : th <> 0) by lra. pose proof (Rabs_pos sg) as Hsp.
  split; [|split].
  - rewrite Rabs_minus_sym.
    pose proof (traj_bound (At sg th) (fun t => t * t / 2)
                  (fun t => exp (t * sg) * (sin (t * th) / th)) (fun t => t) (2 * Rabs sg + th * th / 6)) as H.
    cbv beta in H. replace (1 * 1 / 2) with (1 / 2) in H by field. apply H; clear H.
    + intros t. now apply At_derive.
    + intros t. auto_derive; [exact I | field].
    + rewrite At_0 by assumption. field.
    + intros t Htt. destruct (sin_over_th_bounds th t Ht Htt) as [[Hl Hu] H0].
      replace (2 * Rabs sg + th * th / 6) with (2 * Rabs sg * 1 + th * th / 6) by ring.
      apply perturbed_product; [now apply exp_t_bound | apply Rabs_le; lra | apply Rabs_le; lra].
  - rewrite Rabs_minus_sym.
    pose proof (traj_bound (Bt sg th) (fun t => t * t * t / 6)
                  (fun t => exp (t * sg) * ((1 - cos (t * th)) / (th * th))) (fun t => t * t / 2) (Rabs sg + th * th / 24)) as H.
    cbv beta in H. replace (1 * 1 * 1 / 6) with (1 / 6) in H by field. apply H; clear H.
    + intros t. now apply Bt_derive.
    + intros t. auto_derive; [exact I | field].
    + rewrite Bt_0 by assumption. field.
    + intros t Htt. destruct (omcos_over_th2_bounds th t Ht Htt) as [[Hl Hu] H0].
      replace (Rabs sg + th * th / 24) with (2 * Rabs sg * (1/2) + th * th / 24) by field.
      apply perturbed_product; [now apply exp_t_bound | apply Rabs_le; nra | apply Rabs_le; lra].
  - rewrite Cs_1 by assumption. rewrite Rabs_minus_sym. now apply Cex_close.
Qed.

Lemma rxso3_Ws_small_both_abc (eps : R) (phi : vec3R) (sg : R) : vnorm phi <= eps -> Rabs sg <= eps ->
  rxso3_Ws eps (phi, sg) = abc (1/2) (1/6) 1 phi.
Proof.
  intros H Hs. unfold rxso3_Ws, rxso3_Ws_coef, abc. cbn [fst snd].
  replace (ltb eps (vnorm phi)) with false by (symmetry; cbn; now apply Rltb_false).
  replace (ltb eps (absF sg)) with false by (symmetry; rewrite absF_Rabs; cbn; now apply Rltb_false).
  destruct phi as [[a b] c]. lie_unfold. split_pairs; field.
Qed.
Lemma scale_id_abc (C : R) (x : vec3R) : mscale3 C mid3 = abc 0 0 C x.
Proof. unfold abc. destruct x as [[a b] c]. lie_unfold. split_pairs; ring. Qed.

Theorem rxso3_Ws_small_both_close (eps : R) (phi : vec3R) (sg : R) :
  0 <= eps -> vnorm phi <= eps -> Rabs sg <= eps -> eps <= 1/4 ->
  forall i j, (i < 3)%nat -> (j < 3)%nat ->
  Rabs (m3get (rxso3_Ws eps (phi, sg)) i j - m3get (mexp_Vmat phi sg) i j) <= 3 * Rabs sg + (vnorm phi)^3 / 5.
Proof.
  intros He H Hs He2 i j Hi Hj. pose proof (vnorm_nonneg phi) as Hp. pose proof (Rabs_pos sg) as Hsp.
  assert (Hs2 : Rabs sg <= 1/2) by lra.
  assert (H3 : 0 <= (vnorm phi)^3) by (apply pow_le; lra).
  unfold mexp_Vmat. destruct (Req_EM_T (vnorm phi) 0) as [Hz|Hz].
  - rewrite rxso3_Ws_zero_rotation, Ws_C_model_small by assumption.
    rewrite (scale_id_abc 1 phi), (scale_id_abc (Cex sg) phi).
    eapply Rle_trans; [apply abc_entry_bound_v; assumption|].
    rewrite Rminus_diag_eq, Rabs_R0 by reflexivity. pose proof (Cex_close sg Hs2) as Hc. rewrite Rabs_minus_sym in Hc. lra.
  - rewrite rxso3_Ws_small_both_abc by assumption. set (th := vnorm phi) in *.
    assert (Ht : 0 < th <= 1) by lra. assert (Ht4 : th <= 1/4) by lra.
    assert (H43 : th ^ 4 <= th ^ 3 / 4) by (replace (th ^ 4) with (th ^ 3 * th) by ring; nra).
    destruct (Req_EM_T sg 0) as [Hsg|Hsg].
    + rewrite V1_abc. fold th. eapply Rle_trans; [apply abc_entry_bound_v; assumption|]. fold th.
      rewrite (Rminus_diag_eq 1 1), Rabs_R0 by reflexivity.
      pose proof (so3_Jl_coef1_close th Ht) as HA. pose proof (so3_Jl_coef2_close th Ht) as HB.
      assert (H4 : 0 <= th ^ 4) by (apply pow_le; lra).
      assert (H41 : th ^ 4 <= th ^ 2) by (apply pow_abs_bound; [lra | lia]).
      assert (Ha : Rabs (1 / 2 - (1 - cos th) / (th * th)) <= th * th / 24) by (apply Rabs_le; lra).
      assert (Hb : Rabs (1 / 6 - (th - sin th) / (th * (th * th))) <= th * th / 120) by (apply Rabs_le; lra).
      set (ra := Rabs _) in Ha |- *. set (rb := Rabs _) in Hb |- *. clearbody ra rb.
      assert (Ha' : ra * th <= th * th / 24 * th) by (apply Rmult_le_compat_r; lra).
      assert (Hb' : rb * (th * th) <= th * th / 120 * (th * th)) by (apply Rmult_le_compat_r; nra).
      lra.
    + unfold Ws1. fold th. rewrite Ws_th_abc. eapply Rle_trans; [apply abc_entry_bound_v; assumption|]. fold th.
      destruct (Ws_coef_small_both sg th Ht Hsg Hs2) as (HA & HB & HC).
      set (ra := Rabs _) in HA |- *. set (rb := Rabs _) in HB |- *. set (rc := Rabs _) in HC |- *. clearbody ra rb rc.
      set (s := Rabs sg) in *. clearbody s.
      assert (Ha' : ra * th <= (2 * s + th * th / 6) * th) by (apply Rmult_le_compat_r; lra).
      assert (Hb' : rb * (th * th) <= (s + th * th / 24) * (th * th)) by (apply Rmult_le_compat_r; nra).
      assert (Hs1 : s * th <= s / 4) by nra. assert (Hs3 : s * (th * th) <= s / 16) by nra.
      lra.
Qed.

(* ================= regime theta <= eps < |sigma| (condition3 of rxso3_Ws) ================= *)
(* the coefficients the code uses there: A3, B3 and C = (e^sigma - 1)/sigma are the theta -> 0 limits of the true
   coefficients, i.e. the integrals of s e^{s sigma}, s^2/2 e^{s sigma}, e^{s sigma} over [0,1] *)
Definition A3 (sg : R) : R := (1 + (sg - 1) * exp sg) / (sg * sg).
Definition B3 (sg : R) : R := (1/2 * (sg * sg) * exp sg + exp sg - 1 - sg * exp sg) / (sg * sg * sg).
Lemma rxso3_Ws_regime3_abc (eps : R) (phi : vec3R) (sg : R) : vnorm phi <= eps -> eps < Rabs sg ->
  rxso3_Ws eps (phi, sg) = abc (A3 sg) (B3 sg) ((exp sg - 1) / sg) phi.
Proof.
  intros H Hs. unfold rxso3_Ws, rxso3_Ws_coef, abc, A3, B3. cbn [fst snd].
  replace (ltb eps (vnorm phi)) with false by (symmetry; cbn; now apply Rltb_false).
  replace (ltb eps (absF sg)) with true by (symmetry; rewrite absF_Rabs; cbn; now apply Rltb_true).
  cbn [texp tsin tcos TransR]. destruct phi as [[a b] c]. lie_unfold. split_pairs; ring.
Qed.

Lemma exp_le' x y : x <= y -> exp x <= exp y.
Proof. intros H. destruct H as [H|H]; [left; now apply exp_increasing | right; now rewrite H]. Qed.
Lemma exp_t_le sg t : 0 <= t <= 1 -> exp (t * sg) <= exp (Rabs sg).
Proof.
  intros Ht. apply exp_le'. pose proof (Rabs_pos sg) as Hp.
  destruct (Rle_dec 0 sg); [rewrite (Rabs_pos_eq sg) in * by lra; nra | nra].
Qed.
(* trajectories whose values at t = 1 are A3, B3 and whose derivatives are t e^{t sigma}, t^2/2 e^{t sigma} *)
Definition A3t (sg t : R) : R := (1 + (t * sg - 1) * exp (t * sg)) / (sg * sg).
Definition B3t (sg t : R) : R := (exp (t * sg) * (t * t * (sg * sg) / 2 - t * sg + 1) - 1) / (sg * sg * sg).
Lemma A3t_derive sg t : sg <> 0 -> is_derive (A3t sg) t (exp (t * sg) * t).
Proof. intros H. unfold A3t. auto_derive; [exact I|]. field. auto. Qed.
Lemma B3t_derive sg t : sg <> 0 -> is_derive (B3t sg) t (exp (t * sg) * (t * t / 2)).
Proof. intros H. unfold B3t. auto_derive; [exact I|]. field. auto. Qed.
Lemma A3t_01 sg : sg <> 0 -> A3t sg 0 = 0 /\ A3t sg 1 = A3 sg.
Proof. intros H. unfold A3t, A3. rewrite Rmult_0_l, exp_0, !Rmult_1_l. split; [field; auto | reflexivity]. Qed.
Lemma B3t_01 sg : sg <> 0 -> B3t sg 0 = 0 /\ B3t sg 1 = B3 sg.
Proof. intros H. unfold B3t, B3. rewrite !Rmult_0_l, exp_0, !Rmult_1_l. split; field; auto. Qed.
(* literally: A3, B3, C are the integrals over [0,1] *)
Lemma A3_is_integral sg : sg <> 0 -> is_RInt (fun s => exp (s * sg) * s) 0 1 (A3 sg).
Proof.
  intros H. destruct (A3t_01 sg H) as [H0 H1].
  replace (A3 sg) with (minus (A3t sg 1) (A3t sg 0)) by (rewrite H0, H1; unfold minus, plus, opp; cbn; ring).
  apply (is_RInt_derive (A3t sg) (fun s => exp (s * sg) * s)).
  - intros x _. now apply A3t_derive.
  - intros x _. apply (ex_derive_continuous (fun s => exp (s * sg) * s)). auto_derive. exact I.
Qed.
Lemma B3_is_integral sg : sg <> 0 -> is_RInt (fun s => exp (s * sg) * (s * s / 2)) 0 1 (B3 sg).
Proof.
  intros H. destruct (B3t_01 sg H) as [H0 H1].
  replace (B3 sg) with (minus (B3t sg 1) (B3t sg 0)) by (rewrite H0, H1; unfold minus, plus, opp; cbn; ring).
  apply (is_RInt_derive (B3t sg) (fun s => exp (s * sg) * (s * s / 2))).
  - intros x _. now apply B3t_derive.
  - intros x _. apply (ex_derive_continuous (fun s => exp (s * sg) * (s * s / 2))). auto_derive. exact I.
Qed.
Lemma C3_is_integral sg : sg <> 0 -> is_RInt (fun s => exp (s * sg)) 0 1 ((exp sg - 1) / sg).
Proof.
  intros H.
  replace ((exp sg - 1) / sg) with (minus (Cs sg 1) (Cs sg 0))
    by (unfold Cs, minus, plus, opp; cbn; rewrite Rmult_0_l, Rmult_1_l, exp_0; field; auto).
  apply (is_RInt_derive (Cs sg) (fun s => exp (s * sg))).
  - intros x _. now apply Cs_derive.
  - intros x _. apply (ex_derive_continuous (fun s => exp (s * sg))). auto_derive. exact I.
Qed.

Lemma Ws_coef_regime3 sg th : 0 < th <= 1 -> sg <> 0 ->
  Rabs (A3 sg - At sg th 1) <= exp (Rabs sg) * (th * th / 6) /\
  Rabs (B3 sg - Bt sg th 1) <= exp (Rabs sg) * (th * th / 24) /\
  Rabs (0 - Bt sg th 1) <= exp (Rabs sg) * (1/2).
Proof.
  intros Ht Hs. assert (Hth : th <> 0) by lra. split; [|split].
  - rewrite Rabs_minus_sym. destruct (A3t_01 sg Hs) as [H0 H1]. rewrite <- H1.
    apply (traj_bound (At sg th) (A3t sg) (fun t => exp (t * sg) * (sin (t * th) / th)) (fun t => exp (t * sg) * t)).
    + intros t. now apply At_derive.
    + intros t. now apply A3t_derive.
    + rewrite At_0, H0 by assumption. reflexivity.
    + intros t Htt. destruct (sin_over_th_bounds th t Ht Htt) as [[Hl Hu] Hp].
      rewrite <- Rmult_minus_distr_l, Rabs_mult, (Rabs_pos_eq (exp (t * sg))) by (left; apply exp_pos).
      apply Rmult_le_compat; [left; apply exp_pos | apply Rabs_pos | now apply exp_t_le | apply Rabs_le; lra].
  - rewrite Rabs_minus_sym. destruct (B3t_01 sg Hs) as [H0 H1]. rewrite <- H1.
    apply (traj_bound (Bt sg th) (B3t sg) (fun t => exp (t * sg) * ((1 - cos (t * th)) / (th * th))) (fun t => exp (t * sg) * (t * t / 2))).
    + intros t. now apply Bt_derive.
    + intros t. now apply B3t_derive.
    + rewrite Bt_0, H0 by assumption. reflexivity.
    + intros t Htt. destruct (omcos_over_th2_bounds th t Ht Htt) as [[Hl Hu] Hp].
      rewrite <- Rmult_minus_distr_l, Rabs_mult, (Rabs_pos_eq (exp (t * sg))) by (left; apply exp_pos).
      apply Rmult_le_compat; [left; apply exp_pos | apply Rabs_pos | now apply exp_t_le | apply Rabs_le; lra].
  - rewrite Rminus_0_l, Rabs_Ropp.
    pose proof (mvt_bound (Bt sg th) (fun t => exp (t * sg) * ((1 - cos (t * th)) / (th * th))) (exp (Rabs sg) * (1/2))) as H.
    rewrite Bt_0, Rminus_0_r in H by assumption. apply H; clear H.
    + intros t. now apply Bt_derive.
    + intros t Htt. destruct (omcos_over_th2_bounds th t Ht Htt) as [[Hl Hu] H0].
      rewrite Rabs_mult, (Rabs_pos_eq (exp (t * sg))) by (left; apply exp_pos).
      apply Rmult_le_compat; [left; apply exp_pos | apply Rabs_pos | now apply exp_t_le | apply Rabs_le; nra].
Qed.
(* the (repaired) model is within exp|sigma| (theta^3/6 + theta^4/24) of the exponential in this regime *)
Theorem rxso3_Ws_regime3_close (eps : R) (phi : vec3R) (sg : R) : 0 < vnorm phi <= eps -> eps < Rabs sg -> eps <= 1 ->
  forall i j, (i < 3)%nat -> (j < 3)%nat ->
  Rabs (m3get (rxso3_Ws eps (phi, sg)) i j - m3get (mexp_Vmat phi sg) i j)
    <= exp (Rabs sg) * ((vnorm phi)^3 / 6 + (vnorm phi)^4 / 24).
Proof.
  intros [H0 H] Hs He i j Hi Hj. rewrite rxso3_Ws_regime3_abc by assumption.
  assert (Hsg : sg <> 0) by (intros ->; rewrite Rabs_R0 in Hs; lra).
  unfold mexp_Vmat. destruct (Req_EM_T (vnorm phi) 0) as [Hz|_]; [lra|]. destruct (Req_EM_T sg 0) as [Hz|_]; [contradiction|].
  unfold Ws1. rewrite Ws_th_abc. eapply Rle_trans; [apply abc_entry_bound_v; assumption|].
  set (th := vnorm phi) in *. assert (Ht : 0 < th <= 1) by lra.
  destruct (Ws_coef_regime3 sg th Ht Hsg) as (HA & HB & _).
  replace (Cs sg 1) with ((exp sg - 1) / sg) by (unfold Cs; now rewrite Rmult_1_l).
  rewrite (Rminus_diag_eq ((exp sg - 1) / sg)), Rabs_R0 by reflexivity.
  set (ra := Rabs _) in HA |- *. set (rb := Rabs _) in HB |- *. clearbody ra rb.
  pose proof (exp_pos (Rabs sg)) as Hep. set (e := exp (Rabs sg)) in *. clearbody e.
  assert (Ha' : ra * th <= e * (th * th / 6) * th) by (apply Rmult_le_compat_r; lra).
  assert (Hb' : rb * (th * th) <= e * (th * th / 24) * (th * th)) by (apply Rmult_le_compat_r; nra).
  replace (e * (th ^ 3 / 6 + th ^ 4 / 24)) with (e * (th * th / 6) * th + e * (th * th / 24) * (th * th)) by field. lra.
Qed.

(* ---- history: the branch as coded before the repair in /repo (rxso3_Ws_B3_old: sigma^2 e^sigma where B3 has sigma e^sigma).
   Ws_old_regime3 is the matrix rxso3_Ws returned then for theta <= eps < |sigma| *)
Definition B3c (sg : R) : R := (1/2 * (sg * sg) * exp sg + exp sg - 1 - sg * sg * exp sg) / (sg * sg * sg).
Lemma B3_old_eq (sg : R) : rxso3_Ws_B3_old sg = B3c sg.
Proof. unfold rxso3_Ws_B3_old, B3c. cbn [texp TransR]. num_unfold. reflexivity. Qed.
Definition Ws_old_regime3 (phi : vec3R) (sg : R) : @mat3 R :=
  abc (A3 sg) (rxso3_Ws_B3_old sg) ((exp sg - 1) / sg) phi.
Lemma abc_split_B (A B C : R) (x : vec3R) i j : (i < 3)%nat -> (j < 3)%nat ->
  m3get (abc A B C x) i j = m3get (abc A 0 C x) i j + B * m3get (mmul3 (skew x) (skew x)) i j.
Proof.
  intros Hi Hj. destruct x as [[a b] c].
  destruct i as [|[|[|i]]]; try lia; destruct j as [|[|[|j]]]; try lia; unfold abc, m3get; lie_unfold; ring.
Qed.
(* the part A3 K + C I was within exp|sigma| (theta^3/6 + theta^2/2) of the exponential: the error of the old code
   was B3_old K^2 up to that ... *)
Theorem rxso3_Ws_old_regime3_error (phi : vec3R) (sg : R) : 0 < vnorm phi <= 1 -> sg <> 0 ->
  forall i j, (i < 3)%nat -> (j < 3)%nat ->
  Rabs (m3get (Ws_old_regime3 phi sg) i j - m3get (mexp_Vmat phi sg) i j
        - rxso3_Ws_B3_old sg * m3get (mmul3 (skew phi) (skew phi)) i j)
    <= exp (Rabs sg) * ((vnorm phi)^3 / 6 + (vnorm phi)^2 / 2).
Proof.
  intros [H0 H] Hsg i j Hi Hj. unfold Ws_old_regime3.
  unfold mexp_Vmat. destruct (Req_EM_T (vnorm phi) 0) as [Hz|_]; [lra|]. destruct (Req_EM_T sg 0) as [Hz|_]; [contradiction|].
  rewrite (abc_split_B _ (rxso3_Ws_B3_old sg)) by assumption.
  match goal with |- Rabs (?a + ?b - ?c - ?b) <= _ => replace (a + b - c - b) with (a - c) by ring end.
  unfold Ws1. rewrite Ws_th_abc. eapply Rle_trans; [apply abc_entry_bound_v; assumption|].
  set (th := vnorm phi) in *. assert (Ht : 0 < th <= 1) by lra.
  destruct (Ws_coef_regime3 sg th Ht Hsg) as (HA & _ & HB).
  replace (Cs sg 1) with ((exp sg - 1) / sg) by (unfold Cs; now rewrite Rmult_1_l).
  rewrite (Rminus_diag_eq ((exp sg - 1) / sg)), Rabs_R0 by reflexivity.
  set (ra := Rabs _) in HA |- *. set (rb := Rabs _) in HB |- *. clearbody ra rb.
  pose proof (exp_pos (Rabs sg)) as Hep. set (e := exp (Rabs sg)) in *. clearbody e.
  assert (Ha' : ra * th <= e * (th * th / 6) * th) by (apply Rmult_le_compat_r; lra).
  assert (Hb' : rb * (th * th) <= e * (1/2) * (th * th)) by (apply Rmult_le_compat_r; nra).
  replace (e * (th ^ 3 / 6 + th ^ 2 / 2)) with (e * (th * th / 6) * th + e * (1/2) * (th * th)) by field. lra.
Qed.
(* ... and B3_old sigma ~ 1/sigma^2: at least 1/(2 sigma^2) for 0 < |sigma| <= 1/8 (B3 tends to 1/6) *)
Lemma B3_old_large sg : sg <> 0 -> Rabs sg <= 1/8 -> 1/2 <= rxso3_Ws_B3_old sg * (sg * sg).
Proof.
  intros Hs H. rewrite B3_old_eq. assert (H2 : Rabs sg <= 1/2) by lra.
  pose proof (Cex_close sg H2) as Hc. rewrite (Cex_nz sg Hs) in Hc.
  pose proof (exp_m1_bound sg H2) as He. apply Rabs_le_between in Hc. apply Rabs_le_between in He.
  replace (B3c sg * (sg * sg)) with ((exp sg - 1) / sg - sg * exp sg / 2) by (unfold B3c; field; auto).
  set (q := (exp sg - 1) / sg) in *. clearbody q. set (e := exp sg) in *. clearbody e.
  apply Rabs_le_between in H. pose proof (Rabs_pos sg) as Hp.
  destruct (Rle_dec 0 sg); [rewrite (Rabs_pos_eq sg) in * by lra | rewrite (Rabs_left1 sg) in * by lra]; nra.
Qed.

(* ---- a failing input of the OLD branch in exact real arithmetic, for every 0 < eps <= 1/16 (both dtypes' eps):
   phi = (eps, 0, 0), sigma = 2 eps, tau = (0, 1, 0): the y-component of the old translation was off by more than 1/10
   (true value ~1, old code ~3/4: (theta/sigma)^2 = 1/4); with the repaired coefficient the same input is within eps^3.
   Derived from the two structural results above, no numerical evaluation *)
Lemma vnorm_x_axis (a : R) : 0 <= a -> vnorm ((a, 0, 0) : vec3R) = a.
Proof.
  intros H. unfold vnorm. cbn [tsqrt TransR].
  replace (vdot ((a, 0, 0) : vec3R) (a, 0, 0)) with (a * a) by (lie_unfold; ring). now apply sqrt_square.
Qed.
Lemma mvmul_e1_y (M : @mat3 R) : vc 1 (mvmul M ((0, 1, 0) : vec3R)) = m3get M 1 1.
Proof. destruct M as [[[[p0 p1] p2] [[q0 q1] q2]] [[r0 r1] r2]]. unfold vc, m3get. lie_unfold. ring. Qed.
Lemma skew2_x_axis_11 (a : R) : m3get (mmul3 (skew ((a, 0, 0) : vec3R)) (skew (a, 0, 0))) 1 1 = - (a * a).
Proof. unfold m3get. lie_unfold. ring. Qed.
Lemma exp_small_le_2 s : s <= 1/8 -> exp s <= 2.
Proof.
  intros H. eapply Rle_trans; [apply (exp_le' s (1/8) H)|].
  eapply Rle_trans; [apply exp_upper; lra|]. apply Rle_div_l; lra.
Qed.
Lemma regime3_old_witness (eps : R) : 0 < eps <= 1/16 ->
  let tau : vec3R := (0, 1, 0) in let phi : vec3R := (eps, 0, 0) in let sg := 2 * eps in
  vnorm phi <= eps /\ eps < Rabs sg /\
  forall (E : @mat3 R) (p : vec3R), is_mexp_sim3 tau phi sg E p ->
    Rabs (vc 1 (mvmul (Ws_old_regime3 phi sg) tau) - vc 1 p) > 1/10 /\
    Rabs (vc 1 (fst (sim3_exp eps (tau, (phi, sg)))) - vc 1 p) <= eps ^ 3.
Proof.
  intros [Hp He] tau phi sg.
  assert (Hv : vnorm phi = eps) by (apply vnorm_x_axis; lra).
  assert (Hs : Rabs sg = 2 * eps) by (unfold sg; apply Rabs_pos_eq; lra).
  assert (Hsg : sg <> 0) by (unfold sg; lra).
  rewrite Hv, Hs. split; [lra|]. split; [lra|].
  intros E p H. apply sim3_exponential_total in H. destruct H as [_ ->].
  unfold sim3_exp. cbn [fst snd]. unfold tau. rewrite !mvmul_e1_y.
  pose proof (exp_small_le_2 (Rabs sg) ltac:(rewrite Hs; lra)) as He2. pose proof (exp_pos (Rabs sg)) as Hep.
  assert (H2 : 0 <= eps * eps <= /256) by nra.
  assert (H3 : eps ^ 3 <= eps * eps / 16) by (replace (eps ^ 3) with (eps * eps * eps) by ring; nra).
  assert (H3p : 0 <= eps ^ 3) by (apply pow_le; lra).
  assert (H4 : eps ^ 4 <= eps ^ 3 / 16) by (replace (eps ^ 4) with (eps ^ 3 * eps) by ring; nra).
  assert (H4p : 0 <= eps ^ 4) by (apply pow_le; lra).
  split.
  - pose proof (rxso3_Ws_old_regime3_error phi sg ltac:(rewrite Hv; lra) Hsg 1%nat 1%nat ltac:(lia) ltac:(lia)) as Herr.
    unfold phi in Herr at 3 4. rewrite skew2_x_axis_11, Hv in Herr.
    pose proof (B3_old_large sg Hsg ltac:(rewrite Hs; lra)) as HB. unfold sg in HB at 2 3.
    set (b := rxso3_Ws_B3_old sg) in *. clearbody b.
    set (d := m3get (Ws_old_regime3 phi sg) 1 1 - m3get (mexp_Vmat phi sg) 1 1) in *. clearbody d.
    replace (eps ^ 2) with (eps * eps) in Herr by ring.
    set (e := exp (Rabs sg)) in *. clearbody e.
    assert (Hbnd : e * (eps ^ 3 / 6 + eps * eps / 2) <= 2 * (eps ^ 3 / 6 + eps * eps / 2)) by (apply Rmult_le_compat_r; lra).
    apply Rabs_le_between in Herr. assert (Hd : d <= - (1/10)) by nra. rewrite Rabs_left1 by lra. lra.
  - pose proof (rxso3_Ws_regime3_close eps phi sg ltac:(rewrite Hv; lra) ltac:(rewrite Hs; lra) ltac:(lra)
                  1%nat 1%nat ltac:(lia) ltac:(lia)) as Hc. rewrite Hv in Hc.
    eapply Rle_trans; [exact Hc|]. set (e := exp (Rabs sg)) in *. clearbody e.
    assert (Hbnd : e * (eps ^ 3 / 6 + eps ^ 4 / 24) <= 2 * (eps ^ 3 / 6 + eps ^ 4 / 24)) by (apply Rmult_le_compat_r; lra).
    lra.
Qed.
Theorem sim3_old_regime3_refuted :
  forall eps : R, 0 < eps <= 1/16 ->
  exists (tau phi : vec3R) (sg : R), vnorm phi <= eps /\ eps < Rabs sg /\
    forall (E : @mat3 R) (p : vec3R), is_mexp_sim3 tau phi sg E p ->
      Rabs (vc 1 (mvmul (Ws_old_regime3 phi sg) tau) - vc 1 p) > 1/10 /\
      Rabs (vc 1 (fst (sim3_exp eps (tau, (phi, sg)))) - vc 1 p) <= eps ^ 3.
Proof. intros eps He. exists (0, 1, 0), (eps, 0, 0), (2 * eps). exact (regime3_old_witness eps He). Qed.

(* ================= distance of the modelled Exp to THE exponential, for every generator ================= *)
Lemma rmin_pow_nonneg (th eps : R) (n : nat) (k : R) : 0 <= th -> 0 <= eps -> 0 < k -> 0 <= (Rmin th eps) ^ n / k.
Proof.
  intros H1 H2 Hk. apply Rdiv_le_0_compat; [|exact Hk]. apply pow_le. now apply Rmin_glb.
Qed.
Lemma m3get_mscale3 (k : R) (M : @mat3 R) i j : (i < 3)%nat -> (j < 3)%nat -> m3get (mscale3 k M) i j = k * m3get M i j.
Proof.
  intros Hi Hj. destruct M as [[[[p0 p1] p2] [[q0 q1] q2]] [[r0 r1] r2]].
  destruct i as [|[|[|i]]]; try lia; destruct j as [|[|[|j]]]; try lia; unfold m3get; lie_unfold; ring.
Qed.

Theorem so3_exp_close_to_exponential (eps : R) (x : vec3R) (E : @mat3 R) : 0 <= eps <= 1 -> is_mexp_so3 x E ->
  forall i j, (i < 3)%nat -> (j < 3)%nat ->
  Rabs (m3get (SO3_matrix (so3_exp eps x)) i j - m3get E i j) <= (Rmin (vnorm x) eps) ^ 7 / 3000.
Proof.
  intros [He0 He1] HE i j Hi Hj. apply so3_exponential_total in HE. subst E. unfold mexp_so3.
  pose proof (vnorm_nonneg x) as Hp.
  pose proof (rmin_pow_nonneg (vnorm x) eps 7 3000 Hp He0 ltac:(lra)) as Hm.
  destruct (Req_EM_T (vnorm x) 0) as [Hz|Hz].
  - rewrite so3_exp_matrix_zero by assumption. rewrite Rminus_diag_eq, Rabs_R0 by reflexivity. exact Hm.
  - destruct (Rlt_dec eps (vnorm x)) as [Hl|Hl].
    + rewrite so3_matrix_rodrigues by assumption. rewrite Rminus_diag_eq, Rabs_R0 by reflexivity. exact Hm.
    + rewrite Rmin_left by lra. apply so3_exp_taylor_matrix_close; try assumption; lra.
Qed.
Theorem rxso3_exp_close_to_exponential (eps : R) (phi : vec3R) (sg : R) (E : @mat3 R) : 0 <= eps <= 1 ->
  is_mexp_rxso3 phi sg E ->
  forall i j, (i < 3)%nat -> (j < 3)%nat ->
  Rabs (m3get (RxSO3_matrix (rxso3_exp eps (phi, sg))) i j - m3get E i j) <= exp sg * ((Rmin (vnorm phi) eps) ^ 7 / 3000).
Proof.
  intros He HE i j Hi Hj. apply rxso3_exponential_total in HE. subst E.
  rewrite RxSO3_matrix_blocks. unfold rxso3_exp. cbn [fst snd texp TransR].
  rewrite !m3get_mscale3 by assumption. rewrite <- Rmult_minus_distr_l, Rabs_mult, (Rabs_pos_eq (exp sg)) by (left; apply exp_pos).
  apply Rmult_le_compat_l; [left; apply exp_pos|].
  apply so3_exp_close_to_exponential; try assumption. now apply so3_exponential_total.
Qed.

Lemma so3_Jl_close_to_Vmat (eps : R) (phi : vec3R) : 0 <= eps <= 1 ->
  forall i j, (i < 3)%nat -> (j < 3)%nat ->
  Rabs (m3get (so3_Jl eps phi) i j - m3get (mexp_Vmat phi 0) i j) <= (Rmin (vnorm phi) eps) ^ 5 / 600.
Proof.
  intros [He0 He1] i j Hi Hj. unfold mexp_Vmat. pose proof (vnorm_nonneg phi) as Hp.
  pose proof (rmin_pow_nonneg (vnorm phi) eps 5 600 Hp He0 ltac:(lra)) as Hm.
  destruct (Req_EM_T (vnorm phi) 0) as [Hz|Hz].
  - rewrite so3_Jl_zero, Cex_0, mscale3_one by assumption. rewrite Rminus_diag_eq, Rabs_R0 by reflexivity. exact Hm.
  - destruct (Req_EM_T 0 0) as [_|Hc]; [|contradiction]. destruct (Rlt_dec eps (vnorm phi)) as [Hl|Hl].
    + rewrite so3_Jl_is_V1 by assumption. rewrite Rminus_diag_eq, Rabs_R0 by reflexivity. exact Hm.
    + rewrite Rmin_left by lra. apply so3_Jl_taylor_close; try assumption; lra.
Qed.
Theorem se3_exp_close_to_exponential (eps : R) (tau phi : vec3R) (E : @mat3 R) (p : vec3R) : 0 <= eps <= 1 ->
  is_mexp_se3 tau phi E p ->
  (forall i j, (i < 3)%nat -> (j < 3)%nat ->
     Rabs (m3get (SO3_matrix (snd (se3_exp eps (tau, phi)))) i j - m3get E i j) <= (Rmin (vnorm phi) eps) ^ 7 / 3000) /\
  (forall i, (i < 3)%nat ->
     Rabs (vc i (fst (se3_exp eps (tau, phi))) - vc i p) <= (Rmin (vnorm phi) eps) ^ 5 / 600 * norm1 tau).
Proof.
  intros He [HE Hp]. split.
  - intros i j Hi Hj. unfold se3_exp. cbn [fst snd]. now apply so3_exp_close_to_exponential.
  - assert (H : is_mexp_se3 tau phi E p) by (split; assumption). apply se3_exponential_total in H. destruct H as [_ ->].
    intros i Hi. unfold se3_exp. cbn [fst snd]. apply mvmul_entry_bound; [|exact Hi].
    intros i' j' Hi' Hj'. now apply so3_Jl_close_to_Vmat.
Qed.

Lemma rxso3_Ws_close_to_Vmat (eps : R) (phi : vec3R) (sg : R) : 0 <= eps <= 1/4 -> Rabs sg <= eps ->
  forall i j, (i < 3)%nat -> (j < 3)%nat ->
  Rabs (m3get (rxso3_Ws eps (phi, sg)) i j - m3get (mexp_Vmat phi sg) i j) <= 8 * Rabs sg + (Rmin (vnorm phi) eps) ^ 3 / 5.
Proof.
  intros [He0 He1] Hs i j Hi Hj. pose proof (vnorm_nonneg phi) as Hp. pose proof (Rabs_pos sg) as Hsp.
  pose proof (rmin_pow_nonneg (vnorm phi) eps 3 5 Hp He0 ltac:(lra)) as Hm.
  destruct (Rlt_dec eps (vnorm phi)) as [Hl|Hl].
  - eapply Rle_trans; [apply rxso3_Ws_small_sigma_close; try assumption; lra|]. lra.
  - rewrite Rmin_left by lra. eapply Rle_trans; [apply rxso3_Ws_small_both_close; try assumption; lra|]. lra.
Qed.
(* sim3 with |sigma| <= eps (any rotation): translation within (8|sigma| + min(theta,eps)^3/5) |tau|_1 *)
Theorem sim3_exp_translation_close (eps : R) (tau phi : vec3R) (sg : R) (E : @mat3 R) (p : vec3R) :
  0 <= eps <= 1/4 -> Rabs sg <= eps -> is_mexp_sim3 tau phi sg E p ->
  forall i, (i < 3)%nat ->
  Rabs (vc i (fst (sim3_exp eps (tau, (phi, sg)))) - vc i p) <= (8 * Rabs sg + (Rmin (vnorm phi) eps) ^ 3 / 5) * norm1 tau.
Proof.
  intros He Hs H i Hi. apply sim3_exponential_total in H. destruct H as [_ ->].
  unfold sim3_exp. cbn [fst snd]. apply mvmul_entry_bound; [|exact Hi].
  intros i' j' Hi' Hj'. now apply rxso3_Ws_close_to_Vmat.
Qed.
(* sim3 with |sigma| > eps and theta = 0 or theta > eps: translation exact *)
Theorem sim3_exp_translation_exact (eps : R) (tau phi : vec3R) (sg : R) (E : @mat3 R) (p : vec3R) :
  0 <= eps -> eps < Rabs sg -> vnorm phi = 0 \/ eps < vnorm phi -> is_mexp_sim3 tau phi sg E p ->
  fst (sim3_exp eps (tau, (phi, sg))) = p.
Proof.
  intros He Hs Hc H. apply sim3_exponential_total in H. destruct H as [_ ->].
  assert (Hsg : sg <> 0) by (intros ->; rewrite Rabs_R0 in Hs; lra).
  unfold sim3_exp, mexp_Vmat. cbn [fst snd]. destruct Hc as [Hz|Hl].
  - destruct (Req_EM_T (vnorm phi) 0) as [_|Hn]; [|contradiction].
    rewrite rxso3_Ws_zero_rotation, Ws_C_model_exact by (auto; lra). reflexivity.
  - destruct (Req_EM_T (vnorm phi) 0) as [Hz|_]; [lra|]. destruct (Req_EM_T sg 0) as [Hz|_]; [contradiction|].
    now rewrite rxso3_Ws_is_Ws1.
Qed.
(* the rotation-scale block of sim3 Exp is that of rxso3 Exp *)
Theorem sim3_exp_rotation_close (eps : R) (tau phi : vec3R) (sg : R) (E : @mat3 R) (p : vec3R) : 0 <= eps <= 1 ->
  is_mexp_sim3 tau phi sg E p ->
  forall i j, (i < 3)%nat -> (j < 3)%nat ->
  Rabs (m3get (RxSO3_matrix (snd (sim3_exp eps (tau, (phi, sg))))) i j - m3get E i j) <= exp sg * ((Rmin (vnorm phi) eps) ^ 7 / 3000).
Proof.
  intros He [HE _] i j Hi Hj. unfold sim3_exp. cbn [fst snd]. now apply rxso3_exp_close_to_exponential.
Qed.

(* sim3, EVERY generator: translation within (8 min(|sigma|,eps) + exp|sigma| min(theta,eps)^3/5) |tau|_1 of the exponential *)
Lemma rxso3_Ws_close_to_Vmat_total (eps : R) (phi : vec3R) (sg : R) : 0 <= eps <= 1/4 ->
  forall i j, (i < 3)%nat -> (j < 3)%nat ->
  Rabs (m3get (rxso3_Ws eps (phi, sg)) i j - m3get (mexp_Vmat phi sg) i j)
    <= 8 * Rmin (Rabs sg) eps + exp (Rabs sg) * ((Rmin (vnorm phi) eps) ^ 3 / 5).
Proof.
  intros [He0 He1] i j Hi Hj. pose proof (vnorm_nonneg phi) as Hp. pose proof (Rabs_pos sg) as Hsp.
  pose proof (rmin_pow_nonneg (vnorm phi) eps 3 5 Hp He0 ltac:(lra)) as Hm.
  pose proof (exp_ineq1_le (Rabs sg)) as He. remember (exp (Rabs sg)) as e eqn:Ee.
  set (m := Rmin (vnorm phi) eps ^ 3 / 5) in *.
  assert (Hem : m <= e * m) by nra.
  destruct (Rle_dec (Rabs sg) eps) as [Hs|Hs].
  - rewrite (Rmin_left (Rabs sg)) by lra.
    eapply Rle_trans; [apply rxso3_Ws_close_to_Vmat; try assumption; lra|]. fold m. lra.
  - assert (Hs' : eps < Rabs sg) by lra. rewrite (Rmin_right (Rabs sg)) by lra.
    assert (Hsg : sg <> 0) by (intros ->; rewrite Rabs_R0 in Hs'; lra).
    assert (Hnn : 0 <= 8 * eps + e * m) by nra.
    destruct (Req_EM_T (vnorm phi) 0) as [Hz|Hz].
    + unfold mexp_Vmat. destruct (Req_EM_T (vnorm phi) 0) as [_|Hn]; [|contradiction].
      rewrite rxso3_Ws_zero_rotation, Ws_C_model_exact by (auto; lra).
      rewrite Rminus_diag_eq, Rabs_R0 by reflexivity. exact Hnn.
    + destruct (Rlt_dec eps (vnorm phi)) as [Hl|Hl].
      * unfold mexp_Vmat. destruct (Req_EM_T (vnorm phi) 0) as [Hz'|_]; [contradiction|].
        destruct (Req_EM_T sg 0) as [Hz'|_]; [contradiction|].
        rewrite rxso3_Ws_is_Ws1 by (auto; lra). rewrite Rminus_diag_eq, Rabs_R0 by reflexivity. exact Hnn.
      * eapply Rle_trans; [apply rxso3_Ws_regime3_close; try assumption; lra|]. rewrite <- Ee.
        unfold m. rewrite Rmin_left by lra. set (th := vnorm phi) in *.
        assert (Ht : 0 < th <= 1/4) by lra. assert (H3 : 0 <= th ^ 3) by (apply pow_le; lra).
        assert (H43 : th ^ 4 <= th ^ 3 / 4) by (replace (th ^ 4) with (th ^ 3 * th) by ring; nra).
        assert (Hq : th ^ 3 / 6 + th ^ 4 / 24 <= th ^ 3 / 5) by lra.
        assert (He1' : 0 <= e) by lra.
        assert (Hee : e * (th ^ 3 / 6 + th ^ 4 / 24) <= e * (th ^ 3 / 5)) by (apply Rmult_le_compat_l; assumption).
        lra.
Qed.
Theorem sim3_exp_translation_close_total (eps : R) (tau phi : vec3R) (sg : R) (E : @mat3 R) (p : vec3R) :
  0 <= eps <= 1/4 -> is_mexp_sim3 tau phi sg E p ->
  forall i, (i < 3)%nat ->
  Rabs (vc i (fst (sim3_exp eps (tau, (phi, sg)))) - vc i p)
    <= (8 * Rmin (Rabs sg) eps + exp (Rabs sg) * ((Rmin (vnorm phi) eps) ^ 3 / 5)) * norm1 tau.
Proof.
  intros He H i Hi. apply sim3_exponential_total in H. destruct H as [_ ->].
  unfold sim3_exp. cbn [fst snd]. apply mvmul_entry_bound; [|exact Hi].
  intros i' j' Hi' Hj'. now apply rxso3_Ws_close_to_Vmat_total.
Qed.

(* ================= the coefficient bounds stated on the model's coefficient functions ================= *)
Theorem so3_exp_coef_taylor_close (eps th : R) : 0 < th <= eps -> eps <= 1 ->
  Rabs (fst (so3_exp_coef eps th) - sin (th / 2) / th) <= th ^ 6 / 645120 /\
  Rabs (snd (so3_exp_coef eps th) - cos (th / 2)) <= th ^ 6 / 46080.
Proof.
  intros [H0 H1] He. unfold so3_exp_coef.
  replace (ltb eps th) with false by (symmetry; cbn; now apply Rltb_false). cbn [fst snd]. num_unfold.
  pose proof (so3_exp_coef_im_close th ltac:(lra)) as HA. pose proof (so3_exp_coef_re_close th ltac:(lra)) as HB.
  replace (1 / 2 - 1 / 48 * (th * th) + 1 / 3840 * (th * th * (th * th))) with (1 / 2 - th ^ 2 / 48 + th ^ 4 / 3840) by field.
  replace (1 - 1 / 8 * (th * th) + 1 / 384 * (th * th * (th * th))) with (1 - th ^ 2 / 8 + th ^ 4 / 384) by field.
  split; apply Rabs_le; lra.
Qed.
Theorem so3_Jl_coef_taylor_close (eps th : R) : 0 < th <= eps -> eps <= 1 ->
  Rabs (fst (so3_Jl_coef eps th) - (1 - cos th) / (th * th)) <= th ^ 4 / 720 /\
  Rabs (snd (so3_Jl_coef eps th) - (th - sin th) / (th * (th * th))) <= th ^ 4 / 5040.
Proof.
  intros [H0 H1] He. unfold so3_Jl_coef.
  replace (ltb eps th) with false by (symmetry; cbn; now apply Rltb_false). cbn [fst snd]. num_unfold.
  pose proof (so3_Jl_coef1_close th ltac:(lra)) as HA. pose proof (so3_Jl_coef2_close th ltac:(lra)) as HB.
  replace (1 / 2 - 1 / 24 * (th * th)) with (1 / 2 - th ^ 2 / 24) by field.
  replace (1 / 6 - 1 / 120 * (th * th)) with (1 / 6 - th ^ 2 / 120) by field.
  split; apply Rabs_le; lra.
Qed.
(* rxso3_Ws, both small: the constants 1/2, 1/6, 1 against the closed-form coefficients of Ws1 *)
Theorem rxso3_Ws_coef_taylor_close (eps th sg : R) : 0 < th <= eps -> sg <> 0 -> Rabs sg <= eps -> eps <= 1/2 ->
  let c := rxso3_Ws_coef eps th sg in
  Rabs (fst (fst c) - At sg th 1) <= 2 * Rabs sg + th * th / 6 /\
  Rabs (snd (fst c) - Bt sg th 1) <= Rabs sg + th * th / 24 /\
  Rabs (snd c - Cs sg 1) <= 2 * Rabs sg.
Proof.
  intros [H0 H1] Hsg Hs He c. unfold c, rxso3_Ws_coef.
  replace (ltb eps th) with false by (symmetry; cbn; now apply Rltb_false).
  replace (ltb eps (absF sg)) with false by (symmetry; rewrite absF_Rabs; cbn; now apply Rltb_false).
  cbn [fst snd]. num_unfold. replace (IZR 1 / IZR 6) with (1 / 6) by reflexivity.
  apply Ws_coef_small_both; [lra | exact Hsg | lra].
Qed.
