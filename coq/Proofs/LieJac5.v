(* C04 (part 5): Act along arbitrary curves for SO3 / SE3, and Act4 (homogeneous points) for all four groups.
   Act4(X, (p, w)) = (sR p + w t, w):  L_X = *_Act4_Jacobian(out) = [w I, skew(-out3), out3] (columns present per group),
   L_p = the 4x4 matrix [[sR, t], [0, 1]]. *)
From Coq Require Import Reals Lra Psatz List Nsatz.
From Coquelicot Require Import Coquelicot.
Import ListNotations.
From PV Require Import Base.Num Base.RTac Model.LieGroup Model.LieExp Proofs.LieGroup Proofs.LieExp Proofs.LieJac Proofs.LieJac2 Proofs.LieJac3.
Local Open Scope R_scope.
#[local] Remove Hints NumQ NumZ : typeclass_instances.

Lemma cross_skew (d u : vec3R) : vcross d u = mvmul (skew (vneg u)) d.
Proof. lie_ring. Qed.

(* ---------- Act along arbitrary curves, SO3 and SE3 *)
Theorem SO3_act_dX_curve (Q : R -> quatR) p d : unitq (Q 0) -> dq4 Q (tanSO3 d (Q 0)) ->
  dv3 (fun e => SO3_act (Q e) p) (mvmul (skew (vneg (SO3_act (Q 0) p))) d).
Proof.
  intros Hu HQ. pose proof (dv3_act _ _ _ _ HQ (dv3_const p)) as H. cbv beta in H.
  rewrite act_0, vadd_0_r, dact_tan, cross_skew in H by assumption. exact H.
Qed.
Theorem SO3_act_dp_curve (X : quatR) (p : R -> vec3R) p' : unitq X -> dv3 p p' ->
  dv3 (fun e => SO3_act X (p e)) (mvmul (SO3_Adj X) p').
Proof.
  intros Hu Hp. pose proof (dv3_act _ _ _ _ (dq4_const X) Hp) as H. cbv beta in H.
  rewrite dact_0, vadd_0_l, <- Adj_act in H by assumption. exact H.
Qed.
Theorem SE3_act_dX_curve (X : R -> se3R) p d : unitq (snd (X 0)) -> dse3 X (tanSE3 d (X 0)) ->
  dv3 (fun e => SE3_act (X e) p) (vadd (fst d) (mvmul (skew (vneg (SE3_act (X 0) p))) (snd d))).
Proof.
  intros Hu [Ht Hq]. unfold SE3_act.
  pose proof (dv3_add _ _ _ _ Ht (dv3_act _ _ _ _ Hq (dv3_const p))) as H. cbv beta in H.
  revert H. apply dv3_ext; [reflexivity|].
  destruct d as [tau phi]. unfold tanSE3. cbn [fst snd]. rewrite act_0, vadd_0_r, dact_tan by assumption.
  generalize (SO3_act (snd (X 0)) p) (fst (X 0)). intros u t. lie_ring.
Qed.
Theorem SE3_act_dp_curve (X : se3R) (p : R -> vec3R) p' : unitq (snd X) -> dv3 p p' ->
  dv3 (fun e => SE3_act X (p e)) (mvmul (SO3_Adj (snd X)) p').
Proof.
  intros Hu Hp. unfold SE3_act.
  pose proof (dv3_add _ _ _ _ (dv3_const (fst X)) (dv3_act _ _ _ _ (dq4_const (snd X)) Hp)) as H. cbv beta in H.
  revert H. apply dv3_ext; [reflexivity|]. now rewrite dact_0, !vadd_0_l, <- Adj_act.
Qed.

(* ---------- Act4: homogeneous points (p, w); the fourth output component is w itself *)
Definition dv4h (P : R -> vec4R) (P' : vec4R) : Prop := dv3 (fun e => fst (P e)) (fst P') /\ dR (fun e => snd (P e)) (snd P').
Lemma dv4h_const P : dv4h (fun _ => P) (vzero, 0).
Proof. split; [apply dv3_const | apply dR_const]. Qed.
Lemma dR_id_scale (w : R -> R) w' (t : vec3R) : dR w w' -> dv3 (fun e => vscale (w e) t) (vscale w' t).
Proof.
  intros Hw. pose proof (dv3_scale _ _ _ _ Hw (dv3_const t)) as H. cbv beta in H.
  revert H. apply dv3_ext; [reflexivity|]. generalize (w 0). intros k. lie_ring.
Qed.

Theorem SO3_act4_dX_curve (Q : R -> quatR) (P : vec4R) d : unitq (Q 0) -> dq4 Q (tanSO3 d (Q 0)) ->
  dv4h (fun e => SO3_act4 (Q e) P) (mvmul (skew (vneg (fst (SO3_act4 (Q 0) P)))) d, 0).
Proof.
  intros Hu HQ. split; unfold SO3_act4; cbn [fst snd]; [now apply SO3_act_dX_curve | apply dR_const].
Qed.
Theorem SO3_act4_dp_curve (X : quatR) (P : R -> vec4R) P' : unitq X -> dv4h P P' ->
  dv4h (fun e => SO3_act4 X (P e)) (mvmul (SO3_Adj X) (fst P'), snd P').
Proof.
  intros Hu [Hp Hw]. split; unfold SO3_act4; cbn [fst snd]; [|exact Hw].
  apply (SO3_act_dp_curve X (fun e => fst (P e)) _ Hu Hp).
Qed.
Theorem SE3_act4_dX_curve (X : R -> se3R) (P : vec4R) d : unitq (snd (X 0)) -> dse3 X (tanSE3 d (X 0)) ->
  dv4h (fun e => SE3_act4 (X e) P)
       (vadd (vscale (snd P) (fst d)) (mvmul (skew (vneg (fst (SE3_act4 (X 0) P)))) (snd d)), 0).
Proof.
  intros Hu [Ht Hq]. split; unfold SE3_act4; cbn [fst snd]; [|apply dR_const].
  pose proof (dv3_add _ _ _ _ (dv3_act _ _ _ _ Hq (dv3_const (fst P))) (dv3_scale _ _ _ _ (dR_const (snd P)) Ht)) as H. cbv beta in H.
  revert H. apply dv3_ext; [reflexivity|].
  destruct d as [tau phi]. unfold tanSE3. cbn [fst snd]. rewrite act_0, vadd_0_r, dact_tan by assumption.
  generalize (SO3_act (snd (X 0)) (fst P)) (fst (X 0)) (snd P). intros u t w. lie_ring.
Qed.
Theorem SE3_act4_dp_curve (X : se3R) (P : R -> vec4R) P' : unitq (snd X) -> dv4h P P' ->
  dv4h (fun e => SE3_act4 X (P e)) (vadd (mvmul (SO3_Adj (snd X)) (fst P')) (vscale (snd P') (fst X)), snd P').
Proof.
  intros Hu [Hp Hw]. split; unfold SE3_act4; cbn [fst snd]; [|exact Hw].
  apply dv3_add; [apply (SO3_act_dp_curve (snd X) (fun e => fst (P e)) _ Hu Hp) | apply (dR_id_scale _ _ _ Hw)].
Qed.
Theorem RxSO3_act4_dX_curve (X : R -> rxso3R) (P : vec4R) d : unitq (fst (X 0)) -> drx X (tanRxSO3 d (X 0)) ->
  dv4h (fun e => RxSO3_act4 (X e) P)
       (vadd (mvmul (skew (vneg (fst (RxSO3_act4 (X 0) P)))) (fst d)) (vscale (snd d) (fst (RxSO3_act4 (X 0) P))), 0).
Proof.
  intros Hu HX. split; unfold RxSO3_act4; cbn [fst snd]; [now apply RxSO3_act_dX_curve | apply dR_const].
Qed.
Theorem RxSO3_act4_dp_curve (X : rxso3R) (P : R -> vec4R) P' : unitq (fst X) -> dv4h P P' ->
  dv4h (fun e => RxSO3_act4 X (P e)) (mvmul (mscale3 (snd X) (SO3_Adj (fst X))) (fst P'), snd P').
Proof.
  intros Hu [Hp Hw]. split; unfold RxSO3_act4; cbn [fst snd]; [|exact Hw].
  apply (RxSO3_act_dp_curve X (fun e => fst (P e)) _ Hu Hp).
Qed.
Theorem Sim3_act4_dX_curve (X : R -> sim3R) (P : vec4R) d : unitq (fst (snd (X 0))) -> dsim3 X (tanSim3 d (X 0)) ->
  dv4h (fun e => Sim3_act4 (X e) P)
       (vadd (vadd (vscale (snd P) (fst (fst d))) (mvmul (skew (vneg (fst (Sim3_act4 (X 0) P)))) (snd (fst d))))
             (vscale (snd d) (fst (Sim3_act4 (X 0) P))), 0).
Proof.
  intros Hu [Ht Hr]. split; unfold Sim3_act4; cbn [fst snd]; [|apply dR_const].
  pose proof (dv3_add _ _ _ _ (dRx_act _ _ _ _ Hr (dv3_const (fst P))) (dv3_scale _ _ _ _ (dR_const (snd P)) Ht)) as H. cbv beta in H.
  revert H. apply dv3_ext; [reflexivity|].
  destruct d as [[tau phi] sg]. unfold tanSim3. cbn [fst snd].
  pose proof (Rx_act_tan (snd (X 0)) (fst P) (phi, sg) Hu) as E. cbn [fst snd] in E. rewrite E.
  generalize (RxSO3_act (snd (X 0)) (fst P)) (fst (X 0)) (snd P). intros u t w. lie_ring.
Qed.
Theorem Sim3_act4_dp_curve (X : sim3R) (P : R -> vec4R) P' : unitq (fst (snd X)) -> dv4h P P' ->
  dv4h (fun e => Sim3_act4 X (P e))
       (vadd (mvmul (mscale3 (snd (snd X)) (SO3_Adj (fst (snd X)))) (fst P')) (vscale (snd P') (fst X)), snd P').
Proof.
  intros Hu [Hp Hw]. split; unfold Sim3_act4; cbn [fst snd]; [|exact Hw].
  apply dv3_add; [apply (RxSO3_act_dp_curve (snd X) (fun e => fst (P e)) _ Hu Hp) | apply (dR_id_scale _ _ _ Hw)].
Qed.
