(* C09, sixth file: the loss-gradient statement instantiated with the seven built-in kernels. *)
From Coq Require Import Reals Lra List.
From Coquelicot Require Import Coquelicot.
Import ListNotations.
From PV Require Import Base.Num Base.RTac Model.Kernel Proofs.Kernel Proofs.Kernel3.
Local Open Scope R_scope.
#[local] Remove Hints NumQ NumZ : typeclass_instances.

(* built-in kernel, any tensor, any differentiable residual function through (R, J): both correctors
   return the same tensor, and 2 (J'^T R')_l is the derivative of the loss RobustModel.loss reports *)
Lemma builtin_descent_is_loss_gradient k p1 p2 (l : nat) (bs : list blockR) (paths : list (list (R -> R))) :
  kernel_params k p1 p2 -> Forall2 (tangent_to l) bs paths ->
  exists bs', fasttriggs_kernel k p1 p2 bs = Some bs' /\ triggs_kernel k p1 p2 bs = Some bs' /\
    is_derive (loss_along (fun x => kernel_f k p1 p2 x) paths) 0 (2 * bsum (fun b => JtR b l) bs').
Proof.
  intros Hp HT. destruct (fasttriggs_kernel_defined k p1 p2 bs Hp) as [bs' H]. exists bs'.
  split; [exact H|]. split; [now rewrite triggs_kernel_eq_fasttriggs|].
  apply (fasttriggs_descent_is_loss_gradient (fun x => kernel_f k p1 p2 x) (kernel_d1 k p1 p2) l bs bs' paths); auto.
  intros x Hx. now apply kernel_d1_correct.
Qed.
