(* C04 (part): the matrices the modelled backward() functions multiply by are the true
   left-perturbation Jacobians.  Statement shape, for an op f and a group input X:
     e |-> f (Exp(e d) @ X)   and   e |-> Exp(e (L d)) @ f X      (group-valued f)
     e |-> f (Exp(e d) @ X)   has derivative  L d                  (vector-valued f)
   agree to first order at e = 0, where L is the matrix of Model/LieJac.v.  Exp near 0 is the
   polynomial (Taylor-branch) form the model uses for |x| <= eps ([exp0_*]). *)
From Coq Require Import Reals Lra Psatz List Nsatz.
From Coquelicot Require Import Coquelicot.
Import ListNotations.
From PV Require Import Base.Num Base.RTac Model.LieGroup Model.LieExp Proofs.LieGroup Proofs.LieExp.
Local Open Scope R_scope.
#[local] Remove Hints NumQ NumZ : typeclass_instances.

(* ---------- Exp near zero (the Taylor branches of the model) ---------- *)
Definition exp0 (x : vec3R) : quatR :=
  let s := vdot x x in (vscale (1/2 - s/48 + s*s/3840) x, 1 - s/8 + s*s/384).
Definition Jl0 (x : vec3R) : @mat3 R :=
  let s := vdot x x in let K := skew x in
  madd3 (madd3 mid3 (mscale3 (1/2 - s/24) K)) (mscale3 (1/6 - s/120) (mmul3 K K)).
Definition exp0_se3 (x : vec3R * vec3R) : se3R := (mvmul (Jl0 (snd x)) (fst x), exp0 (snd x)).

Lemma exp0_is_model (eps : R) (x : vec3R) : vnorm x <= eps -> so3_exp eps x = exp0 x.
Proof.
  intros H. pose proof (vnorm_sq x) as Hs. unfold so3_exp, so3_exp_coef, exp0.
  replace (ltb eps (vnorm x)) with false by (symmetry; cbn; now apply Rltb_false).
  cbn [fst snd]. cbv zeta. rewrite <- Hs. num_simpl.
  apply pair_eq; [f_equal; field | field].
Qed.
Lemma Jl0_is_model (eps : R) (x : vec3R) : vnorm x <= eps -> so3_Jl eps x = Jl0 x.
Proof.
  intros H. pose proof (vnorm_sq x) as Hs. unfold so3_Jl, so3_Jl_coef, Jl0.
  replace (ltb eps (vnorm x)) with false by (symmetry; cbn; now apply Rltb_false).
  cbn [fst snd]. cbv zeta. rewrite <- Hs. num_simpl.
  f_equal; [f_equal|]; f_equal; field.
Qed.

(* ---------- SO3 ---------- *)
Definition pertSO3 (d : vec3R) (X : quatR) (e : R) : quatR := SO3_mul (exp0 (vscale e d)) X.
(* tangent vector at X in direction d: derivative of the perturbation curve at 0 *)
Definition tanSO3 (d : vec3R) (X : quatR) : quatR := SO3_mul (vscale (1/2) d, 0) X.
Definition qc (i : nat) (q : quatR) : R :=
  match i with 0%nat => vx (qv q) | 1%nat => vy (qv q) | 2%nat => vz (qv q) | _ => qw q end.
Definition vc (i : nat) (v : vec3R) : R :=
  match i with 0%nat => vx v | 1%nat => vy v | _ => vz v end.

Ltac d4 i := destruct i as [|[|[|i]]].
Ltac d3 i := destruct i as [|[|i]].
Ltac der_ring := auto_derive; [trivial|]; field.

Lemma pertSO3_0 d X : pertSO3 d X 0 = X.
Proof. unfold pertSO3, exp0. destruct X as [[[a b] c] w], d as [[d1 d2] d3]. lie_unfold. split_pairs; field. Qed.
Lemma pertSO3_tan d X i : is_derive (fun e => qc i (pertSO3 d X e)) 0 (qc i (tanSO3 d X)).
Proof.
  destruct X as [[[a b] c] w], d as [[d1 d2] d3]. unfold pertSO3, tanSO3, exp0, qc. lie_unfold.
  d4 i; der_ring.
Qed.

(* Mul, first argument: (Exp(e d) X) Y = Exp(e d) (X Y) exactly *)
Lemma SO3_mul_dX (X Y : quatR) d e : SO3_mul (pertSO3 d X e) Y = pertSO3 d (SO3_mul X Y) e.
Proof. unfold pertSO3. apply SO3_mul_assoc. Qed.

(* conjugation of a tangent vector: X (d/2,0) = (R_X d / 2, 0) X on unit quaternions *)
Lemma conj_tan (X : quatR) (d : vec3R) : unitq X ->
  SO3_mul X (vscale (1/2) d, 0) = SO3_mul (vscale (1/2) (mvmul (SO3_Adj X) d), 0) X.
Proof.
  unfold unitq. destruct X as [[[a b] c] w], d as [[d1 d2] d3]. lie_unfold. intros H.
  split_pairs; nsatz.
Qed.
(* Mul, second argument: L = Adj(X) *)
Lemma SO3_mul_dY_raw (X Y : quatR) d i :
  is_derive (fun e => qc i (SO3_mul X (pertSO3 d Y e))) 0 (qc i (SO3_mul X (tanSO3 d Y))).
Proof.
  destruct X as [[[a b] c] w], Y as [[[p q] r] s], d as [[d1 d2] d3].
  unfold pertSO3, tanSO3, exp0, qc. lie_unfold. d4 i; der_ring.
Qed.
Lemma SO3_mul_dY (X Y : quatR) d i : unitq X ->
  is_derive (fun e => qc i (SO3_mul X (pertSO3 d Y e))) 0 (qc i (tanSO3 (mvmul (SO3_Adj X) d) (SO3_mul X Y))).
Proof.
  intros Hu. unfold tanSO3 at 1. rewrite <- SO3_mul_assoc, <- conj_tan, SO3_mul_assoc by assumption.
  apply SO3_mul_dY_raw.
Qed.
(* Inv: L = - Adj(Y), Y = Inv X *)
Lemma SO3_inv_d_raw (X : quatR) d i :
  is_derive (fun e => qc i (SO3_inv (pertSO3 d X e))) 0 (qc i (SO3_inv (tanSO3 d X))).
Proof.
  destruct X as [[[a b] c] w], d as [[d1 d2] d3]. unfold pertSO3, tanSO3, exp0, qc. lie_unfold. d4 i; der_ring.
Qed.
Lemma SO3_inv_tan (X : quatR) d : unitq X ->
  SO3_inv (tanSO3 d X) = tanSO3 (vneg (mvmul (SO3_Adj (SO3_inv X)) d)) (SO3_inv X).
Proof.
  unfold unitq. destruct X as [[[a b] c] w], d as [[d1 d2] d3]. unfold tanSO3. lie_unfold. intros H.
  split_pairs; nsatz.
Qed.
Lemma SO3_inv_d (X : quatR) d i : unitq X ->
  is_derive (fun e => qc i (SO3_inv (pertSO3 d X e))) 0
            (qc i (tanSO3 (vneg (mvmul (SO3_Adj (SO3_inv X)) d)) (SO3_inv X))).
Proof. intros Hu. rewrite <- SO3_inv_tan by assumption. apply SO3_inv_d_raw. Qed.
(* Act: d/de (Exp(e d) X) p = d x out = skew(-out) d;  d/dp = R_X *)
Lemma act_via_h (Q : quatR) p : SO3_act Q p = vadd (act_h Q p) (vscale (1 - qnorm2 Q) p).
Proof. unfold act_h. destruct Q as [[[a b] c] w], p as [[p1 p2] p3]. lie_ring. Qed.
Lemma SO3_act_pert (X : quatR) p d e : unitq X ->
  SO3_act (pertSO3 d X e) p =
  vadd (act_h (exp0 (vscale e d)) (SO3_act X p)) (vscale (1 - qnorm2 (exp0 (vscale e d))) p).
Proof.
  intros Hu. unfold pertSO3. rewrite act_via_h, act_h_mul, qnorm2_mul, Hu, Rmult_1_r.
  rewrite <- (act_eq_h X p Hu). reflexivity.
Qed.
Lemma SO3_act_dX (X : quatR) p d i : unitq X ->
  is_derive (fun e => vc i (SO3_act (pertSO3 d X e) p)) 0 (vc i (mvmul (skew (vneg (SO3_act X p))) d)).
Proof.
  intros Hu.
  apply (is_derive_ext (fun e => vc i (vadd (act_h (exp0 (vscale e d)) (SO3_act X p))
                                          (vscale (1 - qnorm2 (exp0 (vscale e d))) p)))).
  { intros e. now rewrite SO3_act_pert. }
  generalize (SO3_act X p). intros u.
  destruct u as [[u1 u2] u3], d as [[d1 d2] d3], p as [[p1 p2] p3].
  unfold act_h, exp0, vc. lie_unfold. d3 i; der_ring.
Qed.
Lemma SO3_act_dp (X : quatR) p dp i :
  is_derive (fun e => vc i (SO3_act X (vadd p (vscale e dp)))) 0 (vc i (mvmul (SO3_matrix X) dp)).
Proof.
  destruct X as [[[a b] c] w], dp as [[d1 d2] d3], p as [[p1 p2] p3]. unfold vc. lie_unfold. d3 i; der_ring.
Qed.
(* Adj: out = Adj(X) a;  d/dX = -ad(out) = skew(-out);  d/da = Adj(X) *)
Lemma adj_via_act (Q : quatR) a : SO3_AdjXa Q a = vadd (SO3_act Q a) (vscale (2 * (qnorm2 Q - 1)) a).
Proof. destruct Q as [[[x y] z] w], a as [[a1 a2] a3]. lie_ring. Qed.
Lemma SO3_adj_dX (X : quatR) a d i : unitq X ->
  is_derive (fun e => vc i (SO3_AdjXa (pertSO3 d X e) a)) 0 (vc i (mvmul (skew (vneg (SO3_AdjXa X a))) d)).
Proof.
  intros Hu.
  assert (Hout : SO3_AdjXa X a = SO3_act X a).
  { rewrite adj_via_act, Hu. destruct (SO3_act X a) as [[u1 u2] u3], a as [[a1 a2] a3]. lie_ring. }
  rewrite Hout.
  apply (is_derive_ext (fun e => vc i (vadd (vadd (act_h (exp0 (vscale e d)) (SO3_act X a))
                                          (vscale (1 - qnorm2 (exp0 (vscale e d))) a))
                                          (vscale (2 * (qnorm2 (exp0 (vscale e d)) - 1)) a)))).
  { intros e. rewrite adj_via_act, SO3_act_pert by assumption. unfold pertSO3. now rewrite qnorm2_mul, Hu, Rmult_1_r. }
  generalize (SO3_act X a). intros u.
  destruct u as [[u1 u2] u3], d as [[d1 d2] d3], a as [[a1 a2] a3].
  unfold act_h, exp0, vc. lie_unfold. d3 i; der_ring.
Qed.
Lemma SO3_adj_da (X : quatR) a da i :
  is_derive (fun e => vc i (SO3_AdjXa X (vadd a (vscale e da)))) 0 (vc i (mvmul (SO3_Adj X) da)).
Proof.
  destruct X as [[[x y] z] w], da as [[d1 d2] d3], a as [[a1 a2] a3]. unfold vc. lie_unfold. d3 i; der_ring.
Qed.

(* ---------- SE3 ---------- *)
Definition pertSE3 (d : vec3R * vec3R) (X : se3R) (e : R) : se3R :=
  SE3_mul (exp0_se3 (vscale e (fst d), vscale e (snd d))) X.
Definition tanSE3 (d : vec3R * vec3R) (X : se3R) : se3R :=
  (vadd (fst d) (vcross (snd d) (fst X)), tanSO3 (snd d) (snd X)).
Definition se3c (i : nat) (X : se3R) : R :=
  match i with 0%nat => vx (fst X) | 1%nat => vy (fst X) | 2%nat => vz (fst X) | S (S (S j)) => qc j (snd X) end.
Ltac d7 i := destruct i as [|[|[|[|[|[|[|i]]]]]]].

Lemma pertSE3_tan d X i : is_derive (fun e => se3c i (pertSE3 d X e)) 0 (se3c i (tanSE3 d X)).
Proof.
  destruct X as [[[t1 t2] t3] [[[a b] c] w]], d as [[[u1 u2] u3] [[d1 d2] d3]].
  unfold pertSE3, tanSE3, tanSO3, exp0_se3, exp0, Jl0, se3c, qc. lie_unfold. d7 i; der_ring.
Qed.

(* translation part of (Exp(e d) X) acting / multiplying: rewritten through the homogeneous action so
   that the unit-norm hypothesis is used symbolically *)
Lemma SE3_act_dX (X : se3R) p d i : unitq (snd X) ->
  is_derive (fun e => vc i (SE3_act (pertSE3 d X e) p)) 0
            (vc i (vadd (fst d) (mvmul (skew (vneg (SE3_act X p))) (snd d)))).
Proof.
  intros Hu. destruct X as [t q], d as [tau phi]. cbn [fst snd] in *.
  apply (is_derive_ext (fun e => vc i (vadd (vadd (mvmul (Jl0 (vscale e phi)) (vscale e tau)) (SO3_act (exp0 (vscale e phi)) t))
           (vadd (act_h (exp0 (vscale e phi)) (SO3_act q p)) (vscale (1 - qnorm2 (exp0 (vscale e phi))) p))))).
  { intros e. unfold SE3_act, pertSE3, SE3_mul, exp0_se3. cbn [fst snd].
    change (SO3_mul (exp0 (vscale e phi)) q) with (pertSO3 phi q e). rewrite SO3_act_pert by assumption. reflexivity. }
  unfold SE3_act. cbn [fst snd]. generalize (SO3_act q p). intros u.
  destruct u as [[u1 u2] u3], tau as [[s1 s2] s3], phi as [[d1 d2] d3], p as [[p1 p2] p3], t as [[t1 t2] t3].
  unfold act_h, exp0, Jl0, vc. lie_unfold. d3 i; der_ring.
Qed.
Lemma SE3_act_dp (X : se3R) p dp i :
  is_derive (fun e => vc i (SE3_act X (vadd p (vscale e dp)))) 0 (vc i (mvmul (SO3_matrix (snd X)) dp)).
Proof.
  destruct X as [[[t1 t2] t3] [[[a b] c] w]], dp as [[d1 d2] d3], p as [[p1 p2] p3]. unfold vc. lie_unfold. d3 i; der_ring.
Qed.
(* Mul, first argument: L = I *)
Lemma SE3_mul_dX (X Y : se3R) d i : unitq (snd X) ->
  is_derive (fun e => se3c i (SE3_mul (pertSE3 d X e) Y)) 0 (se3c i (tanSE3 d (SE3_mul X Y))).
Proof.
  intros Hu. destruct X as [t q], Y as [s r], d as [tau phi]. cbn [fst snd] in *.
  destruct i as [|[|[|j]]].
  1-3: match goal with |- is_derive _ _ (se3c ?k _) =>
    apply (is_derive_ext (fun e => vc k (SE3_act (pertSE3 (tau, phi) (t, q) e) s))); [intros e; reflexivity|];
    pose proof (SE3_act_dX (t, q) s (tau, phi) k Hu) as H; cbn [fst snd] in H;
    replace (se3c k (tanSE3 (tau, phi) (SE3_mul (t, q) (s, r))))
      with (vc k (vadd tau (mvmul (skew (vneg (SE3_act (t, q) s))) phi))); [exact H|] end;
    unfold tanSE3, SE3_mul, SE3_act, se3c, vc; cbn [fst snd]; generalize (SO3_act q s); intros u;
    destruct u as [[u1 u2] u3], tau as [[s1 s2] s3], phi as [[d1 d2] d3], t as [[t1 t2] t3]; lie_unfold; ring.
  unfold se3c. cbn [snd]. unfold tanSE3, SE3_mul. cbn [fst snd].
  apply (is_derive_ext (fun e => qc j (pertSO3 phi (SO3_mul q r) e))).
  { intros e. unfold pertSE3, SE3_mul, exp0_se3. cbn [fst snd]. unfold pertSO3. now rewrite SO3_mul_assoc. }
  apply pertSO3_tan.
Qed.

