(* More proofs for property C07: the default GN solver (pseudo-inverse) gives the minimum-norm minimiser;
   concrete instances showing that the hypotheses of the C07 theorems are satisfiable (LM call with an active
   clamp and two trials; weighted GN step with a group parameter; two weighted residuals). *)
From Coq Require Import ZArith Reals Lra Lia List Arith Bool.
Import ListNotations.
From PV Require Import Base.Num Base.Mat Model.LieGroup Model.LieExp Model.Optim Proofs.Optim Proofs.Optim2 Proofs.Optim3.
#[local] Remove Hints NumQ NumZ : typeclass_instances.
Local Open Scope R_scope.

Section PinvGN.
Variable corr : cid -> @tensor R -> @mat R -> @tensor R * @mat R.
Variable gexp : nat -> list R -> list R.
Variable pinv : @mat R -> @mat R.
(* PINV.forward: pinv(A) @ b *)
Definition pinv_solver (A : @mat R) (b : list R) : option (list R) := Some (mapply (pinv A) b).

Lemma gn_step_pinv_min_norm (pb : @problem R) o Rv W J N :
  gn_step corr gexp pinv_solver pb = Some o -> assemble corr pb = Some (Rv, W, J) ->
  let m := sumnat (map (@pnumel R) (filter (@preq R) (pbP pb))) in
  wf N m J -> length Rv = N -> (forall W', W = Some W' -> wf N N W') ->
  penrose N m (fst (gn_system Rv W J)) (pinv (fst (gn_system Rv W J))) ->
  tA o = fst (gn_system Rv W J) /\ tb o = snd (gn_system Rv W J) /\ tD o = mapply (pinv (tA o)) (tb o) /\
  is_ls_minimiser m (tA o) (tb o) (tD o) /\
  (forall y, is_ls_minimiser m (tA o) (tb o) y -> sqn (tD o) <= sqn y) /\
  (forall y, length y = m -> vminus (mapply (tA o) y) (tb o) = wresid W J Rv y).
Proof.
  intros Hg Ha m HJ HR HW Hpen.
  destruct (gn_step_system corr gexp pinv_solver pb o Hg) as (Rv' & W' & J' & Ha' & HA & Hb & HD & HU).
  rewrite Ha in Ha'. inversion Ha'; subst Rv' W' J'; clear Ha'.
  destruct (gn_system_shapes N m Rv W J HJ HR HW) as (HwA & HLb & Hres).
  assert (EA : tA o = fst (gn_system Rv W J)) by (rewrite HA; now destruct W).
  assert (Eb : tb o = snd (gn_system Rv W J)) by (rewrite Hb; now destruct W).
  rewrite <- EA in HwA, Hres, Hpen. rewrite <- Eb in HLb, Hres.
  unfold pinv_solver in HD. inversion HD as [HD'].
  destruct (pinv_min_norm N m (tA o) (pinv (tA o)) (tb o) HwA Hpen HLb) as [H1 H2].
  repeat split; try assumption; try reflexivity; apply H1.
Qed.
End PinvGN.

(* ---- the assembled system is well shaped for documented shapes (the guard under which the model's total
        matrix products agree with torch's, which raises on a shape mismatch) ---- *)
Lemma wf_app_rows n1 n2 m (A B : @mat R) : wf n1 m A -> wf n2 m B -> wf (n1 + n2) m (A ++ B).
Proof.
  intros (H1 & H2 & H3 & H4) (K1 & K2 & K3 & K4). repeat split; try lia.
  - now rewrite app_length, H3, K3.
  - apply Forall_app. now split.
Qed.
Lemma wf_concat_rows m : forall (Js : list (@mat R)) (ns : list nat),
  Forall2 (fun n J => wf n m J) ns Js -> Js <> [] -> wf (sumnat ns) m (concat Js).
Proof.
  induction 1 as [|n J ns Js HJ HF IH]; intros Hne; [congruence|].
  destruct Js as [|J' Js].
  - inversion HF; subst. cbn. rewrite app_nil_r, Nat.add_0_r. exact HJ.
  - cbn [concat sumnat fold_right map]. apply wf_app_rows; [exact HJ|]. apply IH. discriminate.
Qed.

Section AssembleWF.
Variable corr : cid -> @tensor R -> @mat R -> @tensor R * @mat R.

(* the corrected residuals have documented shapes (specs), the corrected Jacobians one row per residual element
   and m columns, the weights (if any) documented shapes: then the assembly returns R of length N, J of N x m and
   W of N x N (N = total number of residual elements), and W @ R is the broadcast product *)
Lemma assemble_wellformed (pb : @problem R) RJ (specs : list wres) m :
  correct_from corr (pbC pb) 0 (combine (pbR pb) (map (fun Jr => flatten_row_jacobian Jr (pbP pb)) (pbJ pb))) = Some RJ ->
  map fst RJ = map wres_R specs -> Forall wres_ok specs ->
  Forall2 (fun n J => wf n m J) (map (fun s => length (w_r s)) specs) (map snd RJ) -> specs <> [] ->
  (pbW pb = None \/ pbW pb = Some (map wres_W specs)) ->
  let Rv := concat (map w_r specs) in
  let N := length Rv in
  exists W, assemble corr pb = Some (Rv, W, concat (map snd RJ)) /\
    wf N m (concat (map snd RJ)) /\
    (pbW pb = None -> W = None) /\
    (pbW pb <> None -> exists W', W = Some W' /\ wf N N W' /\ W' = block_diag (concat (map wres_blocks specs)) /\
                                 mapply W' Rv = concat (map wres_WR specs)).
Proof.
  intros Hc Hfst Hok HJ Hne HW Rv N.
  assert (HN : N = sumnat (map (fun s => length (w_r s)) specs)).
  { subst N Rv. now rewrite concat_length_sum, map_map. }
  assert (HwJ : wf N m (concat (map snd RJ))).
  { rewrite HN. apply wf_concat_rows; [exact HJ|].
    intros E. apply map_eq_nil in E. subst RJ. cbn in Hfst. symmetry in Hfst. apply map_eq_nil in Hfst. contradiction. }
  assert (HNpos : (0 < N)%nat) by (eapply wf_pos_r; eassumption).
  assert (Hdata : concat (map tdata (map fst RJ)) = Rv).
  { rewrite Hfst, map_map. reflexivity. }
  unfold assemble, assemble_gen. rewrite Hc.
  destruct HW as [HW|HW].
  - exists None. unfold normalize_RWJ. rewrite HW, Hdata.
    split; [reflexivity|]. split; [exact HwJ|]. split; [reflexivity|]. intros H. congruence.
  - destruct (weighted_residuals_are_broadcast specs (map snd RJ) Hok) as (Hn & Hm & Hwf).
    exists (Some (block_diag (concat (map wres_blocks specs)))). rewrite HW, Hfst, Hn.
    split; [reflexivity|]. split; [exact HwJ|]. split; [intros H; congruence|].
    intros _. eexists. split; [reflexivity|]. split; [apply Hwf; exact HNpos|]. split; [reflexivity | exact Hm].
Qed.
End AssembleWF.

(* ---------------- instances ---------------- *)
Lemma clampT_below (lo hi x : R) : x < lo -> lo <= hi -> clampT lo hi x = lo.
Proof.
  intros H1 H2. unfold clampT. cbn [ltb NumR].
  replace (Rltb x lo) with true by (symmetry; now apply Rltb_true).
  replace (Rltb hi lo) with false by (symmetry; apply Rltb_false; lra). reflexivity.
Qed.

Section LMInstance.
(* free_pb: R = [1], J = [1 1], two Euclidean parameters; J^T J = [[1 1] [1 1]]; min = 2, max = 3: the clamp is
   active, A_0 = [[2 1] [1 2]]; two trials with damping 1: A_1 = [[4 1] [1 4]], A_2 = [[8 1] [1 8]] *)
Definition lmJ : @mat R := [[1; 1]].
Definition lmJT : @mat R := mtr lmJ.
Definition lmA0 : @mat R := lm_A0 2 3 lmJT lmJ.

Lemma lm_instance_init corr : lm_init corr 2 3 free_pb = Some (lmA0, lmJT, [1]).
Proof. reflexivity. Qed.

Lemma lm_instance_JTJ : wf 2 2 (mmul lmJT lmJ) /\ forall i j, (i < 2)%nat -> (j < 2)%nat -> mget (mmul lmJT lmJ) i j = 1.
Proof.
  split.
  - apply (wf_mmul 2 1 2); repeat split; cbn; try lia; repeat constructor.
  - intros i j Hi Hj. destruct i as [|[|i]]; destruct j as [|[|j]]; try lia;
      cbv [mmul lmJT lmJ mtr mkmat mkvec mrows mcols map seq length sumn mget nth add mul zero NumR]; lra.
Qed.

Lemma lm_instance_entries (lams : list R) i j : (i < 2)%nat -> (j < 2)%nat ->
  mget (lm_A lmA0 lams) i j = if Nat.eqb i j then 2 * prodR (map (fun l => 1 + l) lams) else 1.
Proof.
  intros Hi Hj. destruct lm_instance_JTJ as [Hw He]. unfold lmA0.
  rewrite (lm_diag_closed_form 2) by assumption. rewrite !He by assumption.
  rewrite clampT_below by lra. reflexivity.
Qed.

(* the system of the second trial is 8 x + y = -1, x + 8 y = -1 *)
Lemma lm_instance_second_system :
  mapply (lm_A lmA0 [1; 1]) [-1/9; -1/9] = vneg (mapply lmJT [1]).
Proof.
  assert (Hw : wf 2 2 (lm_A lmA0 [1; 1])).
  { apply wf_lm_A. unfold lmA0, lm_A0. apply wf_map_diag. apply lm_instance_JTJ. }
  apply (vec_ext 2); [now apply (length_mapply 2 2) | reflexivity |].
  intros i Hi. rewrite (vget_mapply 2 2) by assumption. cbn [sumn].
  rewrite !lm_instance_entries by lia.
  destruct i as [|[|i]]; try lia;
    cbv [Nat.eqb prodR map fold_right vget nth vneg mapply lmJT lmJ mtr mkmat mkvec mrows mcols seq length sumn mget
         add mul zero opp NumR]; lra.
Qed.

(* a call with two trials (the first one rejected or not: the parameter values ps1, ps2 are arbitrary) *)
Lemma lm_instance_chain gexp (solver : @mat R -> list R -> option (list R)) (ps1 ps2 : list (@param R)) D1 D2 :
  solver (lm_A lmA0 [1]) (lm_b lmJT [1]) = Some D1 -> solver (lm_A lmA0 [1; 1]) (lm_b lmJT [1]) = Some D2 ->
  length D1 = sumnat (map (@pnumel R) (filter (@preq R) ps1)) ->
  length D2 = sumnat (map (@pnumel R) (filter (@preq R) ps2)) ->
  exists outs, lm_chain gexp solver lmA0 lmJT [1] [(1, ps1); (1, ps2)] outs /\ map (@tD R) outs = [D1; D2].
Proof.
  intros H1 H2 L1 L2.
  destruct (update_split gexp ps1 D1 L1) as (p1' & U1 & _). destruct (update_split gexp ps2 D2 L2) as (p2' & U2 & _).
  exists [ {| tA := lm_A lmA0 [1]; tb := lm_b lmJT [1]; tD := D1; tP := p1' |};
           {| tA := lm_A lmA0 [1; 1]; tb := lm_b lmJT [1]; tD := D2; tP := p2' |} ].
  split; [|reflexivity]. cbn [lm_chain tA]. split; [|split; [|exact I]].
  - unfold lm_trial, lm_trial_gen. change (lm_damp 1 lmA0) with (lm_A lmA0 [1]). now rewrite H1, U1.
  - unfold lm_trial, lm_trial_gen. change (lm_damp 1 (lm_A lmA0 [1])) with (lm_A lmA0 [1; 1]). now rewrite H2, U2.
Qed.
End LMInstance.

Section WeightedInstance.
(* one residual of shape 2*1 = (r0, r1) with a weight of the documented shape N*R*R = 2*1*1 = (2, 3); parameters:
   a Euclidean scalar and one SO3 item (4 numbers, Jacobian block 2 x 4 with a zero last column) *)
Definition wpb (r0 r1 a1 a2 a3 b1 b2 b3 : R) : @problem R :=
  {| pbR := [{| tshape := [2; 1]%nat; tdata := [r0; r1] |}];
     pbJ := [[[1; 1]; [a1; a2; a3; 0; b1; b2; b3; 0]]];
     pbW := Some [{| tshape := [2; 1; 1]%nat; tdata := [2; 3] |}];
     pbC := [CTrivial];
     pbP := [{| pk := Euclid; pdata := [0]; preq := true |}; {| pk := Group 0; pdata := [0; 0; 0; 1]; preq := true |}] |}.

Lemma wpb_assemble corr r0 r1 a1 a2 a3 b1 b2 b3 :
  assemble corr (wpb r0 r1 a1 a2 a3 b1 b2 b3) =
  Some ([r0; r1], Some [[2; 0]; [0; 3]], [[1; a1; a2; a3; 0]; [1; b1; b2; b3; 0]]).
Proof. reflexivity. Qed.

Lemma wpb_steps corr gexp (solver : @mat R -> list R -> option (list R)) r0 r1 a1 a2 a3 b1 b2 b3 d0 d1 d2 d3 d4 :
  let J := [[1; a1; a2; a3; 0]; [1; b1; b2; b3; 0]] in
  let W := [[2; 0]; [0; 3]] in
  solver (mmul W J) (mapply (mneg W) [r0; r1]) = Some [d0; d1; d2; d3; d4] ->
  exists o, gn_step corr gexp solver (wpb r0 r1 a1 a2 a3 b1 b2 b3) = Some o /\
    map (@pdata R) (tP o) = [[0 + d0]; g_mul 0 (gexp 0%nat [d1; d2; d3]) [0; 0; 0; 1]].
Proof.
  intros J W Hs. unfold gn_step, gn_step_gen. rewrite wpb_assemble. cbn [gn_system]. fold J W. rewrite Hs.
  eexists. split; reflexivity.
Qed.

(* two residuals with documented weights satisfy the hypotheses of the multi-residual theorem *)
Lemma wres_instance (r0 r1 r2 r3 s0 s1 w0 w1 v0 : R) :
  Forall wres_ok [ {| w_pre := [2%nat]; w_suf := [2%nat]; w_d := 1%nat; w_r := [r0; r1; r2; r3]; w_w := [w0; w1] |};
                   {| w_pre := [2%nat]; w_suf := []; w_d := 1%nat; w_r := [s0; s1]; w_w := [v0] |} ].
Proof. repeat constructor. Qed.
End WeightedInstance.

(* the Penrose contract is satisfiable on the system of free_pb: A = [1 1], pinv A = [1/2 1/2]^T; the default GN
   solver then moves both parameters by -1/2, the minimum-norm solution *)
Section PinvInstance.
Definition pA : @mat R := [[1; 1]].
Definition pP : @mat R := [[1/2]; [1/2]].
Lemma pinv_instance_penrose : penrose 1 2 pA pP.
Proof.
  assert (HA : wf 1 2 pA) by (repeat split; cbn; try lia; repeat constructor).
  assert (HP : wf 2 1 pP) by (repeat split; cbn; try lia; repeat constructor).
  unfold penrose. split; [exact HP|].
  split; [|split; [|split]].
  - apply (mat_ext 1 2); [eauto with wf | exact HA |]. intros i j Hi Hj.
    destruct i as [|i]; [|lia]. destruct j as [|[|j]]; try lia;
      cbv [mmul pA pP mkmat mkvec mrows mcols map seq length sumn mget nth add mul zero NumR]; lra.
  - apply (mat_ext 2 1); [eauto with wf | exact HP |]. intros i j Hi Hj.
    destruct j as [|j]; [|lia]. destruct i as [|[|i]]; try lia;
      cbv [mmul pA pP mkmat mkvec mrows mcols map seq length sumn mget nth add mul zero NumR]; lra.
  - apply (mat_ext 1 1); [eauto with wf | eauto with wf |]. intros i j Hi Hj.
    destruct i as [|i]; [|lia]. destruct j as [|j]; [|lia].
    cbv [mtr mmul pA pP mkmat mkvec mrows mcols map seq length sumn mget nth add mul zero NumR]; lra.
  - apply (mat_ext 2 2); [eauto with wf | eauto with wf |]. intros i j Hi Hj.
    destruct i as [|[|i]]; try lia; destruct j as [|[|j]]; try lia;
      cbv [mtr mmul pA pP mkmat mkvec mrows mcols map seq length sumn mget nth add mul zero NumR]; lra.
Qed.
Lemma pinv_instance_steps corr gexp (pinv : @mat R -> @mat R) : pinv pA = pP ->
  exists o, gn_step corr gexp (pinv_solver pinv) free_pb = Some o /\ tA o = pA /\
            tD o = mapply pP (vneg [1]) /\ vget (tD o) 0 = -1/2 /\ vget (tD o) 1 = -1/2.
Proof.
  intros Hp. unfold gn_step, gn_step_gen.
  assert (Ha : assemble corr free_pb = Some ([1], None, pA)) by reflexivity.
  rewrite Ha. cbn [gn_system]. unfold pinv_solver. rewrite Hp.
  assert (HL : length (mapply pP (vneg [1])) = sumnat (map (@pnumel R) (filter (@preq R) (pbP free_pb)))) by reflexivity.
  destruct (update_split gexp (pbP free_pb) _ HL) as (ps' & HU & _). rewrite HU.
  eexists. split; [reflexivity|]. cbn [tA tD]. repeat split;
    cbv [mapply pP vneg mkvec mrows mcols map seq length sumn mget vget nth add mul zero opp NumR]; lra.
Qed.
End PinvInstance.

(* ---- the update of LieTensor parameters with the kinds spelled out ---- *)
Section LieItems.
Context {F : Type} {NF : Num F}.
Variable gexp : nat -> list F -> list F.
Lemma update_lie_items_kinds (ps ps' : list (@param F)) step i n :
  update_parameter gexp ps step = Some ps' -> (i < length ps)%nat ->
  preq (nth i ps pdflt) = true -> pk (nth i ps pdflt) <> Euclid ->
  pnumel (nth i ps pdflt) = (n * pwidth (pk (nth i ps pdflt)))%nat ->
  length (pdata (nth i ps' pdflt)) = pnumel (nth i ps pdflt) /\
  forall t, (t < n)%nat ->
    let w := pwidth (pk (nth i ps pdflt)) in
    let o := (toffset ps i + t * w)%nat in
    chunk w t (pdata (nth i ps' pdflt)) =
    match pk (nth i ps pdflt) with
    | Euclid => chunk w t (pdata (nth i ps pdflt))
    | Algebra g => zipw add (chunk w t (pdata (nth i ps pdflt))) (firstn (adim g) (skipn o step))
    | Group g => g_mul g (gexp g (firstn (adim g) (skipn o step))) (chunk w t (pdata (nth i ps pdflt)))
    end.
Proof.
  intros HU Hi Hq Hk Hn. destruct (update_lie_items gexp ps ps' step i n HU Hi Hq Hk Hn) as [HL HC].
  split; [exact HL|]. intros t Ht w o. subst w o. rewrite (HC t Ht).
  destruct (pk (nth i ps pdflt)) as [|g|g]; [congruence| |]; cbn [add_item pwidth].
  - now rewrite firstn_firstn, Nat.min_id.
  - now rewrite firstn_firstn_le by lia.
Qed.
End LieItems.

(* a weight whose batch shape has as many items as a suffix of the residual's batch shape (leading extents 1:
   1*N*R*R, 1*1*R*R, ...) expands like that suffix *)
Lemma expand_weight_same_count {F} {NF : Num F} (pre suf ws : list nat) (d : nat) (rdata wdata : list F) :
  (0 < d)%nat -> (0 < prodn suf)%nat -> prodn ws = prodn suf ->
  expand_weight {| tshape := (pre ++ suf) ++ [d]; tdata := rdata |} {| tshape := ws ++ [d; d]; tdata := wdata |}
  = Some (map (fun t => wblock d wdata (t mod prodn suf)) (seq 0 (prodn pre * prodn suf))).
Proof.
  intros Hd Hs Hw. rewrite expand_weight_general by (try assumption; lia).
  now rewrite Hw, prodn_app, Nat.div_mul by lia.
Qed.

(* the weighted instance has the shapes the least-squares theorem asks for *)
Lemma wpb_shapes (a1 a2 a3 b1 b2 b3 : R) :
  wf 2 5 ([[1; a1; a2; a3; 0]; [1; b1; b2; b3; 0]] : @mat R) /\ wf 2 2 ([[2; 0]; [0; 3]] : @mat R).
Proof. split; repeat split; cbn; try lia; repeat constructor. Qed.
Lemma wpb_wellformed_hyps corr r0 r1 a1 a2 a3 b1 b2 b3 :
  let pb := wpb r0 r1 a1 a2 a3 b1 b2 b3 in
  let specs := [ {| w_pre := []; w_suf := [2%nat]; w_d := 1%nat; w_r := [r0; r1]; w_w := [2; 3] |} ] in
  let RJ := [({| tshape := [2; 1]%nat; tdata := [r0; r1] |}, [[1; a1; a2; a3; 0]; [1; b1; b2; b3; 0]])] in
  correct_from corr (pbC pb) 0 (combine (pbR pb) (map (fun Jr => flatten_row_jacobian Jr (pbP pb)) (pbJ pb))) = Some RJ /\
  map fst RJ = map wres_R specs /\ Forall wres_ok specs /\
  Forall2 (fun n J => wf n 5 J) (map (fun s => length (w_r s)) specs) (map snd RJ) /\ specs <> [] /\
  pbW pb = Some (map wres_W specs).
Proof.
  cbv zeta. split; [reflexivity|]. split; [reflexivity|]. split; [repeat constructor|].
  split; [|split; [discriminate | reflexivity]].
  constructor; [|constructor]. apply wpb_shapes.
Qed.

(* the expansion of an inner-singleton weight is not torch's broadcast *)
Lemma inner_singleton_refuted :
  exists (rs ws : list nat) (d : nat) (rdata wdata : list R) blocks,
    expand_weight {| tshape := rs ++ [d]; tdata := rdata |} {| tshape := ws ++ [d; d]; tdata := wdata |} = Some blocks /\
    blocks <> map (fun t => wblock d wdata (torch_bcast_index rs ws t)) (seq 0 (prodn rs)).
Proof.
  exists [2; 2]%nat, [2; 1]%nat, 1%nat, [0; 0; 0; 0], [1; 2], [[[1]]; [[2]]; [[1]]; [[2]]].
  split; [exact (proj1 (inner_singleton_blocks 1 2 _))|].
  change (prodn [2; 2]%nat) with 4%nat. rewrite (proj2 (inner_singleton_blocks 1 2 [])).
  intros E. inversion E. lra.
Qed.
