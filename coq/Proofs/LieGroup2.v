(* C03 (strengthening): homogeneous action of a product, identity / inverse under matrix(),
   the rotation block is a rotation matrix, accessor blocks at the list (tensor) level for all
   four groups, identity constructors at the list level, necessity of the unit hypothesis. *)
From Coq Require Import Reals Lra Psatz List Nsatz.
Import ListNotations.
From PV Require Import Base.Num Base.RTac Model.LieGroup Proofs.LieGroup.
Local Open Scope R_scope.
#[local] Remove Hints NumQ NumZ : typeclass_instances.

(* ---------------- 4x4 matrix algebra *)
Definition mid4 : @mat4 R := block4 mid3 vzero.
Lemma mv4_mm4 (A B : @mat4 R) (p : vec4R) : mv4 (mm4 A B) p = mv4 A (mv4 B p).
Proof. lie_ring. Qed.
Lemma mv4_mid4 (p : vec4R) : mv4 mid4 p = p.
Proof. unfold mid4. lie_ring. Qed.
Lemma mvmul_mmul3 (A B : @mat3 R) (p : vec3R) : mvmul (mmul3 A B) p = mvmul A (mvmul B p).
Proof. lie_ring. Qed.

(* ---------------- Act on homogeneous 4-vectors of a product, every weight w (0, 1 or any other) *)
Lemma SO3_act4_mul (X Y : quatR) (p : vec4R) : unitq X -> unitq Y ->
  SO3_act4 (SO3_mul X Y) p = SO3_act4 X (SO3_act4 Y p).
Proof. intros HX HY. unfold SO3_act4. cbn [fst snd]. now rewrite SO3_act_mul. Qed.
Lemma SE3_act4_mul (X Y : se3R) (p : vec4R) : valid_SE3 X -> valid_SE3 Y ->
  SE3_act4 (SE3_mul X Y) p = SE3_act4 X (SE3_act4 Y p).
Proof.
  intros HX HY. rewrite (SE3_act4_is_matrix (SE3_mul X Y)), SE3_matrix_mul by assumption.
  now rewrite mv4_mm4, <- !SE3_act4_is_matrix.
Qed.
Lemma RxSO3_act4_mul (X Y : rxso3R) (p : vec4R) : unitq (fst X) -> unitq (fst Y) ->
  RxSO3_act4 (RxSO3_mul X Y) p = RxSO3_act4 X (RxSO3_act4 Y p).
Proof. intros HX HY. unfold RxSO3_act4. cbn [fst snd]. now rewrite RxSO3_act_mul. Qed.
Lemma Sim3_act4_mul (X Y : sim3R) (p : vec4R) : unitq (fst (snd X)) -> unitq (fst (snd Y)) ->
  Sim3_act4 (Sim3_mul X Y) p = Sim3_act4 X (Sim3_act4 Y p).
Proof.
  intros HX HY. rewrite (Sim3_act4_is_matrix (Sim3_mul X Y)), Sim3_matrix_mul by assumption.
  now rewrite mv4_mm4, <- !Sim3_act4_is_matrix.
Qed.

(* Act on a 3-vector is the matrix applied to the homogeneous point (p, 1), all four groups through
   the 4x4 matrix() where the library returns a 4x4 one *)
Lemma RxSO3_act_is_matrix4 (X : rxso3R) (p : vec3R) (w : R) :
  (RxSO3_act X p, w) = mv4 (matrix4 RxSO3_act4 X) (p, w).
Proof. lie_ring. Qed.
Lemma SE3_act_is_matrix4 (X : se3R) (p : vec3R) : (SE3_act X p, 1) = mv4 (matrix4 SE3_act4 X) (p, 1).
Proof. lie_ring. Qed.
Lemma Sim3_act_is_matrix4 (X : sim3R) (p : vec3R) : (Sim3_act X p, 1) = mv4 (matrix4 Sim3_act4 X) (p, 1).
Proof. lie_ring. Qed.
(* directions (w = 0) are rotated / scaled but not translated *)
Lemma SE3_act4_direction (X : se3R) (d : vec3R) : SE3_act4 X (d, 0) = (SO3_act (snd X) d, 0).
Proof. lie_ring. Qed.
Lemma Sim3_act4_direction (X : sim3R) (d : vec3R) : Sim3_act4 X (d, 0) = (RxSO3_act (snd X) d, 0).
Proof. lie_ring. Qed.
(* general weight: the translation enters w times *)
Lemma SE3_act4_weight (X : se3R) (p : vec3R) (w : R) :
  SE3_act4 X (p, w) = (vadd (SO3_act (snd X) p) (vscale w (fst X)), w).
Proof. reflexivity. Qed.
Lemma Sim3_act4_weight (X : sim3R) (p : vec3R) (w : R) :
  Sim3_act4 X (p, w) = (vadd (RxSO3_act (snd X) p) (vscale w (fst X)), w).
Proof. reflexivity. Qed.

(* ---------------- identity and inverse under matrix() and the actions *)
Lemma SO3_matrix_id : SO3_matrix SO3_id = mid3.
Proof. lie_ring. Qed.
Lemma SE3_matrix_id : matrix4 SE3_act4 SE3_id = mid4.
Proof. unfold mid4. lie_ring. Qed.
Lemma RxSO3_matrix_id : matrix4 RxSO3_act4 RxSO3_id = mid4.
Proof. unfold mid4. lie_ring. Qed.
Lemma Sim3_matrix_id : matrix4 Sim3_act4 Sim3_id = mid4.
Proof. unfold mid4. lie_ring. Qed.
Lemma SO3_act4_id p : SO3_act4 SO3_id p = p.  Proof. lie_ring. Qed.
Lemma SE3_act4_id p : SE3_act4 SE3_id p = p.  Proof. lie_ring. Qed.
Lemma RxSO3_act4_id p : RxSO3_act4 RxSO3_id p = p.  Proof. lie_ring. Qed.
Lemma Sim3_act4_id p : Sim3_act4 Sim3_id p = p.  Proof. lie_ring. Qed.

Lemma SO3_matrix_inv (X : quatR) : SO3_matrix (SO3_inv X) = mtrans (SO3_matrix X).
Proof. lie_ring. Qed.
Lemma SO3_matrix_orth (q : quatR) : unitq q -> mmul3 (SO3_matrix q) (mtrans (SO3_matrix q)) = mid3.
Proof. unfold unitq. destruct q as [[[x y] z] w]. lie_unfold. intros H. split_pairs; nsatz. Qed.
Lemma SO3_matrix_orth' (q : quatR) : unitq q -> mmul3 (mtrans (SO3_matrix q)) (SO3_matrix q) = mid3.
Proof. unfold unitq. destruct q as [[[x y] z] w]. lie_unfold. intros H. split_pairs; nsatz. Qed.
Lemma SO3_matrix_det (q : quatR) : unitq q -> mdet3 (SO3_matrix q) = 1.
Proof. unfold unitq. destruct q as [[[x y] z] w]. lie_unfold. intros H. nsatz. Qed.

Lemma SE3_matrix_inv (X : se3R) : valid_SE3 X ->
  mm4 (matrix4 SE3_act4 X) (matrix4 SE3_act4 (SE3_inv X)) = mid4 /\
  mm4 (matrix4 SE3_act4 (SE3_inv X)) (matrix4 SE3_act4 X) = mid4.
Proof.
  intros H. assert (Hi : valid_SE3 (SE3_inv X)) by now apply valid_SE3_inv.
  rewrite <- !SE3_matrix_mul by assumption.
  rewrite SE3_inv_r, SE3_inv_l by assumption. split; apply SE3_matrix_id.
Qed.
Lemma RxSO3_matrix_inv (X : rxso3R) : valid_RxSO3 X ->
  mm4 (matrix4 RxSO3_act4 X) (matrix4 RxSO3_act4 (RxSO3_inv X)) = mid4 /\
  mm4 (matrix4 RxSO3_act4 (RxSO3_inv X)) (matrix4 RxSO3_act4 X) = mid4.
Proof.
  intros H. pose proof (valid_RxSO3_inv X H) as Hi. destruct H as [H Hs], Hi as [Hi _].
  rewrite <- !RxSO3_matrix4_mul by assumption.
  rewrite RxSO3_inv_r, RxSO3_inv_l by (try assumption; now apply Rgt_not_eq). split; apply RxSO3_matrix_id.
Qed.
Lemma Sim3_matrix_inv (X : sim3R) : valid_Sim3 X ->
  mm4 (matrix4 Sim3_act4 X) (matrix4 Sim3_act4 (Sim3_inv X)) = mid4 /\
  mm4 (matrix4 Sim3_act4 (Sim3_inv X)) (matrix4 Sim3_act4 X) = mid4.
Proof.
  intros H. pose proof (valid_Sim3_inv X H) as Hi. destruct H as [H Hs], Hi as [Hi _].
  rewrite <- !Sim3_matrix_mul by assumption.
  rewrite Sim3_inv_r, Sim3_inv_l by (try assumption; now apply Rgt_not_eq). split; apply Sim3_matrix_id.
Qed.

(* Inv undoes Act (3- and 4-vectors) *)
Lemma SE3_act_inv (X : se3R) p : valid_SE3 X -> SE3_act (SE3_inv X) (SE3_act X p) = p /\ SE3_act X (SE3_act (SE3_inv X) p) = p.
Proof.
  intros H. assert (Hi : valid_SE3 (SE3_inv X)) by now apply valid_SE3_inv.
  rewrite <- !SE3_act_mul by assumption. rewrite SE3_inv_r, SE3_inv_l by assumption. split; apply SE3_act_id.
Qed.
Lemma Sim3_act_inv (X : sim3R) p : valid_Sim3 X -> Sim3_act (Sim3_inv X) (Sim3_act X p) = p /\ Sim3_act X (Sim3_act (Sim3_inv X) p) = p.
Proof.
  intros H. pose proof (valid_Sim3_inv X H) as Hi. destruct H as [H Hs], Hi as [Hi _].
  rewrite <- !Sim3_act_mul by assumption. rewrite Sim3_inv_r, Sim3_inv_l by (try assumption; now apply Rgt_not_eq). split; apply Sim3_act_id.
Qed.
Lemma Sim3_act4_inv (X : sim3R) p : valid_Sim3 X -> Sim3_act4 (Sim3_inv X) (Sim3_act4 X p) = p /\ Sim3_act4 X (Sim3_act4 (Sim3_inv X) p) = p.
Proof.
  intros H. pose proof (valid_Sim3_inv X H) as Hi. destruct H as [H Hs], Hi as [Hi _].
  rewrite <- !Sim3_act4_mul by assumption. rewrite Sim3_inv_r, Sim3_inv_l by (try assumption; now apply Rgt_not_eq). split; apply Sim3_act4_id.
Qed.
Lemma SE3_act4_inv (X : se3R) p : valid_SE3 X -> SE3_act4 (SE3_inv X) (SE3_act4 X p) = p /\ SE3_act4 X (SE3_act4 (SE3_inv X) p) = p.
Proof.
  intros H. assert (Hi : valid_SE3 (SE3_inv X)) by now apply valid_SE3_inv.
  rewrite <- !SE3_act4_mul by assumption. rewrite SE3_inv_r, SE3_inv_l by assumption. split; apply SE3_act4_id.
Qed.

(* Inv is an involution and an anti-homomorphism *)
Lemma SO3_inv_inv (X : quatR) : SO3_inv (SO3_inv X) = X.
Proof. lie_ring. Qed.
Lemma SO3_inv_mul (X Y : quatR) : SO3_inv (SO3_mul X Y) = SO3_mul (SO3_inv Y) (SO3_inv X).
Proof. lie_ring. Qed.
Lemma RxSO3_inv_inv (X : rxso3R) : snd X <> 0 -> RxSO3_inv (RxSO3_inv X) = X.
Proof. destruct X as [q s]. cbn [snd]. intros Hs. unfold RxSO3_inv. cbn [fst snd]. apply pair_eq; [apply SO3_inv_inv|]. num_unfold. now field. Qed.
Lemma RxSO3_inv_mul (X Y : rxso3R) : snd X <> 0 -> snd Y <> 0 ->
  RxSO3_inv (RxSO3_mul X Y) = RxSO3_mul (RxSO3_inv Y) (RxSO3_inv X).
Proof.
  destruct X as [q s], Y as [r t]. cbn [snd]. intros Hs Ht. unfold RxSO3_inv, RxSO3_mul. cbn [fst snd].
  apply pair_eq; [apply SO3_inv_mul|]. num_unfold. now field.
Qed.
(* generic: in a monoid-like structure the inverse of a product, from the two-sided inverse laws *)
Lemma SE3_inv_mul (X Y : se3R) : valid_SE3 X -> valid_SE3 Y ->
  SE3_inv (SE3_mul X Y) = SE3_mul (SE3_inv Y) (SE3_inv X).
Proof.
  intros HX HY.
  pose proof (valid_SE3_inv X HX) as HXi. pose proof (valid_SE3_inv Y HY) as HYi.
  pose proof (valid_SE3_mul X Y HX HY) as HXY. pose proof (valid_SE3_inv _ HXY) as HXYi.
  pose proof (valid_SE3_mul _ _ HYi HXi) as HYX.
  (* (XY)^-1 = (XY)^-1 (XY) (Y^-1 X^-1) *)
  rewrite <- (SE3_id_r (SE3_inv (SE3_mul X Y))).
  replace SE3_id with (SE3_mul (SE3_mul X Y) (SE3_mul (SE3_inv Y) (SE3_inv X))).
  - rewrite <- SE3_mul_assoc by assumption. rewrite SE3_inv_l by assumption. apply SE3_id_l.
  - rewrite SE3_mul_assoc by assumption. rewrite <- (SE3_mul_assoc Y) by assumption.
    rewrite SE3_inv_r by assumption. rewrite SE3_id_l. now apply SE3_inv_r.
Qed.
Lemma SE3_inv_inv (X : se3R) : valid_SE3 X -> SE3_inv (SE3_inv X) = X.
Proof.
  intros HX. pose proof (valid_SE3_inv X HX) as HXi. pose proof (valid_SE3_inv _ HXi) as HXii.
  rewrite <- (SE3_id_r (SE3_inv (SE3_inv X))). rewrite <- (SE3_inv_l X HX).
  rewrite <- SE3_mul_assoc by assumption. rewrite SE3_inv_l by assumption. apply SE3_id_l.
Qed.
Lemma Sim3_inv_mul (X Y : sim3R) : valid_Sim3 X -> valid_Sim3 Y ->
  Sim3_inv (Sim3_mul X Y) = Sim3_mul (Sim3_inv Y) (Sim3_inv X).
Proof.
  intros HX HY.
  pose proof (valid_Sim3_inv X HX) as HXi. pose proof (valid_Sim3_inv Y HY) as HYi.
  pose proof (valid_Sim3_mul X Y HX HY) as HXY. pose proof (valid_Sim3_inv _ HXY) as HXYi.
  pose proof (valid_Sim3_mul _ _ HYi HXi) as HYX.
  assert (nz : forall Z, valid_Sim3 Z -> snd (snd Z) <> 0) by (intros Z [_ H]; now apply Rgt_not_eq).
  assert (un : forall Z, valid_Sim3 Z -> unitq (fst (snd Z))) by (intros Z [H _]; exact H).
  rewrite <- (Sim3_id_r (Sim3_inv (Sim3_mul X Y))).
  replace Sim3_id with (Sim3_mul (Sim3_mul X Y) (Sim3_mul (Sim3_inv Y) (Sim3_inv X))).
  - rewrite <- Sim3_mul_assoc by auto. rewrite Sim3_inv_l by auto. apply Sim3_id_l.
  - rewrite Sim3_mul_assoc by auto. rewrite <- (Sim3_mul_assoc Y) by auto.
    rewrite Sim3_inv_r by auto. rewrite Sim3_id_l. apply Sim3_inv_r; auto.
Qed.
Lemma Sim3_inv_inv (X : sim3R) : valid_Sim3 X -> Sim3_inv (Sim3_inv X) = X.
Proof.
  intros HX. pose proof (valid_Sim3_inv X HX) as HXi. pose proof (valid_Sim3_inv _ HXi) as HXii.
  assert (nz : forall Z, valid_Sim3 Z -> snd (snd Z) <> 0) by (intros Z [_ H]; now apply Rgt_not_eq).
  assert (un : forall Z, valid_Sim3 Z -> unitq (fst (snd Z))) by (intros Z [H _]; exact H).
  rewrite <- (Sim3_id_r (Sim3_inv (Sim3_inv X))). rewrite <- (Sim3_inv_l X) by auto.
  rewrite <- Sim3_mul_assoc by auto. rewrite Sim3_inv_l by auto. apply Sim3_id_l.
Qed.

(* ---------------- the unit-quaternion hypothesis of the product laws is needed:
   for a non-unit quaternion the library's Act (p + 2 w v x p + 2 v x (v x p)) is not q p q^* *)
Definition q_nonunit : quatR := ((1, 0, 0), 1).
Lemma act_mul_needs_unit :
  SO3_act (SO3_mul q_nonunit q_nonunit) (0, 1, 0) <> SO3_act q_nonunit (SO3_act q_nonunit (0, 1, 0)).
Proof.
  unfold q_nonunit. lie_unfold. intros H. injection H as _ H2 _. lra.
Qed.
Lemma SE3_assoc_needs_unit :
  let X : se3R := (vzero, q_nonunit) in
  SE3_mul (SE3_mul X X) ((0, 1, 0), SO3_id) <> SE3_mul X (SE3_mul X ((0, 1, 0), SO3_id)).
Proof.
  unfold q_nonunit. lie_unfold. intros H. injection H as _ H2 _. lra.
Qed.

(* ---------------- accessors and identity constructors at the list (tensor row) level *)
(* the documented representation built from what rotation(), translation() and scale() return *)
Definition doc_matrix (g : nat) (rot trans sc : list R) : list R :=
  match g with
  | 0%nat => m3_l (SO3_matrix (l_q rot))
  | _ => m4_l (block4 (mscale3 (nth 0 sc 0) (SO3_matrix (l_q rot))) (l_v3 trans))
  end.
Definition gdim (g : nat) : nat := match g with 0 => 4 | 1 => 7 | 2 => 5 | _ => 8 end%nat.

Ltac list_cases x H :=
  repeat (destruct x as [|? x]; [discriminate H|]); destruct x; [|discriminate H]; clear H.

Lemma matrix_accessor_blocks (g : nat) (x : list R) : (g < 4)%nat -> length x = gdim g ->
  g_matrix g x = doc_matrix g (g_rotation g x) (g_translation g x) (g_scale g x).
Proof.
  intros Hg Hl. destruct g as [|[|[|[|g]]]]; [| | | |lia]; cbn [gdim] in Hl; list_cases x Hl;
    cbv [g_matrix doc_matrix g_rotation g_translation g_scale firstn skipn l_q l_v3 l_SE3 l_RxSO3 l_Sim3 nth
         m3_l m4_l v3_l v4_l app];
    lie_unfold; repeat (apply f_equal2; [try ring|]); try reflexivity.
Qed.
(* shapes of the accessors and the layout of the element: translation ++ rotation ++ scale *)
Lemma accessor_layout (g : nat) (x : list R) : (g < 4)%nat -> length x = gdim g ->
  length (g_rotation g x) = 4%nat /\ length (g_translation g x) = 3%nat /\ length (g_scale g x) = 1%nat /\
  x = (match g with 1%nat | 3%nat => g_translation g x | _ => [] end) ++ g_rotation g x ++
      (match g with 2%nat | 3%nat => g_scale g x | _ => [] end).
Proof.
  intros Hg Hl. destruct g as [|[|[|[|g]]]]; [| | | |lia]; cbn [gdim] in Hl; list_cases x Hl; cbn; auto.
Qed.
(* the constructors: identity / identity_like / identity_ all produce this row *)
Lemma identity_rows :
  g_id 0 = [0; 0; 0; 1] /\ g_id 1 = [0; 0; 0; 0; 0; 0; 1] /\ g_id 2 = [0; 0; 0; 1; 1] /\
  g_id 3 = [0; 0; 0; 0; 0; 0; 1; 1].
Proof. repeat split. Qed.
Lemma identity_neutral_rows (g : nat) (x : list R) : (g < 4)%nat -> length x = gdim g ->
  g_mul g (g_id g) x = x /\ g_mul g x (g_id g) = x /\ g_inv g (g_id g) = g_id g /\
  g_matrix g (g_id g) = doc_matrix g [0; 0; 0; 1] [0; 0; 0] [1] /\
  (forall p, length p = 3%nat -> g_act g (g_id g) p = p) /\
  (forall p, length p = 4%nat -> g_act4 g (g_id g) p = p).
Proof.
  intros Hg Hl. destruct g as [|[|[|[|g]]]]; [| | | |lia]; cbn [gdim] in Hl; list_cases x Hl;
  (split; [|split; [|split; [|split; [|split]]]]);
  try (intros p Hp; list_cases p Hp);
  cbv [g_mul g_id g_inv g_matrix g_act g_act4 doc_matrix firstn skipn l_q l_v3 l_v4 l_SE3 l_RxSO3 l_Sim3 nth
       q_l SE3_l RxSO3_l Sim3_l m3_l m4_l v3_l v4_l app];
  lie_unfold; repeat (apply f_equal2; [try (field; lra)|]); try reflexivity.
Qed.
