(* C02 (part 3): Log (Inv X) = - Log X for SE3 and Sim3 (regime 1 of SO3_Log, unit quaternion). *)
From Coq Require Import Reals Lra Psatz List Nsatz.
From Coquelicot Require Import Coquelicot.
Import ListNotations.
From PV Require Import Proofs.ExpODE Proofs.ExpODE2 Proofs.ExpODE3.
From PV Require Import Base.Num Base.RTac Model.LieGroup Model.LieExp Model.LieLog Proofs.LieGroup Proofs.LieExp
  Proofs.LieLog Proofs.LieLog2.
Local Open Scope R_scope.
#[local] Remove Hints NumQ NumZ : typeclass_instances.

Lemma vneg_invol (v : vec3R) : vneg (vneg v) = v.
Proof. destruct v as [[x y] z]. lie_unfold. split_pairs; ring. Qed.
Lemma mvmul_vneg (A : @mat3 R) (v : vec3R) : mvmul A (vneg v) = vneg (mvmul A v).
Proof. lie_ring. Qed.

(* Jl_inv(psi) R(psi) = Jl_inv(-psi)   (half-angle form: S = sin th, C = cos th, s = sin th/2, cc = cos th/2) *)
Lemma Jl_inv_rod_poly (a b c th S C s cc : R) :
  th <> 0 -> s <> 0 -> a * a + b * b + c * c = th * th ->
  S = 2 * s * cc -> C = 1 - 2 * s * s -> s * s + cc * cc = 1 ->
  let K := skew (a, b, c) in
  let K' := skew (- a, - b, - c) in
  let k := (1 - th * cc / (2 * s)) / (th * th) in
  let Ro := madd3 (madd3 mid3 (mscale3 (S / th) K)) (mscale3 ((1 - C) / (th * th)) (mmul3 K K)) in
  let Ji := madd3 (madd3 mid3 (mscale3 (- (1 / 2)) K)) (mscale3 k (mmul3 K K)) in
  let Ji' := madd3 (madd3 mid3 (mscale3 (- (1 / 2)) K')) (mscale3 k (mmul3 K' K')) in
  mmul3 Ji Ro = Ji'.
Proof.
  intros Hth Hs Hn HS HC Hsc. cbv zeta. subst S C. lie_unfold.
  split_pairs; field_simplify_eq; auto; cbn [Rpow_def.pow]; clear Hth Hs; nsatz.
Qed.

Lemma so3_Jl_inv_rod (eps : R) (x : vec3R) : 0 <= eps -> eps < vnorm x -> vnorm x < 2 * PI ->
  mmul3 (so3_Jl_inv eps x) (rodrigues x) = so3_Jl_inv eps (vneg x).
Proof.
  intros He Hx Hpi. pose proof (vnorm_sq x) as Hs.
  unfold so3_Jl_inv, so3_Jl_inv_coef, rodrigues. rewrite vnorm_neg. repeat branch_true.
  set (t := vnorm x) in *. num_simpl.
  assert (Hsin : 0 < sin (1 / 2 * t)) by (apply sin_gt_0; lra).
  destruct x as [[a b] c].
  assert (Hn : a * a + b * b + c * c = t * t) by (revert Hs; lie_unfold; intros; lra).
  pose proof (sin2_cos2 (1 / 2 * t)) as Hsc. unfold Rsqr in Hsc.
  replace (vneg (a, b, c)) with (- a, - b, - c) by reflexivity.
  apply (Jl_inv_rod_poly a b c t (sin t) (cos t) (sin (1 / 2 * t)) (cos (1 / 2 * t))); auto; try lra.
  - replace t with (2 * (1 / 2 * t)) at 1 by field. apply sin_2a.
  - replace t with (2 * (1 / 2 * t)) at 1 by field. apply cos_2a_sin.
Qed.

(* matrix of a unit quaternion in regime 1 = Rodrigues of its Log *)
Lemma SO3_matrix_rod_log (eps : R) (q : quatR) : 0 <= eps -> eps < vnorm (qv q) -> eps < Rabs (qw q) -> unitq q ->
  SO3_matrix q = rodrigues (SO3_log eps q).
Proof.
  intros He Hv Hw Hu. rewrite <- (exp_log_same_rotation_model eps q He Hv Hw Hu).
  apply so3_matrix_rodrigues; auto. now apply SO3_log_norm_gt_eps.
Qed.

Lemma SE3_log_inv (eps : R) (X : se3R) : 0 <= eps -> eps < vnorm (qv (snd X)) -> eps < Rabs (qw (snd X)) ->
  unitq (snd X) -> SE3_log eps (SE3_inv X) = (vneg (fst (SE3_log eps X)), vneg (snd (SE3_log eps X))).
Proof.
  intros He Hv Hw Hu. destruct X as [t q]. cbn [fst snd] in *. unfold SE3_log, SE3_inv. cbn [fst snd].
  rewrite SO3_log_inv. apply pair_eq; [|reflexivity].
  assert (Hvi : eps < vnorm (qv (SO3_inv q))) by (unfold SO3_inv; cbn [qv fst]; now rewrite vnorm_neg).
  assert (Hwi : eps < Rabs (qw (SO3_inv q))) by (unfold SO3_inv; cbn [qw snd]; exact Hw).
  pose proof (unitq_inv q Hu) as Hui.
  rewrite SO3_act_is_matrix, (SO3_matrix_rod_log eps (SO3_inv q) He Hvi Hwi Hui), SO3_log_inv.
  pose proof (SO3_log_norm_gt_eps eps q He Hv Hw Hu) as Hlo. pose proof (SO3_log_norm_regime1 eps q Hv Hw He) as Hhi.
  pose proof PI_RGT_0.
  rewrite mvmul_vneg, mvmul_mmul3, so3_Jl_inv_rod by (rewrite ?vnorm_neg; auto; lra).
  now rewrite vneg_invol.
Qed.

(* ------------------------------------------------------------------ Sim3: Log (Inv X) = - Log X *)
(* polynomials in K = skew x:  p0 I + p1 K + p2 K^2, with K^3 = - n K *)
Definition polyK (x : vec3R) (p0 p1 p2 : R) : @mat3 R :=
  madd3 (madd3 (mscale3 p1 (skew x)) (mscale3 p2 (mmul3 (skew x) (skew x)))) (mscale3 p0 mid3).
Lemma polyK_mul (a b c p0 p1 p2 q0 q1 q2 : R) :
  let n := a * a + b * b + c * c in
  mmul3 (polyK (a, b, c) p0 p1 p2) (polyK (a, b, c) q0 q1 q2)
  = polyK (a, b, c) (p0 * q0) (p0 * q1 + p1 * q0 - n * (p1 * q2 + p2 * q1)) (p0 * q2 + p1 * q1 + p2 * q0 - n * (p2 * q2)).
Proof. cbv zeta. unfold polyK. lie_unfold. split_pairs; ring. Qed.
Lemma polyK_neg (a b c p0 p1 p2 : R) : polyK (- a, - b, - c) p0 p1 p2 = polyK (a, b, c) p0 (- p1) p2.
Proof. unfold polyK. lie_unfold. split_pairs; ring. Qed.
Lemma polyK_scale (k a b c p0 p1 p2 : R) : mscale3 k (polyK (a, b, c) p0 p1 p2) = polyK (a, b, c) (k * p0) (k * p1) (k * p2).
Proof. unfold polyK. lie_unfold. split_pairs; ring. Qed.
Lemma polyK_ext (x : vec3R) p0 p1 p2 q0 q1 q2 : p0 = q0 -> p1 = q1 -> p2 = q2 -> polyK x p0 p1 p2 = polyK x q0 q1 q2.
Proof. now intros -> -> ->. Qed.

Definition WsP (x : vec3R) (th sg E S C : R) : @mat3 R :=
  let cc := th * th + sg * sg in
  let Cc := (E - 1) / sg in
  let A := (E * S * sg + (1 - E * C) * th) / (th * cc) in
  let B := (Cc - ((E * C - 1) * sg + E * S * th) / cc) / (th * th) in
  polyK x Cc A B.

Lemma Ws_inv_poly (a b c th sg E S C : R) :
  th <> 0 -> sg <> 0 -> E <> 0 -> a * a + b * b + c * c = th * th -> S * S + C * C = 1 ->
  mmul3 (mscale3 (/ E) (polyK (a, b, c) 1 (S / th) ((1 - C) / (th * th)))) (WsP (- a, - b, - c) th sg E S C)
  = WsP (a, b, c) th (- sg) (/ E) S C.
Proof.
  intros Hth Hsg HE Hn Hsc. unfold WsP. cbv zeta. pose proof (sq_sum_pos th sg Hth) as Hc.
  assert (Hc' : th * th + - sg * - sg <> 0) by nra.
  rewrite polyK_neg, polyK_scale, polyK_mul. cbv zeta. rewrite Hn.
  apply polyK_ext; field_simplify_eq; auto; cbn [Rpow_def.pow]; clear - Hsc; (timeout 200 nsatz).
Qed.

Lemma rodrigues_polyK (x : vec3R) :
  rodrigues x = polyK x 1 (sin (vnorm x) / vnorm x) ((1 - cos (vnorm x)) / (vnorm x * vnorm x)).
Proof.
  unfold rodrigues, polyK. generalize (sin (vnorm x) / vnorm x) ((1 - cos (vnorm x)) / (vnorm x * vnorm x)).
  intros p q. destruct x as [[a b] c]. lie_unfold. split_pairs; ring.
Qed.
Lemma Ws1_is_WsP (phi : vec3R) (sg : R) :
  Ws1 phi sg = WsP phi (vnorm phi) sg (exp sg) (sin (vnorm phi)) (cos (vnorm phi)).
Proof. unfold Ws1, Ws_th, WsP, polyK. rewrite !Rmult_1_l. reflexivity. Qed.

(* e^-sigma R(psi) Ws(-psi, sigma) = Ws(psi, -sigma): closed-form regime of sigma, or sigma = 0 *)
Lemma Ws_conj (eps : R) (psi : vec3R) (sg : R) : 0 <= eps -> eps < vnorm psi -> eps < Rabs sg \/ sg = 0 ->
  mmul3 (mscale3 (exp (- sg)) (rodrigues psi)) (rxso3_Ws eps (vneg psi, sg)) = rxso3_Ws eps (psi, - sg).
Proof.
  intros He Hx Hs. assert (Hx0 : vnorm psi <> 0) by lra. pose proof (vnorm_prod psi Hx0) as Hn. cbv zeta in Hn.
  pose proof (sin2_cos2 (vnorm psi)) as Hsc. unfold Rsqr in Hsc.
  destruct Hs as [Hs|Hs].
  - rewrite !rxso3_Ws_is_Ws1 by (rewrite ?vnorm_neg, ?Rabs_Ropp; assumption).
    rewrite !Ws1_is_WsP, vnorm_neg, rodrigues_polyK, exp_Ropp.
    assert (Hsg : sg <> 0) by (intros ->; rewrite Rabs_R0 in Hs; lra).
    pose proof (exp_pos sg) as HE.
    set (t := vnorm psi) in *. clearbody t. destruct psi as [[a b] c]. cbn [vx vy vz fst snd] in Hn.
    replace (vneg (a, b, c)) with (- a, - b, - c) by reflexivity.
    apply Ws_inv_poly; auto; lra.
  - subst sg. rewrite Ropp_0, exp_0. unfold rxso3_Ws, rxso3_Ws_coef. cbn [fst snd]. rewrite vnorm_neg.
    rewrite (absF_ltb_false eps 0) by (rewrite Rabs_R0; exact He).
    replace (ltb eps (vnorm psi)) with true by (symmetry; cbn; now apply Rltb_true).
    rewrite rodrigues_polyK. fold (polyK (vneg psi)). cbn [tsin tcos TransR]. num_unfold.
    set (t := vnorm psi) in *. clearbody t. destruct psi as [[a b] c]. cbn [vx vy vz fst snd] in Hn.
    replace (vneg (a, b, c)) with (- a, - b, - c) by reflexivity.
    set (S := sin t) in *. set (C := cos t) in *. clearbody S C.
    change (mmul3 (mscale3 1 (polyK (a, b, c) 1 (S / t) ((1 - C) / (t * t))))
                  (polyK (- a, - b, - c) 1 ((1 - C) * (1 / (t * t))) ((t - S) / (t * t * t)))
            = polyK (a, b, c) 1 ((1 - C) * (1 / (t * t))) ((t - S) / (t * t * t))).
    rewrite polyK_scale.
    rewrite polyK_neg, polyK_mul. cbv zeta. rewrite Hn.
    apply polyK_ext; field_simplify_eq; auto; cbn [Rpow_def.pow]; clear - Hsc; (timeout 200 nsatz).
Qed.

Lemma mvmul_mscale3 (k : R) (A : @mat3 R) (v : vec3R) : mvmul (mscale3 k A) v = vscale k (mvmul A v).
Proof. lie_ring. Qed.
(* if M W = W' then W'^-1 (M t) = W^-1 t *)
Lemma conj_inv (W W' M : @mat3 R) (t : vec3R) : mdet3 W <> 0 -> mdet3 W' <> 0 -> mmul3 M W = W' ->
  mvmul (minv3 W') (mvmul M t) = mvmul (minv3 W) t.
Proof.
  intros HW HW' HM.
  assert (Ht : mvmul M t = mvmul W' (mvmul (minv3 W) t)).
  { rewrite <- HM, <- mvmul_mmul3. rewrite (mvmul_mmul3 W (minv3 W)), minv3_r, mvmul_id; auto. }
  rewrite Ht, mvmul_mmul3, minv3_l, mvmul_id; auto.
Qed.

(* Sim3: regime 1 of the rotation, unit quaternion, positive scale with |ln s| > eps or s = 1.
   (For 0 < |ln s| <= eps the model's Ws ignores sigma while Inv scales the translation by 1/s, so the two
   sides differ by a relative O(eps) in exact arithmetic: not an identity of the model there.) *)
Lemma Sim3_log_inv (eps : R) (X : sim3R) : 0 <= eps ->
  eps < vnorm (qv (fst (snd X))) -> eps < Rabs (qw (fst (snd X))) -> unitq (fst (snd X)) ->
  0 < snd (snd X) -> eps < Rabs (ln (snd (snd X))) \/ snd (snd X) = 1 ->
  Sim3_log eps (Sim3_inv X) =
  (vneg (fst (Sim3_log eps X)), (vneg (fst (snd (Sim3_log eps X))), - snd (snd (Sim3_log eps X)))).
Proof.
  intros He Hv Hw Hu Hs Hr. destruct X as [t [q s]]. cbn [fst snd] in *.
  unfold Sim3_log, Sim3_inv. cbn [fst snd].
  rewrite (RxSO3_log_inv eps (q, s) Hs). apply pair_eq; [|reflexivity].
  unfold RxSO3_log, RxSO3_inv, RxSO3_act. cbn [fst snd tln TransR].
  assert (Hvi : eps < vnorm (qv (SO3_inv q))) by (unfold SO3_inv; cbn [qv fst]; now rewrite vnorm_neg).
  assert (Hwi : eps < Rabs (qw (SO3_inv q))) by (unfold SO3_inv; cbn [qw snd]; exact Hw).
  pose proof (unitq_inv q Hu) as Hui.
  rewrite SO3_act_is_matrix, (SO3_matrix_rod_log eps (SO3_inv q) He Hvi Hwi Hui), SO3_log_inv.
  pose proof (SO3_log_norm_gt_eps eps q He Hv Hw Hu) as Hlo. pose proof (SO3_log_norm_regime1 eps q Hv Hw He) as Hhi.
  pose proof PI_RGT_0 as Hpi.
  set (phi := SO3_log eps q) in *. set (sg := ln s) in *.
  assert (Es : (one / s)%num = exp (- sg)).
  { unfold sg. rewrite exp_Ropp, exp_ln by exact Hs. num_unfold. field. lra. }
  rewrite Es, <- mvmul_mscale3, mvmul_vneg. f_equal.
  assert (Hr' : eps < Rabs sg \/ sg = 0).
  { destruct Hr as [Hr|Hr]; [now left|right]. unfold sg. rewrite Hr. apply ln_1. }
  apply conj_inv.
  - apply rxso3_Ws_det; auto. lra.
  - apply rxso3_Ws_det; rewrite ?vnorm_neg; auto. lra.
  - pose proof (Ws_conj eps (vneg phi) sg He ltac:(now rewrite vnorm_neg) Hr') as Hc.
    rewrite vneg_invol in Hc. exact Hc.
Qed.

(* ------------------------------------------------------------------ the hypotheses used in Props/C02.v are satisfiable *)
From Interval Require Import Tactic.
Lemma vnorm_e1 (k : R) : 0 <= k -> vnorm ((k, 0, 0) : vec3R) = k.
Proof.
  intros Hk. unfold vnorm. cbn [tsqrt TransR]. replace (vdot ((k, 0, 0) : vec3R) (k, 0, 0)) with (k * k) by (lie_unfold; ring).
  now apply sqrt_square.
Qed.
Definition eps64 : R := / 2 ^ 52.
Lemma hyps_log_exp_ok : let x : vec3R := (1, 0, 0) in
  0 <= eps64 /\ eps64 < vnorm x /\ vnorm x < PI /\ eps64 < sin (vnorm x / 2) /\ eps64 < cos (vnorm x / 2).
Proof.
  cbv zeta. rewrite vnorm_e1 by lra. unfold eps64. repeat split; interval.
Qed.
Lemma hyps_exp_log_ok : forall sgn : R, sgn = 1 \/ sgn = -1 -> let q : quatR := ((3 / 5, 0, 0), sgn * (4 / 5)) in
  0 <= eps64 /\ eps64 < vnorm (qv q) /\ eps64 < Rabs (qw q) /\ unitq q.
Proof.
  intros sgn Hs. cbv zeta. cbn [qv qw fst snd]. rewrite vnorm_e1 by lra.
  assert (Ha : Rabs (sgn * (4 / 5)) = 4 / 5).
  { destruct Hs as [-> | ->]; [rewrite Rabs_pos_eq; lra | rewrite Rabs_left; lra]. }
  rewrite Ha. unfold eps64. repeat split; try interval.
  unfold unitq, qnorm2. cbn [qv qw fst snd]. destruct Hs as [-> | ->]; lie_unfold; field.
Qed.
Lemma hyps_at_pi_ok : let q : quatR := ((1, 0, 0), 0) in 0 <= eps64 /\ eps64 < 1 / 2 /\ unitq q /\ qw q = 0.
Proof.
  cbv zeta. unfold eps64. repeat split; try interval. unfold unitq, qnorm2. cbn [qv qw fst snd]. lie_unfold. ring.
Qed.
Lemma hyps_scale_ok : 0 < 2 /\ eps64 < Rabs (ln 2).
Proof. unfold eps64. split; interval. Qed.
