(* C05 (extension): so3 Jr is the right Jacobian of Exp (directional form), over R. *)
From Coq Require Import Reals Lra Psatz List Nsatz.
From Coquelicot Require Import Coquelicot.
Import ListNotations.
From PV Require Import Base.Num Base.RTac Model.LieGroup Model.LieExp Model.LieLog Model.LieJac Model.LieTangent
  Proofs.LieGroup Proofs.LieExp Proofs.LieLog Proofs.LieJac Proofs.LieTangent Proofs.LieTangent2.
Local Open Scope R_scope.
#[local] Remove Hints NumQ NumZ : typeclass_instances.

Definition Jr_cf (x : vec3R) : @mat3 R :=
  let t := vnorm x in let K := skew x in
  madd3 (madd3 mid3 (mscale3 (- ((1 - cos t) / (t * t))) K)) (mscale3 ((t - sin t) / (t * t * t)) (mmul3 K K)).

Lemma exp_cf_right_derivative (x1 x2 x3 d1 d2 d3 : R) (i : nat) : 0 < x1 * x1 + x2 * x2 + x3 * x3 ->
  is_derive (fun e => qc i (so3_exp_cf (vadd (x1, x2, x3) (vscale e (d1, d2, d3))))) 0
            (qc i (SO3_mul (so3_exp_cf (x1, x2, x3)) (vscale (1 / 2) (mvmul (Jr_cf (x1, x2, x3)) (d1, d2, d3)), 0))).
Proof.
  intros Hp. unfold so3_exp_cf, Jr_cf, vnorm, qc. cbn [tsqrt TransR]. lie_unfold.
  assert (HT : 0 < sqrt (x1 * x1 + x2 * x2 + x3 * x3)) by (now apply sqrt_lt_R0).
  assert (HTT : sqrt (x1 * x1 + x2 * x2 + x3 * x3) * sqrt (x1 * x1 + x2 * x2 + x3 * x3) = x1 * x1 + x2 * x2 + x3 * x3)
    by (apply sqrt_sqrt; lra).
  d4 i;
  (auto_derive;
   [ replace (x1 + 0 * d1) with x1 by ring; replace (x2 + 0 * d2) with x2 by ring; replace (x3 + 0 * d3) with x3 by ring;
     repeat split; auto; lra
   | replace (x1 + 0 * d1) with x1 by ring; replace (x2 + 0 * d2) with x2 by ring; replace (x3 + 0 * d3) with x3 by ring;
     unfold Rdiv; set (T := sqrt (x1 * x1 + x2 * x2 + x3 * x3)) in *;
     replace (cos T) with (1 - 2 * sin (T * / 2) * sin (T * / 2))
       by (replace T with (2 * (T * / 2)) at 3 by field; symmetry; apply cos_2a_sin);
     replace (sin T) with (2 * sin (T * / 2) * cos (T * / 2))
       by (replace T with (2 * (T * / 2)) at 3 by field; symmetry; apply sin_2a);
     pose proof (sin2_cos2 (T * / 2)) as Hsc; unfold Rsqr in Hsc;
     set (s := sin (T * / 2)) in *; set (c := cos (T * / 2)) in *; clearbody s c; clearbody T;
     assert (Tn : T <> 0) by lra;
     field_simplify_eq; [|assumption]; cbn [Rpow_def.pow]; clear - HTT Hsc; timeout 200 nsatz ]).
Qed.

(* the model's Jr on its closed-form branch *)
Lemma so3_Jr_is_cf (eps : R) (x : vec3R) : eps < vnorm x -> so3_Jr eps (v3_l x) = m3rows (Jr_cf x).
Proof.
  intros H. unfold so3_Jr, Jr_cf. replace (l_v3 (v3_l x)) with x by (destruct x as [[a b] c]; reflexivity).
  replace (ltb eps (vnorm x)) with true by (symmetry; cbn; now apply Rltb_true). reflexivity.
Qed.
Lemma lmv_m3rows_v (M : @mat3 R) (d : vec3R) : l_v3 (lmv (m3rows M) (v3_l d)) = mvmul M d.
Proof.
  destruct M as [[[[m00 m01] m02] [[m10 m11] m12]] [[m20 m21] m22]], d as [[d1 d2] d3].
  unfold lmv, m3rows, v3_l, l_v3. cbn [map ldot nth]. lie_unfold. split_pairs; ring.
Qed.

(* near e = 0 the curve x + e d stays on the closed-form branch *)
Lemma vnorm_curve_continuous (x d : vec3R) : 0 < vdot x x ->
  continuous (fun e => vnorm (vadd x (vscale e d))) 0.
Proof.
  intros Hp. apply (ex_derive_continuous (fun e => vnorm (vadd x (vscale e d)))).
  destruct x as [[x1 x2] x3], d as [[d1 d2] d3]. unfold vnorm. cbn [tsqrt TransR]. revert Hp. lie_unfold. intros Hp.
  auto_derive.
  replace (x1 + 0 * d1) with x1 by ring; replace (x2 + 0 * d2) with x2 by ring; replace (x3 + 0 * d3) with x3 by ring.
  exact Hp.
Qed.
Lemma vadd_scale0 (x d : vec3R) : vadd x (vscale 0 d) = x.
Proof. destruct x as [[x1 x2] x3], d as [[d1 d2] d3]. lie_unfold. split_pairs; ring. Qed.
Lemma curve_locally_closed_form (eps : R) (x d : vec3R) : 0 <= eps -> eps < vnorm x ->
  locally 0 (fun e => eps < vnorm (vadd x (vscale e d))).
Proof.
  intros He H.
  assert (Hp : 0 < vdot x x) by (rewrite <- vnorm_sq; nra).
  pose proof (vnorm_curve_continuous x d Hp) as Hc.
  apply (Hc (fun y => eps < y)). apply (open_gt eps). rewrite vadd_scale0. exact H.
Qed.

(* d/de Exp(x + e d) at 0 = Exp(x) (Jr(x) d / 2, 0), for the modelled Exp and Jr on the closed-form branch *)
Theorem exp_right_derivative (eps : R) (x d : vec3R) (i : nat) : 0 <= eps -> eps < vnorm x ->
  is_derive (fun e => qc i (so3_exp eps (vadd x (vscale e d)))) 0
            (qc i (SO3_mul (so3_exp eps x) (vscale (1 / 2) (l_v3 (lmv (so3_Jr eps (v3_l x)) (v3_l d))), 0))).
Proof.
  intros He H. rewrite (so3_Jr_is_cf eps x H), lmv_m3rows_v, (so3_exp_is_cf eps x H).
  apply (is_derive_ext_loc (fun e => qc i (so3_exp_cf (vadd x (vscale e d))))).
  - apply (filter_imp (fun e => eps < vnorm (vadd x (vscale e d)))).
    + intros e Hl. cbv beta. f_equal. symmetry. apply so3_exp_is_cf. exact Hl.
    + now apply curve_locally_closed_form.
  - assert (Hp : 0 < vdot x x) by (rewrite <- vnorm_sq; nra).
    destruct x as [[x1 x2] x3], d as [[d1 d2] d3]. apply exp_cf_right_derivative.
    revert Hp. lie_unfold. intros; lra.
Qed.

(* d/de [X @ Exp(e v)] at 0 = X (v/2, 0): near 0 the model's Exp is its Taylor polynomial exp0 (eps > 0) *)
Lemma scale_locally_small (eps : R) (v : vec3R) : 0 < eps -> locally 0 (fun e => vnorm (vscale e v) <= eps).
Proof.
  intros He. pose proof (vnorm_nonneg v) as Hv.
  assert (Hd : 0 < eps / (vnorm v + 1)) by (apply Rdiv_lt_0_compat; lra).
  exists (mkposreal _ Hd). intros e Hb. rewrite vnorm_scale.
  assert (Hb' : Rabs e < eps / (vnorm v + 1)).
  { revert Hb. unfold ball. cbn. unfold AbsRing_ball, abs, minus, plus, opp. cbn. now rewrite Ropp_0, Rplus_0_r. }
  pose proof (Rabs_pos e) as Ha.
  assert (Hm : Rabs e * (vnorm v + 1) < eps).
  { apply (Rmult_lt_compat_r (vnorm v + 1)) in Hb'; [|lra]. replace (eps / (vnorm v + 1) * (vnorm v + 1)) with eps in Hb' by (field; lra). exact Hb'. }
  nra.
Qed.
Lemma mul_exp0_right_derivative (X : quatR) (v : vec3R) (i : nat) :
  is_derive (fun e => qc i (SO3_mul X (exp0 (vscale e v)))) 0 (qc i (SO3_mul X (vscale (1 / 2) v, 0))).
Proof.
  destruct X as [[[a b] c] w], v as [[v1 v2] v3]. unfold exp0, qc. lie_unfold. d4 i; der_ring.
Qed.
Theorem mul_exp_right_derivative (eps : R) (X : quatR) (v : vec3R) (i : nat) : 0 < eps ->
  is_derive (fun e => qc i (SO3_mul X (so3_exp eps (vscale e v)))) 0 (qc i (SO3_mul X (vscale (1 / 2) v, 0))).
Proof.
  intros He. apply (is_derive_ext_loc (fun e => qc i (SO3_mul X (exp0 (vscale e v))))).
  - apply (filter_imp (fun e => vnorm (vscale e v) <= eps)).
    + intros e Hl. cbv beta. f_equal. f_equal. symmetry. apply exp0_is_model. exact Hl.
    + now apply scale_locally_small.
  - apply mul_exp0_right_derivative.
Qed.

(* Jr is the right Jacobian (directional form): the curves e |-> Exp(x + e d) and e |-> Exp(x) @ Exp(e Jr(x) d)
   pass through the same point at e = 0 with the same derivative *)
Theorem Jr_is_right_jacobian (eps : R) (x d : vec3R) : 0 < eps -> eps < vnorm x ->
  let Jrd := l_v3 (lmv (so3_Jr eps (v3_l x)) (v3_l d)) in
  so3_exp eps (vadd x (vscale 0 d)) = SO3_mul (so3_exp eps x) (so3_exp eps (vscale 0 Jrd)) /\
  forall i, exists D,
    is_derive (fun e => qc i (so3_exp eps (vadd x (vscale e d)))) 0 D /\
    is_derive (fun e => qc i (SO3_mul (so3_exp eps x) (so3_exp eps (vscale e Jrd)))) 0 D.
Proof.
  intros He H Jrd. split.
  - rewrite vadd_scale0.
    replace (vscale 0 Jrd) with (vzero (F:=R)) by (destruct Jrd as [[a b] c]; lie_unfold; split_pairs; ring).
    rewrite so3_exp_zero by lra. now rewrite SO3_id_r.
  - intros i. exists (qc i (SO3_mul (so3_exp eps x) (vscale (1 / 2) Jrd, 0))). split.
    + apply exp_right_derivative; lra.
    + now apply mul_exp_right_derivative.
Qed.
