(* C14: the hypotheses of the matrix theorems (Proofs/LQRMat3.v) are satisfiable in a dimension > 1:
   a 2x2 "Cholesky" (positivity test of the leading minors + Cramer's rule) satisfying both halves of
   the contract, a concrete 2-state / 2-input LTV system and a positive-definite cost; hence the
   theorems apply to it: the solve returns and the result is the unique minimiser. *)
From Coq Require Import ZArith List Bool Arith Lia Reals Lra Psatz.
Import ListNotations.
From PV Require Import Base.Num Base.Mat Model.Dynamics Proofs.LQRMat1 Proofs.LQRMat2 Proofs.LQRMat3.
#[local] Remove Hints NumQ NumZ : typeclass_instances.
Local Open Scope R_scope.

Definition det2 (M : matR) : R := mget M 0 0 * mget M 1 1 - mget M 0 1 * mget M 1 0.
Definition chol2 (M : matR) : option matR :=
  if Rltb 0 (mget M 0 0) && Rltb 0 (det2 M) then Some M else None.
Definition csm2 (L M : matR) : matR :=
  mkmat 2 (mcols M) (fun i j =>
    match i with
    | O => (mget L 1 1 * mget M 0 j - mget L 0 1 * mget M 1 j) / det2 L
    | _ => (mget L 0 0 * mget M 1 j - mget L 1 0 * mget M 0 j) / det2 L
    end).
Definition csv2 (L : matR) (b : list R) : list R :=
  [(mget L 1 1 * vget b 0 - mget L 0 1 * vget b 1) / det2 L;
   (mget L 0 0 * vget b 1 - mget L 1 0 * vget b 0) / det2 L].

Lemma sumn2 (f : nat -> R) : sumn 2 f = f 0%nat + f 1%nat.
Proof. cbn [sumn]. mnum. ring. Qed.

Lemma chol2_sound : forall Quu L, wf 2 2 Quu -> chol2 Quu = Some L ->
  (forall m M, wf 2 m M -> wf 2 m (csm2 L M) /\ mmul Quu (csm2 L M) = M) /\
  (forall b, length b = 2%nat -> length (csv2 L b) = 2%nat /\ mapply Quu (csv2 L b) = b).
Proof.
  intros Quu L W H. unfold chol2 in H.
  destruct (Rltb 0 (mget Quu 0 0) && Rltb 0 (det2 Quu)) eqn:E; [|discriminate]. injection H as <-.
  apply andb_true_iff in E as [_ Ed]. apply Rltb_true in Ed. split.
  - intros m M WM. assert (Wc : wf 2 m (csm2 Quu M)).
    { unfold csm2. rewrite (wf_cols _ _ _ WM). apply wf_mkmat; [lia|exact (wf_pos_c _ _ _ WM)]. }
    split; [exact Wc|].
    apply (mat_ext 2 m); [apply (wf_mmul 2 2 m); assumption|exact WM|].
    intros i j Hi Hj. rewrite (mget_mmul 2 2 m) by assumption. rewrite sumn2.
    unfold csm2. rewrite (wf_cols _ _ _ WM). rewrite !mget_mkmat by lia. unfold det2 in *. mnum.
    destruct i as [|[|i]]; [| |lia]; field; lra.
  - intros b Hb. split; [reflexivity|].
    apply (vec_ext 2); [apply (length_mapply 2 2); assumption|exact Hb|].
    intros i Hi. rewrite (vget_mapply 2 2) by assumption. rewrite sumn2.
    unfold csv2, det2 in *. cbn [vget nth]. mnum.
    destruct i as [|[|i]]; [| |lia]; cbn [nth]; field; lra.
Qed.

Lemma chol2_complete : forall Quu, SPD 2 Quu -> chol2 Quu <> None.
Proof.
  intros Quu (W & S & P). unfold chol2.
  pose proof (msym_mget 2 Quu 0 1 W S ltac:(lia) ltac:(lia)) as Hs.
  assert (Q : forall x y, qform Quu [x; y] =
              x * (mget Quu 0 0 * x + mget Quu 0 1 * y) + y * (mget Quu 1 0 * x + mget Quu 1 1 * y)).
  { intros x y. unfold qform, vdot. cbn [length]. rewrite sumn2. rewrite !(vget_mapply 2 2) by (assumption || lia).
    rewrite !sumn2. cbn [vget nth]. mnum. ring. }
  assert (Ha : 0 < mget Quu 0 0).
  { pose proof (P [1; 0] eq_refl) as H. rewrite Q in H.
    assert (0 < 1 * (mget Quu 0 0 * 1 + mget Quu 0 1 * 0) + 0 * (mget Quu 1 0 * 1 + mget Quu 1 1 * 0)); [|lra].
    apply H. exists 0%nat. split; [cbn; lia|]. cbn. lra. }
  assert (Hd : 0 < det2 Quu).
  { pose proof (P [- mget Quu 0 1; mget Quu 0 0] eq_refl) as H. rewrite Q in H. unfold det2. rewrite <- Hs in *.
    assert (H1 : 0 < - mget Quu 0 1 * (mget Quu 0 0 * - mget Quu 0 1 + mget Quu 0 1 * mget Quu 0 0)
                   + mget Quu 0 0 * (mget Quu 0 1 * - mget Quu 0 1 + mget Quu 1 1 * mget Quu 0 0)).
    { apply H. exists 1%nat. split; [cbn; lia|]. cbn. lra. }
    set (a := mget Quu 0 0) in *. set (b := mget Quu 0 1) in *. set (d := mget Quu 1 1) in *. clearbody a b d.
    assert (H2 : - b * (a * - b + b * a) + a * (b * - b + d * a) = a * (a * d - b * b)) by ring.
    rewrite H2 in H1. clear - Ha H1.
    destruct (Rle_or_lt (a * d - b * b) 0) as [Hn|]; [|assumption]. exfalso.
    assert (a * (a * d - b * b) <= 0) by nra. lra. }
  rewrite (proj2 (Rltb_true _ _) Ha), (proj2 (Rltb_true _ _) Hd). discriminate.
Qed.

(* ---- a positive-definite Q_t (jointly in state and input) satisfies the hypothesis pdN of the theorems *)
Definition pdQ (ns nc : nat) (st : stageN) : Prop :=
  wfstage ns nc st /\ msym (Nxx st) /\ msym (Nuu st) /\ Nux st = mtr (Nxu st) /\
  (forall x u, length x = ns -> length u = nc -> nonzero x \/ nonzero u -> 0 < bqN st x u).
Lemma pdQ_pdN ns nc st : pdQ ns nc st -> pdN ns nc st.
Proof.
  intros (W & S1 & S2 & S3 & P). pose proof W as (W1 & W2 & W3 & W4 & _).
  split; [exact W|]. split; [exact S1|]. split; [exact S2|]. split; [exact S3|]. split.
  - intros x u Hx Hu. destruct (nonzero_dec x) as [Hn|Hz]; [left; apply P; auto|].
    destruct (nonzero_dec u) as [Hn|Hz']; [left; apply P; auto|].
    assert (Ex : x = vzero ns).
    { apply vget_zero_all; [exact Hx|]. intros (i & Hi & Hne). apply Hne. apply Hz. exact Hi. }
    assert (Eu : u = vzero nc).
    { apply vget_zero_all; [exact Hu|]. intros (i & Hi & Hne). apply Hne. apply Hz'. exact Hi. }
    unfold bqN. rewrite Ex, Eu.
    rewrite (bil_zero_l ns ns), (bil_zero_l ns nc), (bil_zero_l nc ns), (bil_zero_l nc nc) by assumption. lra.
  - intros u Hu Hn. pose proof (P (vzero ns) u (length_vzero ns) Hu (or_intror Hn)) as H. unfold bqN in H.
    rewrite (bil_zero_l ns ns), (bil_zero_l ns nc) in H by assumption.
    rewrite (bil_zero_r nc ns) in H by assumption. unfold qform. unfold bil in H. lra.
Qed.

(* ---- a concrete problem in dimension 2: a rotating double integrator (time-varying), identity cost *)
Definition I2 : matR := [[1; 0]; [0; 1]].
Definition Z2 : matR := [[0; 0]; [0; 0]].
Definition ex_sys : sysN :=
  {| nk := KLTV; ncoef := fun t => ([[1; IZR t]; [0; 1]], [[1; 0]; [IZR t; 2]], Some [1; -1]) |}.
Definition ex_stage : stageN := {| Nxx := I2; Nxu := Z2; Nux := Z2; Nuu := I2; npx := [1; 2]; npu := [3; -4] |}.

Lemma wf22 (a b c d : R) : wf 2 2 [[a; b]; [c; d]].
Proof. repeat split; try lia. repeat constructor. Qed.
Lemma len2 (x : list R) : length x = 2%nat -> x = [vget x 0; vget x 1].
Proof. destruct x as [|a [|b [|? ?]]]; try discriminate. reflexivity. Qed.

Example ex_wfsys : wfsys 2 2 ex_sys.
Proof. intros t. unfold nA, nB, nC, ex_sys. cbn [ncoef fst snd]. split; [apply wf22|]. split; [apply wf22|reflexivity]. Qed.
Example ex_pd : pdN 2 2 ex_stage.
Proof.
  unfold pdN, wfstage, ex_stage, I2, Z2. cbn [Nxx Nxu Nux Nuu npx npu].
  split; [repeat (split; [first [apply wf22|reflexivity]|]); reflexivity|].
  split; [reflexivity|]. split; [reflexivity|]. split; [reflexivity|]. split.
  - intros x u Hx Hu. rewrite (len2 x Hx), (len2 u Hu). unfold bqN, bil, vdot, mapply. cbn. mnum. nra.
  - intros x Hx (i & Hi & Hne). rewrite (len2 x Hx) in *. unfold qform, vdot, mapply. cbn. mnum.
    cbn [length] in Hi. destruct i as [|[|i]]; [| |lia]; cbn [vget nth] in Hne; nra.
Qed.
Example ex_coherent : coherentN ex_sys 1.
Proof. left. split; reflexivity. Qed.

(* the matrix theorems applied to it: every horizon, every initial state, every nominal trajectory *)
Theorem ex_dim2_solved : forall T x0 un tm, length x0 = 2%nat -> nominalN_ok 2 (repeat ex_stage T) un ->
  exists xs us c tm',
    lqrN_solve 2 matR chol2 csm2 csv2 ex_sys 1 (repeat ex_stage T) x0 un tm = Some (xs, us, c, tm') /\
    xs = x0 :: trajN ex_sys 0 x0 us /\ c = JcostN ex_sys 0 x0 (repeat ex_stage T) us /\
    (forall us', length us' = T -> Forall (lenc 2) us' -> c <= JcostN ex_sys 0 x0 (repeat ex_stage T) us').
Proof.
  intros T x0 un tm Hx Hn.
  assert (Hpd : Forall (pdN 2 2) (repeat ex_stage T)).
  { apply Forall_forall. intros z Hz. apply repeat_spec in Hz. subst z. exact ex_pd. }
  destruct (lqrN_returns 2 2 matR chol2 csm2 csv2 chol2_sound chol2_complete ex_sys 1 _ x0 un tm ex_wfsys Hpd Hx Hn)
    as (xs & us & c & tm' & E).
  exists xs, us, c, tm'. split; [exact E|].
  destruct (lqrN_optimal 2 2 matR chol2 csm2 csv2 chol2_sound ex_sys 1 _ x0 un tm xs us c tm' ex_wfsys ex_coherent Hpd Hx Hn E)
    as (_ & _ & A2 & _ & A3 & A4 & _).
  split; [exact A2|]. split; [exact A3|]. intros us' Hl Hf. apply A4; [now rewrite repeat_length|exact Hf].
Qed.
