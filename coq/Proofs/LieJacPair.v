(* C04: the modelled backward functions multiply the cotangent by the TRANSPOSE of the matrices L
   of Proofs/LieJac.v:  <g @ M, d> = <g, M d>  for every matrix M given as a list of rows. *)
From Coq Require Import Reals Lra List Lia.
Import ListNotations.
From PV Require Import Base.Num Base.RTac Model.LieGroup Model.LieExp Model.LieJac Proofs.LieGroup.
Local Open Scope R_scope.
#[local] Remove Hints NumQ NumZ : typeclass_instances.

Lemma lzeros_length n : length (lzeros (F:=R) n) = n.
Proof. induction n; cbn; auto. Qed.
Lemma ladd_length (a b : list R) : length (ladd a b) = Nat.min (length a) (length b).
Proof. revert b. induction a as [|x a IH]; intros [|y b]; cbn; auto. Qed.
Lemma lscale_length (k : R) (a : list R) : length (lscale k a) = length a.
Proof. unfold lscale. apply map_length. Qed.
Lemma lvm_length (g : list R) : forall (M : lmat) n, Forall (fun r => length r = n) M -> length (lvm g M n) = n.
Proof.
  induction g as [|x g IH]; intros M n HM; cbn; [apply lzeros_length|].
  destruct M as [|r M]; [apply lzeros_length|]. inversion HM; subst.
  rewrite ladd_length, lscale_length, IH by assumption. lia.
Qed.
Lemma ldot_lzeros n (d : list R) : ldot (lzeros n) d = 0.
Proof. revert d. induction n as [|n IH]; intros [|x d]; cbn; auto. rewrite IH. num_simpl. ring. Qed.
Lemma ldot_nil_r (a : list R) : ldot a [] = 0.
Proof. destruct a; reflexivity. Qed.
Lemma ldot_ladd : forall (a b d : list R), length a = length b -> ldot (ladd a b) d = ldot a d + ldot b d.
Proof.
  induction a as [|x a IH]; intros [|y b] d H; cbn in H; try discriminate.
  - cbn. num_simpl. lra.
  - destruct d as [|z d]; cbn; [num_simpl; lra|]. rewrite IH by congruence. num_simpl. ring.
Qed.
Lemma ldot_lscale (k : R) : forall (a d : list R), ldot (lscale k a) d = k * ldot a d.
Proof.
  induction a as [|x a IH]; intros [|z d].
  - cbn. num_simpl. ring.
  - cbn. num_simpl. ring.
  - cbn. num_simpl. ring.
  - change (lscale k (x :: a)) with (mul k x :: lscale k a). cbn [ldot]. rewrite IH. num_simpl. ring.
Qed.

(* <g @ M, d> = <g, M d> *)
Theorem backward_is_transpose : forall (g : list R) (M : lmat) (d : list R) n,
  Forall (fun r => length r = n) M -> ldot (lvm g M n) d = ldot g (lmv M d).
Proof.
  induction g as [|x g IH]; intros M d n HM; cbn; [apply ldot_lzeros|].
  destruct M as [|r M]; cbn; [apply ldot_lzeros|]. inversion HM; subst.
  rewrite ldot_ladd by (rewrite lscale_length, lvm_length; auto).
  rewrite ldot_lscale, IH by assumption. num_simpl. reflexivity.
Qed.

Lemma list3_eq (a b c a' b' c' : R) : a = a' -> b = b' -> c = c' -> [a; b; c] = [a'; b'; c'].
Proof. intros -> -> ->. reflexivity. Qed.

(* the list-level matrices used by the modelled backward are the tuple-level L of Proofs/LieJac.v *)
Lemma SO3_AdjM_is_Adj (X d : list R) :
  lmv (AdjM 0 X) d = v3_l (mvmul (SO3_Adj (l_q X)) (l_v3 d)) \/ length d <> 3%nat.
Proof.
  destruct d as [|d1 [|d2 [|d3 [|d4 d]]]]; try (right; cbn; lia). left.
  unfold AdjM, SO3_AdjM, m3rows, lmv, l_v3, v3_l. cbn [map nth ldot]. 
  destruct (SO3_Adj (l_q X)) as [[[[a b] c] [[e f] g]] [[h i] j]]. lie_unfold. num_simpl.
  apply list3_eq; ring.
Qed.
Lemma act_jac_SO3_is_skew (p d : list R) :
  lmv (act_jac 0 p) d = v3_l (mvmul (skew (vneg (l_v3 p))) (l_v3 d)) \/ length d <> 3%nat.
Proof.
  destruct d as [|d1 [|d2 [|d3 [|d4 d]]]]; try (right; cbn; lia). left.
  unfold act_jac, m3rows, lmv, l_v3, v3_l. cbn [map nth ldot]. lie_unfold. num_simpl.
  apply list3_eq; ring.
Qed.
