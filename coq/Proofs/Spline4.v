(* C19 (chspline, part 2): the number k of samples per unit interval.  For EVERY real interval q in
   (0, 1) there is exactly one k = the number of multiples j q (j = 0, 1, ...) that lie in [0, 1);
   it satisfies the hypothesis [chs_kq k q] of the chspline theorems, so those hold with that k for
   every interval; for a rational interval a/b it is chs_count a b = ceil(b/a). *)
From Coq Require Import Reals Lra Psatz List ZArith Lia.
Import ListNotations.
From PV Require Import Base.Num Base.RTac Base.ListAux Model.Spline Proofs.Spline.
Local Open Scope R_scope.
#[local] Remove Hints NumQ NumZ : typeclass_instances.

Definition is_sample_count (k : nat) (q : R) : Prop := forall j : nat, INR j * q < 1 <-> (j < k)%nat.

Lemma sample_count_unique (k k' : nat) (q : R) : is_sample_count k q -> is_sample_count k' q -> k = k'.
Proof.
  intros H H'. destruct (Nat.lt_trichotomy k k') as [L|[E|L]]; [|assumption|].
  - apply H', H in L. lia.
  - apply H, H' in L. lia.
Qed.

Lemma sample_count_of_bounds (k : nat) (q : R) : 0 < q -> (1 <= k)%nat -> INR (k - 1) * q < 1 -> 1 <= INR k * q ->
  is_sample_count k q.
Proof.
  intros Hq Hk Hlo Hhi j. split; intros H.
  - destruct (Nat.lt_ge_cases j k) as [L|L]; [assumption|]. apply le_INR in L. nra.
  - assert (j <= k - 1)%nat as L by lia. apply le_INR in L. nra.
Qed.

Theorem sample_count_exists (q : R) : 0 < q -> q < 1 -> exists k, chs_kq k q /\ 1 <= INR k * q /\ is_sample_count k q.
Proof.
  intros Hq Hq1. set (r := / q).
  assert (Hr : 1 < r) by (unfold r; rewrite <- Rinv_1; apply Rinv_lt_contravar; lra).
  assert (Hrq : r * q = 1) by (unfold r; field; lra).
  destruct (archimed r) as [Hup1 Hup2]. set (z := up r) in *.
  assert (Hz2 : (2 <= z)%Z) by (apply lt_IZR in Hup1 || (assert (IZR 1 < IZR z) by lra; apply lt_IZR in H; lia); lia).
  destruct (Req_dec (IZR z - 1) r) as [E|NE].
  - (* 1/q is the integer z - 1 *)
    assert (Hz3 : (3 <= z)%Z).
    { assert (IZR 2 < IZR z) by lra. apply lt_IZR in H. lia. }
    exists (Z.to_nat (z - 1)).
    assert (Ek : INR (Z.to_nat (z - 1)) = IZR z - 1) by (rewrite INR_IZR_INZ, Z2Nat.id, minus_IZR by lia; reflexivity).
    assert (Ek1 : INR (Z.to_nat (z - 1) - 1) = IZR z - 2).
    { rewrite minus_INR by lia. rewrite Ek. cbn. lra. }
    assert (Hlo : INR (Z.to_nat (z - 1) - 1) * q < 1) by (rewrite Ek1; nra).
    assert (Hhi : 1 <= INR (Z.to_nat (z - 1)) * q) by (rewrite Ek; nra).
    split; [|split; [assumption|]].
    + split; [lia|]. split; assumption.
    + apply sample_count_of_bounds; try assumption. lia.
  - exists (Z.to_nat z).
    assert (Ek : INR (Z.to_nat z) = IZR z) by (rewrite INR_IZR_INZ, Z2Nat.id by lia; reflexivity).
    assert (Ek1 : INR (Z.to_nat z - 1) = IZR z - 1).
    { rewrite minus_INR by lia. rewrite Ek. cbn. lra. }
    assert (Hlo : INR (Z.to_nat z - 1) * q < 1) by (rewrite Ek1; nra).
    assert (Hhi : 1 <= INR (Z.to_nat z) * q) by (rewrite Ek; nra).
    split; [|split; [assumption|]].
    + split; [lia|]. split; assumption.
    + apply sample_count_of_bounds; try assumption. lia.
Qed.

(* chspline returns (N - 1) k + 1 samples, k = THE number of multiples of the interval in [0, 1):
   every real interval in (0, 1), every N >= 2 *)
Theorem chspline_count_every_interval (q : R) (ys : list R) : 0 < q -> q < 1 -> (2 <= length ys)%nat ->
  exists k out, is_sample_count k q /\ chspline1 k q ys = Some out /\ length out = ((length ys - 1) * k + 1)%nat.
Proof.
  intros Hq Hq1 HN. destruct (sample_count_exists q Hq Hq1) as (k & Hkq & _ & Hk).
  destruct (chspline_count k q ys Hkq HN) as (out & Ho & Hl). now exists k, out.
Qed.

(* rational intervals a/b: the count is chs_count a b = ceil(b/a), and it satisfies chs_kq *)
Theorem chs_count_is_sample_count (a b : Z) : (0 < a)%Z -> (a < b)%Z ->
  let k := Z.to_nat (chs_count a b) in
  chs_kq k (IZR a / IZR b) /\ is_sample_count k (IZR a / IZR b).
Proof.
  intros Ha Hab k.
  assert (Hb : (0 < b)%Z) by lia.
  assert (Hb' : 0 < IZR b) by (apply IZR_lt; lia). assert (Ha' : 0 < IZR a) by (apply IZR_lt; lia).
  assert (Hq : 0 < IZR a / IZR b) by (now apply Rdiv_lt_0_compat).
  assert (Hc2 : (2 <= chs_count a b)%Z).
  { assert (1 < chs_count a b)%Z; [|lia]. apply (chs_count_spec a b 1 Ha Hb ltac:(lia)).
    rewrite Rmult_1_l. apply (Rmult_lt_reg_r (IZR b)); [assumption|].
    unfold Rdiv. rewrite Rmult_assoc, Rinv_l, Rmult_1_r, Rmult_1_l by lra. now apply IZR_lt. }
  assert (Hsc : is_sample_count k (IZR a / IZR b)).
  { intros j. rewrite INR_IZR_INZ. rewrite (chs_count_spec a b (Z.of_nat j) Ha Hb ltac:(lia)). unfold k. lia. }
  split; [|assumption]. split; [unfold k; lia|]. split; [assumption|].
  apply Hsc. unfold k. lia.
Qed.
