(* C17, sixth part: batched inputs.
   Model/Align.v models one batch item; the code runs all items of a batch in lockstep under ONE
   stepper that sees the vector of per-item errors.  [icp_loop_batch] is that loop, transcribed here
   from ICP.forward (it is the model's [icp_loop] when the batch has one item: icp_loop_batch_single);
   because the single-item theorems hold for EVERY stepper state and number of passes, they lift to
   the lockstep loop item by item.  svdtf / svdstf on a batch are the item-wise maps. *)
From Coq Require Import Reals Lra Psatz List Nsatz ZArith Bool Arith.
Import ListNotations.
From PV Require Import Base.Num Base.RTac Model.LieGroup Model.Controller Model.Align Proofs.LieGroup
  Proofs.Align Proofs.Align2 Proofs.Align3.
Local Open Scope R_scope.
#[local] Remove Hints NumQ NumZ : typeclass_instances.

Fixpoint all_some {X} (l : list (option X)) : option (list X) :=
  match l with
  | [] => Some []
  | Some x :: r => match all_some r with Some xs => Some (x :: xs) | None => None end
  | None :: _ => None
  end.

Section Batch.
Variable svd : mat3R -> mat3R * vec3R * mat3R.
Variable knn : cloudR -> cloudR -> list (R * nat).

(* one pass on every item (targets already expanded to the batch shape, as the code does) *)
Definition icp_body_batch (temporals targets : list cloudR) : option (list (R * cloudR)) :=
  all_some (map (fun Pt => icp_body svd knn (fst Pt) (snd Pt)) (combine temporals targets)).
(* while stepper.continual(): pass on all items; stepper.step(error)   (error: one entry per item) *)
Fixpoint icp_loop_batch (fuel : nat) (cfg : rtb_cfg) (st : rtb_state) (temporals targets : list cloudR)
  : option (list cloudR * rtb_state * list (list R)) :=
  match fuel with
  | O => Some (temporals, st, [])
  | S f =>
      if rtb_cont st then
        match icp_body_batch temporals targets with
        | Some res =>
            match icp_loop_batch f cfg (rtb_step cfg st (map fst res)) (map snd res) targets with
            | Some (tm, st', es) => Some (tm, st', map fst res :: es)
            | None => None
            end
        | None => None
        end
      else Some (temporals, st, [])
  end.

(* a batch of one item is the model's loop *)
Lemma icp_loop_batch_single : forall fuel cfg st P tg,
  icp_loop_batch fuel cfg st [P] [tg] =
  match icp_loop svd knn fuel cfg st P tg with
  | Some (tm, st', es) => Some ([tm], st', map (fun e => [e]) es)
  | None => None
  end.
Proof.
  induction fuel as [|f IH]; intros cfg st P tg; cbn [icp_loop_batch icp_loop]; [reflexivity|].
  destruct (rtb_cont st); [|reflexivity].
  unfold icp_body_batch. cbn [combine map all_some fst snd].
  destruct (icp_body svd knn P tg) as [[err P']|]; [|reflexivity].
  cbn [map fst snd]. rewrite IH.
  destruct (icp_loop svd knn f cfg (rtb_step cfg st [err]) P' tg) as [[[tm st'] es]|]; reflexivity.
Qed.

(* item = (initial cloud, target); the invariant of the lockstep loop for one item *)
Definition item_ok (it : cloudR * cloudR) : Prop :=
  fst it <> [] /\ forall Q, icp_reach svd knn (snd it) (fst it) Q -> pass_ok svd knn (snd it) Q.
Definition item_at (it : cloudR * cloudR) (Q : cloudR) : Prop :=
  item_ok it /\ icp_reach svd knn (snd it) (fst it) Q.

Lemma body_batch_returns : forall items Qs, Forall2 item_at items Qs ->
  exists res, icp_body_batch Qs (map snd items) = Some res /\
              Forall2 item_at items (map snd res).
Proof.
  unfold icp_body_batch. induction 1 as [|it Q items Qs [[Hne Hok] HR] HF IH].
  - exists []. split; [reflexivity | constructor].
  - destruct IH as (res & E & HF').
    destruct (body_returns svd knn (snd it) Q (reach_nonempty svd knn (snd it) (fst it) Hne Hok Q HR) (Hok Q HR))
      as (T & ET & _).
    cbn [map combine all_some fst snd]. rewrite ET, E.
    eexists. split; [reflexivity|]. cbn [map snd]. constructor; [|exact HF'].
    split; [split; assumption|]. exact (reach_step svd knn (snd it) (fst it) Q _ _ HR ET).
Qed.

(* the lockstep loop never raises and every item ends on a cloud it can reach by single-item passes *)
Lemma loop_batch_returns : forall fuel cfg st items Qs, Forall2 item_at items Qs ->
  exists tms st' es, icp_loop_batch fuel cfg st Qs (map snd items) = Some (tms, st', es) /\
                     Forall2 item_at items tms.
Proof.
  induction fuel as [|f IH]; intros cfg st items Qs HF; cbn [icp_loop_batch].
  - exists Qs, st, []. split; [reflexivity | exact HF].
  - destruct (rtb_cont st).
    + destruct (body_batch_returns items Qs HF) as (res & E & HF'). rewrite E.
      destruct (IH cfg (rtb_step cfg st (map fst res)) items (map snd res) HF') as (tms & st' & es & EL & HF'').
      rewrite EL. exists tms, st', (map fst res :: es). split; [reflexivity | exact HF''].
    + exists Qs, st, []. split; [reflexivity | exact HF].
Qed.

(* batched ICP loop: for every item the final cloud is not farther from its target than the initial one *)
Theorem icp_loop_batch_monotone fuel cfg st (items : list (cloudR * cloudR)) :
  Forall item_ok items ->
  exists tms st' es, icp_loop_batch fuel cfg st (map fst items) (map snd items) = Some (tms, st', es) /\
    Forall2 (fun it tm => icp_reach svd knn (snd it) (fst it) tm /\
                          cpdk knn (snd it) tm <= cpdk knn (snd it) (fst it)) items tms.
Proof.
  intros Hall.
  assert (HF : Forall2 item_at items (map fst items)).
  { induction Hall as [|it items Hit _ IH]; cbn [map]; constructor; [|exact IH].
    split; [exact Hit | apply reach_refl]. }
  destruct (loop_batch_returns fuel cfg st items _ HF) as (tms & st' & es & E & HF').
  exists tms, st', es. split; [exact E|].
  clear - HF'. induction HF' as [|it tm items tms [[Hne Hok] HR] _ IH]; constructor; [|exact IH].
  split; [exact HR | exact (reach_monotone svd knn (snd it) (fst it) Hne Hok tm HR)].
Qed.

(* svdtf on a batch: the item-wise map; every item is a proper rigid transform with minimal residual *)
Definition svdtf_batch (srcs tgts : list cloudR) : list (option se3R) :=
  map (fun st => svdtf svd (fst st) (snd st)) (combine srcs tgts).
Theorem svdtf_batch_optimal (items : list (cloudR * cloudR)) :
  Forall (fun it => sizes_ok (fst it) (snd it) = true /\ svd_contract svd (svdtf_M (fst it) (snd it))) items ->
  Forall2 (fun it o => exists T, o = Some T /\ unitq (snd T) /\
                       forall A t, rot A -> resid (SE3_act T) (fst it) (snd it) <= resid (rigid_apply A t) (fst it) (snd it))
          items (svdtf_batch (map fst items) (map snd items)).
Proof.
  unfold svdtf_batch. induction 1 as [|[src tgt] items [Hs Hc] _ IH]; cbn [map combine fst snd]; constructor; [|exact IH].
  cbn [fst snd] in *. destruct (svdtf_returns svd src tgt Hs Hc) as (T & ET & Hq & HT).
  exists T. split; [exact ET|]. split; [exact Hq|]. intros A t HA.
  unfold svd_contract in Hc. destruct (svd (svdtf_M src tgt)) as [[U S] Vh]. destruct HT as [_ HT].
  rewrite (resid_ext _ _ HT). exact (svdtf_optimal src tgt U S Vh Hs Hc A t HA).
Qed.
End Batch.
