From Coq Require Import Reals Lra Psatz List Nsatz.
Import ListNotations.
From PV Require Import Base.Num Base.RTac Model.LieGroup Model.Convert Proofs.LieGroup.
Local Open Scope R_scope.
#[local] Remove Hints NumQ NumZ : typeclass_instances.

Definition qnegate (q : quatR) : quatR := (vneg (qv q), - qw q).
Definition qsc (s : R) (q : quatR) : quatR := (vscale s (qv q), s * qw q).

Lemma sqrt_sq2 u : sqrt ((2 * u) * (2 * u)) = 2 * Rabs u.
Proof.
  change ((2 * u) * (2 * u)) with (Rsqr (2 * u)). rewrite sqrt_Rsqr_abs, Rabs_mult.
  rewrite (Rabs_pos_eq 2) by lra. reflexivity.
Qed.
Lemma sel_div u n a : u <> 0 -> n = 4 * u * a -> n / (2 * (2 * Rabs u)) = (u / Rabs u) * a.
Proof. intros Hu ->. field. now apply Rabs_no_R0. Qed.

(* entries of the transposed matrix of a quaternion *)
Section Entries.
Variables x y z w : R.
Let q : quatR := ((x, y, z), w).
Let T := mtrans (SO3_matrix q).
Lemma T00 : e3 T 0 0 = 1 - 2 * (y * y + z * z). Proof. unfold T, q. cbv [e3]. lie_unfold. ring. Qed.
Lemma T11 : e3 T 1 1 = 1 - 2 * (x * x + z * z). Proof. unfold T, q. cbv [e3]. lie_unfold. ring. Qed.
Lemma T22 : e3 T 2 2 = 1 - 2 * (x * x + y * y). Proof. unfold T, q. cbv [e3]. lie_unfold. ring. Qed.
Lemma T01 : e3 T 0 1 = 2 * (x * y + z * w). Proof. unfold T, q. cbv [e3]. lie_unfold. ring. Qed.
Lemma T10 : e3 T 1 0 = 2 * (x * y - z * w). Proof. unfold T, q. cbv [e3]. lie_unfold. ring. Qed.
Lemma T02 : e3 T 0 2 = 2 * (x * z - y * w). Proof. unfold T, q. cbv [e3]. lie_unfold. ring. Qed.
Lemma T20 : e3 T 2 0 = 2 * (x * z + y * w). Proof. unfold T, q. cbv [e3]. lie_unfold. ring. Qed.
Lemma T12 : e3 T 1 2 = 2 * (y * z + x * w). Proof. unfold T, q. cbv [e3]. lie_unfold. ring. Qed.
Lemma T21 : e3 T 2 1 = 2 * (y * z - x * w). Proof. unfold T, q. cbv [e3]. lie_unfold. ring. Qed.
End Entries.



Ltac core_rad u H :=
  lazymatch goal with |- context [sqrt ?r] =>
    let Hr := fresh "Hr" in
    assert (Hr : r = (2 * u) * (2 * u)) by (try ring; clear - H; nsatz);
    rewrite !Hr; clear Hr end.
Ltac core_sign u :=
  let Hs := fresh "Hs" in
  destruct (Rlt_or_le 0 u) as [Hs|Hs];
  [left; rewrite Rabs_pos_eq by lra; now field | right; rewrite Rabs_left1 by lra; now field].
Ltac core_case u H :=
  core_rad u H;
  let Hu := fresh "Hu" in
  assert (Hu : u <> 0) by (let E := fresh in intros E; rewrite E in *; nra);
  let Hpos := fresh "Hpos" in
  assert (Hpos : 0 < (2 * u) * (2 * u)) by nra;
  let Hle := fresh "Hle" in
  destruct (Rleb ((2 * u) * (2 * u)) 0) eqn:Hle; [apply Rleb_true in Hle; lra|]; clear Hle;
  exists (u / Rabs u); split;
  [ core_sign u
  | rewrite sqrt_sq2; unfold qsc; lie_unfold; apply f_equal; split_pairs;
    (apply sel_div; [assumption | try ring; clear - H; nsatz]) ].

Lemma core_roundtrip atol (q : quatR) : -1 < atol < 1 -> unitq q ->
  exists s, (s = 1 \/ s = -1) /\ mat2SO3_core atol (SO3_matrix q) = Some (qsc s q).
Proof.
  intros [Ha0 Ha] Hu. destruct q as [[[x y] z] w].
  assert (H : x * x + y * y + z * z + w * w = 1).
  { unfold unitq in Hu. revert Hu. lie_unfold. intros <-. ring. }
  clear Hu.
  unfold mat2SO3_core, masks, disc0, disc1, disc2, disc3, comb. cbn [sel_c0 sel_c1 sel_c2 sel_c3].
  rewrite !T00, !T11, !T22, !T01, !T10, !T02, !T20, !T12, !T21.
  num_unfold. cbv [ltb leb NumR tsqrt TransR].
  destruct (Rltb (1 - 2 * (x * x + y * y)) atol) eqn:Hd2;
  [apply Rltb_true in Hd2 | apply Rltb_false in Hd2].
  - destruct (Rltb (1 - 2 * (x * x + z * z)) (1 - 2 * (y * y + z * z))) eqn:Hd01;
    [apply Rltb_true in Hd01 | apply Rltb_false in Hd01];
    cbn [andb negb b2f]; num_unfold.
    + core_case x H.
    + core_case y H.
  - destruct (Rltb (1 - 2 * (y * y + z * z)) (- (1 - 2 * (x * x + z * z)))) eqn:Hd0n1;
    [apply Rltb_true in Hd0n1 | apply Rltb_false in Hd0n1];
    cbn [andb negb b2f]; num_unfold.
    + core_case z H.
    + core_case w H.
Qed.

Definition qsame (q q' : quatR) : Prop := q' = q \/ q' = qnegate q.
Lemma qsc_1 q : qsc 1 q = q.
Proof. destruct q as [[[x y] z] w]. unfold qsc. lie_unfold. split_pairs; ring. Qed.
Lemma qsc_m1 q : qsc (-1) q = qnegate q.
Proof. destruct q as [[[x y] z] w]. unfold qsc, qnegate. lie_unfold. split_pairs; ring. Qed.
Lemma qnegate_matrix q : SO3_matrix (qnegate q) = SO3_matrix q.
Proof. destruct q as [[[x y] z] w]. unfold qnegate. lie_unfold. split_pairs; ring. Qed.
Lemma qnegate_unit q : unitq q -> unitq (qnegate q).
Proof. unfold unitq. intros <-. destruct q as [[[x y] z] w]. unfold qnegate. lie_unfold. ring. Qed.
Lemma qsame_matrix q q' : qsame q q' -> SO3_matrix q' = SO3_matrix q.
Proof. intros [->| ->]; [reflexivity | apply qnegate_matrix]. Qed.
Lemma qsame_unit q q' : unitq q -> qsame q q' -> unitq q'.
Proof. intros H [->| ->]; [assumption | now apply qnegate_unit]. Qed.

Lemma core_roundtrip_same atol q : -1 < atol < 1 -> unitq q ->
  exists q', mat2SO3_core atol (SO3_matrix q) = Some q' /\ qsame q q'.
Proof.
  intros Ha Hu. destruct (core_roundtrip atol q Ha Hu) as [s [[->| ->] E]].
  - exists q. rewrite qsc_1 in E. split; [exact E | now left].
  - exists (qnegate q). rewrite qsc_m1 in E. split; [exact E | now right].
Qed.

(* the selected radicand is bounded away from 0 *)
Lemma disc_bound atol (q : quatR) : unitq q -> 1 - Rabs atol <= mat2SO3_disc atol (SO3_matrix q).
Proof.
  intros Hu. destruct q as [[[x y] z] w].
  assert (H : x * x + y * y + z * z + w * w = 1).
  { unfold unitq in Hu. revert Hu. lie_unfold. intros <-. ring. }
  clear Hu.
  unfold mat2SO3_disc, masks, disc0, disc1, disc2, disc3, comb. cbn [sel_c0 sel_c1 sel_c2 sel_c3].
  rewrite !T00, !T11, !T22.
  num_unfold. cbv [ltb leb NumR].
  pose proof (Rle_abs atol) as A1. pose proof (Rle_abs (- atol)) as A2. rewrite Rabs_Ropp in A2.
  destruct (Rltb (1 - 2 * (x * x + y * y)) atol) eqn:Hd2;
  [apply Rltb_true in Hd2 | apply Rltb_false in Hd2].
  - destruct (Rltb (1 - 2 * (x * x + z * z)) (1 - 2 * (y * y + z * z))) eqn:Hd01;
    [apply Rltb_true in Hd01 | apply Rltb_false in Hd01];
    cbn [andb negb b2f]; num_unfold; nra.
  - destruct (Rltb (1 - 2 * (y * y + z * z)) (- (1 - 2 * (x * x + z * z)))) eqn:Hd0n1;
    [apply Rltb_true in Hd0n1 | apply Rltb_false in Hd0n1];
    cbn [andb negb b2f]; num_unfold; nra.
Qed.

(* ---------------- the matrix of a unit quaternion is a rotation matrix *)
Lemma SO3_matrix_orth q : unitq q -> mmul3 (SO3_matrix q) (mtrans (SO3_matrix q)) = mid3.
Proof.
  unfold unitq. destruct q as [[[x y] z] w]. lie_unfold. intros H. split_pairs; nsatz.
Qed.
Lemma SO3_matrix_det q : unitq q -> mdet3 (SO3_matrix q) = 1.
Proof.
  unfold unitq. destruct q as [[[x y] z] w]. lie_unfold. intros H. nsatz.
Qed.

(* ---------------- allclose over R *)
Lemma absF_Rabs (x : R) : absF x = Rabs x.
Proof.
  unfold absF. cbv [ltb zero opp NumR]. destruct (Rltb x 0) eqn:E.
  - apply Rltb_true in E. rewrite Rabs_left; lra.
  - apply Rltb_false in E. rewrite Rabs_pos_eq; lra.
Qed.
Definition closeP (rtol atol a b : R) : Prop := Rabs (a - b) <= atol + rtol * Rabs b.
Lemma close_true rtol atol a b : close rtol atol a b = true <-> closeP rtol atol a b.
Proof. unfold close, closeP. rewrite !absF_Rabs. cbv [leb add sub mul NumR]. apply Rleb_true. Qed.
Lemma close_false rtol atol a b : close rtol atol a b = false <-> ~ closeP rtol atol a b.
Proof. rewrite <- close_true. destruct (close rtol atol a b); split; intros; try discriminate; auto. exfalso; auto. Qed.
Lemma close_refl rtol atol a : 0 <= rtol -> 0 <= atol -> close rtol atol a a = true.
Proof.
  intros Hr Ha. apply close_true. unfold closeP. replace (a - a) with 0 by ring. rewrite Rabs_R0.
  pose proof (Rabs_pos a). nra.
Qed.

(* "within the stated tolerances": every entry of M M^T within atol + rtol*|I_ij| of I_ij, and
   |det M - 1| <= atol + rtol *)
Definition delta (i j : nat) : R := if Nat.eqb i j then 1 else 0.
Definition orthP (rtol atol : R) (M : @mat3 R) : Prop :=
  forall i j, (i < 3)%nat -> (j < 3)%nat -> closeP rtol atol (e3 (mmul3 M (mtrans M)) i j) (delta i j).
Definition detP (rtol atol : R) (M : @mat3 R) : Prop := closeP rtol atol (mdet3 M) 1.
Definition within_tol (rtol atol : R) (M : @mat3 R) : Prop := orthP rtol atol M /\ detP rtol atol M.

Lemma orth_ok_true rtol atol M : orth_ok rtol atol M = true <-> orthP rtol atol M.
Proof.
  unfold orth_ok, orthP. generalize (mmul3 M (mtrans M)). intros [[[[a b] c] [[d e] f]] [[g h] k]].
  unfold m3all, v3all, mid3. cbn [mr0 mr1 mr2 vx vy vz fst snd]. rewrite !andb_true_iff, !close_true.
  cbv [one zero NumR]. split.
  - intros [[[[H00 H01] H02] [[H10 H11] H12]] [[H20 H21] H22]] i j Hi Hj.
    destruct i as [|[|[|i]]]; try lia; destruct j as [|[|[|j]]]; try lia; cbn; assumption.
  - intros H. repeat split.
    + apply (H 0 0)%nat; lia. + apply (H 0 1)%nat; lia. + apply (H 0 2)%nat; lia.
    + apply (H 1 0)%nat; lia. + apply (H 1 1)%nat; lia. + apply (H 1 2)%nat; lia.
    + apply (H 2 0)%nat; lia. + apply (H 2 1)%nat; lia. + apply (H 2 2)%nat; lia.
Qed.
Lemma det_ok_true rtol atol M : det_ok rtol atol M = true <-> detP rtol atol M.
Proof. unfold det_ok, detP. apply close_true. Qed.

Lemma rotation_within_tol rtol atol q : 0 <= rtol -> 0 <= atol -> unitq q -> within_tol rtol atol (SO3_matrix q).
Proof.
  intros Hr Ha Hu. split.
  - unfold orthP. rewrite SO3_matrix_orth by assumption. intros i j Hi Hj.
    assert (E : e3 (@mid3 R _) i j = delta i j).
    { destruct i as [|[|[|i]]]; try lia; destruct j as [|[|[|j]]]; try lia; reflexivity. }
    rewrite E. apply close_true. now apply close_refl.
  - unfold detP. rewrite SO3_matrix_det by assumption. apply close_true. now apply close_refl.
Qed.

(* ---------------- list bookkeeping *)
Lemma combine_map_same {A B C} (f : A -> B) (g : A -> C) l :
  combine (map f l) (map g l) = map (fun x => (f x, g x)) l.
Proof. induction l; cbn; congruence. Qed.
Lemma combine_self_map {A C} (g : A -> C) (l : list A) : combine l (map g l) = map (fun x => (x, g x)) l.
Proof. induction l; cbn; congruence. Qed.
Lemma forallb_map_true {A B} (f : B -> bool) (g : A -> B) l :
  (forall x, In x l -> f (g x) = true) -> forallb f (map g l) = true.
Proof. intros H. apply forallb_forall. intros y Hy. apply in_map_iff in Hy. destruct Hy as [x [<- Hx]]. auto. Qed.
Lemma Forall2_map_r {A B} (R : A -> B -> Prop) (f : A -> B) l :
  (forall x, In x l -> R x (f x)) -> Forall2 R l (map f l).
Proof. induction l; cbn; intros H; constructor; auto. Qed.
Lemma forallb_false_ex {A} (f : A -> bool) l : forallb f l = false <-> exists x, In x l /\ f x = false.
Proof.
  induction l as [|a l IH]; cbn.
  - split; [discriminate | intros [x [[] _]]].
  - rewrite andb_false_iff, IH. split.
    + intros [H|[x [H1 H2]]]; [exists a; auto | exists x; auto].
    + intros [x [[->|H1] H2]]; [auto | right; exists x; auto].
Qed.

(* ---------------- mat2SO3 on batches *)
Definition so3_item (atol : R) (M : option (@mat3 R)) : option quatR := obindo M (mat2SO3_core atol).
Lemma mat2SO3_nocheck rtol atol Ms : mat2SO3 rtol atol false Ms = Value (map (so3_item atol) Ms).
Proof. reflexivity. Qed.
Lemma mat2SO3_pass rtol atol check Ms :
  (forall M, In M Ms -> lift (orth_ok rtol atol) M = true /\ lift (det_ok rtol atol) M = true) ->
  mat2SO3 rtol atol check Ms = Value (map (so3_item atol) Ms).
Proof.
  intros H. unfold mat2SO3.
  assert (E1 : forallb (lift (orth_ok rtol atol)) Ms = true) by (apply forallb_forall; intros M HM; now apply H).
  assert (E2 : forallb (lift (det_ok rtol atol)) Ms = true) by (apply forallb_forall; intros M HM; now apply H).
  rewrite E1, E2. cbn [negb]. rewrite !andb_false_r. reflexivity.
Qed.

(* check=True raises exactly when some item is beyond the tolerances; the message is the
   orthogonality one iff some item fails the orthogonality test *)
Definition item_within (rtol atol : R) (M : option (@mat3 R)) : Prop :=
  match M with Some m => within_tol rtol atol m | None => False end.
Lemma mat2SO3_check_raises rtol atol Ms :
  (exists e, mat2SO3 rtol atol true Ms = Raises e) <-> exists M, In M Ms /\ ~ item_within rtol atol M.
Proof.
  unfold mat2SO3. cbn [andb].
  destruct (forallb (lift (orth_ok rtol atol)) Ms) eqn:E1; cbn [negb].
  - destruct (forallb (lift (det_ok rtol atol)) Ms) eqn:E2; cbn [negb].
    + split; [intros [e He]; discriminate|]. intros [M [HM Hn]]. exfalso. apply Hn.
      rewrite forallb_forall in E1, E2. specialize (E1 M HM). specialize (E2 M HM).
      destruct M as [m|]; cbn [lift item_within] in *; [|discriminate]. split; [now apply orth_ok_true | now apply det_ok_true].
    + split; [intros _ | intros _; eexists; reflexivity].
      apply forallb_false_ex in E2. destruct E2 as [M [HM Hf]]. exists M. split; [assumption|].
      destruct M as [m|]; cbn [lift item_within] in *; [|tauto]. intros [_ Hd]. apply det_ok_true in Hd. congruence.
  - split; [intros _ | intros _; eexists; reflexivity].
    apply forallb_false_ex in E1. destruct E1 as [M [HM Hf]]. exists M. split; [assumption|].
    destruct M as [m|]; cbn [lift item_within] in *; [|tauto]. intros [Ho _]. apply orth_ok_true in Ho. congruence.
Qed.
Lemma mat2SO3_check_message rtol atol Ms e : mat2SO3 rtol atol true Ms = Raises e ->
  (e = ValueError E_orth /\ exists M, In M Ms /\ lift (orth_ok rtol atol) M = false) \/
  (e = ValueError E_det /\ (forall M, In M Ms -> lift (orth_ok rtol atol) M = true) /\
                           exists M, In M Ms /\ lift (det_ok rtol atol) M = false).
Proof.
  unfold mat2SO3. cbn [andb].
  destruct (forallb (lift (orth_ok rtol atol)) Ms) eqn:E1; cbn [negb].
  - destruct (forallb (lift (det_ok rtol atol)) Ms) eqn:E2; cbn [negb]; [discriminate|].
    intros [= <-]. right. split; [reflexivity|]. split.
    + now apply forallb_forall.
    + now apply forallb_false_ex.
  - intros [= <-]. left. split; [reflexivity|]. now apply forallb_false_ex.
Qed.

Lemma so3_item_roundtrip atol q : -1 < atol < 1 -> unitq q ->
  exists q', so3_item atol (Some (SO3_matrix q)) = Some q' /\ qsame q q'.
Proof. intros. now apply core_roundtrip_same. Qed.

(* Forall2 form of "every item is returned up to the sign of the quaternion" *)
Definition so3_rt (q : quatR) (o : option quatR) : Prop := exists q', o = Some q' /\ qsame q q'.
Theorem mat2SO3_roundtrip rtol atol check (qs : list quatR) :
  0 <= rtol -> 0 <= atol < 1 -> Forall unitq qs ->
  exists out, mat2SO3 rtol atol check (map (fun q => Some (SO3_matrix q)) qs) = Value out /\ Forall2 so3_rt qs out.
Proof.
  intros Hr [Ha0 Ha1] Hq. rewrite Forall_forall in Hq.
  eexists. split.
  - apply mat2SO3_pass. intros M HM. apply in_map_iff in HM. destruct HM as [q [<- Hin]]. cbn [lift].
    destruct (rotation_within_tol rtol atol q Hr Ha0 (Hq q Hin)) as [Ho Hd].
    split; [now apply orth_ok_true | now apply det_ok_true].
  - rewrite map_map. apply Forall2_map_r. intros q Hin. apply so3_item_roundtrip; [lra | auto].
Qed.

(* ---------------- layouts accepted for X.matrix() (4x4), its top 3x4 rows, its 3x3 block *)
Inductive layout := L33 | L34 | L44.
Definition lay_in (l : layout) (m : @mat4 R) : @matin R :=
  match l with L33 => in33_of_mat4 m | L34 => in34_of_mat4 m | L44 => in44_of_mat4 m end.
(* the translation a layout carries *)
Definition lay_t (l : layout) (t : vec3R) : vec3R := match l with L33 => vzero | _ => t end.
Lemma lay_block_rot l (A : @mat3 R) t : in_rot (lay_in l (block4 A t)) = A.
Proof. destruct A as [[[[a b] c] [[d e] f]] [[g h] k]]. destruct t as [[tx ty] tz]. destruct l; reflexivity. Qed.
Lemma lay_block_trans l (A : @mat3 R) t : in_trans (lay_in l (block4 A t)) = lay_t l t.
Proof. destruct A as [[[[a b] c] [[d e] f]] [[g h] k]]. destruct t as [[tx ty] tz]. destruct l; reflexivity. Qed.

(* ---------------- mat2SE3 *)
Definition se3_item (atol : R) (m : @matin R) : option se3R :=
  option_map (fun q : quatR => (in_trans m, q)) (so3_item atol (Some (in_rot m))).
Lemma mat2SE3_pass rtol atol check Ms :
  (forall m, In m Ms -> orth_ok rtol atol (in_rot m) = true /\ det_ok rtol atol (in_rot m) = true) ->
  mat2SE3 rtol atol check Ms = Value (map (se3_item atol) Ms).
Proof.
  intros H. unfold mat2SE3. rewrite mat2SO3_pass.
  - cbn [omap]. rewrite map_map, combine_self_map, map_map. reflexivity.
  - intros M HM. apply in_map_iff in HM. destruct HM as [m [<- Hm]]. cbn [lift]. auto.
Qed.
Definition se3_rt (l : layout) (X : se3R) (o : option se3R) : Prop :=
  exists q', o = Some (lay_t l (fst X), q') /\ qsame (snd X) q'.
Theorem mat2SE3_roundtrip rtol atol check l (Xs : list se3R) :
  0 <= rtol -> 0 <= atol < 1 -> Forall valid_SE3 Xs ->
  exists out, mat2SE3 rtol atol check (map (fun X => lay_in l (matrix4 SE3_act4 X)) Xs) = Value out /\
              Forall2 (se3_rt l) Xs out.
Proof.
  intros Hr [Ha0 Ha1] HX. rewrite Forall_forall in HX. eexists. split.
  - apply mat2SE3_pass. intros m Hm. apply in_map_iff in Hm. destruct Hm as [X [<- HXin]].
    rewrite SE3_matrix_blocks, lay_block_rot.
    destruct (rotation_within_tol rtol atol (snd X) Hr Ha0 (HX X HXin)) as [Ho Hd].
    split; [now apply orth_ok_true | now apply det_ok_true].
  - rewrite map_map. apply Forall2_map_r. intros X HXin. unfold se3_rt, se3_item.
    rewrite SE3_matrix_blocks, lay_block_rot, lay_block_trans.
    destruct (so3_item_roundtrip atol (snd X)) as [q' [E Hs]]; [lra | now apply HX|].
    exists q'. rewrite E. split; [reflexivity | exact Hs].
Qed.

(* ---------------- scale: cube root of the determinant *)
Lemma cbrt_cube s : 0 < s -> cbrt (s * s * s) = Some s.
Proof.
  intros Hs. unfold cbrt. cbv [ltb zero NumR].
  assert (H3 : 0 < s * s * s) by (apply Rmult_lt_0_compat; [apply Rmult_lt_0_compat|]; assumption).
  destruct (Rltb 0 (s * s * s)) eqn:E; [|apply Rltb_false in E; lra].
  f_equal. cbv [texp tln div ofZ TransR NumR].
  rewrite !ln_mult by (try apply Rmult_lt_0_compat; assumption).
  replace ((ln s + ln s + ln s) / 3) with (ln s) by field. now apply exp_ln.
Qed.
Lemma det_mscale3 s (A : @mat3 R) : mdet3 (mscale3 s A) = s * s * s * mdet3 A.
Proof. lie_ring. Qed.
Lemma mdiv3_mscale3 s (A : @mat3 R) : s <> 0 -> mdiv3 (mscale3 s A) (Some s) = Some A.
Proof.
  intros Hs. unfold mdiv3. cbv [eqb zero NumR]. destruct (Reqb s 0) eqn:E; [apply Reqb_true in E; contradiction|].
  f_equal. destruct A as [[[[a b] c] [[d e] f]] [[g h] k]]. unfold mmap3. lie_unfold. split_pairs; field; assumption.
Qed.

Definition sc_item (m : @matin R) : option R := cbrt (mdet3 (in_rot m)).
Definition div_item (m : @matin R) : option (@mat3 R) := mdiv3 (in_rot m) (sc_item m).
Definition sim3_item (atol : R) (m : @matin R) : option sim3R :=
  obindo (sc_item m) (fun s => option_map (fun q : quatR => (in_trans m, (q, s))) (so3_item atol (div_item m))).
Definition rxso3_item (atol : R) (m : @matin R) : option rxso3R :=
  obindo (sc_item m) (fun s => option_map (fun q : quatR => (q, s)) (so3_item atol (div_item m))).
Definition rank_small (rtol atol : R) (s : option R) : bool := lift (fun v => close rtol atol v 0) s.

Lemma scale_stage_pass rtol atol Ms :
  (exists m, In m Ms /\ rank_small rtol atol (sc_item m) = false) ->
  scale_stage rtol atol Ms = Value (map sc_item Ms).
Proof.
  intros [m [Hm Hs]]. unfold scale_stage.
  assert (E : forallb (lift (fun v => close rtol atol v zero)) (map (fun m => cbrt (mdet3 (in_rot m))) Ms) = false).
  { apply forallb_false_ex. exists (sc_item m). split; [apply in_map_iff; exists m; auto | exact Hs]. }
  rewrite E, andb_false_r. reflexivity.
Qed.
(* an empty batch returns (s.numel() > 0 guards the test) *)
Lemma scale_stage_empty rtol atol : scale_stage rtol atol [] = Value [].
Proof. reflexivity. Qed.
Lemma scale_stage_allsmall rtol atol Ms :
  Ms <> [] -> (forall m, In m Ms -> rank_small rtol atol (sc_item m) = true) ->
  scale_stage rtol atol Ms = Raises (ValueError E_rank).
Proof.
  intros Hne H. unfold scale_stage.
  assert (E : forallb (lift (fun v => close rtol atol v zero)) (map (fun m => cbrt (mdet3 (in_rot m))) Ms) = true).
  { apply forallb_map_true. exact H. }
  rewrite E. destruct Ms as [|m0 Ms']; [contradiction | reflexivity].
Qed.

Lemma mat2Sim3_pass rtol atol check Ms :
  scale_stage rtol atol Ms = Value (map sc_item Ms) ->
  (forall m, In m Ms -> lift (orth_ok rtol atol) (div_item m) = true /\ lift (det_ok rtol atol) (div_item m) = true) ->
  mat2Sim3 rtol atol check Ms = Value (map (sim3_item atol) Ms).
Proof.
  intros Hs H. unfold mat2Sim3. rewrite Hs. cbn [obind].
  rewrite combine_self_map, map_map. cbn [fst snd].
  change (map (fun x => mdiv3 (in_rot x) (sc_item x)) Ms) with (map div_item Ms).
  rewrite mat2SO3_pass.
  - cbn [omap]. rewrite map_map, combine_map_same, map_map. reflexivity.
  - intros M HM. apply in_map_iff in HM. destruct HM as [m [<- Hm]]. auto.
Qed.
Lemma mat2RxSO3_pass rtol atol check Ms :
  scale_stage rtol atol Ms = Value (map sc_item Ms) ->
  (forall m, In m Ms -> lift (orth_ok rtol atol) (div_item m) = true /\ lift (det_ok rtol atol) (div_item m) = true) ->
  mat2RxSO3 rtol atol check Ms = Value (map (rxso3_item atol) Ms).
Proof.
  intros Hs H. unfold mat2RxSO3. rewrite Hs. cbn [obind].
  rewrite combine_self_map, map_map. cbn [fst snd].
  change (map (fun x => mdiv3 (in_rot x) (sc_item x)) Ms) with (map div_item Ms).
  rewrite mat2SO3_pass.
  - cbn [omap]. rewrite map_map, combine_map_same, map_map. reflexivity.
  - intros M HM. apply in_map_iff in HM. destruct HM as [m [<- Hm]]. auto.
Qed.
(* history: before 988caf7 the rank test compared shapes B+(1,) and B *)
Lemma scale_stage_old_shape rtol atol B Ms :
  broadcastable (B ++ [1%nat]) B = false -> scale_stage_old rtol atol B Ms = Raises RuntimeError.
Proof. intros HB. unfold scale_stage_old. rewrite HB. reflexivity. Qed.
Lemma mat2Sim3_old_shape rtol atol check B Ms :
  broadcastable (B ++ [1%nat]) B = false -> mat2Sim3_old rtol atol check B Ms = Raises RuntimeError.
Proof. intros HB. unfold mat2Sim3_old. rewrite scale_stage_old_shape by assumption. reflexivity. Qed.
Lemma mat2RxSO3_old_shape rtol atol check B Ms :
  broadcastable (B ++ [1%nat]) B = false -> mat2RxSO3_old rtol atol check B Ms = Raises RuntimeError.
Proof. intros HB. unfold mat2RxSO3_old. rewrite scale_stage_old_shape by assumption. reflexivity. Qed.
(* the repaired functions are the old ones wherever the old rank test was well-formed and the batch
   is not empty *)
Lemma scale_stage_old_agrees rtol atol B Ms :
  broadcastable (B ++ [1%nat]) B = true -> Ms <> [] -> scale_stage_old rtol atol B Ms = scale_stage rtol atol Ms.
Proof.
  intros HB Hne. unfold scale_stage_old, scale_stage. rewrite HB. cbn [negb].
  destruct Ms as [|m0 Ms']; [contradiction|]. reflexivity.
Qed.

(* items built from a valid scaled rotation *)
Lemma sc_item_scaled l s q t : 0 < s -> unitq q ->
  sc_item (lay_in l (block4 (mscale3 s (SO3_matrix q)) t)) = Some s.
Proof.
  intros Hs Hu. unfold sc_item. rewrite lay_block_rot, det_mscale3, SO3_matrix_det by assumption.
  rewrite Rmult_1_r. now apply cbrt_cube.
Qed.
Lemma div_item_scaled l s q t : 0 < s -> unitq q ->
  div_item (lay_in l (block4 (mscale3 s (SO3_matrix q)) t)) = Some (SO3_matrix q).
Proof.
  intros Hs Hu. unfold div_item. rewrite sc_item_scaled by assumption. rewrite lay_block_rot.
  apply mdiv3_mscale3. lra.
Qed.
Lemma rank_small_false rtol atol s : 0 <= rtol -> atol < s -> rank_small rtol atol (Some s) = false.
Proof.
  intros Hr Hs. unfold rank_small, lift. apply close_false. unfold closeP.
  replace (s - 0) with s by ring. rewrite Rabs_R0. intros H.
  pose proof (Rle_abs s). lra.
Qed.

Definition sim3_rt (l : layout) (X : sim3R) (o : option sim3R) : Prop :=
  exists q', o = Some (lay_t l (fst X), (q', snd (snd X))) /\ qsame (fst (snd X)) q'.
Definition rxso3_rt (X : rxso3R) (o : option rxso3R) : Prop :=
  exists q', o = Some (q', snd X) /\ qsame (fst X) q'.

Theorem mat2Sim3_roundtrip rtol atol check l (Xs : list sim3R) :
  0 <= rtol -> 0 <= atol < 1 -> Forall valid_Sim3 Xs ->
  (Xs = [] \/ exists X, In X Xs /\ atol < snd (snd X)) ->
  exists out, mat2Sim3 rtol atol check (map (fun X => lay_in l (matrix4 Sim3_act4 X)) Xs) = Value out /\
              Forall2 (sim3_rt l) Xs out.
Proof.
  intros Hr [Ha0 Ha1] HX [-> | [X0 [HX0 Hs0]]].
  { exists []. split; [destruct check; reflexivity | constructor]. }
  rewrite Forall_forall in HX. eexists. split.
  - apply mat2Sim3_pass.
    + apply scale_stage_pass.
      exists (lay_in l (matrix4 Sim3_act4 X0)). split; [apply in_map_iff; exists X0; auto|].
      destruct (HX X0 HX0) as [Hu Hs]. rewrite Sim3_matrix_blocks, sc_item_scaled by assumption.
      now apply rank_small_false.
    + intros m Hm. apply in_map_iff in Hm. destruct Hm as [X [<- HXin]]. destruct (HX X HXin) as [Hu Hs].
      rewrite Sim3_matrix_blocks, div_item_scaled by assumption. cbn [lift].
      destruct (rotation_within_tol rtol atol _ Hr Ha0 Hu) as [Ho Hd].
      split; [now apply orth_ok_true | now apply det_ok_true].
  - rewrite map_map. apply Forall2_map_r. intros X HXin. destruct (HX X HXin) as [Hu Hs].
    unfold sim3_rt, sim3_item. rewrite Sim3_matrix_blocks, sc_item_scaled, div_item_scaled, lay_block_trans by assumption.
    cbn [obindo]. destruct (so3_item_roundtrip atol (fst (snd X))) as [q' [E Hq]]; [lra | assumption|].
    exists q'. rewrite E. split; [reflexivity | exact Hq].
Qed.
Theorem mat2RxSO3_roundtrip rtol atol check l (Xs : list rxso3R) :
  0 <= rtol -> 0 <= atol < 1 -> Forall valid_RxSO3 Xs ->
  (Xs = [] \/ exists X, In X Xs /\ atol < snd X) ->
  exists out, mat2RxSO3 rtol atol check (map (fun X => lay_in l (matrix4 RxSO3_act4 X)) Xs) = Value out /\
              Forall2 rxso3_rt Xs out.
Proof.
  intros Hr [Ha0 Ha1] HX [-> | [X0 [HX0 Hs0]]].
  { exists []. split; [destruct check; reflexivity | constructor]. }
  rewrite Forall_forall in HX. eexists. split.
  - apply mat2RxSO3_pass.
    + apply scale_stage_pass.
      exists (lay_in l (matrix4 RxSO3_act4 X0)). split; [apply in_map_iff; exists X0; auto|].
      destruct (HX X0 HX0) as [Hu Hs]. rewrite RxSO3_matrix4_blocks, sc_item_scaled by assumption.
      now apply rank_small_false.
    + intros m Hm. apply in_map_iff in Hm. destruct Hm as [X [<- HXin]]. destruct (HX X HXin) as [Hu Hs].
      rewrite RxSO3_matrix4_blocks, div_item_scaled by assumption. cbn [lift].
      destruct (rotation_within_tol rtol atol _ Hr Ha0 Hu) as [Ho Hd].
      split; [now apply orth_ok_true | now apply det_ok_true].
  - rewrite map_map. apply Forall2_map_r. intros X HXin. destruct (HX X HXin) as [Hu Hs].
    unfold rxso3_rt, rxso3_item. rewrite RxSO3_matrix4_blocks, sc_item_scaled, div_item_scaled by assumption.
    cbn [obindo]. destruct (so3_item_roundtrip atol (fst X)) as [q' [E Hq]]; [lra | assumption|].
    exists q'. rewrite E. split; [reflexivity | exact Hq].
Qed.

(* history (before 988caf7): the batch-shape clause failed on the faithful model of the old code, lshape (2,3) *)
Theorem mat2Sim3_old_batch_shape_refuted rtol atol check l :
  exists (B : list nat) (Xs : list sim3R),
    length Xs = fold_right Nat.mul 1%nat B /\ Forall valid_Sim3 Xs /\ (forall X, In X Xs -> snd (snd X) = 2) /\
    mat2Sim3_old rtol atol check B (map (fun X => lay_in l (matrix4 Sim3_act4 X)) Xs) = Raises RuntimeError.
Proof.
  exists [2%nat; 3%nat], (repeat ((1, 2, 3), (((3/5, 0, 0), 4/5), 2)) 6).
  split; [reflexivity|]. split; [|split].
  - apply Forall_forall. intros X HX. apply repeat_spec in HX. subst X. apply valid_example.
  - intros X HX. apply repeat_spec in HX. subst X. reflexivity.
  - apply mat2Sim3_old_shape. reflexivity.
Qed.
Theorem mat2RxSO3_old_batch_shape_refuted rtol atol check l :
  exists (B : list nat) (Xs : list rxso3R),
    length Xs = fold_right Nat.mul 1%nat B /\ Forall valid_RxSO3 Xs /\ (forall X, In X Xs -> snd X = 2) /\
    mat2RxSO3_old rtol atol check B (map (fun X => lay_in l (matrix4 RxSO3_act4 X)) Xs) = Raises RuntimeError.
Proof.
  exists [2%nat; 3%nat], (repeat (((3/5, 0, 0), 4/5), 2) 6).
  split; [reflexivity|]. split; [|split].
  - apply Forall_forall. intros X HX. apply repeat_spec in HX. subst X. apply valid_example.
  - intros X HX. apply repeat_spec in HX. subst X. reflexivity.
  - apply mat2RxSO3_old_shape. reflexivity.
Qed.
(* and an empty batch raised "not full rank" (allclose of two empty tensors is True); it returns now *)
Lemma mat2Sim3_old_empty rtol atol check : mat2Sim3_old rtol atol check [0%nat] [] = Raises (ValueError E_rank).
Proof. reflexivity. Qed.
Lemma mat2RxSO3_old_empty rtol atol check : mat2RxSO3_old rtol atol check [0%nat] [] = Raises (ValueError E_rank).
Proof. reflexivity. Qed.
Lemma mat2Sim3_empty rtol atol check : mat2Sim3 rtol atol check [] = Value [].
Proof. destruct check; reflexivity. Qed.
Lemma mat2RxSO3_empty rtol atol check : mat2RxSO3 rtol atol check [] = Value [].
Proof. destruct check; reflexivity. Qed.

(* ---------------- euler2SO3 = Rz(yaw) Ry(pitch) Rx(roll) *)
Definition Rx (a : R) : @mat3 R := ((1, 0, 0), (0, cos a, - sin a), (0, sin a, cos a)).
Definition Ry (a : R) : @mat3 R := ((cos a, 0, sin a), (0, 1, 0), (- sin a, 0, cos a)).
Definition Rz (a : R) : @mat3 R := ((cos a, - sin a, 0), (sin a, cos a, 0), (0, 0, 1)).

Lemma half_angle a : let h := a * (1 / 2) in
  cos a = cos h * cos h - sin h * sin h /\ sin a = 2 * sin h * cos h /\ sin h * sin h + cos h * cos h = 1.
Proof.
  intros h. assert (E : a = 2 * h) by (unfold h; field). split; [|split].
  - rewrite E at 1. apply cos_2a.
  - rewrite E at 1. apply sin_2a.
  - pose proof (sin2_cos2 h) as H. unfold Rsqr in H. exact H.
Qed.

Lemma euler2SO3_unit e : unitq (euler2SO3 e).
Proof.
  destruct e as [[r p] y]. unfold unitq, euler2SO3. cbn [vx vy vz fst snd].
  cbv [tcos tsin TransR half]. num_unfold.
  destruct (half_angle r) as [_ [_ Hr]]. destruct (half_angle p) as [_ [_ Hp]]. destruct (half_angle y) as [_ [_ Hy]].
  cbv zeta in Hr, Hp, Hy. revert Hr Hp Hy.
  generalize (sin (r * (1 / 2))) (cos (r * (1 / 2))) (sin (p * (1 / 2))) (cos (p * (1 / 2)))
             (sin (y * (1 / 2))) (cos (y * (1 / 2))).
  intros sr cr sp cp sy cy Hr Hp Hy. lie_unfold.
  replace 1 with ((sr * sr + cr * cr) * (sp * sp + cp * cp) * (sy * sy + cy * cy)) by (rewrite Hr, Hp, Hy; ring).
  ring.
Qed.

Theorem euler2SO3_is_zyx r p y :
  SO3_matrix (euler2SO3 (r, p, y)) = mmul3 (Rz y) (mmul3 (Ry p) (Rx r)).
Proof.
  unfold euler2SO3, Rx, Ry, Rz. cbn [vx vy vz fst snd]. cbv [tcos tsin TransR half]. num_unfold.
  destruct (half_angle r) as [Cr [Sr Hr]]. destruct (half_angle p) as [Cp [Sp Hp]]. destruct (half_angle y) as [Cy [Sy Hy]].
  cbv zeta in *. rewrite Cr, Sr, Cp, Sp, Cy, Sy. clear Cr Sr Cp Sp Cy Sy. revert Hr Hp Hy.
  generalize (sin (r * (1 / 2))) (cos (r * (1 / 2))) (sin (p * (1 / 2))) (cos (p * (1 / 2)))
             (sin (y * (1 / 2))) (cos (y * (1 / 2))).
  intros sr cr sp cp sy cy Hr Hp Hy. lie_unfold. split_pairs; nsatz.
Qed.

(* ---------------- atan2 and asin over R *)
Lemma atan2F_pos (y x : R) : 0 < x -> atan2F y x = atan (y / x).
Proof.
  intros H. unfold atan2F. cbv [ltb zero NumR]. destruct (Rltb 0 x) eqn:E; [reflexivity | apply Rltb_false in E; lra].
Qed.
Lemma atan2F_neg_neg (y x : R) : x < 0 -> y < 0 -> atan2F y x = atan (y / x) - PI.
Proof.
  intros Hx Hy. unfold atan2F. cbv [ltb zero NumR].
  destruct (Rltb 0 x) eqn:E; [apply Rltb_true in E; lra|].
  destruct (Rltb x 0) eqn:E2; [|apply Rltb_false in E2; lra].
  destruct (Rltb y 0) eqn:E3; [reflexivity | apply Rltb_false in E3; lra].
Qed.
Lemma atan2F_neg_pos (y x : R) : x < 0 -> 0 <= y -> atan2F y x = atan (y / x) + PI.
Proof.
  intros Hx Hy. unfold atan2F. cbv [ltb zero NumR].
  destruct (Rltb 0 x) eqn:E; [apply Rltb_true in E; lra|].
  destruct (Rltb x 0) eqn:E2; [|apply Rltb_false in E2; lra].
  destruct (Rltb y 0) eqn:E3; [apply Rltb_true in E3; lra | reflexivity].
Qed.
Lemma atan2F_zero_pos (y : R) : 0 < y -> atan2F y 0 = PI / 2.
Proof.
  intros Hy. unfold atan2F. cbv [ltb zero NumR two ofZ div].
  destruct (Rltb 0 0) eqn:E; [apply Rltb_true in E; lra|].
  destruct (Rltb 0 y) eqn:E3; [reflexivity | apply Rltb_false in E3; lra].
Qed.
Lemma atan2F_zero_neg (y : R) : y < 0 -> atan2F y 0 = - (PI / 2).
Proof.
  intros Hy. unfold atan2F. cbv [ltb zero NumR two ofZ div opp].
  destruct (Rltb 0 0) eqn:E; [apply Rltb_true in E; lra|].
  destruct (Rltb 0 y) eqn:E3; [apply Rltb_true in E3; lra|].
  destruct (Rltb y 0) eqn:E4; [reflexivity | apply Rltb_false in E4; lra].
Qed.

Lemma sqrt_1_sq (u c x : R) : 0 < c / x -> 1 + u * u = (c / x) * (c / x) -> sqrt (1 + u²) = c / x.
Proof. intros Hp E. unfold Rsqr. rewrite E. apply sqrt_square. lra. Qed.

(* for (x, y) on the circle of radius c > 0: the angle atan2(y, x) has cos = x/c, sin = y/c *)
Lemma atan2F_spec (y x c : R) : 0 < c -> x * x + y * y = c * c ->
  cos (atan2F y x) = x / c /\ sin (atan2F y x) = y / c.
Proof.
  intros Hc H.
  destruct (Rtotal_order x 0) as [Hx|[Hx|Hx]].
  - (* x < 0 *)
    assert (Hq : 0 < c / (- x)) by (apply Rdiv_lt_0_compat; lra).
    assert (E : 1 + (y / x) * (y / x) = (c / (- x)) * (c / (- x))).
    { replace (1 + (y / x) * (y / x)) with ((x * x + y * y) / (x * x)) by (field; lra). rewrite H. field. lra. }
    pose proof (sqrt_1_sq _ _ _ Hq E) as S.
    destruct (Rlt_or_le y 0) as [Hy|Hy].
    + rewrite atan2F_neg_neg by assumption. unfold Rminus. rewrite cos_plus, sin_plus, cos_neg, sin_neg, cos_PI, sin_PI.
      rewrite cos_atan, sin_atan, S. split; field; lra.
    + rewrite atan2F_neg_pos by assumption. rewrite cos_plus, sin_plus, cos_PI, sin_PI.
      rewrite cos_atan, sin_atan, S. split; field; lra.
  - (* x = 0 *)
    subst x. assert (Hy : y * y = c * c) by lra.
    destruct (Rtotal_order y 0) as [Hy0|[Hy0|Hy0]].
    + rewrite atan2F_zero_neg by assumption. rewrite cos_neg, sin_neg, cos_PI2, sin_PI2.
      assert (y = - c) by nra. subst y. split; field; lra.
    + subst y. nra.
    + rewrite atan2F_zero_pos by assumption. rewrite cos_PI2, sin_PI2.
      assert (y = c) by nra. subst y. split; field; lra.
  - (* x > 0 *)
    assert (Hq : 0 < c / x) by (apply Rdiv_lt_0_compat; lra).
    assert (E : 1 + (y / x) * (y / x) = (c / x) * (c / x)).
    { replace (1 + (y / x) * (y / x)) with ((x * x + y * y) / (x * x)) by (field; lra). rewrite H. field. lra. }
    pose proof (sqrt_1_sq _ _ _ Hq E) as S.
    rewrite atan2F_pos by assumption. rewrite cos_atan, sin_atan, S. split; field; lra.
Qed.

(* principal range (-pi, pi] *)
Lemma atan2F_range (y x : R) : - PI < atan2F y x <= PI.
Proof.
  pose proof PI_RGT_0 as Hpi.
  destruct (Rtotal_order x 0) as [Hx|[Hx|Hx]].
  - destruct (Rlt_or_le y 0) as [Hy|Hy].
    + rewrite atan2F_neg_neg by assumption. pose proof (atan_bound (y / x)).
      assert (0 < y / x). { replace (y / x) with ((- y) / (- x)) by (field; lra). apply Rdiv_lt_0_compat; lra. }
      pose proof (atan_increasing _ _ H0) as Hi. rewrite atan_0 in Hi. lra.
    + rewrite atan2F_neg_pos by assumption. pose proof (atan_bound (y / x)).
      assert (Hle : y / x <= 0).
      { replace (y / x) with (- (y / (- x))) by (field; lra).
        assert (0 <= y / (- x)) by (apply Rle_mult_inv_pos; lra). lra. }
      assert (atan (y / x) <= 0).
      { destruct Hle as [Hlt|Heq]; [pose proof (atan_increasing _ _ Hlt) as Hi; rewrite atan_0 in Hi; lra | rewrite Heq, atan_0; lra]. }
      lra.
  - subst x. destruct (Rtotal_order y 0) as [Hy0|[Hy0|Hy0]].
    + rewrite atan2F_zero_neg by assumption. lra.
    + subst y. unfold atan2F. cbv [ltb zero NumR]. destruct (Rltb 0 0) eqn:E; [apply Rltb_true in E; lra|]. lra.
    + rewrite atan2F_zero_pos by assumption. lra.
  - rewrite atan2F_pos by assumption. pose proof (atan_bound (y / x)). lra.
Qed.

Lemma asinF_asin (t : R) : asinF t = asin t.
Proof.
  unfold asinF, asin. cbv [leb opp one NumR tpi tatan tsqrt TransR two ofZ div sub mul]. unfold Rsqr.
  destruct (Rleb t (- (1))) eqn:E1; [apply Rleb_true in E1 | apply Rleb_false in E1].
  - destruct (Rle_dec t (-1)); [reflexivity | lra].
  - destruct (Rle_dec t (-1)); [lra|].
    destruct (Rleb 1 t) eqn:E2; [apply Rleb_true in E2 | apply Rleb_false in E2];
    destruct (Rle_dec 1 t); try lra; reflexivity.
Qed.
Lemma clampF_id (t : R) : -1 <= t <= 1 -> clampF (-1) 1 t = t.
Proof.
  intros [H1 H2]. unfold clampF. cbv [ltb NumR].
  destruct (Rltb t (-1)) eqn:E; [apply Rltb_true in E; lra|].
  destruct (Rltb 1 t) eqn:E2; [apply Rltb_true in E2; lra | reflexivity].
Qed.

(* ---------------- euler2SO3 (euler q) is the rotation of q, away from the gimbal lock *)
Theorem euler_roundtrip eps (q : quatR) : 0 <= eps -> unitq q ->
  Rabs (2 * (qw q * vy (qv q) - vz (qv q) * vx (qv q))) < 1 - eps ->
  exists r p y, euler eps q = Some (r, p, y) /\
    SO3_matrix (euler2SO3 (r, p, y)) = SO3_matrix q /\
    (- PI < r <= PI) /\ (- (PI / 2) < p < PI / 2) /\ (- PI < y <= PI).
Proof.
  intros He Hu Hg. destruct q as [[[x y] z] w]. cbn [qv qw vx vy vz fst snd] in Hg.
  assert (H : x * x + y * y + z * z + w * w = 1).
  { unfold unitq in Hu. revert Hu. lie_unfold. intros <-. ring. }
  clear Hu.
  set (T2 := 2 * (w * y - z * x)) in *.
  assert (Hb : -1 < T2 < 1) by (apply Rabs_def2 in Hg; lra).
  unfold euler. cbn [qv qw vx vy vz fst snd]. num_unfold. cbv [eqb NumR]. rewrite H.
  destruct (Reqb 1 0) eqn:E0; [apply Reqb_true in E0; lra|]. clear E0.
  replace (2 * (w * y - z * x) / 1) with T2 by (unfold T2; field).
  rewrite absF_Rabs. cbv [ltb NumR].
  destruct (Rltb (Rabs T2) (1 - eps)) eqn:Ef; [|apply Rltb_false in Ef; lra]. clear Ef.
  rewrite clampF_id by lra. rewrite asinF_asin.
  set (t0 := 2 * (w * x + y * z)). set (t1 := w * w + z * z - (x * x + y * y)).
  set (t3 := 2 * (w * z + x * y)). set (t4 := w * w + x * x - (y * y + z * z)).
  exists (atan2F t0 t1), (asin T2), (atan2F t3 t4). split; [reflexivity|].
  split; [|split; [apply atan2F_range | split; [apply asin_bound_lt; lra | apply atan2F_range]]].
  rewrite euler2SO3_is_zyx.
  set (c := sqrt (1 - T2²)).
  assert (Hpos : 0 < 1 - T2²) by (unfold Rsqr; nra).
  assert (Hc : 0 < c) by (apply sqrt_lt_R0; exact Hpos).
  assert (Hcc : c * c = 1 - T2 * T2) by (unfold c; rewrite sqrt_sqrt by lra; reflexivity).
  assert (Sp : sin (asin T2) = T2) by (apply sin_asin; lra).
  assert (Cp : cos (asin T2) = c) by (apply cos_asin; lra).
  destruct (atan2F_spec t0 t1 c Hc) as [Cr Sr].
  { rewrite Hcc. unfold t0, t1, T2. clear - H. nsatz. }
  destruct (atan2F_spec t3 t4 c Hc) as [Cy Sy].
  { rewrite Hcc. unfold t3, t4, T2. clear - H. nsatz. }
  unfold Rx, Ry, Rz. rewrite Cr, Sr, Cy, Sy, Cp, Sp.
  assert (Hc0 : c <> 0) by lra.
  clearbody c. unfold t0, t1, t3, t4, T2 in *. clear - H Hcc Hc0.
  lie_unfold. split_pairs; field_simplify_eq; try assumption; cbn [Rpow_def.pow]; nsatz.
Qed.

(* ---------------- from_matrix on the entry lists of X.matrix() *)
Definition lay_rows (l : layout) : nat := match l with L44 => 4 | _ => 3 end.
Definition lay_cols (l : layout) : nat := match l with L33 => 3 | _ => 4 end.
(* row-major entries of the 4x4 matrix, of its first three rows, of its 3x3 block *)
Definition lay_l (l : layout) (M : @mat4 R) : list R :=
  let '(r0, r1, r2, r3) := M in
  match l with
  | L44 => m4_l M
  | L34 => v4_l r0 ++ v4_l r1 ++ v4_l r2
  | L33 => v3_l (fst r0) ++ v3_l (fst r1) ++ v3_l (fst r2)
  end.
Lemma parse_lay l (M : @mat4 R) : parse_in (lay_rows l) (lay_cols l) (lay_l l M) = lay_in l M.
Proof.
  destruct M as [[[[[[a b] c] d] [[[e f] g] h]] [[[i j] k] m]] [[[n o] p] r]]. destruct l; reflexivity.
Qed.
Lemma parse_m3 (A : @mat3 R) : parse_in 3 3 (m3_l A) = In33 A.
Proof. destruct A as [[[[a b] c] [[d e] f]] [[g h] k]]. reflexivity. Qed.
Lemma accepted_lay l : accepted (lay_rows l) (lay_cols l) = true.
Proof. destruct l; reflexivity. Qed.

Lemma from_matrix_rejects_shape rtol atol ltype check rows cols (data : list (list R)) :
  accepted rows cols = false -> from_matrix_l rtol atol ltype check rows cols data = Raises (ValueError E_size).
Proof. intros H. unfold from_matrix_l. rewrite H. reflexivity. Qed.
Lemma accepted_spec rows cols :
  accepted rows cols = true <-> (rows, cols) = (3, 3)%nat \/ (rows, cols) = (3, 4)%nat \/ (rows, cols) = (4, 4)%nat.
Proof.
  unfold accepted. rewrite !orb_true_iff, !andb_true_iff, !Nat.eqb_eq. split.
  - intros [[[-> ->]|[-> ->]]|[-> ->]]; auto.
  - intros [H|[H|H]]; inversion H; auto.
Qed.
Lemma from_matrix_rejects_ltype rtol atol ltype check rows cols (data : list (list R)) :
  accepted rows cols = true -> (3 < ltype)%nat ->
  from_matrix_l rtol atol ltype check rows cols data = Raises (ValueError E_ltype).
Proof.
  intros H Hl. unfold from_matrix_l. rewrite H. cbn [negb]. apply Nat.ltb_lt in Hl. rewrite Hl. reflexivity.
Qed.

Lemma from_matrix_SO3 rtol atol check (qs : list quatR) :
  from_matrix_l rtol atol 0 check 3 3 (map (fun q => m3_l (SO3_matrix q)) qs) =
  lmap q_l (mat2SO3 rtol atol check (map (fun q => Some (SO3_matrix q)) qs)).
Proof.
  unfold from_matrix_l, mat2X_l. cbn [accepted Nat.eqb andb orb negb Nat.ltb Nat.leb].
  assert (E : map (parse_in 3 3) (map (fun q => m3_l (SO3_matrix q)) qs) = map (fun q => In33 (SO3_matrix q)) qs)
    by (rewrite map_map; apply map_ext; intros; apply parse_m3).
  rewrite E, map_map. reflexivity.
Qed.
Lemma from_matrix_SE3 rtol atol check l (Xs : list se3R) :
  from_matrix_l rtol atol 1 check (lay_rows l) (lay_cols l) (map (fun X => lay_l l (matrix4 SE3_act4 X)) Xs) =
  lmap SE3_l (mat2SE3 rtol atol check (map (fun X => lay_in l (matrix4 SE3_act4 X)) Xs)).
Proof.
  unfold from_matrix_l, mat2X_l. rewrite accepted_lay. cbn [negb Nat.ltb Nat.leb].
  assert (E : map (parse_in (lay_rows l) (lay_cols l)) (map (fun X => lay_l l (matrix4 SE3_act4 X)) Xs) =
              map (fun X => lay_in l (matrix4 SE3_act4 X)) Xs)
    by (rewrite map_map; apply map_ext; intros; apply parse_lay).
  rewrite E. reflexivity.
Qed.
Lemma from_matrix_RxSO3 rtol atol check l (Xs : list rxso3R) :
  from_matrix_l rtol atol 2 check (lay_rows l) (lay_cols l) (map (fun X => lay_l l (matrix4 RxSO3_act4 X)) Xs) =
  lmap RxSO3_l (mat2RxSO3 rtol atol check (map (fun X => lay_in l (matrix4 RxSO3_act4 X)) Xs)).
Proof.
  unfold from_matrix_l, mat2X_l. rewrite accepted_lay. cbn [negb Nat.ltb Nat.leb].
  assert (E : map (parse_in (lay_rows l) (lay_cols l)) (map (fun X => lay_l l (matrix4 RxSO3_act4 X)) Xs) =
              map (fun X => lay_in l (matrix4 RxSO3_act4 X)) Xs)
    by (rewrite map_map; apply map_ext; intros; apply parse_lay).
  rewrite E. reflexivity.
Qed.
Lemma from_matrix_Sim3 rtol atol check l (Xs : list sim3R) :
  from_matrix_l rtol atol 3 check (lay_rows l) (lay_cols l) (map (fun X => lay_l l (matrix4 Sim3_act4 X)) Xs) =
  lmap Sim3_l (mat2Sim3 rtol atol check (map (fun X => lay_in l (matrix4 Sim3_act4 X)) Xs)).
Proof.
  unfold from_matrix_l, mat2X_l. rewrite accepted_lay. cbn [negb Nat.ltb Nat.leb].
  assert (E : map (parse_in (lay_rows l) (lay_cols l)) (map (fun X => lay_l l (matrix4 Sim3_act4 X)) Xs) =
              map (fun X => lay_in l (matrix4 Sim3_act4 X)) Xs)
    by (rewrite map_map; apply map_ext; intros; apply parse_lay).
  rewrite E. reflexivity.
Qed.

(* ---------------- consequences: same matrix, unit quaternion, same scale *)
Lemma so3_rt_same q o : unitq q -> so3_rt q o ->
  exists q', o = Some q' /\ unitq q' /\ SO3_matrix q' = SO3_matrix q.
Proof.
  intros Hu [q' [-> Hs]]. exists q'. split; [reflexivity|]. split; [now apply (qsame_unit q) | now apply qsame_matrix].
Qed.
Lemma se3_rt_same l X o : valid_SE3 X -> se3_rt l X o ->
  exists X', o = Some X' /\ valid_SE3 X' /\
             matrix4 SE3_act4 X' = block4 (SO3_matrix (snd X)) (lay_t l (fst X)).
Proof.
  intros Hu [q' [-> Hs]]. eexists. split; [reflexivity|]. split.
  - unfold valid_SE3. cbn [snd]. now apply (qsame_unit (snd X)).
  - rewrite SE3_matrix_blocks. cbn [fst snd]. now rewrite (qsame_matrix _ _ Hs).
Qed.
Lemma sim3_rt_same l X o : valid_Sim3 X -> sim3_rt l X o ->
  exists X', o = Some X' /\ valid_Sim3 X' /\ snd (snd X') = snd (snd X) /\
             matrix4 Sim3_act4 X' = block4 (mscale3 (snd (snd X)) (SO3_matrix (fst (snd X)))) (lay_t l (fst X)).
Proof.
  intros [Hu Hs0] [q' [-> Hs]]. eexists. split; [reflexivity|]. split; [|split].
  - unfold valid_Sim3. cbn [fst snd]. split; [now apply (qsame_unit (fst (snd X))) | assumption].
  - reflexivity.
  - rewrite Sim3_matrix_blocks. cbn [fst snd]. now rewrite (qsame_matrix _ _ Hs).
Qed.
Lemma rxso3_rt_same X o : valid_RxSO3 X -> rxso3_rt X o ->
  exists X', o = Some X' /\ valid_RxSO3 X' /\ snd X' = snd X /\ matrix4 RxSO3_act4 X' = matrix4 RxSO3_act4 X.
Proof.
  intros [Hu Hs0] [q' [-> Hs]]. eexists. split; [reflexivity|]. split; [|split].
  - unfold valid_RxSO3. cbn [fst snd]. split; [now apply (qsame_unit (fst X)) | assumption].
  - reflexivity.
  - rewrite !RxSO3_matrix4_blocks. cbn [fst snd]. now rewrite (qsame_matrix _ _ Hs).
Qed.
(* with a 4x4 or 3x4 input the whole matrix is reproduced *)
Lemma lay_t_full l t : l <> L33 -> lay_t l t = t.
Proof. destruct l; [contradiction | reflexivity | reflexivity]. Qed.

(* hypotheses are satisfiable; a rotation by exactly pi about a coordinate axis and one about a
   generic axis go through the c0 / c2 branches *)
Example mat2SO3_pi_about_x : mat2SO3_core (1 / 100000) (SO3_matrix ((1, 0, 0), 0)) = Some ((1, 0, 0), 0).
Proof.
  destruct (core_roundtrip (1 / 100000) ((1, 0, 0), 0)) as [s [Hs E]]; [lra | unfold unitq; lie_unfold; ring|].
  rewrite E. f_equal.
  (* the sign: the selected component is x = 1 > 0 *)
  revert E. unfold mat2SO3_core, masks, disc0, disc1, disc2, disc3, comb. cbn [sel_c0 sel_c1 sel_c2 sel_c3].
  rewrite !T00, !T11, !T22, !T01, !T10, !T02, !T20, !T12, !T21. num_unfold. cbv [ltb leb NumR tsqrt TransR].
  destruct (Rltb (1 - 2 * (1 * 1 + 0 * 0)) (1 / 100000)) eqn:E1; [|apply Rltb_false in E1; lra].
  destruct (Rltb (1 - 2 * (1 * 1 + 0 * 0)) (1 - 2 * (0 * 0 + 0 * 0))) eqn:E2; [|apply Rltb_false in E2; lra].
  cbn [andb negb b2f]. num_unfold.
  match goal with |- context [Rleb ?r 0] => replace r with 4 by ring end.
  destruct (Rleb 4 0) eqn:E3; [apply Rleb_true in E3; lra|].
  intros [= Hx _ _ _]. unfold qsc. lie_unfold. destruct Hs as [-> | ->]; [split_pairs; ring|].
  exfalso. revert Hx. replace 4 with ((2 * 1) * (2 * 1)) by ring. rewrite sqrt_sq2, Rabs_R1. lra.
Qed.

(* ================= evaluation lemmas used by the enclosure route of the tie =================
   They reduce one call on a one-item batch to (i) the facts the code tests (tolerances, masks,
   sign of the radicand) and (ii) the closed form of the selected branch, so that the case files
   only have to establish small numeric facts with [interval]. *)
Definition disc_k (k : nat) (T : @mat3 R) : R :=
  match k with 0%nat => disc0 T | 1%nat => disc1 T | 2%nat => disc2 T | _ => disc3 T end.
Definition core_value (k : nat) (T : @mat3 R) : quatR :=
  let d := 2 * sqrt (disc_k k T) in
  match k with
  | 0%nat => (((disc0 T) / d, (e3 T 0 1 + e3 T 1 0) / d, (e3 T 2 0 + e3 T 0 2) / d), (e3 T 1 2 - e3 T 2 1) / d)
  | 1%nat => (((e3 T 0 1 + e3 T 1 0) / d, (disc1 T) / d, (e3 T 1 2 + e3 T 2 1) / d), (e3 T 2 0 - e3 T 0 2) / d)
  | 2%nat => (((e3 T 2 0 + e3 T 0 2) / d, (e3 T 1 2 + e3 T 2 1) / d, (disc2 T) / d), (e3 T 0 1 - e3 T 1 0) / d)
  | _ => (((e3 T 1 2 - e3 T 2 1) / d, (e3 T 2 0 - e3 T 0 2) / d, (e3 T 0 1 - e3 T 1 0) / d), (disc3 T) / d)
  end.
Definition core_branch (atol : R) (k : nat) (T : @mat3 R) : Prop :=
  match k with
  | 0%nat => e3 T 2 2 < atol /\ e3 T 1 1 < e3 T 0 0 /\ 0 < disc0 T
  | 1%nat => e3 T 2 2 < atol /\ e3 T 0 0 <= e3 T 1 1 /\ 0 < disc1 T
  | 2%nat => atol <= e3 T 2 2 /\ e3 T 0 0 < - e3 T 1 1 /\ 0 < disc2 T
  | _ => atol <= e3 T 2 2 /\ - e3 T 1 1 <= e3 T 0 0 /\ 0 < disc3 T
  end.
Ltac norm01 := rewrite ?Rmult_1_r, ?Rmult_0_r, ?Rplus_0_r, ?Rplus_0_l.
Lemma core_eval atol k (M : @mat3 R) :
  core_branch atol k (mtrans M) -> mat2SO3_core atol M = Some (core_value k (mtrans M)).
Proof.
  unfold mat2SO3_core, masks, comb. cbn [sel_c0 sel_c1 sel_c2 sel_c3]. generalize (mtrans M). intros T.
  cbv [ltb leb NumR]. num_unfold. cbv [tsqrt TransR].
  destruct k as [|[|[|k]]]; cbn [core_branch core_value disc_k]; intros [H1 [H2 H3]].
  - apply Rltb_true in H1, H2. rewrite H1, H2. cbn [andb negb b2f]. num_unfold. norm01.
    destruct (Rleb (disc0 T) 0) eqn:E; [apply Rleb_true in E; lra | reflexivity].
  - apply Rltb_true in H1. apply Rltb_false in H2. rewrite H1, H2. cbn [andb negb b2f]. num_unfold. norm01.
    destruct (Rleb (disc1 T) 0) eqn:E; [apply Rleb_true in E; lra | reflexivity].
  - apply Rltb_false in H1. apply Rltb_true in H2. rewrite H1, H2. cbn [andb negb b2f]. num_unfold. norm01.
    destruct (Rleb (disc2 T) 0) eqn:E; [apply Rleb_true in E; lra | reflexivity].
  - apply Rltb_false in H1. apply Rltb_false in H2. rewrite H1, H2. cbn [andb negb b2f]. num_unfold. norm01.
    destruct (Rleb (disc3 T) 0) eqn:E; [apply Rleb_true in E; lra | reflexivity].
Qed.

(* the ten tests of check=True, spelled out *)
Definition within10 (rtol atol : R) (M : @mat3 R) : Prop :=
  let E := mmul3 M (mtrans M) in
  closeP rtol atol (e3 E 0 0) 1 /\ closeP rtol atol (e3 E 0 1) 0 /\ closeP rtol atol (e3 E 0 2) 0 /\
  closeP rtol atol (e3 E 1 0) 0 /\ closeP rtol atol (e3 E 1 1) 1 /\ closeP rtol atol (e3 E 1 2) 0 /\
  closeP rtol atol (e3 E 2 0) 0 /\ closeP rtol atol (e3 E 2 1) 0 /\ closeP rtol atol (e3 E 2 2) 1 /\
  closeP rtol atol (mdet3 M) 1.
Lemma within10_ok rtol atol M : within10 rtol atol M -> orth_ok rtol atol M = true /\ det_ok rtol atol M = true.
Proof.
  unfold within10. intros [H00 [H01 [H02 [H10 [H11 [H12 [H20 [H21 [H22 Hd]]]]]]]]]. split.
  - apply orth_ok_true. intros i j Hi Hj.
    destruct i as [|[|[|i]]]; try lia; destruct j as [|[|[|j]]]; try lia; cbn [delta Nat.eqb]; assumption.
  - apply det_ok_true. exact Hd.
Qed.

Lemma mat2SO3_single rtol atol check (M : @mat3 R) q :
  (check = true -> within10 rtol atol M) -> mat2SO3_core atol M = Some q ->
  mat2SO3 rtol atol check [Some M] = Value [Some q].
Proof.
  intros Hc Hq. destruct check.
  - rewrite mat2SO3_pass.
    + cbn [map so3_item obindo]. now rewrite Hq.
    + intros M' [<-|[]]. cbn [lift]. apply within10_ok. now apply Hc.
  - rewrite mat2SO3_nocheck. cbn [map so3_item obindo]. now rewrite Hq.
Qed.

Lemma from_matrix_is_mat2X rtol atol ltype check rows cols (data : list (list R)) :
  (ltype <= 3)%nat -> from_matrix_l rtol atol ltype check rows cols data = mat2X_l rtol atol ltype check rows cols data.
Proof.
  intros Hl. unfold from_matrix_l, mat2X_l. destruct (accepted rows cols); cbn [negb]; [|reflexivity].
  assert (E : Nat.ltb 3 ltype = false) by (apply Nat.ltb_ge; exact Hl). now rewrite E.
Qed.

Section EvalItem.
Variables (rtol atol : R) (check : bool) (rows cols : nat) (data : list R) (k : nat).
Hypothesis Hacc : accepted rows cols = true.
Let m := parse_in rows cols data.
Let M := in_rot m.

Lemma eval_item_SO3 :
  (check = true -> within10 rtol atol M) -> core_branch atol k (mtrans M) ->
  outcome_item (mat2X_l rtol atol 0 check rows cols [data]) 0 = q_l (core_value k (mtrans M)).
Proof.
  intros Hc Hb. unfold mat2X_l. rewrite Hacc. cbn [negb map].
  fold m. fold M. rewrite (mat2SO3_single _ _ _ _ _ Hc (core_eval _ _ _ Hb)). reflexivity.
Qed.
Lemma eval_item_SE3 :
  (check = true -> within10 rtol atol M) -> core_branch atol k (mtrans M) ->
  outcome_item (mat2X_l rtol atol 1 check rows cols [data]) 0 = SE3_l (in_trans m, core_value k (mtrans M)).
Proof.
  intros Hc Hb. unfold mat2X_l. rewrite Hacc. cbn [negb map]. unfold mat2SE3. cbn [map].
  fold m. fold M. rewrite (mat2SO3_single _ _ _ _ _ Hc (core_eval _ _ _ Hb)). reflexivity.
Qed.

(* scaled groups: s is the cube root of the determinant, N = M / s *)
Variable s : R.
Hypothesis Hdet : 0 < mdet3 M.
Hypothesis Hs : s = exp (ln (mdet3 M) / 3).
Hypothesis Hrank : atol + rtol * Rabs 0 < Rabs (s - 0).
Let N := mmap3 (fun e => e / s) M.

Lemma sc_item_pos : sc_item m = Some s.
Proof.
  unfold sc_item, cbrt. change (in_rot m) with M. cbv [ltb zero NumR].
  destruct (Rltb 0 (mdet3 M)) eqn:E.
  2:{ apply Rltb_false in E. exfalso. apply (Rlt_irrefl 0). eapply Rlt_le_trans; [exact Hdet | exact E]. }
  cbv [texp tln div ofZ TransR NumR]. now rewrite Hs.
Qed.
Lemma s_nonzero : s <> 0.
Proof. rewrite Hs. pose proof (exp_pos (ln (mdet3 M) / 3)). lra. Qed.
Lemma div_item_pos : div_item m = Some N.
Proof.
  unfold div_item. rewrite sc_item_pos. unfold mdiv3. cbv [eqb zero NumR].
  destruct (Reqb s 0) eqn:E; [apply Reqb_true in E; now apply s_nonzero in E | reflexivity].
Qed.
Lemma scale_stage_single : scale_stage rtol atol [m] = Value [Some s].
Proof.
  rewrite scale_stage_pass; [cbn [map]; now rewrite sc_item_pos |].
  exists m. split; [now left|]. rewrite sc_item_pos. unfold rank_small, lift. apply close_false. unfold closeP. lra.
Qed.
Lemma eval_item_RxSO3 :
  (check = true -> within10 rtol atol N) -> core_branch atol k (mtrans N) ->
  outcome_item (mat2X_l rtol atol 2 check rows cols [data]) 0 = RxSO3_l (core_value k (mtrans N), s).
Proof.
  intros Hc Hb. unfold mat2X_l. rewrite Hacc. cbn [negb map]. fold m. unfold mat2RxSO3.
  rewrite scale_stage_single. cbn [obind combine map fst snd]. fold M.
  change (mdiv3 M (Some s)) with (mdiv3 (in_rot m) (Some s)).
  pose proof div_item_pos as D. unfold div_item in D. rewrite sc_item_pos in D. rewrite D.
  rewrite (mat2SO3_single _ _ _ _ _ Hc (core_eval _ _ _ Hb)). reflexivity.
Qed.
Lemma eval_item_Sim3 :
  (check = true -> within10 rtol atol N) -> core_branch atol k (mtrans N) ->
  outcome_item (mat2X_l rtol atol 3 check rows cols [data]) 0 = Sim3_l (in_trans m, (core_value k (mtrans N), s)).
Proof.
  intros Hc Hb. unfold mat2X_l. rewrite Hacc. cbn [negb map]. fold m. unfold mat2Sim3.
  rewrite scale_stage_single. cbn [obind combine map fst snd]. fold M.
  change (mdiv3 M (Some s)) with (mdiv3 (in_rot m) (Some s)).
  pose proof div_item_pos as D. unfold div_item in D. rewrite sc_item_pos in D. rewrite D.
  rewrite (mat2SO3_single _ _ _ _ _ Hc (core_eval _ _ _ Hb)). reflexivity.
Qed.
End EvalItem.

(* with check=True the scaled variants raise exactly like mat2SO3 on the blocks divided by the scale *)
Lemma mat2Sim3_check_raises rtol atol Ms ss :
  scale_stage rtol atol Ms = Value ss ->
  ((exists e, mat2Sim3 rtol atol true Ms = Raises e) <->
   exists M, In M (map (fun ms => mdiv3 (in_rot (fst ms)) (snd ms)) (combine Ms ss)) /\ ~ item_within rtol atol M).
Proof.
  intros Hs. unfold mat2Sim3. rewrite Hs. cbn [obind]. rewrite <- mat2SO3_check_raises.
  destruct (mat2SO3 rtol atol true _) as [qs|e]; cbn [omap]; split; intros [e' He]; try discriminate; eauto.
Qed.

(* raise codes of the scaled variants on a one-item batch (rank test, negative determinant, check) *)
Section EvalCode.
Variables (rtol atol : R) (check : bool) (rows cols : nat) (data : list R) (g : nat).
Hypothesis Hacc : accepted rows cols = true.
Hypothesis Hg : g = 2%nat \/ g = 3%nat.
Let m := parse_in rows cols data.
Let M := in_rot m.

Lemma code_of_stage e :
  scale_stage rtol atol [m] = Raises e -> outcome_code (mat2X_l rtol atol g check rows cols [data]) = outcome_code (@Raises unit e).
Proof.
  intros Hs. unfold mat2X_l. rewrite Hacc. cbn [negb map]. fold m.
  destruct Hg as [-> | ->]; [unfold mat2RxSO3 | unfold mat2Sim3]; rewrite Hs; reflexivity.
Qed.
(* all scales within the tolerance of zero: "Rotation matrix not full rank" *)
Lemma code_rank_small s : 0 < mdet3 M -> s = exp (ln (mdet3 M) / 3) -> Rabs (s - 0) <= atol + rtol * Rabs 0 ->
  outcome_code (mat2X_l rtol atol g check rows cols [data]) = 4%nat.
Proof.
  intros Hd Hs Hc. rewrite (code_of_stage (ValueError E_rank)); [reflexivity|].
  apply scale_stage_allsmall; [discriminate|]. intros m' [<-|[]].
  unfold m. rewrite (sc_item_pos rows cols data s Hd Hs). unfold rank_small, lift. apply close_true. exact Hc.
Qed.
Lemma code_rank_singular : mdet3 M = 0 -> 0 <= atol ->
  outcome_code (mat2X_l rtol atol g check rows cols [data]) = 4%nat.
Proof.
  intros Hd Ha. rewrite (code_of_stage (ValueError E_rank)); [reflexivity|].
  apply scale_stage_allsmall; [discriminate|]. intros m' [<-|[]].
  unfold sc_item, cbrt. change (in_rot m) with M. rewrite Hd. cbv [ltb zero NumR].
  destruct (Rltb 0 0) eqn:E; [apply Rltb_true in E; lra|]. unfold rank_small, lift.
  apply close_true. unfold closeP. replace (0 - 0) with 0 by ring. rewrite Rabs_R0. lra.
Qed.
(* negative determinant: the scale is NaN; check=True raises the orthogonality error, check=False returns *)
Lemma sc_item_neg : mdet3 M < 0 -> sc_item m = None.
Proof.
  intros Hd. unfold sc_item, cbrt. change (in_rot m) with M. cbv [ltb zero NumR].
  destruct (Rltb 0 (mdet3 M)) eqn:E; [apply Rltb_true in E; exfalso; exact (Rlt_asym _ _ E Hd)|].
  destruct (Rltb (mdet3 M) 0) eqn:E2; [reflexivity | apply Rltb_false in E2; exfalso; exact (Rlt_not_le _ _ Hd E2)].
Qed.
Lemma code_negdet : mdet3 M < 0 ->
  outcome_code (mat2X_l rtol atol g check rows cols [data]) = if check then 2%nat else 0%nat.
Proof.
  intros Hd. pose proof (sc_item_neg Hd) as Hn.
  assert (Hst : scale_stage rtol atol [m] = Value [None]).
  { rewrite scale_stage_pass; [cbn [map]; now rewrite Hn |].
    exists m. split; [now left | rewrite Hn; reflexivity]. }
  unfold mat2X_l. rewrite Hacc. cbn [negb map]. fold m.
  destruct Hg as [-> | ->]; [unfold mat2RxSO3 | unfold mat2Sim3]; rewrite Hst; cbn [obind combine map fst snd mdiv3];
    destruct check; reflexivity.
Qed.
(* a positive scale and an entry of (M/s)(M/s)^T beyond the tolerance: check=True raises the
   orthogonality error *)
Lemma code_not_orth s i j : 0 < mdet3 M -> s = exp (ln (mdet3 M) / 3) -> atol + rtol * Rabs 0 < Rabs (s - 0) ->
  check = true -> (i < 3)%nat -> (j < 3)%nat ->
  let N := mmap3 (fun e => e / s) M in
  atol + rtol * Rabs (delta i j) < Rabs (e3 (mmul3 N (mtrans N)) i j - delta i j) ->
  outcome_code (mat2X_l rtol atol g check rows cols [data]) = 2%nat.
Proof.
  intros Hd Hs Hr Hc Hi Hj N Hbad.
  pose proof (scale_stage_single rtol atol rows cols data s Hd Hs Hr) as Hst.
  pose proof (div_item_pos rows cols data s Hd Hs) as D. unfold div_item in D.
  rewrite (sc_item_pos rows cols data s Hd Hs) in D.
  assert (Ho : orth_ok rtol atol N = false).
  { destruct (orth_ok rtol atol N) eqn:E; [|reflexivity]. apply orth_ok_true in E.
    specialize (E i j Hi Hj). unfold closeP in E. lra. }
  unfold N, M, m in Ho.
  unfold mat2X_l. rewrite Hacc. cbn [negb map]. subst check.
  destruct Hg as [-> | ->]; [unfold mat2RxSO3 | unfold mat2Sim3]; rewrite Hst; cbn [obind combine map fst snd];
    rewrite D; unfold mat2SO3; cbn [andb forallb lift]; rewrite Ho; reflexivity.
Qed.
End EvalCode.
