(* C13, ninth file: the sigma points of UKF.sigma_weight_points reproduce the moments they were built from:
   weights sum to 1, weighted mean = x, weighted covariance about x = P -- every dimension, every k > -n,
   any factor oracle (the tie checks the same on the implementation). *)
From Coq Require Import Reals Lra Lia List Arith ZArith Psatz.
From PV Require Import Base.Num Base.Mat Model.Filter Proofs.Filter.
Import ListNotations.
#[local] Remove Hints NumQ NumZ : typeclass_instances.
Local Open Scope R_scope.

Lemma ukf_weights_sum n k : IZR (Z.of_nat n) + k <> 0 -> sumn (S (n + n)) (vget (ukf_weights n k)) = 1.
Proof.
  intros Hnk. rewrite sumn_split3.
  rewrite (sumn_ext n (fun i => vget (ukf_weights n k) (S i)) (fun _ => 1 / (2 * (IZR (Z.of_nat n) + k))))
    by (intros i Hi; now apply ukf_weights_lo).
  rewrite (sumn_ext n (fun i => vget (ukf_weights n k) (S (n + i))) (fun _ => 1 / (2 * (IZR (Z.of_nat n) + k))))
    by (intros i Hi; now apply ukf_weights_hi).
  rewrite !sumn_const, ukf_weights_0. field. exact Hnk.
Qed.

Theorem ukf_sigma_points_reproduce_moments (msqrt : matR -> matR) (n : nat) (x : list R) (P : matR) (k : R) :
  factor_ok n msqrt -> (0 < n)%nat -> SPD n P -> length x = n -> 0 < IZR (Z.of_nat n) + k ->
  exists pts w, sigma_points_gen msqrt true x P k = Some (pts, w) /\
    length pts = S (n + n) /\ length w = S (n + n) /\
    sumn (S (n + n)) (vget w) = 1 /\
    wsum_rows w pts = x /\
    wcov (dev_rows x pts) (dev_rows x pts) w None = P.
Proof.
  intros Hs Hn HP Hx Hnk.
  eexists. eexists. split; [exact (sigma_points_repaired msqrt n Hs k Hnk x P Hx HP)|].
  split; [unfold rows_of; now rewrite map_length, seq_length|].
  split; [unfold ukf_weights; cbn [length app]; rewrite app_length, !repeat_length; lia|].
  split; [apply ukf_weights_sum; lra|].
  split.
  - apply (stack_mean n n x (mtr (msqrt (mscale (IZR (Z.of_nat n) + k) P)))); try assumption; [lra|].
    exact (pts_stack msqrt n Hn Hs k Hnk x P Hx HP).
  - unfold wcov. exact (repaired_self msqrt n Hn Hs k Hnk x P Hx HP).
Qed.
