(* C14: the forward pass of lqr.py for vector states and ANY transition function f (what MPC runs on a
   nonlinear system after linearising it): for any gains and nominal trajectory the returned states
   follow f, one call per step at times tm, tm+1, ..., and the returned cost is the accumulated sum of
   the stage costs along them.  On a linear system it is the forward pass of Proofs/LQRMat2.v. *)
From Coq Require Import ZArith List Arith Lia Reals Lra.
Import ListNotations.
From PV Require Import Base.Num Base.Mat Model.Dynamics Proofs.LQRMat1 Proofs.LQRMat2 Proofs.LQRMat3.
#[local] Remove Hints NumQ NumZ : typeclass_instances.
Local Open Scope R_scope.

Section FwdNAny.
Variable f : Z -> list R -> list R -> list R.       (* system(x, u) called when the counter is t *)

Fixpoint fwdNG (tm : Z) (x : list R) (l : list (stageN * list R * list R * (matR * list R))) (cost : R)
  : list (list R) * list (list R) * R * Z :=
  match l with
  | [] => ([], [], cost, tm)
  | (st, xb, ub, (K, k)) :: r =>
      let dx := vminus x xb in
      let du := vplus (mapply K dx) k in
      let u := vplus du ub in
      let x' := f tm x u in
      let c := cost + stage_costN st x u in
      let '(xs, us, cf, tmf) := fwdNG (tm + 1)%Z x' r c in
      (x' :: xs, u :: us, cf, tmf)
  end.
Fixpoint trajNG (t : Z) (x : list R) (us : list (list R)) : list (list R) :=
  match us with [] => [] | u :: r => let x' := f t x u in x' :: trajNG (t + 1)%Z x' r end.
Fixpoint JaccNG (t : Z) (x : list R) (prob : list stageN) (us : list (list R)) (acc : R) : R :=
  match prob, us with
  | st :: pr, u :: ur => JaccNG (t + 1)%Z (f t x u) pr ur (acc + stage_costN st x u)
  | _, _ => acc
  end.

Lemma fwdNG_spec : forall l tm x c xs us cf tmf,
  fwdNG tm x l c = (xs, us, cf, tmf) ->
  xs = trajNG tm x us /\ length us = length l /\ tmf = (tm + Z.of_nat (length l))%Z /\
  cf = JaccNG tm x (map stage_ofN l) us c.
Proof.
  induction l as [|[[[st xb] ub] [K k]] r IH]; intros tm x c xs us cf tmf H.
  - cbn in H. injection H as <- <- <- <-. cbn. repeat split. lia.
  - cbn [fwdNG] in H. cbv zeta in H.
    destruct (fwdNG (tm + 1)%Z _ r _) as [[[xs' us'] cf'] tmf'] eqn:E.
    injection H as <- <- <- <-. apply IH in E. destruct E as (E1 & E2 & E3 & E4).
    cbn [trajNG length map JaccNG]. unfold stage_ofN at 1. cbn [fst].
    split; [now rewrite E1|]. split; [lia|]. split; [lia|exact E4].
Qed.
End FwdNAny.

Lemma fwdN_is_fwdNG s : forall l tm x c, fwdN s tm x l c = fwdNG (sN_next s) tm x l c.
Proof.
  induction l as [|[[[st xb] ub] [K k]] r IH]; intros tm x c; [reflexivity|].
  cbn [fwdN fwdNG]. rewrite tickN_eq. cbv zeta. now rewrite IH.
Qed.
