(* C13, tenth file: history of the particle filter.  Before /repo b057b94 PF.forward weighted the PROPAGATED
   particles by the likelihood of y at the observation of the particles BEFORE the transition
   ([pf_forward_old] = pf_forward_gen false).  1-d witness: f(x) = -x, h(x) = x, x = 0, P = 1, R = Q = 1, y = 1,
   normal draws (1, -1), uniform draw 1/2: particles (1, -1) propagate to (-1, 1); the code as it is gives the
   weights (e^-2, 1)/(1 + e^-2) and the estimate 1 (the particle that explains y = 1); the old code gave the
   weights (1, e^-2)/(1 + e^-2) and the estimate -1. *)
From Coq Require Import Reals Lra Lia List Arith ZArith Psatz.
From PV Require Import Base.Num Base.Mat Model.Filter Proofs.Filter Proofs.Filter3.
Import ListNotations.
#[local] Remove Hints NumQ NumZ : typeclass_instances.
Local Open Scope R_scope.

Definition neg_system : @system R :=
  {| sf := fun p _ => [- vget p 0]; sh := fun p _ => p; sA := fun _ _ => [[-1]]; sC := fun _ _ => [[1]] |}.

(* both variants of forward, with the weights spelled out *)
Lemma pf_forward_gen_weights (pinv msqrt : matR -> matR) (lognorm : matR -> R) (at_prop : bool) (s : @system R)
  (Q Rm : matR) (x y u : list R) (P : matR) (eps : matR) (r : list R) :
  let xp := pf_particles msqrt x P eps in
  let xs := map (fun p => sf s p u) xp in
  let ye := map (fun p => sh s p u) (if at_prop then xs else xp) in
  let q := map (fun yi => gauss_kernel (pinv Rm) y yi / fold_left add (map (gauss_kernel (pinv Rm) y) ye) 0) ye in
  pf_forward_gen pinv msqrt lognorm at_prop s Q Rm x y u P eps r = pf_estimate q xs r Q.
Proof. cbv zeta. unfold pf_forward_gen. now rewrite pf_weights_are_normalised_likelihoods. Qed.

(* two particles, one uniform draw 1/2 *)
Lemma pf_estimate_two (q0 q1 a0 a1 : R) (Q : matR) :
  pf_estimate [q0; q1] [[a0]; [a1]] [1/2] Q =
  if Rltb (0 + q0) (1/2)
  then (if Rltb (0 + q0 + q1) (1/2) then None
        else Some (col_mean [[a1]], pf_cov (map (fun p => vminus p (col_mean [[a1]])) [[a1]]) Q))
  else (if Rltb (0 + q0 + q1) (1/2)
        then Some (col_mean [[a1]], pf_cov (map (fun p => vminus p (col_mean [[a1]])) [[a1]]) Q)
        else Some (col_mean [[a0]], pf_cov (map (fun p => vminus p (col_mean [[a0]])) [[a0]]) Q)).
Proof.
  unfold pf_estimate. rewrite cumsum_csum. cbn [csum map]. rewrite !searchsorted_cons.
  change (searchsorted [] (1 / 2)) with 0%nat.
  destruct (Rltb (0 + q0) (1/2)), (Rltb (0 + q0 + q1) (1/2)); reflexivity.
Qed.

Lemma div_lt_half a d : 0 < d -> 2 * a < d -> a / d < 1 / 2.
Proof. intros. apply (Rmult_lt_reg_r d); [lra|]. replace (a / d * d) with a by (field; lra). lra. Qed.
Lemma div_ge_half a d : 0 < d -> d <= 2 * a -> 1 / 2 <= a / d.
Proof. intros. apply (Rmult_le_reg_r d); [lra|]. replace (a / d * d) with a by (field; lra). lra. Qed.

Lemma col_mean_single (a : R) : col_mean [[a]] = [a].
Proof. unfold col_mean, wsum_rows. mcbv. list_eq. field. Qed.

Theorem pf_old_witness (pinv msqrt : matR -> matR) (lognorm : matR -> R) :
  pinv_ok 1 pinv -> cholesky_ok 1 msqrt ->
  (exists P1, pf_forward pinv msqrt lognorm neg_system [[1]] [[1]] [0] [1] [0] [[1]] [[1]; [-1]] [1/2] = Some ([1], P1)) /\
  (exists P2, pf_forward_old pinv msqrt lognorm neg_system [[1]] [[1]] [0] [1] [0] [[1]] [[1]; [-1]] [1/2] = Some ([-1], P2)).
Proof.
  intros Hp Hc.
  assert (H1 : msqrt [[1]] = [[1]]).
  { replace 1 with (1 * 1) at 1 by lra. apply cholesky_value_1x1; [assumption | lra]. }
  assert (Hi : pinv [[1]] = [[1]]).
  { apply (pinv_value 1); [assumption | apply SPD_lit_1x1; lra | apply wf_lit_1x1 | mcompute]. }
  assert (Exp : pf_particles msqrt [0] [[1]] [[1]; [-1]] = [[1]; [-1]]).
  { unfold pf_particles.
    match goal with |- context [msqrt ?M] => replace M with [[1]] by (symmetry; mcompute) end.
    rewrite H1. mcompute. }
  assert (K2 : gauss_kernel [[1]] [1] [-1] = exp (-2)).
  { unfold gauss_kernel, qform. mcbv. f_equal. lra. }
  assert (K0 : gauss_kernel [[1]] [1] [1] = 1).
  { unfold gauss_kernel, qform. mcbv. rewrite <- exp_0. f_equal. lra. }
  assert (Ha : 0 < exp (-2) < 1).
  { split; [apply exp_pos|]. rewrite <- exp_0. apply exp_increasing. lra. }
  set (a := exp (-2)) in *.
  split.
  - unfold pf_forward. rewrite pf_forward_gen_weights. cbv zeta. rewrite Exp, Hi.
    cbn [map neg_system sf sh].
    replace [- vget [1] 0] with [-1] by (unfold vget; cbn; reflexivity).
    replace [- vget [-1] 0] with [1] by (unfold vget; cbn [nth]; f_equal; lra).
    rewrite K2, K0. fold a. cbn [fold_left]. mnum.
    rewrite pf_estimate_two.
    replace (Rltb (0 + a / (0 + a + 1)) (1 / 2)) with true.
    2:{ symmetry. apply Rltb_true. rewrite Rplus_0_l. apply div_lt_half; lra. }
    replace (Rltb (0 + a / (0 + a + 1) + 1 / (0 + a + 1)) (1 / 2)) with false.
    2:{ symmetry. apply Rltb_false. replace (0 + a / (0 + a + 1) + 1 / (0 + a + 1)) with 1 by (field; lra). lra. }
    rewrite col_mean_single. eexists. reflexivity.
  - unfold pf_forward_old. rewrite pf_forward_gen_weights. cbv zeta. rewrite Exp, Hi.
    cbn [map neg_system sf sh].
    replace [- vget [1] 0] with [-1] by (unfold vget; cbn; reflexivity).
    replace [- vget [-1] 0] with [1] by (unfold vget; cbn [nth]; f_equal; lra).
    rewrite K2, K0. fold a. cbn [fold_left]. mnum.
    rewrite pf_estimate_two.
    replace (Rltb (0 + 1 / (0 + 1 + a)) (1 / 2)) with false.
    2:{ symmetry. apply Rltb_false. rewrite Rplus_0_l. apply div_ge_half; lra. }
    replace (Rltb (0 + 1 / (0 + 1 + a) + a / (0 + 1 + a)) (1 / 2)) with false.
    2:{ symmetry. apply Rltb_false. replace (0 + 1 / (0 + 1 + a) + a / (0 + 1 + a)) with 1 by (field; lra). lra. }
    rewrite col_mean_single. eexists. reflexivity.
Qed.

(* the clause "the particles are weighted by the likelihood at their own (propagated) observation", as a statement
   about a forward function, and its refutation for the old code *)
Definition pf_weights_at_propagated_for
  (fwd : (matR -> matR) -> (matR -> matR) -> (matR -> R) -> @system R -> matR -> matR -> list R -> list R -> list R ->
         matR -> matR -> list R -> option (list R * matR)) : Prop :=
  forall (pinv msqrt : matR -> matR) (lognorm : matR -> R) (s : @system R) (Q Rm : matR) (x y u : list R)
         (P eps : matR) (r : list R),
  let xs := map (fun p => sf s p u) (pf_particles msqrt x P eps) in
  let ye := map (fun p => sh s p u) xs in
  let q := map (fun yi => gauss_kernel (pinv Rm) y yi / fold_left add (map (gauss_kernel (pinv Rm) y) ye) 0) ye in
  fwd pinv msqrt lognorm s Q Rm x y u P eps r = pf_estimate q xs r Q.

Theorem pf_weights_at_propagated_holds : pf_weights_at_propagated_for (fun pinv msqrt ln => pf_forward pinv msqrt ln).
Proof. intros pinv msqrt lognorm s Q Rm x y u P eps r. apply pf_forward_weights. Qed.

Theorem pf_old_weights_at_propagated_refuted : ~ pf_weights_at_propagated_for (fun pinv msqrt ln => pf_forward_old pinv msqrt ln).
Proof.
  intros H.
  set (pinv1 := fun M : matR => [[1 / mget M 0 0]]).
  set (msq1 := fun M : matR => [[sqrt (mget M 0 0)]]).
  destruct (pf_old_witness pinv1 msq1 (fun _ => 0) pinv_ok_1_satisfiable cholesky_ok_1_satisfiable)
    as [[P1 E1] [P2 E2]].
  specialize (H pinv1 msq1 (fun _ => 0) neg_system [[1]] [[1]] [0] [1] [0] [[1]] [[1]; [-1]] [1/2]).
  cbv zeta in H. rewrite <- (pf_forward_weights pinv1 msq1 (fun _ => 0)) in H.
  rewrite E1, E2 in H. injection H as H _. lra.
Qed.
