(* C09: properties of the modelled kernels and correctors (Model/Kernel.v) over R. *)
From Coq Require Import Reals Lra Psatz List Lia Bool.
From Coquelicot Require Import Coquelicot.
From Interval Require Import Tactic.
Import ListNotations.
From PV Require Import Base.Num Base.RTac Model.Kernel.
Local Open Scope R_scope.
#[local] Remove Hints NumQ NumZ : typeclass_instances.

Notation blockR := (@block R).

(* unfold the R instances of the number classes without touching [NumR] under model functions
   (Base.RTac.num_unfold delta-expands the instance itself, which breaks syntactic matching) *)
Ltac rnum :=
  cbn [add sub mul div opp zero one ofZ two half NumR ltb leb eqb
       tsqrt tsin tcos tatan texp tln tpi TransR] in *.

(* ====================================================================== correctors: algebra *)
Section DotAlgebra.

Lemma dot_nil_r (a : list R) : dot a [] = 0.
Proof. destruct a; reflexivity. Qed.

Lemma dot_comm (a b : list R) : dot a b = dot b a.
Proof.
  revert b; induction a as [|x a IH]; intros [|y b]; cbn; auto. rnum. rewrite IH. ring.
Qed.

Lemma dot_scale_l (s : R) (a b : list R) : dot (scale_vec s a) b = s * dot a b.
Proof.
  revert b; induction a as [|x a IH]; intros [|y b]; cbn; rnum; try ring.
  unfold scale_vec in IH. rewrite IH. ring.
Qed.

Lemma dot_scale_r (s : R) (a b : list R) : dot a (scale_vec s b) = s * dot a b.
Proof. rewrite dot_comm, dot_scale_l, dot_comm. reflexivity. Qed.

Lemma dot_self_nonneg (a : list R) : 0 <= dot a a.
Proof. induction a as [|x a IH]; cbn; rnum; [lra|nra]. Qed.

Lemma dot_self_zero (a : list R) : dot a a = 0 -> Forall (fun x => x = 0) a.
Proof.
  induction a as [|x a IH]; cbn; intros H; rnum; constructor.
  - pose proof (dot_self_nonneg a). assert (Hxx : x * x = 0) by nra.
    apply Rmult_integral in Hxx. destruct Hxx; auto.
  - apply IH. pose proof (dot_self_nonneg a). nra.
Qed.

Lemma col_length (J : list (list R)) l : length (col J l) = length J.
Proof. unfold col. apply map_length. Qed.

Lemma col_scale (s : R) (J : list (list R)) (l : nat) :
  col (map (scale_vec s) J) l = scale_vec s (col J l).
Proof.
  unfold col, scale_vec. rewrite !map_map. apply map_ext. intros row.
  change (@zero R NumR) with 0. replace 0 with (mul s 0) at 1 by (rnum; ring).
  apply map_nth.
Qed.

Lemma nth_mapi_from {A B} (f : nat -> A -> B) (da : A) (db : B) :
  forall (l : list A) (i n : nat), (n < length l)%nat ->
  nth n (mapi_from f i l) db = f (i + n)%nat (nth n l da).
Proof.
  induction l as [|a l IH]; intros i n Hn; cbn in *; [lia|].
  destruct n as [|n]; [now rewrite Nat.add_0_r|].
  rewrite IH by lia. now rewrite Nat.add_succ_r.
Qed.

(* column l of the rank-one corrected Jacobian, as a function of R and column l of J *)
Fixpoint corr_col (se c t : R) (Rv A : list R) : list R :=
  match Rv, A with
  | r :: Rv', a :: A' => (se * a - c * (r * t)) :: corr_col se c t Rv' A'
  | _, _ => []
  end.

Lemma col_corrected (se c : R) (T : nat -> R) (p l : nat) : (l < p)%nat ->
  forall (Rv : list R) (J : list (list R)), Forall (fun row => length row = p) J ->
  col (map (fun rj : R * list R => mapi_from (fun l s => sub s (mul c (mul (fst rj) (T l)))) 0 (snd rj))
           (combine Rv (map (scale_vec se) J))) l
  = corr_col se c (T l) Rv (col J l).
Proof.
  intros Hl. induction Rv as [|r Rv IH]; intros [|row J] HJ; cbn; auto.
  inversion HJ as [|? ? Hrow HJ']; subst. f_equal; [|now apply IH].
  change (@zero R NumR) with 0.
  rewrite (nth_mapi_from _ 0 0) by (unfold scale_vec; rewrite map_length; lia).
  cbn [Nat.add fst snd]. unfold scale_vec.
  replace 0 with (mul se 0) at 1 by (rnum; ring). rewrite map_nth. rnum. ring.
Qed.

Lemma dot_corr_corr (se c t1 t2 : R) :
  forall Rv A B : list R, length A = length Rv -> length B = length Rv ->
  dot (corr_col se c t1 Rv A) (corr_col se c t2 Rv B)
  = se * se * dot A B - se * c * t2 * dot A Rv - se * c * t1 * dot Rv B + c * c * t1 * t2 * dot Rv Rv.
Proof.
  induction Rv as [|r Rv IH]; intros [|a A] [|b B] HA HB; cbn in *; try discriminate; rnum; try ring.
  rewrite IH by lia. ring.
Qed.

Lemma dot_corr_scaled (se c t q : R) :
  forall Rv A : list R, length A = length Rv ->
  dot (corr_col se c t Rv A) (scale_vec q Rv) = q * (se * dot A Rv - c * t * dot Rv Rv).
Proof.
  induction Rv as [|r Rv IH]; intros [|a A] HA; cbn in *; try discriminate; rnum; try ring.
  unfold scale_vec in IH. rewrite IH by lia. ring.
Qed.
End DotAlgebra.

(* per-block quantities *)
Definition JtR (b : blockR) (l : nat) : R := dot (col (snd b) l) (fst b).
Definition JtJ (b : blockR) (l m : nat) : R := dot (col (snd b) l) (col (snd b) m).
Definition wf_block (p : nat) (b : blockR) : Prop :=
  length (snd b) = length (fst b) /\ Forall (fun row => length row = p) (snd b).

(* ---------------------------------------------------------------- FastTriggs, one block *)
Lemma fasttriggs_block_some (g1 : R) (Rv : list R) (J : list (list R)) : 0 <= g1 ->
  fasttriggs_block g1 Rv J = Some (scale_vec (sqrt g1) Rv, map (scale_vec (sqrt g1)) J).
Proof.
  intros H. unfold fasttriggs_block. cbn [ltb NumR zero tsqrt TransR].
  replace (Rltb g1 0) with false by (symmetry; apply Rltb_false; lra). reflexivity.
Qed.
Lemma fasttriggs_block_none (g1 : R) (Rv : list R) (J : list (list R)) : g1 < 0 ->
  fasttriggs_block g1 Rv J = None.
Proof.
  intros H. unfold fasttriggs_block. cbn [ltb NumR zero].
  replace (Rltb g1 0) with true by (symmetry; now apply Rltb_true). reflexivity.
Qed.
Lemma fasttriggs_block_inv (g1 : R) Rv J b' : fasttriggs_block g1 Rv J = Some b' ->
  0 <= g1 /\ b' = (scale_vec (sqrt g1) Rv, map (scale_vec (sqrt g1)) J).
Proof.
  intros H. destruct (Rlt_dec g1 0) as [Hn|Hn].
  - rewrite fasttriggs_block_none in H by auto. discriminate.
  - assert (0 <= g1) by lra. rewrite fasttriggs_block_some in H by auto. now inversion H.
Qed.

Lemma fasttriggs_block_grad (g1 : R) Rv J b' : fasttriggs_block g1 Rv J = Some b' ->
  forall l, JtR b' l = g1 * JtR (Rv, J) l.
Proof.
  intros H l. apply fasttriggs_block_inv in H as [Hg ->]. unfold JtR. cbn [fst snd].
  rewrite col_scale, dot_scale_l, dot_scale_r. rewrite <- Rmult_assoc, sqrt_sqrt by auto. reflexivity.
Qed.
Lemma fasttriggs_block_hess (g1 : R) Rv J b' : fasttriggs_block g1 Rv J = Some b' ->
  forall l m, JtJ b' l m = g1 * JtJ (Rv, J) l m.
Proof.
  intros H l m. apply fasttriggs_block_inv in H as [Hg ->]. unfold JtJ. cbn [fst snd].
  rewrite !col_scale, dot_scale_l, dot_scale_r. rewrite <- Rmult_assoc, sqrt_sqrt by auto. reflexivity.
Qed.

(* ---------------------------------------------------------------- Triggs, one block *)
Lemma triggs_mask_true (x g2 : R) : triggs_mask x g2 = true <-> x <> 0 /\ 0 < g2.
Proof.
  unfold triggs_mask. cbn [eqb leb NumR zero]. rewrite negb_true_iff, orb_false_iff.
  rewrite Reqb_false, Rleb_false. tauto.
Qed.
Lemma triggs_mask_false (x g2 : R) : triggs_mask x g2 = false <-> x = 0 \/ g2 <= 0.
Proof.
  unfold triggs_mask. cbn [eqb leb NumR zero]. rewrite negb_false_iff, orb_true_iff.
  rewrite Reqb_true, Rleb_true. tauto.
Qed.

Lemma triggs_block_none (g1 g2 : R) Rv J : g1 < 0 -> triggs_block g1 g2 Rv J = None.
Proof.
  intros H. unfold triggs_block. cbn [ltb NumR zero].
  replace (Rltb g1 0) with true by (symmetry; now apply Rltb_true). reflexivity.
Qed.

(* off the mask Triggs is FastTriggs *)
Lemma triggs_block_off_mask (g1 g2 : R) Rv J : triggs_mask (dot Rv Rv) g2 = false ->
  triggs_block g1 g2 Rv J = fasttriggs_block g1 Rv J.
Proof.
  intros HM. unfold triggs_block, fasttriggs_block. destruct (ltb g1 zero); auto.
  cbv zeta. rewrite HM. reflexivity.
Qed.

(* the quantities on the mask *)
Definition triggs_beta (g1 g2 x : R) : R := sqrt (1 + 2 * x * g2 / g1).   (* = 1 - alpha *)

Lemma triggs_beta_ge1 g1 g2 x : 0 < g1 -> 0 < g2 -> 0 <= x -> 1 <= triggs_beta g1 g2 x.
Proof.
  intros H1 H2 Hx. unfold triggs_beta. rewrite <- sqrt_1 at 1. apply sqrt_le_1_alt.
  assert (0 <= 2 * x * g2 / g1); [|lra].
  apply Rmult_le_pos; [nra|]. left. now apply Rinv_0_lt_compat.
Qed.
Lemma triggs_beta_sq g1 g2 x : 0 < g1 -> 0 < g2 -> 0 <= x ->
  triggs_beta g1 g2 x * triggs_beta g1 g2 x = 1 + 2 * x * g2 / g1.
Proof.
  intros H1 H2 Hx. unfold triggs_beta. apply sqrt_sqrt.
  assert (0 <= 2 * x * g2 / g1); [|lra].
  apply Rmult_le_pos; [nra|]. left. now apply Rinv_0_lt_compat.
Qed.

(* the value Triggs returns on a masked block *)
Definition triggs_masked_value (g1 g2 : R) (Rv : list R) (J : list (list R)) : blockR :=
  let x := dot Rv Rv in
  let se := sqrt g1 in
  let beta := triggs_beta g1 g2 x in
  let c := (1 - beta) / x in
  (scale_vec (se / beta) Rv,
   map (fun rj : R * list R =>
          mapi_from (fun l s => s - c * (fst rj * dot Rv (col (map (scale_vec se) J) l))) 0 (snd rj))
       (combine Rv (map (scale_vec se) J))).

Lemma triggs_block_on_mask (g1 g2 : R) Rv J : 0 < g1 -> triggs_mask (dot Rv Rv) g2 = true ->
  triggs_block g1 g2 Rv J = Some (triggs_masked_value g1 g2 Rv J).
Proof.
  intros H1 HM. pose proof HM as HM'. apply triggs_mask_true in HM' as [Hx H2].
  pose proof (dot_self_nonneg Rv) as Hx0.
  pose proof (triggs_beta_ge1 g1 g2 (dot Rv Rv) H1 H2 Hx0) as Hb.
  unfold triggs_block. cbv zeta. rewrite HM.
  cbn [ltb eqb NumR zero one tsqrt TransR].
  replace (Rltb g1 0) with false by (symmetry; apply Rltb_false; lra).
  replace (Reqb g1 0) with false by (symmetry; apply Reqb_false; lra).
  rnum.
  assert (Hmax : maxF 0 (1 + 2 * dot Rv Rv * g2 / g1) = 1 + 2 * dot Rv Rv * g2 / g1).
  { unfold maxF. cbn [ltb NumR].
    pose proof (triggs_beta_sq g1 g2 (dot Rv Rv) H1 H2 Hx0) as Hs.
    replace (Rltb 0 (1 + 2 * dot Rv Rv * g2 / g1)) with true; [reflexivity|].
    symmetry. apply Rltb_true. nra. }
  rewrite Hmax. fold (triggs_beta g1 g2 (dot Rv Rv)). set (beta := triggs_beta g1 g2 (dot Rv Rv)) in *.
  replace (1 - (1 - beta)) with beta by ring.
  replace (Reqb beta 0) with false by (symmetry; apply Reqb_false; lra).
  unfold triggs_masked_value. cbv zeta. fold beta. reflexivity.
Qed.

(* columns of the masked value *)
Lemma triggs_masked_col (g1 g2 : R) Rv J p l : (l < p)%nat -> Forall (fun row => length row = p) J ->
  col (snd (triggs_masked_value g1 g2 Rv J)) l
  = corr_col (sqrt g1) ((1 - triggs_beta g1 g2 (dot Rv Rv)) / dot Rv Rv)
             (sqrt g1 * dot Rv (col J l)) Rv (col J l).
Proof.
  intros Hl HJ. unfold triggs_masked_value. cbv zeta. cbn [snd].
  pose proof (col_corrected (sqrt g1) ((1 - triggs_beta g1 g2 (dot Rv Rv)) / dot Rv Rv)
               (fun l => dot Rv (col (map (scale_vec (sqrt g1)) J) l)) p l Hl Rv J HJ) as H.
  cbv beta in H. rewrite col_scale, dot_scale_r in H. exact H.
Qed.

(* Hessian identity on the mask: J'^T J' = rho' J^T J + 2 rho'' (J^T R)(J^T R)^T *)
Lemma triggs_masked_hess (g1 g2 : R) Rv J p l m : 0 < g1 -> 0 < g2 -> dot Rv Rv <> 0 ->
  wf_block p (Rv, J) -> (l < p)%nat -> (m < p)%nat ->
  JtJ (triggs_masked_value g1 g2 Rv J) l m
  = g1 * JtJ (Rv, J) l m + 2 * g2 * (JtR (Rv, J) l * JtR (Rv, J) m).
Proof.
  intros H1 H2 Hx [Hlen HJ] Hl Hm. cbn [fst snd] in *. unfold JtJ, JtR. cbn [fst snd].
  rewrite (triggs_masked_col g1 g2 Rv J p l Hl HJ), (triggs_masked_col g1 g2 Rv J p m Hm HJ).
  rewrite dot_corr_corr by (rewrite col_length; auto).
  pose proof (dot_self_nonneg Rv) as Hx0.
  pose proof (triggs_beta_sq g1 g2 (dot Rv Rv) H1 H2 Hx0) as Hs.
  pose proof (sqrt_sqrt g1 (Rlt_le _ _ H1)) as Hg.
  set (beta := triggs_beta g1 g2 (dot Rv Rv)) in *. set (x := dot Rv Rv) in *.
  set (se := sqrt g1) in *.
  rewrite (dot_comm Rv (col J l)), (dot_comm Rv (col J m)).
  set (A := dot (col J l) Rv). set (B := dot (col J m) Rv). set (AB := dot (col J l) (col J m)).
  clearbody A B AB beta se x.
  assert (Hk : se * se * ((1 - beta) * (1 - beta) - 2 * (1 - beta)) = 2 * x * g2).
  { rewrite Hg. replace ((1 - beta) * (1 - beta) - 2 * (1 - beta)) with (beta * beta - 1) by ring.
    rewrite Hs. field. lra. }
  replace (se * se * AB - se * ((1 - beta) / x) * (se * B) * A - se * ((1 - beta) / x) * (se * A) * B +
           (1 - beta) / x * ((1 - beta) / x) * (se * A) * (se * B) * x)
    with (se * se * AB + (se * se * ((1 - beta) * (1 - beta) - 2 * (1 - beta))) * (A * B) / x)
    by (field; auto).
  rewrite Hk, Hg. field. auto.
Qed.

(* gradient identity on the mask: J'^T R' = rho' J^T R *)
Lemma triggs_masked_grad (g1 g2 : R) Rv J p l : 0 < g1 -> 0 < g2 -> dot Rv Rv <> 0 ->
  wf_block p (Rv, J) -> (l < p)%nat ->
  JtR (triggs_masked_value g1 g2 Rv J) l = g1 * JtR (Rv, J) l.
Proof.
  intros H1 H2 Hx [Hlen HJ] Hl. cbn [fst snd] in *. unfold JtR. cbn [fst snd].
  rewrite (triggs_masked_col g1 g2 Rv J p l Hl HJ).
  unfold triggs_masked_value. cbv zeta. cbn [fst].
  rewrite dot_corr_scaled by (rewrite col_length; auto).
  pose proof (dot_self_nonneg Rv) as Hx0.
  pose proof (triggs_beta_ge1 g1 g2 (dot Rv Rv) H1 H2 Hx0) as Hb.
  pose proof (sqrt_sqrt g1 (Rlt_le _ _ H1)) as Hg.
  set (beta := triggs_beta g1 g2 (dot Rv Rv)) in *. set (x := dot Rv Rv) in *. set (se := sqrt g1) in *.
  rewrite (dot_comm Rv (col J l)). set (A := dot (col J l) Rv). clearbody A beta se x.
  replace (se / beta * (se * A - (1 - beta) / x * (se * A) * x)) with (se * se * A) by (field; lra).
  rewrite Hg. reflexivity.
Qed.

(* ====================================================================== whole residual tensors *)
Definition bsum (f : blockR -> R) (bs : list blockR) : R := fold_right (fun b acc => f b + acc) 0 bs.

Lemma mapM_bsum {A} (f : A -> option blockR) (P : blockR -> R) (Q : A -> R) :
  forall (bs : list A) (bs' : list blockR), mapM f bs = Some bs' ->
  (forall b b', In b bs -> f b = Some b' -> P b' = Q b) ->
  bsum P bs' = fold_right (fun b acc => Q b + acc) 0 bs.
Proof.
  induction bs as [|b bs IH]; intros bs' H HPQ; cbn in H.
  - inversion H; subst. reflexivity.
  - destruct (f b) as [b'|] eqn:Hb; [|discriminate]. destruct (mapM f bs) as [r|] eqn:Hr; [|discriminate].
    inversion H; subst. cbn. rewrite (HPQ b b') by (cbn; auto). f_equal. apply IH; auto.
    intros b0 b0' Hin. apply HPQ. cbn; auto.
Qed.

Lemma mapM_some {A B} (f : A -> option B) :
  forall l : list A, (forall a, In a l -> exists b, f a = Some b) -> exists r, mapM f l = Some r.
Proof.
  induction l as [|a l IH]; intros H; cbn; [eauto|].
  destruct (H a) as [b Hb]; [cbn; auto|]. rewrite Hb.
  destruct IH as [r Hr]; [intros; apply H; cbn; auto|]. rewrite Hr. eauto.
Qed.

Lemma mapM_ext_in {A B} (f g : A -> option B) :
  forall l : list A, (forall a, In a l -> f a = g a) -> mapM f l = mapM g l.
Proof.
  induction l as [|a l IH]; intros H; cbn; auto.
  rewrite (H a) by (cbn; auto). rewrite IH; auto. intros; apply H; cbn; auto.
Qed.

(* the robust gradient and the Triggs Hessian the property names *)
Definition robust_grad (rho1 : R -> R) (bs : list blockR) (l : nat) : R :=
  fold_right (fun b acc => rho1 (sqnorm b) * JtR b l + acc) 0 bs.
Definition gn_hess (rho1 : R -> R) (bs : list blockR) (l m : nat) : R :=
  fold_right (fun b acc => rho1 (sqnorm b) * JtJ b l m + acc) 0 bs.
Definition triggs_hess_rhs (rho1 rho2 : R -> R) (bs : list blockR) (l m : nat) : R :=
  fold_right (fun b acc =>
      rho1 (sqnorm b) * JtJ b l m
      + (if triggs_mask (sqnorm b) (rho2 (sqnorm b)) then 2 * rho2 (sqnorm b) * (JtR b l * JtR b m) else 0)
      + acc) 0 bs.

(* FastTriggs: defined when rho' >= 0; J'^T R' = sum rho' J^T R;  J'^T J' = sum rho' J^T J *)
Lemma fasttriggs_defined (rho1 : R -> R) (bs : list blockR) :
  (forall b, In b bs -> 0 <= rho1 (sqnorm b)) -> exists bs', fasttriggs rho1 bs = Some bs'.
Proof.
  intros H. apply mapM_some. intros b Hb. rewrite fasttriggs_block_some by auto. eauto.
Qed.
Lemma fasttriggs_grad (rho1 : R -> R) (bs bs' : list blockR) : fasttriggs rho1 bs = Some bs' ->
  forall l, bsum (fun b => JtR b l) bs' = robust_grad rho1 bs l.
Proof.
  intros H l. unfold robust_grad.
  apply (mapM_bsum _ (fun b => JtR b l) (fun b => rho1 (sqnorm b) * JtR b l) bs bs' H).
  intros [Rv J] b' _ Hb. cbn [fst snd] in Hb. now apply fasttriggs_block_grad.
Qed.
Lemma fasttriggs_hess (rho1 : R -> R) (bs bs' : list blockR) : fasttriggs rho1 bs = Some bs' ->
  forall l m, bsum (fun b => JtJ b l m) bs' = gn_hess rho1 bs l m.
Proof.
  intros H l m. unfold gn_hess.
  apply (mapM_bsum _ (fun b => JtJ b l m) (fun b => rho1 (sqnorm b) * JtJ b l m) bs bs' H).
  intros [Rv J] b' _ Hb. cbn [fst snd] in Hb. now apply fasttriggs_block_hess.
Qed.

(* Triggs: one block, any case *)
Lemma triggs_block_hess (g1 g2 : R) Rv J b' p l m : triggs_block g1 g2 Rv J = Some b' ->
  wf_block p (Rv, J) -> (l < p)%nat -> (m < p)%nat ->
  JtJ b' l m = g1 * JtJ (Rv, J) l m
               + (if triggs_mask (dot Rv Rv) g2 then 2 * g2 * (JtR (Rv, J) l * JtR (Rv, J) m) else 0).
Proof.
  intros H Hwf Hl Hm. destruct (triggs_mask (dot Rv Rv) g2) eqn:HM.
  - pose proof HM as HM'. apply triggs_mask_true in HM' as [Hx H2].
    destruct (Rlt_dec g1 0) as [Hn|Hn]; [rewrite triggs_block_none in H by auto; discriminate|].
    destruct (Req_EM_T g1 0) as [H0|H0].
    + exfalso. unfold triggs_block in H. cbv zeta in H. rewrite HM in H. subst g1.
      cbn [ltb eqb NumR zero] in H.
      replace (Rltb 0 0) with false in H by (symmetry; apply Rltb_false; lra).
      replace (Reqb 0 0) with true in H by (symmetry; now apply Reqb_true). discriminate.
    + assert (H1 : 0 < g1) by lra. rewrite triggs_block_on_mask in H by auto. inversion H; subst.
      now apply (triggs_masked_hess g1 g2 Rv J p l m).
  - rewrite triggs_block_off_mask in H by auto. rewrite (fasttriggs_block_hess g1 Rv J b' H). ring.
Qed.

Lemma triggs_block_defined (g1 g2 : R) Rv J :
  0 <= g1 -> (triggs_mask (dot Rv Rv) g2 = true -> 0 < g1) -> exists b', triggs_block g1 g2 Rv J = Some b'.
Proof.
  intros H0 H1. destruct (triggs_mask (dot Rv Rv) g2) eqn:HM.
  - rewrite triggs_block_on_mask by auto. eauto.
  - rewrite triggs_block_off_mask, fasttriggs_block_some by auto. eauto.
Qed.

Lemma triggs_defined (rho1 rho2 : R -> R) (bs : list blockR) :
  (forall b, In b bs -> 0 <= rho1 (sqnorm b)) ->
  (forall b, In b bs -> triggs_mask (sqnorm b) (rho2 (sqnorm b)) = true -> 0 < rho1 (sqnorm b)) ->
  exists bs', triggs rho1 rho2 bs = Some bs'.
Proof.
  intros H0 H1. unfold triggs. apply mapM_some. intros b Hb. apply triggs_block_defined; auto.
Qed.

Lemma triggs_hess (rho1 rho2 : R -> R) (p : nat) (bs bs' : list blockR) :
  triggs rho1 rho2 bs = Some bs' -> Forall (wf_block p) bs ->
  forall l m, (l < p)%nat -> (m < p)%nat ->
  bsum (fun b => JtJ b l m) bs' = triggs_hess_rhs rho1 rho2 bs l m.
Proof.
  intros H Hwf l m Hl Hm. unfold triggs in H.
  unfold triggs_hess_rhs.
  apply (mapM_bsum _ (fun b => JtJ b l m)
           (fun b => rho1 (sqnorm b) * JtJ b l m
                     + (if triggs_mask (sqnorm b) (rho2 (sqnorm b))
                        then 2 * rho2 (sqnorm b) * (JtR b l * JtR b m) else 0)) bs bs' H).
  intros [Rv J] b' Hin Hb. cbn [fst snd] in Hb. rewrite Forall_forall in Hwf.
  apply (triggs_block_hess _ _ Rv J b' p l m Hb (Hwf _ Hin) Hl Hm).
Qed.

(* Triggs = FastTriggs when no block is masked (rho'' <= 0 or R_i = 0 everywhere) *)
Lemma triggs_eq_fasttriggs (rho1 rho2 : R -> R) (bs : list blockR) :
  (forall b, In b bs -> triggs_mask (sqnorm b) (rho2 (sqnorm b)) = false) ->
  triggs rho1 rho2 bs = fasttriggs rho1 bs.
Proof.
  intros H. unfold triggs, fasttriggs. apply mapM_ext_in. intros b Hb.
  apply triggs_block_off_mask. apply (H b Hb).
Qed.
Lemma triggs_grad_off_mask (rho1 rho2 : R -> R) (bs bs' : list blockR) :
  (forall b, In b bs -> triggs_mask (sqnorm b) (rho2 (sqnorm b)) = false) ->
  triggs rho1 rho2 bs = Some bs' ->
  forall l, bsum (fun b => JtR b l) bs' = robust_grad rho1 bs l.
Proof. intros HM H. rewrite triggs_eq_fasttriggs in H by auto. now apply fasttriggs_grad. Qed.

(* gradient identity, one block, any case; and for whole tensors, any kernel (positive curvature included) *)
Lemma triggs_block_grad (g1 g2 : R) Rv J b' p l : triggs_block g1 g2 Rv J = Some b' ->
  wf_block p (Rv, J) -> (l < p)%nat -> JtR b' l = g1 * JtR (Rv, J) l.
Proof.
  intros H Hwf Hl. destruct (triggs_mask (dot Rv Rv) g2) eqn:HM.
  - pose proof HM as HM'. apply triggs_mask_true in HM' as [Hx H2].
    destruct (Rlt_dec g1 0) as [Hn|Hn]; [rewrite triggs_block_none in H by auto; discriminate|].
    destruct (Req_EM_T g1 0) as [H0|H0].
    + exfalso. unfold triggs_block in H. cbv zeta in H. rewrite HM in H. subst g1.
      cbn [ltb eqb NumR zero] in H.
      replace (Rltb 0 0) with false in H by (symmetry; apply Rltb_false; lra).
      replace (Reqb 0 0) with true in H by (symmetry; now apply Reqb_true). discriminate.
    + assert (H1 : 0 < g1) by lra. rewrite triggs_block_on_mask in H by auto. inversion H; subst.
      now apply (triggs_masked_grad g1 g2 Rv J p l).
  - rewrite triggs_block_off_mask in H by auto. now apply fasttriggs_block_grad.
Qed.
Lemma triggs_grad (rho1 rho2 : R -> R) (p : nat) (bs bs' : list blockR) :
  triggs rho1 rho2 bs = Some bs' -> Forall (wf_block p) bs ->
  forall l, (l < p)%nat -> bsum (fun b => JtR b l) bs' = robust_grad rho1 bs l.
Proof.
  intros H Hwf l Hl. unfold triggs in H. unfold robust_grad.
  apply (mapM_bsum _ (fun b => JtR b l) (fun b => rho1 (sqnorm b) * JtR b l) bs bs' H).
  intros [Rv J] b' Hin Hb. cbn [fst snd] in Hb. rewrite Forall_forall in Hwf.
  apply (triggs_block_grad _ _ Rv J b' p l Hb (Hwf _ Hin) Hl).
Qed.

(* ---- history: before 298dcfc the gradient identity failed on the mask: rho(x) = x^2, R = [2], J = [[1]].
   Triggs returned R' = [sqrt 8 / sqrt 3], J' = [[sqrt 8 * sqrt 3]]: J'^T R' = 8, robust gradient = 16 *)
Definition sq_rho (x : R) := x * x.
Definition sq_rho1 (x : R) := 2 * x.
Definition sq_rho2 (_ : R) := 2.
Lemma sq_rho_derivs x : is_derive sq_rho x (sq_rho1 x) /\ is_derive sq_rho1 x (sq_rho2 x).
Proof. split; unfold sq_rho, sq_rho1, sq_rho2; auto_derive; try exact I; ring. Qed.

Definition refute_blocks : list blockR := [([2], [[1]])].
Lemma refute_triggs_value :
  triggs_old true sq_rho1 sq_rho2 refute_blocks = Some [([sqrt 8 / sqrt 3], [[sqrt 8 * sqrt 3]])].
Proof.
  unfold triggs_old, refute_blocks. cbn [mapM fst snd]. unfold sqnorm. cbn [fst snd dot]. rnum.
  replace (2 * 2 + 0) with 4 by ring. unfold sq_rho1, sq_rho2. replace (2 * 4) with 8 by ring.
  assert (HM : triggs_mask (dot [2] [2]) 2 = true) by (apply triggs_mask_true; cbn; rnum; lra).
  unfold triggs_block_old. rewrite triggs_block_on_mask by (auto; lra). rewrite HM.
  unfold triggs_masked_value, triggs_beta. cbn [dot map combine mapi_from fst snd col scale_vec nth]. rnum.
  replace (2 * 2 + 0) with 4 by ring. replace (1 + 2 * 4 * 2 / 8) with 3 by field.
  assert (Hmax : maxF 0 3 = 3).
  { unfold maxF. cbn [ltb NumR]. replace (Rltb 0 3) with true; [reflexivity|]. symmetry. apply Rltb_true. lra. }
  rewrite Hmax. assert (H3 : 0 < sqrt 3) by (apply sqrt_lt_R0; lra).
  replace (1 - (1 - sqrt 3)) with (sqrt 3) by ring.
  replace (sqrt 8 * 1 - (1 - sqrt 3) / 4 * (2 * (2 * (sqrt 8 * 1) + 0))) with (sqrt 8 * sqrt 3) by field.
  reflexivity.
Qed.
Lemma triggs_old_grad_refuted :
  exists (rho rho1 rho2 : R -> R) (bs bs' : list blockR) (l : nat),
    (forall x, is_derive rho x (rho1 x) /\ is_derive rho1 x (rho2 x)) /\
    Forall (wf_block 1) bs /\ (l < 1)%nat /\
    (forall b, In b bs -> triggs_mask (sqnorm b) (rho2 (sqnorm b)) = true) /\
    triggs_old true rho1 rho2 bs = Some bs' /\
    bsum (fun b => JtR b l) bs' = 8 /\ robust_grad rho1 bs l = 16.
Proof.
  exists sq_rho, sq_rho1, sq_rho2, refute_blocks, [([sqrt 8 / sqrt 3], [[sqrt 8 * sqrt 3]])], 0%nat.
  split; [exact sq_rho_derivs|]. split.
  { constructor; [|constructor]. split; [reflexivity|]. constructor; [reflexivity|constructor]. }
  split; [lia|]. split.
  { intros b [<-|[]]. apply triggs_mask_true. unfold sqnorm, sq_rho2. cbn. rnum. lra. }
  split; [exact refute_triggs_value|].
  assert (H3 : 0 < sqrt 3) by (apply sqrt_lt_R0; lra).
  assert (H8 : sqrt 8 * sqrt 8 = 8) by (apply sqrt_sqrt; lra).
  split.
  - unfold bsum, JtR. cbn. rnum.
    replace (sqrt 8 * sqrt 3 * (sqrt 8 / sqrt 3) + 0 + 0) with (sqrt 8 * sqrt 8) by (field; lra). exact H8.
  - unfold robust_grad, refute_blocks, JtR, sqnorm, sq_rho1. cbn. rnum. ring.
Qed.
(* the same witness on the repaired code satisfies the identity (regression) *)
Lemma refute_witness_now (bs' : list blockR) : triggs sq_rho1 sq_rho2 refute_blocks = Some bs' ->
  bsum (fun b => JtR b 0%nat) bs' = 16.
Proof.
  intros H. rewrite (triggs_grad sq_rho1 sq_rho2 1 refute_blocks bs' H); [|
    constructor; [|constructor]; split; [reflexivity|]; constructor; [reflexivity|constructor] | lia].
  unfold robust_grad, refute_blocks, JtR, sqnorm, sq_rho1. cbn. rnum. ring.
Qed.

(* ---- history: before af4d69c Triggs could not be used with a kernel whose slope is constant in the graph *)
Lemma triggs_old_scale_raises (bs : list blockR) (d p2 : R) : triggs_kernel_old KScale d p2 bs = None.
Proof. reflexivity. Qed.

(* ====================================================================== kernels *)
(* parameters for which the kernel can be constructed and its closed form is defined
   (Arctan's __init__ asserts nothing, but delta = 0 makes forward divide by zero) *)
Definition kernel_params (k : kname) (p1 p2 : R) : Prop :=
  match k with
  | KHuber | KPseudoHuber | KCauchy | KSoftLOne => 0 < p1
  | KArctan => p1 <> 0
  | KTolerant => 0 < p1 /\ p2 < 0
  | KScale => 0 < p1 <= 1
  end.

Lemma kernel_ok_params k p1 p2 : kernel_params k p1 p2 -> kernel_ok k p1 p2 = true.
Proof.
  destruct k; cbn; intros H; rewrite ?andb_true_iff, ?Rltb_true, ?Rleb_true; auto; tauto.
Qed.
Lemma kernel_ok_false k p1 p2 x : kernel_ok k p1 p2 = false -> kernel k p1 p2 x = None.
Proof. intros H. unfold kernel. rewrite H. reflexivity. Qed.

Lemma sq_pos_of_ne (d : R) : d <> 0 -> 0 < d * d.
Proof. intros H. nra. Qed.

(* defined (finite) on every non-negative input, with the coded closed form *)
Lemma kernel_some k p1 p2 x : kernel_params k p1 p2 -> 0 <= x ->
  kernel k p1 p2 x = Some (kernel_f k p1 p2 x).
Proof.
  intros Hp Hx. unfold kernel. rewrite (kernel_ok_params _ _ _ Hp). cbn [negb].
  destruct k; cbn [leb eqb NumR zero]; try (replace (Rleb 0 x) with true by (symmetry; now apply Rleb_true));
    try reflexivity.
  rnum. cbn in Hp. replace (Reqb (p1 * p1) 0) with false; [reflexivity|].
  symmetry. apply Reqb_false. pose proof (sq_pos_of_ne p1 Hp). lra.
Qed.

(* negative input is rejected by every kernel, for all parameters *)
Lemma kernel_rejects_negative k p1 p2 x : x < 0 -> kernel k p1 p2 x = None.
Proof.
  intros Hx. unfold kernel. destruct (kernel_ok k p1 p2); cbn [negb]; [|reflexivity].
  destruct k; cbn [leb NumR zero];
    replace (Rleb 0 x) with false by (symmetry; now apply Rleb_false); reflexivity.
Qed.
(* history: before e6f8307 Scale accepted it *)
Lemma scale_old_accepts_negative : kernel_params KScale 1 0 /\ kernel_old KScale 1 0 (-1) = Some (-1).
Proof.
  split; [cbn; lra|]. unfold kernel_old. rewrite (kernel_ok_params KScale 1 0) by (cbn; lra).
  cbn [negb]. unfold scale_f. rnum. f_equal. ring.
Qed.

(* no sqrt / log / division leaves its domain once the assertions have passed *)
Definition kernel_side_conditions (k : kname) (p1 p2 x : R) : Prop :=
  match k with
  | KHuber => 0 <= x
  | KPseudoHuber => p1 * p1 <> 0 /\ 0 <= x / (p1 * p1) + 1
  | KCauchy => p1 * p1 <> 0 /\ 0 < x / (p1 * p1) + 1
  | KSoftLOne => p1 * p1 <> 0 /\ 0 <= 1 / (p1 * p1) + x
  | KArctan => p1 * p1 <> 0
  | KTolerant => p2 <> 0 /\ 0 < 1 + exp ((x - p1) / p2) /\ 0 < 1 + exp (- p1 / p2)
  | KScale => True
  end.
Lemma div_sq_nonneg (d x : R) : d <> 0 -> 0 <= x -> 0 <= x / (d * d).
Proof.
  intros Hd Hx. pose proof (sq_pos_of_ne d Hd). apply Rmult_le_pos; auto. left. now apply Rinv_0_lt_compat.
Qed.
Lemma kernel_side_conditions_hold k p1 p2 x : kernel_params k p1 p2 -> 0 <= x ->
  kernel_side_conditions k p1 p2 x.
Proof.
  intros Hp Hx. destruct k; cbn in *.
  - exact Hx.
  - assert (p1 <> 0) by lra. pose proof (sq_pos_of_ne p1 H). pose proof (div_sq_nonneg p1 x H Hx). split; lra.
  - assert (p1 <> 0) by lra. pose proof (sq_pos_of_ne p1 H). pose proof (div_sq_nonneg p1 x H Hx). split; lra.
  - assert (p1 <> 0) by lra. pose proof (sq_pos_of_ne p1 H).
    assert (0 < 1 / (p1 * p1)) by (apply Rdiv_lt_0_compat; lra). split; lra.
  - pose proof (sq_pos_of_ne p1 Hp). lra.
  - pose proof (exp_pos ((x - p1) / p2)). pose proof (exp_pos (- p1 / p2)). repeat split; lra.
  - exact I.
Qed.

(* ---- Huber: which branch *)
Lemma huber_test_lt d x : 0 < d -> x < d * d -> Rltb (sqrt x) d = true.
Proof.
  intros Hd Hx. apply Rltb_true. destruct (Rle_dec x 0) as [H0|H0].
  - rewrite sqrt_neg_0 by auto. lra.
  - rewrite <- (sqrt_square d) by lra. apply sqrt_lt_1_alt. lra.
Qed.
Lemma huber_test_ge d x : 0 < d -> d * d <= x -> Rltb (sqrt x) d = false.
Proof.
  intros Hd Hx. apply Rltb_false. rewrite <- (sqrt_square d) at 1 by lra. apply sqrt_le_1_alt. lra.
Qed.
Lemma huber_f_below d x : 0 < d -> x < d * d -> huber_f d x = x.
Proof. intros Hd Hx. unfold huber_f. cbn [ltb NumR tsqrt TransR]. now rewrite huber_test_lt. Qed.
Lemma huber_f_above d x : 0 < d -> d * d <= x -> huber_f d x = 2 * d * sqrt x - d * d.
Proof. intros Hd Hx. unfold huber_f. cbn [ltb NumR tsqrt TransR]. rewrite huber_test_ge by auto. now rnum. Qed.

(* ---- value at zero *)
Lemma kernel_f_at_0 k p1 p2 : kernel_params k p1 p2 -> kernel_f k p1 p2 0 = 0.
Proof.
  intros Hp. destruct k; cbn in Hp; cbn [kernel_f].
  - rewrite huber_f_below by nra. reflexivity.
  - unfold pseudohuber_f. rnum. replace (0 / (p1 * p1) + 1) with 1 by (field; lra). rewrite sqrt_1. ring.
  - unfold cauchy_f. rnum. replace (0 / (p1 * p1) + 1) with 1 by (field; lra). rewrite ln_1. ring.
  - unfold softlone_f. rnum. replace (1 / (p1 * p1) + 0) with ((/ p1) * (/ p1)) by (field; lra).
    rewrite sqrt_square by (left; apply Rinv_0_lt_compat; lra). field. lra.
  - unfold arctan_f. rnum. replace (0 / (p1 * p1)) with 0 by (field; lra). rewrite atan_0. ring.
  - unfold tolerant_f. rnum. replace ((0 - p1) / p2) with (- p1 / p2) by (field; lra). ring.
  - unfold scale_f. rnum. ring.
Qed.

(* ---- non-decreasing on [0, oo) *)
Lemma exp_le_compat x y : x <= y -> exp x <= exp y.
Proof. intros [H| ->]; [left; now apply exp_increasing|lra]. Qed.
Lemma ln_le_compat x y : 0 < x -> x <= y -> ln x <= ln y.
Proof. intros H0 [H| ->]; [left; now apply ln_increasing|lra]. Qed.
Lemma atan_le_compat x y : x <= y -> atan x <= atan y.
Proof. intros [H| ->]; [left; now apply atan_increasing|lra]. Qed.

Lemma kernel_f_monotone k p1 p2 x y : kernel_params k p1 p2 -> 0 <= x -> x <= y ->
  kernel_f k p1 p2 x <= kernel_f k p1 p2 y.
Proof.
  intros Hp Hx Hxy. destruct k; cbn in Hp; cbn [kernel_f].
  - (* Huber *)
    destruct (Rlt_dec x (p1 * p1)) as [Hbx|Hbx]; destruct (Rlt_dec y (p1 * p1)) as [Hby|Hby].
    + rewrite !huber_f_below by auto. lra.
    + rewrite huber_f_below, huber_f_above by (auto; lra).
      assert (Hs : p1 <= sqrt y). { rewrite <- (sqrt_square p1) at 1 by lra. apply sqrt_le_1_alt. lra. }
      nra.
    + lra.
    + rewrite !huber_f_above by (auto; lra).
      assert (Hs : sqrt x <= sqrt y) by (now apply sqrt_le_1_alt). nra.
  - (* PseudoHuber *)
    unfold pseudohuber_f. rnum. assert (Hd : p1 <> 0) by lra. pose proof (sq_pos_of_ne p1 Hd) as Hd2.
    assert (Hs : sqrt (x / (p1 * p1) + 1) <= sqrt (y / (p1 * p1) + 1)).
    { apply sqrt_le_1_alt. apply Rplus_le_compat_r. apply Rmult_le_compat_r; auto.
      left. now apply Rinv_0_lt_compat. }
    nra.
  - (* Cauchy *)
    unfold cauchy_f. rnum. assert (Hd : p1 <> 0) by lra. pose proof (sq_pos_of_ne p1 Hd) as Hd2.
    pose proof (div_sq_nonneg p1 x Hd Hx) as Hq.
    assert (Hs : ln (x / (p1 * p1) + 1) <= ln (y / (p1 * p1) + 1)).
    { apply ln_le_compat; [lra|]. apply Rplus_le_compat_r. apply Rmult_le_compat_r; auto.
      left. now apply Rinv_0_lt_compat. }
    nra.
  - (* SoftLOne *)
    unfold softlone_f. rnum.
    assert (Hs : sqrt (1 / (p1 * p1) + x) <= sqrt (1 / (p1 * p1) + y)) by (apply sqrt_le_1_alt; lra).
    nra.
  - (* Arctan *)
    unfold arctan_f. rnum. pose proof (sq_pos_of_ne p1 Hp) as Hd2.
    assert (Hs : atan (x / (p1 * p1)) <= atan (y / (p1 * p1))).
    { apply atan_le_compat. apply Rmult_le_compat_r; auto. left. now apply Rinv_0_lt_compat. }
    nra.
  - (* Tolerant: b < 0 *)
    unfold tolerant_f. rnum. destruct Hp as [Ha Hb].
    assert (Hu : (y - p1) / p2 <= (x - p1) / p2).
    { assert (Hi : / p2 < 0) by (now apply Rinv_lt_0_compat). unfold Rdiv. nra. }
    pose proof (exp_pos ((y - p1) / p2)) as He.
    assert (Hs : ln (1 + exp ((y - p1) / p2)) <= ln (1 + exp ((x - p1) / p2))).
    { apply ln_le_compat; [lra|]. apply Rplus_le_compat_l. now apply exp_le_compat. }
    nra.
  - unfold scale_f. rnum. nra.
Qed.

(* ====================================================================== derivatives *)
Ltac kd :=
  cbn [kernel_f kernel_d1 kernel_d2];
  unfold pseudohuber_f, cauchy_f, softlone_f, arctan_f, tolerant_f, scale_f; rnum; cbv zeta.
(* fold w0 (> 0 by lra) and its square root s, keeping s*s = w *)
Ltac with_root w0 :=
  let w := fresh "w" in let s := fresh "s" in let Hw := fresh "Hw" in
  let Hs := fresh "Hs" in let Hss := fresh "Hss" in
  assert (Hw : 0 < w0) by lra;
  pose proof (sqrt_lt_R0 _ Hw) as Hs; pose proof (sqrt_sqrt w0 (Rlt_le _ _ Hw)) as Hss;
  set (w := w0) in *; set (s := sqrt w) in *; clearbody s; clearbody w.

(* derivative of a function glued from two pieces with the same value and slope at the joint *)
Lemma is_derive_glue (f g h : R -> R) (a l : R) :
  (forall t, t < a -> f t = g t) -> (forall t, a <= t -> f t = h t) -> g a = h a ->
  is_derive g a l -> is_derive h a l -> is_derive f a l.
Proof.
  intros Hg Hh Hgh Dg Dh. apply is_derive_Reals. apply is_derive_Reals in Dg. apply is_derive_Reals in Dh.
  intros eps Heps. destruct (Dg eps Heps) as [d1 H1]. destruct (Dh eps Heps) as [d2 H2].
  exists (mkposreal (Rmin d1 d2) (Rmin_pos _ _ (cond_pos d1) (cond_pos d2))).
  intros t Ht0 Ht. cbn in Ht.
  assert (Hfa : f a = h a) by (apply Hh; lra).
  destruct (Rlt_dec t 0) as [Hneg|Hpos].
  - rewrite (Hg (a + t)) by lra. rewrite Hfa, <- Hgh. apply H1; auto.
    eapply Rlt_le_trans; [exact Ht|apply Rmin_l].
  - rewrite (Hh (a + t)) by lra. rewrite Hfa. apply H2; auto.
    eapply Rlt_le_trans; [exact Ht|apply Rmin_r].
Qed.

Lemma huber_d1_below d p2 x : 0 < d -> x < d * d -> kernel_d1 KHuber d p2 x = 1.
Proof. intros Hd Hx. cbn [kernel_d1]. cbn [ltb NumR tsqrt TransR one div]. now rewrite huber_test_lt. Qed.
Lemma huber_d1_above d p2 x : 0 < d -> d * d <= x -> kernel_d1 KHuber d p2 x = d / sqrt x.
Proof. intros Hd Hx. cbn [kernel_d1]. cbn [ltb NumR tsqrt TransR one div]. now rewrite huber_test_ge. Qed.
Lemma huber_d2_below d p2 x : 0 < d -> x < d * d -> kernel_d2 KHuber d p2 x = 0.
Proof. intros Hd Hx. cbn [kernel_d2]. cbn [ltb NumR tsqrt TransR zero]. now rewrite huber_test_lt. Qed.
Lemma huber_d2_above d p2 x : 0 < d -> d * d <= x -> kernel_d2 KHuber d p2 x = - (d / (2 * x * sqrt x)).
Proof. intros Hd Hx. cbn [kernel_d2]. cbn [ltb NumR tsqrt TransR]. rewrite huber_test_ge by auto. now rnum. Qed.

(* Huber is differentiable everywhere, the threshold included, with the modelled slope *)
Lemma huber_d1_correct d p2 x : 0 < d -> is_derive (huber_f d) x (kernel_d1 KHuber d p2 x).
Proof.
  intros Hd. destruct (Rlt_dec x (d * d)) as [Hb|Hb].
  - rewrite huber_d1_below by auto.
    apply (is_derive_ext_loc (fun t => t)).
    + apply (locally_interval _ x m_infty (d * d)); cbn; auto. intros y _ Hy. now rewrite huber_f_below.
    + auto_derive; auto.
  - rewrite huber_d1_above by lra.
    assert (Hx : 0 < x) by nra. assert (Hs : 0 < sqrt x) by (now apply sqrt_lt_R0).
    destruct (Req_dec x (d * d)) as [He|He].
    + apply (is_derive_glue _ (fun t => t) (fun t => 2 * d * sqrt t - d * d) x).
      * intros t Ht. apply huber_f_below; lra.
      * intros t Ht. apply huber_f_above; lra.
      * rewrite He, sqrt_square by lra. ring.
      * replace (d / sqrt x) with 1 by (rewrite He, sqrt_square by lra; field; lra). auto_derive; auto.
      * auto_derive; auto. field. lra.
    + apply (is_derive_ext_loc (fun t => 2 * d * sqrt t - d * d)).
      * apply (locally_interval _ x (d * d) p_infty); cbn; auto; [lra|]. intros y Hy _.
        rewrite huber_f_above; auto; lra.
      * auto_derive; auto. field. lra.
Qed.

(* second derivative away from the threshold (it does not exist at x = delta^2) *)
Lemma huber_d2_correct d p2 x : 0 < d -> x <> d * d ->
  is_derive (kernel_d1 KHuber d p2) x (kernel_d2 KHuber d p2 x).
Proof.
  intros Hd Hne. destruct (Rlt_dec x (d * d)) as [Hb|Hb].
  - rewrite huber_d2_below by auto.
    apply (is_derive_ext_loc (fun _ => 1)).
    + apply (locally_interval _ x m_infty (d * d)); [exact I|exact Hb|]. intros y _ Hy. cbn in Hy.
      now rewrite huber_d1_below.
    + auto_derive; auto.
  - rewrite huber_d2_above by lra.
    assert (Hx : 0 < x) by nra. assert (Hs : 0 < sqrt x) by (now apply sqrt_lt_R0).
    apply (is_derive_ext_loc (fun t => d / sqrt t)).
    + apply (locally_interval _ x (d * d) p_infty); [cbn; lra|exact I|]. intros y Hy _. cbn in Hy.
      rewrite huber_d1_above; auto; lra.
    + auto_derive; [split; [lra|split; [lra|auto]]|].
      pose proof (sqrt_sqrt x (Rlt_le _ _ Hx)) as Hss. set (s := sqrt x) in *. clearbody s.
      rewrite <- Hss. field. lra.
Qed.

(* C^1 at the threshold: the two expressions agree, the slope there is 1 from both sides, and the
   slope function is continuous there *)
Lemma huber_value_continuous d : 0 < d -> 2 * d * sqrt (d * d) - d * d = d * d.
Proof. intros Hd. rewrite sqrt_square by lra. ring. Qed.
Lemma huber_slope_at_threshold d : 0 < d -> is_derive (huber_f d) (d * d) 1.
Proof.
  intros Hd. pose proof (huber_d1_correct d 0 (d * d) Hd) as H.
  rewrite huber_d1_above in H by lra. rewrite sqrt_square in H by lra.
  replace (d / d) with 1 in H by (field; lra). exact H.
Qed.
Lemma huber_d1_continuous d p2 : 0 < d -> continuous (kernel_d1 KHuber d p2) (d * d).
Proof.
  intros Hd. assert (Hdd : 0 < d * d) by nra.
  assert (Hsq : sqrt (d * d) = d) by (apply sqrt_square; lra).
  assert (Hg : continuous (fun t => d / sqrt t) (d * d)).
  { apply (ex_derive_continuous (fun t => d / sqrt t)). auto_derive. rewrite Hsq.
    split; [lra|]. split; [lra|auto]. }
  apply filterlim_locally. intros eps.
  pose proof (proj1 (filterlim_locally _ _) Hg eps) as H.
  assert (Hpos : locally (d * d) (fun t => 0 < t)).
  { apply (locally_interval _ (d * d) 0 p_infty); cbn; auto. }
  generalize (filter_and _ _ H Hpos). apply filter_imp. intros t [Hb Ht].
  rewrite (huber_d1_above d p2 (d * d)) by lra.
  destruct (Rlt_dec t (d * d)) as [Hlt|Hge].
  - rewrite huber_d1_below by auto. rewrite Hsq. replace (d / d) with 1 by (field; lra). apply ball_center.
  - rewrite huber_d1_above by lra. exact Hb.
Qed.

(* the modelled rho' is the derivative of the modelled closed form, every kernel, every x >= 0 *)
Lemma kernel_d1_correct k p1 p2 x : kernel_params k p1 p2 -> 0 <= x ->
  is_derive (fun t => kernel_f k p1 p2 t) x (kernel_d1 k p1 p2 x).
Proof.
  intros Hp Hx. destruct k; cbn in Hp.
  - apply (huber_d1_correct p1 p2 x Hp).
  - kd. assert (H1 : p1 <> 0) by lra. pose proof (sq_pos_of_ne p1 H1). pose proof (div_sq_nonneg p1 x H1 Hx).
    unfold Rdiv in *. auto_derive; [lra|].
    assert (0 < sqrt (x * / (p1 * p1) + 1)) by (apply sqrt_lt_R0; lra). field. lra.
  - kd. assert (H1 : p1 <> 0) by lra. pose proof (sq_pos_of_ne p1 H1). pose proof (div_sq_nonneg p1 x H1 Hx).
    unfold Rdiv in *. auto_derive; [lra|]. field. lra.
  - kd. assert (H1 : p1 <> 0) by lra. pose proof (sq_pos_of_ne p1 H1).
    assert (0 < 1 * / (p1 * p1)) by (rewrite Rmult_1_l; now apply Rinv_0_lt_compat). unfold Rdiv in *.
    auto_derive; [lra|]. with_root (1 * / (p1 * p1) + x). field. lra.
  - kd. pose proof (sq_pos_of_ne p1 Hp). unfold Rdiv in *. auto_derive; [exact I|].
    set (u := x * / (p1 * p1)). assert (Hu : 0 < 1 + u * u) by nra. clearbody u. field. split; lra.
  - kd. destruct Hp as [Ha Hb]. unfold Rdiv in *. auto_derive.
    + pose proof (exp_pos ((x + - p1) * / p2)). lra.
    + replace (x + - p1) with (x - p1) by ring. pose proof (exp_pos ((x - p1) * / p2)) as He.
      set (e := exp ((x - p1) * / p2)) in *. clearbody e. field. split; lra.
  - kd. auto_derive; [exact I|]. ring.
Qed.

(* the modelled rho'' is the derivative of the modelled rho' (Huber: away from the threshold) *)
Lemma kernel_d2_correct k p1 p2 x : kernel_params k p1 p2 -> 0 <= x -> (k = KHuber -> x <> p1 * p1) ->
  is_derive (fun t => kernel_d1 k p1 p2 t) x (kernel_d2 k p1 p2 x).
Proof.
  intros Hp Hx Hh. destruct k; cbn in Hp.
  - apply (huber_d2_correct p1 p2 x Hp). now apply Hh.
  - kd. assert (H1 : p1 <> 0) by lra. pose proof (sq_pos_of_ne p1 H1). pose proof (div_sq_nonneg p1 x H1 Hx).
    unfold Rdiv in *. auto_derive.
    + assert (0 < sqrt (x * / (p1 * p1) + 1)) by (apply sqrt_lt_R0; lra). split; [lra|]. split; [lra|auto].
    + with_root (x * / (p1 * p1) + 1). rewrite <- Hss. field. lra.
  - kd. assert (H1 : p1 <> 0) by lra. pose proof (sq_pos_of_ne p1 H1). pose proof (div_sq_nonneg p1 x H1 Hx).
    unfold Rdiv in *. auto_derive; [lra|]. field. lra.
  - kd. assert (H1 : p1 <> 0) by lra. pose proof (sq_pos_of_ne p1 H1).
    assert (0 < 1 * / (p1 * p1)) by (rewrite Rmult_1_l; now apply Rinv_0_lt_compat). unfold Rdiv in *.
    auto_derive.
    + assert (0 < sqrt (1 * / (p1 * p1) + x)) by (apply sqrt_lt_R0; lra). split; [lra|]. split; [lra|auto].
    + with_root (1 * / (p1 * p1) + x). rewrite <- Hss. field. lra.
  - kd. pose proof (sq_pos_of_ne p1 Hp). unfold Rdiv in *.
    auto_derive; set (u := x * / (p1 * p1)); assert (Hu : 0 < 1 + u * u) by nra; clearbody u; [lra|].
    field. split; lra.
  - kd. destruct Hp as [Ha Hb]. unfold Rdiv in *. auto_derive.
    + pose proof (exp_pos ((x + - p1) * / p2)). lra.
    + replace (x + - p1) with (x - p1) by ring. pose proof (exp_pos ((x - p1) * / p2)) as He.
      set (e := exp ((x - p1) * / p2)) in *. clearbody e. field. split; lra.
  - kd. auto_derive; [exact I|]. ring.
Qed.

(* rho' >= 0 (so sqrt(rho') is defined) and rho'' <= 0 (so Triggs' mask is never set) *)
Lemma kernel_d1_nonneg k p1 p2 x : kernel_params k p1 p2 -> 0 <= x -> 0 <= kernel_d1 k p1 p2 x.
Proof.
  intros Hp Hx. destruct k; cbn in Hp.
  - destruct (Rlt_dec x (p1 * p1)).
    + rewrite huber_d1_below by auto. lra.
    + rewrite huber_d1_above by lra. assert (0 < x) by nra. assert (0 < sqrt x) by (now apply sqrt_lt_R0).
      left. now apply Rdiv_lt_0_compat.
  - kd. assert (H1 : p1 <> 0) by lra. pose proof (div_sq_nonneg p1 x H1 Hx).
    assert (0 < sqrt (x / (p1 * p1) + 1)) by (apply sqrt_lt_R0; lra). left. apply Rdiv_lt_0_compat; lra.
  - kd. assert (H1 : p1 <> 0) by lra. pose proof (div_sq_nonneg p1 x H1 Hx). left. apply Rdiv_lt_0_compat; lra.
  - kd. assert (H1 : p1 <> 0) by lra. pose proof (sq_pos_of_ne p1 H1).
    assert (0 < 1 / (p1 * p1)) by (apply Rdiv_lt_0_compat; lra).
    assert (0 < sqrt (1 / (p1 * p1) + x)) by (apply sqrt_lt_R0; lra). left. apply Rdiv_lt_0_compat; lra.
  - kd. set (u := x / (p1 * p1)). assert (0 < 1 + u * u) by nra. left. apply Rdiv_lt_0_compat; lra.
  - kd. pose proof (exp_pos ((x - p1) / p2)). left. apply Rdiv_lt_0_compat; lra.
  - kd. lra.
Qed.
Lemma kernel_d2_nonpos k p1 p2 x : kernel_params k p1 p2 -> 0 <= x -> kernel_d2 k p1 p2 x <= 0.
Proof.
  intros Hp Hx. destruct k; cbn in Hp.
  - destruct (Rlt_dec x (p1 * p1)).
    + rewrite huber_d2_below by auto. lra.
    + rewrite huber_d2_above by lra. assert (0 < x) by nra. assert (0 < sqrt x) by (now apply sqrt_lt_R0).
      assert (0 < p1 / (2 * x * sqrt x)); [|lra]. apply Rdiv_lt_0_compat; [lra|].
      apply Rmult_lt_0_compat; lra.
  - kd. assert (H1 : p1 <> 0) by lra. pose proof (sq_pos_of_ne p1 H1). pose proof (div_sq_nonneg p1 x H1 Hx).
    assert (0 < sqrt (x / (p1 * p1) + 1)) by (apply sqrt_lt_R0; lra).
    assert (0 < 1 / (2 * (p1 * p1) * (x / (p1 * p1) + 1) * sqrt (x / (p1 * p1) + 1))); [|lra].
    apply Rdiv_lt_0_compat; [lra|]. repeat apply Rmult_lt_0_compat; lra.
  - kd. assert (H1 : p1 <> 0) by lra. pose proof (sq_pos_of_ne p1 H1). pose proof (div_sq_nonneg p1 x H1 Hx).
    assert (0 < 1 / (p1 * p1 * ((x / (p1 * p1) + 1) * (x / (p1 * p1) + 1)))); [|lra].
    apply Rdiv_lt_0_compat; [lra|]. repeat apply Rmult_lt_0_compat; lra.
  - kd. assert (H1 : p1 <> 0) by lra. pose proof (sq_pos_of_ne p1 H1).
    assert (0 < 1 / (p1 * p1)) by (apply Rdiv_lt_0_compat; lra).
    assert (0 < sqrt (1 / (p1 * p1) + x)) by (apply sqrt_lt_R0; lra).
    assert (0 < p1 / (2 * (1 / (p1 * p1) + x) * sqrt (1 / (p1 * p1) + x))); [|lra].
    apply Rdiv_lt_0_compat; [lra|]. repeat apply Rmult_lt_0_compat; lra.
  - kd. pose proof (sq_pos_of_ne p1 Hp). pose proof (div_sq_nonneg p1 x Hp Hx).
    set (u := x / (p1 * p1)) in *. assert (0 < 1 + u * u) by nra.
    assert (0 <= 2 * u / (p1 * p1 * ((1 + u * u) * (1 + u * u)))); [|lra].
    apply Rmult_le_pos; [lra|]. left. apply Rinv_0_lt_compat.
    apply Rmult_lt_0_compat; [lra|apply Rmult_lt_0_compat; lra].
  - kd. destruct Hp as [Ha Hb]. pose proof (exp_pos ((x - p1) / p2)) as He.
    set (e := exp ((x - p1) / p2)) in *.
    assert (0 < e / (- p2 * ((1 + e) * (1 + e)))).
    { apply Rdiv_lt_0_compat; [lra|]. repeat apply Rmult_lt_0_compat; lra. }
    replace (e / (p2 * ((1 + e) * (1 + e)))) with (- (e / (- p2 * ((1 + e) * (1 + e))))) by (field; lra).
    lra.
  - kd. lra.
Qed.

(* consequences for the correctors used with a built-in kernel *)
Lemma fasttriggs_kernel_defined k p1 p2 (bs : list blockR) : kernel_params k p1 p2 ->
  exists bs', fasttriggs_kernel k p1 p2 bs = Some bs'.
Proof.
  intros Hp. apply fasttriggs_defined. intros b _. apply kernel_d1_nonneg; auto.
  unfold sqnorm. apply dot_self_nonneg.
Qed.
Lemma triggs_kernel_eq_fasttriggs k p1 p2 (bs : list blockR) : kernel_params k p1 p2 ->
  triggs_kernel k p1 p2 bs = fasttriggs_kernel k p1 p2 bs.
Proof.
  intros Hp. unfold triggs_kernel, fasttriggs_kernel.
  apply triggs_eq_fasttriggs. intros b _. apply triggs_mask_false. right.
  apply kernel_d2_nonpos; auto. unfold sqnorm. apply dot_self_nonneg.
Qed.

(* ====================================================================== statements for Props/C09.v *)
(* the closed forms as the docstrings print them *)
Definition documented_form (k : kname) (p1 p2 x : R) : R :=
  match k with
  | KHuber => if Rlt_dec (sqrt x) p1 then x else 2 * p1 * sqrt x - p1 * p1
  | KPseudoHuber => 2 * (p1 * p1) * (sqrt (x / (p1 * p1) + 1) - 1)
  | KCauchy => (p1 * p1) * ln (x / (p1 * p1) + 1)
  | KSoftLOne => 2 * (p1 * sqrt (1 / (p1 * p1) + x) - 1)
  | KArctan => (p1 * p1) * atan (x / (p1 * p1))
  | KTolerant => p2 * ln (1 + exp ((x - p1) / p2)) - p2 * ln (1 + exp (- p1 / p2))
  | KScale => p1 * x
  end.
Lemma kernel_f_documented k p1 p2 x : kernel_f k p1 p2 x = documented_form k p1 p2 x.
Proof.
  destruct k; cbn [kernel_f documented_form];
    unfold huber_f, pseudohuber_f, cauchy_f, softlone_f, arctan_f, tolerant_f, scale_f; rnum; try reflexivity.
  unfold Rltb. destruct (Rlt_dec (sqrt x) p1); reflexivity.
Qed.

Lemma kernel_closed_form k p1 p2 x : kernel_params k p1 p2 -> 0 <= x ->
  kernel k p1 p2 x = Some (documented_form k p1 p2 x) /\ kernel_side_conditions k p1 p2 x.
Proof.
  intros Hp Hx. split; [|now apply kernel_side_conditions_hold].
  rewrite kernel_some by auto. now rewrite kernel_f_documented.
Qed.

Lemma kernel_value_at_0 k p1 p2 : kernel_params k p1 p2 -> kernel k p1 p2 0 = Some 0.
Proof. intros Hp. rewrite kernel_some by (auto; lra). now rewrite kernel_f_at_0. Qed.

Lemma kernel_nondecreasing k p1 p2 x y a b : kernel_params k p1 p2 -> 0 <= x -> x <= y ->
  kernel k p1 p2 x = Some a -> kernel k p1 p2 y = Some b -> a <= b.
Proof.
  intros Hp Hx Hxy Ha Hb. rewrite kernel_some in Ha, Hb by (auto; lra).
  inversion Ha; inversion Hb; subst. now apply kernel_f_monotone.
Qed.

Lemma huber_C1 d p2 : 0 < d ->
  2 * d * sqrt (d * d) - d * d = d * d /\                         (* value: both expressions agree *)
  (forall x, is_derive (fun t => kernel_f KHuber d p2 t) x (kernel_d1 KHuber d p2 x)) /\
  kernel_d1 KHuber d p2 (d * d) = 1 /\ d / sqrt (d * d) = 1 /\     (* slope 1 from both sides *)
  continuous (kernel_d1 KHuber d p2) (d * d).
Proof.
  intros Hd. split; [now apply huber_value_continuous|]. split; [intros x; now apply huber_d1_correct|].
  assert (Hq : d / sqrt (d * d) = 1) by (rewrite sqrt_square by lra; field; lra).
  split; [rewrite huber_d1_above by lra; exact Hq|]. split; [exact Hq|now apply huber_d1_continuous].
Qed.

Lemma kernel_derivatives k p1 p2 x : kernel_params k p1 p2 -> 0 <= x ->
  is_derive (fun t => kernel_f k p1 p2 t) x (kernel_d1 k p1 p2 x) /\
  ((k = KHuber -> x <> p1 * p1) -> is_derive (fun t => kernel_d1 k p1 p2 t) x (kernel_d2 k p1 p2 x)) /\
  0 <= kernel_d1 k p1 p2 x /\ kernel_d2 k p1 p2 x <= 0.
Proof.
  intros Hp Hx. split; [now apply kernel_d1_correct|]. split; [now apply kernel_d2_correct|].
  split; [now apply kernel_d1_nonneg|now apply kernel_d2_nonpos].
Qed.

Lemma robust_grad_ext (f g : R -> R) (bs : list blockR) (l : nat) :
  (forall x, 0 <= x -> f x = g x) -> robust_grad f bs l = robust_grad g bs l.
Proof.
  intros H. unfold robust_grad. induction bs as [|b bs IH]; cbn; auto.
  rewrite IH, (H (sqnorm b)) by (unfold sqnorm; apply dot_self_nonneg). reflexivity.
Qed.

(* FastTriggs with the autograd contract spelled out: rho1 is the derivative of rho *)
Lemma fasttriggs_grad_derive (rho rho1 : R -> R) (bs bs' : list blockR) :
  (forall x, 0 <= x -> is_derive rho x (rho1 x)) -> fasttriggs rho1 bs = Some bs' ->
  forall l, bsum (fun b => JtR b l) bs' = robust_grad (Derive rho) bs l.
Proof.
  intros Hc H l. rewrite (fasttriggs_grad rho1 bs bs' H). apply robust_grad_ext.
  intros x Hx. symmetry. apply is_derive_unique. now apply Hc.
Qed.

Lemma fasttriggs_kernel_grad k p1 p2 (bs : list blockR) : kernel_params k p1 p2 ->
  exists bs', fasttriggs_kernel k p1 p2 bs = Some bs' /\
    forall l, bsum (fun b => JtR b l) bs' = robust_grad (Derive (fun t => kernel_f k p1 p2 t)) bs l.
Proof.
  intros Hp. destruct (fasttriggs_kernel_defined k p1 p2 bs Hp) as [bs' H]. exists bs'. split; auto.
  apply (fasttriggs_grad_derive (fun t => kernel_f k p1 p2 t) (kernel_d1 k p1 p2) bs bs'); auto.
  intros x Hx. now apply kernel_d1_correct.
Qed.

(* Triggs with the autograd contract spelled out; and with the built-in kernels *)
Lemma triggs_grad_derive (rho rho1 rho2 : R -> R) (p : nat) (bs bs' : list blockR) :
  (forall x, 0 <= x -> is_derive rho x (rho1 x)) -> triggs rho1 rho2 bs = Some bs' ->
  Forall (wf_block p) bs -> forall l, (l < p)%nat ->
  bsum (fun b => JtR b l) bs' = robust_grad (Derive rho) bs l.
Proof.
  intros Hc H Hwf l Hl. rewrite (triggs_grad rho1 rho2 p bs bs' H Hwf l Hl). apply robust_grad_ext.
  intros x Hx. symmetry. apply is_derive_unique. now apply Hc.
Qed.
Lemma triggs_kernel_grad k p1 p2 (bs : list blockR) : kernel_params k p1 p2 ->
  exists bs', triggs_kernel k p1 p2 bs = Some bs' /\ fasttriggs_kernel k p1 p2 bs = Some bs' /\
    forall l, bsum (fun b => JtR b l) bs' = robust_grad (Derive (fun t => kernel_f k p1 p2 t)) bs l.
Proof.
  intros Hp. destruct (fasttriggs_kernel_grad k p1 p2 bs Hp) as [bs' [H1 H2]]. exists bs'.
  rewrite triggs_kernel_eq_fasttriggs by auto. auto.
Qed.

Lemma triggs_old_scale_refuted :
  exists (d : R) (bs : list blockR), kernel_params KScale d 0 /\ Forall (wf_block 1) bs /\
    (exists bs', fasttriggs_kernel KScale d 0 bs = Some bs') /\ triggs_kernel_old KScale d 0 bs = None.
Proof.
  exists 1, [([1], [[1]])]. split; [cbn; lra|]. split.
  { constructor; [|constructor]. split; [reflexivity|]. constructor; [reflexivity|constructor]. }
  split; [apply fasttriggs_kernel_defined; cbn; lra|reflexivity].
Qed.

Lemma scale_old_rejects_negative_refuted :
  exists d x y, kernel_params KScale d 0 /\ x < 0 /\ kernel_old KScale d 0 x = Some y.
Proof.
  exists 1, (-1), (-1). destruct scale_old_accepts_negative as [H1 H2].
  split; [exact H1|]. split; [lra|exact H2].
Qed.

Lemma params_satisfiable :
  kernel_params KHuber 1 0 /\ kernel_params KPseudoHuber 2 0 /\ kernel_params KCauchy (1/2) 0 /\
  kernel_params KSoftLOne 1 0 /\ kernel_params KArctan 1 0 /\ kernel_params KTolerant 1 (-1) /\
  kernel_params KScale (1/2) 0 /\ wf_block 2 ([1; 0; 2], [[1; 2]; [3; 4]; [5; 6]]).
Proof.
  cbn. repeat split; try lra. repeat constructor.
Qed.
