(* C14, second layer of proofs about Model/LQR.v (state and input dimension 1, any horizon):
   - the solve RETURNS for every positive-definite cost (no Cholesky raise), any system, any dt;
   - optimality for every dt on constant-coefficient systems (and dt = 1 on LTV objects), with
     UNIQUENESS of the minimiser; hence the whole result (states, inputs, cost, time) is independent
     of the nominal trajectory;
   - MPC: returns, ends because the stepper stops (the fuel of the model loop is never exhausted),
     iteration count bounded, result identical to the LQR result;
   - dt <> 1 on an LTV object: the returned inputs are NOT optimal (refutation over Q). *)
From Coq Require Import ZArith QArith List Bool Arith Lia Reals Lra Psatz.
Import ListNotations.
From PV Require Import Base.Num Model.Dynamics Model.Controller Model.LQR Proofs.LQR.
Close Scope Q_scope.
#[local] Remove Hints NumQ NumZ : typeclass_instances.

(* ====================================================================== structure (any F) *)
Section Gen2.
Context {F : Type} {NF : Num F}.
Implicit Types s : ssys (F:=F).
Local Open Scope num_scope.

(* the nominal roll-out as a list of items (any F) *)
Fixpoint nomF s (t : Z) (x : F) (prob : list (stage (F:=F))) (ub : list F) : list (stage (F:=F) * F * F) :=
  match prob, ub with
  | st :: pr, u :: ur => (st, x, u) :: nomF s (t + 1)%Z (s_next s t x u) pr ur
  | _, _ => []
  end.
Lemma nomF_eq s prob : forall t x ub, length ub = length prob ->
  combine (combine prob (x :: traj s t x (firstn (length prob - 1) ub))) ub = nomF s t x prob ub.
Proof.
  induction prob as [|st pr IH]; intros t x ub Hl; [reflexivity|].
  destruct ub as [|u ur]; [discriminate|]. cbn [length] in Hl. injection Hl as Hl.
  destruct pr as [|st2 pr2].
  - destruct ur; [|discriminate]. reflexivity.
  - cbn [length Nat.sub]. rewrite ?Nat.sub_0_r. cbn [firstn traj combine nomF]. f_equal.
    specialize (IH (t + 1)%Z (s_next s t x u) ur Hl). cbn [length Nat.sub] in IH. rewrite ?Nat.sub_0_r in IH.
    exact IH.
Qed.
Lemma nomF_len s prob : forall t x ub, length ub = length prob -> length (nomF s t x prob ub) = length prob.
Proof.
  induction prob as [|st pr IH]; intros t x ub Hl; [reflexivity|]. destruct ub as [|u ur]; [discriminate|].
  cbn [nomF length]. f_equal. apply IH. now injection Hl.
Qed.

Definition nominal (prob : list (stage (F:=F))) (un : option (list F)) : list F :=
  match un with None => repeat zero (length prob) | Some u => u end.

(* one solve, unfolded: nominal items, backward pass, forward pass from time 0 *)
Lemma lqr_solve_eq s dt prob x0 un tm :
  prob <> [] -> length (nominal prob un) = length prob ->
  lqr_solve s dt prob x0 un tm =
  match bwd s dt 0%Z (Z.of_nat (length prob - 1)) (nomF s 0%Z x0 prob (nominal prob un)) with
  | None => None
  | Some (Ks, _, _, _) =>
      let r := fwd s 0%Z x0 (combine (nomF s 0%Z x0 prob (nominal prob un)) Ks) zero in
      Some (x0 :: fst (fst (fst r)), snd (fst (fst r)), snd (fst r), snd r)
  end.
Proof.
  intros Hne El. unfold lqr_solve. fold (nominal prob un). rewrite El, Nat.eqb_refl. cbn [negb].
  rewrite !treset_eq. destruct prob as [|st0 pr]; [congruence|]. set (prob := st0 :: pr) in *.
  assert (H1 : (1 <= length prob)%nat) by (subst prob; cbn [length]; lia). clearbody prob.
  lazy beta iota. unfold runsys.
  destruct (rollout s 0%Z x0 (firstn (length prob - 1) (nominal prob un))) as [xr tm1] eqn:Er.
  pose proof (rollout_traj s (firstn (length prob - 1) (nominal prob un)) 0%Z x0) as Ht.
  pose proof (rollout_time s (firstn (length prob - 1) (nominal prob un)) 0%Z x0) as Hm.
  rewrite Er in Ht, Hm. cbn [fst snd] in Ht, Hm. subst xr.
  rewrite firstn_length_le in Hm by lia. rewrite Z.add_0_l in Hm. subst tm1.
  rewrite (nomF_eq s prob 0%Z x0 _ El).
  destruct (bwd s dt 0%Z _ _) as [[[[Ks V] v] tm2]|]; [|reflexivity].
  rewrite treset_eq. cbv zeta.
  destruct (fwd s 0%Z x0 _ zero) as [[[xs us] c] tm3]. reflexivity.
Qed.
Lemma lqr_solve_len s dt prob x0 un tm :
  length (nominal prob un) <> length prob -> lqr_solve s dt prob x0 un tm = None.
Proof.
  intros H. unfold lqr_solve. fold (nominal prob un).
  apply Nat.eqb_neq in H. rewrite H. reflexivity.
Qed.
Lemma lqr_solve_nil s dt x0 un tm :
  length (nominal [] un) = 0%nat -> lqr_solve s dt [] x0 un tm = Some ([x0], [], zero, 0%Z).
Proof.
  intros H. unfold lqr_solve. fold (nominal [] un). cbn [length]. rewrite H. reflexivity.
Qed.

(* ---------------- the MPC loop: ends because the stepper stops, never by fuel *)
Lemma rtb_step_steps (cfg : rtb_cfg (F:=F)) st l : rtb_steps (rtb_step cfg st l) = (rtb_steps st + 1)%Z.
Proof. reflexivity. Qed.
Lemma rtb_step_cont_max (cfg : rtb_cfg (F:=F)) st l :
  rtb_cont (rtb_step cfg st l) = true -> (rtb_steps st + 1 < rtb_max cfg)%Z.
Proof.
  unfold rtb_step. cbn [rtb_cont]. intros H. apply andb_true_iff in H as [_ H].
  apply negb_true_iff in H. apply orb_false_iff in H as [H _]. apply orb_false_iff in H as [_ H].
  apply Z.leb_gt in H. exact H.
Qed.

Lemma mpc_loop_ends (solve : solver (F:=F)) s dt prob x0 cfg : forall fuel st u best tm st' best' tm' n,
  (Z.max 1 (rtb_max cfg - rtb_steps st) < Z.of_nat fuel)%Z \/ rtb_cont st = false ->
  mpc_loop_gen solve fuel s dt prob x0 cfg st u best tm = Some (st', best', tm', n) ->
  rtb_cont st' = false /\ (Z.of_nat n <= Z.max 1 (rtb_max cfg - rtb_steps st))%Z /\
  (rtb_cont st = true -> (1 <= n)%nat /\ best' <> None) /\
  (best <> None -> best' <> None).
Proof.
  induction fuel as [|f IH]; intros st u best tm st' best' tm' n Hf H.
  - cbn [mpc_loop_gen] in H. inversion H; subst. destruct Hf as [Hf|Hf]; [cbn in Hf; lia|].
    split; [exact Hf|]. split; [cbn; lia|]. split; [rewrite Hf; discriminate|auto].
  - cbn [mpc_loop_gen] in H. destruct (rtb_cont st) eqn:Hc.
    + destruct (solve s dt prob x0 u tm) as [[[[xs us] c] tm1]|]; [|discriminate].
      destruct (mpc_loop_gen solve f s dt prob x0 cfg (rtb_step cfg st [c]) (Some us)
                  (if better c best then Some (xs, us, c) else best) tm1)
        as [[[[a b0] t0] n0]|] eqn:E; [|discriminate].
      inversion H; subst.
      assert (Hb : (if better c best then Some (xs, us, c) else best) <> None).
      { destruct best as [b1|]; [destruct (better c (Some b1)); discriminate|]. cbn. discriminate. }
      assert (Hf' : (Z.max 1 (rtb_max cfg - rtb_steps (rtb_step cfg st [c])) < Z.of_nat f)%Z \/
                    rtb_cont (rtb_step cfg st [c]) = false).
      { destruct Hf as [Hf|Hf]; [|congruence].
        destruct (rtb_cont (rtb_step cfg st [c])) eqn:Hc2; [|now right].
        left. apply rtb_step_cont_max in Hc2. rewrite rtb_step_steps. lia. }
      destruct (IH _ _ _ _ _ _ _ _ Hf' E) as (I1 & I2 & I3 & I4).
      split; [exact I1|]. split.
      * rewrite rtb_step_steps in I2.
        destruct (rtb_cont (rtb_step cfg st [c])) eqn:Hc2.
        -- apply rtb_step_cont_max in Hc2. lia.
        -- destruct f as [|f']; cbn [mpc_loop_gen] in E; [inversion E; lia|].
           rewrite Hc2 in E. inversion E; subst. lia.
      * split; [intros _; split; [lia|exact (I4 Hb)]|intros _; exact (I4 Hb)].
    + inversion H; subst. split; [exact Hc|]. split; [cbn; lia|]. split; [discriminate|auto].
Qed.

(* MPC.forward: the loop makes between 1 and max(1, max_steps) iterations and ends with the stepper
   stopped; the last solve starts from the inputs of a solve made inside the loop *)
Theorem mpc_forward_ends s dt prob x0 cfg st u0 tm xs us c tm' st' n :
  mpc_forward s dt prob x0 cfg st u0 tm = Some (xs, us, c, tm', st', n) ->
  rtb_cont st' = false /\ (1 <= n)%nat /\ (Z.of_nat n <= Z.max 1 (rtb_max cfg))%Z.
Proof.
  unfold mpc_forward, mpc_forward_gen. intros H.
  destruct (mpc_loop_gen _ _ _ _ _ _ _ _ _ _ _) as [[[[st1 best] tm1] n1]|] eqn:E; [|discriminate].
  destruct (lqr_solve s dt prob x0 _ tm1) as [[[[xs1 us1] c1] tm2]|]; [|discriminate].
  inversion H; subst.
  assert (Hfu : (Z.max 1 (rtb_max cfg - rtb_steps (rtb_reset st)) < Z.of_nat (mpc_fuel cfg))%Z \/
                rtb_cont (rtb_reset st) = false).
  { left. unfold mpc_fuel. cbn [rtb_steps rtb_reset rtb_init]. lia. }
  destruct (mpc_loop_ends _ _ _ _ _ _ _ _ _ _ _ _ _ _ _ Hfu E) as (I1 & I2 & I3 & _).
  cbn [rtb_steps rtb_reset rtb_init] in I2. destruct (I3 eq_refl) as [I5 _].
  split; [exact I1|]. split; [exact I5|lia].
Qed.

(* if every solve whose nominal trajectory has the right length returns inputs of the right length
   and never raises, the loop never raises *)
Lemma mpc_loop_returns (solve : solver (F:=F)) s dt prob x0 cfg
  (Hs : forall un tm, length (nominal prob un) = length prob ->
        exists xs us c tm', solve s dt prob x0 un tm = Some (xs, us, c, tm') /\ length us = length prob) :
  forall fuel st u best tm,
  length (nominal prob u) = length prob ->
  (match best with Some (_, ub, _) => length ub = length prob | None => True end) ->
  exists st' best' tm' n, mpc_loop_gen solve fuel s dt prob x0 cfg st u best tm = Some (st', best', tm', n) /\
    (match best' with Some (_, ub, _) => length ub = length prob | None => best = None end).
Proof.
  induction fuel as [|f IH]; intros st u best tm Hu Hb.
  - exists st, best, tm, 0%nat. split; [reflexivity|]. destruct best as [[[? ?] ?]|]; auto.
  - cbn [mpc_loop_gen]. destruct (rtb_cont st).
    + destruct (Hs u tm Hu) as (xs & us & c & tm1 & E & L). rewrite E.
      destruct (IH (rtb_step cfg st [c]) (Some us) (if better c best then Some (xs, us, c) else best) tm1)
        as (st' & best' & tm' & n & E2 & L2).
      * exact L.
      * destruct (better c best); [exact L|exact Hb].
      * rewrite E2. exists st', best', tm', (S n). split; [reflexivity|].
        destruct best' as [[[? ?] ?]|]; [exact L2|]. destruct (better c best); [discriminate|exact L2].
    + exists st, best, tm, 0%nat. split; [reflexivity|]. destruct best as [[[? ?] ?]|]; auto.
Qed.
End Gen2.

(* ====================================================================== over R *)
Section Real2.
Open Scope R_scope.
Notation sysR := (ssys (F:=R)).
Notation stageR := (stage (F:=R)).
Ltac nu := cbn [add sub mul div opp zero one ofZ half ltb NumR] in *.

Lemma nomF_nom (s : sysR) prob : forall t x ub, nomF s t x prob ub = nom_items s t x prob ub.
Proof. induction prob as [|st pr IH]; intros t x ub; [reflexivity|]. destruct ub; [reflexivity|]. cbn. now rewrite IH. Qed.

Lemma gains_some (Qxx Qxu Qux Quu qx qu : R) : 0 < Quu ->
  exists K k V v, gains Qxx Qxu Qux Quu qx qu = Some (K, k, V, v).
Proof. intros H. unfold gains. nu. rewrite (proj2 (Rltb_true 0 Quu) H). do 4 eexists. reflexivity. Qed.

(* ---- the backward pass never raises on positive-definite costs: ANY system, any dt, any counter *)
Lemma bwd_returns (s : sysR) dt : forall l t tm, l <> [] -> Forall pd (stages l) ->
  exists Ks V v tm2, bwd s dt t tm l = Some (Ks, V, v, tm2) /\ 0 <= V.
Proof.
  induction l as [|[[st xb] ub] rest IH]; intros t tm Hne Hpd; [congruence|].
  cbn [stages map fst] in Hpd. inversion Hpd as [|? ? [Hxx [Huu [Hsym Hdet]]] Hpd']; subst.
  destruct rest as [|it2 r2].
  - rewrite bwd_one. unfold tgain.
    destruct (gains_some (qxx st) (qxu st) (qux st) (quu st) (fst (pbar st xb ub)) (snd (pbar st xb ub)) Huu)
      as (K & k & V & v & Eg). rewrite Eg. exists [(K, k)], V, v, tm. split; [reflexivity|].
    apply gains_spec in Eg. destruct Eg as (Hq & EK & _ & EV & _). rewrite Hsym in *.
    assert (HV : V = (qxx st * quu st - qxu st * qxu st) / quu st) by (subst V K; field; lra).
    rewrite HV. apply Rmult_le_pos; [lra|left; now apply Rinv_0_lt_compat].
  - rewrite bwd_cons2.
    destruct (IH (t + 1)%Z tm ltac:(discriminate) Hpd') as (Ks' & V' & v' & tm1 & E & HV'). rewrite E. cbv zeta.
    set (a := fst (fst (scoef s (setref s tm1 (t * dt))))). set (b := snd (fst (scoef s (setref s tm1 (t * dt))))).
    destruct (schur_nonneg (qxx st) (qxu st) (quu st) a b V' Hxx Huu Hdet HV') as [Hq Hs].
    unfold bgain.
    assert (Hq' : 0 < quu st + b * V' * b) by exact Hq.
    destruct (gains_some (qxx st + a * V' * a) (qxu st + a * V' * b) (qux st + b * V' * a) (quu st + b * V' * b)
                (fst (pbar st xb ub) + a * v') (snd (pbar st xb ub) + b * v') Hq') as (K & k & V & v & Eg).
    nu. rewrite Eg. exists ((K, k) :: Ks'), V, v, (setref s tm1 (t * dt)). split; [reflexivity|].
    apply gains_spec in Eg. destruct Eg as (_ & EK & _ & EV & _). rewrite Hsym in *.
    assert (HV : V = ((qxx st * quu st - qxu st * qxu st)
                      + V' * (qxx st * b * b - 2 * qxu st * a * b + quu st * a * a)) / (quu st + b * V' * b)).
    { subst V K. field. lra. }
    rewrite HV. exact Hs.
Qed.

Definition nominal_ok (prob : list stageR) (un : option (list R)) : Prop :=
  match un with None => True | Some u => length u = length prob end.
Lemma nominal_len prob un : nominal_ok prob un -> length (nominal prob un) = length prob.
Proof. destruct un as [u|]; cbn; [auto|]. intros _. apply repeat_length. Qed.

(* LQR.forward returns (the Cholesky factorisation never fails) for EVERY system object - LTI, LTV,
   even an ill-formed one -, every dt, every counter, every nominal trajectory of the right length *)
Theorem lqr_solve_returns (s : sysR) dt prob x0 un tm :
  Forall pd prob -> nominal_ok prob un ->
  exists xs us c tm', lqr_solve s dt prob x0 un tm = Some (xs, us, c, tm').
Proof.
  intros Hpd Hn. pose proof (nominal_len _ _ Hn) as El.
  destruct prob as [|st0 pr].
  - rewrite lqr_solve_nil by exact El. do 4 eexists. reflexivity.
  - rewrite lqr_solve_eq by (congruence || exact El).
    set (items := nomF s 0 x0 (st0 :: pr) (nominal (st0 :: pr) un)).
    assert (Hst : stages items = st0 :: pr).
    { unfold items. rewrite nomF_nom. apply nom_stages. exact El. }
    assert (Hi : items <> []).
    { intros E. rewrite E in Hst. discriminate. }
    destruct (bwd_returns s dt items 0%Z (Z.of_nat (length (st0 :: pr) - 1)) Hi ltac:(rewrite Hst; exact Hpd))
      as (Ks & V & v & tm2 & E & _).
    rewrite E. do 4 eexists. reflexivity.
Qed.
(* ... and raises when the nominal trajectory has another length *)
Theorem lqr_solve_raises_iff (s : sysR) dt prob x0 un tm : Forall pd prob ->
  (lqr_solve s dt prob x0 un tm = None <-> ~ nominal_ok prob un).
Proof.
  intros Hpd. split.
  - intros H Hn. destruct (lqr_solve_returns s dt prob x0 un tm Hpd Hn) as (? & ? & ? & ? & E). congruence.
  - intros H. apply lqr_solve_len. destruct un as [u|]; [exact H|]. exfalso. apply H. exact I.
Qed.

(* ---- coherence of dt with the system: the coefficients the backward pass reads at step t (after
   set_refpoint(t*dt)) are those the system uses at its t-th call *)
Definition coherent (s : sysR) (dt : Z) : Prop :=
  (sk s = KLTV /\ dt = 1%Z) \/ (forall t, scoef s t = scoef s 0%Z).
Lemma coherent_setref (s : sysR) dt : coherent s dt -> forall t tm', scoef s (setref s tm' (t * dt)) = scoef s t.
Proof.
  intros [[Hk ->]|Hc] t tm'; rewrite setref_eq.
  - rewrite Hk. cbn. now rewrite Z.mul_1_r.
  - rewrite (Hc t). apply Hc.
Qed.
Lemma sys_ok_coherent (s : sysR) : sys_ok s <-> coherent s 1.
Proof. unfold sys_ok, coherent. intuition. Qed.

Definition finputs (s : sysR) t x (l : list (stageR * R * R)) (Ks : list (R * R)) : list R :=
  snd (fst (fst (fwd s t x (combine l Ks) 0))).
Lemma fwd_inputs_shift (s : sysR) l t x c : snd (fst (fst (fwd s t x l c))) = snd (fst (fst (fwd s t x l 0))).
Proof. rewrite fwd_shift. reflexivity. Qed.

Lemma sq_le0 q d : 0 < q -> q / 2 * (d * d) <= 0 -> d = 0.
Proof.
  intros Hq H. assert (Hdd : d * d <= 0).
  { destruct (Rle_or_lt (d * d) 0) as [|Hp]; [assumption|]. exfalso.
    assert (0 < q / 2 * (d * d)) by (apply Rmult_lt_0_compat; lra). lra. }
  nra.
Qed.

(* ---- Bellman induction, with uniqueness of the minimiser *)
Lemma bellman2 (s : sysR) dt (G1 : forall t tm', scoef s (setref s tm' (t * dt)) = scoef s t) :
  forall l t tm Ks V v tm2,
  Forall pd (stages l) -> chain s t l -> bwd s dt t tm l = Some (Ks, V, v, tm2) ->
  0 <= V /\ exists C, forall x,
    fcost s t x l Ks = V / 2 * ((x - hd_x l) * (x - hd_x l)) + v * (x - hd_x l) + C /\
    (forall us', length us' = length l ->
      V / 2 * ((x - hd_x l) * (x - hd_x l)) + v * (x - hd_x l) + C <= Jcost s t x (stages l) us') /\
    (forall us', length us' = length l ->
      Jcost s t x (stages l) us' <= V / 2 * ((x - hd_x l) * (x - hd_x l)) + v * (x - hd_x l) + C ->
      us' = finputs s t x l Ks).
Proof.
  induction l as [|[[st xb] ub] rest IH]; intros t tm Ks V v tm2 Hpd Hch Hb; [discriminate|].
  cbn [stages map fst] in Hpd. inversion Hpd as [|? ? [Hxx [Huu [Hsym Hdet]]] Hpd']; subst.
  destruct rest as [|it2 r2].
  - (* terminal step *)
    rewrite bwd_one in Hb. unfold tgain in Hb.
    destruct (gains _ _ _ _ _ _) as [[[[K k] V0] v0]|] eqn:Eg; [|discriminate].
    inversion Hb; subst. apply gains_spec in Eg. destruct Eg as (Hq & EK & Ek & EV & Ev).
    unfold pbar in *. cbn [fst snd] in *. nu. rewrite Hsym in *.
    set (pbu := qxu st * xb + quu st * ub + pu st) in *.
    assert (HV : V = (qxx st * quu st - qxu st * qxu st) / quu st) by (subst V K; field; lra).
    split.
    { rewrite HV. apply Rmult_le_pos; [lra|left; now apply Rinv_0_lt_compat]. }
    exists (stage_cost st xb ub - pbu * pbu / (2 * quu st)). intros x.
    assert (Hid : forall u, stage_cost st x u =
                  V / 2 * ((x - xb) * (x - xb)) + v * (x - xb) + (stage_cost st xb ub - pbu * pbu / (2 * quu st))
                  + quu st / 2 * ((u - (K * (x - xb) + k + ub)) * (u - (K * (x - xb) + k + ub)))).
    { intros u. rewrite !stage_cost_R, Hsym. subst V v K k pbu. field. lra. }
    cbn [hd_x]. split; [|split].
    + unfold fcost. cbn [combine]. rewrite fwd_cons. cbv zeta. cbn [fst snd fwd]. nu.
      rewrite Rplus_0_l, Hid.
      replace (K * (x - xb) + k + ub - (K * (x - xb) + k + ub)) with 0 by ring. ring.
    + intros us' Hl. destruct us' as [|u' ur]; [discriminate|]. cbn [stages map fst Jcost]. nu.
      rewrite Rplus_0_r, Hid.
      assert (0 <= quu st / 2 * ((u' - (K * (x - xb) + k + ub)) * (u' - (K * (x - xb) + k + ub)))).
      { apply Rmult_le_pos; [lra|apply Rle_0_sqr]. }
      lra.
    + intros us' Hl. destruct us' as [|u' ur]; [discriminate|]. destruct ur; [|discriminate].
      cbn [stages map fst Jcost]. nu. rewrite Rplus_0_r, Hid. intros Hle.
      unfold finputs. cbn [combine]. rewrite fwd_cons. cbv zeta. cbn [fst snd fwd]. nu. f_equal.
      assert (Hd0 : u' - (K * (x - xb) + k + ub) = 0) by (apply (sq_le0 (quu st)); [exact Huu|lra]).
      lra.
  - (* inner step *)
    rewrite bwd_cons2 in Hb.
    destruct (bwd s dt (t + 1)%Z tm (it2 :: r2)) as [[[[Ks' V'] v'] tm1]|] eqn:E; [|discriminate].
    cbv zeta in Hb. rewrite G1 in Hb. fold (cA s t) in Hb. fold (cB s t) in Hb.
    unfold bgain in Hb.
    destruct (gains _ _ _ _ _ _) as [[[[K k] V0] v0]|] eqn:Eg; [|discriminate].
    inversion Hb; subst. apply gains_spec in Eg. destruct Eg as (Hq & EK & Ek & EV & Ev).
    cbn [chain] in Hch. destruct Hch as [Hhd Hch']. specialize (Hhd ltac:(discriminate)).
    destruct (IH (t + 1)%Z tm Ks' V' v' tm1 Hpd' Hch' E) as [HV' [C' HC']].
    unfold pbar in *. cbn [fst snd] in *. nu. rewrite Hsym in *.
    set (a := cA s t) in *. set (b := cB s t) in *.
    set (pbx := qxx st * xb + qxu st * ub + px st) in *.
    set (pbu := qxu st * xb + quu st * ub + pu st) in *.
    set (Quu := quu st + b * V' * b) in *.
    destruct (schur_nonneg (qxx st) (qxu st) (quu st) a b V' Hxx Huu Hdet HV') as [_ Hs].
    assert (HV : V = ((qxx st * quu st - qxu st * qxu st)
                      + V' * (qxx st * b * b - 2 * qxu st * a * b + quu st * a * a)) / Quu).
    { subst V K Quu. field. lra. }
    split; [rewrite HV; exact Hs|].
    set (xn := hd_x (it2 :: r2)) in *.
    exists (stage_cost st xb ub - (pbu + b * v') * (pbu + b * v') / (2 * Quu) + C'). intros x.
    assert (Hid : forall u,
       stage_cost st x u + (V' / 2 * ((s_next s t x u - xn) * (s_next s t x u - xn)) + v' * (s_next s t x u - xn))
       = V / 2 * ((x - xb) * (x - xb)) + v * (x - xb)
         + (stage_cost st xb ub - (pbu + b * v') * (pbu + b * v') / (2 * Quu))
         + Quu / 2 * ((u - (K * (x - xb) + k + ub)) * (u - (K * (x - xb) + k + ub)))).
    { intros u. rewrite Hhd, !s_next_R, !stage_cost_R, Hsym. fold a b.
      subst V v K k pbx pbu Quu. field. lra. }
    cbn [hd_x].
    assert (Hfc : fcost s t x ((st, xb, ub) :: it2 :: r2) ((K, k) :: Ks') =
                  V / 2 * ((x - xb) * (x - xb)) + v * (x - xb)
                  + (stage_cost st xb ub - (pbu + b * v') * (pbu + b * v') / (2 * Quu) + C')).
    { unfold fcost.
      change (combine ((st, xb, ub) :: it2 :: r2) ((K, k) :: Ks')) with ((st, xb, ub, (K, k)) :: combine (it2 :: r2) Ks').
      rewrite fwd_cons. cbv zeta. rewrite fwd_shift. cbn [fst snd]. nu.
      pose proof (proj1 (HC' (s_next s t x (K * (x - xb) + k + ub)))) as H3. unfold fcost in H3. fold xn in H3.
      rewrite H3.
      pose proof (Hid (K * (x - xb) + k + ub)) as H1.
      replace (K * (x - xb) + k + ub - (K * (x - xb) + k + ub)) with 0 in H1 by ring. lra. }
    split; [exact Hfc|split].
    + intros us' Hl. destruct us' as [|u' ur]; [discriminate|]. cbn [length] in Hl. injection Hl as Hl.
      change (stages ((st, xb, ub) :: it2 :: r2)) with (st :: stages (it2 :: r2)). cbn [Jcost].
      pose proof (proj1 (proj2 (HC' (s_next s t x u'))) ur Hl) as H2. fold xn in H2.
      pose proof (Hid u') as H1. nu.
      assert (0 <= Quu / 2 * ((u' - (K * (x - xb) + k + ub)) * (u' - (K * (x - xb) + k + ub)))).
      { apply Rmult_le_pos; [lra|apply Rle_0_sqr]. }
      lra.
    + intros us' Hl. destruct us' as [|u' ur]; [discriminate|]. cbn [length] in Hl. injection Hl as Hl.
      change (stages ((st, xb, ub) :: it2 :: r2)) with (st :: stages (it2 :: r2)). cbn [Jcost]. nu. intros Hle.
      pose proof (proj1 (proj2 (HC' (s_next s t x u'))) ur Hl) as H2. fold xn in H2.
      pose proof (Hid u') as H1.
      assert (Hd0 : u' - (K * (x - xb) + k + ub) = 0) by (apply (sq_le0 Quu); [exact Hq|lra]).
      assert (Eu : u' = K * (x - xb) + k + ub) by lra.
      unfold finputs.
      change (combine ((st, xb, ub) :: it2 :: r2) ((K, k) :: Ks')) with ((st, xb, ub, (K, k)) :: combine (it2 :: r2) Ks').
      rewrite fwd_cons. cbv zeta. cbn [fst snd]. nu. rewrite fwd_inputs_shift. rewrite <- Eu. f_equal.
      apply (proj2 (proj2 (HC' (s_next s t x u')))); [exact Hl|]. fold xn.
      rewrite Hd0 in H1. lra.
Qed.

(* ---- optimality with uniqueness, every coherent (system, dt) *)
Theorem lqr_optimal_unique (s : sysR) dt prob x0 un tm xs us c tm' :
  Forall pd prob -> coherent s dt ->
  lqr_solve s dt prob x0 un tm = Some (xs, us, c, tm') ->
  length us = length prob /\ xs = x0 :: traj s 0 x0 us /\ c = Jcost s 0 x0 prob us /\
  (forall us', length us' = length prob -> c <= Jcost s 0 x0 prob us') /\
  (forall us', length us' = length prob -> Jcost s 0 x0 prob us' <= c -> us' = us).
Proof.
  intros Hpd Hok H.
  destruct (lqr_structure _ _ _ _ _ _ _ _ _ _ H) as (L1 & L2 & _).
  pose proof (lqr_cost_is_sum _ _ _ _ _ _ _ _ _ _ H) as L3.
  split; [exact L1|]. split; [exact L2|]. split; [exact L3|].
  destruct (Nat.eq_dec (length (nominal prob un)) (length prob)) as [El|Hn];
    [|rewrite lqr_solve_len in H by exact Hn; discriminate].
  destruct prob as [|st0 pr].
  - destruct us; [|discriminate]. split.
    + intros us' _. rewrite L3. cbn. lra.
    + intros us' Hl _. destruct us'; [reflexivity|discriminate].
  - rewrite lqr_solve_eq in H by (congruence || exact El).
    set (prob := st0 :: pr) in *. rewrite nomF_nom in H. set (items := nom_items s 0 x0 prob (nominal prob un)) in *.
    assert (Eli : length items = length prob) by (apply nom_len; exact El).
    assert (Hst : stages items = prob) by (apply nom_stages; exact El).
    destruct (bwd s dt 0%Z _ items) as [[[[Ks V] v] tm2]|] eqn:Eb; [|discriminate].
    cbv zeta in H. inversion H; subst xs us c tm'. clear H.
    destruct (bellman2 s dt (coherent_setref s dt Hok) items 0%Z _ Ks V v tm2 ltac:(rewrite Hst; exact Hpd)
                (nom_chain s prob 0%Z x0 _) Eb) as [_ [C HC]].
    specialize (HC x0). destruct HC as (HC1 & HC2 & HC3).
    assert (Hhd : hd_x items = x0) by (apply nom_hd'; [subst prob; cbn [length]; lia|exact El]).
    rewrite Hhd in HC1, HC2, HC3.
    replace (V / 2 * ((x0 - x0) * (x0 - x0)) + v * (x0 - x0) + C) with C in HC1, HC2, HC3 by ring.
    unfold fcost in HC1. change (@zero R NumR) with 0. rewrite HC1. rewrite Hst, Eli in *.
    split; [exact HC2|]. intros us' Hl Hle. exact (HC3 us' Hl Hle).
Qed.

(* the whole result of a solve - states, inputs, cost, time afterwards - does not depend on the
   nominal input trajectory supplied nor on the counter found *)
Theorem lqr_nominal_independent (s : sysR) dt prob x0 un un' tm tm0 :
  Forall pd prob -> coherent s dt -> nominal_ok prob un -> nominal_ok prob un' ->
  lqr_solve s dt prob x0 un tm = lqr_solve s dt prob x0 un' tm0.
Proof.
  intros Hpd Hok Hn Hn'.
  destruct (lqr_solve_returns s dt prob x0 un tm Hpd Hn) as (xs & us & c & t1 & E1).
  destruct (lqr_solve_returns s dt prob x0 un' tm0 Hpd Hn') as (xs2 & us2 & c2 & t2 & E2).
  rewrite E1, E2.
  destruct (lqr_optimal_unique _ _ _ _ _ _ _ _ _ _ Hpd Hok E1) as (A1 & A2 & A3 & A4 & A5).
  destruct (lqr_optimal_unique _ _ _ _ _ _ _ _ _ _ Hpd Hok E2) as (B1 & B2 & B3 & B4 & B5).
  assert (Eu : us2 = us).
  { apply A5; [exact B1|]. rewrite <- B3. rewrite A3. apply B4. exact A1. }
  subst us2. rewrite (lqr_time_bookkeeping _ _ _ _ _ _ _ _ _ _ E1), (lqr_time_bookkeeping _ _ _ _ _ _ _ _ _ _ E2).
  rewrite A2, B2, A3, B3. reflexivity.
Qed.

(* ---- MPC on a linear system: returns, and returns exactly what LQR returns *)
Theorem mpc_linear_returns (s : sysR) dt prob x0 cfg st u0 tm :
  Forall pd prob -> nominal_ok prob u0 ->
  exists xs us c tm' st' n, mpc_forward s dt prob x0 cfg st u0 tm = Some (xs, us, c, tm', st', n).
Proof.
  intros Hpd Hn. unfold mpc_forward, mpc_forward_gen.
  assert (Hs : forall un tm, length (nominal prob un) = length prob ->
        exists xs us c tm', lqr_solve s dt prob x0 un tm = Some (xs, us, c, tm') /\ length us = length prob).
  { intros un tm1 Hl.
    assert (Hn1 : nominal_ok prob un) by (destruct un; [exact Hl|exact I]).
    destruct (lqr_solve_returns s dt prob x0 un tm1 Hpd Hn1) as (xs & us & c & t1 & E).
    exists xs, us, c, t1. split; [exact E|]. exact (proj1 (lqr_feasible _ _ _ _ _ _ _ _ _ _ E)). }
  destruct (mpc_loop_returns lqr_solve s dt prob x0 cfg Hs (mpc_fuel cfg) (rtb_reset st) u0 None tm
              (nominal_len _ _ Hn) I) as (st' & best' & tm' & n & E & L).
  rewrite E.
  assert (Hb : nominal_ok prob (match best' with Some (_, us, _) => Some us | None => u0 end)).
  { destruct best' as [[[? ub] ?]|]; [exact L|exact Hn]. }
  destruct (lqr_solve_returns s dt prob x0 _ tm' Hpd Hb) as (xs & us & c & t1 & E1).
  rewrite E1. do 6 eexists. reflexivity.
Qed.

Theorem mpc_linear_is_lqr (s : sysR) dt prob x0 cfg st u0 tm xs us c tm' st' n :
  Forall pd prob -> coherent s dt ->
  mpc_forward s dt prob x0 cfg st u0 tm = Some (xs, us, c, tm', st', n) ->
  (forall un tm0, nominal_ok prob un -> lqr_solve s dt prob x0 un tm0 = Some (xs, us, c, tm')) /\
  (forall us', length us' = length prob -> c <= Jcost s 0 x0 prob us') /\
  rtb_cont st' = false /\ (1 <= n)%nat /\ (Z.of_nat n <= Z.max 1 (rtb_max cfg))%Z.
Proof.
  intros Hpd Hok H. pose proof (mpc_forward_ends _ _ _ _ _ _ _ _ _ _ _ _ _ _ H) as He.
  unfold mpc_forward, mpc_forward_gen in H.
  destruct (mpc_loop_gen _ _ _ _ _ _ _ _ _ _ _) as [[[[st1 best] tm1] n1]|]; [|discriminate].
  destruct (lqr_solve s dt prob x0 _ tm1) as [[[[xs1 us1] c1] tm2]|] eqn:E; [|discriminate].
  inversion H; subst.
  split; [|split; [|exact He]].
  - intros un tm0 Hn. rewrite <- E.
    apply lqr_nominal_independent; [exact Hpd|exact Hok|exact Hn|].
    destruct (match best with Some (_, us0, _) => Some us0 | None => u0 end) as [ub|] eqn:Eb; [|exact I].
    cbn. destruct (Nat.eq_dec (length ub) (length prob)) as [e|ne]; [exact e|].
    rewrite lqr_solve_len in E by exact ne. discriminate.
  - exact (proj1 (proj2 (proj2 (proj2 (lqr_optimal_unique _ _ _ _ _ _ _ _ _ _ Hpd Hok E))))).
Qed.

(* non-vacuity: hypotheses of the theorems above hold for concrete objects *)
Example coherent_example_lti : coherent {| sk := KLTI; scoef := fun _ => (3 / 2, 1, Some (1 / 4)) |} 2.
Proof. right. reflexivity. Qed.
Example coherent_example_ltv : coherent {| sk := KLTV; scoef := fun t => (IZR t, 1, None) |} 1.
Proof. left. split; reflexivity. Qed.
End Real2.

(* ====================================================================== dt <> 1 on an LTV object *)
#[local] Existing Instance NumQ.
Section Witness2.
Open Scope Q_scope.
(* w_sys: A_t = (1, 0, 2)[t mod 3], B = 1; Q_t = I, p = 0, x_init = 1, T = 2 (Proofs/LQR.v).
   With dt = 2 the backward pass linearises step 0 at time 0*2 = 0 - the same as dt = 1 on this horizon;
   take T = 3 so that step 1 is linearised at time 2 (A = 2) while the system then runs A_1 = 0. *)
Definition w_prob3 : list (stage (F:=Q)) := map mk_stage [(1, 0, 0, 1, 0, 0); (1, 0, 0, 1, 0, 0); (1, 0, 0, 1, 0, 0)].
Lemma w_dt2 : lqr_solve w_sys 2%Z w_prob3 1 None 0%Z = Some ([1; 3 # 4; 1 # 4; 1 # 2], [-1 # 4; 1 # 4; 0], 7 # 8, 3%Z).
Proof. vm_compute. reflexivity. Qed.
Lemma w_dt1 : lqr_solve w_sys 1%Z w_prob3 1 None 0%Z = Some ([1; 1 # 2; 0; 0], [-1 # 2; 0; 0], 3 # 4, 3%Z).
Proof. vm_compute. reflexivity. Qed.
Lemma w_dt2_better : Jcost w_sys 0%Z 1 w_prob3 [-1 # 2; 0; 0] == 3 # 4.
Proof. vm_compute. reflexivity. Qed.
(* LQR.forward(x_init, dt = 2) on an LTV object returns inputs of cost 7/8; the inputs (-1/2, 0, 0)
   cost 3/4 along the same system: the backward pass reads A, B at the times t*dt, the system runs
   at the times t *)
Lemma lqr_optimal_dt_refuted :
  exists (s : ssys (F:=Q)) dt prob x0 xs us c tm' us',
    sk s = KLTV /\ prob = w_prob3 /\
    lqr_solve s dt prob x0 None 0%Z = Some (xs, us, c, tm') /\
    length us' = length prob /\ Jcost s 0%Z x0 prob us' < c.
Proof.
  exists w_sys, 2%Z, w_prob3, 1, [1; 3 # 4; 1 # 4; 1 # 2], [-1 # 4; 1 # 4; 0], (7 # 8), 3%Z, [-1 # 2; 0; 0].
  split; [reflexivity|]. split; [reflexivity|]. split; [exact w_dt2|]. split; [reflexivity|].
  rewrite w_dt2_better. reflexivity.
Qed.
End Witness2.
