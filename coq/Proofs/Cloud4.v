(* More proofs for C18: nbr_filter (negative radius, order-preserving equivariance, degenerate
   thresholds) and the camera helpers at and beyond their guards (w = 0, depth = 0, skew,
   extrinsics). *)
From Coq Require Import QArith.
Close Scope Q_scope.
From Coq Require Import ZArith Reals Lra Lia List Bool Arith Permutation Sorted Psatz.
Import ListNotations.
From PV Require Import Base.Num Model.LieGroup Model.Cloud Proofs.Cloud.
#[local] Remove Hints NumQ NumZ : typeclass_instances.
Local Open Scope R_scope.

(* ====================================================================== nbr_filter *)
Lemma Rpdist_nonneg o pd (p q : vecR) : 0 <= Rpdist o pd p q.
Proof. unfold Rpdist, Rdist. destruct o; try apply dmeas_nonneg. apply sqrt_pos. Qed.

(* negative radius: no point is within the radius of any point, not even of itself, so the
   count (which subtracts 1 for the point itself) is -1 *)
Lemma nbr_keep_neg_radius o pd (pts : cloudR) nbr r p : r < 0 ->
  nbr_keep o pd pts nbr r p = (nbr <=? -1)%Z.
Proof.
  intros Hr. unfold nbr_keep, nbr_count. rewrite countZ_filter, filter_none; [reflexivity|].
  intros q _. rewrite within_Rleb. apply Rleb_false. pose proof (Rpdist_nonneg o pd p q). lra.
Qed.

(* so "kept iff at least nbr others within the radius" fails for r < 0 and nbr <= 0: a single
   point has 0 >= 0 others within any radius but is removed *)
Lemma nbr_filter_neg_radius_refuted :
  exists (pts : cloudR) (nbr : Z) (r : R) (p : vecR),
    pts = [] ++ p :: [] /\ (nbr <= Z.of_nat (n_within L2 1 r p ([] ++ [])))%Z /\
    nbr_filter L2 1 pts nbr r = ([], [false]).
Proof.
  exists [[0]], 0%Z, (-1), [0]. split; [reflexivity|]. split; [cbn; lia|].
  rewrite nbr_filter_eq. cbn [filter map]. rewrite nbr_keep_neg_radius by lra. reflexivity.
Qed.

(* order-preserving equivariance: on a permuted cloud the SAME predicate decides, so the mask is
   permuted in the same way and the kept rows keep the order of the permuted cloud *)
Lemma nbr_filter_equiv o pd (pts pts' : cloudR) nbr r : Permutation pts pts' ->
  nbr_filter o pd pts' nbr r = (filter (nbr_keep o pd pts nbr r) pts', map (nbr_keep o pd pts nbr r) pts').
Proof.
  intros HP. rewrite nbr_filter_eq.
  rewrite (filter_ext _ _ (fun p => nbr_keep_perm o pd pts' pts nbr r p (Permutation_sym HP))).
  rewrite (map_ext _ _ (fun p => nbr_keep_perm o pd pts' pts nbr r p (Permutation_sym HP))). reflexivity.
Qed.
Lemma nbr_filter_mask_equiv o pd (pts : cloudR) (sigma : list nat) nbr r :
  Permutation sigma (seq 0 (length pts)) ->
  snd (nbr_filter o pd (map (fun i => nth i pts []) sigma) nbr r) =
  map (fun i => nth i (snd (nbr_filter o pd pts nbr r)) false) sigma.
Proof.
  intros HP.
  assert (HPP : Permutation pts (map (fun i => nth i pts []) sigma)).
  { apply Permutation_sym. eapply perm_trans; [apply Permutation_map, HP|]. now rewrite map_nth_seq. }
  rewrite (nbr_filter_equiv o pd pts _ nbr r HPP), nbr_filter_eq. cbn [snd].
  rewrite map_map. apply map_ext_in. intros i Hi.
  apply (Permutation_in _ HP) in Hi. apply in_seq in Hi.
  symmetry. apply nth_map'. lia.
Qed.

(* degenerate thresholds *)
Lemma nbr_filter_all_removed o pd (pts : cloudR) nbr r : (Z.of_nat (length pts) <= nbr)%Z ->
  nbr_filter o pd pts nbr r = ([], map (fun _ => false) pts).
Proof.
  intros Hn. rewrite nbr_filter_eq.
  assert (E : forall p, nbr_keep o pd pts nbr r p = false).
  { intros p. unfold nbr_keep, nbr_count. apply Z.leb_gt. rewrite countZ_filter.
    pose proof (filter_length_le (within o pd r p) pts). lia. }
  rewrite (filter_none _ pts) by (intros; apply E). f_equal. now apply map_ext.
Qed.
Lemma nbr_filter_all_kept o pd (pts : cloudR) nbr r : 0 <= r -> (nbr <= 0)%Z ->
  nbr_filter o pd pts nbr r = (pts, map (fun _ => true) pts).
Proof.
  intros Hr Hn. rewrite nbr_filter_eq.
  assert (E : forall p, In p pts -> nbr_keep o pd pts nbr r p = true).
  { intros p Hp. destruct (in_split _ _ Hp) as [pre [post ->]]. apply nbr_keep_spec; auto. lia. }
  f_equal.
  - clear Hn. induction pts as [|q l IH]; auto. cbn [filter].
    rewrite (E q (or_introl eq_refl)).
    f_equal. rewrite <- (filter_ext_in (fun _ => true)); [clear; induction l; cbn; congruence|].
    intros a Ha. symmetry. apply E. now right.
  - apply map_ext_in. exact E.
Qed.

(* ====================================================================== homo2cart at the guard *)
Lemma homo2cart_spec tiny (xs : vecR) (w : R) :
  homo2cart tiny (xs ++ [w]) =
  map (fun x => x / (if Rle_dec tiny (Rabs w) then w else if Rlt_dec w 0 then - tiny else tiny)) xs.
Proof.
  unfold homo2cart. rewrite last_last, removelast_last. apply map_ext. intros x.
  destruct (Rle_dec tiny (Rabs w)) as [H|H].
  - now rewrite homo2cart_den.
  - rewrite absF_R, maxF_R, Rmax_right by lra. unfold pm; cbn. unfold Rltb.
    destruct (Rlt_dec w 0); f_equal; lra.
Qed.
(* w = 0 is treated as +tiny *)
Lemma homo2cart_w0 tiny (xs : vecR) : 0 < tiny -> homo2cart tiny (xs ++ [0]) = map (fun x => x / tiny) xs.
Proof.
  intros Ht. rewrite homo2cart_spec. apply map_ext. intros x. rewrite Rabs_R0.
  destruct (Rle_dec tiny 0); [lra|]. destruct (Rlt_dec 0 0); [lra | reflexivity].
Qed.
(* the other composition: normalisation by the last coordinate *)
Lemma cart_homo_normalise tiny (xs : vecR) (w : R) : 0 < tiny -> tiny <= Rabs w ->
  cart2homo (homo2cart tiny (xs ++ [w])) = map (fun x => x / w) (xs ++ [w]).
Proof.
  intros Ht Hw. pose proof (tiny_nonzero tiny w Ht Hw) as Hw0.
  rewrite homo2cart_spec. unfold cart2homo. rewrite map_app. f_equal.
  - apply map_ext. intros x. destruct (Rle_dec tiny (Rabs w)); [reflexivity | contradiction].
  - cbn. f_equal. field. exact Hw0.
Qed.

(* ====================================================================== the depth guard is needed *)
Lemma pixel_point_depth_zero tiny fx fy cx cy (u v : R) : 0 < tiny ->
  point2pixel1 tiny (pinhole fx fy cx cy) None (pixel2point1 (pinhole fx fy cx cy) [u; v] 0) = [0; 0].
Proof.
  intros Ht. unfold pixel2point1, kij, pinhole. cbn [nth]. fold (pinhole fx fy cx cy).
  unfold point2pixel1, extr_act, matvec, pinhole, dot, sumF. cbn [map map2 fold_right].
  change [?a; ?b; ?c] with ([a; b] ++ [c]).
  replace (zero * ((u - cx) * 0 / fx) + (zero * ((v - cy) * 0 / fy) + (one * 0 + zero)))%num with 0
    by (cbn; unfold Rdiv; ring).
  rewrite homo2cart_w0 by auto. cbn [map]. f_equal; [|f_equal]; cbn; unfold Rdiv; ring.
Qed.
(* depth 0 (or any |depth| < tiny): pixel -> point -> pixel does not come back *)
Lemma pixel_point_depth_zero_refuted tiny : 0 < tiny ->
  exists fx fy cx cy (pix : cloudR) (depth : vecR) pts, fx <> 0 /\ fy <> 0 /\
    Forall (fun px => length px = 2%nat) pix /\ length depth = length pix /\
    pixel2point (pinhole fx fy cx cy) pix depth = Some pts /\
    point2pixel tiny (pinhole fx fy cx cy) None pts <> pix.
Proof.
  intros Ht. exists 1, 1, 0, 0, [[1; 1]], [0], [pixel2point1 (pinhole 1 1 0 0) [1; 1] 0].
  split; [lra|]. split; [lra|]. split; [repeat constructor|]. split; [reflexivity|]. split.
  - rewrite pixel2point_some by lra. reflexivity.
  - cbn [point2pixel map]. rewrite pixel_point_depth_zero by auto. intros H. inversion H. lra.
Qed.
(* a point in the camera plane z = 0: point -> pixel -> point loses x, y *)
Lemma point_pixel_depth_zero_refuted tiny : 0 < tiny ->
  exists fx fy cx cy (p : vecR), fx <> 0 /\ fy <> 0 /\ length p = 3%nat /\
    pixel2point (pinhole fx fy cx cy) (point2pixel tiny (pinhole fx fy cx cy) None [p]) [nth 2 p 0]
    = Some [[0; 0; 0]] /\ p <> [0; 0; 0].
Proof.
  intros Ht. exists 1, 1, 0, 0, [1; 0; 0].
  split; [lra|]. split; [lra|]. split; [reflexivity|]. split.
  - rewrite pixel2point_some by lra. cbn [point2pixel map map2 nth]. f_equal. f_equal.
    unfold pixel2point1, kij, pinhole. cbn [nth]. f_equal; [|f_equal]; cbn; unfold Rdiv; ring.
  - intros H. inversion H. lra.
Qed.

(* ====================================================================== skew is ignored by pixel2point *)
Lemma pixel_point_skew_refuted tiny : 0 < tiny <= 1 ->
  exists (K : cloudR) (p p' : vecR), kij K 0 0 <> 0 /\ kij K 1 1 <> 0 /\ nth 2 K [] = [0; 0; 1] /\
    length p = 3%nat /\ tiny <= Rabs (nth 2 p 0) /\
    pixel2point K (point2pixel tiny K None [p]) [nth 2 p 0] = Some [p'] /\ p' <> p.
Proof.
  intros Ht. exists [[1; 1; 0]; [0; 1; 0]; [0; 0; 1]], [0; 1; 1], [1; 1; 1].
  assert (E : point2pixel1 tiny [[1; 1; 0]; [0; 1; 0]; [0; 0; 1]] None [0; 1; 1] = [1; 1]).
  { unfold point2pixel1, extr_act, matvec, dot, sumF. cbn [map map2 fold_right].
    replace (1 * 0 + (1 * 1 + (0 * 1 + zero)))%num with 1 by (cbn; ring).
    replace (0 * 0 + (1 * 1 + (0 * 1 + zero)))%num with 1 by (cbn; ring).
    replace (0 * 0 + (0 * 1 + (1 * 1 + zero)))%num with 1 by (cbn; ring).
    rewrite homo2cart3 by (rewrite Rabs_R1; lra). f_equal; [|f_equal]; field. }
  unfold kij. cbn [nth]. split; [lra|]. split; [lra|]. split; [reflexivity|]. split; [reflexivity|].
  split; [rewrite Rabs_R1; lra|]. split.
  - unfold pixel2point, kij. cbn [nth].
    replace (1 =? zero)%num with false by (symmetry; apply Reqb_false; cbn; lra). cbn [orb].
    cbn [point2pixel map map2]. rewrite E. f_equal. f_equal.
    unfold pixel2point1, kij. cbn. f_equal; [|f_equal]; field.
  - intros H. inversion H. lra.
Qed.

(* ====================================================================== extrinsics in the round trip *)
Lemma extr_act_length X (p : vecR) : length (extr_act (Some X) p) = 3%nat.
Proof. reflexivity. Qed.
(* projecting with extrinsics and unprojecting with the camera-frame depths returns the points
   in the camera frame *)
Lemma pixel_point_inverse_extr tiny fx fy cx cy X (pts : cloudR) : 0 < tiny -> fx <> 0 -> fy <> 0 ->
  let K := pinhole fx fy cx cy in
  Forall (fun p => tiny <= Rabs (nth 2 (extr_act (Some X) p) 0)) pts ->
  pixel2point K (point2pixel tiny K (Some X) pts) (map (fun p => nth 2 (extr_act (Some X) p) 0) pts)
  = Some (map (extr_act (Some X)) pts).
Proof.
  intros Ht Hfx Hfy K Hz. rewrite point2pixel_extr.
  destruct (pixel_point_inverse tiny fx fy cx cy Ht Hfx Hfy) as [_ H].
  specialize (H (map (extr_act (Some X)) pts)). rewrite map_map in H. apply H.
  rewrite Forall_map. eapply Forall_impl; [|exact Hz]. intros p Hp. split; auto.
Qed.
