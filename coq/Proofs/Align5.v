(* C17, fifth part: EPnP on exact projections, end to end over the modelled steps.
   torch.linalg.solve (_compute_alpha) is an oracle with the contract  alpha_i @ [C_w | 1] = [p_i | 1]
   (weights sum to one and reproduce the world point); the eigen-decomposition / beta selection are
   not modelled: the theorems say what is true of EVERY vector x = k * (true camera-frame control
   points): it is in the null space of the whole 2N x 12 matrix M that _compute_nullv builds (and is
   an eigenvector of M^T M for the eigenvalue 0), and from it _compute_scale + svdtf recover the true
   pose exactly.
   [epnp_M], [gram_apply] and [epnp_compute_scale] are transcriptions made HERE (Model/Align.v has only
   the two rows of one point); they are built from the model's rows / combination and are not
   exercised by the correspondence harness. *)
From Coq Require Import Reals Lra Psatz List Nsatz ZArith Bool Arith.
Import ListNotations.
From PV Require Import Base.Num Base.RTac Model.LieGroup Model.Controller Model.Align Proofs.LieGroup
  Proofs.Align Proofs.Align2 Proofs.Align3.
Local Open Scope R_scope.
#[local] Remove Hints NumQ NumZ : typeclass_instances.

Notation vec4R := (vec4' (F:=R)).
Notation ctrlR := (ctrl (F:=R)).

(* M of _compute_nullv: for every point its u-row then its v-row ( .view(point * 2, 12) ) *)
Definition epnp_M (fu fv u0 v0 : R) (alphas : list vec4R) (pixels : list (R * R)) : list (list R) :=
  flat_map (fun ap : vec4R * (R * R) =>
              [epnp_row_u (fst ap) fu u0 (fst (snd ap)); epnp_row_v (fst ap) fv v0 (snd (snd ap))])
           (combine alphas pixels).
Definition in_null (M : list (list R)) (x : list R) : Prop := Forall (fun r => dotl r x = 0) M.
(* (M^T M) x = sum over the rows r of (r . x) r *)
Definition gram_apply (M : list (list R)) (x : list R) : list R :=
  fold_right (fun r acc => map (fun ra => fst ra * dotl r x + snd ra) (combine r acc)) (repeat 0 12) M.

(* the contract of _compute_alpha's linear solve for one point *)
Definition alpha_ok (cw : ctrlR) (a : vec4R) (p : vec3R) : Prop :=
  (let '(a0, a1, a2, a3) := a in a0 + a1 + a2 + a3 = 1) /\ ctrl_comb a cw = p.
Definition ctrl_move (A : mat3R) (t : vec3R) (c : ctrlR) : ctrlR :=
  let '(c0, c1, c2, c3) := c in
  (rigid_apply A t c0, rigid_apply A t c1, rigid_apply A t c2, rigid_apply A t c3).

Lemma dotl_scale (k : R) : forall r x, dotl r (map (Rmult k) x) = k * dotl r x.
Proof.
  induction r as [|a r IH]; intros [|b x]; cbn [dotl map]; try (cbn; ring).
  rewrite IH. cbn [add mul NumR]. ring.
Qed.

Lemma alpha_moved (A : mat3R) (t : vec3R) cw a p : alpha_ok cw a p ->
  ctrl_comb a (ctrl_move A t cw) = rigid_apply A t p.
Proof. intros [Hs <-]. unfold ctrl_move. now apply alpha_reproduces_points. Qed.

(* every row of M annihilates every multiple of the true camera-frame control points: no rotation
   hypothesis (any affine camera motion), any number of points, depth <> 0 *)
Theorem epnp_system_nullspace (fu fv u0 v0 : R) (A : mat3R) (t : vec3R) (cw : ctrlR) :
  forall alphas points, Forall2 (alpha_ok cw) alphas points ->
  Forall (fun p => vz (rigid_apply A t p) <> 0) points ->
  forall k, in_null (epnp_M fu fv u0 v0 alphas (map (fun p => project fu fv u0 v0 (rigid_apply A t p)) points))
                    (map (Rmult k) (ctrl_flat (ctrl_move A t cw))).
Proof.
  induction 1 as [|a p alphas points Hap HF IH]; intros Hz k; [constructor|].
  inversion Hz as [|? ? Hzp Hzr]; subst. specialize (IH Hzr k).
  unfold epnp_M. cbn [map combine flat_map fst snd app]. fold (epnp_M fu fv u0 v0 alphas (map (fun p => project fu fv u0 v0 (rigid_apply A t p)) points)).
  pose proof (alpha_moved A t cw a p Hap) as Em.
  assert (Hz' : vz (ctrl_comb a (ctrl_move A t cw)) <> 0) by (now rewrite Em).
  destruct (epnp_nullspace a (ctrl_move A t cw) fu fv u0 v0 Hz') as [Hu Hv]. rewrite Em in Hu, Hv.
  constructor; [rewrite dotl_scale, Hu; ring|]. constructor; [rewrite dotl_scale, Hv; ring | exact IH].
Qed.

(* hence it is an eigenvector of M^T M for the eigenvalue 0 (the matrix handed to torch.linalg.eig) *)
Lemma gram_null M x : Forall (fun r => length r = 12%nat) M -> in_null M x -> gram_apply M x = repeat 0 12.
Proof.
  induction 1 as [|r M Hr HF IH]; intros Hn; [reflexivity|]. inversion Hn as [|? ? H0 Hn']; subst.
  cbn [gram_apply fold_right]. fold (gram_apply M x). rewrite (IH Hn'), H0.
  do 13 (destruct r as [|? r]; try discriminate). cbn. repeat f_equal; ring.
Qed.
Lemma epnp_M_rows fu fv u0 v0 : forall alphas pixels, Forall (fun r => length r = 12%nat) (epnp_M fu fv u0 v0 alphas pixels).
Proof.
  unfold epnp_M. induction alphas as [|a al IH]; intros [|px pl]; cbn [combine flat_map]; try constructor.
  - destruct a as [[[a0 a1] a2] a3]. reflexivity.
  - cbn [app]. constructor; [destruct a as [[[a0 a1] a2] a3]; reflexivity | apply IH].
Qed.
Theorem epnp_gram_eigen0 (fu fv u0 v0 : R) (A : mat3R) (t : vec3R) (cw : ctrlR) alphas points k :
  Forall2 (alpha_ok cw) alphas points -> Forall (fun p => vz (rigid_apply A t p) <> 0) points ->
  gram_apply (epnp_M fu fv u0 v0 alphas (map (fun p => project fu fv u0 v0 (rigid_apply A t p)) points))
             (map (Rmult k) (ctrl_flat (ctrl_move A t cw))) = repeat 0 12.
Proof. intros H1 H2. apply gram_null; [apply epnp_M_rows | now apply epnp_system_nullspace]. Qed.

(* transp = alpha @ bases with the true camera-frame control points: the camera-frame points *)
Lemma epnp_transp (A : mat3R) (t : vec3R) (cw : ctrlR) : forall alphas points, Forall2 (alpha_ok cw) alphas points ->
  map (fun a => ctrl_comb a (ctrl_move A t cw)) alphas = map (rigid_apply A t) points.
Proof. induction 1 as [|a p al pl Hap HF IH]; cbn [map]; [reflexivity|]. now rewrite IH, (alpha_moved A t cw a p Hap). Qed.

(* _compute_solution's svdtf(points, transp) on the true control points returns the true pose *)
Section Pose.
Variable svd : mat3R -> mat3R * vec3R * mat3R.
Theorem epnp_pose_from_true_controls (A : mat3R) (t : vec3R) (cw : ctrlR) alphas points :
  Forall2 (alpha_ok cw) alphas points -> points <> [] -> rot A ->
  svd_contract svd (svdtf_M points (map (fun a => ctrl_comb a (ctrl_move A t cw)) alphas)) ->
  exists T, svdtf svd points (map (fun a => ctrl_comb a (ctrl_move A t cw)) alphas) = Some T /\ unitq (snd T) /\
    se3_cloud T points = map (rigid_apply A t) points /\
    (noncollinear points -> fst T = t /\ SO3_matrix (snd T) = A).
Proof.
  intros Hal Hne HA Hc. rewrite (epnp_transp A t cw alphas points Hal) in *.
  destruct (svdtf_call_exact_recovery svd points _ A t eq_refl Hne HA Hc) as (T & ET & Hq & EC).
  exists T. split; [exact ET|]. split; [exact Hq|]. split; [exact EC|].
  intros Hnc.
  destruct (svdtf_call_exact_unique svd points _ A t eq_refl Hnc HA Hc) as (T' & ET' & _ & E1 & E2 & _).
  rewrite ET in ET'. injection ET' as <-. now split.
Qed.
End Pose.

(* the alpha contract is satisfiable: the standard control points and the weights of a point *)
Example alpha_ok_example :
  alpha_ok ((0, 0, 0), (1, 0, 0), (0, 1, 0), (0, 0, 1)) (1 - 2 - 3 - 5, 2, 3, 5) (2, 3, 5).
Proof. split; [ring|]. cbv [ctrl_comb]. al_unfold. split_pairs; ring. Qed.
