(* C09, fourth file: exact characterisation of when the correctors return, shape preservation (so the
   sums J'^T R', J'^T J' of the other theorems are over complete rows / columns, no list truncation),
   Triggs really differs from FastTriggs on masked blocks, and concrete non-vacuity witnesses
   (a masked block; a tensor with rows in all four regimes). *)
From Coq Require Import Reals Lra Psatz List Lia Bool.
From Coquelicot Require Import Coquelicot.
Import ListNotations.
From PV Require Import Base.Num Base.RTac Model.Kernel Proofs.Kernel Proofs.Kernel2 Proofs.Kernel3.
Local Open Scope R_scope.
#[local] Remove Hints NumQ NumZ : typeclass_instances.

(* ====================================================================== when do the correctors return *)
Lemma mapM_some_inv {A B} (f : A -> option B) :
  forall (l : list A) (r : list B), mapM f l = Some r -> forall a, In a l -> exists b, f a = Some b.
Proof.
  induction l as [|a l IH]; intros r H a0 Hin; [destruct Hin|]. cbn in H.
  destruct (f a) as [b|] eqn:Hb; [|discriminate]. destruct (mapM f l) as [r'|] eqn:Hr; [|discriminate].
  destruct Hin as [<-|Hin]; [eauto|]. eapply IH; eauto.
Qed.
Lemma mapM_length {A B} (f : A -> option B) :
  forall (l : list A) (r : list B), mapM f l = Some r -> length r = length l.
Proof.
  induction l as [|a l IH]; intros r H; cbn in H.
  - inversion H. reflexivity.
  - destruct (f a) as [b|]; [|discriminate]. destruct (mapM f l) as [r'|] eqn:Hr; [|discriminate].
    inversion H; subst. cbn. f_equal. now apply IH.
Qed.
Lemma mapM_Forall {A B} (f : A -> option B) (P : A -> Prop) (Q : B -> Prop) :
  (forall a b, P a -> f a = Some b -> Q b) ->
  forall (l : list A) (r : list B), mapM f l = Some r -> Forall P l -> Forall Q r.
Proof.
  intros HPQ. induction l as [|a l IH]; intros r H HP; cbn in H.
  - inversion H. constructor.
  - destruct (f a) as [b|] eqn:Hb; [|discriminate]. destruct (mapM f l) as [r'|] eqn:Hr; [|discriminate].
    inversion H; subst. inversion HP; subst. constructor; eauto.
Qed.

(* FastTriggs returns iff rho' >= 0 on every block (otherwise sqrt gives NaN) *)
Lemma fasttriggs_defined_iff (rho1 : R -> R) (bs : list blockR) :
  (exists bs', fasttriggs rho1 bs = Some bs') <-> (forall b, In b bs -> 0 <= rho1 (sqnorm b)).
Proof.
  split; [|apply fasttriggs_defined].
  intros [bs' H] b Hin. destruct (mapM_some_inv _ bs bs' H b Hin) as [b' Hb].
  now apply fasttriggs_block_inv in Hb as [Hg _].
Qed.

Lemma triggs_block_some_inv (g1 g2 : R) Rv J b' : triggs_block g1 g2 Rv J = Some b' ->
  0 <= g1 /\ (triggs_mask (dot Rv Rv) g2 = true -> 0 < g1).
Proof.
  intros H. destruct (Rlt_dec g1 0) as [Hn|Hn]; [rewrite triggs_block_none in H by auto; discriminate|].
  split; [lra|]. intros HM. destruct (Req_EM_T g1 0) as [H0|H0]; [|lra]. exfalso.
  unfold triggs_block in H. cbv zeta in H. rewrite HM in H. subst g1. cbn [ltb eqb NumR zero] in H.
  replace (Rltb 0 0) with false in H by (symmetry; apply Rltb_false; lra).
  replace (Reqb 0 0) with true in H by (symmetry; now apply Reqb_true). discriminate.
Qed.
(* Triggs returns iff rho' >= 0 on every block and rho' > 0 on the masked ones *)
Lemma triggs_defined_iff (rho1 rho2 : R -> R) (bs : list blockR) :
  (exists bs', triggs rho1 rho2 bs = Some bs') <->
  (forall b, In b bs -> 0 <= rho1 (sqnorm b) /\
                        (triggs_mask (sqnorm b) (rho2 (sqnorm b)) = true -> 0 < rho1 (sqnorm b))).
Proof.
  split.
  - intros [bs' H] b Hin. destruct (mapM_some_inv _ bs bs' H b Hin) as [b' Hb].
    now apply triggs_block_some_inv in Hb.
  - intros H. apply triggs_defined; intros b Hb; now apply H.
Qed.

(* ====================================================================== shapes are preserved *)
Lemma mapi_from_length {A B} (f : nat -> A -> B) : forall (l : list A) (i : nat),
  length (mapi_from f i l) = length l.
Proof. induction l as [|a l IH]; intros i; cbn; [reflexivity|]. now rewrite IH. Qed.

Lemma scale_vec_length (s : R) (v : list R) : length (scale_vec s v) = length v.
Proof. unfold scale_vec. apply map_length. Qed.

Lemma fasttriggs_block_wf (g1 : R) Rv J b' p : fasttriggs_block g1 Rv J = Some b' ->
  wf_block p (Rv, J) -> wf_block p b' /\ length (fst b') = length Rv.
Proof.
  intros H [Hlen HJ]. apply fasttriggs_block_inv in H as [_ ->]. unfold wf_block. cbn [fst snd] in *.
  split; [split|]; rewrite ?map_length, ?scale_vec_length; auto.
  apply Forall_forall. intros row Hin. apply in_map_iff in Hin as [r0 [<- Hr0]].
  rewrite scale_vec_length. rewrite Forall_forall in HJ. auto.
Qed.
Lemma triggs_masked_value_wf (g1 g2 : R) Rv J p : wf_block p (Rv, J) ->
  wf_block p (triggs_masked_value g1 g2 Rv J) /\ length (fst (triggs_masked_value g1 g2 Rv J)) = length Rv.
Proof.
  intros [Hlen HJ]. cbn [fst snd] in *.
  assert (HR : length (fst (triggs_masked_value g1 g2 Rv J)) = length Rv).
  { unfold triggs_masked_value. cbv zeta. cbn [fst]. apply scale_vec_length. }
  split; [split|exact HR].
  - rewrite HR. now apply masked_value_rows.
  - unfold triggs_masked_value. cbv zeta. cbn [snd]. apply Forall_forall. intros row Hin.
    apply in_map_iff in Hin as [[r srow] [<- Hin]]. cbn [fst snd]. rewrite mapi_from_length.
    apply in_combine_r in Hin. apply in_map_iff in Hin as [r0 [<- Hr0]].
    rewrite scale_vec_length. rewrite Forall_forall in HJ. auto.
Qed.
Lemma triggs_block_wf (g1 g2 : R) Rv J b' p : triggs_block g1 g2 Rv J = Some b' ->
  wf_block p (Rv, J) -> wf_block p b' /\ length (fst b') = length Rv.
Proof.
  intros H Hwf. destruct (triggs_mask (dot Rv Rv) g2) eqn:HM.
  - destruct (triggs_block_some_inv g1 g2 Rv J b' H) as [_ H1]. specialize (H1 HM).
    rewrite triggs_block_on_mask in H by auto. inversion H; subst. now apply triggs_masked_value_wf.
  - rewrite triggs_block_off_mask in H by auto. now apply (fasttriggs_block_wf g1 Rv J b' p).
Qed.

Lemma fasttriggs_preserves_shape (rho1 : R -> R) (p : nat) (bs bs' : list blockR) :
  fasttriggs rho1 bs = Some bs' -> Forall (wf_block p) bs ->
  length bs' = length bs /\ Forall (wf_block p) bs'.
Proof.
  intros H Hwf. unfold fasttriggs in H. split; [exact (mapM_length _ bs bs' H)|].
  refine (mapM_Forall _ (wf_block p) (wf_block p) _ bs bs' H Hwf).
  intros [Rv J] b' Hb Hf. cbn [fst snd] in Hf. exact (proj1 (fasttriggs_block_wf _ Rv J b' p Hf Hb)).
Qed.
Lemma triggs_preserves_shape (rho1 rho2 : R -> R) (p : nat) (bs bs' : list blockR) :
  triggs rho1 rho2 bs = Some bs' -> Forall (wf_block p) bs ->
  length bs' = length bs /\ Forall (wf_block p) bs'.
Proof.
  intros H Hwf. unfold triggs in H. split; [exact (mapM_length _ bs bs' H)|].
  refine (mapM_Forall _ (wf_block p) (wf_block p) _ bs bs' H Hwf).
  intros [Rv J] b' Hb Hf. cbn [fst snd] in Hf. exact (proj1 (triggs_block_wf _ _ Rv J b' p Hf Hb)).
Qed.

(* ====================================================================== Triggs <> FastTriggs on the mask *)
Lemma triggs_differs_on_mask (g1 g2 : R) Rv J bT bF p l : wf_block p (Rv, J) -> (l < p)%nat ->
  triggs_mask (dot Rv Rv) g2 = true -> JtR (Rv, J) l <> 0 ->
  triggs_block g1 g2 Rv J = Some bT -> fasttriggs_block g1 Rv J = Some bF -> bT <> bF.
Proof.
  intros Hwf Hl HM Hne HT HF Heq. subst bF.
  pose proof (triggs_block_hess g1 g2 Rv J bT p l l HT Hwf Hl Hl) as H1. rewrite HM in H1.
  rewrite (fasttriggs_block_hess g1 Rv J bT HF l l) in H1.
  apply triggs_mask_true in HM as [_ H2].
  assert (0 < JtR (Rv, J) l * JtR (Rv, J) l) by nra. nra.
Qed.

(* ====================================================================== Huber: continuity everywhere *)
Lemma huber_continuous d p2 x : 0 < d -> continuous (fun t => kernel_f KHuber d p2 t) x.
Proof.
  intros Hd. apply (ex_derive_continuous (fun t => kernel_f KHuber d p2 t)).
  exists (kernel_d1 KHuber d p2 x). apply (huber_d1_correct d p2 x Hd).
Qed.

(* ====================================================================== witnesses *)
(* (1) the masked block of the history theorem, on the repaired code: rho = x^2, R = [2], J = [[1]]:
   Triggs returns; J'^T R' = 16 = rho' J^T R;  J'^T J' = 24 = rho' J^T J + 2 rho'' (J^T R)^2 = 8 + 16 *)
Lemma refute_blocks_wf : Forall (wf_block 1) refute_blocks.
Proof. constructor; [|constructor]. split; [reflexivity|]. constructor; [reflexivity|constructor]. Qed.
Lemma masked_witness :
  exists bs', triggs sq_rho1 sq_rho2 refute_blocks = Some bs' /\
    (forall b, In b refute_blocks -> triggs_mask (sqnorm b) (sq_rho2 (sqnorm b)) = true) /\
    bsum (fun b => JtR b 0%nat) bs' = 16 /\ bsum (fun b => JtJ b 0%nat 0%nat) bs' = 24 /\
    (forall bF, fasttriggs sq_rho1 refute_blocks = Some bF -> bsum (fun b => JtJ b 0%nat 0%nat) bF = 8).
Proof.
  assert (Hx : sqnorm (F:=R) ([2], [[1]]) = 4) by (unfold sqnorm; cbn; rnum; ring).
  assert (HM : forall b, In b refute_blocks -> triggs_mask (sqnorm b) (sq_rho2 (sqnorm b)) = true).
  { intros b [<-|[]]. apply triggs_mask_true. rewrite Hx. unfold sq_rho2. lra. }
  destruct (triggs_defined sq_rho1 sq_rho2 refute_blocks) as [bs' H].
  { intros b [<-|[]]. rewrite Hx. unfold sq_rho1. lra. }
  { intros b [<-|[]] _. rewrite Hx. unfold sq_rho1. lra. }
  exists bs'. split; [exact H|]. split; [exact HM|]. split; [now apply refute_witness_now|]. split.
  - rewrite (triggs_hess sq_rho1 sq_rho2 1 refute_blocks bs' H refute_blocks_wf 0%nat 0%nat) by lia.
    unfold triggs_hess_rhs, refute_blocks. cbn [fold_right]. rewrite (HM _ (or_introl eq_refl)).
    rewrite Hx. unfold sq_rho1, sq_rho2, JtJ, JtR. cbn. rnum. ring.
  - intros bF HF. rewrite (fasttriggs_hess sq_rho1 refute_blocks bF HF).
    unfold gn_hess, refute_blocks. cbn [fold_right]. rewrite Hx. unfold sq_rho1, JtJ. cbn. rnum. ring.
Qed.

(* (2) a user kernel whose curvature changes sign: rho(x) = x^3/6 - x^2/2 + x,
   rho' = ((x-1)^2 + 1)/2 > 0, rho'' = x - 1; a tensor (d = 2, p = 2) with one block in each regime:
   R = 0;  rho'' < 0 (|R|^2 = 1/2);  rho'' = 0 (|R|^2 = 1);  rho'' > 0 (|R|^2 = 2, the only masked block) *)
Definition mix_rho (x : R) := x * x * x / 6 - x * x / 2 + x.
Definition mix_rho1 (x : R) := ((x - 1) * (x - 1) + 1) / 2.
Definition mix_rho2 (x : R) := x - 1.
Lemma mix_rho_derivs x : is_derive mix_rho x (mix_rho1 x) /\ is_derive mix_rho1 x (mix_rho2 x).
Proof. split; unfold mix_rho, mix_rho1, mix_rho2; auto_derive; try exact I; field. Qed.
Lemma mix_rho1_pos x : 0 < mix_rho1 x.
Proof. unfold mix_rho1. nra. Qed.

Definition mix_J : list (list R) := [[1; 0]; [0; 1]].
Definition mix_blocks : list blockR :=
  [([0; 0], mix_J); ([/ 2; / 2], mix_J); ([1; 0], mix_J); ([1; 1], mix_J)].
Lemma mix_blocks_wf : Forall (wf_block 2) mix_blocks.
Proof. repeat constructor. Qed.
Lemma mix_sqnorms : map (sqnorm (F:=R)) mix_blocks = [0; / 2; 1; 2].
Proof.
  unfold mix_blocks, sqnorm. cbn [map fst dot]. rnum.
  replace (0 * 0 + (0 * 0 + 0)) with 0 by ring.
  replace (/ 2 * / 2 + (/ 2 * / 2 + 0)) with (/ 2) by field.
  replace (1 * 1 + (0 * 0 + 0)) with 1 by ring.
  replace (1 * 1 + (1 * 1 + 0)) with 2 by ring. reflexivity.
Qed.

Lemma mixed_regime_witness :
  exists bs', triggs mix_rho1 mix_rho2 mix_blocks = Some bs' /\
    map (fun b => triggs_mask (sqnorm b) (mix_rho2 (sqnorm b))) mix_blocks = [false; false; false; true] /\
    length bs' = 4%nat /\ Forall (wf_block 2) bs' /\
    (forall l, (l < 2)%nat -> bsum (fun b => JtR b l) bs' = robust_grad mix_rho1 mix_blocks l) /\
    (forall l m, (l < 2)%nat -> (m < 2)%nat ->
       bsum (fun b => JtJ b l m) bs' = gn_hess mix_rho1 mix_blocks l m + 2) /\
    triggs mix_rho1 mix_rho2 mix_blocks <> fasttriggs mix_rho1 mix_blocks.
Proof.
  pose proof mix_sqnorms as HS. unfold mix_blocks in HS. cbn [map] in HS.
  injection HS as H0 H1 H2 H3.
  assert (HMs : map (fun b => triggs_mask (sqnorm b) (mix_rho2 (sqnorm b))) mix_blocks
                = [false; false; false; true]).
  { unfold mix_blocks. cbn [map]. rewrite H0, H1, H2, H3. unfold mix_rho2.
    repeat f_equal; try (apply triggs_mask_false; lra). apply triggs_mask_true. lra. }
  destruct (triggs_defined mix_rho1 mix_rho2 mix_blocks) as [bs' H].
  { intros b _. left. apply mix_rho1_pos. }
  { intros b _ _. apply mix_rho1_pos. }
  exists bs'. split; [exact H|]. split; [exact HMs|].
  destruct (triggs_preserves_shape mix_rho1 mix_rho2 2 mix_blocks bs' H mix_blocks_wf) as [Hlen Hwf'].
  split; [exact Hlen|]. split; [exact Hwf'|]. split.
  { intros l Hl. exact (triggs_grad mix_rho1 mix_rho2 2 mix_blocks bs' H mix_blocks_wf l Hl). }
  assert (HH : forall l m, (l < 2)%nat -> (m < 2)%nat ->
            bsum (fun b => JtJ b l m) bs' = gn_hess mix_rho1 mix_blocks l m + 2).
  { intros l m Hl Hm. rewrite (triggs_hess mix_rho1 mix_rho2 2 mix_blocks bs' H mix_blocks_wf l m Hl Hm).
    unfold mix_blocks in HMs. cbn [map] in HMs. injection HMs as M0 M1 M2 M3.
    unfold triggs_hess_rhs, gn_hess, mix_blocks. cbn [fold_right]. rewrite M0, M1, M2, M3, H3.
    unfold mix_rho2, JtR, mix_J.
    destruct l as [|[|l]]; [| |lia]; (destruct m as [|[|m]]; [| |lia]); cbn; rnum; ring. }
  split; [exact HH|].
  intros Heq. rewrite H in Heq. symmetry in Heq.
  pose proof (fasttriggs_hess mix_rho1 mix_blocks bs' Heq 0%nat 0%nat) as HF.
  rewrite (HH 0%nat 0%nat) in HF by lia. lra.
Qed.

(* (3) the hypotheses of the derivative statements are met by the masked witness *)
Lemma newton_hypotheses_witness :
  (forall x, 0 <= x -> is_derive sq_rho x (sq_rho1 x)) /\
  (forall b, In b refute_blocks -> 0 <= sq_rho2 (sqnorm b)) /\
  (forall b, In b refute_blocks -> is_derive sq_rho1 (sqnorm b) (sq_rho2 (sqnorm b))) /\
  Forall2 (tangent_to 0) refute_blocks (map (fun b => lin_path (fst b) (col (snd b) 0)) refute_blocks).
Proof.
  split; [intros x _; apply sq_rho_derivs|]. split; [intros b _; unfold sq_rho2; lra|].
  split; [intros b _; apply sq_rho_derivs|]. apply (tangent_paths_exist 1). exact refute_blocks_wf.
Qed.
