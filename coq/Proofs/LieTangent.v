(* C05: defining identities of Adj, AdjT, Retr, +, Jr on the models (over R). *)
From Coq Require Import Reals Lra Psatz List Nsatz.
Import ListNotations.
From PV Require Import Base.Num Base.RTac Model.LieGroup Model.LieExp Model.LieLog Model.LieJac Model.LieTangent
  Proofs.LieGroup Proofs.LieExp Proofs.LieLog.
Local Open Scope R_scope.
#[local] Remove Hints NumQ NumZ : typeclass_instances.

(* rotations preserve the norm, so X Exp(a) and Exp(Adj a) X use the same branch of Exp *)
Lemma rot_dot (X : quatR) (a : vec3R) : unitq X -> vdot (SO3_AdjXa X a) (SO3_AdjXa X a) = vdot a a.
Proof.
  unfold unitq. destruct X as [[[x y] z] w], a as [[a1 a2] a3]. lie_unfold. intros H. nsatz.
Qed.
Lemma rot_norm (X : quatR) (a : vec3R) : unitq X -> vnorm (SO3_AdjXa X a) = vnorm a.
Proof. intros H. unfold vnorm. now rewrite rot_dot. Qed.

(* conjugation with arbitrary coefficients: X (k a, c) = (k R a, c) X *)
Lemma conj_kc (X : quatR) (a : vec3R) (k c : R) : unitq X ->
  SO3_mul X (vscale k a, c) = SO3_mul (vscale k (SO3_AdjXa X a), c) X.
Proof.
  unfold unitq. destruct X as [[[x y] z] w], a as [[a1 a2] a3]. lie_unfold. intros H.
  split_pairs; nsatz.
Qed.

(* X @ Exp(a) = Exp(Adj(X, a)) @ X  for the modelled Exp, every a (both branches), unit X *)
Theorem adj_identity_SO3 (eps : R) (X : quatR) (a : vec3R) : unitq X ->
  SO3_mul X (so3_exp eps a) = SO3_mul (so3_exp eps (SO3_AdjXa X a)) X.
Proof.
  intros Hu. unfold so3_exp. rewrite rot_norm by assumption. apply conj_kc. assumption.
Qed.

Lemma AdjXa_inv (X : quatR) (a : vec3R) : unitq X -> SO3_AdjXa X (SO3_AdjXa (SO3_inv X) a) = a.
Proof.
  unfold unitq. destruct X as [[[x y] z] w], a as [[a1 a2] a3]. lie_unfold. intros H.
  split_pairs; nsatz.
Qed.
(* Exp(a) @ X = X @ Exp(AdjT(X, a)) *)
Theorem adjT_identity_SO3 (eps : R) (X : quatR) (a : vec3R) : unitq X ->
  SO3_mul (so3_exp eps a) X = SO3_mul X (so3_exp eps (SO3_AdjTXa X a)).
Proof.
  intros Hu. unfold SO3_AdjTXa. rewrite (adj_identity_SO3 eps X _ Hu), AdjXa_inv by assumption. reflexivity.
Qed.

(* Exp(-a) = Inv(Exp(a)): a rejected LM trial is undone exactly (used by C08's retract_undo) *)
Lemma so3_exp_neg (eps : R) (a : vec3R) : so3_exp eps (vneg a) = SO3_inv (so3_exp eps a).
Proof.
  unfold so3_exp. rewrite vnorm_neg. generalize (so3_exp_coef eps (vnorm a)). intros [k c]. cbn [fst snd].
  destruct a as [[a1 a2] a3]. lie_unfold. split_pairs; ring.
Qed.

(* Retr and + on groups, on the list interface: Retr(X, a) = Exp(a) @ X; components of the added
   tensor beyond the manifold dimension are ignored; algebra + is plain vector addition *)
Lemma retr_is_exp_mul (eps : R) g X a : retr_l eps g X a = g_mul g (exp_l eps g a) X.
Proof. reflexivity. Qed.
Lemma add_group_ignores_tail (eps : R) g X other tail : length other = adim g ->
  add_group_l eps g X (other ++ tail) = retr_l eps g X other.
Proof.
  intros H. unfold add_group_l, retr_l. f_equal. f_equal. rewrite firstn_app, H, Nat.sub_diag. cbn [firstn].
  rewrite app_nil_r. rewrite <- H. apply firstn_all.
Qed.
Lemma add_alg_ignores_tail g x other tail : length other = adim g -> length x = adim g ->
  add_alg_l (F:=R) g x (other ++ tail) = ladd x other.
Proof.
  intros H Hx. unfold add_alg_l. f_equal. rewrite firstn_app, H, Nat.sub_diag. cbn [firstn].
  rewrite app_nil_r. rewrite <- H. apply firstn_all.
Qed.

(* Jr: the identity at (and near) zero, and Jl(-x) on the closed-form branch *)
Lemma Jr_zero (eps : R) : 0 <= eps -> so3_Jr eps [0; 0; 0] = lid 3.
Proof.
  intros He. unfold so3_Jr. replace (ltb eps (vnorm (l_v3 [0; 0; 0]))) with false; [reflexivity|].
  symmetry. cbn [ltb NumR]. apply Rltb_false. unfold vnorm, l_v3. cbn [nth]. lie_unfold. num_simpl.
  replace (0 * 0 + 0 * 0 + 0 * 0) with 0 by ring. rewrite sqrt_0. exact He.
Qed.
Lemma Jr_is_Jl_neg (eps : R) (x : vec3R) : 0 <= eps -> eps < vnorm x ->
  so3_Jr eps (v3_l x) = m3rows (so3_Jl eps (vneg x)).
Proof.
  intros He H. unfold so3_Jr, so3_Jl, so3_Jl_coef. rewrite vnorm_neg.
  replace (l_v3 (v3_l x)) with x by (destruct x as [[a b] c]; reflexivity).
  repeat match goal with |- context [ltb eps (vnorm x)] =>
    replace (ltb eps (vnorm x)) with true by (symmetry; cbn; now apply Rltb_true) end.
  cbn [fst snd]. set (t := vnorm x) in *. assert (Ht : t <> 0) by lra. clearbody t. f_equal.
  destruct x as [[a b] c]. lie_unfold. num_simpl. split_pairs; field; auto.
Qed.

(* RxSO3: the scale part commutes, the rotation part is the SO3 identity *)
Theorem adj_identity_RxSO3 (eps : R) (X : rxso3R) (a : vec3R * R) : unitq (fst X) ->
  RxSO3_mul X (rxso3_exp eps a) = RxSO3_mul (rxso3_exp eps (RxSO3_AdjXa X a)) X.
Proof.
  intros Hu. unfold RxSO3_mul, rxso3_exp, RxSO3_AdjXa. cbn [fst snd].
  apply pair_eq; [apply adj_identity_SO3; assumption | num_simpl; ring].
Qed.
Theorem adjT_identity_RxSO3 (eps : R) (X : rxso3R) (a : vec3R * R) : unitq (fst X) ->
  RxSO3_mul (rxso3_exp eps a) X = RxSO3_mul X (rxso3_exp eps (RxSO3_AdjTXa X a)).
Proof.
  intros Hu. unfold RxSO3_mul, rxso3_exp, RxSO3_AdjTXa, RxSO3_AdjXa, RxSO3_inv. cbn [fst snd].
  apply pair_eq; [apply adjT_identity_SO3; assumption | num_simpl; ring].
Qed.
