(* C12, "every dimension": a tensor scanned along [dim] is a list of L slices; the user operation acts on whole
   slices (batched, item by item: [zipop op]).  The scan over slices returns, in every fibre j (one position
   inside the slices = one multi-index of the other dimensions), the sequential fold of that fibre. *)
From Coq Require Import List Arith Lia PeanoNat.
Import ListNotations.
From PV Require Import Base.ListAux Model.Cumops Proofs.Cumops.

Section Dim.
Variable A : Type.
Variable op : A -> A -> A.
Hypothesis op_assoc : forall a b c, op (op a b) c = op a (op b c).
Variable d : A.

Lemma zipop_assoc : forall a b c : list A, zipop op (zipop op a b) c = zipop op a (zipop op b c).
Proof.
  induction a as [|x a IH]; destruct b as [|y b]; destruct c as [|z c]; cbn; auto.
  now rewrite op_assoc, IH.
Qed.

Definition fibre (x : list (list A)) (j : nat) : list A := map (fun s => nth j s d) x.

(* fold of slices, read at position j = fold of fibre j  (all slices have width w, j < w) *)
Lemma prefix_fibre (w : nat) (x : list (list A)) : Forall (fun s => length s = w) x ->
  forall i j, i < length x -> j < w ->
  length (prefix (list A) (zipop op) [] x i) = w /\
  nth j (prefix (list A) (zipop op) [] x i) d = prefix A op d (fibre x j) i.
Proof.
  intros Hw i. induction i as [|i IH]; intros j Hi Hj.
  - unfold prefix. cbn. assert (Hl : length (nth 0 x []) = w).
    { rewrite Forall_forall in Hw. apply Hw. apply nth_In. lia. }
    split; [exact Hl|]. unfold fibre. rewrite (nth_indep (map (fun s => nth j s d) x) d (nth j [] d)) by (rewrite map_length; lia).
    now rewrite (map_nth (fun s => nth j s d) x [] 0).
  - destruct (IH j ltac:(lia) Hj) as [Hl Hn].
    assert (Hs : length (nth (S i) x []) = w).
    { rewrite Forall_forall in Hw. apply Hw. apply nth_In. lia. }
    unfold prefix in *. cbn. split.
    + rewrite (zipop_length A op). rewrite Hl, Hs. lia.
    + rewrite (zipop_nth A op d) by lia. rewrite Hn. f_equal.
      unfold fibre. rewrite (nth_indep (map (fun s => nth j s d) x) d (nth j [] d)) by (rewrite map_length; lia).
      now rewrite (map_nth (fun s => nth j s d) x [] (S i)).
Qed.

Theorem cumops_along_dim (w : nat) (x : list (list A)) : 1 <= length x -> Forall (fun s => length s = w) x ->
  exists r, cumops_model (zipop op) x = Some r /\ length r = length x /\
            forall i j, i < length x -> j < w ->
              length (nth i r []) = w /\ nth j (nth i r []) d = prefix A op d (fibre x j) i.
Proof.
  intros HL Hw.
  destruct (cumops_correct (list A) (zipop op) zipop_assoc [] x HL) as (r & H1 & H2 & H3).
  exists r. split; [exact H1|]. split; [exact H2|]. intros i j Hi Hj. rewrite H3 by assumption.
  now apply (prefix_fibre w).
Qed.
End Dim.
