(* C19 (geodesic loss, part 2): the value of geodesic_loss IS the rotation angle of the relative
   rotation, for EVERY pair of unit quaternions and all three regimes of SO3_Log:
   [rot_angle q] is the unique angle in [0, pi] whose cosine is (trace R(q) - 1) / 2; the model's
   |Log q| equals it exactly in the generic regime and is within 3 eps of it in the angle-pi regime
   (where the code returns pi) and in the near-identity regime (cubic Taylor polynomial of 2 atan). *)
From Coq Require Import Reals Lra Psatz List ZArith Lia.
From Coquelicot Require Import Coquelicot.
From Interval Require Import Tactic.
Import ListNotations.
From PV Require Import Base.Num Base.RTac Base.ListAux Model.LieGroup Model.LieExp Model.LieLog Model.Spline Model.Metric
  Proofs.LieGroup Proofs.LieExp Proofs.LieLog Proofs.LieLog2 Proofs.LieLog4 Proofs.Spline Proofs.Metric Proofs.Spline2.
Local Open Scope R_scope.
#[local] Remove Hints NumQ NumZ : typeclass_instances.

Lemma atan_le_x (x : R) : 0 <= x -> atan x <= x.
Proof.
  intros Hx. destruct (Req_dec x 0) as [->|Hx0]; [rewrite atan_0; lra|].
  assert (Hp : 0 < x) by lra.
  destruct (MVT_gen (fun y => y - atan y) 0 x (fun y => 1 - / (1 + y ^ 2))) as (c & Hc & E).
  - intros y _. auto_derive; [auto|]. field. nra.
  - intros y _. apply derivable_continuous_pt. apply ex_derive_Reals_0. auto_derive. auto.
  - rewrite atan_0 in E. rewrite !Rminus_0_r in E.
    assert (0 <= 1 - / (1 + c ^ 2)).
    { assert (H1 : 1 <= 1 + c ^ 2) by (assert (0 <= c ^ 2) by (apply pow2_ge_0); lra).
      assert (/ (1 + c ^ 2) <= 1) by (rewrite <- Rinv_1; apply Rinv_le_contravar; lra). lra. }
    assert (0 <= (1 - / (1 + c ^ 2)) * x) by (apply Rmult_le_pos; lra). lra.
Qed.

(* ------------------------------------------------------------------ THE rotation angle of a unit quaternion *)
Definition rot_angle (q : quatR) : R :=
  match Req_EM_T (qw q) 0 with
  | left _ => PI
  | right _ => 2 * atan (vnorm (qv q) / Rabs (qw q)) end.

Lemma rot_angle_spec (q : quatR) : unitq q ->
  0 <= rot_angle q <= PI /\ cos (rot_angle q) = (m3trace (SO3_matrix q) - 1) / 2.
Proof.
  intros Hu. rewrite trace_SO3_matrix by assumption. pose proof (unitq_prod q Hu) as Hp.
  pose proof (vnorm_nonneg (qv q)) as Hn. pose proof PI_RGT_0 as Hpi.
  unfold rot_angle. destruct (Req_EM_T (qw q) 0) as [E|E].
  - rewrite E, cos_PI. split; lra.
  - set (vn := vnorm (qv q)) in *. set (aw := Rabs (qw q)).
    assert (Haw : 0 < aw) by (now apply Rabs_pos_lt).
    assert (Haw2 : aw * aw = qw q * qw q) by (unfold aw; rewrite <- Rabs_mult; apply Rabs_pos_eq; nra).
    destruct (unit_atan0 vn aw Hn Haw ltac:(lra)) as [_ Hc].
    pose proof (atan_bound (vn / aw)) as Hb.
    assert (H0 : 0 <= atan (vn / aw)).
    { destruct Hn as [Hn|<-].
      - left. rewrite <- atan_0. apply atan_increasing. now apply Rdiv_lt_0_compat.
      - unfold Rdiv. rewrite Rmult_0_l, atan_0. lra. }
    split; [lra|]. rewrite cos_2a_cos, Hc. lra.
Qed.
(* ... and it is the only angle in [0, pi] with that cosine *)
Lemma angle_unique (a b : R) : 0 <= a <= PI -> 0 <= b <= PI -> cos a = cos b -> a = b.
Proof.
  intros Ha Hb E. destruct (Rtotal_order a b) as [H|[H|H]]; [|assumption|].
  - pose proof (cos_decreasing_1 a b ltac:(lra) ltac:(lra) ltac:(lra) ltac:(lra) H). lra.
  - pose proof (cos_decreasing_1 b a ltac:(lra) ltac:(lra) ltac:(lra) ltac:(lra) H). lra.
Qed.

(* ------------------------------------------------------------------ |Log q| against the rotation angle *)
Lemma SO3_log_norm_generic_is_angle (eps : R) (q : quatR) : 0 <= eps -> eps < vnorm (qv q) -> eps < Rabs (qw q) ->
  vnorm (SO3_log eps q) = rot_angle q.
Proof.
  intros He Hv Hw. rewrite SO3_log_norm_abs by assumption. unfold rot_angle.
  destruct (Req_EM_T (qw q) 0) as [E|E]; [|reflexivity]. rewrite E, Rabs_R0 in Hw. lra.
Qed.

Lemma SO3_log_norm_angle_err (eps : R) (q : quatR) : 0 <= eps <= 1 / 2 -> unitq q ->
  Rabs (vnorm (SO3_log eps q) - rot_angle q) <= 3 * eps.
Proof.
  intros [He He2] Hu. pose proof (unitq_prod q Hu) as Hp. pose proof (vnorm_nonneg (qv q)) as Hn.
  destruct (Rlt_or_le eps (vnorm (qv q))) as [Hv|Hv].
  - destruct (Rlt_or_le eps (Rabs (qw q))) as [Hw|Hw].
    + rewrite SO3_log_norm_generic_is_angle by assumption. rewrite Rminus_diag_eq, Rabs_R0 by reflexivity. lra.
    + rewrite SO3_log_norm_regime2 by assumption. unfold rot_angle.
      destruct (Req_EM_T (qw q) 0) as [E|E]; [rewrite Rminus_diag_eq, Rabs_R0 by reflexivity; lra|].
      set (vn := vnorm (qv q)) in *. set (aw := Rabs (qw q)) in *.
      assert (Haw : 0 < aw) by (now apply Rabs_pos_lt).
      assert (Haw2 : aw * aw = qw q * qw q) by (unfold aw; rewrite <- Rabs_mult; apply Rabs_pos_eq; nra).
      assert (Hvn : 2 / 3 <= vn) by nra.
      assert (Hx : 0 < vn / aw) by (apply Rdiv_lt_0_compat; lra).
      pose proof (atan_inv (vn / aw) Hx) as Hi.
      replace (/ (vn / aw)) with (aw / vn) in Hi by (field; lra).
      assert (Ht : 0 <= aw / vn) by (apply Rmult_le_pos; [lra|left; apply Rinv_0_lt_compat; lra]).
      pose proof (atan_le_x (aw / vn) Ht) as Hle.
      assert (H0 : 0 <= atan (aw / vn)).
      { destruct Ht as [Ht|<-]; [left; rewrite <- atan_0; now apply atan_increasing|rewrite atan_0; lra]. }
      assert (Hq : aw / vn <= 3 / 2 * eps).
      { apply (Rmult_le_reg_r vn); [lra|]. unfold Rdiv. rewrite Rmult_assoc, Rinv_l by lra. nra. }
      replace (PI - 2 * atan (vn / aw)) with (2 * atan (aw / vn)) by lra.
      rewrite Rabs_pos_eq by lra. lra.
  - (* near the identity *)
    unfold rot_angle. destruct (Req_EM_T (qw q) 0) as [E|E]; [rewrite E in Hp; nra|].
    unfold SO3_log, SO3_log_factor.
    replace (ltb eps (vnorm (qv q))) with false by (symmetry; cbn; apply Rltb_false; exact Hv).
    rewrite vnorm_scale.
    set (vn := vnorm (qv q)) in *. clearbody vn. set (w := qw q) in *. clearbody w. num_simpl.
    set (aw := Rabs w).
    assert (Haw : 0 < aw) by (now apply Rabs_pos_lt).
    assert (Haw2 : aw * aw = w * w) by (unfold aw; rewrite <- Rabs_mult; apply Rabs_pos_eq; nra).
    assert (Haw34 : 3 / 4 <= aw) by nra.
    set (t := vn / aw).
    assert (Ht0 : 0 <= t) by (apply Rmult_le_pos; [lra|left; now apply Rinv_0_lt_compat]).
    assert (Ht1 : t <= 4 / 3 * eps).
    { apply (Rmult_le_reg_r aw); [lra|]. unfold t, Rdiv. rewrite Rmult_assoc, Rinv_l by lra. nra. }
    assert (Hm : Rabs (IZR 2 * (1 / w - vn * vn / (IZR 3 * (w * w * w)))) * vn = 2 * (t - t ^ 3 / 3)).
    { rewrite <- (Rabs_pos_eq vn) at 3 by assumption. rewrite <- Rabs_mult.
      assert (Hpos : 0 <= 2 * (t - t ^ 3 / 3)).
      { assert (t * t <= 1) by nra. assert (t ^ 3 <= t) by (replace (t ^ 3) with (t * (t * t)) by ring; nra). lra. }
      destruct (Rlt_or_le 0 w) as [Hw|Hw].
      - replace (IZR 2 * (1 / w - vn * vn / (IZR 3 * (w * w * w))) * vn) with (2 * (t - t ^ 3 / 3)).
        + now apply Rabs_pos_eq.
        + unfold t, aw. rewrite Rabs_pos_eq by lra. field. lra.
      - replace (IZR 2 * (1 / w - vn * vn / (IZR 3 * (w * w * w))) * vn) with (- (2 * (t - t ^ 3 / 3))).
        + rewrite Rabs_Ropp. now apply Rabs_pos_eq.
        + unfold t, aw. rewrite Rabs_left by lra. field. lra. }
    rewrite Hm. fold t. pose proof (atan_cubic_bound t Ht0) as [Hlo Hhi].
    assert (Ht5 : t ^ 5 <= eps).
    { replace (t ^ 5) with (t * ((t * t) * (t * t))) by ring.
      assert (Htt : 0 <= t * t <= 4 / 9) by nra.
      assert (0 <= (t * t) * (t * t) <= 16 / 81) by nra. nra. }
    apply Rabs_le. lra.
Qed.

(* ------------------------------------------------------------------ geodesic_loss is the rotation angle *)
Definition geodesic_angle (x y : quatR) : R := rot_angle (SO3_mul x (SO3_inv y)).

Theorem geodesic_theta_is_angle_all (eps : R) (x y : quatR) : 0 <= eps <= 1 / 2 -> unitq x -> unitq y ->
  let q := SO3_mul x (SO3_inv y) in
  (0 <= geodesic_angle x y <= PI /\ cos (geodesic_angle x y) = (m3trace (SO3_matrix q) - 1) / 2) /\
  Rabs (geodesic_theta eps x y - geodesic_angle x y) <= 3 * eps /\
  (eps < vnorm (qv q) -> eps < Rabs (qw q) -> geodesic_theta eps x y = geodesic_angle x y).
Proof.
  intros He Hx Hy q.
  assert (Hq : unitq q) by (apply unitq_mul; [assumption|now apply unitq_inv]).
  split; [now apply rot_angle_spec|]. split.
  - now apply SO3_log_norm_angle_err.
  - intros Hv Hw. apply SO3_log_norm_generic_is_angle; [lra|assumption|assumption].
Qed.

(* under each reduction: 'none' entry-wise, 'mean' and 'sum' of the angles *)
Definition reduceR (red : reduction) (l : list R) : list R :=
  match red with Rnone => l | Rmean => [lsum l / lenF l] | Rsum => [lsum l] end.
Lemma geodesic_loss_reduce eps red xs ys :
  geodesic_loss eps red xs ys = reduceR red (map (fun p => geodesic_theta eps (fst p) (snd p)) (combine xs ys)).
Proof. now destruct red. Qed.
Definition geodesic_angles (xs ys : list quatR) : list R :=
  map (fun p => geodesic_angle (fst p) (snd p)) (combine xs ys).

Lemma lsum_close (c : R) (l : list (quatR * quatR)) (f g : quatR * quatR -> R) :
  (forall p, In p l -> Rabs (f p - g p) <= c) ->
  Rabs (lsum (map f l) - lsum (map g l)) <= INR (length l) * c.
Proof.
  induction l as [|p l IH]; intros H.
  - cbn. rewrite Rminus_diag_eq, Rabs_R0 by reflexivity. lra.
  - cbn [map length]. change (lsum (f p :: map f l)) with (f p + lsum (map f l)).
    change (lsum (g p :: map g l)) with (g p + lsum (map g l)). rewrite S_INR.
    pose proof (H p ltac:(now left)) as Hp. pose proof (IH ltac:(intros r Hr; apply H; now right)) as Hl.
    replace (f p + lsum (map f l) - (g p + lsum (map g l))) with ((f p - g p) + (lsum (map f l) - lsum (map g l))) by ring.
    eapply Rle_trans; [apply Rabs_triang|]. lra.
Qed.

Theorem geodesic_loss_is_angle (eps : R) red (xs ys : list quatR) :
  0 <= eps <= 1 / 2 -> Forall unitq xs -> Forall unitq ys -> combine xs ys <> [] ->
  Forall2 (fun v a => Rabs (v - a) <= match red with Rsum => INR (length (combine xs ys)) * (3 * eps) | _ => 3 * eps end)
          (geodesic_loss eps red xs ys) (reduceR red (geodesic_angles xs ys)).
Proof.
  intros He Hx Hy Hne. rewrite geodesic_loss_reduce. unfold geodesic_angles.
  set (l := combine xs ys) in *.
  assert (Hl : forall p, In p l -> Rabs (geodesic_theta eps (fst p) (snd p) - geodesic_angle (fst p) (snd p)) <= 3 * eps).
  { intros [x y] Hin. rewrite Forall_forall in Hx, Hy. cbn [fst snd].
    apply (geodesic_theta_is_angle_all eps x y He); [apply Hx; eapply in_combine_l; eauto|apply Hy; eapply in_combine_r; eauto]. }
  pose proof (lsum_close (3 * eps) l _ _ Hl) as Hs.
  destruct red; cbn [reduceR].
  - clear Hs Hne. induction l as [|p l IH]; [constructor|]. cbn [map]. constructor.
    + apply Hl. now left.
    + apply IH. intros r Hr. apply Hl. now right.
  - constructor; [|constructor]. rewrite !lenF_R, !map_length.
    assert (Hn : 1 <= INR (length l)).
    { destruct l; [congruence|]. cbn [length]. rewrite S_INR. pose proof (pos_INR (length l)). lra. }
    num_unfold. unfold Rdiv. rewrite <- Rmult_minus_distr_r, Rabs_mult.
    rewrite (Rabs_pos_eq (/ INR (length l))) by (left; apply Rinv_0_lt_compat; lra).
    apply (Rmult_le_reg_r (INR (length l))); [lra|]. rewrite Rmult_assoc, Rinv_l by lra. lra.
  - constructor; [|constructor]. exact Hs.
Qed.

(* non-vacuity / sharpness: a pair at angle exactly pi (regime 2) and a generic pair *)
Lemma geodesic_angle_examples :
  geodesic_angle ((1, 0, 0), 0) SO3_id = PI /\
  geodesic_angle ((3 / 5, 0, 0), 4 / 5) SO3_id = 2 * atan (3 / 4).
Proof.
  unfold geodesic_angle, rot_angle. split.
  - replace (qw (SO3_mul ((1, 0, 0), 0) (SO3_inv SO3_id))) with 0 by (lie_unfold; ring).
    destruct (Req_EM_T 0 0); [reflexivity|congruence].
  - replace (SO3_mul ((3 / 5, 0, 0), 4 / 5) (SO3_inv SO3_id)) with (((3 / 5, 0, 0), 4 / 5) : quatR)
      by (lie_unfold; split_pairs; ring).
    cbn [qw qv fst snd]. destruct (Req_EM_T (4 / 5) 0); [lra|].
    rewrite vnorm_x00, !Rabs_pos_eq by lra. do 2 f_equal. field.
Qed.
