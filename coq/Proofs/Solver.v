(* C10, solvers: list linear algebra over R; the CG invariants (residual recursion, exit soundness,
   zero right-hand side, squared-norm variant, one-pass trace); the direct-solver wrappers under
   explicit oracle contracts; the refutation of the Cholesky failure clause. *)
From Coq Require Import Reals Lra List Arith Lia Bool ZArith Psatz.
Import ListNotations.
From PV Require Import Base.Num Base.RTac Model.Solver.
Local Open Scope R_scope.
#[local] Remove Hints NumQ NumZ : typeclass_instances.

Notation vecR := (vec (F:=R)).
Notation matR := (mat (F:=R)).
Notation dotR := (dot (F:=R)).
Notation mvR := (mv (F:=R)).
Notation vaddR := (vadd (F:=R)).
Notation vsubR := (vsub (F:=R)).
Notation vscaleR := (vscale (F:=R)).

(* ------------------------------------------------------------------------------------------ *)
(* list algebra *)
Lemma vmap2_length (f : R -> R -> R) : forall u v : vecR, length (vmap2 f u v) = Nat.min (length u) (length v).
Proof. induction u as [|a u IH]; intros [|b v]; cbn; auto. Qed.
Lemma vadd_length (u v : vecR) : length (vaddR u v) = Nat.min (length u) (length v).
Proof. apply vmap2_length. Qed.
Lemma vsub_length (u v : vecR) : length (vsubR u v) = Nat.min (length u) (length v).
Proof. apply vmap2_length. Qed.
Lemma vscale_length a (v : vecR) : length (vscaleR a v) = length v.
Proof. apply map_length. Qed.
Lemma mv_length (A : matR) x : length (mvR A x) = length A.
Proof. apply map_length. Qed.

Lemma dot_nil_r (u : vecR) : dotR u [] = 0.
Proof. destruct u; reflexivity. Qed.
Lemma dot_comm : forall u v : vecR, dotR u v = dotR v u.
Proof. induction u as [|a u IH]; intros [|b v]; cbn; auto. rewrite IH. num_unfold. ring. Qed.
Lemma dot_add_r : forall x y z : vecR, length y = length z -> dotR x (vaddR y z) = dotR x y + dotR x z.
Proof.
  induction x as [|a x IH]; intros [|b y] [|c z] H; cbn in *; try discriminate; num_unfold; try ring.
  rewrite IH by lia. num_unfold. ring.
Qed.
Lemma dot_sub_r : forall x y z : vecR, length y = length z -> dotR x (vsubR y z) = dotR x y - dotR x z.
Proof.
  induction x as [|a x IH]; intros [|b y] [|c z] H; cbn in *; try discriminate; num_unfold; try ring.
  rewrite IH by lia. num_unfold. ring.
Qed.
Lemma dot_scale_r a : forall x y : vecR, dotR x (vscaleR a y) = a * dotR x y.
Proof.
  induction x as [|b x IH]; intros [|c y]; cbn; num_unfold; try ring.
  unfold vscale in IH. rewrite IH. num_unfold. ring.
Qed.
Lemma dot_add_l (x y z : vecR) : length y = length z -> dotR (vaddR y z) x = dotR y x + dotR z x.
Proof. intros. rewrite !(dot_comm _ x). now apply dot_add_r. Qed.
Lemma dot_sub_l (x y z : vecR) : length y = length z -> dotR (vsubR y z) x = dotR y x - dotR z x.
Proof. intros. rewrite !(dot_comm _ x). now apply dot_sub_r. Qed.
Lemma dot_scale_l a (x y : vecR) : dotR (vscaleR a y) x = a * dotR y x.
Proof. rewrite !(dot_comm _ x). apply dot_scale_r. Qed.
Lemma dot_self_nonneg : forall v : vecR, 0 <= dotR v v.
Proof. induction v as [|a v IH]; cbn; num_unfold; [lra|]. nra. Qed.
Lemma dot_self_zero : forall v : vecR, dotR v v = 0 -> Forall (fun t => t = 0) v.
Proof.
  induction v as [|a v IH]; cbn; intros H; [constructor|].
  pose proof (dot_self_nonneg v) as Hv. pose proof (Rle_0_sqr a) as Ha. unfold Rsqr in Ha. num_unfold.
  assert (Ha0 : a * a = 0) by lra. constructor.
  - destruct (Rmult_integral _ _ Ha0); auto.
  - apply IH. lra.
Qed.
Lemma dot_zero_r : forall x v : vecR, Forall (fun t => t = 0) v -> dotR x v = 0.
Proof.
  induction x as [|a x IH]; intros [|b v] H; cbn; auto. inversion H; subst. rewrite IH by auto. num_unfold. ring.
Qed.
Lemma dot_zero_l (x v : vecR) : Forall (fun t => t = 0) v -> dotR v x = 0.
Proof. rewrite dot_comm. apply dot_zero_r. Qed.

Lemma mv_add (A : matR) (y z : vecR) : length y = length z -> mvR A (vaddR y z) = vaddR (mvR A y) (mvR A z).
Proof. intros H. induction A as [|r A IH]; cbn; auto. rewrite dot_add_r by auto. f_equal. apply IH. Qed.
Lemma mv_sub (A : matR) (y z : vecR) : length y = length z -> mvR A (vsubR y z) = vsubR (mvR A y) (mvR A z).
Proof. intros H. induction A as [|r A IH]; cbn; auto. rewrite dot_sub_r by auto. f_equal. apply IH. Qed.
Lemma mv_scale (A : matR) a (y : vecR) : mvR A (vscaleR a y) = vscaleR a (mvR A y).
Proof. induction A as [|r A IH]; cbn; auto. rewrite dot_scale_r. f_equal. apply IH. Qed.
Lemma mv_zero (A : matR) (x : vecR) : Forall (fun t => t = 0) x -> Forall (fun t => t = 0) (mvR A x).
Proof. intros H. induction A as [|r A IH]; cbn; constructor; auto. now apply dot_zero_r. Qed.

Lemma vsub_zero_r : forall b z : vecR, length b = length z -> Forall (fun t => t = 0) z -> vsubR b z = b.
Proof.
  induction b as [|a b IH]; intros [|c z] H Hz; cbn in *; try discriminate; auto.
  inversion Hz; subst. rewrite IH by (auto; lia). f_equal. num_unfold. ring.
Qed.
(* (b - u) - a q = b - (u + a q) *)
Lemma vsub_vsub_scale a : forall b u q : vecR, length b = length u -> length u = length q ->
  vsubR (vsubR b u) (vscaleR a q) = vsubR b (vaddR u (vscaleR a q)).
Proof.
  induction b as [|b0 b IH]; intros [|u0 u] [|q0 q] H1 H2; cbn in *; try discriminate; auto.
  f_equal; [num_unfold; ring|]. apply IH; lia.
Qed.

(* the Euclidean norm: torch.linalg.norm(v, dim=0) of an n x 1 column *)
Definition norm2 (v : vecR) : R := sqrt (dotR v v).
Lemma norm2_zero_iff v : norm2 v = 0 <-> dotR v v = 0.
Proof.
  unfold norm2. split; intros H.
  - apply sqrt_eq_0; auto. apply dot_self_nonneg.
  - rewrite H. apply sqrt_0.
Qed.
Lemma norm2_lt_iff tol (r b : vecR) : 0 <= tol -> (norm2 r < tol * norm2 b <-> dotR r r < (tol * tol) * dotR b b).
Proof.
  intros Ht. unfold norm2. pose proof (dot_self_nonneg r) as Hr. pose proof (dot_self_nonneg b) as Hb.
  assert (E : tol * sqrt (dotR b b) = sqrt ((tol * tol) * dotR b b)).
  { rewrite sqrt_mult by nra. rewrite sqrt_square by auto. reflexivity. }
  rewrite E. split; intros H.
  - apply sqrt_lt_0_alt in H; auto.
  - apply sqrt_lt_1_alt. split; auto.
Qed.

(* ------------------------------------------------------------------------------------------ *)
(* CG *)
Section CGProofs.
Variable n : nat.
Variable A : matR.
Variable M : option matR.
Variable b : vecR.
Hypothesis HA : length A = n.
Hypothesis Hb : length b = n.
Hypothesis HM : forall Mm, M = Some Mm -> length Mm = n.

Definition cg_state := (vecR * vecR * cg_prev (F:=R))%type.
(* the loop invariant: shapes, and the recursively updated r is the true residual *)
Definition cg_inv (s : cg_state) : Prop :=
  let '(x, r, prev) := s in
  length x = n /\ r = vsubR b (mvR A x) /\ (forall p rho, prev = Some (p, rho) -> length p = n).

Lemma cg_inv_length_r x r prev : cg_inv (x, r, prev) -> length r = n.
Proof. intros (Hx & Hr & _). subst r. rewrite vsub_length, mv_length. lia. Qed.

Lemma cg_body_inv x r prev x' r' pr :
  cg_inv (x, r, prev) -> cg_body A M x r prev = Some (x', r', pr) -> cg_inv (x', r', Some pr).
Proof.
  intros Hinv Hbody. pose proof (cg_inv_length_r _ _ _ Hinv) as Hlr. destruct Hinv as (Hx & Hr & Hp).
  unfold cg_body in Hbody.
  set (z := match M with Some Mm => mv Mm r | None => r end) in *.
  assert (Hz : length z = n).
  { unfold z. destruct M as [Mm|] eqn:E; auto. rewrite mv_length. now apply HM. }
  match type of Hbody with match ?po with _ => _ end = _ => destruct po as [p|] eqn:Epo end; [|discriminate].
  assert (Hlp : length p = n).
  { destruct prev as [[p0 rho0]|].
    - destruct (divo _ rho0) as [beta|]; [|discriminate]. inversion Epo; subst p.
      rewrite vadd_length, vscale_length, (Hp p0 rho0 eq_refl). lia.
    - inversion Epo; subst; auto. }
  destruct (divo _ (dot p (mv A p))) as [alpha|]; [|discriminate].
  inversion Hbody; subst x' r' pr. clear Hbody. cbn.
  split; [|split].
  - rewrite vadd_length, vscale_length. lia.
  - rewrite mv_add by (rewrite vscale_length; lia). rewrite mv_scale. rewrite Hr.
    apply vsub_vsub_scale; rewrite ?mv_length; lia.
  - intros p' rho' E. inversion E; subst; auto.
Qed.

(* one iteration = the tolerance test did not fire and the body ran *)
Definition cg_step (conv : vecR -> bool) (s : cg_state) : option cg_state :=
  let '(x, r, prev) := s in
  if conv r then None
  else match cg_body A M x r prev with
       | Some (x', r', pr) => Some (x', r', Some pr)
       | None => None
       end.
Fixpoint cg_iter (conv : vecR -> bool) (k : nat) (s : cg_state) : option cg_state :=
  match k with
  | O => Some s
  | S k' => match cg_step conv s with Some s' => cg_iter conv k' s' | None => None end
  end.

Lemma cg_iter_inv conv : forall k s s', cg_inv s -> cg_iter conv k s = Some s' -> cg_inv s'.
Proof.
  induction k as [|k IH]; intros [[x r] prev] s' Hi H; cbn in H.
  - inversion H; subst; auto.
  - destruct (conv r); [discriminate|].
    destruct (cg_body A M x r prev) as [[[x1 r1] pr]|] eqn:E; [|discriminate].
    eapply IH; [|exact H]. eapply cg_body_inv; eauto.
Qed.

(* what the loop returns is a state reached by iterating *)
Lemma cg_loop_reaches conv : forall fuel k0 x r prev,
  match cg_loop conv fuel k0 A M x r prev with
  | CgExit x' r' k => exists prev', (k0 <= k)%nat /\ (k - k0 <= fuel)%nat /\
                         cg_iter conv (k - k0) (x, r, prev) = Some (x', r', prev') /\ conv r' = true
  | CgMaxIter x' r' => exists prev', cg_iter conv fuel (x, r, prev) = Some (x', r', prev')
  | CgNonFinite => True
  end.
Proof.
  induction fuel as [|f IH]; intros k0 x r prev; cbn.
  - exists prev. reflexivity.
  - destruct (conv r) eqn:Ec.
    + exists prev. rewrite Nat.sub_diag. cbn. repeat split; auto; lia.
    + destruct (cg_body A M x r prev) as [[[x1 r1] pr]|] eqn:E; [|exact I].
      specialize (IH (S k0) x1 r1 (Some pr)).
      destruct (cg_loop conv f (S k0) A M x1 r1 (Some pr)) as [x' r' k|x' r'|]; auto.
      * destruct IH as (prev' & H1 & H2 & H3 & H4). exists prev'.
        replace (k - k0)%nat with (S (k - S k0)) by lia. cbn. rewrite Ec, E.
        repeat split; auto; lia.
Qed.

(* the initial state built by forward() satisfies the invariant *)
Lemma vany_false (x : vecR) : vany x = false -> Forall (fun t => t = 0) x.
Proof.
  unfold vany. induction x as [|a x IH]; cbn; intros H; constructor.
  - apply orb_false_elim in H. destruct H as [H _]. apply negb_false_iff in H. now apply Reqb_true in H.
  - apply IH. now apply orb_false_elim in H.
Qed.
Definition cg_x0 (x0 : option vecR) : vecR := match x0 with Some x => x | None => map (fun _ => 0) b end.
Definition cg_r0 (x0 : option vecR) : vecR := if vany (cg_x0 x0) then vsubR b (mvR A (cg_x0 x0)) else b.
Lemma cg_init_inv x0 : (forall x, x0 = Some x -> length x = n) -> cg_inv (cg_x0 x0, cg_r0 x0, None).
Proof.
  intros Hx0. assert (Hl : length (cg_x0 x0) = n).
  { destruct x0; cbn; [now apply Hx0|]. now rewrite map_length. }
  split; [exact Hl|split; [|discriminate]].
  unfold cg_r0. destruct (vany (cg_x0 x0)) eqn:E; auto.
  symmetry. apply vsub_zero_r; [rewrite mv_length; lia|]. apply mv_zero. now apply vany_false.
Qed.

(* ---- residual invariant: after every iteration, for every n and k ---- *)
Theorem cg_residual_inv conv x0 k x r prev :
  (forall x, x0 = Some x -> length x = n) ->
  cg_iter conv k (cg_x0 x0, cg_r0 x0, None) = Some (x, r, prev) -> r = vsubR b (mvR A x) /\ length x = n.
Proof.
  intros Hx0 H. pose proof (cg_iter_inv conv k _ _ (cg_init_inv x0 Hx0) H) as (H1 & H2 & _). auto.
Qed.

(* unfolding of cg_core when b is not the zero vector *)
Lemma cg_core_unfold bzero conv maxiter x0 :
  bzero b = false ->
  cg_core bzero conv maxiter A b x0 M =
  RetLoop (cg_loop (conv b) (match maxiter with None => (length b * 10)%nat | Some k => k end) O A M (cg_x0 x0) (cg_r0 x0) None).
Proof. intros H. unfold cg_core. fold (cg_x0 x0). rewrite H. reflexivity. Qed.

(* ---- every value returned from the loop carries its true residual ---- *)
Theorem cg_returned_residual bzero conv maxiter x0 :
  (forall x, x0 = Some x -> length x = n) ->
  match cg_core bzero conv maxiter A b x0 M with
  | RetB v => v = b
  | RetLoop (CgExit x r k) => r = vsubR b (mvR A x) /\ conv b r = true /\ length x = n
  | RetLoop (CgMaxIter x r) => r = vsubR b (mvR A x) /\ length x = n
  | RetLoop CgNonFinite => True
  end.
Proof.
  intros Hx0. destruct (bzero b) eqn:Ez.
  - unfold cg_core. now rewrite Ez.
  - rewrite cg_core_unfold by auto.
    pose proof (cg_loop_reaches (conv b) (match maxiter with None => (length b * 10)%nat | Some k => k end) O (cg_x0 x0) (cg_r0 x0) None) as H.
    destruct (cg_loop _ _ _ _ _ _ _ _) as [x r k|x r|]; auto.
    + destruct H as (prev' & _ & _ & H & Hc). apply cg_residual_inv in H; auto. tauto.
    + destruct H as (prev' & H). apply cg_residual_inv in H; auto.
Qed.

(* ---- exit soundness, with the norm the code uses ---- *)
Theorem cg_exit_sound tol maxiter x0 x r k :
  (forall x, x0 = Some x -> length x = n) ->
  cg norm2 tol maxiter A b x0 M = RetLoop (CgExit x r k) ->
  norm2 (vsubR b (mvR A x)) < tol * norm2 b /\ length x = n.
Proof.
  intros Hx0 H. pose proof (cg_returned_residual (fun b => eqb (norm2 b) zero) (fun b r => ltb (norm2 r) (mul tol (norm2 b))) maxiter x0 Hx0) as P.
  unfold cg in H. rewrite H in P. destruct P as (Hr & Hc & Hl). split; auto.
  rewrite <- Hr. now apply Rltb_true in Hc.
Qed.

(* ---- zero right-hand side: b itself (the zero vector) is returned, whatever x0, M, maxiter ---- *)
Theorem cg_zero_rhs tol maxiter x0 :
  Forall (fun t => t = 0) b -> cg norm2 tol maxiter A b x0 M = RetB b.
Proof.
  intros Hz. unfold cg, cg_core.
  assert (E : eqb (norm2 b) zero = true).
  { apply Reqb_true. apply norm2_zero_iff. now apply dot_zero_r. }
  now rewrite E.
Qed.
End CGProofs.

(* ---- the squared-norm variant is the same function (tol >= 0) ---- *)
Lemma cg_loop_ext (c1 c2 : vecR -> bool) (H : forall r, c1 r = c2 r) A M :
  forall fuel k x r prev, cg_loop c1 fuel k A M x r prev = cg_loop c2 fuel k A M x r prev.
Proof.
  induction fuel as [|f IH]; intros; cbn; auto. rewrite H. destruct (c2 r); auto.
  destruct (cg_body A M x r prev) as [[[x1 r1] pr]|]; auto.
Qed.
Theorem cg_sq_equiv tol maxiter (A : matR) b x0 M :
  0 <= tol -> cg norm2 tol maxiter A b x0 M = cg_sq tol maxiter A b x0 M.
Proof.
  intros Ht. unfold cg, cg_sq, cg_core.
  assert (E1 : eqb (norm2 b) zero = eqb (dotR b b) zero).
  { cbn. destruct (Reqb (dotR b b) 0) eqn:E.
    - apply Reqb_true. apply norm2_zero_iff. now apply Reqb_true in E.
    - apply Reqb_false. intros H. apply norm2_zero_iff in H. apply Reqb_false in E. auto. }
  rewrite E1. destruct (eqb (dotR b b) zero); auto. f_equal.
  apply cg_loop_ext. intros r. cbn.
  destruct (Rltb (dotR r r) (tol * tol * dotR b b)) eqn:E.
  - apply Rltb_true. apply norm2_lt_iff; auto. now apply Rltb_true in E.
  - apply Rltb_false. apply Rltb_false in E. apply Rnot_lt_le. intros H. apply norm2_lt_iff in H; auto. lra.
Qed.

(* ---- the one-pass trace used by the correspondence: entry k is the value of CG(maxiter = k) ---- *)
Section TraceProofs.
Context {F : Type} {NF : Num F}.
Lemma cg_states_nonempty conv : forall fuel (A : mat (F:=F)) M x r prev, fst (cg_states conv fuel A M x r prev) <> [].
Proof.
  induction fuel as [|f IH]; intros; cbn; try discriminate.
  destruct (conv r); try discriminate.
  destruct (cg_body A M x r prev) as [[[x1 r1] pr]|]; try discriminate.
  destruct (cg_states conv f A M x1 r1 (Some pr)); discriminate.
Qed.
Definition out_value (o : cg_out (F:=F)) : option (vec (F:=F)) :=
  match o with CgExit x _ _ => Some x | CgMaxIter x _ => Some x | CgNonFinite => None end.
Lemma cg_states_spec conv (A : mat (F:=F)) M : forall K k k0 x r prev, (k <= K)%nat ->
  value_at (cg_states conv K A M x r prev) k = out_value (cg_loop conv k k0 A M x r prev).
Proof.
  induction K as [|K IH]; intros k k0 x r prev Hk.
  - assert (k = O) by lia. subst. reflexivity.
  - cbn [cg_states]. destruct k as [|k].
    + cbn [cg_loop out_value]. destruct (conv r); [reflexivity|].
      destruct (cg_body A M x r prev) as [[[x1 r1] pr]|]; [|reflexivity].
      destruct (cg_states conv K A M x1 r1 (Some pr)); reflexivity.
    + cbn [cg_loop]. destruct (conv r); [destruct k; reflexivity|].
      destruct (cg_body A M x r prev) as [[[x1 r1] pr]|]; [|destruct k; reflexivity].
      specialize (IH k (S k0) x1 r1 (Some pr) ltac:(lia)).
      pose proof (cg_states_nonempty conv K A M x1 r1 (Some pr)) as Hne.
      destruct (cg_states conv K A M x1 r1 (Some pr)) as [l nf] eqn:E. cbn in Hne.
      rewrite <- IH. unfold value_at. cbn [length nth].
      change (S k <? S (length l))%nat with (k <? length l)%nat.
      destruct (k <? length l)%nat; auto. destruct nf; auto.
      destruct l; [congruence|reflexivity].
Qed.
Theorem cg_values_spec bzero conv K ks (A : mat (F:=F)) b x0 M : Forall (fun k => (k <= K)%nat) ks ->
  cg_core_values bzero conv K ks A b x0 M = map (fun k => cg_value (cg_core bzero conv (Some k) A b x0 M)) ks.
Proof.
  intros Hks. unfold cg_core_values, cg_core. destruct (bzero b); [reflexivity|].
  apply map_ext_in. intros k Hin. rewrite Forall_forall in Hks.
  rewrite (cg_states_spec _ _ _ K k O) by auto.
  destruct (cg_loop _ _ _ _ _ _ _ _); reflexivity.
Qed.
End TraceProofs.

(* ------------------------------------------------------------------------------------------ *)
(* direct solvers *)
Definition wf_mat (m k : nat) (A : matR) : Prop := length A = m /\ Forall (fun r => length r = k) A.
Definition allzero (v : vecR) : Prop := Forall (fun t => t = 0) v.
Definition entry (A : matR) (i j : nat) : R := nth j (nth i A []) 0.
(* symmetric positive definite *)
Definition SPD (n : nat) (A : matR) : Prop :=
  wf_mat n n A /\ (forall i j, (i < n)%nat -> (j < n)%nat -> entry A i j = entry A j i) /\
  forall x : vecR, length x = n -> ~ allzero x -> 0 < dotR x (mvR A x).

Lemma has_nan_inject (X : matR) : has_nan (inject X) = false.
Proof.
  unfold has_nan, inject. induction X as [|r X IH]; cbn; auto. rewrite IH, orb_false_r.
  induction r as [|a r IHr]; cbn; auto.
Qed.
Lemma strip_inject (X : matR) : strip (inject X) = X.
Proof.
  unfold strip, inject. rewrite map_map. rewrite <- (map_id X) at 2. apply map_ext. intros r.
  rewrite map_map. rewrite <- (map_id r) at 2. now apply map_ext.
Qed.

Lemma nth_map_seq {X} (f : nat -> X) d : forall k j s, (j < k)%nat -> nth j (map f (seq s k)) d = f (s + j)%nat.
Proof.
  induction k as [|k IH]; intros j s Hj; [lia|]. cbn. destruct j as [|j]; [f_equal; lia|].
  rewrite IH by lia. f_equal. lia.
Qed.
Lemma map_nth_seq {X} (d : X) : forall (l : list X) , map (fun j => nth j l d) (seq 0 (length l)) = l.
Proof.
  induction l as [|a l IH]; cbn; auto. f_equal. rewrite <- seq_shift, map_map. exact IH.
Qed.
Lemma list_as_map_seq_R (l : list R) : l = map (fun w => nth w l 0) (seq 0 (length l)).
Proof. symmetry. apply map_nth_seq. Qed.
(* column j of A @ B is A applied to column j of B *)
Lemma col_mm (P B : matR) j : (j < ncols B)%nat -> col j (mm P B) = mvR P (col j B).
Proof.
  intros Hj. unfold col at 1, mm, mv. rewrite map_map. apply map_ext. intros row.
  now rewrite (nth_map_seq _ 0 (ncols B) j 0 Hj).
Qed.

(* ---- least squares ---- *)
Definition is_lsq (n : nat) (A : matR) (b x : vecR) : Prop :=
  length x = n /\ forall y : vecR, length y = n -> sqnorm (vsubR (mvR A x) b) <= sqnorm (vsubR (mvR A y) b).
Definition is_min_norm_lsq (n : nat) (A : matR) (b x : vecR) : Prop :=
  is_lsq n A b x /\ forall y, is_lsq n A b y -> sqnorm x <= sqnorm y.

Lemma vsub_allzero_eq : forall u v : vecR, length u = length v -> allzero (vsubR u v) -> u = v.
Proof.
  induction u as [|a u IH]; intros [|c v] H Hz; cbn in *; try discriminate; auto.
  inversion Hz; subst. f_equal; [num_unfold; lra|]. apply IH; auto.
Qed.
Lemma vadd_vsub_cancel : forall x y : vecR, length x = length y -> vaddR x (vsubR y x) = y.
Proof.
  induction x as [|a x IH]; intros [|c y] H; cbn in *; try discriminate; auto.
  f_equal; [num_unfold; ring|]. apply IH. lia.
Qed.
Lemma vsub_self_allzero : forall x : vecR, allzero (vsubR x x).
Proof. induction x as [|a x IH]; cbn; constructor; auto. num_unfold. ring. Qed.

Lemma vsub_split : forall u v b : vecR, length u = length v -> length v = length b ->
  vsubR u b = vaddR (vsubR u v) (vsubR v b).
Proof.
  induction u as [|a l IH]; intros [|c l0] [|e l1] H1 H2; cbn in *; try discriminate; auto.
  f_equal; [num_unfold; ring|]. apply IH; lia.
Qed.

Section LeastSquares.
Variables m n : nat.
Variable A : matR.
Hypothesis HA : length A = m.

(* orthogonality of the residual to the range of A is sufficient for least squares ... *)
Lemma lsq_of_orthogonal (b x : vecR) : length b = m -> length x = n ->
  (forall v : vecR, length v = n -> dotR (mvR A v) (vsubR (mvR A x) b) = 0) -> is_lsq n A b x.
Proof.
  intros Hb Hx Ho. split; auto. intros y Hy. unfold sqnorm.
  set (r := vsubR (mvR A x) b). set (d := vsubR y x).
  assert (Hd : length d = n) by (unfold d; rewrite vsub_length; lia).
  assert (Hr : length r = m) by (unfold r; rewrite vsub_length, mv_length; lia).
  assert (E : vsubR (mvR A y) b = vaddR (mvR A d) r).
  { unfold d, r. rewrite mv_sub by lia. apply vsub_split; rewrite !mv_length; lia. }
  rewrite E. rewrite dot_add_l, !dot_add_r by (rewrite ?mv_length; lia).
  assert (Hod : dotR (mvR A d) r = 0) by (apply Ho; exact Hd).
  rewrite Hod. rewrite (dot_comm r (mvR A d)), Hod.
  pose proof (dot_self_nonneg (mvR A d)). lra.
Qed.
(* ... and necessary in the form needed below: two least-squares solutions have the same image *)
Lemma lsq_same_image (b x y : vecR) : length b = m -> length x = n ->
  (forall v : vecR, length v = n -> dotR (mvR A v) (vsubR (mvR A x) b) = 0) ->
  is_lsq n A b y -> mvR A y = mvR A x.
Proof.
  intros Hb Hx Ho (Hy & Hmin).
  pose proof (lsq_of_orthogonal b x Hb Hx Ho) as (_ & Hminx).
  specialize (Hmin x Hx). specialize (Hminx y Hy). unfold sqnorm in *.
  set (r := vsubR (mvR A x) b) in *. set (d := vsubR y x).
  assert (Hd : length d = n) by (unfold d; rewrite vsub_length; lia).
  assert (Hr : length r = m) by (unfold r; rewrite vsub_length, mv_length; lia).
  assert (E : vsubR (mvR A y) b = vaddR (mvR A d) r).
  { unfold d, r. rewrite mv_sub by lia. apply vsub_split; rewrite !mv_length; lia. }
  rewrite E in Hmin, Hminx. rewrite dot_add_l, !dot_add_r in Hmin, Hminx by (rewrite ?mv_length; lia).
  assert (Hod : dotR (mvR A d) r = 0) by (apply Ho; exact Hd).
  rewrite Hod in Hmin, Hminx. rewrite (dot_comm r (mvR A d)), Hod in Hmin, Hminx.
  assert (Z : dotR (mvR A d) (mvR A d) = 0) by (pose proof (dot_self_nonneg (mvR A d)); lra).
  apply dot_self_zero in Z. unfold d in Z. rewrite mv_sub in Z by lia.
  apply vsub_allzero_eq; auto. now rewrite !mv_length.
Qed.

(* The Moore-Penrose conditions for P (n x m) as a pseudo-inverse of A (m x n), stated on the linear
   maps v |-> A v, w |-> P w:  A P A = A,  P A P = P,  A P and P A symmetric. *)
Definition penrose (P : matR) : Prop :=
  length P = n /\
  (forall v : vecR, length v = n -> mvR A (mvR P (mvR A v)) = mvR A v) /\
  (forall w : vecR, length w = m -> mvR P (mvR A (mvR P w)) = mvR P w) /\
  (forall u w : vecR, length u = m -> length w = m -> dotR u (mvR A (mvR P w)) = dotR (mvR A (mvR P u)) w) /\
  (forall u v : vecR, length u = n -> length v = n -> dotR u (mvR P (mvR A v)) = dotR (mvR P (mvR A u)) v).

Theorem penrose_min_norm_lsq (P : matR) (b : vecR) : penrose P -> length b = m ->
  is_min_norm_lsq n A b (mvR P b).
Proof.
  intros (HP & P1 & P2 & P3 & P4) Hb.
  set (x := mvR P b). assert (Hx : length x = n) by (unfold x; now rewrite mv_length).
  assert (Ho : forall v : vecR, length v = n -> dotR (mvR A v) (vsubR (mvR A x) b) = 0).
  { intros v Hv. rewrite dot_sub_r by (rewrite mv_length; lia). unfold x.
    rewrite P3 by (rewrite ?mv_length; lia). rewrite P1 by auto. lra. }
  split; [now apply lsq_of_orthogonal|].
  intros y Hy. pose proof (lsq_same_image b x y Hb Hx Ho Hy) as Himg. destruct Hy as (Hy & _).
  set (d := vsubR y x). assert (Hd : length d = n) by (unfold d; rewrite vsub_length; lia).
  assert (HAd : allzero (mvR A d)).
  { unfold d. rewrite mv_sub by lia. rewrite Himg. apply vsub_self_allzero. }
  assert (Hxd : dotR x d = 0).
  { assert (Ex : x = mvR P (mvR A x)) by (unfold x; now rewrite P2).
    rewrite Ex. rewrite <- P4 by auto. apply dot_zero_r. now apply mv_zero. }
  unfold sqnorm. rewrite <- (vadd_vsub_cancel x y) by lia. fold d.
  rewrite dot_add_l, !dot_add_r by lia. rewrite (dot_comm d x), Hxd.
  pose proof (dot_self_nonneg d). lra.
Qed.
End LeastSquares.

(* ---- the wrappers ---- *)
Section Wrappers.
Variables m n : nat.

(* PINV: torch.linalg.pinv returns a Moore-Penrose pseudo-inverse (assumed; measured by the tie) *)
Variable pinv : pinv_cfg (F:=R) -> matR -> matR.
Hypothesis pinv_contract : forall c A, wf_mat m n A -> penrose m n A (pinv c A).

Theorem pinv_wrapper c (A b : matR) k j : wf_mat m n A -> wf_mat m k b -> (j < ncols b)%nat ->
  is_min_norm_lsq n A (col j b) (col j (PINV pinv c A b)).
Proof.
  intros HA Hb Hj. unfold PINV. rewrite col_mm by auto.
  apply penrose_min_norm_lsq with (m := m); [apply HA|now apply pinv_contract|].
  unfold col. rewrite map_length. apply Hb.
Qed.

(* LSTSQ: torch.linalg.lstsq returns, for finite input, a NaN-free least-squares solution of every
   column (assumed; measured by the tie).  The wrapper adds nothing but the NaN assertion. *)
Variable lstsq : lstsq_cfg (F:=R) -> matR -> matR -> xmat (F:=R).
Hypothesis lstsq_contract : forall c A b k, wf_mat m n A -> wf_mat m k b ->
  exists X, lstsq c A b = inject X /\ forall j, (j < ncols b)%nat -> is_lsq n A (col j b) (col j X).

Theorem lstsq_wrapper c (A b : matR) k : wf_mat m n A -> wf_mat m k b ->
  exists X, LSTSQ lstsq c A b = Some X /\ forall j, (j < ncols b)%nat -> is_lsq n A (col j b) (col j X).
Proof.
  intros HA Hb. destruct (lstsq_contract c A b k HA Hb) as (X & E & H).
  exists X. unfold LSTSQ. rewrite E, has_nan_inject, strip_inject. auto.
Qed.
Theorem lstsq_wrapper_nan c (A b : matR) : has_nan (lstsq c A b) = true -> LSTSQ lstsq c A b = None.
Proof. intros H. unfold LSTSQ. now rewrite H. Qed.
End Wrappers.

(* ---- Cholesky ---- *)
Definition llt (upper : bool) (L : matR) : matR := if upper then mm (transpose L) L else mm L (transpose L).
(* what cholesky_ex returns on success / what cholesky_solve accepts: an n x n triangular matrix with
   non-zero diagonal *)
Definition chol_factor (n : nat) (upper : bool) (L : matR) : Prop :=
  wf_mat n n L /\
  (forall i j, (i < n)%nat -> (j < n)%nat -> (if upper then (j < i)%nat else (i < j)%nat) -> entry L i j = 0) /\
  (forall i, (i < n)%nat -> entry L i i <> 0).
Definition chol_ex_contract (n : nat) (cholesky_ex : bool -> matR -> xmat (F:=R) * Z) : Prop :=
  forall up A, wf_mat n n A ->
    (SPD n A -> exists L, cholesky_ex up A = (inject L, 0%Z) /\ chol_factor n up L /\ llt up L = A) /\
    (~ SPD n A -> snd (cholesky_ex up A) <> 0%Z).
Definition chol_solve_contract (n : nat) (cholesky_solve : bool -> matR -> matR -> xmat (F:=R)) : Prop :=
  forall up b L k, wf_mat n k b -> chol_factor n up L ->
    exists X, cholesky_solve up b L = inject X /\ wf_mat n k X /\ mm (llt up L) X = b.

Theorem cholesky_wrapper_spd n cholesky_ex cholesky_solve :
  chol_ex_contract n cholesky_ex -> chol_solve_contract n cholesky_solve ->
  forall up (A b : matR) k, SPD n A -> wf_mat n k b ->
  exists X, Cholesky cholesky_ex cholesky_solve up A b = Some (inject X) /\ wf_mat n k X /\ mm A X = b.
Proof.
  intros Hex Hsolve up A b k HA Hb.
  destruct (Hex up A (proj1 HA)) as (Hok & _). destruct (Hok HA) as (L & E & HL & HLA).
  destruct (Hsolve up b L k Hb HL) as (X & EX & HX & HXb).
  exists X. unfold Cholesky. rewrite E, has_nan_inject, strip_inject, EX. cbn. rewrite HLA in HXb. auto.
Qed.
(* the failure clause (repaired source): a matrix that is not SPD makes forward() raise *)
Theorem cholesky_wrapper_raises n cholesky_ex cholesky_solve :
  chol_ex_contract n cholesky_ex ->
  forall up (A b : matR), wf_mat n n A -> ~ SPD n A -> Cholesky cholesky_ex cholesky_solve up A b = None.
Proof.
  intros Hex up A b Hwf HA. destruct (Hex up A Hwf) as (_ & Hfail). specialize (Hfail HA).
  unfold Cholesky. destruct (cholesky_ex up A) as [L info]. cbn [snd] in Hfail.
  replace (info =? 0)%Z with false by (symmetry; now apply Z.eqb_neq). cbn. now rewrite orb_true_r.
Qed.
(* both clauses *)
Theorem cholesky_wrapper n cholesky_ex cholesky_solve :
  chol_ex_contract n cholesky_ex -> chol_solve_contract n cholesky_solve ->
  forall up (A b : matR) k, wf_mat n n A -> wf_mat n k b ->
  (SPD n A -> exists X, Cholesky cholesky_ex cholesky_solve up A b = Some (inject X) /\ wf_mat n k X /\ mm A X = b) /\
  (~ SPD n A -> Cholesky cholesky_ex cholesky_solve up A b = None).
Proof.
  intros Hex Hsolve up A b k HA Hb. split.
  - intros HS. now apply (cholesky_wrapper_spd n).
  - intros HS. now apply (cholesky_wrapper_raises n).
Qed.
(* a returned value is never a silent wrong answer: whenever forward() returns, the oracle reported
   success (info = 0, NaN-free factor) *)
Theorem cholesky_returns_only_on_success cholesky_ex cholesky_solve up (A b : matR) X :
  Cholesky cholesky_ex cholesky_solve up A b = Some X ->
  snd (cholesky_ex up A) = 0%Z /\ has_nan (fst (cholesky_ex up A)) = false.
Proof.
  unfold Cholesky. destruct (cholesky_ex up A) as [L info]. cbn [fst snd].
  destruct (has_nan L); cbn; [discriminate|]. destruct (info =? 0)%Z eqn:E; cbn; [|discriminate].
  intros _. split; auto. now apply Z.eqb_eq.
Qed.
(* NaN in the factor raises (both before and after the repair) *)
Theorem cholesky_wrapper_nan cholesky_ex cholesky_solve up (A b : matR) :
  has_nan (fst (cholesky_ex up A)) = true -> Cholesky cholesky_ex cholesky_solve up A b = None.
Proof. intros H. unfold Cholesky. destruct (cholesky_ex up A) as [L info]. cbn [fst] in H. now rewrite H. Qed.
(* history: before the repair [info] was never read: the result did not depend on it *)
Theorem cholesky_old_ignores_info (ce1 ce2 : bool -> matR -> xmat (F:=R) * Z) cholesky_solve up (A b : matR) :
  fst (ce1 up A) = fst (ce2 up A) -> Cholesky_old ce1 cholesky_solve up A b = Cholesky_old ce2 cholesky_solve up A b.
Proof. unfold Cholesky_old. destruct (ce1 up A), (ce2 up A). cbn. now intros ->. Qed.
(* on SPD input the repaired and the old wrapper agree *)
Theorem cholesky_old_same_on_success cholesky_ex cholesky_solve up (A b : matR) :
  snd (cholesky_ex up A) = 0%Z ->
  Cholesky cholesky_ex cholesky_solve up A b = Cholesky_old cholesky_ex cholesky_solve up A b.
Proof.
  unfold Cholesky, Cholesky_old. destruct (cholesky_ex up A) as [L info]. cbn [snd]. intros ->.
  cbn. now rewrite orb_false_r.
Qed.

(* ---- history: the failure clause was refuted on the faithful model of the source BEFORE the repair
        (Cholesky_old; /repo 3f16d24 added the info check) ---- *)
(* explicit oracles for 1 x 1 systems: LAPACK's potrf on [[a]] answers (sqrt a, 0) for a > 0 and leaves
   a in place with info = 1 otherwise; potrs divides by l^2 *)
Definition chol1 (up : bool) (A : matR) : xmat (F:=R) * Z :=
  match A with
  | [[a]] => if Rlt_dec 0 a then ([[Some (sqrt a)]], 0%Z) else ([[Some a]], 1%Z)
  | _ => ([], 1%Z)
  end.
Definition solve1 (up : bool) (b L : matR) : xmat (F:=R) :=
  match L with
  | [[l]] => inject (map (map (fun v => v / (l * l))) b)
  | _ => []
  end.

Lemma wf_mat_1_1 (A : matR) : wf_mat 1 1 A -> exists a, A = [[a]].
Proof.
  intros (H1 & H2). destruct A as [|r [|]]; try discriminate. inversion H2; subst.
  destruct r as [|a [|]]; try discriminate. now exists a.
Qed.
Lemma SPD_1 a : SPD 1 [[a]] <-> 0 < a.
Proof.
  split.
  - intros (_ & _ & H). specialize (H [1] eq_refl). cbn in H. num_unfold.
    assert (~ allzero [1]) by (intros Z; inversion Z; lra). specialize (H H0). lra.
  - intros Ha. split; [split; [reflexivity|repeat constructor]|split].
    + intros i j Hi Hj. assert (i = O) by lia. assert (j = O) by lia. now subst.
    + intros x Hx Hnz. destruct x as [|t [|]]; try discriminate. cbn. num_unfold.
      assert (Ht : t <> 0) by (intros ->; apply Hnz; repeat constructor).
      assert (0 < t * t) by (destruct (Rtotal_order t 0) as [|[|]]; [nra|contradiction|nra]).
      replace (t * (a * t + 0) + 0) with (a * (t * t)) by ring. nra.
Qed.
Lemma llt_1 up l : llt up [[l]] = [[l * l + 0]].
Proof. destruct up; reflexivity. Qed.
Lemma chol_factor_1 up (L : matR) : chol_factor 1 up L -> exists l, L = [[l]] /\ l <> 0.
Proof.
  intros (Hwf & _ & Hd). destruct (wf_mat_1_1 L Hwf) as (l & ->). exists l. split; auto. apply (Hd O). lia.
Qed.
Lemma chol1_contract : chol_ex_contract 1 chol1.
Proof.
  intros up A Hwf. destruct (wf_mat_1_1 A Hwf) as (a & ->). split.
  - intros HS. apply SPD_1 in HS. exists [[sqrt a]]. unfold chol1. destruct (Rlt_dec 0 a); [|contradiction].
    split; [reflexivity|split].
    + split; [split; [reflexivity|repeat constructor]|split].
      * intros i j Hi Hj. destruct up; lia.
      * intros i Hi. assert (i = O) by lia. subst. unfold entry; cbn. pose proof (sqrt_lt_R0 a HS). lra.
    + rewrite llt_1. rewrite sqrt_sqrt by lra. do 2 f_equal. lra.
  - intros HS. unfold chol1. destruct (Rlt_dec 0 a) as [Ha|Ha]; [|cbn; discriminate].
    exfalso. apply HS. now apply SPD_1.
Qed.
Lemma solve1_contract : chol_solve_contract 1 solve1.
Proof.
  intros up b L k Hb HL. destruct (chol_factor_1 up L HL) as (l & -> & Hl).
  destruct Hb as (Hb1 & Hb2). destruct b as [|row [|]]; try discriminate. inversion Hb2; subst.
  exists [map (fun v => v / (l * l)) row]. split; [reflexivity|split].
  - split; [reflexivity|]. constructor; auto. now rewrite map_length.
  - rewrite llt_1. unfold mm. cbn [map ncols]. rewrite map_length. f_equal.
    rewrite <- (map_nth_seq 0 row) at 2. apply map_ext_in. intros j Hj. apply in_seq in Hj.
    cbn. change (fun v : R => v / (l * l)) with (fun v : R => v / (l * l)).
    rewrite (map_nth (fun v => v / (l * l)) row 0 j) || idtac.
    replace (nth j (map (fun v : R => v / (l * l)) row) 0) with (nth j row 0 / (l * l)).
    + num_unfold. field. auto.
    + rewrite <- (map_nth (fun v => v / (l * l))). f_equal. field. auto.
Qed.

(* The clause "Cholesky raises whenever A is not positive definite" does not follow from the oracle
   contract: with oracles that satisfy it, the wrapper returns a vector that does not solve A x = b. *)
Theorem cholesky_raise_refuted :
  exists (n : nat) cholesky_ex cholesky_solve, chol_ex_contract n cholesky_ex /\ chol_solve_contract n cholesky_solve /\
    exists (A b X : matR), wf_mat n n A /\ wf_mat n 1 b /\ ~ SPD n A /\ snd (cholesky_ex false A) <> 0%Z /\
      Cholesky_old cholesky_ex cholesky_solve false A b = Some (inject X) /\ mm A X <> b.
Proof.
  exists 1%nat, chol1, solve1. split; [exact chol1_contract|split; [exact solve1_contract|]].
  exists [[-1]], [[1]], [[1 / (-1 * -1)]].
  split; [split; [reflexivity|repeat constructor]|]. split; [split; [reflexivity|repeat constructor]|].
  split; [intros H; apply SPD_1 in H; lra|].
  unfold Cholesky_old, chol1. destruct (Rlt_dec 0 (-1)); [lra|].
  split; [cbn; discriminate|]. split; [reflexivity|].
  cbn. num_unfold. intros H. inversion H. lra.
Qed.

(* The recorded witness A = [[1,2],[2,1]], b = [1,1]: LAPACK answers L = [[1,0],[2,-3]], info = 2
   (observed by the correspondence).  Any oracle satisfying the contract can be changed at this one
   (indefinite) matrix to give that answer and still satisfies the contract; the wrapper then returns
   the solution of (L L^T) x = b, which is not a solution of A x = b. *)
Definition Awit : matR := [[1; 2]; [2; 1]].
Definition Lwit : matR := [[1; 0]; [2; -3]].
Definition bwit : matR := [[1]; [1]].
Lemma mat_eq_dec : forall A B : matR, {A = B} + {A <> B}.
Proof. apply list_eq_dec. apply list_eq_dec. apply Req_EM_T. Qed.
Lemma Awit_not_SPD : ~ SPD 2 Awit.
Proof.
  intros (_ & _ & H). specialize (H [1; -1] eq_refl). cbn in H. num_unfold.
  assert (~ allzero [1; -1]) by (intros Z; inversion Z; lra). specialize (H H0). lra.
Qed.
Lemma Lwit_factor : chol_factor 2 false Lwit.
Proof.
  split; [split; [reflexivity|repeat constructor]|split].
  - intros i j Hi Hj Hij. destruct i as [|[|]], j as [|[|]]; try lia. reflexivity.
  - intros i Hi. destruct i as [|[|]]; try lia; unfold entry; cbn; lra.
Qed.
Lemma col2_inj (a b c d : R) : [[a]; [b]] = [[c]; [d]] -> a = c /\ b = d.
Proof. intros H. injection H. auto. Qed.
Theorem cholesky_raise_refuted_witness cholesky_ex cholesky_solve :
  chol_ex_contract 2 cholesky_ex -> chol_solve_contract 2 cholesky_solve ->
  exists cholesky_ex', chol_ex_contract 2 cholesky_ex' /\
    cholesky_ex' false Awit = (inject Lwit, 2%Z) /\ ~ SPD 2 Awit /\
    exists X, Cholesky_old cholesky_ex' cholesky_solve false Awit bwit = Some (inject X) /\ mm Awit X <> bwit.
Proof.
  intros Hex Hsolve.
  set (ce := fun (up : bool) (A : matR) => if mat_eq_dec A Awit then (inject Lwit, 2%Z) else cholesky_ex up A).
  exists ce. split; [|split; [|split; [exact Awit_not_SPD|]]].
  - intros up A Hwf. unfold ce. destruct (mat_eq_dec A Awit) as [->|Hne]; [|now apply Hex].
    split; [intros H; exfalso; now apply Awit_not_SPD|intros _; cbn; discriminate].
  - unfold ce. destruct (mat_eq_dec Awit Awit); [reflexivity|congruence].
  - destruct (Hsolve false bwit Lwit 1%nat) as (X & EX & (HX1 & HX2) & HXb).
    { split; [reflexivity|repeat constructor]. }
    { exact Lwit_factor. }
    exists X. split.
    + unfold Cholesky_old, ce. destruct (mat_eq_dec Awit Awit); [|congruence].
      now rewrite has_nan_inject, strip_inject, EX.
    + destruct X as [|r1 [|r2 [|]]]; try discriminate. inversion HX2 as [|? ? Hr1 HX3]; subst.
      inversion HX3 as [|? ? Hr2 _]; subst.
      destruct r1 as [|x1 [|]]; try discriminate. destruct r2 as [|x2 [|]]; try discriminate.
      cbn in HXb. unfold bwit in *. cbn. num_unfold. intros H.
      apply col2_inj in HXb. apply col2_inj in H. lra.
Qed.

(* ---- the Penrose conditions in matrix form (what the correspondence measures on torch.linalg.pinv)
        imply the operator form used above ---- *)
Definition transp (p : nat) (S : matR) : matR := map (fun j => col j S) (seq 0 p).
Lemma transpose_transp (S : matR) : transpose S = transp (ncols S) S.
Proof. reflexivity. Qed.
Lemma vadd_map_seq (f g : nat -> R) : forall n s,
  map (fun j => f j + g j) (seq s n) = vaddR (map f (seq s n)) (map g (seq s n)).
Proof. induction n as [|n IH]; intros s; cbn; auto. now rewrite IH. Qed.
(* <u, S w> = <S^T u, w> *)
Lemma adjoint p : forall (S : matR) (u w : vecR), Forall (fun r => length r = p) S -> length u = length S -> length w = p ->
  dotR u (mvR S w) = dotR (mvR (transp p S) u) w.
Proof.
  induction S as [|r S IH]; intros [|a u] w HS Hu Hw; cbn in Hu; try discriminate.
  - cbn. symmetry. apply dot_zero_l. unfold mv, transp. rewrite map_map. apply Forall_forall. intros x Hx.
    apply in_map_iff in Hx. destruct Hx as (j & <- & _). apply dot_nil_r.
  - inversion HS; subst.
    assert (E : mvR (transp (length w) (r :: S)) (a :: u) = vaddR (vscaleR a r) (mvR (transp (length w) S) u)).
    { rewrite <- H1. unfold mv, transp. rewrite !map_map. cbn [col map dot].
      rewrite (map_ext _ (fun j => a * nth j r 0 + dotR (col j S) u)); [|intros j; unfold col; num_unfold; ring].
      rewrite (vadd_map_seq (fun j => a * nth j r 0) (fun j => dotR (col j S) u)). f_equal.
      unfold vscale. transitivity (map (mul a) (map (fun j => nth j r 0) (seq 0 (length r)))).
      - now rewrite map_map.
      - f_equal. apply map_nth_seq. }
    rewrite E. rewrite dot_add_l.
    + rewrite dot_scale_l. rewrite <- IH; auto.
    + rewrite vscale_length, mv_length. unfold transp. rewrite map_length, seq_length. exact H1.
Qed.
Lemma mm_wf (P A : matR) : wf_mat (length P) (ncols A) (mm P A).
Proof.
  unfold mm. split; [now rewrite map_length|]. apply Forall_forall. intros r Hr.
  apply in_map_iff in Hr. destruct Hr as (x & <- & _). now rewrite map_length, seq_length.
Qed.
Lemma ncols_wf q p (B : matR) : wf_mat q p B -> (0 < q)%nat -> ncols B = p.
Proof. intros (H1 & H2) Hq. destruct B as [|r B]; cbn in *; [lia|]. now inversion H2. Qed.
(* (A B) v = A (B v) *)
Lemma mv_mm q p (A B : matR) (v : vecR) : wf_mat q p B -> (0 < q)%nat -> Forall (fun r => length r = q) A -> length v = p ->
  mvR (mm A B) v = mvR A (mvR B v).
Proof.
  intros HB Hq HA Hv. unfold mm. rewrite (ncols_wf q p B HB Hq). unfold mv at 1. rewrite map_map.
  apply map_ext_in. intros row Hrow. rewrite Forall_forall in HA. specialize (HA row Hrow).
  rewrite (adjoint p B row v); [|apply HB|destruct HB; lia|auto].
  f_equal. unfold mv, transp. rewrite map_map. apply map_ext. intros j. apply dot_comm.
Qed.
Definition penrose_mat (m n : nat) (A P : matR) : Prop :=
  wf_mat n m P /\ mm A (mm P A) = A /\ mm P (mm A P) = P /\
  transpose (mm A P) = mm A P /\ transpose (mm P A) = mm P A.
Theorem penrose_mat_op m n (A P : matR) : (0 < m)%nat -> (0 < n)%nat -> wf_mat m n A ->
  penrose_mat m n A P -> penrose m n A P.
Proof.
  intros Hm Hn HA (HP & E1 & E2 & E3 & E4).
  assert (HAr : Forall (fun r => length r = n) A) by apply HA.
  assert (HPr : Forall (fun r => length r = m) P) by apply HP.
  assert (HPA : wf_mat n n (mm P A)).
  { pose proof (mm_wf P A) as H. rewrite (ncols_wf m n A HA Hm) in H. destruct HP as (HP1 & _). now rewrite HP1 in H. }
  assert (HAP : wf_mat m m (mm A P)).
  { pose proof (mm_wf A P) as H. rewrite (ncols_wf n m P HP Hn) in H. destruct HA as (HA1 & _). now rewrite HA1 in H. }
  assert (AP : forall w : vecR, length w = m -> mvR A (mvR P w) = mvR (mm A P) w).
  { intros w Hw. symmetry. apply (mv_mm n m); auto. }
  assert (PA : forall v : vecR, length v = n -> mvR P (mvR A v) = mvR (mm P A) v).
  { intros v Hv. symmetry. apply (mv_mm m n); auto. }
  split; [apply HP|split; [|split; [|split]]].
  - intros v Hv. rewrite PA by auto. rewrite <- (mv_mm n n A (mm P A) v) by auto. now rewrite E1.
  - intros w Hw. rewrite AP by auto. rewrite <- (mv_mm m m P (mm A P) w) by auto. now rewrite E2.
  - intros u w Hu Hw. rewrite !AP by auto.
    rewrite (adjoint m (mm A P) u w); [|apply HAP|destruct HAP; lia|auto].
    rewrite <- (ncols_wf m m (mm A P) HAP Hm) at 1. rewrite <- transpose_transp. now rewrite E3.
  - intros u v Hu Hv. rewrite !PA by auto.
    rewrite (adjoint n (mm P A) u v); [|apply HPA|destruct HPA; lia|auto].
    rewrite <- (ncols_wf n n (mm P A) HPA Hn) at 1. rewrite <- transpose_transp. now rewrite E4.
Qed.

(* ---- batched calls: item i of the batched result is the single call on item i ---- *)
Lemma map2_length {X Y Z} (f : X -> Y -> Z) : forall xs ys, length (map2 f xs ys) = Nat.min (length xs) (length ys).
Proof. induction xs as [|x xs IH]; intros [|y ys]; cbn; auto. Qed.
Lemma map2_nth {X Y Z} (f : X -> Y -> Z) dx dy dz : forall xs ys i, (i < length xs)%nat -> (i < length ys)%nat ->
  nth i (map2 f xs ys) dz = f (nth i xs dx) (nth i ys dy).
Proof.
  induction xs as [|x xs IH]; intros [|y ys] i' H1 H2; destruct i' as [|i']; cbn in *; try lia; auto. apply IH; lia.
Qed.
Theorem pinv_batch_item pinv c (As bs : list matR) i : (i < length As)%nat -> (i < length bs)%nat ->
  nth i (PINV_batch pinv c As bs) [] = PINV pinv c (nth i As []) (nth i bs []).
Proof. intros. unfold PINV_batch. now apply map2_nth. Qed.

Section BatchWrappers.
Variables m n k : nat.
Variable lstsq : lstsq_cfg (F:=R) -> matR -> matR -> xmat (F:=R).
Hypothesis lstsq_contract : forall c A b k, wf_mat m n A -> wf_mat m k b ->
  exists X, lstsq c A b = inject X /\ forall j, (j < ncols b)%nat -> is_lsq n A (col j b) (col j X).
Theorem lstsq_batch c : forall (As bs : list matR), Forall (wf_mat m n) As -> Forall (wf_mat m k) bs -> length As = length bs ->
  exists Xs, LSTSQ_batch lstsq c As bs = Some Xs /\ length Xs = length As /\
    forall i, (i < length As)%nat -> forall j, (j < ncols (nth i bs []))%nat ->
      is_lsq n (nth i As []) (col j (nth i bs [])) (col j (nth i Xs [])).
Proof.
  unfold LSTSQ_batch. induction As as [|A As IH]; intros [|b bs] HA Hb Hl; cbn in Hl; try discriminate.
  - exists []. cbn. split; [reflexivity|split; [reflexivity|]]. intros i Hi. lia.
  - inversion HA; subst. inversion Hb; subst.
    destruct (IH bs H2 H4 ltac:(lia)) as (Xs & E & HXl & HX).
    destruct (lstsq_contract c A b k H1 H3) as (X & EX & HXj).
    cbn [map2 existsb map]. rewrite EX, has_nan_inject, strip_inject. cbn [orb].
    destruct (existsb has_nan (map2 (lstsq c) As bs)); [discriminate|]. inversion E; subst Xs.
    eexists. split; [reflexivity|]. split; [cbn; rewrite map_length in *; cbn; lia|].
    intros [|i] Hi j Hj; cbn in *; [now apply HXj|]. apply HX; auto. lia.
Qed.

Variable cholesky_ex : bool -> matR -> xmat (F:=R) * Z.
Variable cholesky_solve : bool -> matR -> matR -> xmat (F:=R).
Hypothesis Hex : chol_ex_contract n cholesky_ex.
Hypothesis Hsolve : chol_solve_contract n cholesky_solve.
Theorem cholesky_batch_spd up : forall (As bs : list matR), Forall (SPD n) As -> Forall (wf_mat n k) bs -> length As = length bs ->
  exists Xs, Cholesky_batch cholesky_ex cholesky_solve up As bs = Some (map inject Xs) /\ length Xs = length As /\
    forall i, (i < length As)%nat -> mm (nth i As []) (nth i Xs []) = nth i bs [].
Proof.
  unfold Cholesky_batch. induction As as [|A As IH]; intros [|b bs] HA Hb Hl; cbn in Hl; try discriminate.
  - exists []. cbn. split; [reflexivity|split; [reflexivity|]]. intros i Hi. lia.
  - inversion HA; subst. inversion Hb; subst.
    destruct (IH bs H2 H4 ltac:(lia)) as (Xs & E & HXl & HX).
    destruct (Hex up A (proj1 H1)) as (Hok & _). destruct (Hok H1) as (L & EL & HL & HLA).
    destruct (Hsolve up b L k H3 HL) as (X & EX & _ & HXb).
    cbn [map existsb map2]. rewrite EL. cbn [fst snd]. rewrite has_nan_inject, strip_inject, EX. cbn [orb Z.eqb negb].
    destruct (existsb (fun Li => has_nan (fst Li)) (map (cholesky_ex up) As)); [discriminate|].
    destruct (existsb (fun Li => negb (snd Li =? 0)%Z) (map (cholesky_ex up) As)); [discriminate|].
    cbn [orb] in *. inversion E as [E']. exists (X :: Xs). cbn [map]. rewrite E'. split; [reflexivity|]. split; [cbn; lia|].
    intros [|i] Hi; cbn in *; [now rewrite <- HLA|]. apply HX. lia.
Qed.
(* one member of the batch that is not positive definite makes the whole call raise *)
Theorem cholesky_batch_raises up (As bs : list matR) :
  Forall (wf_mat n n) As -> Exists (fun A => ~ SPD n A) As -> Cholesky_batch cholesky_ex cholesky_solve up As bs = None.
Proof.
  intros Hwf Hbad. unfold Cholesky_batch.
  assert (E : existsb (fun Li => negb (snd Li =? 0)%Z) (map (cholesky_ex up) As) = true).
  { apply existsb_exists. apply Exists_exists in Hbad. destruct Hbad as (A & HinA & HA).
    exists (cholesky_ex up A). split; [now apply in_map|].
    rewrite Forall_forall in Hwf. destruct (Hex up A (Hwf A HinA)) as (_ & Hf). specialize (Hf HA).
    apply negb_true_iff. now apply Z.eqb_neq. }
  rewrite E. now rewrite orb_true_r.
Qed.
End BatchWrappers.
