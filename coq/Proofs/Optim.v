(* Proofs for property C07 (Model/Optim.v).
   Part A (any number type): update_parameter - the split, the zip, the requires_grad filter.
   Part B (R): the LM matrix of the k-th trial in closed form; the systems handed to the solver.
   Part C (any / R): the weight expansion of normalize_RWJ is the broadcast of the weight. *)
From Coq Require Import ZArith Reals Lra Lia List Arith Bool.
Import ListNotations.
From PV Require Import Base.Num Base.Mat Model.LieGroup Model.Optim.

Lemma skipn_add {X} : forall b a (l : list X), skipn a (skipn b l) = skipn (b + a) l.
Proof.
  induction b as [|b IH]; intros a l; [reflexivity|].
  destruct l as [|x l]; [now rewrite !skipn_nil|]. cbn. apply IH.
Qed.

(* ===================================================================================== *)
(*  Part A: update_parameter                                                              *)
(* ===================================================================================== *)
Section Update.
Context {F : Type} {NF : Num F}.
Variable gexp : nat -> list F -> list F.
Notation param := (@param F).
Notation update_parameter := (update_parameter gexp).
Notation zip_update := (zip_update gexp).
Notation param_add := (param_add gexp).

Definition pdflt : param := {| pk := Euclid; pdata := []; preq := false |}.

Lemma zip_update_spec : forall (ps : list param) steps ps',
  zip_update ps steps = Some ps' ->
  length ps' = length ps /\
  (forall i, preq (nth i ps pdflt) = false -> nth i ps' pdflt = nth i ps pdflt) /\
  map (@pk F) ps' = map (@pk F) ps /\ map (@preq F) ps' = map (@preq F) ps.
Proof.
  induction ps as [|p ps IH]; intros steps ps' H.
  - destruct steps; cbn in H; inversion H; subst; repeat split; auto.
  - destruct steps as [|d steps].
    + cbn in H. inversion H; subst. repeat split; auto.
    + cbn in H. destruct (preq p) eqn:Hp.
      * destruct (Nat.eqb (length d) (pnumel p)); [|discriminate].
        destruct (zip_update ps steps) as [r|] eqn:Hr; [|discriminate].
        inversion H; subst. destruct (IH _ _ Hr) as (Hl & Hf & Hk & Hq).
        repeat split.
        -- cbn. now rewrite Hl.
        -- intros [|i] Hi; cbn in *; [congruence | now apply Hf].
        -- cbn. now rewrite Hk.
        -- cbn. now rewrite Hq.
      * destruct (zip_update ps steps) as [r|] eqn:Hr; [|discriminate].
        inversion H; subst. destruct (IH _ _ Hr) as (Hl & Hf & Hk & Hq).
        repeat split.
        -- cbn. now rewrite Hl.
        -- intros [|i] Hi; cbn in *; [reflexivity | now apply Hf].
        -- cbn. now rewrite Hk.
        -- cbn. now rewrite Hq.
Qed.

(* parameters with requires_grad = False are untouched by any update that returns *)
Lemma frozen_untouched : forall (ps : list param) step ps',
  update_parameter ps step = Some ps' ->
  length ps' = length ps /\
  (forall i, preq (nth i ps pdflt) = false -> nth i ps' pdflt = nth i ps pdflt) /\
  map (@pk F) ps' = map (@pk F) ps /\ map (@preq F) ps' = map (@preq F) ps.
Proof.
  intros ps step ps' H. unfold Optim.update_parameter in H.
  destruct (split_sizes _ _) as [steps|]; [|discriminate]. eapply zip_update_spec; eassumption.
Qed.

(* ---- all parameters trainable: parameter i receives exactly its slice ---- *)
Fixpoint update_all (ps : list param) (step : list F) : list param :=
  match ps with
  | [] => []
  | p :: r => param_add p (firstn (pnumel p) step) :: update_all r (skipn (pnumel p) step)
  end.

Lemma filter_all_true {X} (f : X -> bool) l : forallb f l = true -> filter f l = l.
Proof.
  induction l as [|x l IH]; cbn; intros H; [reflexivity|].
  apply andb_true_iff in H as [Hx Hl]. rewrite Hx. now rewrite IH.
Qed.

Lemma zip_update_all : forall (ps : list param) step,
  forallb (@preq F) ps = true -> sumnat (map (@pnumel F) ps) <= length step ->
  zip_update ps (split_go (map (@pnumel F) ps) step) = Some (update_all ps step).
Proof.
  induction ps as [|p ps IH]; intros step Hall Hlen; [reflexivity|].
  cbn in Hall. apply andb_true_iff in Hall as [Hp Hall]. cbn in Hlen.
  cbn [map split_go Optim.zip_update update_all]. rewrite Hp.
  rewrite firstn_length_le by lia. rewrite Nat.eqb_refl.
  rewrite IH; [reflexivity | assumption |]. rewrite skipn_length. unfold sumnat in *. lia.
Qed.

Lemma update_all_length ps step : length (update_all ps step) = length ps.
Proof. revert step; induction ps as [|p ps IH]; intros; cbn; [reflexivity | now rewrite IH]. Qed.

(* offset of parameter i in the step vector *)
Definition offset (ps : list param) (i : nat) : nat := sumnat (map (@pnumel F) (firstn i ps)).

Lemma update_all_nth : forall (ps : list param) step i, i < length ps ->
  nth i (update_all ps step) pdflt =
  param_add (nth i ps pdflt) (firstn (pnumel (nth i ps pdflt)) (skipn (offset ps i) step)).
Proof.
  induction ps as [|p ps IH]; intros step i Hi; [cbn in Hi; lia|].
  destruct i as [|i]; [reflexivity|].
  cbn [update_all nth]. cbn in Hi. rewrite IH by lia.
  unfold offset. cbn [firstn map sumnat fold_right]. now rewrite skipn_add.
Qed.

Lemma update_split : forall (ps : list param) step,
  forallb (@preq F) ps = true -> length step = sumnat (map (@pnumel F) ps) ->
  exists ps', update_parameter ps step = Some ps' /\ length ps' = length ps /\
    forall i, i < length ps ->
      nth i ps' pdflt =
      param_add (nth i ps pdflt) (firstn (pnumel (nth i ps pdflt)) (skipn (offset ps i) step)).
Proof.
  intros ps step Hall Hlen. exists (update_all ps step). split; [|split].
  - unfold Optim.update_parameter, split_sizes. rewrite (filter_all_true _ _ Hall).
    rewrite Hlen, Nat.eqb_refl. apply zip_update_all; [assumption | lia].
  - apply update_all_length.
  - intros i Hi. now apply update_all_nth.
Qed.

(* ---- a frozen parameter makes the split raise ---- *)
Lemma sum_filter_le (ps : list param) :
  sumnat (map (@pnumel F) (filter (@preq F) ps)) <= sumnat (map (@pnumel F) ps).
Proof.
  induction ps as [|p ps IH]; cbn; [lia|]. destruct (preq p); cbn; unfold sumnat in *; lia.
Qed.
Lemma sum_filter_lt (ps : list param) :
  (exists p, In p ps /\ preq p = false /\ 0 < pnumel p) ->
  sumnat (map (@pnumel F) (filter (@preq F) ps)) < sumnat (map (@pnumel F) ps).
Proof.
  induction ps as [|q ps IH]; intros [p [Hin [Hf Hn]]]; [contradiction|].
  cbn. destruct Hin as [->|Hin].
  - rewrite Hf. pose proof (sum_filter_le ps). unfold sumnat in *. lia.
  - assert (H : sumnat (map (@pnumel F) (filter (@preq F) ps)) < sumnat (map (@pnumel F) ps))
      by (apply IH; eauto).
    destruct (preq q); cbn; unfold sumnat in *; lia.
Qed.

Lemma update_with_frozen_raises : forall (ps : list param) step,
  (exists p, In p ps /\ preq p = false /\ 0 < pnumel p) ->
  length step = sumnat (map (@pnumel F) ps) ->
  update_parameter ps step = None.
Proof.
  intros ps step Hex Hlen. unfold Optim.update_parameter, split_sizes.
  pose proof (sum_filter_lt ps Hex) as Hlt.
  replace (Nat.eqb _ (length step)) with false; [reflexivity|].
  symmetry. apply Nat.eqb_neq. lia.
Qed.

(* behind the raise: the zip pairs ALL parameters with the slices of the TRAINABLE ones.  With a
   step that has one slice per trainable parameter (what the split asks for), a trainable parameter
   that follows a frozen one is paired with nothing and stays as it was, whatever the step is *)
Lemma zip_misaligned : forall (p q : param) step,
  preq p = false -> preq q = true -> length step = pnumel q ->
  update_parameter [p; q] step = Some [p; q].
Proof.
  intros p q step Hp Hq Hlen. unfold Optim.update_parameter, split_sizes. cbn [filter]. rewrite Hp, Hq.
  cbn [map sumnat fold_right]. rewrite Nat.add_0_r, <- Hlen, Nat.eqb_refl.
  cbn [split_go Optim.zip_update]. now rewrite Hp.
Qed.

(* ---- LieType.add_ per kind ---- *)
Lemma param_add_euclid (p : param) d : pk p = Euclid ->
  pdata (param_add p d) = zipw add (pdata p) d /\ pk (param_add p d) = Euclid /\ preq (param_add p d) = preq p.
Proof. intros H. unfold Optim.param_add. cbn. now rewrite H. Qed.

Lemma param_add_items (p : param) d : pk p <> Euclid ->
  let w := pwidth (pk p) in let n := (pnumel p / w)%nat in
  pdata (param_add p d) = concat (zipw (add_item gexp (pk p)) (chunks w n (pdata p)) (chunks w n d)).
Proof. intros H. unfold Optim.param_add. cbn. destruct (pk p); [congruence | reflexivity | reflexivity]. Qed.

Lemma zipw_nth {X Y Z} (f : X -> Y -> Z) : forall xs ys i dx dy dz, i < length xs -> i < length ys ->
  nth i (zipw f xs ys) dz = f (nth i xs dx) (nth i ys dy).
Proof.
  induction xs as [|x xs IH]; intros ys i dx dy dz Hx Hy; [cbn in Hx; lia|].
  destruct ys as [|y ys]; [cbn in Hy; lia|]. destruct i; [reflexivity|]. cbn in *. apply IH; lia.
Qed.
Lemma zipw_length {X Y Z} (f : X -> Y -> Z) : forall xs ys, length (zipw f xs ys) = Nat.min (length xs) (length ys).
Proof. induction xs as [|x xs IH]; intros [|y ys]; cbn; auto. Qed.
Lemma chunks_length w n (l : list F) : length (chunks w n l) = n.
Proof. unfold chunks. now rewrite map_length, seq_length. Qed.
Lemma chunks_nth w n (l : list F) t : t < n -> nth t (chunks w n l) [] = chunk w t l.
Proof.
  intros Ht. unfold chunks. rewrite (nth_indep _ [] (chunk w 0 l)) by (now rewrite map_length, seq_length).
  rewrite (map_nth (fun t => chunk w t l)). now rewrite seq_nth.
Qed.

(* item t of the updated parameter = add_ of item t with item t of its slice *)
Lemma param_add_item (p : param) d t : pk p <> Euclid ->
  let w := pwidth (pk p) in t < (pnumel p / w)%nat ->
  nth t (zipw (add_item gexp (pk p)) (chunks w (pnumel p / w) (pdata p)) (chunks w (pnumel p / w) d)) [] =
  add_item gexp (pk p) (chunk w t (pdata p)) (chunk w t d).
Proof.
  intros _ w Ht.
  rewrite (zipw_nth _ _ _ _ [] [] []) by (now rewrite chunks_length).
  now rewrite !chunks_nth.
Qed.

(* the extra slot of a group parameter's slice (and anything beyond the manifold dimension) is ignored *)
Lemma add_item_extra_ignored k x d d' :
  match k with Euclid => d = d' | Algebra g | Group g => firstn (adim g) d = firstn (adim g) d' end ->
  add_item gexp k x d = add_item gexp k x d'.
Proof. destruct k; cbn; intros ->; reflexivity. Qed.

Lemma add_item_group g x d : add_item gexp (Group g) x d = g_mul g (gexp g (firstn (adim g) d)) x.
Proof. reflexivity. Qed.
Lemma add_item_algebra g x d : add_item gexp (Algebra g) x d = zipw add x (firstn (adim g) d).
Proof. reflexivity. Qed.

End Update.
