(* Proofs for property C07 (Model/Optim.v).
   Part A (any number type): update_parameter - the split, the zip, the requires_grad filter.
   Part B (R): the LM matrix of the k-th trial in closed form; the systems handed to the solver.
   Part C (any / R): the weight expansion of normalize_RWJ is the broadcast of the weight. *)
From Coq Require Import ZArith Reals Lra Lia List Arith Bool.
Import ListNotations.
From PV Require Import Base.Num Base.Mat Model.LieGroup Model.Optim.

Lemma skipn_add {X} : forall b a (l : list X), skipn a (skipn b l) = skipn (b + a) l.
Proof.
  induction b as [|b IH]; intros a l; [reflexivity|].
  destruct l as [|x l]; [now rewrite !skipn_nil|]. cbn. apply IH.
Qed.

(* ===================================================================================== *)
(*  Part A: update_parameter                                                              *)
(* ===================================================================================== *)
Section Update.
Context {F : Type} {NF : Num F}.
Variable gexp : nat -> list F -> list F.
Notation param := (@param F).
Notation update_parameter := (update_parameter gexp).
Notation update_trainable := (update_trainable gexp).
Notation update_parameter_old := (update_parameter_old gexp).
Notation zip_update_old := (zip_update_old gexp).
Notation param_add := (param_add gexp).

Definition pdflt : param := {| pk := Euclid; pdata := []; preq := false |}.

(* ---- the repaired update (a845d9f): split and zip over the trainable parameters only ---- *)
Lemma update_trainable_spec : forall (ps : list param) steps,
  length (update_trainable ps steps) = length ps /\
  (forall i, preq (nth i ps pdflt) = false -> nth i (update_trainable ps steps) pdflt = nth i ps pdflt) /\
  map (@pk F) (update_trainable ps steps) = map (@pk F) ps /\
  map (@preq F) (update_trainable ps steps) = map (@preq F) ps.
Proof.
  induction ps as [|p ps IH]; intros steps; [cbn; repeat split; auto|].
  cbn [Optim.update_trainable]. destruct (preq p) eqn:Hp.
  - destruct steps as [|d steps].
    + destruct (IH []) as (Hl & Hf & Hk & Hq). repeat split.
      * cbn. now rewrite Hl.
      * intros [|i] Hi; cbn in *; [reflexivity | now apply Hf].
      * cbn. now rewrite Hk.
      * cbn. now rewrite Hq.
    + destruct (IH steps) as (Hl & Hf & Hk & Hq). repeat split.
      * cbn. now rewrite Hl.
      * intros [|i] Hi; cbn in *; [congruence | now apply Hf].
      * cbn. now rewrite Hk.
      * cbn. now rewrite Hq.
  - destruct (IH steps) as (Hl & Hf & Hk & Hq). repeat split.
    + cbn. now rewrite Hl.
    + intros [|i] Hi; cbn in *; [reflexivity | now apply Hf].
    + cbn. now rewrite Hk.
    + cbn. now rewrite Hq.
Qed.

(* parameters with requires_grad = False are untouched by every update that returns *)
Lemma frozen_untouched : forall (ps : list param) step ps',
  update_parameter ps step = Some ps' ->
  length ps' = length ps /\
  (forall i, preq (nth i ps pdflt) = false -> nth i ps' pdflt = nth i ps pdflt) /\
  map (@pk F) ps' = map (@pk F) ps /\ map (@preq F) ps' = map (@preq F) ps.
Proof.
  intros ps step ps' H. unfold Optim.update_parameter in H.
  destruct (split_sizes _ _) as [steps|]; [|discriminate]. inversion H; subst. apply update_trainable_spec.
Qed.

(* offset of parameter i in the step vector: the elements of the TRAINABLE parameters before it *)
Definition toffset (ps : list param) (i : nat) : nat :=
  sumnat (map (@pnumel F) (filter (@preq F) (firstn i ps))).

Lemma update_trainable_nth : forall (ps : list param) step i, i < length ps ->
  sumnat (map (@pnumel F) (filter (@preq F) ps)) <= length step ->
  nth i (update_trainable ps (split_go (map (@pnumel F) (filter (@preq F) ps)) step)) pdflt =
  if preq (nth i ps pdflt)
  then param_add (nth i ps pdflt) (firstn (pnumel (nth i ps pdflt)) (skipn (toffset ps i) step))
  else nth i ps pdflt.
Proof.
  induction ps as [|p ps IH]; intros step i Hi Hlen; [cbn in Hi; lia|].
  cbn [filter Optim.update_trainable]. destruct (preq p) eqn:Hp.
  - cbn [map split_go]. destruct i as [|i].
    + cbn [nth]. rewrite Hp. reflexivity.
    + cbn [nth]. cbn [filter map sumnat fold_right] in Hlen. rewrite Hp in Hlen. cbn [map sumnat fold_right] in Hlen.
      rewrite IH; [| cbn in Hi; lia | rewrite skipn_length; unfold sumnat in *; lia].
      unfold toffset. cbn [firstn filter]. rewrite Hp. cbn [map sumnat fold_right]. now rewrite skipn_add.
  - destruct i as [|i].
    + cbn [nth]. now rewrite Hp.
    + cbn [nth]. cbn [filter] in Hlen. rewrite Hp in Hlen.
      rewrite IH; [| cbn in Hi; lia | assumption].
      unfold toffset. cbn [firstn filter]. now rewrite Hp.
Qed.

(* MAIN: trainable parameter i receives exactly slice i of the trainable-only split (offset = elements of
   the trainable parameters before it), frozen parameters stay untouched; the update returns exactly when
   the step has one entry per trainable parameter element *)
Lemma update_split : forall (ps : list param) step,
  length step = sumnat (map (@pnumel F) (filter (@preq F) ps)) ->
  exists ps', update_parameter ps step = Some ps' /\ length ps' = length ps /\
    forall i, i < length ps ->
      nth i ps' pdflt =
      if preq (nth i ps pdflt)
      then param_add (nth i ps pdflt) (firstn (pnumel (nth i ps pdflt)) (skipn (toffset ps i) step))
      else nth i ps pdflt.
Proof.
  intros ps step Hlen. unfold Optim.update_parameter, split_sizes. rewrite Hlen, Nat.eqb_refl.
  eexists. split; [reflexivity|]. split; [apply update_trainable_spec|].
  intros i Hi. apply update_trainable_nth; [assumption | lia].
Qed.
Lemma update_returns_iff : forall (ps : list param) step,
  (exists ps', update_parameter ps step = Some ps') <-> length step = sumnat (map (@pnumel F) (filter (@preq F) ps)).
Proof.
  intros ps step. split.
  - intros [ps' H]. unfold Optim.update_parameter, split_sizes in H.
    destruct (Nat.eqb _ _) eqn:E; [|discriminate]. apply Nat.eqb_eq in E. now symmetry.
  - intros H. destruct (update_split ps step H) as [ps' [H1 _]]. eauto.
Qed.

(* ---- history: the update before a845d9f ---- *)
Lemma sum_filter_le (ps : list param) :
  sumnat (map (@pnumel F) (filter (@preq F) ps)) <= sumnat (map (@pnumel F) ps).
Proof.
  induction ps as [|p ps IH]; cbn; [lia|]. destruct (preq p); cbn; unfold sumnat in *; lia.
Qed.
Lemma sum_filter_lt (ps : list param) :
  (exists p, In p ps /\ preq p = false /\ 0 < pnumel p) ->
  sumnat (map (@pnumel F) (filter (@preq F) ps)) < sumnat (map (@pnumel F) ps).
Proof.
  induction ps as [|q ps IH]; intros [p [Hin [Hf Hn]]]; [contradiction|].
  cbn. destruct Hin as [->|Hin].
  - rewrite Hf. pose proof (sum_filter_le ps). unfold sumnat in *. lia.
  - assert (H : sumnat (map (@pnumel F) (filter (@preq F) ps)) < sumnat (map (@pnumel F) ps))
      by (apply IH; eauto).
    destruct (preq q); cbn; unfold sumnat in *; lia.
Qed.

(* a step with one entry per element of EVERY parameter (what the old, unfiltered Jacobian led to) made the
   old split raise as soon as one parameter was frozen *)
Lemma update_old_with_frozen_raises : forall (ps : list param) step,
  (exists p, In p ps /\ preq p = false /\ 0 < pnumel p) ->
  length step = sumnat (map (@pnumel F) ps) ->
  update_parameter_old ps step = None.
Proof.
  intros ps step Hex Hlen. unfold Optim.update_parameter_old, split_sizes.
  pose proof (sum_filter_lt ps Hex) as Hlt.
  replace (Nat.eqb _ (length step)) with false; [reflexivity|].
  symmetry. apply Nat.eqb_neq. lia.
Qed.

(* behind the old raise: the zip paired ALL parameters with the slices of the TRAINABLE ones *)
Lemma zip_misaligned_old : forall (p q : param) step,
  preq p = false -> preq q = true -> length step = pnumel q ->
  update_parameter_old [p; q] step = Some [p; q].
Proof.
  intros p q step Hp Hq Hlen. unfold Optim.update_parameter_old, split_sizes. cbn [filter]. rewrite Hp, Hq.
  cbn [map sumnat fold_right]. rewrite Nat.add_0_r, <- Hlen, Nat.eqb_refl.
  cbn [split_go Optim.zip_update_old]. now rewrite Hp.
Qed.
(* the repaired update on the same input gives q its slice *)
Lemma zip_aligned_new : forall (p q : param) step,
  preq p = false -> preq q = true -> length step = pnumel q ->
  update_parameter [p; q] step = Some [p; param_add q step].
Proof.
  intros p q step Hp Hq Hlen. unfold Optim.update_parameter, split_sizes. cbn [filter]. rewrite Hp, Hq.
  cbn [map sumnat fold_right]. rewrite Nat.add_0_r, <- Hlen, Nat.eqb_refl.
  cbn [split_go Optim.update_trainable]. rewrite Hp, Hq. now rewrite firstn_all.
Qed.

(* ---- the Jacobian keeps exactly the trainable columns ---- *)
Lemma filter_combine_snd {X} (f : param -> bool) : forall (a : list X) (b : list param), length a = length b ->
  map snd (filter (fun jp => f (snd jp)) (combine a b)) = filter f b.
Proof.
  induction a as [|x a IH]; intros [|y b] H; cbn in *; try lia; [reflexivity|].
  destruct (f y); cbn; rewrite IH by lia; reflexivity.
Qed.
Lemma zipw_fst_snd {X Y Z} (h : X -> Y -> Z) (l : list (X * Y)) :
  zipw h (map fst l) (map snd l) = map (fun xy => h (fst xy) (snd xy)) l.
Proof. induction l as [|[x y] l IH]; cbn; [reflexivity | now rewrite IH]. Qed.

(* flatten_row_jacobian = the unfiltered flattening of the blocks of the trainable parameters against the
   trainable parameters: the system is the one in the trainable columns; the blocks of frozen parameters
   are irrelevant *)
Definition trainable_blocks (Jr : list (list F)) (ps : list param) : list (list F) :=
  map fst (filter (fun jp => @preq F (snd jp)) (combine Jr ps)).
Lemma flatten_trainable_columns (Jr : list (list F)) (ps : list param) : length Jr = length ps ->
  flatten_row_jacobian Jr ps = flatten_row_jacobian_old (trainable_blocks Jr ps) (filter (@preq F) ps).
Proof.
  intros H. unfold flatten_row_jacobian, flatten_row_jacobian_old, trainable_blocks.
  rewrite <- (filter_combine_snd (@preq F) Jr ps H). now rewrite zipw_fst_snd.
Qed.
Lemma flatten_all_trainable (Jr : list (list F)) (ps : list param) :
  forallb (@preq F) ps = true -> flatten_row_jacobian Jr ps = flatten_row_jacobian_old Jr ps.
Proof.
  intros Hall. unfold flatten_row_jacobian, flatten_row_jacobian_old. f_equal.
  revert ps Hall. induction Jr as [|j Jr IH]; intros [|p ps] Hall; cbn in *; try reflexivity.
  apply andb_true_iff in Hall as [Hp Hall]. rewrite Hp. cbn. now rewrite IH.
Qed.
Lemma flatten_frozen_irrelevant : forall (Jr Jr' : list (list F)) (ps : list param),
  length Jr = length ps -> length Jr' = length ps ->
  (forall i, preq (nth i ps pdflt) = true -> nth i Jr [] = nth i Jr' []) ->
  flatten_row_jacobian Jr ps = flatten_row_jacobian Jr' ps.
Proof.
  intros Jr Jr' ps H1 H2 Hag. unfold flatten_row_jacobian. f_equal.
  revert Jr' ps H1 H2 Hag. induction Jr as [|j Jr IH]; intros [|j' Jr'] [|p ps] H1 H2 Hag; cbn in *; try lia; [reflexivity|].
  destruct (preq p) eqn:Hp.
  - cbn. rewrite (Hag 0%nat Hp). rewrite (IH Jr' ps) by (try lia; intros i Hi; exact (Hag (S i) Hi)). reflexivity.
  - apply (IH Jr' ps); try lia. intros i Hi. exact (Hag (S i) Hi).
Qed.

(* ---- LieType.add_ per kind ---- *)
Lemma param_add_euclid (p : param) d : pk p = Euclid ->
  pdata (param_add p d) = zipw add (pdata p) d /\ pk (param_add p d) = Euclid /\ preq (param_add p d) = preq p.
Proof. intros H. unfold Optim.param_add. cbn. now rewrite H. Qed.

Lemma param_add_items (p : param) d : pk p <> Euclid ->
  let w := pwidth (pk p) in let n := (pnumel p / w)%nat in
  pdata (param_add p d) = concat (zipw (add_item gexp (pk p)) (chunks w n (pdata p)) (chunks w n d)).
Proof. intros H. unfold Optim.param_add. cbn. destruct (pk p); [congruence | reflexivity | reflexivity]. Qed.

Lemma zipw_nth {X Y Z} (f : X -> Y -> Z) : forall xs ys i dx dy dz, i < length xs -> i < length ys ->
  nth i (zipw f xs ys) dz = f (nth i xs dx) (nth i ys dy).
Proof.
  induction xs as [|x xs IH]; intros ys i dx dy dz Hx Hy; [cbn in Hx; lia|].
  destruct ys as [|y ys]; [cbn in Hy; lia|]. destruct i; [reflexivity|]. cbn in *. apply IH; lia.
Qed.
Lemma zipw_length {X Y Z} (f : X -> Y -> Z) : forall xs ys, length (zipw f xs ys) = Nat.min (length xs) (length ys).
Proof. induction xs as [|x xs IH]; intros [|y ys]; cbn; auto. Qed.
Lemma chunks_length w n (l : list F) : length (chunks w n l) = n.
Proof. unfold chunks. now rewrite map_length, seq_length. Qed.
Lemma chunks_nth w n (l : list F) t : t < n -> nth t (chunks w n l) [] = chunk w t l.
Proof.
  intros Ht. unfold chunks. rewrite (nth_indep _ [] (chunk w 0 l)) by (now rewrite map_length, seq_length).
  rewrite (map_nth (fun t => chunk w t l)). now rewrite seq_nth.
Qed.

(* item t of the updated parameter = add_ of item t with item t of its slice *)
Lemma param_add_item (p : param) d t : pk p <> Euclid ->
  let w := pwidth (pk p) in t < (pnumel p / w)%nat ->
  nth t (zipw (add_item gexp (pk p)) (chunks w (pnumel p / w) (pdata p)) (chunks w (pnumel p / w) d)) [] =
  add_item gexp (pk p) (chunk w t (pdata p)) (chunk w t d).
Proof.
  intros _ w Ht.
  rewrite (zipw_nth _ _ _ _ [] [] []) by (now rewrite chunks_length).
  now rewrite !chunks_nth.
Qed.

(* the extra slot of a group parameter's slice (and anything beyond the manifold dimension) is ignored *)
Lemma add_item_extra_ignored k x d d' :
  match k with Euclid => d = d' | Algebra g | Group g => firstn (adim g) d = firstn (adim g) d' end ->
  add_item gexp k x d = add_item gexp k x d'.
Proof. destruct k; cbn; intros ->; reflexivity. Qed.

Lemma add_item_group g x d : add_item gexp (Group g) x d = g_mul g (gexp g (firstn (adim g) d)) x.
Proof. reflexivity. Qed.
Lemma add_item_algebra g x d : add_item gexp (Algebra g) x d = zipw add x (firstn (adim g) d).
Proof. reflexivity. Qed.

(* ---- the updated tensor, item by item of its last dimension ---- *)
Lemma firstn_app_exact {X} (x r : list X) : firstn (length x) (x ++ r) = x.
Proof. rewrite firstn_app, Nat.sub_diag, firstn_all. cbn. apply app_nil_r. Qed.
Lemma skipn_app_exact {X} (x r : list X) n : skipn (length x + n) (x ++ r) = skipn n r.
Proof.
  rewrite skipn_app. rewrite skipn_all2 by lia. cbn. f_equal. lia.
Qed.
Lemma chunk_concat_uniform w : forall (ls : list (list F)) t,
  Forall (fun x => length x = w) ls -> t < length ls -> chunk w t (concat ls) = nth t ls [].
Proof.
  induction ls as [|x ls IH]; intros t HF Ht; [cbn in Ht; lia|].
  inversion HF as [|? ? Hx HF']; subst. cbn [concat]. destruct t as [|t].
  - unfold chunk. cbn [Nat.mul skipn nth]. apply firstn_app_exact.
  - unfold chunk. cbn [nth]. replace (S t * length x) with (length x + t * length x) by lia.
    rewrite skipn_app_exact. apply IH; [assumption | cbn in Ht; lia].
Qed.

Lemma concat_length_uniform w (ls : list (list F)) :
  Forall (fun x => length x = w) ls -> length (concat ls) = length ls * w.
Proof.
  induction 1 as [|x ls Hx HF IH]; [reflexivity|]. cbn. rewrite app_length, IH, Hx. lia.
Qed.

Lemma g_mul_length g (a b : list F) : length (g_mul g a b) = S (adim g).
Proof. destruct g as [|[|[|g]]]; reflexivity. Qed.

Lemma chunk_len w t (l : list F) : (t + 1) * w <= length l -> length (chunk w t l) = w.
Proof. intros H. unfold chunk. rewrite firstn_length_le; [reflexivity|]. rewrite skipn_length. lia. Qed.

Lemma add_item_length k x d : k <> Euclid -> length x = pwidth k -> length d = pwidth k ->
  length (add_item gexp k x d) = pwidth k.
Proof.
  intros Hk Hx Hd. destruct k as [|g|g]; [congruence| |].
  - cbn [add_item pwidth] in *. rewrite zipw_length, firstn_length. lia.
  - cbn [add_item pwidth]. apply g_mul_length.
Qed.

Lemma pwidth_pos k : 0 < pwidth k.
Proof. destruct k as [|g|g]; cbn; try lia; destruct g as [|[|[|g]]]; cbn; lia. Qed.

(* p.add_(d.view(p.shape)) on a LieTensor parameter of n items: item t becomes add_ of item t and
   item t of the slice *)
Lemma param_add_chunks (p : param) d n : pk p <> Euclid ->
  pnumel p = n * pwidth (pk p) -> length d = n * pwidth (pk p) ->
  length (pdata (param_add p d)) = pnumel p /\
  forall t, t < n ->
    chunk (pwidth (pk p)) t (pdata (param_add p d)) =
    add_item gexp (pk p) (chunk (pwidth (pk p)) t (pdata p)) (chunk (pwidth (pk p)) t d).
Proof.
  intros Hk Hn Hd. pose proof (pwidth_pos (pk p)) as Hw.
  rewrite (param_add_items p d Hk). cbv zeta. rewrite Hn, Nat.div_mul by lia.
  set (w := pwidth (pk p)) in *.
  assert (HF : Forall (fun x => length x = w)
                 (zipw (add_item gexp (pk p)) (chunks w n (pdata p)) (chunks w n d))).
  { apply Forall_forall. intros x Hin. apply (In_nth _ _ []) in Hin. destruct Hin as [t [Ht <-]].
    rewrite zipw_length, !chunks_length, Nat.min_id in Ht.
    rewrite (zipw_nth _ _ _ _ [] [] []) by (now rewrite chunks_length).
    rewrite !chunks_nth by assumption.
    apply add_item_length; [assumption | |]; apply chunk_len; unfold pnumel in Hn; nia. }
  assert (HL : length (zipw (add_item gexp (pk p)) (chunks w n (pdata p)) (chunks w n d)) = n)
    by (now rewrite zipw_length, !chunks_length, Nat.min_id).
  split.
  - rewrite (concat_length_uniform w) by assumption. now rewrite HL.
  - intros t Ht. rewrite chunk_concat_uniform by (auto; lia).
    rewrite (zipw_nth _ _ _ _ [] [] []) by (now rewrite chunks_length).
    now rewrite !chunks_nth.
Qed.

End Update.

(* ===================================================================================== *)
(*  Part B (R): the matrices and right-hand sides handed to the solver                     *)
(* ===================================================================================== *)
#[local] Remove Hints NumQ NumZ : typeclass_instances.
Local Open Scope R_scope.

Section Systems.
Implicit Types A B M J : @mat R.

Lemma wf_map_diag n f A : wf n n A -> wf n n (map_diag f A).
Proof.
  intros HA. unfold map_diag. rewrite (wf_rows _ _ _ HA), (wf_cols _ _ _ HA).
  apply wf_mkmat; [eapply wf_pos_r | eapply wf_pos_c]; eassumption.
Qed.
Lemma mget_map_diag n f A i j : wf n n A -> (i < n)%nat -> (j < n)%nat ->
  mget (map_diag f A) i j = if Nat.eqb i j then f (mget A i j) else mget A i j.
Proof.
  intros HA Hi Hj. unfold map_diag. rewrite (wf_rows _ _ _ HA), (wf_cols _ _ _ HA).
  now rewrite mget_mkmat.
Qed.

Definition prodR (l : list R) : R := fold_right Rmult 1 l.

(* A.diagonal().add_(A.diagonal() * damping) applied k times, on the same matrix *)
Lemma lm_A_entries n : forall (lams : list R) A i j, wf n n A -> (i < n)%nat -> (j < n)%nat ->
  wf n n (lm_A A lams) /\
  mget (lm_A A lams) i j =
    if Nat.eqb i j then mget A i j * prodR (map (fun l => 1 + l) lams) else mget A i j.
Proof.
  induction lams as [|l lams IH]; intros A i j HA Hi Hj.
  - split; [exact HA|]. unfold lm_A, prodR. cbn [fold_left map fold_right]. destruct (Nat.eqb i j); lra.
  - unfold lm_A. cbn [fold_left]. fold (lm_A (lm_damp l A) lams).
    assert (HA' : wf n n (lm_damp l A)) by (now apply wf_map_diag).
    destruct (IH (lm_damp l A) i j HA' Hi Hj) as [Hw He]. split; [exact Hw|].
    rewrite He. unfold lm_damp. rewrite (mget_map_diag n) by assumption.
    destruct (Nat.eqb i j); [|reflexivity]. cbn [map prodR fold_right]. fold (prodR (map (fun l => 1 + l) lams)).
    cbn [add mul NumR]. ring.
Qed.

(* lm_diag_closed_form: after k trials with dampings lam_1..lam_k,
     diag A_k = clamp(diag (J_T J), min, max) * prod (1 + lam_j),   off-diagonal entries = those of J_T J *)
Lemma lm_diag_closed_form n mn mx JT J (lams : list R) i j :
  wf n n (mmul JT J) -> (i < n)%nat -> (j < n)%nat ->
  mget (lm_A (lm_A0 mn mx JT J) lams) i j =
    if Nat.eqb i j then clampT mn mx (mget (mmul JT J) i i) * prodR (map (fun l => 1 + l) lams)
    else mget (mmul JT J) i j.
Proof.
  intros HM Hi Hj. unfold lm_A0.
  destruct (lm_A_entries n lams (map_diag (clampT mn mx) (mmul JT J)) i j (wf_map_diag n _ _ HM) Hi Hj) as [_ He].
  rewrite He. rewrite (mget_map_diag n) by assumption.
  destruct (Nat.eqb i j) eqn:E; [|reflexivity]. apply Nat.eqb_eq in E. now subst.
Qed.

(* the clamp is the documented one *)
Lemma clampT_spec (lo hi x : R) : lo <= hi ->
  clampT lo hi x = Rmin (Rmax x lo) hi /\ lo <= clampT lo hi x <= hi /\ (lo <= x <= hi -> clampT lo hi x = x).
Proof.
  intros Hle. unfold clampT. cbn [ltb NumR].
  destruct (Rltb x lo) eqn:E1.
  - apply Rltb_true in E1. destruct (Rltb hi lo) eqn:E2.
    + apply Rltb_true in E2. lra.
    + apply Rltb_false in E2. rewrite Rmax_right by lra. rewrite Rmin_left by lra. repeat split; lra.
  - apply Rltb_false in E1. destruct (Rltb hi x) eqn:E2.
    + apply Rltb_true in E2. rewrite Rmax_left by lra. rewrite Rmin_right by lra. repeat split; lra.
    + apply Rltb_false in E2. rewrite Rmax_left by lra. rewrite Rmin_left by lra. repeat split; lra.
Qed.

(* -A @ v = -(A @ v) *)
Lemma vneg_vscal (v : list R) : vscal (- 1) v = vneg v.
Proof.
  apply (nth_ext _ _ 0 0).
  - unfold vneg. now rewrite length_vscal, map_length.
  - intros i Hi. rewrite length_vscal in Hi. change (nth i (vscal (-1) v) 0) with (vget (vscal (-1) v) i).
    rewrite vget_vscal by assumption. unfold vneg, vget.
    rewrite (nth_indep (map opp v) 0 (opp 0)) by (now rewrite map_length).
    rewrite map_nth. cbn [opp mul zero NumR]. ring.
Qed.
Lemma mapply_mneg n m A (v : list R) : wf n m A -> mapply (mneg A) v = vneg (mapply A v).
Proof.
  intros HA. unfold mneg. cbn [opp one NumR]. rewrite (mapply_mscale n m) by assumption. apply vneg_vscal.
Qed.

Section Solver.
Variable corr : cid -> @tensor R -> @mat R -> @tensor R * @mat R.
Variable gexp : nat -> list R -> list R.
Variable solver : @mat R -> list R -> option (list R).

(* what the step hands to update_parameter in GN: the solver's answer for (W J, -W R) resp. (J, -R) *)
Lemma gn_step_system (pb : @problem R) o :
  gn_step corr gexp solver pb = Some o ->
  exists Rv W J, assemble corr pb = Some (Rv, W, J) /\
    tA o = (match W with None => J | Some W => mmul W J end) /\
    tb o = (match W with None => vneg Rv | Some W => mapply (mneg W) Rv end) /\
    solver (tA o) (tb o) = Some (tD o) /\
    update_parameter gexp (pbP pb) (tD o) = Some (tP o).
Proof.
  unfold gn_step, gn_step_gen. destruct (assemble corr pb) as [[[Rv W] J]|]; [|discriminate].
  destruct (gn_system Rv W J) as [A b] eqn:Es.
  destruct (solver A b) as [D|] eqn:ED; [|discriminate].
  destruct (update_parameter gexp (pbP pb) D) as [ps|] eqn:EU; [|discriminate].
  intros H. inversion H; subst; clear H. cbn.
  exists Rv, W, J. split; [reflexivity|].
  unfold gn_system in Es. destruct W as [W|]; inversion Es; subst; auto.
Qed.

Lemma lm_trial_system Aprev JT Rv lam ps o :
  lm_trial gexp solver Aprev JT Rv lam ps = TDone o ->
  tA o = lm_damp lam Aprev /\ tb o = lm_b JT Rv /\ solver (tA o) (tb o) = Some (tD o) /\
  update_parameter gexp ps (tD o) = Some (tP o).
Proof.
  unfold lm_trial, lm_trial_gen. destruct (solver _ _) as [D|] eqn:ED; [|discriminate].
  destruct (update_parameter gexp ps D) as [ps'|] eqn:EU; [|discriminate].
  intros H. inversion H; subst; clear H. cbn. auto.
Qed.

Lemma lm_init_system mn mx (pb : @problem R) A0 JT Rv :
  lm_init corr mn mx pb = Some (A0, JT, Rv) ->
  exists W J, assemble corr pb = Some (Rv, W, J) /\
    JT = (match W with None => mtr J | Some W => mmul (mtr J) W end) /\
    A0 = map_diag (clampT mn mx) (mmul JT J).
Proof.
  unfold lm_init. destruct (assemble corr pb) as [[[Rv' W] J]|]; [|discriminate].
  intros H. inversion H; subst; clear H. exists W, J. split; [reflexivity|]. split; [unfold lm_JT; now destruct W | reflexivity].
Qed.

(* the step happens exactly when the solver returns one entry per trainable parameter element (= per column
   of the filtered Jacobian); then frozen parameters are untouched *)
Lemma gn_step_returns (pb : @problem R) Rv W J D :
  assemble corr pb = Some (Rv, W, J) ->
  solver (fst (gn_system Rv W J)) (snd (gn_system Rv W J)) = Some D ->
  length D = sumnat (map (@pnumel R) (filter (@preq R) (pbP pb))) ->
  exists o, gn_step corr gexp solver pb = Some o /\ tD o = D /\ length (tP o) = length (pbP pb) /\
    forall i, (i < length (pbP pb))%nat ->
      nth i (tP o) pdflt =
      if preq (nth i (pbP pb) pdflt)
      then param_add gexp (nth i (pbP pb) pdflt)
             (firstn (pnumel (nth i (pbP pb) pdflt)) (skipn (toffset (pbP pb) i) D))
      else nth i (pbP pb) pdflt.
Proof.
  intros Ha Hs Hl. unfold gn_step, gn_step_gen. rewrite Ha. destruct (gn_system Rv W J) as [A b]. cbn in Hs. rewrite Hs.
  destruct (update_split gexp (pbP pb) D Hl) as (ps' & HU & HL & HN). rewrite HU.
  eexists. split; [reflexivity|]. cbn. auto.
Qed.

(* history: before a845d9f a step with a frozen parameter (with at least one element) never happened:
   whatever the solver returned for the full Jacobian (one entry per column = per parameter element),
   the split over the trainable sizes raised *)
Lemma gn_step_old_frozen_raises (pb : @problem R) :
  (exists p, In p (pbP pb) /\ preq p = false /\ (0 < pnumel p)%nat) ->
  (forall A b D, solver A b = Some D -> length D = sumnat (map (@pnumel R) (pbP pb))) ->
  gn_step_old corr gexp solver pb = None.
Proof.
  intros Hex Hlen. unfold gn_step_old, gn_step_gen. destruct (assemble_old corr pb) as [[[Rv W] J]|]; [|reflexivity].
  destruct (gn_system Rv W J) as [A b]. destruct (solver A b) as [D|] eqn:ED; [|reflexivity].
  now rewrite (update_old_with_frozen_raises gexp (pbP pb) D Hex (Hlen _ _ _ ED)).
Qed.
Lemma lm_trial_old_frozen_raises Aprev JT Rv lam (ps : list (@param R)) :
  (exists p, In p ps /\ preq p = false /\ (0 < pnumel p)%nat) ->
  (forall A b D, solver A b = Some D -> length D = sumnat (map (@pnumel R) ps)) ->
  lm_trial_old gexp solver Aprev JT Rv lam ps = TRaise \/ lm_trial_old gexp solver Aprev JT Rv lam ps = TSolverFailed.
Proof.
  intros Hex Hlen. unfold lm_trial_old, lm_trial_gen. destruct (solver _ _) as [D|] eqn:ED; [|now right].
  left. now rewrite (update_old_with_frozen_raises gexp ps D Hex (Hlen _ _ _ ED)).
Qed.
End Solver.

(* ---- least squares: the normal equations characterise the minimisers of |A x - b|^2 ---- *)
Definition sqn (v : list R) : R := Mat.vdot v v.

Lemma vminus_split (u v w : list R) n : length u = n -> length v = n -> length w = n ->
  vminus u w = vplus (vminus v w) (vminus u v).
Proof.
  intros Hu Hv Hw. apply (vec_ext n).
  - now rewrite length_vminus.
  - now rewrite length_vplus, length_vminus.
  - intros i Hi. rewrite vget_vplus by (rewrite length_vminus; lia).
    rewrite !vget_vminus by lia. cbn [add sub NumR]. ring.
Qed.

Lemma normal_eq_minimises n m A (b x : list R) : wf n m A -> length b = n -> length x = m ->
  mapply (mtr A) (mapply A x) = mapply (mtr A) b ->
  forall y, length y = m -> sqn (vminus (mapply A x) b) <= sqn (vminus (mapply A y) b).
Proof.
  intros HA Hb Hx Hne y Hy.
  assert (LAx : length (mapply A x) = n) by (now apply (length_mapply n m)).
  assert (LAy : length (mapply A y) = n) by (now apply (length_mapply n m)).
  set (r := vminus (mapply A x) b). set (e := vminus y x).
  assert (Lr : length r = n) by (unfold r; now rewrite length_vminus).
  assert (Le : length e = m) by (unfold e; now rewrite length_vminus).
  assert (HAe : mapply A e = vminus (mapply A y) (mapply A x))
    by (unfold e; now apply (mapply_vminus n m)).
  assert (Hdec : vminus (mapply A y) b = vplus r (mapply A e)).
  { rewrite HAe. unfold r. now apply (vminus_split _ _ _ n). }
  assert (LAe : length (mapply A e) = n) by (now apply (length_mapply n m)).
  (* r is orthogonal to the range of A *)
  assert (Hort : Mat.vdot r (mapply A e) = 0).
  { rewrite (vdot_adjoint n m) by assumption. unfold r.
    rewrite (mapply_vminus m n) by (eauto with wf). rewrite Hne.
    unfold Mat.vdot. apply sumn_zero. intros k Hk. rewrite length_vminus in Hk.
    rewrite vget_vminus by assumption. cbn [sub mul NumR]. ring. }
  unfold sqn. rewrite Hdec.
  rewrite vdot_vplus_l by lia. rewrite !vdot_vplus_r by lia.
  rewrite Hort. rewrite (vdot_comm (mapply A e) r) by lia. rewrite Hort.
  pose proof (vdot_self_nonneg (mapply A e)). cbn [add NumR]. lra.
Qed.

End Systems.

(* ===================================================================================== *)
(*  Part C: the weight expansion of normalize_RWJ                                          *)
(* ===================================================================================== *)
Lemma prodn_app a b : prodn (a ++ b) = (prodn a * prodn b)%nat.
Proof. unfold prodn. induction a as [|x a IH]; cbn [app fold_right]; [lia|]. rewrite IH. lia. Qed.

Lemma seq_add_map a n : seq a n = map (fun t => (a + t)%nat) (seq 0 n).
Proof.
  revert a. induction n as [|n IH]; intros a; [reflexivity|].
  cbn [seq map]. f_equal; [lia|]. rewrite (IH (S a)), (IH 1%nat), map_map.
  apply map_ext. intros t. lia.
Qed.

(* ws * ni : the whole list repeated, i.e. block t of the result is block (t mod len) of ws *)
Lemma concat_repeat_map {X} (f : nat -> X) m P : (0 < m)%nat ->
  concat (repeat (map f (seq 0 m)) P) = map (fun t => f (t mod m)) (seq 0 (P * m)).
Proof.
  intros Hm. induction P as [|P IH]; [reflexivity|].
  cbn [repeat concat]. rewrite IH. replace (S P * m)%nat with (m + P * m)%nat by lia.
  rewrite seq_app, map_app. f_equal.
  - apply map_ext_in. intros t Ht. apply in_seq in Ht. now rewrite Nat.mod_small by lia.
  - cbn [Nat.add]. rewrite (seq_add_map m), map_map. apply map_ext. intros t.
    replace (m + t)%nat with (t + 1 * m)%nat by lia. now rewrite Nat.mod_add by lia.
Qed.

Section Weights.
Context {F : Type} {NF : Num F}.

(* block s of a weight tensor of shape suf ++ [d; d] *)
Definition wblock (d : nat) (wdata : list F) (s : nat) : @mat F :=
  chunks d d (skipn (s * (d * d)) wdata).

(* weight_expansion_is_broadcast: residual of shape pre ++ suf ++ [d], weight of any documented shape
   suf ++ [d; d] (R*R, N*R*R, M*N*R*R, B*M*N*R*R: suf = any suffix of the batch dimensions): the list
   of diagonal blocks built by normalize_RWJ has one d x d block per residual item t (row-major over
   the batch dimensions), and it is the weight item  t mod |suf|  -- the weight broadcast over the
   leading batch dimensions.  Covers d = 1 (the `r.shape[-1] == 1` reshaping). *)
Lemma weight_expansion_is_broadcast : forall (pre suf : list nat) (d : nat) (rdata wdata : list F),
  (0 < d)%nat -> (0 < prodn suf)%nat ->
  expand_weight {| tshape := pre ++ suf ++ [d]; tdata := rdata |}
                {| tshape := suf ++ [d; d]; tdata := wdata |}
  = Some (map (fun t => wblock d wdata (t mod prodn suf)) (seq 0 (prodn pre * prodn suf))).
Proof.
  intros pre suf d rdata wdata Hd Hs.
  unfold expand_weight, last_dim, tnumel. cbn [tshape tdata].
  assert (R1 : rev (pre ++ suf ++ [d]) = d :: rev suf ++ rev pre)
    by (rewrite !rev_app_distr; reflexivity).
  assert (R2 : rev (suf ++ [d; d]) = d :: d :: rev suf) by (rewrite rev_app_distr; reflexivity).
  rewrite R1, R2.
  assert (P2 : prodn (suf ++ [d; d]) = (prodn suf * (d * d))%nat)
    by (rewrite prodn_app; cbn; lia).
  assert (P1 : (prodn (pre ++ suf ++ [d]) * d = prodn pre * (prodn suf * (d * d)))%nat)
    by (rewrite !prodn_app; cbn; lia).
  assert (Hpos : (0 < prodn suf * (d * d))%nat) by (apply Nat.mul_pos_pos; [|apply Nat.mul_pos_pos]; assumption).
  rewrite P1, P2.
  replace (Nat.eqb (prodn suf * (d * d)) 0) with false by (symmetry; apply Nat.eqb_neq; lia).
  rewrite Nat.div_mul by lia.
  destruct (Nat.eqb d 1) eqn:E1.
  - apply Nat.eqb_eq in E1. subst d.
    assert (R3 : rev ((suf ++ [1; 1]) ++ [1; 1])%nat = (1 :: 1 :: 1 :: 1 :: rev suf)%nat)
      by (rewrite !rev_app_distr; reflexivity).
    rewrite R3. cbn [Nat.mul Nat.add Nat.eqb].
    rewrite !prodn_app. cbn [prodn fold_right Nat.mul Nat.add].
    rewrite !Nat.mul_1_r, Nat.div_1_r.
    f_equal. rewrite <- concat_repeat_map by assumption. reflexivity.
  - rewrite R2. replace (Nat.eqb (d * d) 0) with false by (symmetry; apply Nat.eqb_neq; nia).
    rewrite P2, Nat.div_mul by nia.
    f_equal. rewrite <- concat_repeat_map by assumption. reflexivity.
Qed.

(* several residuals: the blocks are concatenated in residual order *)
Lemma expand_weights_app (Rs Ws : list (@tensor F)) r w a b :
  expand_weight r w = Some a -> expand_weights Rs Ws = Some b ->
  expand_weights (r :: Rs) (w :: Ws) = Some (a ++ b).
Proof. intros Ha Hb. cbn. now rewrite Ha, Hb. Qed.

(* ---- reshaping facts ---- *)
Lemma firstn_plus {X} : forall a b (l : list X), firstn (a + b) l = firstn a l ++ firstn b (skipn a l).
Proof.
  induction a as [|a IH]; intros b l; [reflexivity|].
  destruct l as [|x l]; [now rewrite !firstn_nil|]. cbn. now rewrite IH.
Qed.
Lemma concat_chunks_from w : forall n a (l : list F),
  concat (map (fun t => chunk w t l) (seq a n)) = firstn (n * w) (skipn (a * w) l).
Proof.
  induction n as [|n IH]; intros a l; [reflexivity|].
  cbn [seq map concat]. rewrite IH. unfold chunk.
  replace (S n * w)%nat with (w + n * w)%nat by lia. rewrite firstn_plus, skipn_add.
  now replace (a * w + w)%nat with (S a * w)%nat by lia.
Qed.
Lemma concat_chunks w n (l : list F) : length l = (n * w)%nat -> concat (chunks w n l) = l.
Proof.
  intros H. unfold chunks. rewrite concat_chunks_from. cbn [Nat.mul skipn]. rewrite <- H. apply firstn_all.
Qed.
Lemma chunk_length w t (l : list F) : ((t + 1) * w <= length l)%nat -> length (chunk w t l) = w.
Proof. intros H. unfold chunk. rewrite firstn_length_le; [reflexivity|]. rewrite skipn_length. lia. Qed.

Lemma zipw_map_seq {X Y Z} (h : X -> Y -> Z) (f : nat -> X) (g : nat -> Y) : forall a n,
  zipw h (map f (seq a n)) (map g (seq a n)) = map (fun t => h (f t) (g t)) (seq a n).
Proof. intros a n. revert a. induction n as [|n IH]; intros a; [reflexivity|]. cbn. now rewrite IH. Qed.

(* a weight block is a d x d matrix when the weight tensor has enough data *)
Lemma wblock_shape d wdata s : (0 < d)%nat -> ((s + 1) * (d * d) <= length wdata)%nat ->
  wblock d wdata s <> [] /\ mcols (wblock d wdata s) = d /\ length (wblock d wdata s) = d /\
  Forall (fun row => length row = d) (wblock d wdata s).
Proof.
  intros Hd Hlen. unfold wblock.
  assert (Hrow : forall i, (i < d)%nat -> length (chunk d i (skipn (s * (d * d)) wdata)) = d).
  { intros i Hi. apply chunk_length. rewrite skipn_length. nia. }
  assert (HF : Forall (fun row => length row = d) (chunks d d (skipn (s * (d * d)) wdata))).
  { apply Forall_forall. intros row Hin. unfold chunks in Hin. apply in_map_iff in Hin.
    destruct Hin as [i [<- Hi]]. apply in_seq in Hi. apply Hrow. lia. }
  assert (HL : length (chunks d d (skipn (s * (d * d)) wdata)) = d)
    by (unfold chunks; now rewrite map_length, seq_length).
  repeat split; try assumption.
  - intros E. rewrite E in HL. cbn in HL. lia.
  - destruct (chunks d d (skipn (s * (d * d)) wdata)) as [|row rows] eqn:E; [cbn in HL; lia|].
    cbn. now inversion HF.
Qed.
End Weights.

(* ---- W @ R for the block-diagonal W: block by block ---- *)
Section BlockDiag.
Local Open Scope R_scope.

Definition rowdot (c : nat) (row v : list R) : R := sumn c (fun k => nth k row 0 * vget v k).

Lemma map_nth_seq {X Y} (g : X -> Y) (l : list X) (d : X) :
  map (fun i => g (nth i l d)) (seq 0 (length l)) = map g l.
Proof.
  induction l as [|x l IH]; [reflexivity|]. cbn [length seq map nth]. f_equal.
  rewrite <- seq_shift, map_map. exact IH.
Qed.
Lemma mapply_rows (A : @mat R) v : mapply A v = map (fun row => rowdot (mcols A) row v) A.
Proof. unfold mapply, mkvec, mrows. rewrite <- (map_nth_seq (fun row => rowdot (mcols A) row v) A []). reflexivity. Qed.

Lemma sumn_split (a b : nat) (f : nat -> R) : sumn (a + b) f = sumn a f + sumn b (fun k => f (a + k)%nat).
Proof.
  induction b as [|b IH]; [rewrite Nat.add_0_r; cbn; lra|].
  replace (a + S b)%nat with (S (a + b)) by lia. cbn [sumn]. rewrite IH. cbn [add NumR]. ring.
Qed.

Lemma nth_zeros n k : nth k (@zeros R _ n) 0 = 0.
Proof. unfold zeros. revert k. induction n as [|n IH]; intros [|k]; cbn; auto. Qed.

Lemma rowdot_left cM cB (row v u : list R) : length row = cM -> length v = cM ->
  rowdot (cM + cB) (row ++ zeros cB) (v ++ u) = rowdot cM row v.
Proof.
  intros Hr Hv. unfold rowdot. rewrite sumn_split.
  rewrite (sumn_zero cB); [|intros k Hk; rewrite app_nth2 by lia; rewrite nth_zeros; cbn [mul NumR]; ring].
  rewrite Rplus_0_r. apply sumn_ext. intros k Hk. unfold vget. now rewrite !app_nth1 by lia.
Qed.
Lemma rowdot_right cM cB (row v u : list R) : length v = cM ->
  rowdot (cM + cB) (zeros cM ++ row) (v ++ u) = rowdot cB row u.
Proof.
  intros Hv. unfold rowdot. rewrite sumn_split.
  rewrite (sumn_zero cM); [|intros k Hk; rewrite app_nth1 by (unfold zeros; rewrite repeat_length; lia);
                            rewrite nth_zeros; cbn [mul NumR]; ring].
  rewrite Rplus_0_l. apply sumn_ext. intros k Hk. unfold vget.
  rewrite !app_nth2 by (unfold zeros; try rewrite repeat_length; lia).
  unfold zeros. rewrite repeat_length. now replace (cM + k - cM)%nat with k by lia; rewrite Hv;
    replace (cM + k - cM)%nat with k by lia.
Qed.

Definition blk_ok (M : @mat R) (v : list R) : Prop :=
  M <> [] /\ Forall (fun row => length row = mcols M) M /\ length v = mcols M.

Lemma mapply_block_diag : forall (Ms : list (@mat R)) (vs : list (list R)),
  Forall2 blk_ok Ms vs ->
  mapply (block_diag Ms) (concat vs) = concat (zipw mapply Ms vs) /\
  Forall (fun row => length row = mcols (block_diag Ms)) (block_diag Ms) /\
  length (concat vs) = mcols (block_diag Ms).
Proof.
  induction 1 as [|M v Ms vs [Hne [HF Hv]] Hrest [IHm [IHF IHl]]].
  - cbn. repeat split; constructor.
  - cbn [block_diag concat zipw]. set (B := block_diag Ms) in *. set (u := concat vs) in *.
    set (cM := mcols M) in *. set (cB := mcols B) in *.
    destruct M as [|row0 M']; [congruence|].
    assert (Hc : mcols (map (fun row => row ++ zeros cB) (row0 :: M') ++ map (fun row => zeros cM ++ row) B) = (cM + cB)%nat).
    { cbn. rewrite app_length. unfold zeros. rewrite repeat_length. reflexivity. }
    split; [|split].
    + rewrite mapply_rows, Hc, map_app, !map_map. f_equal.
      * rewrite mapply_rows. fold cM. apply map_ext_in. intros row Hin.
        rewrite Forall_forall in HF. apply rowdot_left; [now apply HF | assumption].
      * rewrite <- IHm. rewrite mapply_rows. fold cB. apply map_ext_in. intros row Hin.
        apply rowdot_right. assumption.
    + rewrite Hc. apply Forall_app. split; apply Forall_forall; intros row Hin; apply in_map_iff in Hin;
        destruct Hin as [r0 [<- Hin]]; rewrite app_length; unfold zeros; rewrite repeat_length.
      * rewrite Forall_forall in HF. now rewrite (HF _ Hin).
      * rewrite Forall_forall in IHF. now rewrite (IHF _ Hin).
    + rewrite Hc, app_length. now rewrite Hv, IHl.
Qed.

(* the weighted residual W @ R of one residual tensor: item t of the residual (row-major over
   ALL batch dimensions) is multiplied by weight item  t mod |suf| *)
Lemma weighted_residual_is_broadcast (pre suf : list nat) (d : nat) (rdata wdata : list R) :
  (0 < d)%nat -> (0 < prodn suf)%nat ->
  length wdata = (prodn suf * (d * d))%nat -> length rdata = (prodn pre * prodn suf * d)%nat ->
  exists Ms, expand_weight {| tshape := pre ++ suf ++ [d]; tdata := rdata |}
                           {| tshape := suf ++ [d; d]; tdata := wdata |} = Some Ms /\
    mapply (block_diag Ms) rdata =
    concat (map (fun t => mapply (wblock d wdata (t mod prodn suf)) (chunk d t rdata))
                (seq 0 (prodn pre * prodn suf))).
Proof.
  intros Hd Hs Hw Hr. eexists. split; [now apply weight_expansion_is_broadcast|].
  set (N := (prodn pre * prodn suf)%nat).
  rewrite <- (concat_chunks d N rdata) at 1 by (subst N; lia).
  unfold chunks at 1.
  assert (HF2 : Forall2 blk_ok (map (fun t => wblock d wdata (t mod prodn suf)) (seq 0 N))
                               (map (fun t => chunk d t rdata) (seq 0 N))).
  { assert (G : forall a n, (a + n <= N)%nat ->
       Forall2 blk_ok (map (fun t => wblock d wdata (t mod prodn suf)) (seq a n))
                      (map (fun t => chunk d t rdata) (seq a n))).
    { intros a n. revert a. induction n as [|n IH]; intros a Han; [constructor|].
      cbn [seq map]. constructor; [|apply IH; lia].
      assert (Hm : (a mod prodn suf < prodn suf)%nat) by (apply Nat.mod_upper_bound; lia).
      destruct (wblock_shape d wdata (a mod prodn suf) Hd) as (H1 & H2 & _ & H4); [rewrite Hw; nia|].
      unfold blk_ok. rewrite H2. repeat split; try assumption.
      apply chunk_length. rewrite Hr. subst N. nia. }
    apply G. lia. }
  destruct (mapply_block_diag _ _ HF2) as [Hm _]. rewrite Hm. now rewrite zipw_map_seq.
Qed.
(* W @ J column by column: column j of W J is W applied to column j of J, so the broadcast statement for
   W @ R transfers to every column of the weighted Jacobian *)
Definition mcol_of (j : nat) (J : @mat R) : list R := map (fun row => nth j row 0) J.
Lemma mmul_columns n m (W J : @mat R) i j : wf n n W -> wf n m J -> (i < n)%nat -> (j < m)%nat ->
  mget (mmul W J) i j = vget (mapply W (mcol_of j J)) i.
Proof.
  intros HW HJ Hi Hj. rewrite (mget_mmul n n m) by assumption. rewrite (vget_mapply n n) by assumption.
  apply sumn_ext. intros k Hk. f_equal. unfold mcol_of, vget, mget.
  cbn [zero NumR].
  rewrite (nth_indep (map (fun row : list R => nth j row 0) J) 0 ((fun row : list R => nth j row 0) []))
    by (rewrite map_length; destruct HJ as (_ & _ & -> & _); exact Hk).
  now rewrite (map_nth (fun row : list R => nth j row 0)).
Qed.
End BlockDiag.

(* ===================================================================================== *)
(*  Part D: the k-th trial of a call, and the faithful model on a frozen parameter          *)
(* ===================================================================================== *)
Lemma lm_A_snoc {F} {NF : Num F} (A0 : @mat F) lams lam : lm_A A0 (lams ++ [lam]) = lm_damp lam (lm_A A0 lams).
Proof. unfold lm_A. now rewrite fold_left_app. Qed.

Section Witness.
Local Open Scope R_scope.
(* r = a + c with a trainable, c frozen (requires_grad = False); modjac's Jacobian has a column for each *)
Definition frozen_pb : @problem R :=
  {| pbR := [{| tshape := [1%nat]; tdata := [1] |}];
     pbJ := [[[1]; [1]]];
     pbW := None; pbC := [CTrivial];
     pbP := [{| pk := Euclid; pdata := [0]; preq := true |}; {| pk := Euclid; pdata := [0]; preq := false |}] |}.

(* before a845d9f: the full Jacobian [1 1], and the step raised for every total solver *)
Lemma frozen_pb_assemble_old corr : assemble_old corr frozen_pb = Some ([1], None, [[1; 1]]).
Proof. reflexivity. Qed.
Lemma frozen_pb_old_raises corr gexp solver :
  (forall A b, exists D, solver A b = Some D /\ length D = mcols A) ->
  gn_step_old corr gexp solver frozen_pb = None.
Proof.
  intros Hs. unfold gn_step_old, gn_step_gen. rewrite frozen_pb_assemble_old. cbn [gn_system].
  destruct (Hs [[1; 1]] (vneg [1])) as [D [HD HL]]. rewrite HD.
  rewrite (update_old_with_frozen_raises gexp (pbP frozen_pb) D); [reflexivity | | exact HL].
  exists {| pk := Euclid; pdata := [0]; preq := false |}. cbn. repeat split; auto.
Qed.
(* repaired: the system is the trainable column [1], the trainable parameter moves by the solver's
   answer, the frozen one is untouched *)
Lemma frozen_pb_assemble corr : assemble corr frozen_pb = Some ([1], None, [[1]]).
Proof. reflexivity. Qed.
Lemma frozen_pb_steps corr gexp (solver : @mat R -> list R -> option (list R)) d :
  solver [[1]] (vneg [1]) = Some [d] ->
  exists o, gn_step corr gexp solver frozen_pb = Some o /\ tA o = [[1]] /\ tD o = [d] /\
            map (@pdata R) (tP o) = [[0 + d]; [0]] /\ map (@preq R) (tP o) = [true; false].
Proof.
  intros Hs. unfold gn_step, gn_step_gen. rewrite frozen_pb_assemble. cbn [gn_system]. rewrite Hs.
  eexists. split; [reflexivity|]. repeat split; reflexivity.
Qed.

(* the same step when nothing is frozen: it happens, and the parameters move by the solver's answer *)
Definition free_pb : @problem R :=
  {| pbR := [{| tshape := [1%nat]; tdata := [1] |}];
     pbJ := [[[1]; [1]]];
     pbW := None; pbC := [CTrivial];
     pbP := [{| pk := Euclid; pdata := [0]; preq := true |}; {| pk := Euclid; pdata := [0]; preq := true |}] |}.
Lemma free_pb_steps corr gexp (solver : @mat R -> list R -> option (list R)) d1 d2 :
  solver [[1; 1]] (vneg [1]) = Some [d1; d2] ->
  exists o, gn_step corr gexp solver free_pb = Some o /\ tD o = [d1; d2] /\
            map (@pdata R) (tP o) = [[0 + d1]; [0 + d2]].
Proof.
  intros Hs. unfold gn_step, gn_step_gen.
  assert (Ha : assemble corr free_pb = Some ([1], None, [[1; 1]])) by reflexivity.
  rewrite Ha. cbn [gn_system]. rewrite Hs. eexists. split; [reflexivity|]. split; reflexivity.
Qed.

(* the solver contract is satisfiable on that system: the minimum-norm solution and another one *)
Lemma free_pb_normal_equations :
  let A := [[1; 1]] in let b := vneg [1] in
  mapply (mtr A) (mapply A [-1/2; -1/2]) = mapply (mtr A) b /\ mapply (mtr A) (mapply A [-1; 0]) = mapply (mtr A) b.
Proof.
  cbv [mapply mtr mkmat mkvec mrows mcols map seq length sumn mget vget nth vneg add mul zero opp NumR].
  split; (apply f_equal2; [lra | apply f_equal2; [lra | reflexivity]]).
Qed.
End Witness.
