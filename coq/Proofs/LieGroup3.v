(* C03 (strengthening): validity over histories that mix @ (both sides), Inv and Retr / add_ / +
   (X := Exp(a) @ X), any length, all four groups.  Exact arithmetic over R.
   - the scale stays positive after every history (Exp gives exp(sigma) > 0);
   - |q|^2 stays exactly 1 when every retraction increment is on the closed-form branch of so3_Exp
     (eps < |phi|);
   - in general |q|^2 drifts by at most a factor (1 + theta^6/20000) per small-angle (Taylor branch)
     retraction: | |q_n|^2 - 1 | <= (1 + e0) (1 + eps^6/20000)^k - 1, k = number of Taylor-branch
     retractions, e0 the deviation of the initial element; <= k eps^6/10000 for e0 = 0 and every
     realistic k. *)
From Coq Require Import Reals Lra Psatz List.
Import ListNotations.
From PV Require Import Base.Num Base.RTac Model.LieGroup Model.LieExp Model.LieLog Model.LieJac Model.LieTangent
  Proofs.LieGroup Proofs.LieExp.
Local Open Scope R_scope.
#[local] Remove Hints NumQ NumZ : typeclass_instances.

(* ---------------- elementary bounds *)
Lemma pow1p_bound (d : R) (k : nat) : 0 <= d -> (1 + d) ^ k * (1 - INR k * d) <= 1.
Proof.
  intros Hd. induction k as [|k IH].
  - cbn. lra.
  - rewrite S_INR. cbn [pow].
    assert (Hp : 0 <= (1 + d) ^ k) by (apply pow_le; lra).
    assert (Hs : (1 + d) * (1 - (INR k + 1) * d) <= 1 - INR k * d).
    { pose proof (pos_INR k) as Hk. nra. }
    replace ((1 + d) * (1 + d) ^ k * (1 - (INR k + 1) * d))
      with ((1 + d) ^ k * ((1 + d) * (1 - (INR k + 1) * d))) by ring.
    eapply Rle_trans; [apply Rmult_le_compat_l; [exact Hp | exact Hs] | exact IH].
Qed.
Lemma pow1p_linear (d : R) (k : nat) : 0 <= d -> INR k * d <= 1 / 2 -> (1 + d) ^ k - 1 <= 2 * INR k * d.
Proof.
  intros Hd Hk. pose proof (pow1p_bound d k Hd) as H. pose proof (pos_INR k) as Hn.
  assert (Hp : 1 <= (1 + d) ^ k) by (apply pow_R1_Rle; lra).
  set (P := (1 + d) ^ k) in *. set (x := INR k * d) in *.
  assert (Hx : 0 <= x) by (unfold x; nra).
  replace (2 * INR k * d) with (2 * x) by (unfold x; ring).
  (* P (1 - x) <= 1, 0 <= x <= 1/2:  P <= 1 + 2 x  since  (1 + 2x)(1 - x) >= 1 *)
  nra.
Qed.

(* C01's Taylor-branch bound (so3_exp_unit_taylor_bound), re-derived without the interval tactic so that the
   history theorems depend on the axioms of the Reals only *)
Lemma taylor_bound_elem (eps : R) (x : vec3R) : vnorm x <= eps -> eps <= 1 / 1024 ->
  Rabs (qnorm2 (so3_exp eps x) - 1) <= (vnorm x) ^ 6 / 20000.
Proof.
  intros Ht He. rewrite (so3_exp_unit_taylor eps x Ht). cbv zeta. rewrite <- (vnorm_sq x).
  pose proof (vnorm_nonneg x) as Hp. set (t := vnorm x) in *. clearbody t.
  replace (t * t * (t * t) * (t * t) * (t * t * (t * t) - 60 * (t * t) + 640) / 14745600)
    with (t ^ 6 * ((t * t * (t * t) - 60 * (t * t) + 640) / 14745600)) by field.
  rewrite Rabs_mult. rewrite (Rabs_pos_eq (t ^ 6)) by (apply pow_le; lra).
  unfold Rdiv at 2. apply Rmult_le_compat_l; [apply pow_le; lra|].
  assert (H2 : 0 <= t * t <= 1 / 1048576) by nra.
  set (s := t * t) in *. clearbody s. apply Rabs_le. split; nra.
Qed.

(* ---------------- histories with retractions, generic in the group *)
Section RHistory.
Variable G A : Type.
Variable gmul : G -> G -> G.
Variable ginv : G -> G.
Variable gexp : A -> G.
Variable rot : G -> quatR.        (* rotation() *)
Variable pos : G -> Prop.         (* positive scale (True for SO3 / SE3) *)
Variable phi : A -> vec3R.        (* rotation part of an algebra element *)
Variable eps : R.
Hypothesis rot_mul : forall X Y, rot (gmul X Y) = SO3_mul (rot X) (rot Y).
Hypothesis rot_inv : forall X, rot (ginv X) = SO3_inv (rot X).
Hypothesis rot_exp : forall a, rot (gexp a) = so3_exp eps (phi a).
Hypothesis pos_mul : forall X Y, pos X -> pos Y -> pos (gmul X Y).
Hypothesis pos_inv : forall X, pos X -> pos (ginv X).
Hypothesis pos_exp : forall a, pos (gexp a).

Inductive rop := RMulL (Y : G) | RMulR (Y : G) | RInv | RRetr (a : A).
(* one update of the element: Y @ X, X @ Y, Inv(X), Retr(X, a) = X.add_(a) = Exp(a) @ X *)
Definition rstep (X : G) (o : rop) : G :=
  match o with RMulL Y => gmul Y X | RMulR Y => gmul X Y | RInv => ginv X | RRetr a => gmul (gexp a) X end.
Definition validG (X : G) : Prop := unitq (rot X) /\ pos X.
Definition valid_rop (o : rop) : Prop :=
  match o with RMulL Y => validG Y | RMulR Y => validG Y | _ => True end.
(* the increment of a retraction is on the closed-form branch of so3_Exp *)
Definition closed_rop (o : rop) : Prop :=
  match o with RRetr a => eps < vnorm (phi a) | _ => True end.

Lemma pos_rstep X o : pos X -> valid_rop o -> pos (rstep X o).
Proof. destruct o; cbn; intros HX Ho; try destruct Ho; auto. Qed.
Theorem pos_rhistory : forall ops X, pos X -> Forall valid_rop ops -> pos (fold_left rstep ops X).
Proof.
  induction ops as [|o ops IH]; cbn; intros X HX Hops; [exact HX|].
  inversion Hops; subst. apply IH; [now apply pos_rstep | assumption].
Qed.

(* exact validity: all retraction increments on the closed-form branch *)
Lemma valid_rstep X o : 0 <= eps -> validG X -> valid_rop o -> closed_rop o -> validG (rstep X o).
Proof.
  intros He [HX HP]. destruct o as [Y|Y| |a]; cbn; intros Ho Hc; try destruct Ho as [HY HQ]; split; auto;
    rewrite ?rot_mul, ?rot_inv, ?rot_exp; auto using unitq_mul, unitq_inv.
  apply unitq_mul; [|assumption]. unfold unitq. now apply so3_exp_unit_closed.
Qed.
Theorem valid_rhistory : forall ops X, 0 <= eps -> validG X -> Forall valid_rop ops -> Forall closed_rop ops ->
  validG (fold_left rstep ops X).
Proof.
  induction ops as [|o ops IH]; cbn; intros X He HX Hops Hc; [exact HX|].
  inversion Hops; subst. inversion Hc; subst. apply IH; auto. now apply valid_rstep.
Qed.

(* the drift law with retractions: |q|^2 is the product of the factors' |.|^2 *)
Fixpoint rnorm_prod (ops : list rop) : R :=
  match ops with
  | [] => 1
  | RMulL Y :: r => qnorm2 (rot Y) * rnorm_prod r
  | RMulR Y :: r => qnorm2 (rot Y) * rnorm_prod r
  | RInv :: r => rnorm_prod r
  | RRetr a :: r => qnorm2 (so3_exp eps (phi a)) * rnorm_prod r
  end.
Theorem qnorm2_rhistory : forall ops X,
  qnorm2 (rot (fold_left rstep ops X)) = qnorm2 (rot X) * rnorm_prod ops.
Proof.
  induction ops as [|o ops IH]; intros X; cbn [fold_left rnorm_prod]; [ring|].
  rewrite IH. destruct o; cbn [rstep]; rewrite ?rot_mul, ?rot_inv, ?rot_exp, ?qnorm2_mul, ?qnorm2_inv; ring.
Qed.

(* number of retractions whose increment is on the small-angle (Taylor) branch *)
Fixpoint count_small (ops : list rop) : nat :=
  match ops with
  | [] => 0
  | RRetr a :: r => if Rle_dec (vnorm (phi a)) eps then S (count_small r) else count_small r
  | _ :: r => count_small r
  end.
Lemma count_small_le_length ops : (count_small ops <= length ops)%nat.
Proof.
  induction ops as [|o ops IH]; cbn; [lia|]. destruct o; try lia. destruct (Rle_dec _ _); lia.
Qed.
Lemma count_small_closed ops : Forall closed_rop ops -> count_small ops = 0%nat.
Proof.
  induction 1 as [|o ops Ho _ IH]; cbn; [reflexivity|]. destruct o; auto.
  cbn in Ho. destruct (Rle_dec _ _); [lra | exact IH].
Qed.

Definition dmax : R := eps ^ 6 / 20000.
Lemma exp_factor_bound a : 0 <= eps <= 1 / 1024 ->
  Rabs (qnorm2 (so3_exp eps (phi a)) - 1) <= (if Rle_dec (vnorm (phi a)) eps then dmax else 0).
Proof.
  intros He. destruct (Rle_dec (vnorm (phi a)) eps) as [Hs|Hs].
  - eapply Rle_trans; [apply taylor_bound_elem; [exact Hs | lra]|].
    unfold dmax, Rdiv. apply Rmult_le_compat_r; [lra|]. apply pow_incr. split; [apply vnorm_nonneg | exact Hs].
  - rewrite so3_exp_unit_closed by lra. rewrite Rminus_diag_eq by reflexivity. rewrite Rabs_R0. lra.
Qed.

Lemma drift_step (N f e d : R) : 0 <= e -> 0 <= d -> Rabs (N - 1) <= e -> Rabs (f - 1) <= d ->
  Rabs (N * f - 1) <= (1 + e) * (1 + d) - 1.
Proof.
  intros He Hd HN Hf. replace (N * f - 1) with ((N - 1) * f + (f - 1)) by ring.
  eapply Rle_trans; [apply Rabs_triang|]. rewrite Rabs_mult.
  assert (Hf' : Rabs f <= 1 + d).
  { replace f with (1 + (f - 1)) by ring. eapply Rle_trans; [apply Rabs_triang|]. rewrite Rabs_R1. lra. }
  pose proof (Rabs_pos (N - 1)). pose proof (Rabs_pos f). nra.
Qed.

(* general drift bound: start within e0 of unit norm, any history *)
Theorem drift_rhistory : forall ops X e0, 0 <= eps <= 1 / 1024 -> 0 <= e0 ->
  Rabs (qnorm2 (rot X) - 1) <= e0 -> Forall valid_rop ops ->
  Rabs (qnorm2 (rot (fold_left rstep ops X)) - 1) <= (1 + e0) * (1 + dmax) ^ count_small ops - 1.
Proof.
  assert (Hdm : 0 <= eps -> 0 <= dmax) by (intros; unfold dmax, Rdiv; apply Rmult_le_pos; [apply pow_le; lra | lra]).
  induction ops as [|o ops IH]; intros X e0 He He0 HX Hops; cbn [fold_left count_small].
  - cbn [pow]. lra.
  - inversion Hops as [|? ? Ho Hr]; subst. specialize (Hdm (proj1 He)).
    assert (Hunit : forall Y, validG Y -> Rabs (qnorm2 (rot Y) - 1) <= 0).
    { intros Y [HY _]. unfold unitq in HY. rewrite HY, Rminus_diag_eq by reflexivity. rewrite Rabs_R0. lra. }
    destruct o as [Y|Y| |a]; cbn [rstep].
    + eapply Rle_trans; [apply IH with (e0 := e0); auto|]; [|lra].
      rewrite rot_mul, qnorm2_mul, Rmult_comm.
      pose proof (drift_step _ _ e0 0 He0 (Rle_refl 0) HX (Hunit Y Ho)). lra.
    + eapply Rle_trans; [apply IH with (e0 := e0); auto|]; [|lra].
      rewrite rot_mul, qnorm2_mul.
      pose proof (drift_step _ _ e0 0 He0 (Rle_refl 0) HX (Hunit Y Ho)). lra.
    + apply IH; auto. now rewrite rot_inv, qnorm2_inv.
    + pose proof (exp_factor_bound a He) as Hf.
      destruct (Rle_dec (vnorm (phi a)) eps) as [Hs|Hs].
      * eapply Rle_trans; [apply IH with (e0 := (1 + e0) * (1 + dmax) - 1); auto|].
        -- nra.
        -- rewrite rot_mul, rot_exp, qnorm2_mul, Rmult_comm. now apply drift_step.
        -- cbn [pow]. lra.
      * apply IH; auto. rewrite rot_mul, rot_exp, qnorm2_mul, Rmult_comm.
        pose proof (drift_step _ _ e0 0 He0 (Rle_refl 0) HX Hf). lra.
Qed.

(* from a valid element: (1 + eps^6/20000)^k - 1, and the linear form k eps^6 / 10000 *)
Corollary drift_rhistory_valid ops X : 0 <= eps <= 1 / 1024 -> validG X -> Forall valid_rop ops ->
  Rabs (qnorm2 (rot (fold_left rstep ops X)) - 1) <= (1 + dmax) ^ count_small ops - 1.
Proof.
  intros He [HX _] Hops. pose proof (drift_rhistory ops X 0 He (Rle_refl 0)) as H.
  unfold unitq in HX. rewrite HX, Rminus_diag_eq, Rabs_R0 in H by reflexivity.
  specialize (H (Rle_refl 0) Hops). lra.
Qed.
Corollary drift_rhistory_linear ops X : 0 <= eps <= 1 / 1024 -> validG X -> Forall valid_rop ops ->
  INR (length ops) * eps ^ 6 <= 10000 ->
  Rabs (qnorm2 (rot (fold_left rstep ops X)) - 1) <= INR (count_small ops) * eps ^ 6 / 10000.
Proof.
  intros He HX Hops Hn. eapply Rle_trans; [now apply drift_rhistory_valid|].
  assert (Hd : 0 <= dmax) by (unfold dmax, Rdiv; apply Rmult_le_pos; [apply pow_le; lra | lra]).
  assert (Hk : INR (count_small ops) <= INR (length ops)) by (apply le_INR, count_small_le_length).
  pose proof (pos_INR (count_small ops)) as Hk0.
  assert (He6 : 0 <= eps ^ 6) by (apply pow_le; lra).
  eapply Rle_trans; [apply pow1p_linear; [exact Hd|]|].
  - unfold dmax. nra.
  - unfold dmax. lra.
Qed.
End RHistory.

(* ---------------- the four instances *)
Definition so3_alg := vec3R.
Definition se3_alg := (vec3R * vec3R)%type.        (* (tau, phi) *)
Definition rxso3_alg := (vec3R * R)%type.          (* (phi, sigma) *)
Definition sim3_alg := (vec3R * (vec3R * R))%type. (* (tau, (phi, sigma)) *)
Definition pos_RxSO3 (X : rxso3R) : Prop := 0 < snd X.
Definition pos_Sim3 (X : sim3R) : Prop := 0 < snd (snd X).
Definition ptrue {G : Type} (X : G) : Prop := True.

Lemma pos_RxSO3_mul X Y : pos_RxSO3 X -> pos_RxSO3 Y -> pos_RxSO3 (RxSO3_mul X Y).
Proof. unfold pos_RxSO3, RxSO3_mul. cbn [fst snd]. num_unfold. apply Rmult_lt_0_compat. Qed.
Lemma pos_RxSO3_inv X : pos_RxSO3 X -> pos_RxSO3 (RxSO3_inv X).
Proof. unfold pos_RxSO3, RxSO3_inv. cbn [fst snd]. num_unfold. unfold Rdiv. rewrite Rmult_1_l. apply Rinv_0_lt_compat. Qed.
Lemma pos_RxSO3_exp eps a : pos_RxSO3 (rxso3_exp eps a).
Proof. unfold pos_RxSO3, rxso3_exp. cbn [fst snd texp TransR]. apply exp_pos. Qed.
Lemma pos_Sim3_mul X Y : pos_Sim3 X -> pos_Sim3 Y -> pos_Sim3 (Sim3_mul X Y).
Proof. unfold pos_Sim3, Sim3_mul. cbn [fst snd]. apply pos_RxSO3_mul. Qed.
Lemma pos_Sim3_inv X : pos_Sim3 X -> pos_Sim3 (Sim3_inv X).
Proof. unfold pos_Sim3, Sim3_inv. cbn [fst snd]. apply pos_RxSO3_inv. Qed.
Lemma pos_Sim3_exp eps a : pos_Sim3 (sim3_exp eps a).
Proof. unfold pos_Sim3, sim3_exp. cbn [fst snd]. apply pos_RxSO3_exp. Qed.

(* validG of the section is the validity predicate of Proofs/LieGroup.v *)
Lemma validG_SO3 X : validG quatR (fun q => q) ptrue X <-> valid_SO3 X.
Proof. unfold validG, ptrue, valid_SO3. tauto. Qed.
Lemma validG_SE3 X : validG se3R snd ptrue X <-> valid_SE3 X.
Proof. unfold validG, ptrue, valid_SE3. tauto. Qed.
Lemma validG_RxSO3 X : validG rxso3R fst pos_RxSO3 X <-> valid_RxSO3 X.
Proof. unfold validG, pos_RxSO3, valid_RxSO3. tauto. Qed.
Lemma validG_Sim3 X : validG sim3R (fun X => fst (snd X)) pos_Sim3 X <-> valid_Sim3 X.
Proof. unfold validG, pos_Sim3, valid_Sim3. tauto. Qed.

Section Instances.
Variable eps : R.

(* SO3 *)
Definition so3_rstep := rstep quatR so3_alg SO3_mul SO3_inv (so3_exp eps).
Definition so3_vop := valid_rop quatR so3_alg (fun q => q) ptrue.
Definition so3_cop := closed_rop quatR so3_alg (fun a => a) eps.
Definition so3_small := count_small quatR so3_alg (fun a => a) eps.
(* SE3 *)
Definition se3_rstep := rstep se3R se3_alg SE3_mul SE3_inv (se3_exp eps).
Definition se3_vop := valid_rop se3R se3_alg snd ptrue.
Definition se3_cop := closed_rop se3R se3_alg snd eps.
Definition se3_small := count_small se3R se3_alg snd eps.
(* RxSO3 *)
Definition rxso3_rstep := rstep rxso3R rxso3_alg RxSO3_mul RxSO3_inv (rxso3_exp eps).
Definition rxso3_vop := valid_rop rxso3R rxso3_alg fst pos_RxSO3.
Definition rxso3_cop := closed_rop rxso3R rxso3_alg fst eps.
Definition rxso3_small := count_small rxso3R rxso3_alg fst eps.
(* Sim3 *)
Definition sim3_rstep := rstep sim3R sim3_alg Sim3_mul Sim3_inv (sim3_exp eps).
Definition sim3_vop := valid_rop sim3R sim3_alg (fun X => fst (snd X)) pos_Sim3.
Definition sim3_cop := closed_rop sim3R sim3_alg (fun a => fst (snd a)) eps.
Definition sim3_small := count_small sim3R sim3_alg (fun a => fst (snd a)) eps.

(* exact validity, closed-form increments *)
Theorem so3_valid_rhistory ops X : 0 <= eps -> valid_SO3 X -> Forall so3_vop ops -> Forall so3_cop ops ->
  valid_SO3 (fold_left so3_rstep ops X).
Proof.
  intros He HX Hv Hc. apply validG_SO3.
  apply (valid_rhistory quatR so3_alg SO3_mul SO3_inv (so3_exp eps) (fun q => q) ptrue (fun a => a) eps); auto;
    try (intros; reflexivity); try (intros; exact I).
  all: try now apply validG_SO3.
Qed.
Theorem se3_valid_rhistory ops X : 0 <= eps -> valid_SE3 X -> Forall se3_vop ops -> Forall se3_cop ops ->
  valid_SE3 (fold_left se3_rstep ops X).
Proof.
  intros He HX Hv Hc. apply validG_SE3.
  apply (valid_rhistory se3R se3_alg SE3_mul SE3_inv (se3_exp eps) snd ptrue snd eps); auto;
    try (intros; reflexivity); try (intros; exact I).
  all: try now apply validG_SE3.
Qed.
Theorem rxso3_valid_rhistory ops X : 0 <= eps -> valid_RxSO3 X -> Forall rxso3_vop ops -> Forall rxso3_cop ops ->
  valid_RxSO3 (fold_left rxso3_rstep ops X).
Proof.
  intros He HX Hv Hc. apply validG_RxSO3.
  apply (valid_rhistory rxso3R rxso3_alg RxSO3_mul RxSO3_inv (rxso3_exp eps) fst pos_RxSO3 fst eps); auto;
    try (intros; reflexivity); auto using pos_RxSO3_mul, pos_RxSO3_inv, pos_RxSO3_exp.
  all: try now apply validG_RxSO3.
Qed.
Theorem sim3_valid_rhistory ops X : 0 <= eps -> valid_Sim3 X -> Forall sim3_vop ops -> Forall sim3_cop ops ->
  valid_Sim3 (fold_left sim3_rstep ops X).
Proof.
  intros He HX Hv Hc. apply validG_Sim3.
  apply (valid_rhistory sim3R sim3_alg Sim3_mul Sim3_inv (sim3_exp eps) (fun X => fst (snd X)) pos_Sim3
           (fun a => fst (snd a)) eps); auto;
    try (intros; reflexivity); auto using pos_Sim3_mul, pos_Sim3_inv, pos_Sim3_exp.
  all: try now apply validG_Sim3.
Qed.

(* positive scale after every history, any increments *)
Theorem rxso3_pos_rhistory ops X : 0 < snd X -> Forall rxso3_vop ops -> 0 < snd (fold_left rxso3_rstep ops X).
Proof.
  intros HX Hv.
  apply (pos_rhistory rxso3R rxso3_alg RxSO3_mul RxSO3_inv (rxso3_exp eps) fst pos_RxSO3); auto
    using pos_RxSO3_mul, pos_RxSO3_inv, pos_RxSO3_exp.
Qed.
Theorem sim3_pos_rhistory ops X : 0 < snd (snd X) -> Forall sim3_vop ops -> 0 < snd (snd (fold_left sim3_rstep ops X)).
Proof.
  intros HX Hv.
  apply (pos_rhistory sim3R sim3_alg Sim3_mul Sim3_inv (sim3_exp eps) (fun X => fst (snd X)) pos_Sim3); auto
    using pos_Sim3_mul, pos_Sim3_inv, pos_Sim3_exp.
Qed.

(* drift of |q|^2, any increments *)
Theorem so3_drift_rhistory ops X e0 : 0 <= eps <= 1 / 1024 -> 0 <= e0 -> Rabs (qnorm2 X - 1) <= e0 ->
  Forall so3_vop ops ->
  Rabs (qnorm2 (fold_left so3_rstep ops X) - 1) <= (1 + e0) * (1 + eps ^ 6 / 20000) ^ so3_small ops - 1.
Proof.
  intros He He0 HX Hv.
  apply (drift_rhistory quatR so3_alg SO3_mul SO3_inv (so3_exp eps) (fun q => q) ptrue (fun a => a) eps); auto.
Qed.
Theorem se3_drift_rhistory ops X e0 : 0 <= eps <= 1 / 1024 -> 0 <= e0 -> Rabs (qnorm2 (snd X) - 1) <= e0 ->
  Forall se3_vop ops ->
  Rabs (qnorm2 (snd (fold_left se3_rstep ops X)) - 1) <= (1 + e0) * (1 + eps ^ 6 / 20000) ^ se3_small ops - 1.
Proof.
  intros He He0 HX Hv.
  apply (drift_rhistory se3R se3_alg SE3_mul SE3_inv (se3_exp eps) snd ptrue snd eps); auto.
Qed.
Theorem rxso3_drift_rhistory ops X e0 : 0 <= eps <= 1 / 1024 -> 0 <= e0 -> Rabs (qnorm2 (fst X) - 1) <= e0 ->
  Forall rxso3_vop ops ->
  Rabs (qnorm2 (fst (fold_left rxso3_rstep ops X)) - 1) <= (1 + e0) * (1 + eps ^ 6 / 20000) ^ rxso3_small ops - 1.
Proof.
  intros He He0 HX Hv.
  apply (drift_rhistory rxso3R rxso3_alg RxSO3_mul RxSO3_inv (rxso3_exp eps) fst pos_RxSO3 fst eps); auto.
Qed.
Theorem sim3_drift_rhistory ops X e0 : 0 <= eps <= 1 / 1024 -> 0 <= e0 -> Rabs (qnorm2 (fst (snd X)) - 1) <= e0 ->
  Forall sim3_vop ops ->
  Rabs (qnorm2 (fst (snd (fold_left sim3_rstep ops X))) - 1)
    <= (1 + e0) * (1 + eps ^ 6 / 20000) ^ sim3_small ops - 1.
Proof.
  intros He He0 HX Hv.
  apply (drift_rhistory sim3R sim3_alg Sim3_mul Sim3_inv (sim3_exp eps) (fun X => fst (snd X)) pos_Sim3
           (fun a => fst (snd a)) eps); auto.
Qed.

(* linear form from a valid start, the most general group *)
Theorem sim3_drift_rhistory_linear ops X : 0 <= eps <= 1 / 1024 -> valid_Sim3 X -> Forall sim3_vop ops ->
  INR (length ops) * eps ^ 6 <= 10000 ->
  Rabs (qnorm2 (fst (snd (fold_left sim3_rstep ops X))) - 1) <= INR (sim3_small ops) * eps ^ 6 / 10000.
Proof.
  intros He HX Hv Hn.
  apply (drift_rhistory_linear sim3R sim3_alg Sim3_mul Sim3_inv (sim3_exp eps) (fun X => fst (snd X)) pos_Sim3
           (fun a => fst (snd a)) eps); auto.
  all: try now apply validG_Sim3.
Qed.
Theorem so3_drift_rhistory_linear ops X : 0 <= eps <= 1 / 1024 -> valid_SO3 X -> Forall so3_vop ops ->
  INR (length ops) * eps ^ 6 <= 10000 ->
  Rabs (qnorm2 (fold_left so3_rstep ops X) - 1) <= INR (so3_small ops) * eps ^ 6 / 10000.
Proof.
  intros He HX Hv Hn.
  apply (drift_rhistory_linear quatR so3_alg SO3_mul SO3_inv (so3_exp eps) (fun q => q) ptrue (fun a => a) eps); auto.
  all: try now apply validG_SO3.
Qed.
Theorem se3_drift_rhistory_linear ops X : 0 <= eps <= 1 / 1024 -> valid_SE3 X -> Forall se3_vop ops ->
  INR (length ops) * eps ^ 6 <= 10000 ->
  Rabs (qnorm2 (snd (fold_left se3_rstep ops X)) - 1) <= INR (se3_small ops) * eps ^ 6 / 10000.
Proof.
  intros He HX Hv Hn.
  apply (drift_rhistory_linear se3R se3_alg SE3_mul SE3_inv (se3_exp eps) snd ptrue snd eps); auto.
  all: try now apply validG_SE3.
Qed.
Theorem rxso3_drift_rhistory_linear ops X : 0 <= eps <= 1 / 1024 -> valid_RxSO3 X -> Forall rxso3_vop ops ->
  INR (length ops) * eps ^ 6 <= 10000 ->
  Rabs (qnorm2 (fst (fold_left rxso3_rstep ops X)) - 1) <= INR (rxso3_small ops) * eps ^ 6 / 10000.
Proof.
  intros He HX Hv Hn.
  apply (drift_rhistory_linear rxso3R rxso3_alg RxSO3_mul RxSO3_inv (rxso3_exp eps) fst pos_RxSO3 fst eps); auto
    using pos_RxSO3_mul, pos_RxSO3_inv, pos_RxSO3_exp.
  all: try now apply validG_RxSO3.
Qed.
End Instances.

(* ---------------- the history step is the modelled Retr / add_ / + of Model/LieTangent.v (list interface) *)
Lemma l_q_q_l (q : quatR) : l_q (q_l q) = q.
Proof. destruct q as [[[a b] c] d]. reflexivity. Qed.
Lemma l_SE3_SE3_l (X : se3R) : l_SE3 (SE3_l X) = X.
Proof. destruct X as [[[a b] c] [[[x y] z] w]]. reflexivity. Qed.
Lemma l_RxSO3_RxSO3_l (X : rxso3R) : l_RxSO3 (RxSO3_l X) = X.
Proof. destruct X as [[[[x y] z] w] s]. reflexivity. Qed.
Lemma l_Sim3_Sim3_l (X : sim3R) : l_Sim3 (Sim3_l X) = X.
Proof. destruct X as [[[a b] c] [[[[x y] z] w] s]]. reflexivity. Qed.

Definition so3_alg_l (a : so3_alg) : list R := v3_l a.
Definition se3_alg_l (a : se3_alg) : list R := v3_l (fst a) ++ v3_l (snd a).
Definition rxso3_alg_l (a : rxso3_alg) : list R := v3_l (fst a) ++ [snd a].
Definition sim3_alg_l (a : sim3_alg) : list R := v3_l (fst a) ++ v3_l (fst (snd a)) ++ [snd (snd a)].

(* Retr(X, a) and X.add_(a ++ tail) / X + (a ++ tail) are the RRetr step, for every tail *)
Lemma retr_rows_SO3 eps (X : quatR) (a : so3_alg) tail :
  retr_l eps 0 (q_l X) (so3_alg_l a) = q_l (so3_rstep eps X (RRetr _ _ a)) /\
  add_group_l eps 0 (q_l X) (so3_alg_l a ++ tail) = q_l (so3_rstep eps X (RRetr _ _ a)).
Proof.
  destruct a as [[a1 a2] a3].
  split; unfold retr_l, add_group_l, so3_alg_l, so3_rstep, rstep, g_mul, exp_l; cbn [v3_l vx vy vz fst snd app firstn adim l_v3 nth];
    now rewrite !l_q_q_l.
Qed.
Lemma retr_rows_SE3 eps (X : se3R) (a : se3_alg) tail :
  retr_l eps 1 (SE3_l X) (se3_alg_l a) = SE3_l (se3_rstep eps X (RRetr _ _ a)) /\
  add_group_l eps 1 (SE3_l X) (se3_alg_l a ++ tail) = SE3_l (se3_rstep eps X (RRetr _ _ a)).
Proof.
  destruct a as [[[a1 a2] a3] [[b1 b2] b3]].
  split; unfold retr_l, add_group_l, se3_alg_l, se3_rstep, rstep, g_mul, exp_l; cbn [v3_l vx vy vz fst snd app firstn skipn adim l_v3 nth];
    now rewrite !l_SE3_SE3_l.
Qed.
Lemma retr_rows_RxSO3 eps (X : rxso3R) (a : rxso3_alg) tail :
  retr_l eps 2 (RxSO3_l X) (rxso3_alg_l a) = RxSO3_l (rxso3_rstep eps X (RRetr _ _ a)) /\
  add_group_l eps 2 (RxSO3_l X) (rxso3_alg_l a ++ tail) = RxSO3_l (rxso3_rstep eps X (RRetr _ _ a)).
Proof.
  destruct a as [[[a1 a2] a3] s].
  split; unfold retr_l, add_group_l, rxso3_alg_l, rxso3_rstep, rstep, g_mul, exp_l; cbn [v3_l vx vy vz fst snd app firstn skipn adim l_v3 nth];
    now rewrite !l_RxSO3_RxSO3_l.
Qed.
Lemma retr_rows_Sim3 eps (X : sim3R) (a : sim3_alg) tail :
  retr_l eps 3 (Sim3_l X) (sim3_alg_l a) = Sim3_l (sim3_rstep eps X (RRetr _ _ a)) /\
  add_group_l eps 3 (Sim3_l X) (sim3_alg_l a ++ tail) = Sim3_l (sim3_rstep eps X (RRetr _ _ a)).
Proof.
  destruct a as [[[a1 a2] a3] [[[b1 b2] b3] s]].
  split; unfold retr_l, add_group_l, sim3_alg_l, sim3_rstep, rstep, g_mul, exp_l; cbn [v3_l vx vy vz fst snd app firstn skipn adim l_v3 nth];
    now rewrite !l_Sim3_Sim3_l.
Qed.

(* ---------------- the hypotheses are satisfiable by a history that uses every kind of update, with a
   closed-form increment, a small-angle increment and the zero increment *)
Definition ex_eps : R := 1 / 1024.
Definition ex_q : quatR := ((3/5, 0, 0), 4/5).
Definition ex_X : sim3R := ((1, 2, 3), (ex_q, 2)).
Definition ex_ops : list (rop sim3R sim3_alg) :=
  [RRetr _ _ ((1, 0, 0), ((0, 1, 0), 1/2)); RMulL _ _ ex_X; RInv _ _; RRetr _ _ ((1, 0, 0), ((0, 0, 0), 0));
   RMulR _ _ ex_X; RRetr _ _ ((0, 0, 0), ((0, 0, 1/2048), -1))].
Lemma ex_X_valid : valid_Sim3 ex_X.
Proof. unfold valid_Sim3, ex_X, ex_q, unitq. cbn [fst snd]. split; [lie_unfold; field | lra]. Qed.
Example ex_ops_valid : Forall sim3_vop ex_ops.
Proof.
  assert (H : validG sim3R (fun X => fst (snd X)) pos_Sim3 ex_X) by (apply validG_Sim3, ex_X_valid).
  unfold ex_ops. repeat (apply Forall_cons; [first [exact H | exact I]|]). apply Forall_nil.
Qed.
Example ex_ops_small : sim3_small ex_eps ex_ops = 2%nat.
Proof.
  unfold sim3_small, ex_ops, ex_eps. cbn [count_small fst snd].
  assert (V1 : vnorm ((0, 1, 0) : vec3R) = 1).
  { unfold vnorm. cbn [tsqrt TransR]. replace (vdot _ _) with 1 by (lie_unfold; ring). apply sqrt_1. }
  assert (V0 : vnorm ((0, 0, 0) : vec3R) = 0).
  { unfold vnorm. cbn [tsqrt TransR]. replace (vdot _ _) with 0 by (lie_unfold; ring). apply sqrt_0. }
  assert (V2 : vnorm ((0, 0, 1/2048) : vec3R) = 1/2048).
  { unfold vnorm. cbn [tsqrt TransR]. replace (vdot _ _) with ((1/2048) * (1/2048)) by (lie_unfold; ring).
    apply sqrt_square. lra. }
  rewrite V1, V0, V2.
  destruct (Rle_dec 1 (1 / 1024)) as [H|_]; [lra|].
  destruct (Rle_dec 0 (1 / 1024)) as [_|H]; [|lra].
  destruct (Rle_dec (1 / 2048) (1 / 1024)) as [_|H]; [|lra]. reflexivity.
Qed.
(* a history with closed-form increments only *)
Definition ex_ops_closed : list (rop sim3R sim3_alg) :=
  [RRetr _ _ ((1, 0, 0), ((0, 1, 0), 1/2)); RMulL _ _ ex_X; RInv _ _; RMulR _ _ ex_X].
Example ex_ops_closed_ok : Forall sim3_vop ex_ops_closed /\ Forall (sim3_cop ex_eps) ex_ops_closed.
Proof.
  assert (H : validG sim3R (fun X => fst (snd X)) pos_Sim3 ex_X) by (apply validG_Sim3, ex_X_valid).
  split; unfold ex_ops_closed; repeat (apply Forall_cons; [first [exact H | exact I | idtac]|]); try apply Forall_nil.
  unfold ex_eps. cbn [fst snd].
  assert (V1 : vnorm ((0, 1, 0) : vec3R) = 1).
  { unfold vnorm. cbn [tsqrt TransR]. replace (vdot _ _) with 1 by (lie_unfold; ring). apply sqrt_1. }
  unfold sim3_cop, closed_rop. cbn [fst snd]. rewrite V1. lra.
Qed.
