(* C17: point-set alignment (svdtf, svdstf), ICP pass, EPnP linear system -- proofs over R. *)
From Coq Require Import Reals Lra Psatz List Nsatz ZArith Bool Arith.
Import ListNotations.
From PV Require Import Base.Num Base.RTac Model.LieGroup Model.Controller Model.Align Proofs.LieGroup.
Local Open Scope R_scope.
#[local] Remove Hints NumQ NumZ : typeclass_instances.

Notation mat3R := (@mat3 R).
Notation cloudR := (@cloud R).

(* ---------------------------------------------------------------- rotations *)
Definition orth (A : mat3R) : Prop := mmul3 A (mtrans A) = mid3.
Definition rot (A : mat3R) : Prop := orth A /\ mdet3 A = 1.
(* the contract of torch.linalg.svd assumed by every theorem below *)
Definition svd_ok (M U : mat3R) (S : vec3R) (Vh : mat3R) : Prop :=
  orth U /\ orth Vh /\ (vy S <= vx S /\ vz S <= vy S /\ 0 <= vz S) /\
  M = mmul3 (mmul3 U (diag3 S)) Vh.

Ltac al_unfold :=
  cbv [orth centroid outer3 mneg3 mdivs3 diag3 mtrace3 sqnorm signF
       kabsch_rot svdstf_rot umeyama_sign rigid_apply sim_apply vdivs det_tol] in *; lie_unfold.
Ltac al_ring := intros; destruct_tuples; al_unfold; split_pairs; ring.

Lemma mmul3_assoc (A B C : mat3R) : mmul3 (mmul3 A B) C = mmul3 A (mmul3 B C).
Proof. al_ring. Qed.
Lemma mtrans_mmul3 (A B : mat3R) : mtrans (mmul3 A B) = mmul3 (mtrans B) (mtrans A).
Proof. al_ring. Qed.
Lemma mtrans_invol (A : mat3R) : mtrans (mtrans A) = A.
Proof. al_ring. Qed.
Lemma mmul3_id_r (A : mat3R) : mmul3 A mid3 = A.
Proof. al_ring. Qed.
Lemma mmul3_id_l (A : mat3R) : mmul3 mid3 A = A.
Proof. al_ring. Qed.
Lemma mdet3_mmul3 (A B : mat3R) : mdet3 (mmul3 A B) = mdet3 A * mdet3 B.
Proof. al_ring. Qed.
Lemma mdet3_mtrans (A : mat3R) : mdet3 (mtrans A) = mdet3 A.
Proof. al_ring. Qed.
Lemma mdet3_mid3 : mdet3 (mid3 (F:=R)) = 1.
Proof. al_ring. Qed.
Lemma mdet3_mneg3 (A : mat3R) : mdet3 (mneg3 A) = - mdet3 A.
Proof. al_ring. Qed.
Lemma mtrans_mid3 : mtrans (mid3 (F:=R)) = mid3.
Proof. al_ring. Qed.
Lemma mtrans_diag3 (d : vec3R) : mtrans (diag3 d) = diag3 d.
Proof. al_ring. Qed.
Lemma mdet3_diag3 (d : vec3R) : mdet3 (diag3 d) = vx d * vy d * vz d.
Proof. al_ring. Qed.
Lemma mdet3_mscale3 (s : R) (A : mat3R) : mdet3 (mscale3 s A) = s * s * s * mdet3 A.
Proof. al_ring. Qed.

Lemma orth_left A : orth A -> mmul3 (mtrans A) A = mid3.
Proof.
  intros H. destruct_tuples. al_unfold.
  injection H as H1 H2 H3 H4 H5 H6 H7 H8 H9.
  split_pairs; nsatz.
Qed.
Lemma orth_mtrans A : orth A -> orth (mtrans A).
Proof. intros H. unfold orth. rewrite mtrans_invol. now apply orth_left. Qed.
Lemma orth_mid3 : orth mid3.
Proof. unfold orth. now rewrite mtrans_mid3, mmul3_id_l. Qed.
Lemma orth_mmul3 A B : orth A -> orth B -> orth (mmul3 A B).
Proof.
  unfold orth. intros HA HB.
  rewrite mtrans_mmul3, mmul3_assoc, <- (mmul3_assoc B), HB, mmul3_id_l. exact HA.
Qed.
Lemma orth_mneg3 A : orth A -> orth (mneg3 A).
Proof.
  unfold orth. intros H. rewrite <- H. al_ring.
Qed.
Lemma orth_det_sq A : orth A -> mdet3 A * mdet3 A = 1.
Proof.
  intros H. rewrite <- mdet3_mid3. unfold orth in H. rewrite <- H, mdet3_mmul3, mdet3_mtrans. ring.
Qed.
Lemma orth_det_cases A : orth A -> mdet3 A = 1 \/ mdet3 A = -1.
Proof.
  intros H. pose proof (orth_det_sq A H) as Hs.
  assert (Hf : (mdet3 A - 1) * (mdet3 A + 1) = 0) by (ring_simplify; lra).
  apply Rmult_integral in Hf. destruct Hf; [left | right]; lra.
Qed.
Lemma rot_mid3 : rot mid3.
Proof. split; [apply orth_mid3 | apply mdet3_mid3]. Qed.

(* entries of an orthogonal matrix lie in [-1, 1] *)
Lemma orth_diag_bounds A : orth A ->
  (-1 <= vx (mr0 A) <= 1) /\ (-1 <= vy (mr1 A) <= 1) /\ (-1 <= vz (mr2 A) <= 1).
Proof.
  intros H. destruct_tuples. al_unfold.
  injection H as H1 H2 H3 H4 H5 H6 H7 H8 H9.
  repeat split; nra.
Qed.

(* ---------------------------------------------------------------- the SO(3) trace identity *)
Lemma rotation_trace_identity A : rot A ->
  let '((a, b, c), (d, e, f), (g, h, i)) := A in
  (1 + (a + e + i)) * (3 - (a + e + i)) = (b - d) * (b - d) + (c - g) * (c - g) + (f - h) * (f - h).
Proof.
  intros [H Hd]. destruct_tuples. al_unfold.
  injection H as H1 H2 H3 H4 H5 H6 H7 H8 H9.
  nsatz.
Qed.
Lemma rotation_trace_ge_m1 A : rot A -> -1 <= mtrace3 A.
Proof.
  intros HR. pose proof (rotation_trace_identity A HR) as Hid.
  destruct HR as [H _]. pose proof (orth_diag_bounds A H) as Hb.
  destruct A as [[[[a b] c] [[d e] f]] [[g h] i]]. cbv [mtrace3 vx vy vz mr0 mr1 mr2 fst snd add NumR] in *.
  remember (a + e + i) as T eqn:ET.
  assert (Hp : 0 <= (1 + T) * (3 - T)).
  { rewrite Hid. pose proof (Rle_0_sqr (b - d)). pose proof (Rle_0_sqr (c - g)). pose proof (Rle_0_sqr (f - h)).
    unfold Rsqr in *. lra. }
  destruct (Rle_dec (-1) T) as [Hle | Hn]; [exact Hle | exfalso].
  assert (H1 : 1 + T < 0) by lra. assert (H2 : 0 < 3 - T) by lra.
  pose proof (Rmult_lt_0_compat (- (1 + T)) (3 - T) ltac:(lra) H2). lra.
Qed.
Lemma improper_trace_le_1 A : orth A -> mdet3 A = -1 -> mtrace3 A <= 1.
Proof.
  intros H Hd.
  assert (HR : rot (mneg3 A)) by (split; [now apply orth_mneg3 | rewrite mdet3_mneg3; lra]).
  apply rotation_trace_ge_m1 in HR. destruct_tuples. al_unfold. lra.
Qed.

(* ---------------------------------------------------------------- the trace inequality *)
(* sum_i s_i Q_ii <= s1 + s2 + det(Q) s3  for orthogonal Q and s1 >= s2 >= s3 >= 0 *)
Definition wtrace (S : vec3R) (Q : mat3R) : R :=
  vx S * vx (mr0 Q) + vy S * vy (mr1 Q) + vz S * vz (mr2 Q).
Lemma wt_pos s1 s2 s3 q1 q2 q3 : s2 <= s1 -> s3 <= s2 -> 0 <= s3 -> q1 <= 1 -> q2 <= 1 -> q3 <= 1 ->
  s1 * q1 + s2 * q2 + s3 * q3 <= s1 + s2 + s3.
Proof.
  intros. pose proof (Rmult_le_pos s1 (1 - q1) ltac:(lra) ltac:(lra)).
  pose proof (Rmult_le_pos s2 (1 - q2) ltac:(lra) ltac:(lra)).
  pose proof (Rmult_le_pos s3 (1 - q3) ltac:(lra) ltac:(lra)). lra.
Qed.
Lemma wt_neg s1 s2 s3 q1 q2 q3 : s2 <= s1 -> s3 <= s2 -> 0 <= s3 -> q1 <= 1 -> q2 <= 1 -> q1 + q2 + q3 <= 1 ->
  s1 * q1 + s2 * q2 + s3 * q3 <= s1 + s2 - s3.
Proof.
  intros. pose proof (Rmult_le_pos (s1 - s3) (1 - q1) ltac:(lra) ltac:(lra)).
  pose proof (Rmult_le_pos (s2 - s3) (1 - q2) ltac:(lra) ltac:(lra)).
  pose proof (Rmult_le_pos s3 (1 - (q1 + q2 + q3)) ltac:(lra) ltac:(lra)). lra.
Qed.
Lemma wt_low s1 s2 s3 q1 q2 q3 : s2 <= s1 -> s3 <= s2 -> 0 <= s3 -> -1 <= q1 -> -1 <= q2 -> -1 <= q3 ->
  - (s1 + s2 + s3) <= s1 * q1 + s2 * q2 + s3 * q3.
Proof.
  intros. pose proof (Rmult_le_pos s1 (1 + q1) ltac:(lra) ltac:(lra)).
  pose proof (Rmult_le_pos s2 (1 + q2) ltac:(lra) ltac:(lra)).
  pose proof (Rmult_le_pos s3 (1 + q3) ltac:(lra) ltac:(lra)). lra.
Qed.
Lemma wtrace_upper S Q : orth Q -> vy S <= vx S -> vz S <= vy S -> 0 <= vz S ->
  wtrace S Q <= vx S + vy S + mdet3 Q * vz S.
Proof.
  intros H H1 H2 H3. pose proof (orth_diag_bounds Q H) as (Ha & Hb & Hc).
  destruct (orth_det_cases Q H) as [Hd | Hd]; rewrite Hd.
  - unfold wtrace. rewrite Rmult_1_l. apply wt_pos; lra.
  - pose proof (improper_trace_le_1 Q H Hd) as Ht. unfold wtrace, mtrace3 in *. cbn [add NumR] in Ht.
    replace (vx S + vy S + -1 * vz S) with (vx S + vy S - vz S) by ring. apply wt_neg; lra.
Qed.
Lemma wtrace_lower S Q : orth Q -> vy S <= vx S -> vz S <= vy S -> 0 <= vz S ->
  - (vx S + vy S + vz S) <= wtrace S Q.
Proof.
  intros H H1 H2 H3. pose proof (orth_diag_bounds Q H) as (Ha & Hb & Hc). unfold wtrace.
  apply wt_low; lra.
Qed.

(* <R, M> = tr(R^T M) *)
Definition dotM (A M : mat3R) : R := mtrace3 (mmul3 (mtrans A) M).
Lemma dotM_svd A U S Vh :
  dotM A (mmul3 (mmul3 U (diag3 S)) Vh) = wtrace S (mmul3 (mmul3 Vh (mtrans A)) U).
Proof. unfold dotM, wtrace. al_ring. Qed.
Lemma dotM_mscale3 c A M : dotM (mscale3 c A) M = c * dotM A M.
Proof. unfold dotM. al_ring. Qed.
Lemma dotM_mscale3_r c A M : dotM A (mscale3 c M) = c * dotM A M.
Proof. unfold dotM. al_ring. Qed.
Lemma dotM_mneg3 A M : dotM (mneg3 A) M = - dotM A M.
Proof. unfold dotM. al_ring. Qed.

Lemma wtrace_diag S d : wtrace S (diag3 d) = vdot d S.
Proof. unfold wtrace. al_ring. Qed.

(* Q* = Vh R*^T U = diag(1,1,d) *)
Lemma kabsch_Q U Vh : orth U -> orth Vh ->
  mmul3 (mmul3 Vh (mtrans (kabsch_rot U Vh))) U = diag3 (1, 1, mdet3 (mmul3 U Vh)).
Proof.
  intros HU HV. unfold kabsch_rot. cbn [one NumR].
  rewrite !mtrans_mmul3, mtrans_diag3.
  rewrite <- (mmul3_assoc Vh). unfold orth in HV. rewrite HV, mmul3_id_l.
  rewrite mmul3_assoc, (orth_left U HU). apply mmul3_id_r.
Qed.
Lemma kabsch_rot_rot U Vh : orth U -> orth Vh -> rot (kabsch_rot U Vh).
Proof.
  intros HU HV. unfold kabsch_rot. cbn [one NumR]. split.
  - apply orth_mmul3; [apply orth_mmul3; [exact HU|] | exact HV].
    unfold orth. rewrite mtrans_diag3.
    destruct (orth_det_cases _ (orth_mmul3 _ _ HU HV)) as [Hd | Hd]; rewrite Hd; al_ring.
  - rewrite !mdet3_mmul3, mdet3_diag3. cbn [vx vy vz fst snd].
    pose proof (orth_det_sq _ (orth_mmul3 _ _ HU HV)) as Hs. rewrite mdet3_mmul3 in Hs. nra.
Qed.

(* Kabsch: R* maximises tr(R^T M) over all rotations *)
Lemma kabsch_trace_optimal M U S Vh A : svd_ok M U S Vh -> rot A ->
  dotM A M <= dotM (kabsch_rot U Vh) M.
Proof.
  intros (HU & HV & (H1 & H2 & H3) & HM) [HA HdA]. subst M. rewrite !dotM_svd.
  rewrite (kabsch_Q U Vh HU HV), wtrace_diag.
  set (Q := mmul3 (mmul3 Vh (mtrans A)) U).
  assert (HQ : orth Q) by (apply orth_mmul3; [apply orth_mmul3; [exact HV | now apply orth_mtrans] | exact HU]).
  assert (HdQ : mdet3 Q = mdet3 (mmul3 U Vh)).
  { unfold Q. rewrite !mdet3_mmul3, mdet3_mtrans, HdA. ring. }
  pose proof (wtrace_upper S Q HQ H1 H2 H3) as Hw. rewrite HdQ in Hw.
  destruct S as [[s1 s2] s3]. al_unfold. lra.
Qed.
Lemma kabsch_trace_value M U S Vh : svd_ok M U S Vh ->
  dotM (kabsch_rot U Vh) M = vx S + vy S + mdet3 (mmul3 U Vh) * vz S.
Proof.
  intros (HU & HV & _ & HM). subst M. rewrite dotM_svd, (kabsch_Q U Vh HU HV), wtrace_diag.
  destruct S as [[s1 s2] s3]. al_unfold. ring.
Qed.

(* ---------------------------------------------------------------- svdtf: proper rotation *)
Lemma absF_R (x : R) : absF x = Rabs x.
Proof.
  unfold absF. cbn [ltb zero opp NumR]. unfold Rltb. destruct (Rlt_dec x 0).
  - now rewrite Rabs_left. - rewrite Rabs_right; [reflexivity | lra].
Qed.
Lemma svdtf_flip_m1 U Vh : mdet3 (mmul3 U Vh) = -1 -> svdtf_flip U Vh = true.
Proof.
  intros H. unfold svdtf_flip. rewrite absF_R, H. cbn [add one ltb NumR]. apply Rltb_true.
  replace (-1 + 1) with 0 by ring. rewrite Rabs_R0. unfold det_tol, frac. cbn [div ofZ NumR]. lra.
Qed.
Lemma svdtf_flip_p1 U Vh : mdet3 (mmul3 U Vh) = 1 -> svdtf_flip U Vh = false.
Proof.
  intros H. unfold svdtf_flip. rewrite absF_R, H. cbn [add one ltb NumR]. apply Rltb_false.
  rewrite Rabs_right by lra. unfold det_tol, frac. cbn [div ofZ NumR]. lra.
Qed.
(* --- history: the source before fix 23d9fa1 (whole matrix negated) *)
Lemma svdtf_rot_old_cases U Vh : orth U -> orth Vh ->
  (mdet3 (mmul3 U Vh) = 1 /\ svdtf_rot_old U Vh = mmul3 U Vh) \/
  (mdet3 (mmul3 U Vh) = -1 /\ svdtf_rot_old U Vh = mneg3 (mmul3 U Vh)).
Proof.
  intros HU HV. destruct (orth_det_cases _ (orth_mmul3 _ _ HU HV)) as [Hd | Hd]; [left | right];
    (split; [exact Hd|]); unfold svdtf_rot_old.
  - now rewrite (svdtf_flip_p1 _ _ Hd).
  - now rewrite (svdtf_flip_m1 _ _ Hd).
Qed.
Lemma svdtf_old_proper U Vh : orth U -> orth Vh -> rot (svdtf_rot_old U Vh).
Proof.
  intros HU HV. pose proof (orth_mmul3 _ _ HU HV) as HO.
  destruct (svdtf_rot_old_cases U Vh HU HV) as [[Hd ->] | [Hd ->]].
  - split; assumption.
  - split; [now apply orth_mneg3 | rewrite mdet3_mneg3; lra].
Qed.
Lemma kabsch_rot_p1 U Vh : mdet3 (mmul3 U Vh) = 1 -> kabsch_rot U Vh = mmul3 U Vh.
Proof.
  intros H. unfold kabsch_rot. rewrite H. cbn [one NumR].
  replace (diag3 (1, 1, 1)) with (mid3 (F:=R)) by al_ring. now rewrite mmul3_id_r.
Qed.

(* --- current source: D = (1, 1, 1 - 2 mask), R = U diag(D) Vh is the textbook Kabsch rotation for
   every oracle answer, hence a proper rotation on both branches *)
Lemma svdtf_rot_kabsch U Vh : orth U -> orth Vh -> svdtf_rot U Vh = kabsch_rot U Vh.
Proof.
  intros HU HV. unfold svdtf_rot, kabsch_rot, svdtf_D.
  destruct (orth_det_cases _ (orth_mmul3 _ _ HU HV)) as [Hd | Hd]; rewrite Hd.
  - rewrite (svdtf_flip_p1 _ _ Hd). clear HU HV Hd. al_ring.
  - rewrite (svdtf_flip_m1 _ _ Hd). clear HU HV Hd. al_ring.
Qed.
Lemma svdtf_proper U Vh : orth U -> orth Vh -> rot (svdtf_rot U Vh).
Proof. intros HU HV. rewrite svdtf_rot_kabsch by assumption. now apply kabsch_rot_rot. Qed.

(* ---------------------------------------------------------------- residual decomposition *)
Definition sumsq (l : cloudR) : R := sumF (map sqnorm l).
Definition sumsqA (A : mat3R) (l : cloudR) : R := sumF (map (fun p => sqnorm (mvmul A p)) l).
Definition shift (c : vec3R) (l : cloudR) : cloudR := map (fun p => vadd p c) l.
Definition eoff (A : mat3R) (t cs ct : vec3R) : vec3R := vsub (vsub ct (mvmul A cs)) t.

Lemma resid_shift A t cs ct : forall X Y, length X = length Y ->
  resid (rigid_apply A t) (shift cs X) (shift ct Y) =
  sumsq Y + sumsqA A X - 2 * dotM A (crosscov Y X)
  + 2 * vdot (eoff A t cs ct) (vsub (vsum3 Y) (mvmul A (vsum3 X)))
  + INR (length X) * sqnorm (eoff A t cs ct).
Proof.
  induction X as [|x X IH]; intros [|y Y] HL; try discriminate.
  - cbn. unfold dotM, eoff. al_unfold. ring.
  - injection HL as HL. specialize (IH Y HL).
    cbn [shift map resid]. cbn [add NumR]. fold (shift cs X) (shift ct Y). rewrite IH. clear IH.
    unfold sumsq, sumsqA, sumF. cbn [map fold_right length crosscov vsum3]. rewrite S_INR.
    fold (vsum3 X) (vsum3 Y).
    set (SX := vsum3 X). set (SY := vsum3 Y). set (C := crosscov Y X).
    set (a := fold_right add zero (map sqnorm Y)). set (b := fold_right add zero (map (fun p => sqnorm (mvmul A p)) X)).
    set (n := INR (length X)).
    clearbody SX SY C a b n. clear. unfold dotM, eoff. al_ring.
Qed.

Lemma shift_centered (l : cloudR) : shift (centroid l) (centered l) = l.
Proof.
  unfold shift, centered. rewrite map_map. rewrite <- (map_id l) at 2. apply map_ext.
  intros p. al_ring.
Qed.
Lemma vsum3_map_sub (c : vec3R) (l : cloudR) :
  vsum3 (map (fun p => vsub p c) l) = vsub (vsum3 l) (vscale (INR (length l)) c).
Proof.
  induction l as [|p l IH].
  - cbn. al_ring.
  - cbn [map vsum3 fold_right length]. fold (vsum3 (map (fun p => vsub p c) l)). rewrite IH, S_INR.
    fold (vsum3 l). set (s := vsum3 l). set (n := INR (length l)). clearbody s n. al_ring.
Qed.
Lemma ofN_INR n : ofN (F:=R) n = INR n.
Proof. unfold ofN. cbn [ofZ NumR]. now rewrite <- INR_IZR_INZ. Qed.
Lemma vsum3_centered (l : cloudR) : l <> [] -> vsum3 (centered l) = vzero.
Proof.
  intros Hne. unfold centered. rewrite vsum3_map_sub. unfold centroid. rewrite ofN_INR.
  assert (Hn : INR (length l) <> 0).
  { apply not_0_INR. destruct l; [contradiction | discriminate]. }
  set (s := vsum3 l). set (n := INR (length l)) in *. clearbody s n.
  destruct_tuples. al_unfold. split_pairs; field; exact Hn.
Qed.
Lemma length_centered (l : cloudR) : length (centered l) = length l.
Proof. unfold centered. apply map_length. Qed.

Lemma sqnorm_orth A p : orth A -> sqnorm (mvmul A p) = sqnorm p.
Proof.
  intros H. apply orth_left in H.
  assert (E : sqnorm (mvmul A p) = vdot p (mvmul (mmul3 (mtrans A) A) p)) by al_ring.
  rewrite E, H. al_ring.
Qed.
Lemma sumsqA_orth A X : orth A -> sumsqA A X = sumsq X.
Proof.
  intros H. unfold sumsqA, sumsq. f_equal. apply map_ext. intros p. now apply sqnorm_orth.
Qed.
Lemma sumsqA_mscale3 c A X : sumsqA (mscale3 c A) X = c * c * sumsqA A X.
Proof.
  unfold sumsqA, sumF. induction X as [|x X IH].
  - cbn. ring.
  - cbn [map fold_right]. rewrite IH.
    set (b := fold_right add zero (map (fun p => sqnorm (mvmul A p)) X)). clearbody b. al_ring.
Qed.

Lemma sizes_ok_spec (src tgt : cloudR) : sizes_ok src tgt = true -> length src = length tgt /\ src <> [] /\ tgt <> [].
Proof.
  unfold sizes_ok. intros H. apply andb_prop in H as [H1 H2]. apply Nat.eqb_eq in H1.
  apply negb_true_iff, Nat.eqb_neq in H2. split; [exact H1|].
  split; intros ->; [apply H2; reflexivity | apply H2; rewrite H1; reflexivity].
Qed.

(* for any linear map A and translation t *)
Lemma resid_general A t (src tgt : cloudR) : sizes_ok src tgt = true ->
  resid (rigid_apply A t) src tgt =
  sumsq (centered tgt) + sumsqA A (centered src) - 2 * dotM A (svdtf_M src tgt)
  + INR (length src) * sqnorm (eoff A t (centroid src) (centroid tgt)).
Proof.
  intros Hs. apply sizes_ok_spec in Hs as (HL & Hs & Ht).
  rewrite <- (shift_centered src) at 1. rewrite <- (shift_centered tgt) at 1.
  rewrite resid_shift by (rewrite !length_centered; exact HL).
  rewrite (vsum3_centered src Hs), (vsum3_centered tgt Ht), length_centered. unfold svdtf_M.
  set (e := eoff A t (centroid src) (centroid tgt)). clearbody e.
  assert (E : vdot e (vsub vzero (mvmul A vzero)) = 0) by al_ring. rewrite E. ring.
Qed.
Lemma eoff_opt A cs ct : eoff A (vsub ct (mvmul A cs)) cs ct = vzero.
Proof. unfold eoff. al_ring. Qed.
Lemma sqnorm_nonneg (p : vec3R) : 0 <= sqnorm p.
Proof. destruct_tuples. al_unfold. nra. Qed.
Lemma sqnorm_vzero : sqnorm (vzero (F:=R)) = 0.
Proof. al_ring. Qed.

(* ---------------------------------------------------------------- Kabsch optimality *)
Theorem kabsch_optimal (src tgt : cloudR) U S Vh :
  sizes_ok src tgt = true -> svd_ok (svdtf_M src tgt) U S Vh ->
  rot (fst (kabsch_mat src tgt U Vh)) /\
  forall A t, rot A ->
    resid (rigid_apply (fst (kabsch_mat src tgt U Vh)) (snd (kabsch_mat src tgt U Vh))) src tgt
    <= resid (rigid_apply A t) src tgt.
Proof.
  intros Hs Hsvd. pose proof Hsvd as (HU & HV & _ & _).
  pose proof (kabsch_rot_rot U Vh HU HV) as HR. cbn [kabsch_mat fst snd]. split; [exact HR|].
  intros A t HA. rewrite !resid_general by exact Hs.
  rewrite eoff_opt, sqnorm_vzero, Rmult_0_r.
  rewrite (sumsqA_orth _ _ (proj1 HR)), (sumsqA_orth _ _ (proj1 HA)).
  pose proof (kabsch_trace_optimal _ U S Vh A Hsvd HA) as Hk.
  pose proof (sqnorm_nonneg (eoff A t (centroid src) (centroid tgt))) as He.
  pose proof (pos_INR (length src)) as Hn.
  pose proof (Rmult_le_pos _ _ Hn He). lra.
Qed.

(* ---------------------------------------------------------------- svdtf on the faithful model *)
(* the repaired svdtf is Kabsch on every branch *)
Lemma svdtf_mat_kabsch (src tgt : cloudR) U Vh : orth U -> orth Vh ->
  svdtf_mat src tgt U Vh = kabsch_mat src tgt U Vh.
Proof. intros HU HV. unfold svdtf_mat, kabsch_mat. now rewrite svdtf_rot_kabsch. Qed.
Theorem svdtf_optimal (src tgt : cloudR) U S Vh :
  sizes_ok src tgt = true -> svd_ok (svdtf_M src tgt) U S Vh ->
  forall A t, rot A ->
    resid (rigid_apply (fst (svdtf_mat src tgt U Vh)) (snd (svdtf_mat src tgt U Vh))) src tgt
    <= resid (rigid_apply A t) src tgt.
Proof.
  intros Hs Hsvd. pose proof Hsvd as (HU & HV & _ & _).
  rewrite (svdtf_mat_kabsch src tgt U Vh HU HV). apply (kabsch_optimal src tgt U S Vh Hs Hsvd).
Qed.
(* history: the old code was Kabsch only without the reflection branch *)
Lemma svdtf_mat_old_p1 (src tgt : cloudR) U Vh : orth U -> orth Vh -> mdet3 (mmul3 U Vh) = 1 ->
  svdtf_mat_old src tgt U Vh = kabsch_mat src tgt U Vh.
Proof.
  intros HU HV Hd. unfold svdtf_mat_old, kabsch_mat, svdtf_rot_old.
  now rewrite (svdtf_flip_p1 _ _ Hd), (kabsch_rot_p1 _ _ Hd).
Qed.

(* history: in the reflection branch the old svdtf returned - U Vh, whose <R, M> is the MINIMUM over all rotations *)
Lemma neg_UVh_trace M U S Vh : svd_ok M U S Vh ->
  dotM (mneg3 (mmul3 U Vh)) M = - (vx S + vy S + vz S).
Proof.
  intros (HU & HV & _ & HM). subst M. rewrite dotM_mneg3, dotM_svd. f_equal.
  rewrite mtrans_mmul3, <- (mmul3_assoc Vh). unfold orth in HV. rewrite HV, mmul3_id_l.
  rewrite (orth_left U HU). unfold wtrace. al_ring.
Qed.
Theorem svdtf_old_reflection_pessimal (src tgt : cloudR) U S Vh :
  sizes_ok src tgt = true -> svd_ok (svdtf_M src tgt) U S Vh -> mdet3 (mmul3 U Vh) = -1 ->
  forall A, rot A ->
    resid (rigid_apply A (vsub (centroid tgt) (mvmul A (centroid src)))) src tgt
    <= resid (rigid_apply (fst (svdtf_mat_old src tgt U Vh)) (snd (svdtf_mat_old src tgt U Vh))) src tgt.
Proof.
  intros Hs Hsvd Hd A HA. pose proof Hsvd as (HU & HV & (H1 & H2 & H3) & HM).
  pose proof (svdtf_old_proper U Vh HU HV) as HR.
  unfold svdtf_mat_old in *. cbn [fst snd]. rewrite !resid_general by exact Hs.
  rewrite !eoff_opt, sqnorm_vzero, Rmult_0_r.
  rewrite (sumsqA_orth _ _ (proj1 HR)), (sumsqA_orth _ _ (proj1 HA)).
  unfold svdtf_rot_old. rewrite (svdtf_flip_m1 _ _ Hd), (neg_UVh_trace _ U S Vh Hsvd).
  rewrite HM at 1. rewrite dotM_svd.
  assert (HQ : orth (mmul3 (mmul3 Vh (mtrans A)) U)).
  { apply orth_mmul3; [apply orth_mmul3; [exact HV | apply orth_mtrans, HA] | exact HU]. }
  pose proof (wtrace_lower S _ HQ H1 H2 H3). lra.
Qed.

(* ---------------------------------------------------------------- exact recovery *)
Lemma resid_nonneg (f : vec3R -> vec3R) : forall src tgt, 0 <= resid f src tgt.
Proof.
  induction src as [|p src IH]; intros [|q tgt]; cbn [resid]; try (cbn; lra).
  pose proof (sqnorm_nonneg (vsub q (f p))). specialize (IH tgt). cbn [add NumR]. lra.
Qed.
Lemma sqnorm_zero (p : vec3R) : sqnorm p = 0 -> p = vzero.
Proof.
  destruct p as [[x y] z]. al_unfold. intros H.
  assert (x = 0) by nra. assert (y = 0) by nra. assert (z = 0) by nra. subst. reflexivity.
Qed.
Lemma vsub_zero (a b : vec3R) : vsub a b = vzero -> b = a.
Proof.
  destruct a as [[a1 a2] a3], b as [[b1 b2] b3]. al_unfold. intros H. injection H as H1 H2 H3.
  split_pairs; lra.
Qed.
Lemma resid_zero (f : vec3R -> vec3R) : forall src tgt, length src = length tgt ->
  resid f src tgt = 0 -> Forall2 (fun p q => f p = q) src tgt.
Proof.
  induction src as [|p src IH]; intros [|q tgt] HL H0; try discriminate; [constructor|].
  injection HL as HL. cbn [resid] in H0. cbn [add NumR] in H0.
  pose proof (sqnorm_nonneg (vsub q (f p))). pose proof (resid_nonneg f src tgt).
  constructor.
  - apply vsub_zero, sqnorm_zero. lra.
  - apply IH; [exact HL | lra].
Qed.
Lemma resid_self (f : vec3R -> vec3R) : forall src, resid f src (map f src) = 0.
Proof.
  induction src as [|p src IH]; [reflexivity|]. cbn [map resid]. rewrite IH. cbn [add NumR].
  assert (E : sqnorm (vsub (f p) (f p)) = 0) by (generalize (f p); intros v; al_ring). rewrite E. ring.
Qed.
Theorem kabsch_exact_recovery (src tgt : cloudR) U S Vh A0 t0 :
  tgt = map (rigid_apply A0 t0) src ->
  src <> [] -> rot A0 -> svd_ok (svdtf_M src tgt) U S Vh ->
  Forall2 (fun p q => rigid_apply (fst (kabsch_mat src tgt U Vh)) (snd (kabsch_mat src tgt U Vh)) p = q) src tgt.
Proof.
  intros Htgt Hne HA Hsvd.
  assert (HL : length src = length tgt) by (rewrite Htgt; now rewrite map_length).
  assert (Hs : sizes_ok src tgt = true).
  { unfold sizes_ok. rewrite <- HL, Nat.eqb_refl. destruct src; [contradiction | reflexivity]. }
  assert (H0 : resid (rigid_apply A0 t0) src tgt = 0) by (rewrite Htgt; apply resid_self).
  apply resid_zero; [exact HL|].
  pose proof (proj2 (kabsch_optimal src tgt U S Vh Hs Hsvd) A0 t0 HA) as Hle.
  rewrite H0 in Hle.
  pose proof (resid_nonneg (rigid_apply (fst (kabsch_mat src tgt U Vh)) (snd (kabsch_mat src tgt U Vh))) src tgt).
  lra.
Qed.
Theorem svdtf_exact_recovery (src tgt : cloudR) U S Vh A0 t0 :
  tgt = map (rigid_apply A0 t0) src ->
  src <> [] -> rot A0 -> svd_ok (svdtf_M src tgt) U S Vh ->
  Forall2 (fun p q => rigid_apply (fst (svdtf_mat src tgt U Vh)) (snd (svdtf_mat src tgt U Vh)) p = q) src tgt.
Proof.
  intros Htgt Hne HA Hsvd. pose proof Hsvd as (HU & HV & _ & _).
  rewrite (svdtf_mat_kabsch src tgt U Vh HU HV). now apply (kabsch_exact_recovery src tgt U S Vh A0 t0).
Qed.

(* ---------------------------------------------------------------- refutation witness *)
(* three coplanar points, target = source (the true transform is the identity); the SVD
   U = I, S = (6,2,0), Vh = diag(1,1,-1) satisfies the contract (the sign of the third singular
   vectors is arbitrary because s3 = 0); the OLD svdtf returned the half turn about z: residual 32 > 0 *)
Definition wit_src : cloudR := [(2, 0, 0); (-1, 1, 0); (-1, -1, 0)].
Definition wit_U : mat3R := mid3.
Definition wit_S : vec3R := (6, 2, 0).
Definition wit_Vh : mat3R := ((1, 0, 0), (0, 1, 0), (0, 0, -1)).
Lemma wit_contract : sizes_ok wit_src wit_src = true /\ svd_ok (svdtf_M wit_src wit_src) wit_U wit_S wit_Vh.
Proof.
  split; [reflexivity|]. unfold svd_ok. split; [apply orth_mid3|].
  split; [unfold wit_Vh; al_unfold; split_pairs; ring|].
  split; [unfold wit_S; al_unfold; lra|].
  unfold svdtf_M, wit_src, centered, wit_U, wit_S, wit_Vh.
  cbv [map crosscov length centroid vsum3 fold_right ofN Z.of_nat Pos.of_succ_nat Pos.succ vdivs].
  al_unfold. split_pairs; field.
Qed.
Lemma wit_rot : svdtf_rot_old wit_U wit_Vh = ((-1, 0, 0), (0, -1, 0), (0, 0, 1)).
Proof.
  assert (Hd : mdet3 (mmul3 wit_U wit_Vh) = -1) by (unfold wit_U, wit_Vh; al_ring).
  unfold svdtf_rot_old. rewrite (svdtf_flip_m1 _ _ Hd). unfold wit_U, wit_Vh. al_ring.
Qed.
Theorem svdtf_old_refuted :
  exists (src tgt : cloudR) U S Vh A t,
    sizes_ok src tgt = true /\ svd_ok (svdtf_M src tgt) U S Vh /\ rot A /\
    resid (rigid_apply A t) src tgt = 0 /\
    resid (rigid_apply (fst (svdtf_mat_old src tgt U Vh)) (snd (svdtf_mat_old src tgt U Vh))) src tgt = 32.
Proof.
  exists wit_src, wit_src, wit_U, wit_S, wit_Vh, mid3, vzero.
  destruct wit_contract as [H1 H2]. split; [exact H1|]. split; [exact H2|]. split; [apply rot_mid3|].
  split.
  - unfold wit_src. cbn [resid]. al_unfold. ring.
  - unfold svdtf_mat_old. cbn [fst snd]. rewrite wit_rot. unfold wit_src.
    cbv [resid length centroid vsum3 fold_right ofN Z.of_nat Pos.of_succ_nat Pos.succ vdivs].
    al_unfold. field.
Qed.

(* ---------------------------------------------------------------- svdstf (Umeyama) *)
Lemma signF_pm1 (d : R) : d = 1 \/ d = -1 -> signF d = d.
Proof.
  unfold signF. cbn [ltb zero one opp NumR]. unfold Rltb.
  intros [-> | ->]; repeat (destruct (Rlt_dec _ _)); try lra.
Qed.
Lemma svdstf_rot_eq U V : orth U -> orth V -> svdstf_rot U V = kabsch_rot U V.
Proof.
  intros HU HV. unfold svdstf_rot, kabsch_rot, umeyama_sign.
  now rewrite (signF_pm1 _ (orth_det_cases _ (orth_mmul3 _ _ HU HV))).
Qed.
Lemma svdstf_proper U V : orth U -> orth V -> rot (svdstf_rot U V).
Proof. intros HU HV. rewrite svdstf_rot_eq by assumption. now apply kabsch_rot_rot. Qed.

Lemma svdtf_M_H (src tgt : cloudR) : src <> [] ->
  svdtf_M src tgt = mscale3 (INR (length src)) (svdstf_H src tgt).
Proof.
  intros Hne. unfold svdtf_M, svdstf_H. rewrite ofN_INR.
  assert (Hn : INR (length src) <> 0) by (apply not_0_INR; destruct src; [contradiction | discriminate]).
  set (C := crosscov (centered tgt) (centered src)). set (n := INR (length src)) in *. clearbody C n.
  destruct_tuples. al_unfold. split_pairs; field; exact Hn.
Qed.
Lemma var_source_eq (src : cloudR) : var_source src = sumsq (centered src) / INR (length src).
Proof. unfold var_source, meanF, sumsq. now rewrite map_length, length_centered, ofN_INR. Qed.

Lemma resid_sim c A t (src tgt : cloudR) : sizes_ok src tgt = true -> orth A ->
  resid (sim_apply c A t) src tgt =
  sumsq (centered tgt) + c * c * sumsq (centered src)
  - 2 * c * INR (length src) * dotM A (svdstf_H src tgt)
  + INR (length src) * sqnorm (eoff (mscale3 c A) t (centroid src) (centroid tgt)).
Proof.
  intros Hs HA. change (sim_apply c A t) with (rigid_apply (mscale3 c A) t).
  rewrite resid_general by exact Hs. rewrite sumsqA_mscale3, (sumsqA_orth _ _ HA).
  rewrite (svdtf_M_H src tgt) by (apply sizes_ok_spec in Hs; tauto).
  rewrite dotM_mscale3, dotM_mscale3_r. ring.
Qed.

Lemma umeyama_value H U D V : svd_ok H U D V ->
  vdot (umeyama_sign U V) D = dotM (kabsch_rot U V) H /\ 0 <= vdot (umeyama_sign U V) D.
Proof.
  intros Hsvd. pose proof Hsvd as (HU & HV & (H1 & H2 & H3) & _).
  rewrite (kabsch_trace_value H U D V Hsvd). unfold umeyama_sign.
  pose proof (orth_det_cases _ (orth_mmul3 _ _ HU HV)) as Hd. rewrite (signF_pm1 _ Hd).
  destruct D as [[d1 d2] d3]. al_unfold. destruct Hd as [-> | ->]; split; lra.
Qed.

Theorem svdstf_optimal (src tgt : cloudR) U D V :
  sizes_ok src tgt = true -> svd_ok (svdstf_H src tgt) U D V -> 0 < sumsq (centered src) ->
  let s := fst (fst (svdstf_mat true src tgt U D V)) in
  let Rs := snd (fst (svdstf_mat true src tgt U D V)) in
  let ts := snd (svdstf_mat true src tgt U D V) in
  rot Rs /\ 0 <= s /\
  forall c A t, 0 <= c -> rot A ->
    resid (sim_apply s Rs ts) src tgt <= resid (sim_apply c A t) src tgt.
Proof.
  intros Hs Hsvd Hx. pose proof Hsvd as (HU & HV & _ & _).
  cbn [svdstf_mat fst snd]. cbv zeta.
  pose proof (svdstf_proper U V HU HV) as HR.
  pose proof (umeyama_value _ U D V Hsvd) as [Hval Hpos].
  pose proof (sizes_ok_spec _ _ Hs) as (HL & Hne & _).
  assert (Hn : 0 < INR (length src)) by (apply lt_0_INR; destruct src; [contradiction | cbn; lia]).
  remember (INR (length src)) as N eqn:EN.
  assert (Hsc : svdstf_scale true src U V D * sumsq (centered src) = N * dotM (kabsch_rot U V) (svdstf_H src tgt)).
  { unfold svdstf_scale. rewrite var_source_eq, Hval. cbn [div NumR]. rewrite <- EN. field. split; lra. }
  assert (Hs0 : 0 <= svdstf_scale true src U V D).
  { unfold svdstf_scale. rewrite var_source_eq. cbn [div NumR]. rewrite <- EN.
    apply Rmult_le_pos; [exact Hpos|]. apply Rlt_le, Rinv_0_lt_compat. apply Rdiv_lt_0_compat; lra. }
  split; [exact HR|]. split; [exact Hs0|].
  intros c A t Hc HA. rewrite !resid_sim by (try exact Hs; try apply HR; apply HA). rewrite <- EN.
  rewrite eoff_opt, sqnorm_vzero, Rmult_0_r.
  rewrite svdstf_rot_eq by assumption.
  pose proof (kabsch_trace_optimal _ U D V A Hsvd HA) as Hk.
  pose proof (sqnorm_nonneg (eoff (mscale3 c A) t (centroid src) (centroid tgt))) as He0.
  remember (svdstf_scale true src U V D) as s eqn:Es. remember (sumsq (centered src)) as sx eqn:Esx.
  remember (dotM (kabsch_rot U V) (svdstf_H src tgt)) as TH eqn:ETH.
  remember (dotM A (svdstf_H src tgt)) as dA eqn:EdA.
  remember (sqnorm (eoff (mscale3 c A) t (centroid src) (centroid tgt))) as e2 eqn:Ee2.
  assert (He : 0 <= N * e2) by (apply Rmult_le_pos; [clear - Hn; lra | exact He0]).
  assert (H1 : c * N * dA <= c * N * TH).
  { rewrite !Rmult_assoc. apply Rmult_le_compat_l; [exact Hc|]. apply Rmult_le_compat_l; [clear - Hn; lra | exact Hk]. }
  assert (Hsq : 0 <= sx * ((c - s) * (c - s))) by (apply Rmult_le_pos; [clear - Hx; lra | exact (Rle_0_sqr (c - s))]).
  assert (E1 : s * N * TH = s * s * sx) by (rewrite Rmult_assoc, <- Hsc; ring).
  assert (E2 : c * N * TH = c * s * sx) by (rewrite Rmult_assoc, <- Hsc; ring).
  clear - He H1 Hsq E1 E2. nra.
Qed.

Theorem svdstf_noscale_optimal (src tgt : cloudR) U D V :
  sizes_ok src tgt = true -> svd_ok (svdstf_H src tgt) U D V ->
  let s := fst (fst (svdstf_mat false src tgt U D V)) in
  let Rs := snd (fst (svdstf_mat false src tgt U D V)) in
  let ts := snd (svdstf_mat false src tgt U D V) in
  rot Rs /\ s = 1 /\
  forall A t, rot A -> resid (sim_apply s Rs ts) src tgt <= resid (rigid_apply A t) src tgt.
Proof.
  intros Hs Hsvd. pose proof Hsvd as (HU & HV & _ & _).
  cbn [svdstf_mat svdstf_scale fst snd]. cbv zeta.
  pose proof (svdstf_proper U V HU HV) as HR. split; [exact HR|]. split; [reflexivity|].
  intros A t HA.
  assert (EA : rigid_apply A t = sim_apply 1 A t).
  { unfold rigid_apply, sim_apply. replace (mscale3 1 A) with A by al_ring. reflexivity. }
  rewrite EA. cbn [one NumR]. rewrite !resid_sim by (try exact Hs; try apply HR; apply HA).
  rewrite eoff_opt, sqnorm_vzero, Rmult_0_r.
  rewrite svdstf_rot_eq by assumption.
  pose proof (kabsch_trace_optimal _ U D V A Hsvd HA) as Hk.
  pose proof (sizes_ok_spec _ _ Hs) as (HL & Hne & _).
  assert (Hn : 0 < INR (length src)) by (apply lt_0_INR; destruct src; [contradiction | cbn; lia]).
  pose proof (sqnorm_nonneg (eoff (mscale3 1 A) t (centroid src) (centroid tgt))) as He.
  pose proof (Rmult_le_pos _ _ (Rlt_le _ _ Hn) He).
  pose proof (Rmult_le_compat_l _ _ _ (Rlt_le _ _ Hn) Hk). lra.
Qed.

(* exact similarity correspondences are reproduced point for point *)
Theorem svdstf_exact_recovery (src tgt : cloudR) U D V c0 A0 t0 :
  tgt = map (sim_apply c0 A0 t0) src -> 0 <= c0 -> rot A0 ->
  svd_ok (svdstf_H src tgt) U D V -> 0 < sumsq (centered src) ->
  Forall2 (fun p q => sim_apply (fst (fst (svdstf_mat true src tgt U D V)))
                                (snd (fst (svdstf_mat true src tgt U D V)))
                                (snd (svdstf_mat true src tgt U D V)) p = q) src tgt.
Proof.
  intros Htgt Hc HA Hsvd Hx.
  assert (HL : length src = length tgt) by (rewrite Htgt; now rewrite map_length).
  assert (Hne : src <> []).
  { intros ->. cbn in Hx. lra. }
  assert (Hs : sizes_ok src tgt = true).
  { unfold sizes_ok. rewrite <- HL, Nat.eqb_refl. destruct src; [contradiction | reflexivity]. }
  assert (H0 : resid (sim_apply c0 A0 t0) src tgt = 0) by (rewrite Htgt; apply resid_self).
  apply resid_zero; [exact HL|].
  pose proof (svdstf_optimal src tgt U D V Hs Hsvd Hx) as (_ & _ & Hopt).
  specialize (Hopt c0 A0 t0 Hc HA). rewrite H0 in Hopt.
  pose proof (resid_nonneg (sim_apply (fst (fst (svdstf_mat true src tgt U D V)))
                                (snd (fst (svdstf_mat true src tgt U D V)))
                                (snd (svdstf_mat true src tgt U D V))) src tgt).
  lra.
Qed.

(* ---------------------------------------------------------------- EPnP: the linear system *)
(* for exact projections the true camera-frame control points solve M x = 0 (both rows of every
   point), whatever the barycentric weights are *)
Lemma epnp_nullspace (a : vec4' (F:=R)) (c : ctrl (F:=R)) (fu fv u0 v0 : R) :
  vz (ctrl_comb a c) <> 0 ->
  dotl (epnp_row_u a fu u0 (fst (project fu fv u0 v0 (ctrl_comb a c)))) (ctrl_flat c) = 0 /\
  dotl (epnp_row_v a fv v0 (snd (project fu fv u0 v0 (ctrl_comb a c)))) (ctrl_flat c) = 0.
Proof.
  destruct a as [[[a0 a1] a2] a3]. destruct c as [[[c0 c1] c2] c3].
  destruct c0 as [[x0 y0] z0], c1 as [[x1 y1] z1], c2 as [[x2 y2] z2], c3 as [[x3 y3] z3].
  cbv [ctrl_comb project epnp_row_u epnp_row_v ctrl_flat dotl fst snd]. al_unfold.
  intros Hz. split; field; exact Hz.
Qed.
(* alpha reproduces the points in any frame: rigid motion of the control points moves the
   combination along when the weights sum to one *)
Lemma alpha_reproduces_points (a : vec4' (F:=R)) (c : ctrl (F:=R)) (A : mat3R) (t : vec3R) :
  (let '(a0, a1, a2, a3) := a in a0 + a1 + a2 + a3 = 1) ->
  ctrl_comb a (let '(c0, c1, c2, c3) := c in
               (rigid_apply A t c0, rigid_apply A t c1, rigid_apply A t c2, rigid_apply A t c3))
  = rigid_apply A t (ctrl_comb a c).
Proof.
  destruct a as [[[a0 a1] a2] a3]. destruct c as [[[c0 c1] c2] c3]. intros Ha.
  assert (E : a3 = 1 - a0 - a1 - a2) by lra. subst a3. clear Ha.
  destruct_tuples. cbv [ctrl_comb]. al_unfold. split_pairs; ring.
Qed.

(* ---------------------------------------------------------------- the allclose checks of mat2SO3 *)
(* used by the conversion tie: when the ten tolerance tests pass, check=True changes nothing *)
Lemma close_b_true (a b : R) : Rabs (a - b) <= 1 / 100000 + 1 / 100000 * Rabs b -> close_b a b = true.
Proof.
  intros H. unfold close_b. rewrite !absF_R. cbn [leb add mul sub NumR]. apply Rleb_true.
  unfold conv_tol, frac. cbn [div ofZ NumR]. exact H.
Qed.
Definition checks_ok (m : mat3R) : Prop :=
  let e := mmul3 m (mtrans m) in
  Rabs (vx (mr0 e) - 1) <= 2 / 100000 /\ Rabs (vy (mr0 e)) <= 1 / 100000 /\ Rabs (vz (mr0 e)) <= 1 / 100000 /\
  Rabs (vx (mr1 e)) <= 1 / 100000 /\ Rabs (vy (mr1 e) - 1) <= 2 / 100000 /\ Rabs (vz (mr1 e)) <= 1 / 100000 /\
  Rabs (vx (mr2 e)) <= 1 / 100000 /\ Rabs (vy (mr2 e)) <= 1 / 100000 /\ Rabs (vz (mr2 e) - 1) <= 2 / 100000 /\
  Rabs (mdet3 m - 1) <= 2 / 100000.
Lemma close_one (a : R) : Rabs (a - 1) <= 2 / 100000 -> close_b a one = true.
Proof. intros H. apply close_b_true. cbn [one NumR]. rewrite Rabs_R1. lra. Qed.
Lemma close_zero (a : R) : Rabs a <= 1 / 100000 -> close_b a zero = true.
Proof. intros H. apply close_b_true. cbn [zero NumR]. rewrite Rabs_R0, Rminus_0_r. lra. Qed.
Lemma mat2SO3_checked (m : mat3R) : checks_ok m -> mat2SO3 true m = mat2SO3 false m.
Proof.
  intros (H1 & H2 & H3 & H4 & H5 & H6 & H7 & H8 & H9 & Hd). unfold mat2SO3.
  assert (E1 : m3_close (mmul3 m (mtrans m)) mid3 = true).
  { unfold m3_close, v3_close, mid3. cbn [mr0 mr1 mr2 vx vy vz fst snd].
    rewrite (close_one _ H1), (close_zero _ H2), (close_zero _ H3), (close_zero _ H4), (close_one _ H5),
            (close_zero _ H6), (close_zero _ H7), (close_zero _ H8), (close_one _ H9). reflexivity. }
  rewrite E1, (close_one _ Hd). reflexivity.
Qed.
Lemma mat2Sim3_k_checked (T : mat3R * vec3R) (s : R) :
  checks_ok (mdivs3 (fst T) s) -> mat2Sim3_k true T s = mat2Sim3_k false T s.
Proof. intros H. unfold mat2Sim3_k. now rewrite (mat2SO3_checked _ H). Qed.

(* ---------------------------------------------------------------- mat2SO3 on rotations *)
(* the radicand the masks select is positive on EVERY matrix (so the conversion never divides by
   zero), and on a rotation the result is the unit quaternion of that rotation, in all four regions *)
Lemma sel_t_pos (m : mat3R) t n : mat2SO3_sel m = (t, n) -> 0 < t.
Proof.
  destruct m as [[[[a b] c] [[d e] f]] [[g h] i]]. unfold mat2SO3_sel.
  cbn [ltb opp add sub one NumR]. unfold conv_tol, frac. cbn [div ofZ NumR]. unfold Rltb.
  destruct (Rlt_dec i (1 / 100000)); [destruct (Rlt_dec e a) | destruct (Rlt_dec a (- e))];
    intros E; injection E as E _; subst t; lra.
Qed.
Lemma sel_quat (m : mat3R) t w x y z s : rot m -> mat2SO3_sel m = (t, (w, x, y, z)) ->
  s * s = t -> s <> 0 ->
  unitq ((x / (2 * s), y / (2 * s), z / (2 * s)), w / (2 * s)) /\
  SO3_matrix ((x / (2 * s), y / (2 * s), z / (2 * s)), w / (2 * s)) = m.
Proof.
  destruct m as [[[[a b] c] [[d e] f]] [[g h] i]]. intros [H Hd] E Hs Hn. unfold mat2SO3_sel in E.
  cbn [ltb opp add sub one NumR] in E. unfold Rltb in E. unfold unitq, orth in *.
  destruct (Rlt_dec i conv_tol); [destruct (Rlt_dec e a) | destruct (Rlt_dec a (- e))];
    injection E as Et Ew Ex Ey Ez; subst t w x y z; clear - H Hd Hs Hn;
    lie_unfold; injection H as H1 H2 H3 H4 H5 H6 H7 H8 H9;
    (split; [| split_pairs]); (field_simplify_eq; [| exact Hn]); cbn [Rpow_def.pow]; nsatz.
Qed.
Lemma mat2SO3_rot (m : mat3R) : rot m ->
  exists q, mat2SO3 false m = Some q /\ unitq q /\ SO3_matrix q = m.
Proof.
  intros Hm. unfold mat2SO3. cbn [andb].
  destruct (mat2SO3_sel m) as [t [[[w x] y] z]] eqn:E.
  pose proof (sel_t_pos _ _ _ E) as Ht.
  cbn [leb zero NumR]. replace (Rleb t 0) with false by (symmetry; apply Rleb_false; exact Ht).
  cbn [two mul div ofZ tsqrt NumR TransR].
  assert (Hs : sqrt t * sqrt t = t) by (apply sqrt_sqrt; lra).
  assert (Hn : sqrt t <> 0) by (intros H0; rewrite H0 in Hs; lra).
  eexists. split; [reflexivity|]. exact (sel_quat m t w x y z (sqrt t) Hm E Hs Hn).
Qed.

Lemma resid_ext (f g : vec3R -> vec3R) : (forall p, f p = g p) -> forall src tgt, resid f src tgt = resid g src tgt.
Proof.
  intros Hfg. induction src as [|p src IH]; intros [|q tgt]; cbn [resid]; try reflexivity.
  now rewrite Hfg, IH.
Qed.
Lemma SE3_act_rigid (t : vec3R) (q : quatR) (p : vec3R) : SE3_act (t, q) p = rigid_apply (SO3_matrix q) t p.
Proof. unfold SE3_act, rigid_apply. cbn [fst snd]. rewrite SO3_act_is_matrix. al_ring. Qed.

(* the function as called, with the SVD oracle: it returns (never raises) a valid SE3 element
   that acts on points as p |-> R p + t with (R, t) = svdtf_mat *)
Section WithOracle.
Variable svd : mat3R -> mat3R * vec3R * mat3R.
Definition svd_contract (M : mat3R) : Prop := let '(U, Sg, Vh) := svd M in svd_ok M U Sg Vh.

Theorem svdtf_returns (src tgt : cloudR) :
  sizes_ok src tgt = true -> svd_contract (svdtf_M src tgt) ->
  exists T, svdtf svd src tgt = Some T /\ unitq (snd T) /\
    let '(U, _, Vh) := svd (svdtf_M src tgt) in
    rot (SO3_matrix (snd T)) /\
    forall p, SE3_act T p = rigid_apply (fst (svdtf_mat src tgt U Vh)) (snd (svdtf_mat src tgt U Vh)) p.
Proof.
  intros Hs Hc. unfold svdtf, svd_contract in *. rewrite Hs.
  destruct (svd (svdtf_M src tgt)) as [[U S] Vh]. destruct Hc as (HU & HV & _ & _).
  pose proof (svdtf_proper U Vh HU HV) as HR.
  destruct (mat2SO3_rot _ HR) as (q & Eq & Hq & Hm).
  unfold mat2SE3, svdtf_mat. cbn [fst snd]. rewrite Eq.
  eexists. split; [reflexivity|]. cbn [snd fst]. split; [exact Hq|]. split; [rewrite Hm; exact HR|].
  intros p. rewrite SE3_act_rigid, Hm. reflexivity.
Qed.
(* history: the same for the source before fix 23d9fa1 *)
Theorem svdtf_old_returns (src tgt : cloudR) :
  sizes_ok src tgt = true -> svd_contract (svdtf_M src tgt) ->
  exists T, svdtf_old svd src tgt = Some T /\ unitq (snd T) /\
    let '(U, _, Vh) := svd (svdtf_M src tgt) in
    forall p, SE3_act T p = rigid_apply (fst (svdtf_mat_old src tgt U Vh)) (snd (svdtf_mat_old src tgt U Vh)) p.
Proof.
  intros Hs Hc. unfold svdtf_old, svd_contract in *. rewrite Hs.
  destruct (svd (svdtf_M src tgt)) as [[U S] Vh]. destruct Hc as (HU & HV & _ & _).
  pose proof (svdtf_old_proper U Vh HU HV) as HR.
  destruct (mat2SO3_rot _ HR) as (q & Eq & Hq & Hm).
  unfold mat2SE3, svdtf_mat_old. cbn [fst snd]. rewrite Eq.
  eexists. split; [reflexivity|]. cbn [snd fst]. split; [exact Hq|].
  intros p. rewrite SE3_act_rigid, Hm. reflexivity.
Qed.
End WithOracle.

(* history: refutation of the OLD function as called: an oracle whose answer on this input meets
   the contract, and the returned SE3 element moves the (identical) clouds apart; the repaired
   function maps the same clouds onto each other exactly *)
Theorem svdtf_old_call_refuted :
  exists (svd : mat3R -> mat3R * vec3R * mat3R) (src tgt : cloudR) T T',
    sizes_ok src tgt = true /\ svd_contract svd (svdtf_M src tgt) /\
    svdtf_old svd src tgt = Some T /\ resid (SE3_act SE3_id) src tgt = 0 /\ resid (SE3_act T) src tgt = 32 /\
    svdtf svd src tgt = Some T' /\ resid (SE3_act T') src tgt = 0.
Proof.
  set (svd := fun _ : mat3R => (wit_U, wit_S, wit_Vh)).
  destruct wit_contract as [H1 H2].
  assert (Hc : svd_contract svd (svdtf_M wit_src wit_src)) by exact H2.
  destruct (svdtf_old_returns svd wit_src wit_src H1 Hc) as (T & ET & _ & HT).
  destruct (svdtf_returns svd wit_src wit_src H1 Hc) as (T' & ET' & _ & HT').
  exists svd, wit_src, wit_src, T, T'. split; [exact H1|]. split; [exact Hc|]. split; [exact ET|].
  unfold svd in HT, HT'. cbv beta iota in HT, HT'. destruct HT' as [_ HT'].
  assert (H0 : resid (SE3_act SE3_id) wit_src wit_src = 0).
  { rewrite (resid_ext _ (fun p => p)) by (intros p; apply SE3_act_id).
    unfold wit_src. cbn [resid]. al_unfold. ring. }
  split; [exact H0|]. split; [|split; [exact ET'|]].
  - rewrite (resid_ext _ _ HT).
    unfold svdtf_mat_old. cbn [fst snd]. rewrite wit_rot. unfold wit_src.
    cbv [resid length centroid vsum3 fold_right ofN Z.of_nat Pos.of_succ_nat Pos.succ vdivs].
    al_unfold. field.
  - rewrite (resid_ext _ _ HT').
    pose proof (svdtf_optimal wit_src wit_src wit_U wit_S wit_Vh H1 H2 mid3 vzero rot_mid3) as Hle.
    rewrite (resid_ext (rigid_apply mid3 vzero) (fun p => p)) in Hle by (intros p; al_ring).
    rewrite (resid_ext (fun p => p) (SE3_act SE3_id)) in Hle by (intros p; symmetry; apply SE3_act_id).
    rewrite H0 in Hle.
    pose proof (resid_nonneg (rigid_apply (fst (svdtf_mat wit_src wit_src wit_U wit_Vh)) (snd (svdtf_mat wit_src wit_src wit_U wit_Vh))) wit_src wit_src).
    lra.
Qed.

(* ---------------------------------------------------------------- mat2Sim3 on s R, svdstf as called *)
Lemma cbrt_cube (s : R) : 0 < s -> cbrt_pow (s * s * s) = Some s.
Proof.
  intros Hs. unfold cbrt_pow. cbn [ltb eqb zero NumR].
  assert (H3 : 0 < s * s * s) by (apply Rmult_lt_0_compat; [apply Rmult_lt_0_compat|]; exact Hs).
  replace (Rltb (s * s * s) 0) with false by (symmetry; apply Rltb_false; lra).
  replace (Reqb (s * s * s) 0) with false by (symmetry; apply Reqb_false; lra).
  cbn [texp tln div ofZ TransR NumR]. f_equal.
  rewrite !ln_mult by (try exact Hs; apply Rmult_lt_0_compat; exact Hs).
  replace ((ln s + ln s + ln s) / 3) with (ln s) by field. now apply exp_ln.
Qed.
Lemma checks_ok_rot (m : mat3R) : rot m -> checks_ok m.
Proof.
  intros [H Hd]. unfold checks_ok. unfold orth in H. rewrite H, Hd. cbv [mid3 mr0 mr1 mr2 vx vy vz fst snd one zero NumR].
  replace (1 - 1) with 0 by ring. rewrite Rabs_R0. repeat split; lra.
Qed.
Lemma mdivs3_mscale3 (s : R) (m : mat3R) : s <> 0 -> mdivs3 (mscale3 s m) s = m.
Proof. intros Hs. destruct_tuples. al_unfold. split_pairs; field; exact Hs. Qed.
Lemma mat2Sim3_scaled_rot (s : R) (m : mat3R) (t : vec3R) : rot m -> 1 / 100000 < s ->
  exists q, mat2Sim3 true (mscale3 s m, t) = Some (t, (q, s)) /\ unitq q /\ SO3_matrix q = m.
Proof.
  intros Hm Hs. assert (H0 : 0 < s) by lra. unfold mat2Sim3. cbn [fst snd].
  rewrite mdet3_mscale3, (proj2 Hm), Rmult_1_r, (cbrt_cube s H0).
  unfold mat2Sim3_k. cbn [fst snd]. rewrite absF_R, (Rabs_right s) by lra.
  cbn [leb NumR]. replace (Rleb s conv_tol) with false
    by (symmetry; apply Rleb_false; unfold conv_tol, frac; cbn [div ofZ NumR]; lra).
  rewrite mdivs3_mscale3 by lra. rewrite (mat2SO3_checked _ (checks_ok_rot _ Hm)).
  destruct (mat2SO3_rot _ Hm) as (q & Eq & Hq & Hmq). rewrite Eq. exists q. auto.
Qed.
Lemma Sim3_act_sim (t : vec3R) (q : quatR) (s : R) (p : vec3R) :
  Sim3_act (t, (q, s)) p = sim_apply s (SO3_matrix q) t p.
Proof.
  unfold Sim3_act, RxSO3_act, sim_apply. cbn [fst snd]. rewrite SO3_act_is_matrix.
  generalize (SO3_matrix q). intros m. al_ring.
Qed.

Section WithOracle2.
Variable svd : mat3R -> mat3R * vec3R * mat3R.
(* svdstf returns (does not raise) whenever the scale it computes exceeds mat2Sim3's 1e-5 threshold,
   and the Sim3 element acts as p |-> s R p + t with (s, R, t) = svdstf_mat *)
Theorem svdstf_returns (ws : bool) (src tgt : cloudR) :
  sizes_ok src tgt = true -> svd_contract svd (svdstf_H src tgt) ->
  let '(U, D, V) := svd (svdstf_H src tgt) in
  1 / 100000 < fst (fst (svdstf_mat ws src tgt U D V)) ->
  exists X, svdstf svd ws src tgt = Some X /\ unitq (fst (snd X)) /\
    snd (snd X) = fst (fst (svdstf_mat ws src tgt U D V)) /\
    forall p, Sim3_act X p = sim_apply (fst (fst (svdstf_mat ws src tgt U D V)))
                                       (snd (fst (svdstf_mat ws src tgt U D V)))
                                       (snd (svdstf_mat ws src tgt U D V)) p.
Proof.
  intros Hs Hc. unfold svdstf, svd_contract in *. rewrite Hs.
  destruct (svd (svdstf_H src tgt)) as [[U D] V]. destruct Hc as (HU & HV & _ & _).
  unfold svdstf_mat. cbn [fst snd]. intros Hsc.
  pose proof (svdstf_proper U V HU HV) as HR.
  destruct (mat2Sim3_scaled_rot _ _ (vsub (centroid tgt) (mvmul (mscale3 (svdstf_scale ws src U V D) (svdstf_rot U V)) (centroid src))) HR Hsc)
    as (q & Eq & Hq & Hm).
  rewrite Eq. eexists. split; [reflexivity|]. cbn [fst snd]. split; [exact Hq|]. split; [reflexivity|].
  intros p. rewrite Sim3_act_sim, Hm. reflexivity.
Qed.
End WithOracle2.

(* ---------------------------------------------------------------- one ICP pass does not increase
   the sum of squared closest-point distances *)
(* contract of knn, k = 1: the index is in range and no target point is closer *)
Definition knn_ok (P tgt : cloudR) (idx : list nat) : Prop :=
  Forall2 (fun p i => (i < length tgt)%nat /\
                      forall q, In q tgt -> sqnorm (vsub (nth i tgt vzero) p) <= sqnorm (vsub q p)) P idx.
(* sum over the cloud of the squared distance to the target point the index list selects *)
Definition cpd (P tgt : cloudR) (idx : list nat) : R := resid (fun p => p) P (gather3 tgt idx).

Lemma resid_map (f : vec3R -> vec3R) : forall P G, resid (fun p => p) (map f P) G = resid f P G.
Proof. induction P as [|p P IH]; intros [|g G]; cbn [map resid]; try reflexivity. now rewrite IH. Qed.
Lemma cpd_best (P tgt : cloudR) : forall idx' idx, knn_ok P tgt idx' ->
  Forall (fun i => (i < length tgt)%nat) idx -> length idx = length P ->
  cpd P tgt idx' <= cpd P tgt idx.
Proof.
  unfold cpd, knn_ok. induction P as [|p P IH]; intros idx' idx H2 Hr HL.
  - inversion H2; subst. cbn. lra.
  - inversion H2 as [|? i' ? idx'r [Hi' Hbest] H2r]; subst. destruct idx as [|i idx]; [discriminate|].
    inversion Hr as [|? ? Hi Hrr]; subst. injection HL as HL.
    cbn [gather3 map resid]. cbn [add NumR].
    specialize (IH idx'r idx H2r Hrr HL). unfold gather3 in IH.
    pose proof (Hbest (nth i tgt vzero) (nth_In _ _ Hi)). lra.
Qed.
Lemma knn_ok_length P tgt idx : knn_ok P tgt idx -> length idx = length P.
Proof. unfold knn_ok. induction 1; cbn; [reflexivity | now f_equal]. Qed.
Lemma knn_ok_range P tgt idx : knn_ok P tgt idx -> Forall (fun i => (i < length tgt)%nat) idx.
Proof. unfold knn_ok. induction 1; constructor; tauto. Qed.

Section WithOracle3.
Variable svd : mat3R -> mat3R * vec3R * mat3R.
Variable knn : cloudR -> cloudR -> list (R * nat).
Theorem icp_pass_monotone (temporal target temporal' : cloudR) (err : R) :
  temporal <> [] ->
  knn_ok temporal target (map snd (knn temporal target)) ->
  knn_ok temporal' target (map snd (knn temporal' target)) ->
  svd_contract svd (svdtf_M temporal (gather3 target (map snd (knn temporal target)))) ->
  icp_body svd knn temporal target = Some (err, temporal') ->
  cpd temporal' target (map snd (knn temporal' target)) <= cpd temporal target (map snd (knn temporal target)).
Proof.
  intros Hne Hk Hk' Hc Hbody. unfold icp_body in Hbody.
  set (idx := map snd (knn temporal target)) in *. set (G := gather3 target idx) in *.
  assert (HLG : length G = length temporal) by (unfold G, gather3; rewrite map_length; apply (knn_ok_length _ _ _ Hk)).
  assert (Hs : sizes_ok temporal G = true).
  { unfold sizes_ok. rewrite HLG, Nat.eqb_refl. destruct temporal; [contradiction | reflexivity]. }
  destruct (svdtf_returns svd temporal G Hs Hc) as (T & ET & _ & HT). rewrite ET in Hbody.
  injection Hbody as _ Ht'. subst temporal'.
  unfold svd_contract in Hc. destruct (svd (svdtf_M temporal G)) as [[U S] Vh]. destruct HT as [_ HT].
  (* closest points of the moved cloud are at least as close as the old correspondences *)
  pose proof (cpd_best _ target _ idx Hk' (knn_ok_range _ _ _ Hk)) as H1.
  unfold se3_cloud in *. rewrite map_length in H1. specialize (H1 (knn_ok_length _ _ _ Hk)).
  eapply Rle_trans; [exact H1|]. unfold cpd. fold G. rewrite resid_map, (resid_ext _ _ HT).
  (* svdtf's transform is at least as good as the identity on the matched pairs *)
  pose proof (svdtf_optimal temporal G U S Vh Hs Hc mid3 vzero rot_mid3) as H2.
  rewrite (resid_ext (rigid_apply mid3 vzero) (fun p => p)) in H2 by (intros p; al_ring). exact H2.
Qed.
End WithOracle3.

(* `source_.norm(dim=-1)**2` of the code is the squared norm the model uses *)
Lemma norm_sq (p : vec3R) : sqrt (sqnorm p) * sqrt (sqnorm p) = sqnorm p.
Proof. apply sqrt_sqrt, sqnorm_nonneg. Qed.
