(* C17: point-set alignment (svdtf, svdstf), ICP pass, EPnP linear system -- proofs over R. *)
From Coq Require Import Reals Lra Psatz List Nsatz ZArith Bool Arith.
Import ListNotations.
From PV Require Import Base.Num Base.RTac Model.LieGroup Model.Controller Model.Align Proofs.LieGroup.
Local Open Scope R_scope.
#[local] Remove Hints NumQ NumZ : typeclass_instances.

Notation mat3R := (@mat3 R).
Notation cloudR := (@cloud R).

(* ---------------------------------------------------------------- rotations *)
Definition orth (A : mat3R) : Prop := mmul3 A (mtrans A) = mid3.
Definition rot (A : mat3R) : Prop := orth A /\ mdet3 A = 1.
(* the contract of torch.linalg.svd assumed by every theorem below *)
Definition svd_ok (M U : mat3R) (S : vec3R) (Vh : mat3R) : Prop :=
  orth U /\ orth Vh /\ (vy S <= vx S /\ vz S <= vy S /\ 0 <= vz S) /\
  M = mmul3 (mmul3 U (diag3 S)) Vh.

Ltac al_unfold :=
  cbv [orth centroid outer3 mneg3 mdivs3 diag3 mtrace3 sqnorm signF
       kabsch_rot svdstf_rot umeyama_sign rigid_apply sim_apply vdivs det_tol] in *; lie_unfold.
Ltac al_ring := intros; destruct_tuples; al_unfold; split_pairs; ring.

Lemma mmul3_assoc (A B C : mat3R) : mmul3 (mmul3 A B) C = mmul3 A (mmul3 B C).
Proof. al_ring. Qed.
Lemma mtrans_mmul3 (A B : mat3R) : mtrans (mmul3 A B) = mmul3 (mtrans B) (mtrans A).
Proof. al_ring. Qed.
Lemma mtrans_invol (A : mat3R) : mtrans (mtrans A) = A.
Proof. al_ring. Qed.
Lemma mmul3_id_r (A : mat3R) : mmul3 A mid3 = A.
Proof. al_ring. Qed.
Lemma mmul3_id_l (A : mat3R) : mmul3 mid3 A = A.
Proof. al_ring. Qed.
Lemma mdet3_mmul3 (A B : mat3R) : mdet3 (mmul3 A B) = mdet3 A * mdet3 B.
Proof. al_ring. Qed.
Lemma mdet3_mtrans (A : mat3R) : mdet3 (mtrans A) = mdet3 A.
Proof. al_ring. Qed.
Lemma mdet3_mid3 : mdet3 (mid3 (F:=R)) = 1.
Proof. al_ring. Qed.
Lemma mdet3_mneg3 (A : mat3R) : mdet3 (mneg3 A) = - mdet3 A.
Proof. al_ring. Qed.
Lemma mtrans_mid3 : mtrans (mid3 (F:=R)) = mid3.
Proof. al_ring. Qed.
Lemma mtrans_diag3 (d : vec3R) : mtrans (diag3 d) = diag3 d.
Proof. al_ring. Qed.
Lemma mdet3_diag3 (d : vec3R) : mdet3 (diag3 d) = vx d * vy d * vz d.
Proof. al_ring. Qed.
Lemma mdet3_mscale3 (s : R) (A : mat3R) : mdet3 (mscale3 s A) = s * s * s * mdet3 A.
Proof. al_ring. Qed.

Lemma orth_left A : orth A -> mmul3 (mtrans A) A = mid3.
Proof.
  intros H. destruct_tuples. al_unfold.
  injection H as H1 H2 H3 H4 H5 H6 H7 H8 H9.
  split_pairs; nsatz.
Qed.
Lemma orth_mtrans A : orth A -> orth (mtrans A).
Proof. intros H. unfold orth. rewrite mtrans_invol. now apply orth_left. Qed.
Lemma orth_mid3 : orth mid3.
Proof. unfold orth. now rewrite mtrans_mid3, mmul3_id_l. Qed.
Lemma orth_mmul3 A B : orth A -> orth B -> orth (mmul3 A B).
Proof.
  unfold orth. intros HA HB.
  rewrite mtrans_mmul3, mmul3_assoc, <- (mmul3_assoc B), HB, mmul3_id_l. exact HA.
Qed.
Lemma orth_mneg3 A : orth A -> orth (mneg3 A).
Proof.
  unfold orth. intros H. rewrite <- H. al_ring.
Qed.
Lemma orth_det_sq A : orth A -> mdet3 A * mdet3 A = 1.
Proof.
  intros H. rewrite <- mdet3_mid3. unfold orth in H. rewrite <- H, mdet3_mmul3, mdet3_mtrans. ring.
Qed.
Lemma orth_det_cases A : orth A -> mdet3 A = 1 \/ mdet3 A = -1.
Proof.
  intros H. pose proof (orth_det_sq A H) as Hs.
  assert (Hf : (mdet3 A - 1) * (mdet3 A + 1) = 0) by (ring_simplify; lra).
  apply Rmult_integral in Hf. destruct Hf; [left | right]; lra.
Qed.
Lemma rot_mid3 : rot mid3.
Proof. split; [apply orth_mid3 | apply mdet3_mid3]. Qed.

(* entries of an orthogonal matrix lie in [-1, 1] *)
Lemma orth_diag_bounds A : orth A ->
  (-1 <= vx (mr0 A) <= 1) /\ (-1 <= vy (mr1 A) <= 1) /\ (-1 <= vz (mr2 A) <= 1).
Proof.
  intros H. destruct_tuples. al_unfold.
  injection H as H1 H2 H3 H4 H5 H6 H7 H8 H9.
  repeat split; nra.
Qed.

(* ---------------------------------------------------------------- the SO(3) trace identity *)
Lemma rotation_trace_identity A : rot A ->
  let '((a, b, c), (d, e, f), (g, h, i)) := A in
  (1 + (a + e + i)) * (3 - (a + e + i)) = (b - d) * (b - d) + (c - g) * (c - g) + (f - h) * (f - h).
Proof.
  intros [H Hd]. destruct_tuples. al_unfold.
  injection H as H1 H2 H3 H4 H5 H6 H7 H8 H9.
  nsatz.
Qed.
Lemma rotation_trace_ge_m1 A : rot A -> -1 <= mtrace3 A.
Proof.
  intros HR. pose proof (rotation_trace_identity A HR) as Hid.
  destruct HR as [H _]. pose proof (orth_diag_bounds A H) as Hb.
  destruct A as [[[[a b] c] [[d e] f]] [[g h] i]]. cbv [mtrace3 vx vy vz mr0 mr1 mr2 fst snd add NumR] in *.
  remember (a + e + i) as T eqn:ET.
  assert (Hp : 0 <= (1 + T) * (3 - T)).
  { rewrite Hid. pose proof (Rle_0_sqr (b - d)). pose proof (Rle_0_sqr (c - g)). pose proof (Rle_0_sqr (f - h)).
    unfold Rsqr in *. lra. }
  destruct (Rle_dec (-1) T) as [Hle | Hn]; [exact Hle | exfalso].
  assert (H1 : 1 + T < 0) by lra. assert (H2 : 0 < 3 - T) by lra.
  pose proof (Rmult_lt_0_compat (- (1 + T)) (3 - T) ltac:(lra) H2). lra.
Qed.
Lemma improper_trace_le_1 A : orth A -> mdet3 A = -1 -> mtrace3 A <= 1.
Proof.
  intros H Hd.
  assert (HR : rot (mneg3 A)) by (split; [now apply orth_mneg3 | rewrite mdet3_mneg3; lra]).
  apply rotation_trace_ge_m1 in HR. destruct_tuples. al_unfold. lra.
Qed.

(* ---------------------------------------------------------------- the trace inequality *)
(* sum_i s_i Q_ii <= s1 + s2 + det(Q) s3  for orthogonal Q and s1 >= s2 >= s3 >= 0 *)
Definition wtrace (S : vec3R) (Q : mat3R) : R :=
  vx S * vx (mr0 Q) + vy S * vy (mr1 Q) + vz S * vz (mr2 Q).
Lemma wt_pos s1 s2 s3 q1 q2 q3 : s2 <= s1 -> s3 <= s2 -> 0 <= s3 -> q1 <= 1 -> q2 <= 1 -> q3 <= 1 ->
  s1 * q1 + s2 * q2 + s3 * q3 <= s1 + s2 + s3.
Proof.
  intros. pose proof (Rmult_le_pos s1 (1 - q1) ltac:(lra) ltac:(lra)).
  pose proof (Rmult_le_pos s2 (1 - q2) ltac:(lra) ltac:(lra)).
  pose proof (Rmult_le_pos s3 (1 - q3) ltac:(lra) ltac:(lra)). lra.
Qed.
Lemma wt_neg s1 s2 s3 q1 q2 q3 : s2 <= s1 -> s3 <= s2 -> 0 <= s3 -> q1 <= 1 -> q2 <= 1 -> q1 + q2 + q3 <= 1 ->
  s1 * q1 + s2 * q2 + s3 * q3 <= s1 + s2 - s3.
Proof.
  intros. pose proof (Rmult_le_pos (s1 - s3) (1 - q1) ltac:(lra) ltac:(lra)).
  pose proof (Rmult_le_pos (s2 - s3) (1 - q2) ltac:(lra) ltac:(lra)).
  pose proof (Rmult_le_pos s3 (1 - (q1 + q2 + q3)) ltac:(lra) ltac:(lra)). lra.
Qed.
Lemma wt_low s1 s2 s3 q1 q2 q3 : s2 <= s1 -> s3 <= s2 -> 0 <= s3 -> -1 <= q1 -> -1 <= q2 -> -1 <= q3 ->
  - (s1 + s2 + s3) <= s1 * q1 + s2 * q2 + s3 * q3.
Proof.
  intros. pose proof (Rmult_le_pos s1 (1 + q1) ltac:(lra) ltac:(lra)).
  pose proof (Rmult_le_pos s2 (1 + q2) ltac:(lra) ltac:(lra)).
  pose proof (Rmult_le_pos s3 (1 + q3) ltac:(lra) ltac:(lra)). lra.
Qed.
Lemma wtrace_upper S Q : orth Q -> vy S <= vx S -> vz S <= vy S -> 0 <= vz S ->
  wtrace S Q <= vx S + vy S + mdet3 Q * vz S.
Proof.
  intros H H1 H2 H3. pose proof (orth_diag_bounds Q H) as (Ha & Hb & Hc).
  destruct (orth_det_cases Q H) as [Hd | Hd]; rewrite Hd.
  - unfold wtrace. rewrite Rmult_1_l. apply wt_pos; lra.
  - pose proof (improper_trace_le_1 Q H Hd) as Ht. unfold wtrace, mtrace3 in *. cbn [add NumR] in Ht.
    replace (vx S + vy S + -1 * vz S) with (vx S + vy S - vz S) by ring. apply wt_neg; lra.
Qed.
Lemma wtrace_lower S Q : orth Q -> vy S <= vx S -> vz S <= vy S -> 0 <= vz S ->
  - (vx S + vy S + vz S) <= wtrace S Q.
Proof.
  intros H H1 H2 H3. pose proof (orth_diag_bounds Q H) as (Ha & Hb & Hc). unfold wtrace.
  apply wt_low; lra.
Qed.

(* <R, M> = tr(R^T M) *)
Definition dotM (A M : mat3R) : R := mtrace3 (mmul3 (mtrans A) M).
Lemma dotM_svd A U S Vh :
  dotM A (mmul3 (mmul3 U (diag3 S)) Vh) = wtrace S (mmul3 (mmul3 Vh (mtrans A)) U).
Proof. unfold dotM, wtrace. al_ring. Qed.
Lemma dotM_mscale3 c A M : dotM (mscale3 c A) M = c * dotM A M.
Proof. unfold dotM. al_ring. Qed.
Lemma dotM_mscale3_r c A M : dotM A (mscale3 c M) = c * dotM A M.
Proof. unfold dotM. al_ring. Qed.
Lemma dotM_mneg3 A M : dotM (mneg3 A) M = - dotM A M.
Proof. unfold dotM. al_ring. Qed.

Lemma wtrace_diag S d : wtrace S (diag3 d) = vdot d S.
Proof. unfold wtrace. al_ring. Qed.

(* Q* = Vh R*^T U = diag(1,1,d) *)
Lemma kabsch_Q U Vh : orth U -> orth Vh ->
  mmul3 (mmul3 Vh (mtrans (kabsch_rot U Vh))) U = diag3 (1, 1, mdet3 (mmul3 U Vh)).
Proof.
  intros HU HV. unfold kabsch_rot. cbn [one NumR].
  rewrite !mtrans_mmul3, mtrans_diag3.
  rewrite <- (mmul3_assoc Vh), <- (mmul3_assoc Vh). unfold orth in HV. rewrite HV, mmul3_id_l.
  rewrite mmul3_assoc, (orth_left U HU). apply mmul3_id_r.
Qed.
Lemma kabsch_rot_rot U Vh : orth U -> orth Vh -> rot (kabsch_rot U Vh).
Proof.
  intros HU HV. unfold kabsch_rot. cbn [one NumR]. split.
  - apply orth_mmul3; [apply orth_mmul3; [exact HU|] | exact HV].
    unfold orth. rewrite mtrans_diag3.
    destruct (orth_det_cases _ (orth_mmul3 _ _ HU HV)) as [Hd | Hd]; rewrite Hd; al_ring.
  - rewrite !mdet3_mmul3, mdet3_diag3. cbn [vx vy vz fst snd].
    pose proof (orth_det_sq _ (orth_mmul3 _ _ HU HV)) as Hs. rewrite mdet3_mmul3 in Hs. nra.
Qed.

(* Kabsch: R* maximises tr(R^T M) over all rotations *)
Lemma kabsch_trace_optimal M U S Vh A : svd_ok M U S Vh -> rot A ->
  dotM A M <= dotM (kabsch_rot U Vh) M.
Proof.
  intros (HU & HV & (H1 & H2 & H3) & HM) [HA HdA]. subst M. rewrite !dotM_svd.
  rewrite (kabsch_Q U Vh HU HV), wtrace_diag.
  set (Q := mmul3 (mmul3 Vh (mtrans A)) U).
  assert (HQ : orth Q) by (apply orth_mmul3; [apply orth_mmul3; [exact HV | now apply orth_mtrans] | exact HU]).
  assert (HdQ : mdet3 Q = mdet3 (mmul3 U Vh)).
  { unfold Q. rewrite !mdet3_mmul3, mdet3_mtrans, HdA. ring. }
  pose proof (wtrace_upper S Q HQ H1 H2 H3) as Hw. rewrite HdQ in Hw.
  destruct S as [[s1 s2] s3]. al_unfold. lra.
Qed.
Lemma kabsch_trace_value M U S Vh : svd_ok M U S Vh ->
  dotM (kabsch_rot U Vh) M = vx S + vy S + mdet3 (mmul3 U Vh) * vz S.
Proof.
  intros (HU & HV & _ & HM). subst M. rewrite dotM_svd, (kabsch_Q U Vh HU HV), wtrace_diag.
  destruct S as [[s1 s2] s3]. al_unfold. ring.
Qed.
