(* More proofs for C18: the centroid returned for a voxel lies in that voxel's cell; pixel2point
   raises exactly when a focal length is zero (any 3x3 intrinsics). *)
From Coq Require Import QArith.
Close Scope Q_scope.
From Coq Require Import ZArith Reals Lra Lia List Bool Arith Permutation Sorted Psatz.
Import ListNotations.
From PV Require Import Base.Num Model.LieGroup Model.Cloud Proofs.Cloud Proofs.Cloud2 Proofs.Cloud3.
#[local] Remove Hints NumQ NumZ : typeclass_instances.
Local Open Scope R_scope.

Lemma sum_bounds (a b : R) (l : list R) : Forall (fun x => a <= x < b) l -> l <> [] ->
  a * INR (length l) <= fold_right Rplus 0 l < b * INR (length l).
Proof.
  intros H Hne. induction H as [|x l Hx Hl IH]; [congruence|].
  destruct l as [|y l'].
  - cbn. lra.
  - assert (Hne' : y :: l' <> []) by discriminate. specialize (IH Hne').
    change (length (x :: y :: l')) with (S (length (y :: l'))). rewrite S_INR.
    cbn [fold_right] in *. lra.
Qed.

Lemma nth_vmean D (rows : cloudR) j : Forall (fun p => length p = D) rows -> (j < D)%nat ->
  nth j (vmean D rows) 0 = fold_right Rplus 0 (map (fun p => nth j p 0) rows) / INR (length rows).
Proof.
  intros Hr Hj. unfold vmean, vscale_inv.
  assert (Hl : length (vsum D rows) = D).
  { unfold vsum. assert (G : forall acc : vecR, length acc = D -> length (fold_left vaddl rows acc) = D).
    { induction Hr as [|p rows Hp _ IH]; intros acc Ha; cbn; auto. apply IH. rewrite vaddl_length; congruence. }
    apply G. apply repeat_length. }
  rewrite (nth_map' _ 0 0) by lia. rewrite nth_vsum by auto.
  unfold ofN. rewrite <- INR_IZR_INZ. reflexivity.
Qed.

(* the centroid of voxel [key] lies in the cell of [key] on every voxel coordinate *)
Lemma centroid_in_cell unique (Hu : uniq_contract unique) (pts : cloudR) (voxel : vecR) D key j :
  Forall (fun p => length p = D) pts -> (length voxel <= D)%nat -> Forall (fun v => v <> 0) voxel ->
  In key (fst (unique (map (vox_of pts voxel) pts))) -> (j < length voxel)%nat ->
  let c := nth j key 0%Z in
  let m := nth j (vox_minp pts voxel) 0 in
  let v := nth j voxel 0 in
  IZR (Z.abs c) * Rabs v <= nth j (vmean D (vox_members pts voxel key)) 0 - m < (IZR (Z.abs c) + 1) * Rabs v.
Proof.
  intros Hrect HD Hv Hkey Hj c m v.
  set (M := vox_members pts voxel key).
  assert (HM : M <> []) by (apply (vox_members_nonempty unique Hu); exact Hkey).
  assert (HMin : forall p, In p M -> In p pts /\ vox_of pts voxel p = key).
  { intros p Hp. apply filter_In in Hp. destruct Hp as [H1 H2]. apply lZ_eqb_true in H2. auto. }
  assert (Hlen : Forall (fun q => (length voxel <= length q)%nat) pts).
  { eapply Forall_impl; [|exact Hrect]. intros q Hq. cbn in Hq. lia. }
  assert (HMrect : Forall (fun p => length p = D) M).
  { apply Forall_forall. intros p Hp. rewrite Forall_forall in Hrect. apply Hrect. now apply HMin. }
  assert (Hcell : Forall (fun x => IZR (Z.abs c) * Rabs v + m <= x < (IZR (Z.abs c) + 1) * Rabs v + m)
                         (map (fun p => nth j p 0) M)).
  { rewrite Forall_map. apply Forall_forall. intros p Hp. destruct (HMin p Hp) as [Hpp Hk].
    pose proof (proj1 (vox_cell pts voxel p j c Hlen Hv Hpp Hj)) as H.
    cbv zeta in H. fold m v in H. destruct H as [_ H]; [unfold c; now rewrite Hk|]. lra. }
  rewrite nth_vmean by (auto; lia).
  assert (Hne : map (fun p => nth j p 0) M <> []) by (destruct M; [congruence | discriminate]).
  pose proof (sum_bounds _ _ _ Hcell Hne) as HS. rewrite map_length in HS.
  assert (Hn : 0 < INR (length M)).
  { apply lt_0_INR. destruct M; [congruence | cbn; lia]. }
  set (Sm := fold_right Rplus 0 (map (fun p => nth j p 0) M)) in *.
  set (n := INR (length M)) in *. clearbody Sm n.
  set (lo := IZR (Z.abs c) * Rabs v) in *. set (hi := (IZR (Z.abs c) + 1) * Rabs v) in *.
  clearbody lo hi. clear - HS Hn.
  assert (E : Sm / n - m = (Sm - m * n) / n) by (field; lra). rewrite E.
  assert (Eq : (Sm - m * n) / n * n = Sm - m * n) by (field; lra).
  remember ((Sm - m * n) / n) as q eqn:Hq. clear Hq E.
  split; nra.
Qed.

(* pixel2point raises exactly when fx = K[0][0] or fy = K[1][1] is zero -- any intrinsics *)
Lemma pixel2point_none_iff (K pix : cloudR) (depth : vecR) :
  pixel2point K pix depth = None <-> kij K 0 0 = 0 \/ kij K 1 1 = 0.
Proof.
  unfold pixel2point.
  destruct (kij K 0 0 =? zero)%num eqn:E1; [|destruct (kij K 1 1 =? zero)%num eqn:E2]; cbn [orb].
  - apply Reqb_true in E1. split; auto.
  - apply Reqb_true in E2. split; auto.
  - apply Reqb_false in E1. apply Reqb_false in E2. split; [discriminate|]. intros [H|H]; contradiction.
Qed.

(* ====================================================================== ties-allowed knn_filter on the true norm *)
(* a selection valid for the row of squared distances is valid for the row of distances *)
Lemma topk_contract_sqrt (row : vecR) k (res : list (R * nat)) :
  topk_contract row k res -> topk_contract (map sqrt row) k (map sqrt_fst res).
Proof.
  intros [Hl [Hnd [Hval [Hs Hmin]]]].
  assert (Esnd : map snd (map sqrt_fst res) = map snd res) by (rewrite map_map; apply map_ext; intros []; reflexivity).
  assert (Efst : map fst (map sqrt_fst res) = map sqrt (map fst res)) by (rewrite !map_map; apply map_ext; intros []; reflexivity).
  split; [|split; [|split; [|split]]].
  - now rewrite map_length.
  - now rewrite Esnd.
  - intros v j Hin. apply in_map_iff in Hin. destruct Hin as [[v0 j0] [E Hin]].
    unfold sqrt_fst in E; cbn in E. inversion E; subst. destruct (Hval v0 j Hin) as [Hj Hv].
    rewrite map_length. split; auto. rewrite (nth_map' sqrt 0 0) by auto. now rewrite Hv.
  - rewrite Efst. eapply StronglySorted_map; [|exact Hs]. intros a b. apply sqrt_le_1_alt.
  - intros v j j' Hin Hj' Hnot. rewrite map_length in Hj'. rewrite Esnd in Hnot.
    apply in_map_iff in Hin. destruct Hin as [[v0 j0] [E Hin]].
    unfold sqrt_fst in E; cbn in E. inversion E; subst.
    rewrite (nth_map' sqrt 0 0) by auto. apply sqrt_le_1_alt. eapply Hmin; eauto.
Qed.

Lemma topk_contract_Rpdist o pd (pts : cloudR) (p : vecR) k res :
  topk_contract (map (pdist o pd p) pts) k res ->
  exists res', topk_contract (map (Rpdist o pd p) pts) k res' /\ map snd res' = map snd res.
Proof.
  intros H. destruct o.
  - exists res. split; auto.
  - exists (map sqrt_fst res). split.
    + replace (map (Rpdist L2 pd p) pts) with (map sqrt (map (pdist L2 pd p) pts)).
      * now apply topk_contract_sqrt.
      * rewrite map_map. apply map_ext. intros q. now rewrite Rpdist_pdist.
    + rewrite map_map. apply map_ext. intros []; reflexivity.
  - exists res. split; auto.
Qed.

(* both branches, ties allowed, true norm: one row per retained point, each the mean of the rows
   at k+1 distinct indices such that no other point is closer than a selected one *)
Lemma knn_filter_spec_ties_R o pd (pts : cloudR) k radius : (S k <= length pts)%nat ->
  exists out, knn_filter o pd pts k radius = Some out /\
    Forall2 (fun p row => exists res, topk_contract (map (Rpdist o pd p) pts) (S k) res /\
                row = vmean (length p) (map (fun j => nth j pts []) (map snd res)))
            (match radius with None => pts | Some r => filter (nbr_keep o pd pts (Z.of_nat k) r) pts end) out.
Proof.
  intros Hk.
  assert (G : forall l out,
     Forall2 (fun p row => exists res, topk_contract (map (pdist o pd p) pts) (S k) res /\
                row = vmean (length p) (map (fun j => nth j pts []) (map snd res))) l out ->
     Forall2 (fun p row => exists res, topk_contract (map (Rpdist o pd p) pts) (S k) res /\
                row = vmean (length p) (map (fun j => nth j pts []) (map snd res))) l out).
  { intros l out H. induction H as [|p row l out [res [C E]] _ IH]; constructor; auto.
    destruct (topk_contract_Rpdist o pd pts p (S k) res C) as [res' [C' Es]].
    exists res'. split; auto. now rewrite Es. }
  destruct radius as [r|].
  - destruct (knn_filter_radius_spec_ties o pd pts k r Hk) as [out [E H]]. exists out. split; auto.
  - destruct (knn_filter_spec_ties (pdist o pd) (meas_le o) pts k Hk) as [out [E H]]. exists out. split; auto.
Qed.
