(* C12: the stride-doubling scan equals the sequential fold, for every length and any
   associative (not necessarily commutative) operation. *)
From Coq Require Import List Arith Lia PeanoNat ZArith.
Import ListNotations.
From PV Require Import Base.ListAux Model.Cumops.

Section Scan.
Variable A : Type.
Variable op : A -> A -> A.
Hypothesis op_assoc : forall a b c, op (op a b) c = op a (op b c).
Variable d : A.

Lemma zipop_length : forall a b : list A, length (zipop op a b) = Nat.min (length a) (length b).
Proof. induction a as [|x a IH]; destruct b as [|y b]; cbn; auto. Qed.

Lemma zipop_nth : forall (a b : list A) i, i < length a -> i < length b ->
  nth i (zipop op a b) d = op (nth i a d) (nth i b d).
Proof.
  induction a as [|x a IH]; destruct b as [|y b]; cbn; intros i Ha Hb; try lia.
  destruct i as [|i]; [reflexivity|]. apply IH; lia.
Qed.

Lemma pass_some s v : s <= length v -> exists v', pass op s v = Some v' /\ length v' = length v /\
  forall i, i < length v ->
    nth i v' d = if s <=? i then op (nth (i - s) v d) (nth i v d) else nth i v d.
Proof.
  intros Hs. unfold pass. destruct (length v <? s) eqn:E; [apply Nat.ltb_lt in E; lia|].
  eexists; split; [reflexivity|]. split.
  - rewrite app_length, firstn_length, zipop_length, skipn_length. lia.
  - intros i Hi. destruct (s <=? i) eqn:E2.
    + apply Nat.leb_le in E2. rewrite app_nth2; rewrite firstn_length; [|lia].
      replace (Nat.min s (length v)) with s by lia.
      rewrite zipop_nth; [| lia | rewrite skipn_length; lia].
      f_equal. rewrite nth_skipn'. f_equal; lia.
    + apply Nat.leb_gt in E2. rewrite app_nth1; [|rewrite firstn_length; lia].
      apply nth_firstn'. lia.
Qed.

Lemma pass_none s v : length v < s -> pass op s v = None.
Proof. intros H. unfold pass. apply Nat.ltb_lt in H. now rewrite H. Qed.

(* product of x[lo .. lo+len] (len+1 items), left to right *)
Fixpoint segp (x : list A) (lo len : nat) : A :=
  match len with
  | O => nth lo x d
  | S l => op (segp x lo l) (nth (lo + S l) x d)
  end.

Lemma segp_split x lo l1 l2 :
  segp x lo (l1 + S l2) = op (segp x lo l1) (segp x (lo + S l1) l2).
Proof.
  induction l2 as [|l2 IH].
  - replace (l1 + 1) with (S l1) by lia. cbn [segp]. reflexivity.
  - replace (l1 + S (S l2)) with (S (l1 + S l2)) by lia. cbn [segp].
    rewrite IH, op_assoc. do 2 f_equal. f_equal. lia.
Qed.

(* invariant with window w: v[i] = product of the last min(i+1,w) inputs ending at i *)
Definition Inv (x v : list A) (w : nat) : Prop :=
  length v = length x /\
  forall i, i < length x -> nth i v d = segp x (i + 1 - Nat.min (i + 1) w) (Nat.min (i + 1) w - 1).

Lemma inv_init x : Inv x x 1.
Proof.
  split; [reflexivity|]. intros i Hi.
  replace (Nat.min (i + 1) 1) with 1 by lia. replace (i + 1 - 1) with i by lia. reflexivity.
Qed.

Lemma inv_pass x v w : 0 < w -> w <= length x -> Inv x v w ->
  exists v', pass op w v = Some v' /\ Inv x v' (2 * w).
Proof.
  intros Hw Hwl [Hlen Hv].
  destruct (pass_some w v) as (v' & Hp & Hl' & Hn); [lia|].
  exists v'. split; [exact Hp|]. split; [lia|].
  intros i Hi. rewrite Hn by lia.
  destruct (w <=? i) eqn:E.
  - apply Nat.leb_le in E.
    rewrite (Hv (i - w)) by lia. rewrite (Hv i) by lia.
    replace (Nat.min (i + 1) w) with w by lia.
    set (m := Nat.min (i - w + 1) w).
    assert (Hm : 1 <= m <= w) by (unfold m; lia).
    replace (Nat.min (i + 1) (2 * w)) with (m + w) by (unfold m; lia).
    replace (m + w - 1) with ((m - 1) + S (w - 1)) by lia.
    rewrite segp_split.
    f_equal; f_equal; lia.
  - apply Nat.leb_gt in E. rewrite (Hv i) by lia.
    f_equal; lia.
Qed.

(* all strides w, 2w, ... that are < length x are run; the result has window 2^k * w *)
Lemma inv_scan x : forall k v w, 0 < w -> 2 ^ k * w < 2 * length x -> Inv x v w ->
  exists v', scan op (pows k w) v = Some v' /\ Inv x v' (2 ^ k * w).
Proof.
  induction k as [|k IH]; intros v w Hw Hk HI; cbn [pows scan].
  - exists v. split; [reflexivity|]. now rewrite Nat.pow_0_r, Nat.mul_1_l.
  - assert (Hwl : w <= length x).
    { cbn [Nat.pow] in Hk. assert (1 <= 2 ^ k) by (apply Nat.neq_0_lt_0, Nat.pow_nonzero; lia). nia. }
    destruct (inv_pass x v w Hw Hwl HI) as (v1 & Hp & HI1). rewrite Hp.
    replace (2 ^ S k * w) with (2 ^ k * (2 * w)) by (cbn [Nat.pow]; lia).
    apply IH; [lia | cbn [Nat.pow] in Hk; lia | exact HI1].
Qed.

(* prefix product x[0..i] *)
Definition prefix (x : list A) (i : nat) := segp x 0 i.

Lemma log2_up_bounds L : 1 <= L -> L <= 2 ^ Nat.log2_up L /\ 2 ^ Nat.log2_up L < 2 * L.
Proof.
  intros HL. destruct (Nat.eq_dec L 1) as [->|Hn].
  - cbn. lia.
  - assert (H1 : 1 < L) by lia. pose proof (Nat.log2_up_spec L H1) as [Ha Hb].
    split; [exact Hb|].
    assert (Hpos : 0 < Nat.log2_up L) by (apply Nat.log2_up_pos; lia).
    replace (Nat.log2_up L) with (S (Nat.pred (Nat.log2_up L))) by lia.
    cbn [Nat.pow]. lia.
Qed.

Theorem cumops_correct (x : list A) : 1 <= length x ->
  exists r, cumops_model op x = Some r /\ length r = length x /\
            forall i, i < length x -> nth i r d = prefix x i.
Proof.
  intros HL. unfold cumops_model, strides, nstrides.
  destruct (log2_up_bounds (length x) HL) as [Hlo Hhi].
  destruct (inv_scan x (Nat.log2_up (length x)) x 1 ltac:(lia) ltac:(lia) (inv_init x))
    as (r & Hs & Hlen & Hr).
  exists r. split; [exact Hs|]. split; [exact Hlen|].
  intros i Hi. rewrite Hr by assumption. rewrite Nat.mul_1_r.
  replace (Nat.min (i + 1) (2 ^ Nat.log2_up (length x))) with (i + 1) by lia.
  unfold prefix. f_equal; lia.
Qed.

Lemma cumops_empty : cumops_model op [] = Some [].
Proof. reflexivity. Qed.
End Scan.

(* left / right wrappers *)
Section Wrappers.
Variable A : Type.
Variable mul : A -> A -> A.
Hypothesis mul_assoc : forall a b c, mul (mul a b) c = mul a (mul b c).
Variable d : A.

(* x_i o ... o x_0 *)
Fixpoint lprefix (x : list A) (i : nat) : A :=
  match i with O => nth 0 x d | S j => mul (nth (S j) x d) (lprefix x j) end.
Fixpoint rprefix (x : list A) (i : nat) : A :=
  match i with O => nth 0 x d | S j => mul (rprefix x j) (nth (S j) x d) end.

Lemma flip_assoc a b c : flip_op mul (flip_op mul a b) c = flip_op mul a (flip_op mul b c).
Proof. unfold flip_op. now rewrite mul_assoc. Qed.

Lemma prefix_flip x i : prefix A (flip_op mul) d x i = lprefix x i.
Proof. unfold prefix. induction i as [|i IH]; cbn; [reflexivity|]. unfold flip_op at 1. now rewrite IH. Qed.
Lemma prefix_right x i : prefix A mul d x i = rprefix x i.
Proof. unfold prefix. induction i as [|i IH]; cbn; [reflexivity|]. now rewrite IH. Qed.

Theorem cumprod_left_correct (x : list A) : 1 <= length x ->
  exists r, cumprod_model mul true x = Some r /\ length r = length x /\
            forall i, i < length x -> nth i r d = lprefix x i.
Proof.
  intros HL. destruct (cumops_correct A (flip_op mul) flip_assoc d x HL) as (r & H1 & H2 & H3).
  exists r. repeat split; auto. intros i Hi. rewrite H3 by assumption. apply prefix_flip.
Qed.
Theorem cumprod_right_correct (x : list A) : 1 <= length x ->
  exists r, cumprod_model mul false x = Some r /\ length r = length x /\
            forall i, i < length x -> nth i r d = rprefix x i.
Proof.
  intros HL. destruct (cumops_correct A mul mul_assoc d x HL) as (r & H1 & H2 & H3).
  exists r. repeat split; auto. intros i Hi. rewrite H3 by assumption. apply prefix_right.
Qed.
End Wrappers.

(* purity / in-place *)
Lemma cumops_pure_keeps_input A op (v r a : list A) :
  cumops_pure op v = Some (r, a) -> a = v /\ cumops_model op v = Some r.
Proof. unfold cumops_pure. destruct (cumops_model op v); intros H; inversion H; auto. Qed.
Lemma cumops_inplace_overwrites A op (v r a : list A) :
  cumops_inplace op v = Some (r, a) -> a = r /\ cumops_model op v = Some r.
Proof. unfold cumops_inplace. destruct (cumops_model op v); intros H; inversion H; auto. Qed.

(* the schedule of the unrepaired source (ceil(log2 L + 1) strides) raised for L = 3 *)
Definition strides_old (L : nat) : list nat := pows (Nat.log2_up L + 1) 1.
Lemma cumops_old_refuted : exists L, scan seg_op (strides_old L) (seg_input 0 L) = None.
Proof. exists 3. vm_compute. reflexivity. Qed.

(* the segment monoid is associative, so the theorem applies to the tie's operation *)
Lemma seg_op_assoc a b c : seg_op (seg_op a b) c = seg_op a (seg_op b c).
Proof.
  destruct a as [[a1 a2]|], b as [[b1 b2]|], c as [[c1 c2]|]; cbn; try reflexivity;
  repeat match goal with |- context [Z.eqb ?u ?v] => destruct (Z.eqb_spec u v); cbn end;
  try reflexivity; try (exfalso; lia).
Qed.
Example nonvacuous : cumops_model seg_op (seg_input 5 6) =
  Some [Some (5,5); Some (5,6); Some (5,7); Some (5,8); Some (5,9); Some (5,10)]%Z.
Proof. vm_compute. reflexivity. Qed.
