(* C16, second part (extends Proofs/IMU.v; same model Model/IMU.v):
   A. forward = predict applied to the documented pre-integration recursion, and its covariance = the
      documented recursion over the frames of the call, with NO hypothesis on the quaternions;
   B. rotation / carried Rij / covariance are chunking-invariant with no unit-norm hypothesis
      (only velocity and position need R(q1 q2) = R(q1) R(q2), i.e. unit quaternions);
   C. every call of a chunked history returns what one call on the frames fed so far returns
      (rot/vel/pos of the chunk, covariance at the chunk boundary);
   D. the batch axis: a rank-3 call with or without rot= is the per-item call on every item; a history of
      batched calls is, item by item, the history of a single-IMU object; chunk invariance and covariance
      validity for batches;
   E. gravity: zero gravity makes the supplied rotation irrelevant; a supplied rotation equal to the
      integrated one gives the rot=None result;
   F. gyro level: increments so3_exp(gyro*dt) of the C01 model are unit on the closed-form branch and at 0. *)
From Coq Require Import QArith Reals Lra Psatz List Arith Lia Bool.
Import ListNotations.
Close Scope Q_scope.
From PV Require Import Base.Num Base.RTac Base.Mat Model.Cumops Model.LieGroup Model.IMU Proofs.Cumops Proofs.LieGroup Proofs.IMU.
Local Open Scope R_scope.
#[local] Remove Hints NumQ NumZ : typeclass_instances.

(* ------------------------------------------------------------------ A. forward, no hypothesis on quaternions *)
Lemma map_mul_scanl1 : forall (l : list quatR) r a, map (SO3_mul r) (scanl1 SO3_mul a l) = scanl1 SO3_mul (SO3_mul r a) l.
Proof.
  induction l as [|x l IH]; intros r a; [reflexivity|]. cbn [scanl1 map]. rewrite IH. now rewrite SO3_mul_assoc.
Qed.
Lemma pre_run_R g ir : forall fs s, map p_R (pre_run g ir s fs) = scanl1 SO3_mul (p_R s) (map (@i_inc R) fs).
Proof. induction fs as [|f fs IH]; intros s; [reflexivity|]. cbn [pre_run map scanl1]. now rewrite IH. Qed.

(* the world-frame states a call returns: predict applied to the pre-integration recursion *)
Definition composed_run (g : vec3R) (st : istate R) (fs : list iframeR) : list wstate :=
  map (compose (s_rot st) (s_vel st) (s_pos st)) (pre_run g (s_rot st) pre_init fs).
Definition rot_run (r : quatR) (fs : list iframeR) : list quatR := scanl1 SO3_mul r (map (@i_inc R) fs).

Lemma composed_run_R g st fs : map w_R (composed_run g st fs) = rot_run (s_rot st) fs.
Proof.
  unfold composed_run, rot_run. rewrite map_map.
  change (fun x => w_R (compose (s_rot st) (s_vel st) (s_pos st) x)) with (fun x => SO3_mul (s_rot st) (p_R x)).
  rewrite <- (map_map p_R (SO3_mul (s_rot st))). rewrite pre_run_R, map_mul_scanl1.
  change (p_R pre_init) with (@SO3_id R NumR). now rewrite SO3_id_r.
Qed.
Lemma length_composed_run g st fs : length (composed_run g st fs) = length fs.
Proof. unfold composed_run. now rewrite map_length, length_pre_run. Qed.

(* one call, any frames (non-empty), any quaternions *)
Theorem forward1_composed (left : bool) (c : cfg R) (st : istate R) (fs : list iframeR) :
  fs <> [] ->
  let W := composed_run (c_g c) st fs in
  exists o st', forward1_gen left c st fs = Some (o, st') /\
    o_rot o = map w_R W /\ o_vel o = map w_v W /\ o_pos o = map w_p W /\
    (c_prop c = true <-> o_cov o <> None) /\
    (c_reset c = true -> st' = st) /\
    (c_reset c = false -> st_w st' = List.last W (st_w st) /\
                          rij_val st' = fold_left SO3_mul (map (@i_inc R) fs) (rij_val st) /\
                          (forall C, o_cov o = Some C -> s_cov st' = C) /\
                          (c_prop c = false -> s_cov st' = s_cov st)).
Proof.
  intros Hne W.
  unfold forward1_gen. destruct fs as [|f0 fs0]; [contradiction|]. set (fs := f0 :: fs0) in *.
  rewrite integrate_is_recursion. cbn [rot_default]. unfold predict, integ_of. cbn [g_Dr g_Dv g_Dp g_Dt g_w g_a].
  set (run := pre_run (c_g c) (s_rot st) pre_init fs).
  assert (HW : map (compose (s_rot st) (s_vel st) (s_pos st)) run = W) by reflexivity.
  assert (Hrots : map (SO3_mul (s_rot st)) (map p_R run) = map w_R W).
  { rewrite <- HW, !map_map. reflexivity. }
  assert (Hvels : map (fun dv => vadd (s_vel st) (SO3_act (s_rot st) dv)) (map p_v run) = map w_v W).
  { rewrite <- HW, !map_map. reflexivity. }
  assert (Hposs : zip_with (fun dp t => vadd (vadd (s_pos st) (SO3_act (s_rot st) dp)) (vscale t (s_vel st))) (map p_p run) (map p_T run) = map w_p W).
  { rewrite zip_with_map_same, <- HW, map_map. reflexivity. }
  rewrite Hrots, Hvels, Hposs.
  assert (HWne : W <> []).
  { intros E. apply (f_equal (@length _)) in E. unfold W in E. rewrite length_composed_run in E. discriminate. }
  set (Rij := match s_rij st with Some r => map (SO3_mul r) (map p_R run) | None => map p_R run end).
  assert (HRij : List.last Rij SO3_id = fold_left SO3_mul (map (@i_inc R) fs) (rij_val st)).
  { destruct (pipeline (c_g c) (s_rot st) fs pre_init) as (_ & PS & _). cbv zeta in PS.
    change (p_R pre_init) with (@SO3_id R NumR) in PS. fold run in PS.
    assert (Hn : map (@i_inc R) fs <> []) by discriminate.
    unfold Rij, rij_val. destruct (s_rij st) as [r|]; rewrite <- PS.
    - rewrite (last_map (SO3_mul r) _ SO3_id SO3_id) by (unfold fs; discriminate).
      rewrite scanl1_last by assumption. rewrite mul_fold. now rewrite SO3_id_r.
    - now apply scanl1_last. }
  assert (HL : (List.last (map w_R W) (s_rot st), List.last (map w_v W) (s_vel st), List.last (map w_p W) (s_pos st)) = List.last W (st_w st)).
  { rewrite (last_map w_R W (st_w st)), (last_map w_v W (st_w st)), (last_map w_p W (st_w st)) by assumption.
    destruct (List.last W (st_w st)) as [[a b] d]. reflexivity. }
  destruct (c_prop c) eqn:Ep.
  - destruct (propagate_cov_total left (cframes Rij {| g_a := pre_accs (c_g c) (s_rot st) pre_init fs; g_Dp := map p_p run;
        g_Dv := map p_v run; g_Dr := map p_R run; g_Dt := map p_T run; g_w := map (@i_inc R) fs |} fs) (s_cov st) (c_cg c) (c_ca c)) as (C & HC).
    fold Rij. rewrite HC. eexists. eexists. split; [reflexivity|]. cbn [o_rot o_vel o_pos o_cov].
    split; [reflexivity|]. split; [reflexivity|]. split; [reflexivity|].
    split; [split; [discriminate|reflexivity]|].
    split; [intros ->; reflexivity|]. intros ->. cbn [st_w s_rot s_vel s_pos rij_val s_rij s_cov].
    split; [exact HL|]. split; [exact HRij|]. split; [intros C' E; now inversion E|discriminate].
  - fold Rij. eexists. eexists. split; [reflexivity|]. cbn [o_rot o_vel o_pos o_cov].
    split; [reflexivity|]. split; [reflexivity|]. split; [reflexivity|].
    split; [split; [discriminate|intros H; now elim H]|].
    split; [intros ->; reflexivity|]. intros ->. cbn [st_w s_rot s_vel s_pos rij_val s_rij s_cov].
    split; [exact HL|]. split; [exact HRij|]. split; [discriminate|reflexivity].
Qed.

(* the covariance a call returns (product order of the source): the documented recursion
   C <- A_k C A_k^T + Q_k over the frames of the call, A_k, Q_k built from
   (carried Rij * increments so far, increment, acceleration without gravity, Jr, dt) = [cfr_run] *)
Theorem forward1_cov_is_recursion (c : cfg R) (st : istate R) (fs : list iframeR) o st' :
  c_prop c = true -> wf 9 9 (s_cov st) -> forward1 c st fs = Some (o, st') ->
  o_cov o = Some (cov_of_frames (c_cg c) (c_ca c) (cfr_run (c_g c) (s_rot st) (rij_val st) fs) (s_cov st)).
Proof.
  intros Hp Hw E. rewrite (forward1_cov code_left c st fs o st' Hp E).
  apply (propagate_cov_fixed_is_recursion _ _ _ _ Hw).
Qed.

(* ------------------------------------------------------------------ B. rotation, Rij, covariance: chunking without unit-norm hypotheses *)
Lemma scanl1_app {A B} (f : A -> B -> A) : forall l1 l2 a, scanl1 f a (l1 ++ l2) = scanl1 f a l1 ++ scanl1 f (fold_left f l1 a) l2.
Proof. induction l1 as [|x l1 IH]; intros l2 a; [reflexivity|]. cbn [app scanl1 fold_left]. now rewrite IH. Qed.
Lemma rot_run_app r a b : rot_run r (a ++ b) = rot_run r a ++ rot_run (fold_left SO3_mul (map (@i_inc R) a) r) b.
Proof. unfold rot_run. now rewrite map_app, scanl1_app. Qed.

Definition nonempty_chunks (chunks : list (list iframeR)) : Prop := Forall (fun fs => fs <> []) chunks.
Lemma concat_nonempty (chunks : list (list iframeR)) : chunks <> [] -> nonempty_chunks chunks -> concat chunks <> [].
Proof. intros Hc Hne. destruct chunks as [|fs r]; [contradiction|]. pose proof (Forall_inv Hne) as Hf. destruct fs; [contradiction|]. discriminate. Qed.

(* the state a call with reset=False leaves behind, rotation part *)
Lemma forward1_rot_state (left : bool) (c : cfg R) (st : istate R) (fs : list iframeR) : fs <> [] -> c_reset c = false ->
  exists o st', forward1_gen left c st fs = Some (o, st') /\ o_rot o = rot_run (s_rot st) fs /\
    s_rot st' = fold_left SO3_mul (map (@i_inc R) fs) (s_rot st) /\
    rij_val st' = fold_left SO3_mul (map (@i_inc R) fs) (rij_val st) /\
    (forall C, o_cov o = Some C -> s_cov st' = C).
Proof.
  intros Hne Hr. destruct (forward1_composed left c st fs Hne) as (o & st' & E & Er & _ & _ & _ & _ & Hs).
  destruct (Hs Hr) as (Hw & Hq & Hc & _). exists o, st'. split; [exact E|]. rewrite composed_run_R in Er. split; [exact Er|].
  split; [|split; [exact Hq|exact Hc]].
  change (s_rot st') with (w_R (st_w st')). rewrite Hw.
  assert (Hn : composed_run (c_g c) st fs <> []).
  { intros E0. apply (f_equal (@length _)) in E0. rewrite length_composed_run in E0. destruct fs; [contradiction|discriminate]. }
  rewrite <- (last_map w_R _ (st_w st) (s_rot st)) by assumption. rewrite composed_run_R. unfold rot_run.
  apply scanl1_last. destruct fs; [contradiction|discriminate].
Qed.

Lemma run1_rot_cov (c : cfg R) : c_reset c = false ->
  forall chunks st, nonempty_chunks chunks ->
  exists os st', run1_gen code_left c st chunks = Some (os, st') /\
    concat (map (@o_rot R) os) = rot_run (s_rot st) (concat chunks) /\
    s_rot st' = fold_left SO3_mul (map (@i_inc R) (concat chunks)) (s_rot st) /\
    rij_val st' = fold_left SO3_mul (map (@i_inc R) (concat chunks)) (rij_val st) /\
    (c_prop c = true -> wf 9 9 (s_cov st) ->
     s_cov st' = cov_of_frames (c_cg c) (c_ca c) (cfr_run (c_g c) (s_rot st) (rij_val st) (concat chunks)) (s_cov st)).
Proof.
  intros Hr. induction chunks as [|fs chunks IH]; intros st Hne.
  - exists [], st. cbn. auto 6.
  - destruct (forward1_rot_state code_left c st fs (Forall_inv Hne) Hr) as (o & st1 & E & Er & Hrot & Hq & Hc).
    destruct (IH st1 (Forall_inv_tail Hne)) as (os & st2 & E2 & Rr & Rrot & Rq & Rc).
    exists (o :: os), st2. cbn [run1_gen]. rewrite E, E2. split; [reflexivity|].
    cbn [map concat]. rewrite rot_run_app, !map_app, !fold_left_app, Er, Rr, Rrot, Rq, Hrot, Hq.
    split; [reflexivity|]. split; [reflexivity|]. split; [reflexivity|].
    intros Hp Hw.
    pose proof (forward1_cov_is_recursion c st fs o st1 Hp Hw E) as Ho. pose proof (Hc _ Ho) as Hc1.
    assert (Hw1 : wf 9 9 (s_cov st1)) by (rewrite Hc1; now apply wf_cov_of_frames).
    rewrite (Rc Hp Hw1). rewrite cfr_run_app. unfold cov_of_frames. rewrite !map_app, cov_rec_app by (now rewrite !map_length).
    fold (cov_of_frames (c_cg c) (c_ca c) (cfr_run (c_g c) (s_rot st) (rij_val st) fs) (s_cov st)). rewrite <- Hc1.
    rewrite Hrot, Hq. reflexivity.
Qed.

(* every split into consecutive non-empty chunks, ANY quaternions (unit or not): same rotations at every
   frame, same carried rotation / Rij / covariance, same returned covariance as one call *)
Theorem chunk_invariance_rot_cov (c : cfg R) (st : istate R) (chunks : list (list iframeR)) :
  c_reset c = false -> chunks <> [] -> nonempty_chunks chunks ->
  exists os st1 o st2,
    run1_gen code_left c st chunks = Some (os, st1) /\ forward1 c st (concat chunks) = Some (o, st2) /\
    concat (map (@o_rot R) os) = o_rot o /\ s_rot st1 = s_rot st2 /\ rij_val st1 = rij_val st2 /\
    (c_prop c = true -> wf 9 9 (s_cov st) -> s_cov st1 = s_cov st2 /\ o_cov o = Some (s_cov st1)).
Proof.
  intros Hr Hc Hne.
  destruct (run1_rot_cov c Hr chunks st Hne) as (os & st1 & E1 & Rr & Rrot & Rq & Rc).
  pose proof (concat_nonempty chunks Hc Hne) as Hcne.
  destruct (forward1_rot_state code_left c st (concat chunks) Hcne Hr) as (o & st2 & E2 & Er & Hrot & Hq & Hcv).
  exists os, st1, o, st2. split; [exact E1|]. split; [exact E2|]. rewrite Rr, Er, Rrot, Hrot, Rq, Hq.
  split; [reflexivity|]. split; [reflexivity|]. split; [reflexivity|]. intros Hp Hw.
  pose proof (forward1_cov_is_recursion c st (concat chunks) o st2 Hp Hw E2) as Ho.
  rewrite (Rc Hp Hw), (Hcv _ Ho). split; [reflexivity|exact Ho].
Qed.

(* ------------------------------------------------------------------ C. every call of a chunked history *)
Lemma run1_gen_app (left : bool) (c : cfg R) : forall pre post st,
  run1_gen left c st (pre ++ post) =
  match run1_gen left c st pre with
  | None => None
  | Some (os1, st1) => match run1_gen left c st1 post with
                       | None => None
                       | Some (os2, st2) => Some (os1 ++ os2, st2)
                       end
  end.
Proof.
  induction pre as [|fs pre IH]; intros post st.
  - cbn [app run1_gen]. destruct (run1_gen left c st post) as [[os2 st2]|]; reflexivity.
  - cbn [app run1_gen]. destruct (forward1_gen left c st fs) as [[o st1]|]; [|reflexivity].
    rewrite IH. destruct (run1_gen left c st1 pre) as [[os1 st1']|]; [|reflexivity].
    destruct (run1_gen left c st1' post) as [[os2 st2]|]; reflexivity.
Qed.

(* the k-th call of ANY history of reset=False calls (frames [fs], after the chunks [pre], whatever follows)
   returns exactly the part of ONE call on all frames fed so far that belongs to its frames: rot / vel / pos
   of those frames, and the same covariance (the covariance at the chunk boundary) *)
Theorem call_in_history (c : cfg R) (st : istate R) (pre : list (list iframeR)) (fs : list iframeR) (post : list (list iframeR)) os st' :
  c_reset c = false -> nonempty_chunks pre -> fs <> [] -> Forall unit_frames pre -> unit_frames fs -> unitq (s_rot st) ->
  run1_gen code_left c st (pre ++ fs :: post) = Some (os, st') ->
  exists os1 ok os2 o st2,
    os = os1 ++ ok :: os2 /\ length os1 = length pre /\
    forward1 c st (concat pre ++ fs) = Some (o, st2) /\
    o_rot o = concat (map (@o_rot R) os1) ++ o_rot ok /\
    o_vel o = concat (map (@o_vel R) os1) ++ o_vel ok /\
    o_pos o = concat (map (@o_pos R) os1) ++ o_pos ok /\
    (c_prop c = true -> wf 9 9 (s_cov st) -> o_cov o = o_cov ok).
Proof.
  intros Hr Hne Hf Hu Huf H0 E.
  rewrite run1_gen_app in E. destruct (run1_gen code_left c st pre) as [[os1 st1]|] eqn:E1; [|discriminate].
  cbn [run1_gen] in E. destruct (forward1_gen code_left c st1 fs) as [[ok st1']|] eqn:Ek; [|discriminate].
  destruct (run1_gen code_left c st1' post) as [[os2 st2']|] eqn:E2; [|discriminate]. inversion E; subst os st'. clear E.
  assert (Ep : run1_gen code_left c st (pre ++ [fs]) = Some (os1 ++ [ok], st1')).
  { rewrite run1_gen_app, E1. cbn [run1_gen]. now rewrite Ek. }
  assert (Hne' : nonempty_chunks (pre ++ [fs])) by (apply Forall_app; split; [assumption|now repeat constructor]).
  assert (Hu' : Forall unit_frames (pre ++ [fs])) by (apply Forall_app; split; [assumption|now repeat constructor]).
  assert (Hc' : pre ++ [fs] <> []) by (destruct pre; discriminate).
  assert (Hcat : concat (pre ++ [fs]) = concat pre ++ fs) by (rewrite concat_app; cbn [concat]; now rewrite app_nil_r).
  assert (Hlen : length os1 = length pre).
  { clear - E1. revert st os1 st1 E1. induction pre as [|x pre IH]; intros st os1 st1 E1; cbn [run1_gen] in E1.
    - now inversion E1.
    - destruct (forward1_gen code_left c st x) as [[o s1]|]; [|discriminate].
      destruct (run1_gen code_left c s1 pre) as [[os s2]|] eqn:E; [|discriminate]. inversion E1; subst. cbn. f_equal. now apply (IH s1 os st1). }
  destruct (chunk_invariance code_left c st (pre ++ [fs]) Hr Hc' Hne' Hu' H0) as (os' & st1'' & o & st2 & Ea & Eb & Cr & Cv & Cp & _).
  rewrite Ep in Ea. inversion Ea; subst os' st1''. clear Ea. rewrite Hcat in Eb.
  exists os1, ok, os2, o, st2. split; [reflexivity|]. split; [exact Hlen|]. split; [exact Eb|].
  rewrite !map_app, !concat_app in Cr, Cv, Cp. cbn [map concat] in Cr, Cv, Cp. rewrite !app_nil_r in Cr, Cv, Cp.
  split; [now symmetry|]. split; [now symmetry|]. split; [now symmetry|].
  intros Hp Hw.
  destruct (cov_chunk_invariance c st (pre ++ [fs]) Hr Hp Hc' Hne' Hu' H0 Hw) as (os' & sa & o' & sb & Ea & Eb' & _ & Co).
  rewrite Ep in Ea. inversion Ea; subst os' sa. clear Ea. rewrite Hcat in Eb'. unfold forward1 in Eb, Eb'. rewrite Eb in Eb'. inversion Eb'; subst o' sb.
  rewrite Co.
  assert (H1 : unitq (s_rot st1)).
  { destruct (run1_world code_left c Hr pre st Hne Hu H0) as (osx & stx & Ex & _ & _ & _ & Hw1 & _). rewrite E1 in Ex. inversion Ex; subst.
    change (s_rot stx) with (w_R (st_w stx)). rewrite Hw1. apply world_unit; [exact H0|].
    clear - Hu. induction pre as [|x r IH]; [constructor|]. cbn. apply Forall_app. split; [exact (Forall_inv Hu)|apply IH; exact (Forall_inv_tail Hu)]. }
  destruct (forward1_world code_left c st1 fs Hf H1 Huf) as (ok' & sk & Ek' & _ & _ & _ & Hpc & _ & Hs).
  rewrite Ek in Ek'. inversion Ek'; subst ok' sk.
  destruct (Hs Hr) as (_ & _ & Hcs). destruct (o_cov ok) as [C|] eqn:EC.
  - now rewrite (Hcs C eq_refl).
  - exfalso. apply Hpc in Hp. now apply Hp.
Qed.

(* ------------------------------------------------------------------ D. the batch axis *)
Definition all_rot (fs : list iframeR) : Prop := Forall (fun f => i_grot f <> None) fs.
Definition rot_of (f : iframeR) : quatR := match i_grot f with Some r => r | None => SO3_id end.
Definition no_rotb (items : list (list iframeR)) : bool :=
  forallb (forallb (fun f : iframeR => match i_grot f with None => true | Some _ => false end)) items.
(* the rot= argument of a batched call: absent when no frame carries a rotation, else the (B,F,4) tensor *)
Definition rot_arg (items : list (list iframeR)) : option (tens quatR) :=
  if no_rotb items then None else Some (T3 (map (map rot_of) items)).
Definition uniform_rot (items : list (list iframeR)) : Prop := Forall no_rot items \/ Forall all_rot items.
(* a rank-3 call whose item b has the frames [nth b items] *)
Definition call_B (left : bool) (c : cfg R) (st : list (istate R)) (items : list (list iframeR)) :=
  forward_gen left c st (T3 (map (map (@i_dt R)) items)) (T3 (map (map (@i_inc R)) items)) (T3 (map (map (@i_jr R)) items))
              (T3 (map (map (@i_acc R)) items)) (rot_arg items).

Lemma no_rotb_spec items : no_rotb items = true <-> Forall no_rot items.
Proof.
  unfold no_rotb, no_rot. rewrite forallb_forall, Forall_forall. split; intros H fs Hfs; specialize (H fs Hfs).
  - rewrite forallb_forall in H. apply Forall_forall. intros f Hf. specialize (H f Hf). destruct (i_grot f); [discriminate|reflexivity].
  - rewrite Forall_forall in H. apply forallb_forall. intros f Hf. now rewrite (H f Hf).
Qed.

Lemma frames_of_roundtrip_rot : forall fs : list iframeR, all_rot fs ->
  frames_of (map (@i_dt R) fs) (map (@i_inc R) fs) (map (@i_jr R) fs) (map (@i_acc R) fs) (Some (map rot_of fs)) = Some fs.
Proof.
  intros fs H. unfold frames_of. rewrite !map_length, !Nat.eqb_refl. cbn [andb negb]. f_equal.
  induction fs as [|f fs IH]; [reflexivity|]. cbn [map combine zip_with]. rewrite IH by exact (Forall_inv_tail H).
  f_equal. destruct f as [d q a r j]. pose proof (Forall_inv H) as E. cbn in E. unfold rot_of. cbn [i_grot i_dt i_inc i_jr i_acc].
  destruct r; [reflexivity|now elim E].
Qed.
Lemma batch_frames_rot : forall items : list (list iframeR), Forall all_rot items ->
  zip_with (fun (p : list R * list quatR * list mat3R * list vec3R) r => let '(d, q, j, a) := p in frames_of d q j a r)
    (combine (combine (combine (map (map (@i_dt R)) items) (map (map (@i_inc R)) items)) (map (map (@i_jr R)) items)) (map (map (@i_acc R)) items))
    (map Some (map (map rot_of) items)) = map Some items.
Proof.
  induction items as [|fs items IH]; intros H; [reflexivity|].
  cbn [map combine zip_with]. rewrite IH by exact (Forall_inv_tail H).
  now rewrite frames_of_roundtrip_rot by exact (Forall_inv H).
Qed.
Theorem forward_per_item_rot (left : bool) (c : cfg R) (st : list (istate R)) (items : list (list iframeR)) :
  Forall all_rot items ->
  forward_gen left c st (T3 (map (map (@i_dt R)) items)) (T3 (map (map (@i_inc R)) items)) (T3 (map (map (@i_jr R)) items))
              (T3 (map (map (@i_acc R)) items)) (Some (T3 (map (map rot_of) items))) =
  match bcast (length items) st with
  | Some stB => match opt_all (zip_with (forward1_gen left c) stB items) with
                | Some res => Some (map fst res, map snd res) | None => None end
  | None => None
  end.
Proof.
  intros H. unfold forward_gen. cbn [trank check Nat.eqb andb negb]. rewrite !map_length, !Nat.eqb_refl. cbn [andb negb].
  destruct (bcast (length items) st) as [stB|]; [|reflexivity].
  rewrite batch_frames_rot by assumption. now rewrite opt_all_map_Some.
Qed.

(* with or without rot=: the batched call is the per-item call on every item *)
Theorem forward_per_item_any (left : bool) (c : cfg R) (st : list (istate R)) (items : list (list iframeR)) :
  uniform_rot items ->
  call_B left c st items =
  match bcast (length items) st with
  | Some stB => match opt_all (zip_with (forward1_gen left c) stB items) with
                | Some res => Some (map fst res, map snd res) | None => None end
  | None => None
  end.
Proof.
  intros H. unfold call_B, rot_arg. destruct (no_rotb items) eqn:E.
  - apply forward_per_item. now apply no_rotb_spec.
  - destruct H as [H|H]; [apply no_rotb_spec in H; congruence|]. now apply forward_per_item_rot.
Qed.

Lemma bcast_same {A} (l : list A) : bcast (length l) l = Some l.
Proof. destruct l as [|x [|y l]]; cbn [bcast length repeat]; [reflexivity|reflexivity|]. now rewrite Nat.eqb_refl. Qed.
(* the constructor state (one item) is broadcast to the batch size of the call *)
Lemma call_B_bcast (left : bool) (c : cfg R) (x : istate R) (items : list (list iframeR)) : uniform_rot items ->
  call_B left c [x] items = call_B left c (repeat x (length items)) items.
Proof.
  intros H. rewrite !forward_per_item_any by assumption.
  pose proof (bcast_same (repeat x (length items))) as Hb. rewrite repeat_length in Hb. rewrite Hb. reflexivity.
Qed.

Lemma opt_all_Some_nth {A} (d : A) : forall (l : list (option A)) res, opt_all l = Some res ->
  length res = length l /\ forall i, (i < length l)%nat -> nth i l None = Some (nth i res d).
Proof.
  induction l as [|[x|] l IH]; intros res E; cbn in E.
  - inversion E. split; [reflexivity|]. intros i Hi. cbn in Hi. lia.
  - destruct (opt_all l) as [r'|] eqn:E'; [|discriminate]. inversion E; subst. destruct (IH r' eq_refl) as (HL & HN).
    split; [cbn; now rewrite HL|]. intros [|i] Hi; [reflexivity|]. cbn. apply HN. cbn in Hi. lia.
  - discriminate.
Qed.
Lemma opt_all_total {A} : forall (l : list (option A)), (forall i, (i < length l)%nat -> nth i l None <> None) -> exists res, opt_all l = Some res.
Proof.
  induction l as [|[x|] l IH]; intros H.
  - cbn. eauto.
  - destruct IH as (r & Hr). { intros i Hi. apply (H (S i)). cbn. lia. } cbn. rewrite Hr. eauto.
  - exfalso. apply (H 0%nat); [cbn; lia|reflexivity].
Qed.
Lemma nth_zip_with {A B C} (f : A -> B -> C) dA dB dC : forall a b i, (i < length a)%nat -> (i < length b)%nat ->
  nth i (zip_with f a b) dC = f (nth i a dA) (nth i b dB).
Proof.
  induction a as [|x a IH]; intros [|y b] i Ha Hb; cbn in Ha, Hb; try lia.
  destruct i as [|i]; [reflexivity|]. cbn. apply IH; lia.
Qed.

Lemma call_B_items (left : bool) (c : cfg R) (st : list (istate R)) (items : list (list iframeR)) :
  length items = length st -> uniform_rot items ->
  call_B left c st items = match opt_all (zip_with (forward1_gen left c) st items) with
                           | Some res => Some (map fst res, map snd res) | None => None end.
Proof. intros HL H. rewrite forward_per_item_any by assumption. rewrite HL, bcast_same. reflexivity. Qed.

(* a history of batched calls on one module object *)
Fixpoint runB (left : bool) (c : cfg R) (st : list (istate R)) (calls : list (list (list iframeR)))
  : option (list (list (out1 R)) * list (istate R)) :=
  match calls with
  | [] => Some ([], st)
  | items :: r =>
    match call_B left c st items with
    | None => None
    | Some (os, st') =>
      match runB left c st' r with
      | None => None
      | Some (oss, st'') => Some (os :: oss, st'')
      end
    end
  end.
Definition item_chunks (b : nat) (calls : list (list (list iframeR))) : list (list iframeR) :=
  map (fun items => nth b items []) calls.
Definition item_outs (dO : out1 R) (b : nat) (oss : list (list (out1 R))) : list (out1 R) :=
  map (fun os => nth b os dO) oss.
Definition batch_ok (B : nat) (calls : list (list (list iframeR))) : Prop :=
  Forall (fun items => length items = B /\ uniform_rot items) calls.

(* item b of the batch behaves exactly like a single-IMU object fed item b's frames *)
Theorem runB_item (left : bool) (c : cfg R) (B : nat) (dS : istate R) (dO : out1 R) : forall calls st oss st',
  length st = B -> batch_ok B calls -> runB left c st calls = Some (oss, st') ->
  length st' = B /\ Forall (fun os => length os = B) oss /\ length oss = length calls /\
  forall b, (b < B)%nat ->
    run1_gen left c (nth b st dS) (item_chunks b calls) = Some (item_outs dO b oss, nth b st' dS).
Proof.
  induction calls as [|items r IH]; intros st oss st' HL Hok E.
  - cbn in E. inversion E; subst. split; [reflexivity|]. split; [constructor|]. split; [reflexivity|]. intros b Hb. reflexivity.
  - cbn [runB] in E. destruct (Forall_inv Hok) as (HB & HU).
    rewrite call_B_items in E by (try assumption; congruence).
    destruct (opt_all (zip_with (forward1_gen left c) st items)) as [res|] eqn:Eo; [|discriminate].
    destruct (runB left c (map snd res) r) as [[oss' st'']|] eqn:Er; [|discriminate]. inversion E; subst oss st'. clear E.
    destruct (opt_all_Some_nth (dO, dS) _ _ Eo) as (Hlen & Hn). rewrite length_zip_with, HL, HB, Nat.min_id in Hlen.
    destruct (IH (map snd res) oss' st'' ltac:(now rewrite map_length) (Forall_inv_tail Hok) Er) as (L1 & L2 & L3 & Hitem).
    split; [exact L1|]. split; [constructor; [now rewrite map_length|exact L2]|]. split; [cbn; now rewrite L3|].
    intros b Hb. cbn [item_chunks item_outs map run1_gen].
    specialize (Hn b). rewrite length_zip_with, HL, HB, Nat.min_id in Hn. specialize (Hn Hb).
    rewrite (nth_zip_with _ dS [] None) in Hn by lia. rewrite Hn.
    specialize (Hitem b Hb). change dS with (snd (dO, dS)) in Hitem at 1. rewrite map_nth in Hitem.
    destruct (nth b res (dO, dS)) as [o s1] eqn:En. cbn [snd] in Hitem. fold (item_chunks b r). rewrite Hitem.
    change dO with (fst (dO, dS)) at 2. rewrite map_nth, En. reflexivity.
Qed.

(* ... and the batched history returns whenever every item's history does *)
Theorem runB_total (left : bool) (c : cfg R) (B : nat) (dS : istate R) : forall calls st,
  length st = B -> batch_ok B calls ->
  (forall b, (b < B)%nat -> run1_gen left c (nth b st dS) (item_chunks b calls) <> None) ->
  exists oss st', runB left c st calls = Some (oss, st').
Proof.
  induction calls as [|items r IH]; intros st HL Hok Hall; [cbn; eauto|].
  destruct (Forall_inv Hok) as (HB & HU). cbn [runB]. rewrite call_B_items by (try assumption; congruence).
  destruct (opt_all_total (zip_with (forward1_gen left c) st items)) as (res & Eo).
  { intros i Hi. rewrite length_zip_with, HL, HB, Nat.min_id in Hi. rewrite (nth_zip_with _ dS [] None) by lia.
    specialize (Hall i Hi). cbn [item_chunks map run1_gen] in Hall. destruct (forward1_gen left c (nth i st dS) (nth i items [])); [discriminate|now elim Hall]. }
  rewrite Eo.
  set (dO := {| o_rot := []; o_vel := []; o_pos := []; o_cov := None |} : out1 R).
  destruct (opt_all_Some_nth (dO, dS) _ _ Eo) as (Hlen & Hn). rewrite length_zip_with, HL, HB, Nat.min_id in Hlen.
  destruct (IH (map snd res)) as (oss & st' & E); [now rewrite map_length|exact (Forall_inv_tail Hok)| |rewrite E; eauto].
  intros b Hb. specialize (Hall b Hb). cbn [item_chunks map run1_gen] in Hall.
  specialize (Hn b). rewrite length_zip_with, HL, HB, Nat.min_id in Hn. specialize (Hn Hb).
  rewrite (nth_zip_with _ dS [] None) in Hn by lia. rewrite Hn in Hall.
  change dS with (snd (dO, dS)) at 1. rewrite map_nth. destruct (nth b res (dO, dS)) as [o s1]. cbn [snd].
  fold (item_chunks b r) in Hall. destruct (run1_gen left c s1 (item_chunks b r)); [discriminate|now elim Hall].
Qed.

(* ---- chunk invariance for a batch: B IMUs, the frame axis of every item split by the same calls *)
Definition catB (B : nat) (calls : list (list (list iframeR))) : list (list iframeR) :=
  map (fun b => concat (item_chunks b calls)) (seq 0 B).
Definition good_call (B : nat) (items : list (list iframeR)) : Prop :=
  length items = B /\ nonempty_chunks items /\ Forall unit_frames items.

Lemma length_catB B calls : length (catB B calls) = B.
Proof. unfold catB. now rewrite map_length, seq_length. Qed.
Lemma nth_catB B calls b : (b < B)%nat -> nth b (catB B calls) [] = concat (item_chunks b calls).
Proof.
  intros Hb. unfold catB. set (f := fun b => concat (item_chunks b calls)).
  rewrite (nth_indep _ [] (f 0%nat)) by (now rewrite map_length, seq_length).
  rewrite map_nth, seq_nth by assumption. reflexivity.
Qed.
Lemma Forall_concat' {A} (P : A -> Prop) : forall ls : list (list A), Forall (Forall P) ls -> Forall P (concat ls).
Proof. induction ls as [|l ls IH]; intros H; [constructor|]. cbn. apply Forall_app. split; [exact (Forall_inv H)|apply IH; exact (Forall_inv_tail H)]. Qed.
Lemma item_chunks_all (P : iframeR -> Prop) b : forall calls, Forall (Forall (Forall P)) calls -> Forall (Forall P) (item_chunks b calls).
Proof.
  induction calls as [|items r IH]; intros H; [constructor|]. cbn [item_chunks map]. constructor; [|apply IH; exact (Forall_inv_tail H)].
  pose proof (Forall_inv H) as Hi. destruct (nth_in_or_default b items []) as [Hin|Hd]; [|rewrite Hd; constructor].
  rewrite Forall_forall in Hi. now apply Hi.
Qed.
Lemma catB_uniform B calls : Forall (Forall no_rot) calls \/ Forall (Forall all_rot) calls -> uniform_rot (catB B calls).
Proof.
  intros [H|H]; [left|right]; apply Forall_forall; intros x Hx; unfold catB in Hx; apply in_map_iff in Hx; destruct Hx as (b & <- & _);
    apply Forall_concat'; now apply item_chunks_all.
Qed.
Lemma item_chunks_good B b : (b < B)%nat -> forall calls, Forall (good_call B) calls ->
  nonempty_chunks (item_chunks b calls) /\ Forall unit_frames (item_chunks b calls).
Proof.
  intros Hb. induction calls as [|items r IH]; intros H; [split; constructor|].
  destruct (Forall_inv H) as (HL & Hn & Hu). destruct (IH (Forall_inv_tail H)) as (I1 & I2).
  cbn [item_chunks map]. split; constructor; try assumption.
  - apply (proj1 (Forall_nth _ items) Hn). lia.
  - apply (proj1 (Forall_nth _ items) Hu). lia.
Qed.
Lemma good_batch_ok B calls : Forall (good_call B) calls -> Forall (Forall no_rot) calls \/ Forall (Forall all_rot) calls -> batch_ok B calls.
Proof.
  intros Hg Hu. unfold batch_ok. apply Forall_forall. intros items Hin. rewrite Forall_forall in Hg. destruct (Hg items Hin) as (HL & _).
  split; [exact HL|]. destruct Hu as [H|H]; rewrite Forall_forall in H; [left|right]; now apply H.
Qed.

Theorem batch_chunk_invariance (c : cfg R) (B : nat) (dS : istate R) (dO : out1 R) (st : list (istate R)) (calls : list (list (list iframeR))) :
  c_reset c = false -> calls <> [] -> length st = B -> Forall (good_call B) calls ->
  Forall (Forall no_rot) calls \/ Forall (Forall all_rot) calls -> Forall (fun s => unitq (s_rot s)) st ->
  exists oss st1 os st2,
    runB code_left c st calls = Some (oss, st1) /\ call_B code_left c st (catB B calls) = Some (os, st2) /\
    length st1 = B /\ length os = B /\ length st2 = B /\
    forall b, (b < B)%nat ->
      concat (map (@o_rot R) (item_outs dO b oss)) = o_rot (nth b os dO) /\
      concat (map (@o_vel R) (item_outs dO b oss)) = o_vel (nth b os dO) /\
      concat (map (@o_pos R) (item_outs dO b oss)) = o_pos (nth b os dO) /\
      st_w (nth b st1 dS) = st_w (nth b st2 dS) /\ rij_val (nth b st1 dS) = rij_val (nth b st2 dS) /\
      (c_prop c = true -> wf 9 9 (s_cov (nth b st dS)) ->
       s_cov (nth b st1 dS) = s_cov (nth b st2 dS) /\ o_cov (nth b os dO) = Some (s_cov (nth b st1 dS))).
Proof.
  intros Hr Hc HL Hg Hu H0.
  pose proof (good_batch_ok B calls Hg Hu) as Hok.
  assert (Hok1 : batch_ok B [catB B calls]).
  { constructor; [|constructor]. split; [apply length_catB|now apply catB_uniform]. }
  assert (Hitem : forall b, (b < B)%nat ->
            item_chunks b calls <> [] /\ nonempty_chunks (item_chunks b calls) /\ Forall unit_frames (item_chunks b calls) /\ unitq (s_rot (nth b st dS))).
  { intros b Hb. destruct (item_chunks_good B b Hb calls Hg) as (I1 & I2). split; [destruct calls; [contradiction|discriminate]|].
    split; [exact I1|]. split; [exact I2|]. apply (proj1 (Forall_nth _ st) H0). lia. }
  assert (Hcat : forall b, (b < B)%nat -> item_chunks b [catB B calls] = [concat (item_chunks b calls)]).
  { intros b Hb. cbn [item_chunks map]. now rewrite nth_catB. }
  destruct (runB_total code_left c B dS calls st HL Hok) as (oss & st1 & E1).
  { intros b Hb. destruct (Hitem b Hb) as (I0 & I1 & I2 & I3).
    destruct (chunk_invariance code_left c (nth b st dS) _ Hr I0 I1 I2 I3) as (? & ? & ? & ? & E & _). now rewrite E. }
  destruct (runB_total code_left c B dS [catB B calls] st HL Hok1) as (oss2 & st2 & E2).
  { intros b Hb. destruct (Hitem b Hb) as (I0 & I1 & I2 & I3). rewrite (Hcat b Hb).
    destruct (chunk_invariance code_left c (nth b st dS) _ Hr I0 I1 I2 I3) as (? & ? & ? & ? & _ & E & _). cbn [run1_gen]. now rewrite E. }
  destruct (runB_item code_left c B dS dO calls st oss st1 HL Hok E1) as (L1 & _ & _ & R1).
  destruct (runB_item code_left c B dS dO [catB B calls] st oss2 st2 HL Hok1 E2) as (L2 & LO & _ & R2).
  cbn [runB] in E2. destruct (call_B code_left c st (catB B calls)) as [[os st2']|] eqn:Ec; [|discriminate].
  inversion E2; subst oss2 st2'. clear E2.
  exists oss, st1, os, st2. split; [exact E1|]. split; [reflexivity|]. split; [exact L1|]. split; [exact (Forall_inv LO)|]. split; [exact L2|].
  intros b Hb. destruct (Hitem b Hb) as (I0 & I1 & I2 & I3).
  specialize (R1 b Hb). specialize (R2 b Hb). rewrite (Hcat b Hb) in R2. cbn [item_outs map] in R2.
  destruct (chunk_invariance code_left c (nth b st dS) _ Hr I0 I1 I2 I3) as (osb & s1 & o & s2 & Ea & Eb & Cr & Cv & Cp & Cw & Cq).
  rewrite R1 in Ea. inversion Ea; subst osb s1. clear Ea.
  cbn [run1_gen] in R2. rewrite Eb in R2. inversion R2 as [[Ho Hs]]. rewrite <- Ho, <- Hs.
  split; [exact Cr|]. split; [exact Cv|]. split; [exact Cp|]. split; [exact Cw|]. split; [exact Cq|].
  intros Hp Hw.
  destruct (cov_chunk_invariance c (nth b st dS) _ Hr Hp I0 I1 I2 I3 Hw) as (osb & s1 & o' & s2' & Ea & Eb' & Cc & Co).
  rewrite R1 in Ea. inversion Ea; subst osb s1. unfold forward1 in Eb'. rewrite Eb in Eb'. inversion Eb'; subst o' s2'.
  split; [exact Cc|exact Co].
Qed.

(* ---- covariance validity through any history of batched calls *)
Theorem runB_cov_valid (left : bool) (c : cfg R) (B : nat) (st : list (istate R)) (calls : list (list (list iframeR))) oss st' :
  length st = B -> batch_ok B calls -> Forall (fun s => mvalid (s_cov s)) st ->
  Forall (Forall (cov_inputs_ok c)) calls -> runB left c st calls = Some (oss, st') ->
  Forall (Forall (fun o => forall C, o_cov o = Some C -> mvalid C)) oss /\ Forall (fun s => mvalid (s_cov s)) st'.
Proof.
  intros HL Hok Hv Hin E.
  set (dS := {| s_pos := vzero; s_rot := SO3_id; s_vel := vzero; s_cov := mzero 9 9; s_rij := None |} : istate R).
  set (dO := {| o_rot := []; o_vel := []; o_pos := []; o_cov := None |} : out1 R).
  destruct (runB_item left c B dS dO calls st oss st' HL Hok E) as (L1 & LO & L3 & Hitem).
  assert (Hb : forall b, (b < B)%nat -> Forall (fun o => forall C, o_cov o = Some C -> mvalid C) (item_outs dO b oss) /\ mvalid (s_cov (nth b st' dS))).
  { intros b Hb. apply (run1_cov_valid left c (item_chunks b calls) (nth b st dS)); [| |exact (Hitem b Hb)].
    - apply (proj1 (Forall_nth _ st) Hv). lia.
    - clear - Hin Hok Hb. induction calls as [|items r IH]; [constructor|]. cbn [item_chunks map].
      constructor; [|apply IH; [exact (Forall_inv_tail Hok)|exact (Forall_inv_tail Hin)]].
      destruct (Forall_inv Hok) as (HB & _). apply (proj1 (Forall_nth _ items) (Forall_inv Hin)). lia. }
  split.
  - clear - Hb LO. induction oss as [|os oss IH]; [constructor|]. constructor.
    + pose proof (Forall_inv LO) as HLo. apply (proj2 (Forall_nth _ os)). intros i d Hi.
      rewrite (nth_indep _ d dO) by assumption. rewrite HLo in Hi. destruct (Hb i Hi) as (Ho & _). cbn [item_outs map] in Ho. exact (Forall_inv Ho).
    + apply IH; [exact (Forall_inv_tail LO)|]. intros b Hlt. destruct (Hb b Hlt) as (Ho & Hs). cbn [item_outs map] in Ho. split; [exact (Forall_inv_tail Ho)|exact Hs].
  - apply (proj2 (Forall_nth _ st')). intros i d Hi. rewrite (nth_indep _ d dS) by assumption. rewrite L1 in Hi. exact (proj2 (Hb i Hi)).
Qed.

(* the batched history in terms of the model's own [run_calls] (every call returns) *)
Definition call_of_items (items : list (list iframeR)) : call R :=
  (T3 (map (map (@i_dt R)) items), T3 (map (map (@i_inc R)) items), T3 (map (map (@i_jr R)) items),
   T3 (map (map (@i_acc R)) items), rot_arg items).
Lemma run_calls_runB (c : cfg R) : forall calls st oss st', runB code_left c st calls = Some (oss, st') ->
  run_calls c st (map call_of_items calls) = map Some oss.
Proof.
  induction calls as [|items r IH]; intros st oss st' E; cbn [runB] in E.
  - inversion E. reflexivity.
  - destruct (call_B code_left c st items) as [[os st1]|] eqn:Ec; [|discriminate].
    destruct (runB code_left c st1 r) as [[oss' st'']|] eqn:Er; [|discriminate]. inversion E; subst oss st'.
    cbn [map call_of_items run_calls]. unfold call_B in Ec. unfold forward. rewrite Ec. cbn [map]. f_equal. now apply (IH st1 oss' st'').
Qed.

(* ------------------------------------------------------------------ E. gravity and the supplied rotation *)
Definition strip_rot (f : iframeR) : iframeR :=
  {| i_dt := i_dt f; i_inc := i_inc f; i_acc := i_acc f; i_grot := None; i_jr := i_jr f |}.
(* the supplied rotations take out the same gravity vector as the integrated rotation would *)
Fixpoint rot_agrees (g : vec3R) (Rw : quatR) (fs : list iframeR) : Prop :=
  match fs with
  | [] => True
  | f :: r => let R' := SO3_mul Rw (i_inc f) in
              SO3_act (SO3_inv (grav_rot f R')) g = SO3_act (SO3_inv R') g /\ rot_agrees g R' r
  end.

Lemma zip_with_map_r {A B B' C} (f : A -> B -> C) (h : B' -> B) : forall a b, zip_with f a (map h b) = zip_with (fun x y => f x (h y)) a b.
Proof. induction a as [|x a IH]; intros [|y b]; cbn; [reflexivity..|now rewrite IH]. Qed.

Lemma pre_strip g ir : forall fs s, rot_agrees g (SO3_mul ir (p_R s)) fs ->
  pre_run g ir s (map strip_rot fs) = pre_run g ir s fs /\ pre_accs g ir s (map strip_rot fs) = pre_accs g ir s fs.
Proof.
  induction fs as [|f fs IH]; intros s H; [split; reflexivity|].
  cbn [rot_agrees] in H. destruct H as (Ha & Hr).
  assert (Hacc : pre_acc g ir (p_R s) (strip_rot f) = pre_acc g ir (p_R s) f).
  { unfold pre_acc. cbn [strip_rot i_acc i_inc]. unfold grav_rot at 1. cbn [i_grot]. rewrite <- SO3_mul_assoc. now rewrite Ha. }
  assert (Hstep : pre_step g ir s (strip_rot f) = pre_step g ir s f).
  { unfold pre_step. rewrite Hacc. reflexivity. }
  cbn [map pre_run pre_accs]. rewrite Hstep, Hacc.
  destruct (IH (pre_step g ir s f)) as (I1 & I2).
  { change (p_R (pre_step g ir s f)) with (SO3_mul (p_R s) (i_inc f)). now rewrite <- SO3_mul_assoc. }
  now rewrite I1, I2.
Qed.

(* then the call returns exactly what it returns without rot= (outputs, covariance, carried state) *)
Theorem forward1_rot_irrelevant (left : bool) (c : cfg R) (st : istate R) (fs : list iframeR) :
  rot_agrees (c_g c) (s_rot st) fs -> forward1_gen left c st (map strip_rot fs) = forward1_gen left c st fs.
Proof.
  intros H. unfold forward1_gen. destruct fs as [|f0 fs0]; [reflexivity|]. set (fs := f0 :: fs0) in *.
  change (map strip_rot fs) with (strip_rot f0 :: map strip_rot fs0) at 1. cbv iota. fold (map strip_rot fs).
  rewrite !integrate_is_recursion. cbn [rot_default].
  destruct (pre_strip (c_g c) (s_rot st) fs pre_init) as (I1 & I2).
  { change (p_R pre_init) with (@SO3_id R NumR). now rewrite SO3_id_r. }
  assert (HG : integ_of (c_g c) (s_rot st) (map strip_rot fs) = integ_of (c_g c) (s_rot st) fs).
  { unfold integ_of. rewrite I1, I2, map_map. reflexivity. }
  rewrite HG.
  assert (HC : forall Rij G, cframes Rij G (map strip_rot fs) = cframes Rij G fs).
  { intros Rij G. unfold cframes. now rewrite zip_with_map_r. }
  destruct (predict _ _ _ _) as [[rots vels] poss]. rewrite HC. reflexivity.
Qed.

Lemma SO3_act_zero (q : quatR) : SO3_act q vzero = vzero.
Proof. lie_ring. Qed.
(* zero gravity: whatever rotation is supplied *)
Lemma rot_agrees_zero_g : forall fs Rw, rot_agrees vzero Rw fs.
Proof. induction fs as [|f fs IH]; intros Rw; cbn [rot_agrees]; [exact I|]. split; [now rewrite !SO3_act_zero|apply IH]. Qed.
(* the supplied rotation is the integrated one (after the frame's increment) *)
Fixpoint rot_is_integrated (Rw : quatR) (fs : list iframeR) : Prop :=
  match fs with
  | [] => True
  | f :: r => let R' := SO3_mul Rw (i_inc f) in (i_grot f = None \/ i_grot f = Some R') /\ rot_is_integrated R' r
  end.
Lemma rot_agrees_integrated g : forall fs Rw, rot_is_integrated Rw fs -> rot_agrees g Rw fs.
Proof.
  induction fs as [|f fs IH]; intros Rw H; cbn [rot_agrees]; [exact I|]. cbn [rot_is_integrated] in H. destruct H as (Hf & Hr).
  split; [|now apply IH]. unfold grav_rot. destruct Hf as [-> | ->]; reflexivity.
Qed.

(* ------------------------------------------------------------------ G. the module object ends in the IDENTICAL state *)
Lemma forward1_state_shape (left : bool) (c : cfg R) (st : istate R) fs o st' :
  c_reset c = false -> forward1_gen left c st fs = Some (o, st') ->
  s_rij st' = Some (rij_val st') /\ (c_prop c = false -> s_cov st' = s_cov st).
Proof.
  intros Hr. unfold forward1_gen. destruct fs; [discriminate|].
  destruct (integrate _ _ _); [|discriminate]. destruct (predict _ _ _ _) as [[a b] d].
  destruct (c_prop c).
  - destruct (propagate_cov_gen _ _ _ _ _); [|discriminate]. rewrite Hr. intros E. inversion E; subst. cbn [s_rij rij_val s_cov]. split; [reflexivity|discriminate].
  - rewrite Hr. intros E. inversion E; subst. cbn [s_rij rij_val s_cov]. split; reflexivity.
Qed.
Lemma run1_state_shape (left : bool) (c : cfg R) : c_reset c = false -> forall chunks st os st',
  chunks <> [] -> run1_gen left c st chunks = Some (os, st') ->
  s_rij st' = Some (rij_val st') /\ (c_prop c = false -> s_cov st' = s_cov st).
Proof.
  intros Hr. induction chunks as [|fs r IH]; intros st os st' Hc E; [contradiction|].
  cbn [run1_gen] in E. destruct (forward1_gen left c st fs) as [[o s1]|] eqn:E1; [|discriminate].
  destruct (run1_gen left c s1 r) as [[os2 s2]|] eqn:E2; [|discriminate]. inversion E; subst os st'.
  destruct (forward1_state_shape left c st fs o s1 Hr E1) as (A1 & A2).
  destruct r as [|fs2 r].
  - cbn in E2. inversion E2; subst. split; assumption.
  - destruct (IH s1 os2 s2 ltac:(discriminate) E2) as (B1 & B2). split; [exact B1|]. intros Hp. now rewrite (B2 Hp), (A2 Hp).
Qed.
Lemma istate_eq (a b : istate R) : st_w a = st_w b -> s_cov a = s_cov b -> s_rij a = s_rij b -> a = b.
Proof.
  destruct a, b. unfold st_w. cbn. intros E1 E2 E3. inversion E1; subst. reflexivity.
Qed.

(* one call vs any chunking: same outputs at every frame AND literally the same module state afterwards
   (so every later call behaves identically as well) *)
Theorem chunk_invariance_state (c : cfg R) (st : istate R) (chunks : list (list iframeR)) :
  c_reset c = false -> chunks <> [] -> nonempty_chunks chunks -> Forall unit_frames chunks -> unitq (s_rot st) ->
  (c_prop c = true -> wf 9 9 (s_cov st)) ->
  exists os o st',
    run1_gen code_left c st chunks = Some (os, st') /\ forward1 c st (concat chunks) = Some (o, st') /\
    concat (map (@o_rot R) os) = o_rot o /\ concat (map (@o_vel R) os) = o_vel o /\ concat (map (@o_pos R) os) = o_pos o /\
    (c_prop c = true -> o_cov o = Some (s_cov st')) /\ (c_prop c = false -> o_cov o = None).
Proof.
  intros Hr Hc Hne Hu H0 Hw.
  destruct (chunk_invariance code_left c st chunks Hr Hc Hne Hu H0) as (os & st1 & o & st2 & E1 & E2 & Cr & Cv & Cp & Cw & Cq).
  destruct (run1_state_shape code_left c Hr chunks st os st1 Hc E1) as (S1 & K1).
  destruct (forward1_state_shape code_left c st (concat chunks) o st2 Hr E2) as (S2 & K2).
  assert (Hcov : s_cov st1 = s_cov st2 /\ (c_prop c = true -> o_cov o = Some (s_cov st1)) /\ (c_prop c = false -> o_cov o = None)).
  { destruct (c_prop c) eqn:Ep.
    - destruct (cov_chunk_invariance c st chunks Hr Ep Hc Hne Hu H0 (Hw eq_refl)) as (os' & sa & o' & sb & Ea & Eb & Cc & Co).
      rewrite E1 in Ea. inversion Ea; subst os' sa. unfold forward1 in Eb. rewrite E2 in Eb. inversion Eb; subst o' sb.
      split; [exact Cc|]. split; [intros _; exact Co|discriminate].
    - split; [now rewrite (K1 eq_refl), (K2 eq_refl)|]. split; [discriminate|]. intros _.
      destruct (forward1_composed code_left c st (concat chunks) (concat_nonempty chunks Hc Hne)) as (o' & s' & E' & _ & _ & _ & Hp & _).
      rewrite E2 in E'. inversion E'; subst o' s'. destruct (o_cov o); [|reflexivity]. exfalso.
      assert (X : c_prop c = true) by (apply Hp; discriminate). congruence. }
  destruct Hcov as (Hc1 & Hc2 & Hc3).
  assert (Est : st1 = st2) by (apply istate_eq; [exact Cw|exact Hc1|now rewrite S1, S2, Cq]).
  subst st2. exists os, o, st1. auto 10.
Qed.

(* ------------------------------------------------------------------ H. one frame at a time: the real-time use.
   F calls with inputs of shape (H) (one frame each, reset=False) against one call with shape (F,H) *)
Definition call_rank1 (left : bool) (c : cfg R) (st : list (istate R)) (f : iframeR) :=
  forward_gen left c st (T1 (i_dt f)) (T1 (i_inc f)) (T1 (i_jr f)) (T1 (i_acc f)) (option_map T1 (i_grot f)).
Definition call_rank2 (left : bool) (c : cfg R) (st : list (istate R)) (fs : list iframeR) :=
  forward_gen left c st (T2 (map (@i_dt R) fs)) (T2 (map (@i_inc R) fs)) (T2 (map (@i_jr R) fs)) (T2 (map (@i_acc R) fs))
              (if no_rotb [fs] then None else Some (T2 (map rot_of fs))).
Lemma call_B_rank1 left c st f : call_B left c st [[f]] = call_rank1 left c st f.
Proof. unfold call_B, call_rank1, rot_arg, no_rotb, rot_of. cbn [forallb map andb]. destruct (i_grot f); reflexivity. Qed.
Lemma call_B_rank2 left c st fs : call_B left c st [fs] = call_rank2 left c st fs.
Proof. unfold call_B, call_rank2, rot_arg. destruct (no_rotb [fs]); reflexivity. Qed.

Fixpoint run_rank1 (left : bool) (c : cfg R) (st : list (istate R)) (fs : list iframeR) : option (list (list (out1 R)) * list (istate R)) :=
  match fs with
  | [] => Some ([], st)
  | f :: r => match call_rank1 left c st f with
              | None => None
              | Some (os, st') => match run_rank1 left c st' r with
                                  | None => None
                                  | Some (oss, st'') => Some (os :: oss, st'')
                                  end
              end
  end.
Lemma run_rank1_runB left c : forall fs st, run_rank1 left c st fs = runB left c st (map (fun f => [[f]]) fs).
Proof.
  induction fs as [|f fs IH]; intros st; [reflexivity|]. cbn [run_rank1 map runB]. rewrite call_B_rank1.
  destruct (call_rank1 left c st f) as [[os st']|]; [|reflexivity]. now rewrite IH.
Qed.

Theorem one_frame_at_a_time (c : cfg R) (st : istate R) (fs : list iframeR) :
  c_reset c = false -> fs <> [] -> unit_frames fs -> unitq (s_rot st) -> no_rot fs \/ all_rot fs ->
  exists oss st1 o st2,
    run_rank1 code_left c [st] fs = Some (map (fun x => [x]) oss, [st1]) /\ call_rank2 code_left c [st] fs = Some ([o], [st2]) /\
    concat (map (@o_rot R) oss) = o_rot o /\ concat (map (@o_vel R) oss) = o_vel o /\ concat (map (@o_pos R) oss) = o_pos o /\
    st_w st1 = st_w st2 /\ rij_val st1 = rij_val st2 /\
    (c_prop c = true -> wf 9 9 (s_cov st) -> s_cov st1 = s_cov st2 /\ o_cov o = Some (s_cov st1)).
Proof.
  intros Hr Hne Hu H0 Hrot.
  set (calls := map (fun f : iframeR => [[f]]) fs).
  set (dO := {| o_rot := []; o_vel := []; o_pos := []; o_cov := None |} : out1 R).
  assert (Hg : Forall (good_call 1) calls).
  { unfold calls. apply Forall_forall. intros x Hx. apply in_map_iff in Hx. destruct Hx as (f & <- & Hf).
    split; [reflexivity|]. split; [repeat constructor; discriminate|]. repeat constructor. unfold unit_frames in Hu. rewrite Forall_forall in Hu. now apply Hu. }
  assert (Hun : Forall (Forall no_rot) calls \/ Forall (Forall all_rot) calls).
  { destruct Hrot as [H|H]; [left|right]; unfold calls; apply Forall_forall; intros x Hx; apply in_map_iff in Hx; destruct Hx as (f & <- & Hf);
      repeat constructor; [unfold no_rot in H|unfold all_rot in H]; rewrite Forall_forall in H; now apply H. }
  assert (Hcalls : calls <> []) by (unfold calls; destruct fs; [contradiction|discriminate]).
  assert (Hcat : catB 1 calls = [fs]).
  { unfold catB. cbn [seq map]. f_equal. unfold item_chunks, calls. rewrite map_map. cbn [nth].
    clear. induction fs as [|f fs IH]; [reflexivity|]. cbn [map concat app]. now rewrite IH. }
  destruct (batch_chunk_invariance c 1 st dO [st] calls Hr Hcalls eq_refl Hg Hun ltac:(repeat constructor; exact H0))
    as (oss & st1 & os & st2 & E1 & E2 & L1 & L2 & L3 & Hb).
  specialize (Hb 0%nat ltac:(lia)). rewrite Hcat, call_B_rank2 in E2. fold calls in E1.
  destruct st1 as [|s1 [|? ?]]; try discriminate. destruct st2 as [|s2 [|? ?]]; try discriminate. destruct os as [|o [|? ?]]; try discriminate.
  cbn [nth] in Hb.
  destruct (runB_item code_left c 1 st dO calls [st] oss [s1] eq_refl (good_batch_ok 1 calls Hg Hun) E1) as (_ & LO & _ & _).
  assert (Hoss : oss = map (fun x => [x]) (item_outs dO 0 oss)).
  { clear - LO. induction oss as [|os oss IH]; [reflexivity|]. cbn [item_outs map]. pose proof (Forall_inv LO) as H.
    destruct os as [|x [|? ?]]; try discriminate. cbn [nth]. f_equal. apply IH. exact (Forall_inv_tail LO). }
  exists (item_outs dO 0 oss), s1, o, s2. rewrite run_rank1_runB. fold calls. rewrite E1, <- Hoss. split; [reflexivity|]. split; [exact E2|]. exact Hb.
Qed.

(* ------------------------------------------------------------------ I. which rotation removes gravity: the index convention, pinned down
   An accelerometer that reads exactly gravity expressed in the frame AFTER the frame's increment
   (or in the supplied rotation) produces no acceleration: velocity constant, position p + T v. *)
Fixpoint reads_gravity (g : vec3R) (Rw : quatR) (fs : list iframeR) : Prop :=
  match fs with
  | [] => True
  | f :: r => let R' := SO3_mul Rw (i_inc f) in
              i_acc f = SO3_act (SO3_inv (grav_rot f R')) g /\ reads_gravity g R' r
  end.
Lemma world_step_rest g s f : i_acc f = SO3_act (SO3_inv (grav_rot f (SO3_mul (w_R s) (i_inc f)))) g ->
  world_step g s f = (SO3_mul (w_R s) (i_inc f), w_v s, vadd (w_p s) (vscale (i_dt f) (w_v s))).
Proof.
  intros H. unfold world_step. cbv zeta. rewrite H.
  generalize (SO3_act (SO3_inv (grav_rot f (SO3_mul (w_R s) (i_inc f)))) g). intros x.
  assert (E : vsub x x = vzero) by lie_ring. rewrite E, SO3_act_zero.
  generalize (i_dt f). intros dt. generalize (w_v s) (w_p s). intros v p. generalize (SO3_mul (w_R s) (i_inc f)). intros q.
  clear. apply pair_eq; [apply pair_eq; [reflexivity|]|]; lie_ring.
Qed.
Theorem gravity_only_no_acceleration g : forall fs s, reads_gravity g (w_R s) fs ->
  Forall (fun s' => w_v s' = w_v s) (world_run g s fs) /\
  w_v (fold_left (world_step g) fs s) = w_v s /\
  w_p (fold_left (world_step g) fs s) = vadd (w_p s) (vscale (fold_left Rplus (map (@i_dt R) fs) 0) (w_v s)).
Proof.
  induction fs as [|f fs IH]; intros s H.
  - cbn [world_run fold_left map]. split; [constructor|]. split; [reflexivity|]. generalize (w_p s) (w_v s). clear. intros p v. lie_ring.
  - cbn [reads_gravity] in H. destruct H as (Ha & Hr). pose proof (world_step_rest g s f Ha) as Hs.
    assert (HR : w_R (world_step g s f) = SO3_mul (w_R s) (i_inc f)) by reflexivity.
    assert (HV : w_v (world_step g s f) = w_v s) by now rewrite Hs.
    assert (HP : w_p (world_step g s f) = vadd (w_p s) (vscale (i_dt f) (w_v s))) by now rewrite Hs.
    destruct (IH (world_step g s f)) as (I1 & I2 & I3); [now rewrite HR|].
    cbn [world_run fold_left map]. rewrite HV in I1, I2, I3. rewrite HP in I3.
    split; [constructor; [exact HV|exact I1]|]. split; [exact I2|]. rewrite I3.
    assert (Hsum : forall l a, fold_left Rplus l a = a + fold_left Rplus l 0).
    { clear. induction l as [|x l IHl]; intros a; cbn [fold_left]; [lra|]. rewrite (IHl (a + x)), (IHl (0 + x)). lra. }
    rewrite (Hsum _ (0 + i_dt f)). generalize (fold_left Rplus (map (@i_dt R) fs) 0). intros T.
    generalize (i_dt f) (w_v s) (w_p s). clear. intros dt v p. lie_ring.
Qed.
(* ... whereas a reading of gravity in the frame BEFORE the increment is not cancelled: one frame, half turn
   about x, g = e_z, dt = 1, from rest: the velocity becomes 2 e_z *)
Theorem gravity_pre_increment_not_cancelled :
  let g : vec3R := (0, 0, 1) in
  let f : iframeR := {| i_dt := 1; i_inc := ((1, 0, 0), 0); i_acc := SO3_act (SO3_inv SO3_id) g; i_grot := None; i_jr := mid3 |} in
  unitq (i_inc f) /\ w_v (world_step g (SO3_id, vzero, vzero) f) = (0, 0, 2).
Proof.
  cbv zeta. split; [unfold unitq; cbn [i_inc]; lie_unfold; ring|].
  unfold world_step, w_R, w_v, w_p, grav_rot. cbn [fst snd i_grot i_inc i_acc i_dt]. lie_unfold. split_pairs; field.
Qed.

(* ------------------------------------------------------------------ the hypotheses of the batch theorems are satisfiable (non-trivially):
   two IMUs, two calls of 2 + 1 frames, half-turn increments, supplied rotations, non-identity initial rotation *)
Definition ex_fa : iframeR := {| i_dt := 1 / 2; i_inc := ((1, 0, 0), 0); i_acc := (1, 2, 3); i_grot := Some ((0, 1, 0), 0); i_jr := mid3 |}.
Definition ex_fb : iframeR := {| i_dt := 1 / 4; i_inc := ((0, 0, 1), 0); i_acc := (0, 1, 0); i_grot := Some SO3_id; i_jr := mid3 |}.
Definition ex_calls : list (list (list iframeR)) := [ [[ex_fa; ex_fb]; [ex_fb; ex_fa]]; [[ex_fb]; [ex_fa]] ].
Definition ex_st : list (istate R) := [init_istate (1, 0, 0) ((0, 1, 0), 0) (0, 0, 1); init_istate (0, 0, 0) SO3_id (0, 0, 0)].
Definition ex_cfg : cfg R := {| c_g := (0, 0, 981 / 100); c_cg := (1, 1, 1); c_ca := (1, 2, 3); c_prop := true; c_reset := false |}.
Lemma batch_hypotheses_satisfiable :
  ex_calls <> [] /\ length ex_st = 2%nat /\ Forall (good_call 2) ex_calls /\ Forall (Forall all_rot) ex_calls /\
  Forall (fun s => unitq (s_rot s)) ex_st /\ batch_ok 2 ex_calls /\ Forall (Forall (cov_inputs_ok ex_cfg)) ex_calls /\
  Forall (fun s => mvalid (s_cov s)) ex_st /\ c_reset ex_cfg = false /\
  rot_is_integrated ((0, 1, 0), 0) [{| i_dt := 1; i_inc := ((1, 0, 0), 0); i_acc := (0, 0, 0); i_grot := Some (SO3_mul ((0, 1, 0), 0) ((1, 0, 0), 0)); i_jr := mid3 |}].
Proof.
  assert (Ua : unitq (i_inc ex_fa)) by (unfold unitq; cbn [i_inc ex_fa]; lie_unfold; ring).
  assert (Ub : unitq (i_inc ex_fb)) by (unfold unitq; cbn [i_inc ex_fb]; lie_unfold; ring).
  assert (U0 : unitq ((0, 1, 0), 0)) by (unfold unitq; lie_unfold; ring).
  assert (Ra : i_grot ex_fa <> None) by discriminate. assert (Rb : i_grot ex_fb <> None) by discriminate.
  assert (Da : 0 < i_dt ex_fa) by (cbn [i_dt ex_fa]; lra). assert (Db : 0 < i_dt ex_fb) by (cbn [i_dt ex_fb]; lra).
  assert (Ng : nonneg3 (c_cg ex_cfg)) by (unfold nonneg3; cbn [c_cg ex_cfg vx vy vz fst snd]; lra).
  assert (Na : nonneg3 (c_ca ex_cfg)) by (unfold nonneg3; cbn [c_ca ex_cfg vx vy vz fst snd]; lra).
  assert (C1 : cov_inputs_ok ex_cfg [ex_fa; ex_fb]) by (split; [exact Ng|split; [exact Na|]]; constructor; [exact Da|constructor; [exact Db|constructor]]).
  assert (C2 : cov_inputs_ok ex_cfg [ex_fb; ex_fa]) by (split; [exact Ng|split; [exact Na|]]; constructor; [exact Db|constructor; [exact Da|constructor]]).
  assert (C3 : cov_inputs_ok ex_cfg [ex_fb]) by (split; [exact Ng|split; [exact Na|]]; constructor; [exact Db|constructor]).
  assert (C4 : cov_inputs_ok ex_cfg [ex_fa]) by (split; [exact Ng|split; [exact Na|]]; constructor; [exact Da|constructor]).
  assert (Uab : unit_frames [ex_fa; ex_fb]) by (constructor; [exact Ua|constructor; [exact Ub|constructor]]).
  assert (Uba : unit_frames [ex_fb; ex_fa]) by (constructor; [exact Ub|constructor; [exact Ua|constructor]]).
  assert (Ub1 : unit_frames [ex_fb]) by (constructor; [exact Ub|constructor]).
  assert (Ua1 : unit_frames [ex_fa]) by (constructor; [exact Ua|constructor]).
  assert (G : Forall (good_call 2) ex_calls).
  { unfold ex_calls. constructor; [|constructor; [|constructor]].
    - split; [reflexivity|]. split; [constructor; [discriminate|constructor; [discriminate|constructor]]|].
      constructor; [exact Uab|constructor; [exact Uba|constructor]].
    - split; [reflexivity|]. split; [constructor; [discriminate|constructor; [discriminate|constructor]]|].
      constructor; [exact Ub1|constructor; [exact Ua1|constructor]]. }
  assert (Aab : all_rot [ex_fa; ex_fb]) by (constructor; [exact Ra|constructor; [exact Rb|constructor]]).
  assert (Aba : all_rot [ex_fb; ex_fa]) by (constructor; [exact Rb|constructor; [exact Ra|constructor]]).
  assert (Ab1 : all_rot [ex_fb]) by (constructor; [exact Rb|constructor]).
  assert (Aa1 : all_rot [ex_fa]) by (constructor; [exact Ra|constructor]).
  assert (A : Forall (Forall all_rot) ex_calls).
  { unfold ex_calls. constructor; [|constructor; [|constructor]].
    - constructor; [exact Aab|constructor; [exact Aba|constructor]].
    - constructor; [exact Ab1|constructor; [exact Aa1|constructor]]. }
  split; [discriminate|]. split; [reflexivity|]. split; [exact G|]. split; [exact A|].
  split; [constructor; [exact U0|constructor; [apply unitq_id|constructor]]|].
  split; [apply good_batch_ok; [exact G|now right]|].
  split.
  { unfold ex_calls. constructor; [|constructor; [|constructor]].
    - constructor; [exact C1|constructor; [exact C2|constructor]].
    - constructor; [exact C3|constructor; [exact C4|constructor]]. }
  split; [constructor; [apply mzero_valid|constructor; [apply mzero_valid|constructor]]|]. split; [reflexivity|].
  cbn [rot_is_integrated i_grot i_inc]. split; [now right|exact I].
Qed.

(* ------------------------------------------------------------------ J. rank equivalence through histories of calls on one object *)
Definition fr1 := (R * quatR * mat3R * vec3R * option quatR)%type.
Definition fr2 := (list R * list quatR * list mat3R * list vec3R * option (list quatR))%type.
Definition call_1 (x : fr1) : call R := let '(dt, q, j, a, r) := x in (T1 dt, T1 q, T1 j, T1 a, option_map T1 r).
Definition call_1as3 (x : fr1) : call R :=
  let '(dt, q, j, a, r) := x in (T3 [[dt]], T3 [[q]], T3 [[j]], T3 [[a]], option_map (fun y => T3 [[y]]) r).
Definition call_2 (x : fr2) : call R := let '(dt, q, j, a, r) := x in (T2 dt, T2 q, T2 j, T2 a, option_map T2 r).
Definition call_2as3 (x : fr2) : call R :=
  let '(dt, q, j, a, r) := x in (T3 [dt], T3 [q], T3 [j], T3 [a], option_map (fun y => T3 [y]) r).
Theorem rank_equivalence_histories (c : cfg R) :
  (forall l st, run_calls c st (map call_1 l) = run_calls c st (map call_1as3 l)) /\
  (forall l st, run_calls c st (map call_2 l) = run_calls c st (map call_2as3 l)).
Proof.
  split.
  - induction l as [|[[[[dt q] j] a] r] l IH]; intros st; [reflexivity|]. cbn [map call_1 call_1as3 run_calls].
    unfold forward. rewrite (proj1 (rank_equivalence code_left c st) dt q j a r).
    destruct (forward_gen code_left c st (T3 [[dt]]) (T3 [[q]]) (T3 [[j]]) (T3 [[a]]) _) as [[o st']|]; now rewrite IH.
  - induction l as [|[[[[dt q] j] a] r] l IH]; intros st; [reflexivity|]. cbn [map call_2 call_2as3 run_calls].
    unfold forward. rewrite (proj2 (rank_equivalence code_left c st) dt q j a r).
    destruct (forward_gen code_left c st (T3 [dt]) (T3 [q]) (T3 [j]) (T3 [a]) _) as [[o st']|]; now rewrite IH.
Qed.

(* ------------------------------------------------------------------ K. the unit-norm hypothesis of the velocity / position chunk invariance is needed:
   three frames with the NON-unit increment (1,0,0 | 1) (norm^2 = 2), dt = 1, acc = 0, 0, e_y, no gravity, from the
   zero state; one call vs chunks [1, 2] (model evaluated over Q): last velocity (0,-7,0) vs (0,-3,-4) *)
Definition nu_fr (a : @vec3 Q) : iframe Q :=
  {| i_dt := 1%Q; i_inc := ((1, 0, 0), 1)%Q; i_acc := a; i_grot := None; i_jr := @mid3 Q NumQ |}.
Definition nu_f1 := nu_fr (0, 0, 0)%Q.
Definition nu_f3 := nu_fr (0, 1, 0)%Q.
Definition vel_of (r : option (out1 Q * istate Q)) : option (@vec3 Q) :=
  match r with Some (o, _) => Some (List.last (o_vel o) (0, 0, 0)%Q) | None => None end.
Definition nu_single : option (@vec3 Q) := vel_of (@forward1_gen Q NumQ code_left wcfg wst [nu_f1; nu_f1; nu_f3]).
Definition nu_chunked : option (@vec3 Q) :=
  vel_of (@forward1_gen Q NumQ code_left wcfg (st_of (@forward1_gen Q NumQ code_left wcfg wst [nu_f1])) [nu_f1; nu_f3]).
Theorem non_unit_velocity_not_chunk_invariant :
  nu_single = Some (0, -7, 0)%Q /\ nu_chunked = Some (0, -3, -4)%Q /\ nu_single <> nu_chunked.
Proof. split; [vm_compute; reflexivity|]. split; [vm_compute; reflexivity|]. intros H. vm_compute in H. discriminate. Qed.
