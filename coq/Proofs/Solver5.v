(* C10, Cholesky: the two oracle contracts of Proofs/Solver.v (chol_ex_contract, chol_solve_contract)
   are satisfiable at n = 2 by explicit functions - the first size at which triangularity, the
   lower / upper convention and the transposes in [llt] mean something (the 1 x 1 instance chol1 /
   solve1 does not exercise them).  So cholesky_wrapper and the batch theorems are not vacuous
   through an inconsistency of these conventions. *)
From Coq Require Import Reals Lra List Arith Lia Bool ZArith Psatz.
Import ListNotations.
From PV Require Import Base.Num Base.RTac Model.Solver Proofs.Solver Proofs.Solver3 Proofs.Solver4.
Local Open Scope R_scope.
#[local] Remove Hints NumQ NumZ : typeclass_instances.

(* ---- 2 x 2 symmetric positive definite = symmetric, a > 0, det > 0 ---- *)
Lemma SPD_2_iff (a b c d : R) : SPD 2 [[a; b]; [c; d]] <-> b = c /\ 0 < a /\ 0 < a * d - c * c.
Proof.
  split.
  - intros (_ & Hs & Hp). assert (E : b = c) by exact (Hs 0%nat 1%nat ltac:(lia) ltac:(lia)). subst b.
    assert (Ha : 0 < a).
    { specialize (Hp [1; 0] eq_refl). cbn in Hp. num_unfold.
      assert (Hz : ~ allzero [1; 0]) by (intros Z; inversion Z; lra). specialize (Hp Hz). lra. }
    split; [reflexivity|]. split; [exact Ha|].
    specialize (Hp [- c; a] eq_refl). cbn in Hp. num_unfold.
    assert (Hz : ~ allzero [- c; a]) by (intros Z; inversion Z as [|? ? _ Z']; inversion Z'; lra).
    specialize (Hp Hz).
    replace (- c * (a * - c + (c * a + 0)) + (a * (c * - c + (d * a + 0)) + 0)) with (a * (a * d - c * c)) in Hp by ring.
    destruct (Rle_or_lt (a * d - c * c) 0) as [Hle|Hlt]; [|exact Hlt]. exfalso. nra.
  - intros (-> & Ha & Hd). now apply SPD_2x2.
Qed.

(* ---- the factorisation ---- *)
Definition chol2 (up : bool) (A : matR) : xmat (F:=R) * Z :=
  match A with
  | [[a; b]; [c; d]] =>
      if Req_EM_T b c then
        if Rlt_dec 0 a then
          if Rlt_dec 0 (a * d - c * c) then
            (inject (if up then [[sqrt a; c / sqrt a]; [0; sqrt (d - c * c / a)]]
                     else [[sqrt a; 0]; [c / sqrt a; sqrt (d - c * c / a)]]), 0%Z)
          else ([], 2%Z)
        else ([], 1%Z)
      else ([], 1%Z)
  | _ => ([], 1%Z)
  end.

Lemma chol2_contract : chol_ex_contract 2 chol2.
Proof.
  intros up A Hwf. destruct (wf_mat_2_2 A Hwf) as (a & b & c & d & ->). split.
  - intros HS. apply SPD_2_iff in HS. destruct HS as (-> & Ha & Hd).
    unfold chol2. destruct (Req_EM_T c c) as [_|N]; [|contradiction].
    destruct (Rlt_dec 0 a) as [_|N]; [|contradiction].
    destruct (Rlt_dec 0 (a * d - c * c)) as [_|N]; [|contradiction].
    assert (Hq : 0 < d - c * c / a).
    { replace (d - c * c / a) with ((a * d - c * c) / a) by (field; lra). now apply Rdiv_lt_0_compat. }
    pose proof (sqrt_lt_R0 a Ha) as Hs. pose proof (sqrt_lt_R0 _ Hq) as Ht.
    pose proof (sqrt_sqrt a ltac:(lra)) as Es. pose proof (sqrt_sqrt (d - c * c / a) ltac:(lra)) as Et.
    set (s := sqrt a) in *. set (t := sqrt (d - c * c / a)) in *.
    exists (if up then [[s; c / s]; [0; t]] else [[s; 0]; [c / s; t]]).
    split; [reflexivity|]. split.
    + split; [destruct up; split; [reflexivity|repeat constructor|reflexivity|repeat constructor]|]. split.
      * intros i j Hi Hj Hij. destruct up, i as [|[|]], j as [|[|]]; try lia; reflexivity.
      * intros i Hi. destruct up, i as [|[|]]; try lia; unfold entry; cbn; lra.
    + assert (Ea : a = s * s) by lra.
      assert (Ed : d = t * t + c * c / (s * s)) by (rewrite <- Ea; lra).
      clearbody s t. clear Es Et Hq Hd Ha. subst a d.
      unfold llt. destruct up; cbn; num_unfold; apply mat22_eq; field; lra.
  - intros HS. unfold chol2.
    destruct (Req_EM_T b c) as [E|N]; [|cbn; discriminate].
    destruct (Rlt_dec 0 a) as [Ha|N]; [|cbn; discriminate].
    destruct (Rlt_dec 0 (a * d - c * c)) as [Hd|N]; [|cbn; discriminate].
    exfalso. apply HS. apply SPD_2_iff. auto.
Qed.

(* ---- the solve: Cramer's rule on G = L L^T (U^T U), any number of right-hand sides ---- *)
Definition solve2 (up : bool) (b L : matR) : xmat (F:=R) :=
  match llt up L, b with
  | [[g11; g12]; [g21; g22]], [r1; r2] =>
      inject [vmap2 (fun u v => (g22 * u - g12 * v) / (g11 * g22 - g12 * g21)) r1 r2;
              vmap2 (fun u v => (g11 * v - g21 * u) / (g11 * g22 - g12 * g21)) r1 r2]
  | _, _ => []
  end.

Lemma nth_vmap2 (f : R -> R -> R) : forall (u v : vecR) j, (j < length u)%nat -> (j < length v)%nat ->
  nth j (vmap2 f u v) 0 = f (nth j u 0) (nth j v 0).
Proof.
  induction u as [|a u IH]; intros [|c v] j Hu Hv; cbn in *; try lia.
  destruct j as [|j]; [reflexivity|]. apply IH; lia.
Qed.

Lemma solve2_core (g11 g12 g21 g22 : R) (r1 r2 : vecR) k :
  g11 * g22 - g12 * g21 <> 0 -> length r1 = k -> length r2 = k ->
  let X := [vmap2 (fun u v => (g22 * u - g12 * v) / (g11 * g22 - g12 * g21)) r1 r2;
            vmap2 (fun u v => (g11 * v - g21 * u) / (g11 * g22 - g12 * g21)) r1 r2] in
  wf_mat 2 k X /\ mm [[g11; g12]; [g21; g22]] X = [r1; r2].
Proof.
  intros HD H1 H2 X.
  assert (L1 : length (vmap2 (fun u v => (g22 * u - g12 * v) / (g11 * g22 - g12 * g21)) r1 r2) = k)
    by (rewrite vmap2_length; lia).
  assert (L2 : length (vmap2 (fun u v => (g11 * v - g21 * u) / (g11 * g22 - g12 * g21)) r1 r2) = k)
    by (rewrite vmap2_length; lia).
  split; [split; [reflexivity|repeat constructor; assumption]|].
  unfold mm, X. cbn [ncols map]. rewrite L1.
  assert (Hinv : (g11 * g22 - g12 * g21) * / (g11 * g22 - g12 * g21) = 1) by (apply Rinv_r; exact HD).
  apply (f_equal2 (fun x y : vecR => [x; y])).
  - transitivity (map (fun w => nth w r1 0) (seq 0 k)); [|rewrite <- H1; symmetry; apply list_as_map_seq_R].
    apply map_ext_in. intros j Hj. apply in_seq in Hj.
    cbn [col map dot]. change (zero (F:=R)) with 0. rewrite !nth_vmap2 by lia. num_unfold.
    set (u := nth j r1 0). set (v := nth j r2 0).
    transitivity (u * ((g11 * g22 - g12 * g21) * / (g11 * g22 - g12 * g21))); [unfold Rdiv; ring|].
    rewrite Hinv. ring.
  - transitivity (map (fun w => nth w r2 0) (seq 0 k)); [|rewrite <- H2; symmetry; apply list_as_map_seq_R].
    apply map_ext_in. intros j Hj. apply in_seq in Hj.
    cbn [col map dot]. change (zero (F:=R)) with 0. rewrite !nth_vmap2 by lia. num_unfold.
    set (u := nth j r1 0). set (v := nth j r2 0).
    transitivity (v * ((g11 * g22 - g12 * g21) * / (g11 * g22 - g12 * g21))); [unfold Rdiv; ring|].
    rewrite Hinv. ring.
Qed.

Lemma solve2_contract : chol_solve_contract 2 solve2.
Proof.
  intros up b L k Hb (Hwf & Htri & Hdiag).
  destruct (wf_mat_2_2 L Hwf) as (l11 & l12 & l21 & l22 & ->).
  destruct Hb as (Hb1 & Hb2). destruct b as [|r1 [|r2 [|]]]; try discriminate.
  inversion Hb2 as [|? ? E1 Hb3]; subst. inversion Hb3 as [|? ? E2 _]; subst.
  pose proof (Hdiag 0%nat ltac:(lia)) as D1. pose proof (Hdiag 1%nat ltac:(lia)) as D2.
  unfold entry in D1, D2. cbn in D1, D2.
  assert (Hsq : forall x y : R, x <> 0 -> y <> 0 -> (x * y) * (x * y) <> 0).
  { intros x y Hx Hy. repeat apply Rmult_integral_contrapositive_currified; assumption. }
  destruct up.
  - assert (Z : l21 = 0) by exact (Htri 1%nat 0%nat ltac:(lia) ltac:(lia) ltac:(lia)). subst l21.
    unfold solve2, llt. cbn [mm transpose ncols map seq col nth dot length].
    eexists. split; [reflexivity|]. apply solve2_core; auto.
    num_unfold. replace (_ - _) with ((l11 * l22) * (l11 * l22)) by ring. now apply Hsq.
  - assert (Z : l12 = 0) by exact (Htri 0%nat 1%nat ltac:(lia) ltac:(lia) ltac:(lia)). subst l12.
    unfold solve2, llt. cbn [mm transpose ncols map seq col nth dot length].
    eexists. split; [reflexivity|]. apply solve2_core; auto.
    num_unfold. replace (_ - _) with ((l11 * l22) * (l11 * l22)) by ring. now apply Hsq.
Qed.

(* the wrapper on a concrete 2 x 2 system with these oracles: A = [[2,1],[1,2]], b = (1,0) *)
Example cholesky_2x2_example : forall up,
  exists X, Cholesky chol2 solve2 up A2 [[1]; [0]] = Some (inject X) /\ wf_mat 2 1 X /\ mm A2 X = [[1]; [0]].
Proof.
  intros up. apply (cholesky_wrapper_spd 2 chol2 solve2 chol2_contract solve2_contract up A2 [[1]; [0]] 1%nat A2_SPD).
  split; [reflexivity|repeat constructor].
Qed.
