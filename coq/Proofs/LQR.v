(* C14: LQR returns the feasible global minimiser of the LQ problem; MPC agrees with it.
   Proofs about Model/LQR.v (state and input dimension 1, any horizon). *)
From Coq Require Import ZArith QArith List Bool Arith Lia Reals Lra Psatz.
Import ListNotations.
From PV Require Import Base.Num Model.Dynamics Model.Controller Model.LQR.
Close Scope Q_scope.
#[local] Remove Hints NumQ NumZ : typeclass_instances.

Definition is_ltv (k : kind) : bool := match k with KLTV => true | _ => false end.
(* ====================================================================== structure (any F) *)
Section Gen.
Context {F : Type} {NF : Num F}.
Implicit Types s : ssys (F:=F).
Local Open Scope num_scope.

Lemma tick_eq s t : tick s t = (t + 1)%Z.
Proof. reflexivity. Qed.
Lemma treset_eq s t : treset s t = 0%Z.
Proof. reflexivity. Qed.
Lemma setref_eq s t v : setref s t v = if is_ltv (sk s) then v else t.
Proof. unfold setref, step_time', step_time. destruct (sk s); reflexivity. Qed.

Lemma rollout_cons s tm x u r :
  rollout s tm x (u :: r) =
  (s_next s tm x u :: fst (rollout s (tm + 1)%Z (s_next s tm x u) r),
   snd (rollout s (tm + 1)%Z (s_next s tm x u) r)).
Proof. cbn [rollout]. rewrite tick_eq. destruct (rollout s (tm + 1)%Z (s_next s tm x u) r). reflexivity. Qed.
Lemma rollout_traj s us : forall tm x, fst (rollout s tm x us) = traj s tm x us.
Proof.
  induction us as [|u r IH]; intros; [reflexivity|]. rewrite rollout_cons. cbn [fst traj]. now rewrite IH.
Qed.
Lemma rollout_time s us : forall tm x, snd (rollout s tm x us) = (tm + Z.of_nat (length us))%Z.
Proof.
  induction us as [|u r IH]; intros; [cbn; lia|]. rewrite rollout_cons. cbn [snd length]. rewrite IH. lia.
Qed.
Lemma traj_len s us : forall t x, length (traj s t x us) = length us.
Proof. induction us as [|u r IH]; intros; [reflexivity|]. cbn [traj length]. now rewrite IH. Qed.

(* reading the same coefficients gives the same trajectory *)
Lemma s_next_ext s t t' x u : scoef s t = scoef s t' -> s_next s t x u = s_next s t' x u.
Proof. unfold s_next. now intros ->. Qed.
Lemma traj_ext s us : forall tm t x,
  (forall i, (0 <= i < Z.of_nat (length us))%Z -> scoef s (tm + i)%Z = scoef s (t + i)%Z) ->
  traj s tm x us = traj s t x us.
Proof.
  induction us as [|u r IH]; intros tm t x H; [reflexivity|]. cbn [traj].
  assert (E : s_next s tm x u = s_next s t x u).
  { apply s_next_ext. specialize (H 0%Z). rewrite !Z.add_0_r in H. apply H. cbn [length]. lia. }
  rewrite E. f_equal. apply IH. intros i Hi.
  replace (tm + 1 + i)%Z with (tm + (1 + i))%Z by lia. replace (t + 1 + i)%Z with (t + (1 + i))%Z by lia.
  apply H. cbn [length]. lia.
Qed.

(* ---- forward pass *)
Lemma fwd_cons s tm x st xb ub K k r c :
  fwd s tm x ((st, xb, ub, (K, k)) :: r) c =
  let u := (K * (x - xb) + k) + ub in
  let x' := s_next s tm x u in
  let res := fwd s (tm + 1)%Z x' r (c + stage_cost st x u) in
  (x' :: fst (fst (fst res)), u :: snd (fst (fst res)), snd (fst res), snd res).
Proof.
  cbn [fwd]. rewrite tick_eq. cbv zeta.
  destruct (fwd s (tm + 1)%Z _ r _) as [[[? ?] ?] ?]. reflexivity.
Qed.
Lemma fwd_spec s l : forall tm x c xs us cf tmf,
  fwd s tm x l c = (xs, us, cf, tmf) ->
  xs = traj s tm x us /\ length us = length l /\ tmf = (tm + Z.of_nat (length l))%Z.
Proof.
  induction l as [|[[[st xb] ub] [K k]] r IH]; intros tm x c xs us cf tmf H.
  - cbn in H. inversion H. cbn. split; [reflexivity|]. split; [reflexivity|lia].
  - rewrite fwd_cons in H. cbv zeta in H.
    destruct (fwd s (tm + 1)%Z _ r _) as [[[xs' us'] cf'] tmf'] eqn:E. cbn [fst snd] in H.
    inversion H; subst. apply IH in E. destruct E as (E1 & E2 & E3).
    cbn [traj length]. split; [now rewrite E1|]. split; lia.
Qed.
Lemma fwd_ext s l : forall tm t x c,
  (forall i, (0 <= i < Z.of_nat (length l))%Z -> scoef s (tm + i)%Z = scoef s (t + i)%Z) ->
  fst (fwd s tm x l c) = fst (fwd s t x l c).
Proof.
  induction l as [|[[[st xb] ub] [K k]] r IH]; intros tm t x c H; [reflexivity|].
  rewrite !fwd_cons. cbv zeta. cbn [fst].
  assert (E : forall u, s_next s tm x u = s_next s t x u).
  { intros u. apply s_next_ext. specialize (H 0%Z). rewrite !Z.add_0_r in H. apply H. cbn [length]. lia. }
  rewrite !E.
  assert (E2 : fst (fwd s (tm + 1)%Z (s_next s t x (K * (x - xb) + k + ub)) r (c + stage_cost st x (K * (x - xb) + k + ub)))
             = fst (fwd s (t + 1)%Z (s_next s t x (K * (x - xb) + k + ub)) r (c + stage_cost st x (K * (x - xb) + k + ub)))).
  { apply IH. intros i Hi.
    replace (tm + 1 + i)%Z with (tm + (1 + i))%Z by lia. replace (t + 1 + i)%Z with (t + (1 + i))%Z by lia.
    apply H. cbn [length]. lia. }
  now rewrite E2.
Qed.

(* ---- backward pass: unfolding lemmas *)
Definition tgain (st : stage) (xb ub : F) :=
  gains (qxx st) (qxu st) (qux st) (quu st) (fst (pbar st xb ub)) (snd (pbar st xb ub)).
Definition bgain (st : stage) (xb ub a b V v : F) :=
  gains (qxx st + (a * V) * a) (qxu st + (a * V) * b) (qux st + (b * V) * a) (quu st + (b * V) * b)
        (fst (pbar st xb ub) + a * v) (snd (pbar st xb ub) + b * v).
Lemma bwd_one s dt t tm st xb ub :
  bwd s dt t tm [(st, xb, ub)] =
  match tgain st xb ub with Some (K, k, V, v) => Some ([(K, k)], V, v, tm) | None => None end.
Proof. reflexivity. Qed.
Lemma bwd_cons2 s dt t tm st xb ub it r :
  bwd s dt t tm ((st, xb, ub) :: it :: r) =
  match bwd s dt (t + 1)%Z tm (it :: r) with
  | None => None
  | Some (Ks, V, v, tm1) =>
      let tm2 := setref s tm1 (t * dt)%Z in
      match bgain st xb ub (fst (fst (scoef s tm2))) (snd (fst (scoef s tm2))) V v with
      | Some (K, k, V', v') => Some ((K, k) :: Ks, V', v', tm2)
      | None => None
      end
  end.
Proof.
  remember (it :: r) as rest eqn:Er. cbn [bwd]. subst rest. unfold pbar, bgain. lazy beta iota zeta.
  destruct (bwd s dt (t + 1)%Z tm (it :: r)) as [[[[Ks V] v] tm1]|]; [|reflexivity].
  destruct (scoef s (setref s tm1 (t * dt)%Z)) as [[a b] c]. reflexivity.
Qed.

Lemma bwd_len_time s dt l : forall t tm Ks V v tm2,
  bwd s dt t tm l = Some (Ks, V, v, tm2) ->
  length Ks = length l /\
  tm2 = if is_ltv (sk s) && (2 <=? length l)%nat then (t * dt)%Z else tm.
Proof.
  induction l as [|[[st xb] ub] rest IH]; intros t tm Ks V v tm2 H; [discriminate|].
  destruct rest as [|it r].
  - rewrite bwd_one in H. destruct (tgain st xb ub) as [[[[K k] V0] v0]|]; [|discriminate].
    inversion H; subst. cbn. rewrite andb_false_r. split; reflexivity.
  - rewrite bwd_cons2 in H.
    destruct (bwd s dt (t + 1)%Z tm (it :: r)) as [[[[Ks' V'] v'] tm1]|] eqn:E; [|discriminate].
    cbv zeta in H. destruct (bgain _ _ _ _ _ _ _) as [[[[K k] V0] v0]|]; [|discriminate].
    inversion H; subst. apply IH in E. destruct E as [E1 E2]. split; [cbn [length]; now rewrite E1|].
    rewrite setref_eq. cbn [length]. destruct (is_ltv (sk s)); [reflexivity|]. rewrite E2. reflexivity.
Qed.

Definition drop4 {A B C D} (o : option (A * B * C * D)) : option (A * B * C) :=
  match o with Some (a, b, c, _) => Some (a, b, c) | None => None end.

(* ---- the whole solve: feasibility and time bookkeeping *)
Theorem lqr_structure s dt prob x0 un tm xs us c tm' :
  lqr_solve s dt prob x0 un tm = Some (xs, us, c, tm') ->
  length us = length prob /\ xs = x0 :: traj s 0 x0 us /\ tm' = Z.of_nat (length prob).
Proof.
  unfold lqr_solve. set (ub := match un with None => repeat zero (length prob) | Some u => u end).
  destruct (Nat.eqb (length ub) (length prob)) eqn:El; cbn [negb]; [|discriminate].
  apply Nat.eqb_eq in El. rewrite !treset_eq.
  destruct prob as [|st0 pr].
  - intros H. inversion H; subst. cbn. split; [reflexivity|]. split; reflexivity.
  - lazy beta iota. set (prob := st0 :: pr) in *.
    assert (Hne : (1 <= length prob)%nat) by (subst prob; cbn [length]; lia).
    clearbody prob. unfold runsys.
    destruct (rollout s 0%Z x0 (firstn (length prob - 1) ub)) as [xr tm1] eqn:Er.
    assert (Exr : length xr = (length prob - 1)%nat).
    { pose proof (rollout_traj s (firstn (length prob - 1) ub) 0%Z x0) as Ht. rewrite Er in Ht. cbn [fst] in Ht.
      rewrite Ht, traj_len, firstn_length_le; [reflexivity|lia]. }
    set (items := combine (combine prob (x0 :: xr)) ub).
    assert (Eli : length items = length prob).
    { unfold items. rewrite !combine_length. cbn [length]. rewrite Exr, El. lia. }
    destruct (bwd s dt 0%Z tm1 items) as [[[[Ks V] v] tm2]|] eqn:Eb; [|discriminate].
    destruct (bwd_len_time _ _ _ _ _ _ _ _ _ Eb) as [ElK _]. rewrite treset_eq.
    destruct (fwd s 0%Z x0 (combine items Ks) zero) as [[[xs1 us1] c1] tm3] eqn:Ef.
    intros H. inversion H; subst xs us c tm'.
    destruct (fwd_spec _ _ _ _ _ _ _ _ _ Ef) as (F1 & F2 & F3).
    rewrite combine_length, ElK, Nat.min_id, Eli in F2, F3.
    split; [exact F2|]. split; [now rewrite F1|]. rewrite F3. lia.
Qed.

Corollary lqr_feasible s dt prob x0 un tm xs us c tm' :
  lqr_solve s dt prob x0 un tm = Some (xs, us, c, tm') ->
  length us = length prob /\ xs = x0 :: traj s 0 x0 us.
Proof. intros H. destruct (lqr_structure _ _ _ _ _ _ _ _ _ _ H) as (A & B & _). now split. Qed.
Corollary lqr_time_bookkeeping s dt prob x0 un tm xs us c tm' :
  lqr_solve s dt prob x0 un tm = Some (xs, us, c, tm') -> tm' = Z.of_nat (length prob).
Proof. intros H. exact (proj2 (proj2 (lqr_structure _ _ _ _ _ _ _ _ _ _ H))). Qed.

(* history independence: a solve does not depend on the time counter it finds (any system, any
   number type, any dt) - both passes reset it *)
Theorem lqr_history_independent s dt prob x0 un tm tm' :
  lqr_solve s dt prob x0 un tm = lqr_solve s dt prob x0 un tm'.
Proof. reflexivity. Qed.
(* hence any sequence of earlier solves, whatever they were, leaves the next result unchanged *)
Fixpoint after_history s (tm : Z) (h : list (Z * list stage * F * option (list F))) : Z :=
  match h with
  | [] => tm
  | (dt, prob, x0, un) :: r =>
      after_history s (match lqr_solve s dt prob x0 un tm with Some (_, _, _, t) => t | None => tm end) r
  end.
Corollary lqr_after_any_history s h dt prob x0 un tm :
  lqr_solve s dt prob x0 un (after_history s tm h) = lqr_solve s dt prob x0 un 0%Z.
Proof. apply lqr_history_independent. Qed.
End Gen.

(* ====================================================================== optimality (R) *)
Section Real.
Open Scope R_scope.
Notation sysR := (ssys (F:=R)).
Notation stageR := (stage (F:=R)).
Ltac nu := cbn [add sub mul div opp zero one ofZ half ltb NumR] in *.

Definition cval (c : option R) : R := match c with None => 0 | Some c => c end.
Definition cA (s : sysR) (t : Z) : R := fst (fst (scoef s t)).
Definition cB (s : sysR) (t : Z) : R := snd (fst (scoef s t)).
Definition cC (s : sysR) (t : Z) : R := cval (snd (scoef s t)).
Lemma s_next_R (s : sysR) t x u : s_next s t x u = cA s t * x + cB s t * u + cC s t.
Proof.
  unfold s_next, cA, cB, cC. destruct (scoef s t) as [[a b] [c|]]; cbn [fst snd cval]; nu; ring.
Qed.

(* Q_t positive definite (and symmetric) *)
Definition pd (st : stageR) : Prop :=
  0 < qxx st /\ 0 < quu st /\ qux st = qxu st /\ qxu st * qxu st < qxx st * quu st.

Lemma stage_cost_R (st : stageR) x u :
  stage_cost st x u =
  1 / 2 * ((x * qxx st + u * qux st) * x + (x * qxu st + u * quu st) * u) + (x * px st + u * pu st).
Proof. reflexivity. Qed.

Lemma gains_spec (Qxx Qxu Qux Quu qx qu K k V v : R) :
  gains Qxx Qxu Qux Quu qx qu = Some (K, k, V, v) ->
  0 < Quu /\ K = - (Qux / Quu) /\ k = - (qu / Quu) /\
  V = Qxx + Qxu * K + K * Qux + K * Quu * K /\ v = qx + Qxu * k + K * qu + K * Quu * k.
Proof.
  unfold gains. nu. destruct (Rltb 0 Quu) eqn:E; [|discriminate]. apply Rltb_true in E.
  intros H. inversion H; subst. repeat (split; [first [assumption|reflexivity]|]). reflexivity.
Qed.

(* Schur complement of a PSD 2x2 block matrix stays >= 0 *)
Lemma schur_nonneg qxx qxu quu a b V' :
  0 < qxx -> 0 < quu -> qxu * qxu < qxx * quu -> 0 <= V' ->
  0 < quu + b * V' * b /\
  0 <= ((qxx * quu - qxu * qxu) + V' * (qxx * b * b - 2 * qxu * a * b + quu * a * a)) / (quu + b * V' * b).
Proof.
  intros Hx Hu Hd HV.
  assert (Hq : 0 < quu + b * V' * b).
  { assert (0 <= b * V' * b) by (replace (b * V' * b) with (V' * (b * b)) by ring; apply Rmult_le_pos; [lra|apply Rle_0_sqr]). lra. }
  split; [exact Hq|].
  apply Rmult_le_pos; [|left; apply Rinv_0_lt_compat; exact Hq].
  assert (0 <= qxx * b * b - 2 * qxu * a * b + quu * a * a).
  { assert (H1 : 0 <= (qxx * b - qxu * a) * (qxx * b - qxu * a)) by (apply Rle_0_sqr).
    assert (H2 : 0 <= (qxx * quu - qxu * qxu) * (a * a)) by (apply Rmult_le_pos; [lra|apply Rle_0_sqr]).
    assert (H3 : qxx * (qxx * b * b - 2 * qxu * a * b + quu * a * a)
                 = (qxx * b - qxu * a) * (qxx * b - qxu * a) + (qxx * quu - qxu * qxu) * (a * a)) by ring.
    assert (H4 : 0 <= qxx * (qxx * b * b - 2 * qxu * a * b + quu * a * a)) by lra.
    destruct (Rle_or_lt 0 (qxx * b * b - 2 * qxu * a * b + quu * a * a)) as [|Hn]; [assumption|].
    exfalso.
    assert (qxx * (qxx * b * b - 2 * qxu * a * b + quu * a * a) < 0).
    { replace (qxx * (qxx * b * b - 2 * qxu * a * b + quu * a * a))
        with (- (qxx * - (qxx * b * b - 2 * qxu * a * b + quu * a * a))) by ring.
      apply Ropp_lt_gt_0_contravar. apply Rmult_lt_0_compat; lra. }
    lra. }
  assert (0 <= V' * (qxx * b * b - 2 * qxu * a * b + quu * a * a)) by (apply Rmult_le_pos; lra). lra.
Qed.

Lemma map_fst_combine {A B} (a : list A) : forall (b : list B), (length a <= length b)%nat -> map fst (combine a b) = a.
Proof.
  induction a as [|x a IH]; intros b H; [reflexivity|]. destruct b as [|y b]; [cbn in H; lia|].
  cbn [combine map fst]. f_equal. apply IH. cbn [length] in H. lia.
Qed.

(* ---- cost accumulation *)
Definition stage_of (it : stageR * R * R * (R * R)) : stageR := fst (fst (fst it)).
Lemma fwd_shift (s : sysR) l : forall t x c,
  fwd s t x l c =
  (fst (fst (fst (fwd s t x l 0))), snd (fst (fst (fwd s t x l 0))), c + snd (fst (fwd s t x l 0)), snd (fwd s t x l 0)).
Proof.
  induction l as [|[[[st xb] ub] [K k]] r IH]; intros t x c.
  - cbn. replace (c + 0) with c by ring. reflexivity.
  - rewrite !fwd_cons. cbv zeta. cbn [fst snd].
    rewrite (IH _ _ (add c _)), (IH _ _ (add 0 _)). cbn [fst snd].
    match goal with |- (_, _, ?a, _) = (_, _, ?b, _) => replace a with b by (nu; ring) end. reflexivity.
Qed.
Lemma fwd_cost_J (s : sysR) l : forall t x,
  snd (fst (fwd s t x l 0)) = Jcost s t x (map stage_of l) (snd (fst (fst (fwd s t x l 0)))).
Proof.
  induction l as [|[[[st xb] ub] [K k]] r IH]; intros t x; [reflexivity|].
  rewrite fwd_cons. cbv zeta. rewrite fwd_shift. cbn [fst snd map Jcost]. unfold stage_of at 1. cbn [fst].
  rewrite <- IH. nu. ring.
Qed.

(* ---- the nominal trajectory as a list of items *)
Definition stages (l : list (stageR * R * R)) : list stageR := map (fun it => fst (fst it)) l.
Definition hd_x (l : list (stageR * R * R)) : R := match l with (_, xb, _) :: _ => xb | [] => 0 end.
Fixpoint chain (s : sysR) (t : Z) (l : list (stageR * R * R)) : Prop :=
  match l with
  | (st, xb, ub) :: rest => (rest <> [] -> hd_x rest = s_next s t xb ub) /\ chain s (t + 1)%Z rest
  | [] => True
  end.
Fixpoint nom_items (s : sysR) (t : Z) (x : R) (prob : list stageR) (ub : list R) : list (stageR * R * R) :=
  match prob, ub with
  | st :: pr, u :: ur => (st, x, u) :: nom_items s (t + 1)%Z (s_next s t x u) pr ur
  | _, _ => []
  end.
Lemma nom_items_eq (s : sysR) prob : forall t x ub, length ub = length prob ->
  combine (combine prob (x :: traj s t x (firstn (length prob - 1) ub))) ub = nom_items s t x prob ub.
Proof.
  induction prob as [|st pr IH]; intros t x ub Hl; [reflexivity|].
  destruct ub as [|u ur]; [discriminate|]. cbn [length] in Hl. injection Hl as Hl.
  destruct pr as [|st2 pr2].
  - destruct ur; [|discriminate]. reflexivity.
  - cbn [length Nat.sub]. rewrite ?Nat.sub_0_r. cbn [firstn traj combine nom_items]. f_equal.
    specialize (IH (t + 1)%Z (s_next s t x u) ur Hl). cbn [length Nat.sub] in IH. rewrite ?Nat.sub_0_r in IH.
    exact IH.
Qed.
Lemma nom_hd (s : sysR) t x st pr u ur : hd_x (nom_items s t x (st :: pr) (u :: ur)) = x.
Proof. reflexivity. Qed.
Lemma nom_chain (s : sysR) prob : forall t x ub, chain s t (nom_items s t x prob ub).
Proof.
  induction prob as [|st pr IH]; intros t x ub; [exact I|]. destruct ub as [|u ur]; [exact I|].
  cbn [nom_items chain]. split; [|apply IH].
  destruct pr as [|st2 pr2]; [intros H; now elim H|]. destruct ur as [|u2 ur2]; [intros H; now elim H|].
  intros _. reflexivity.
Qed.
Lemma nom_stages (s : sysR) prob : forall t x ub, length ub = length prob -> stages (nom_items s t x prob ub) = prob.
Proof.
  induction prob as [|st pr IH]; intros t x ub Hl; [reflexivity|]. destruct ub as [|u ur]; [discriminate|].
  cbn [nom_items stages map fst]. f_equal. apply IH. now injection Hl.
Qed.
Lemma stage_of_combine (l : list (stageR * R * R)) : forall Ks, length Ks = length l ->
  map stage_of (combine l Ks) = stages l.
Proof.
  induction l as [|it l IH]; intros Ks H; [reflexivity|]. destruct Ks as [|Kk Ks]; [discriminate|].
  cbn [combine map stages]. unfold stage_of at 1. cbn [fst]. f_equal. apply IH. now injection H.
Qed.

Definition fcost (s : sysR) t x (l : list (stageR * R * R)) (Ks : list (R * R)) : R :=
  snd (fst (fwd s t x (combine l Ks) 0)).

(* ---- Bellman induction over the horizon *)
Lemma bellman (s : sysR) (G1 : forall v tm', scoef s (setref s tm' v) = scoef s v) :
  forall l t tm Ks V v tm2,
  Forall pd (stages l) -> chain s t l -> bwd s 1 t tm l = Some (Ks, V, v, tm2) ->
  0 <= V /\ exists C, forall x,
    fcost s t x l Ks = V / 2 * ((x - hd_x l) * (x - hd_x l)) + v * (x - hd_x l) + C /\
    forall us', length us' = length l ->
      V / 2 * ((x - hd_x l) * (x - hd_x l)) + v * (x - hd_x l) + C <= Jcost s t x (stages l) us'.
Proof.
  induction l as [|[[st xb] ub] rest IH]; intros t tm Ks V v tm2 Hpd Hch Hb; [discriminate|].
  cbn [stages map fst] in Hpd. inversion Hpd as [|? ? [Hxx [Huu [Hsym Hdet]]] Hpd']; subst.
  destruct rest as [|it2 r2].
  - (* terminal step *)
    rewrite bwd_one in Hb. unfold tgain in Hb.
    destruct (gains _ _ _ _ _ _) as [[[[K k] V0] v0]|] eqn:Eg; [|discriminate].
    inversion Hb; subst. apply gains_spec in Eg. destruct Eg as (Hq & EK & Ek & EV & Ev).
    unfold pbar in *. cbn [fst snd] in *. nu. rewrite Hsym in *.
    set (pbu := qxu st * xb + quu st * ub + pu st) in *.
    assert (HV : V = (qxx st * quu st - qxu st * qxu st) / quu st) by (subst V K; field; lra).
    split.
    { rewrite HV. apply Rmult_le_pos; [lra|left; now apply Rinv_0_lt_compat]. }
    exists (stage_cost st xb ub - pbu * pbu / (2 * quu st)). intros x.
    assert (Hid : forall u, stage_cost st x u =
                  V / 2 * ((x - xb) * (x - xb)) + v * (x - xb) + (stage_cost st xb ub - pbu * pbu / (2 * quu st))
                  + quu st / 2 * ((u - (K * (x - xb) + k + ub)) * (u - (K * (x - xb) + k + ub)))).
    { intros u. rewrite !stage_cost_R, Hsym. subst V v K k pbu. field. lra. }
    cbn [hd_x]. split.
    + unfold fcost. cbn [combine]. rewrite fwd_cons. cbv zeta. cbn [fst snd fwd]. nu.
      rewrite Rplus_0_l, Hid.
      replace (K * (x - xb) + k + ub - (K * (x - xb) + k + ub)) with 0 by ring. ring.
    + intros us' Hl. destruct us' as [|u' ur]; [discriminate|]. cbn [stages map fst Jcost]. nu.
      rewrite Rplus_0_r, Hid.
      assert (0 <= quu st / 2 * ((u' - (K * (x - xb) + k + ub)) * (u' - (K * (x - xb) + k + ub)))).
      { apply Rmult_le_pos; [lra|apply Rle_0_sqr]. }
      lra.
  - (* inner step *)
    rewrite bwd_cons2 in Hb.
    destruct (bwd s 1 (t + 1)%Z tm (it2 :: r2)) as [[[[Ks' V'] v'] tm1]|] eqn:E; [|discriminate].
    cbv zeta in Hb. rewrite Z.mul_1_r, G1 in Hb. fold (cA s t) in Hb. fold (cB s t) in Hb.
    unfold bgain in Hb.
    destruct (gains _ _ _ _ _ _) as [[[[K k] V0] v0]|] eqn:Eg; [|discriminate].
    inversion Hb; subst. apply gains_spec in Eg. destruct Eg as (Hq & EK & Ek & EV & Ev).
    cbn [chain] in Hch. destruct Hch as [Hhd Hch']. specialize (Hhd ltac:(discriminate)).
    destruct (IH (t + 1)%Z tm Ks' V' v' tm1 Hpd' Hch' E) as [HV' [C' HC']].
    unfold pbar in *. cbn [fst snd] in *. nu. rewrite Hsym in *.
    set (a := cA s t) in *. set (b := cB s t) in *.
    set (pbx := qxx st * xb + qxu st * ub + px st) in *.
    set (pbu := qxu st * xb + quu st * ub + pu st) in *.
    set (Quu := quu st + b * V' * b) in *.
    destruct (schur_nonneg (qxx st) (qxu st) (quu st) a b V' Hxx Huu Hdet HV') as [_ Hs].
    assert (HV : V = ((qxx st * quu st - qxu st * qxu st)
                      + V' * (qxx st * b * b - 2 * qxu st * a * b + quu st * a * a)) / Quu).
    { subst V K Quu. field. lra. }
    split; [rewrite HV; exact Hs|].
    set (xn := hd_x (it2 :: r2)) in *.
    exists (stage_cost st xb ub - (pbu + b * v') * (pbu + b * v') / (2 * Quu) + C'). intros x.
    assert (Hid : forall u,
       stage_cost st x u + (V' / 2 * ((s_next s t x u - xn) * (s_next s t x u - xn)) + v' * (s_next s t x u - xn))
       = V / 2 * ((x - xb) * (x - xb)) + v * (x - xb)
         + (stage_cost st xb ub - (pbu + b * v') * (pbu + b * v') / (2 * Quu))
         + Quu / 2 * ((u - (K * (x - xb) + k + ub)) * (u - (K * (x - xb) + k + ub)))).
    { intros u. rewrite Hhd, !s_next_R, !stage_cost_R, Hsym. fold a b.
      subst V v K k pbx pbu Quu. field. lra. }
    cbn [hd_x]. split.
    + unfold fcost.
      change (combine ((st, xb, ub) :: it2 :: r2) ((K, k) :: Ks')) with ((st, xb, ub, (K, k)) :: combine (it2 :: r2) Ks').
      rewrite fwd_cons. cbv zeta. rewrite fwd_shift. cbn [fst snd]. nu.
      pose proof (proj1 (HC' (s_next s t x (K * (x - xb) + k + ub)))) as H3. unfold fcost in H3. fold xn in H3.
      rewrite H3.
      pose proof (Hid (K * (x - xb) + k + ub)) as H1.
      replace (K * (x - xb) + k + ub - (K * (x - xb) + k + ub)) with 0 in H1 by ring. lra.
    + intros us' Hl. destruct us' as [|u' ur]; [discriminate|]. cbn [length] in Hl. injection Hl as Hl.
      change (stages ((st, xb, ub) :: it2 :: r2)) with (st :: stages (it2 :: r2)). cbn [Jcost].
      pose proof (proj2 (HC' (s_next s t x u')) ur Hl) as H2. fold xn in H2.
      pose proof (Hid u') as H1. nu.
      assert (0 <= Quu / 2 * ((u' - (K * (x - xb) + k + ub)) * (u' - (K * (x - xb) + k + ub)))).
      { apply Rmult_le_pos; [lra|apply Rle_0_sqr]. }
      lra.
Qed.
Lemma nom_hd' (s : sysR) t x prob ub :
  (1 <= length prob)%nat -> length ub = length prob -> hd_x (nom_items s t x prob ub) = x.
Proof. destruct prob as [|st pr]; [cbn; lia|]. destruct ub as [|u ur]; [discriminate|]. reflexivity. Qed.
Lemma nom_len (s : sysR) prob : forall t x ub, length ub = length prob -> length (nom_items s t x prob ub) = length prob.
Proof.
  induction prob as [|st pr IH]; intros t x ub Hl; [reflexivity|]. destruct ub as [|u ur]; [discriminate|].
  cbn [nom_items length]. f_equal. apply IH. now injection Hl.
Qed.

(* a well-formed system object: an LTV object (set_refpoint assigns the time, the coefficients may
   depend on it) or an object with constant coefficients (LTI) *)
Definition sys_ok (s : sysR) : Prop := sk s = KLTV \/ (forall t, scoef s t = scoef s 0%Z).

Theorem lqr_optimal_scalar (s : sysR) prob x0 un tm xs us c tm' :
  Forall pd prob -> sys_ok s ->
  lqr_solve s 1 prob x0 un tm = Some (xs, us, c, tm') ->
  length us = length prob /\ xs = x0 :: traj s 0 x0 us /\ c = Jcost s 0 x0 prob us /\
  forall us', length us' = length prob -> c <= Jcost s 0 x0 prob us'.
Proof.
  intros Hpd Hok H.
  assert (G1 : forall v tm', scoef s (setref s tm' v) = scoef s v).
  { intros v tm0. rewrite setref_eq. destruct Hok as [Hk|Hc]; [now rewrite Hk|].
    rewrite (Hc (if is_ltv (sk s) then v else tm0)), (Hc v). reflexivity. }
  destruct (lqr_structure _ _ _ _ _ _ _ _ _ _ H) as (L1 & L2 & _).
  split; [exact L1|]. split; [exact L2|].
  revert H. unfold lqr_solve. set (ub := match un with None => repeat zero (length prob) | Some u => u end).
  destruct (Nat.eqb (length ub) (length prob)) eqn:El; cbn [negb]; [|discriminate].
  apply Nat.eqb_eq in El. rewrite !treset_eq.
  destruct prob as [|st0 pr].
  - intros H. inversion H; subst. cbn [Jcost]. split; [reflexivity|]. intros us' _. nu. lra.
  - lazy beta iota. set (prob := st0 :: pr) in *.
    assert (Hne : (1 <= length prob)%nat) by (subst prob; cbn [length]; lia). clearbody prob.
    unfold runsys. destruct (rollout s 0%Z x0 (firstn (length prob - 1) ub)) as [xr tm1] eqn:Er.
    assert (Exr : xr = traj s 0 x0 (firstn (length prob - 1) ub)).
    { pose proof (rollout_traj s (firstn (length prob - 1) ub) 0%Z x0) as Ht. rewrite Er in Ht. exact Ht. }
    rewrite Exr, (nom_items_eq s prob 0%Z x0 ub El). set (items := nom_items s 0 x0 prob ub).
    assert (Eli : length items = length prob) by (apply nom_len; exact El).
    destruct (bwd s 1 0%Z tm1 items) as [[[[Ks V] v] tm2]|] eqn:Eb; [|discriminate].
    destruct (bwd_len_time _ _ _ _ _ _ _ _ _ Eb) as [ElK _]. rewrite treset_eq.
    destruct (fwd s 0%Z x0 (combine items Ks) zero) as [[[xs1 us1] c1] tm3] eqn:Ef.
    intros H. inversion H; subst xs us c tm'.
    assert (Hst : stages items = prob) by (apply nom_stages; exact El).
    destruct (bellman s G1 items 0%Z tm1 Ks V v tm2 ltac:(rewrite Hst; exact Hpd) (nom_chain s prob 0%Z x0 ub) Eb)
      as [_ [C HC]].
    specialize (HC x0). destruct HC as [HC1 HC2].
    assert (Hhd : hd_x items = x0) by (apply nom_hd'; assumption). rewrite Hhd in HC1, HC2.
    replace (V / 2 * ((x0 - x0) * (x0 - x0)) + v * (x0 - x0) + C) with C in HC1, HC2 by ring.
    pose proof (fwd_cost_J s (combine items Ks) 0%Z x0) as HJ.
    rewrite stage_of_combine, Hst in HJ by exact ElK.
    unfold fcost in HC1. change (@zero R NumR) with 0 in Ef. rewrite Ef in HJ, HC1. cbn [fst snd] in HJ, HC1.
    split; [exact HJ|]. intros us' Hl. rewrite HC1. rewrite <- Hst. apply HC2. now rewrite Eli.
Qed.

(* ---- corollaries *)
(* the optimal cost does not depend on the nominal input trajectory nor on the time counters *)
Corollary lqr_cost_nominal_independent (s : sysR) prob x0 un un' tm tm0 xs us c tm' xs2 us2 c2 tm2 :
  Forall pd prob -> sys_ok s ->
  lqr_solve s 1 prob x0 un tm = Some (xs, us, c, tm') ->
  lqr_solve s 1 prob x0 un' tm0 = Some (xs2, us2, c2, tm2) -> c = c2.
Proof.
  intros Hpd Hok H1 H2.
  destruct (lqr_optimal_scalar _ _ _ _ _ _ _ _ _ Hpd Hok H1) as (L1 & _ & J1 & O1).
  destruct (lqr_optimal_scalar _ _ _ _ _ _ _ _ _ Hpd Hok H2) as (L2 & _ & J2 & O2).
  pose proof (O1 us2 L2). pose proof (O2 us L1). lra.
Qed.

(* the reported cost is the sum of the stage costs along the returned trajectory (any dt, any Q) *)
Theorem lqr_cost_is_sum (s : sysR) dt prob x0 un tm xs us c tm' :
  lqr_solve s dt prob x0 un tm = Some (xs, us, c, tm') -> c = Jcost s 0 x0 prob us.
Proof.
  unfold lqr_solve. set (ub := match un with None => repeat zero (length prob) | Some u => u end).
  destruct (Nat.eqb (length ub) (length prob)) eqn:El; cbn [negb]; [|discriminate].
  apply Nat.eqb_eq in El. rewrite !treset_eq.
  destruct prob as [|st0 pr].
  - intros H. inversion H; subst. reflexivity.
  - lazy beta iota. set (prob := st0 :: pr) in *.
    assert (Hne : (1 <= length prob)%nat) by (subst prob; cbn [length]; lia). clearbody prob.
    unfold runsys. destruct (rollout s 0%Z x0 (firstn (length prob - 1) ub)) as [xr tm1] eqn:Er.
    set (items := combine (combine prob (x0 :: xr)) ub).
    assert (Exr : length xr = (length prob - 1)%nat).
    { pose proof (rollout_traj s (firstn (length prob - 1) ub) 0%Z x0) as Ht. rewrite Er in Ht. cbn [fst] in Ht.
      rewrite Ht, traj_len, firstn_length_le; [reflexivity|lia]. }
    assert (Eli : length items = length prob).
    { unfold items. rewrite !combine_length. cbn [length]. rewrite Exr, El. lia. }
    destruct (bwd s dt 0%Z tm1 items) as [[[[Ks V] v] tm2]|] eqn:Eb; [|discriminate].
    destruct (bwd_len_time _ _ _ _ _ _ _ _ _ Eb) as [ElK _]. rewrite treset_eq.
    pose proof (fwd_cost_J s (combine items Ks) 0%Z x0) as HJ. change (@zero R NumR) with 0.
    destruct (fwd s 0%Z x0 (combine items Ks) 0) as [[[xs1 us1] c1] tm3] eqn:Ef. cbn [fst snd] in HJ.
    intros H. inversion H; subst xs us c tm'. rewrite HJ. f_equal.
    rewrite stage_of_combine by exact ElK. unfold items, stages.
    rewrite <- (map_map (@fst (stageR * R) R) (@fst stageR R)).
    rewrite !map_fst_combine; [reflexivity| |rewrite combine_length]; cbn [length]; lia.
Qed.

(* ---- MPC on a linear system (time-invariant or time-varying) returns the LQR optimum *)
Theorem mpc_linear_is_lqr_scalar (s : sysR) prob x0 cfg st u0 tm xs us c tm' st' n :
  sys_ok s -> Forall pd prob ->
  mpc_forward s 1 prob x0 cfg st u0 tm = Some (xs, us, c, tm', st', n) ->
  length us = length prob /\ xs = x0 :: traj s 0 x0 us /\ c = Jcost s 0 x0 prob us /\
  (forall us', length us' = length prob -> c <= Jcost s 0 x0 prob us') /\
  (forall un tm0 xs0 us0 c0 tm0', lqr_solve s 1 prob x0 un tm0 = Some (xs0, us0, c0, tm0') -> c = c0).
Proof.
  intros Hok Hpd H. unfold mpc_forward, mpc_forward_gen in H.
  destruct (mpc_loop_gen _ _ _ _ _ _ _ _ _ _ _) as [[[[st1 best] tm1] n1]|]; [|discriminate].
  destruct (lqr_solve s 1 prob x0 _ tm1) as [[[[xs1 us1] c1] tm2]|] eqn:E; [|discriminate].
  inversion H; subst.
  destruct (lqr_optimal_scalar _ _ _ _ _ _ _ _ _ Hpd Hok E) as (L1 & L2 & L3 & L4).
  split; [exact L1|]. split; [exact L2|]. split; [exact L3|]. split; [exact L4|].
  intros un tm0 xs0 us0 c0 tm0' E0.
  destruct (lqr_optimal_scalar _ _ _ _ _ _ _ _ _ Hpd Hok E0) as (M1 & _ & M3 & M4).
  pose proof (L4 us0 M1). pose proof (M4 us L1). lra.
Qed.

(* hypotheses are satisfiable *)
Example pd_example : pd {| qxx := 1; qxu := 1 / 2; qux := 1 / 2; quu := 2; px := 3; pu := -1 |}.
Proof. unfold pd. cbn. repeat split; lra. Qed.
Example sys_ok_example_lti : sys_ok {| sk := KLTI; scoef := fun _ => (3 / 2, 1, Some (1 / 4)) |}.
Proof. right. reflexivity. Qed.
Example sys_ok_example_ltv : sys_ok {| sk := KLTV; scoef := fun t => (IZR t, 1, None) |}.
Proof. left. reflexivity. Qed.
End Real.

(* ====================================================================== witnesses over Q *)
#[local] Existing Instance NumQ.
Section Witness.
Open Scope Q_scope.
(* an LTV object in the pattern of the LTV docstring: A_t = (1, 0, 2)[t mod 3], B = 1, no c1;
   Q_t = identity, p_t = 0, x_init = 1, horizon 2 *)
Definition w_sys : ssys (F:=Q) := mk_sys (true, 3%Z, [(1, 1, None); (0, 1, None); (2, 1, None)]).
Definition w_prob : list (stage (F:=Q)) := map mk_stage [(1, 0, 0, 1, 0, 0); (1, 0, 0, 1, 0, 0)].
Definition w_cfg : rtb_cfg (F:=Q) := mk_rtb_cfg (9%Z, 5%Z, 1 # 1000, 1 # 100000).

(* ---- the repaired code on the witness (regression cases of the tie) *)
Lemma w_first  : lqr_solve w_sys 1%Z w_prob 1 None 0%Z = Some ([1; 1 # 2; 0], [-1 # 2; 0], 3 # 4, 2%Z).
Proof. vm_compute. reflexivity. Qed.
Lemma w_second : lqr_solve w_sys 1%Z w_prob 1 None 2%Z = Some ([1; 1 # 2; 0], [-1 # 2; 0], 3 # 4, 2%Z).
Proof. vm_compute. reflexivity. Qed.
Lemma w_T1_stale : lqr_solve w_sys 1%Z (firstn 1 w_prob) 1 None 2%Z = Some ([1; 1], [0], 1 # 2, 1%Z).
Proof. vm_compute. reflexivity. Qed.
Lemma w_mpc : exists st n, mpc_forward w_sys 1%Z w_prob 1 w_cfg rtb_init None 0%Z = Some ([1; 1 # 2; 0], [-1 # 2; 0], 3 # 4, 2%Z, st, n).
Proof. eexists. eexists. vm_compute. reflexivity. Qed.

(* ---- the code before the fix commits (Model/LQR.v: lqr_solve_old, mpc_forward_old,
   lqr_shape_raises_old): the recorded refutations.
   Two consecutive solves of the same problem on one object: the first (fresh object) returns the
   optimum 3/4 and leaves the time at 2; the second rolled the nominal trajectory out with A_2, A_3
   instead of A_0, A_1 and returned inputs of cost 1 *)
Lemma w_first_old  : lqr_solve_old w_sys 1%Z w_prob 1 None 0%Z = Some ([1; 1 # 2; 0], [-1 # 2; 0], 3 # 4, 2%Z).
Proof. vm_compute. reflexivity. Qed.
Lemma w_second_old : lqr_solve_old w_sys 1%Z w_prob 1 None 2%Z = Some ([1; 0; 0], [-1; 0], 1, 2%Z).
Proof. vm_compute. reflexivity. Qed.
(* horizon 1 at a stale time: the final state was computed with A_2 = 2 instead of A_0 = 1 *)
Lemma w_T1_fresh_old : lqr_solve_old w_sys 1%Z (firstn 1 w_prob) 1 None 0%Z = Some ([1; 1], [0], 1 # 2, 1%Z).
Proof. vm_compute. reflexivity. Qed.
Lemma w_T1_stale_old : lqr_solve_old w_sys 1%Z (firstn 1 w_prob) 1 None 2%Z = Some ([1; 2], [0], 1 # 2, 3%Z).
Proof. vm_compute. reflexivity. Qed.
(* MPC with the default stepper (steps=10 lowered to 9, patience 5, decreasing 1e-3, tol 1e-5) on the
   fresh object: every solve after the first started at time 2; the returned cost was 1 *)
Lemma w_mpc_old : exists st n, mpc_forward_old w_sys 1%Z w_prob 1 w_cfg rtb_init None 0%Z = Some ([1; 0; 0], [-1; 0], 1, 2%Z, st, n).
Proof. eexists. eexists. vm_compute. reflexivity. Qed.

Definition lqr_history_independent_old : Prop :=
  forall (s : ssys (F:=Q)) prob x0 un tm tm',
    drop4 (lqr_solve_old s 1 prob x0 un tm) = drop4 (lqr_solve_old s 1 prob x0 un tm').
Lemma history_independent_old_refuted : ~ lqr_history_independent_old.
Proof.
  intros H. specialize (H w_sys w_prob 1 None 0%Z 2%Z). rewrite w_first_old, w_second_old in H. discriminate H.
Qed.
Lemma second_solve_suboptimal_old :
  exists (s : ssys (F:=Q)) prob x0 xs1 us1 c1 t1 xs2 us2 c2 t2,
    sk s = KLTV /\
    lqr_solve_old s 1 prob x0 None 0%Z = Some (xs1, us1, c1, t1) /\
    lqr_solve_old s 1 prob x0 None t1 = Some (xs2, us2, c2, t2) /\ c1 < c2.
Proof.
  exists w_sys, w_prob, 1. do 8 eexists. split; [reflexivity|]. split; [exact w_first_old|]. split; [exact w_second_old|].
  reflexivity.
Qed.
Lemma stale_final_state_old :
  exists (s : ssys (F:=Q)) prob x0 xs1 us1 c1 t1 xs2 us2 c2 t2,
    lqr_solve_old s 1 prob x0 None 0%Z = Some (xs1, us1, c1, t1) /\
    lqr_solve_old s 1 prob x0 None 2%Z = Some (xs2, us2, c2, t2) /\ xs1 <> xs2.
Proof.
  exists w_sys, (firstn 1 w_prob), 1. do 8 eexists. split; [exact w_T1_fresh_old|]. split; [exact w_T1_stale_old|]. discriminate.
Qed.
Lemma mpc_ltv_suboptimal_old :
  exists (s : ssys (F:=Q)) prob x0 cfg xs1 us1 c1 t1 xs2 us2 c2 t2 st n,
    sk s = KLTV /\
    lqr_solve_old s 1 prob x0 None 0%Z = Some (xs1, us1, c1, t1) /\
    mpc_forward_old s 1 prob x0 cfg rtb_init None 0%Z = Some (xs2, us2, c2, t2, st, n) /\ c1 < c2.
Proof.
  destruct w_mpc_old as [st [n H]].
  exists w_sys, w_prob, 1, w_cfg. do 8 eexists. exists st, n.
  split; [reflexivity|]. split; [exact w_first_old|]. split; [exact H|]. reflexivity.
Qed.
Lemma shape_raises_old_witness :
  exists nb ns T, (1 <= nb <= 3)%nat /\ (1 <= ns <= 6)%nat /\ (1 <= T <= 20)%nat /\ lqr_shape_raises_old nb ns T = true.
Proof. exists 2%nat, 1%nat, 2%nat. repeat split; auto with arith. Qed.
Lemma shape_never_raises nb ns T : lqr_shape_raises nb ns T = false.
Proof. reflexivity. Qed.
End Witness.
