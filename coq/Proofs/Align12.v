(* C17, twelfth part: the hypotheses of icp_forward_recovers_basin_matched are satisfiable on a
   PERMUTED target with an extra far point (no vacuity). *)
From Coq Require Import Reals Lra Psatz List Nsatz ZArith Bool Arith.
Import ListNotations.
From PV Require Import Base.Num Base.RTac Model.LieGroup Model.Controller Model.Align Proofs.LieGroup
  Proofs.Align Proofs.Align2 Proofs.Align3 Proofs.Align4 Proofs.Align6 Proofs.Align8 Proofs.Align11.
Local Open Scope R_scope.
#[local] Remove Hints NumQ NumZ : typeclass_instances.

Definition ex_tgt2 : cloudR := [(-1 + 1 / 10, -1, 0); (2 + 1 / 10, 0, 0); (50, 50, 50); (-1 + 1 / 10, 1, 0)].
Definition ex_idx0 : list nat := [1; 3; 0]%nat.
Lemma ex_gather2 : gather3 ex_tgt2 ex_idx0 = ex_tgt.
Proof. rewrite ex_tgt_eq. reflexivity. Qed.
Lemma ex_half_sep_via : within_half_separation_via ex_src ex_tgt2 ex_idx0.
Proof.
  unfold ex_src, wit_src, ex_tgt2, ex_idx0. split; [reflexivity|].
  split; [repeat constructor|]. cbn [length]. intros k j Hk Hj Hne.
  destruct k as [|[|[|]]]; try lia; destruct j as [|[|[|[|]]]]; try lia; cbn [nth] in *;
    try (exfalso; apply Hne; reflexivity); al_unfold; lra.
Qed.
Example icp_example_matched :
  ex_src <> [] /\ rot mid3 /\ noncollinear ex_src /\
  gather3 ex_tgt2 ex_idx0 = map (rigid_apply mid3 ex_shift) ex_src /\
  within_half_separation_via (icp_start None ex_src) ex_tgt2 ex_idx0 /\
  pass_ok ex_svd knn_ref ex_tgt2 (icp_start None ex_src) /\
  pass_ok ex_svd knn_ref ex_tgt2 (map (rigid_apply mid3 ex_shift) ex_src) /\
  svd_contract ex_svd (svdtf_M ex_src (map (rigid_apply mid3 ex_shift) ex_src)).
Proof.
  assert (HT : ex_tgt2 <> []) by discriminate.
  split; [discriminate|]. split; [apply rot_mid3|]. split; [apply wit_noncollinear|].
  cbn [icp_start]. change (map (rigid_apply mid3 ex_shift) ex_src) with ex_tgt.
  split; [exact ex_gather2|]. split; [exact ex_half_sep_via|].
  split; [|split].
  - pose proof (knn_ref_ok ex_src ex_tgt2 HT) as Hk. split; [exact Hk|]. unfold idxs.
    rewrite (knn_forced_via _ _ _ _ (half_sep_own_closest_via _ _ _ ex_half_sep_via) Hk), ex_gather2.
    unfold svd_contract, ex_svd. rewrite ex_M1. apply wit_contract.
  - pose proof (knn_ref_ok ex_tgt ex_tgt2 HT) as Hk. split; [exact Hk|]. unfold idxs.
    assert (E : gather3 ex_tgt2 (map snd (knn_ref ex_tgt ex_tgt2)) = ex_tgt).
    { apply (knn_on_target _ _ _ ex_idx0 Hk); [repeat constructor | symmetry; exact ex_gather2]. }
    rewrite E. unfold svd_contract, ex_svd. rewrite ex_M2. apply wit_contract.
  - unfold svd_contract, ex_svd. rewrite ex_M1. apply wit_contract.
Qed.

(* ---------------------------------------------------------------- batch items *)
Lemma ex_item_ok_src : item_ok ex_svd knn_ref (ex_src, ex_tgt).
Proof. destruct icp_example_monotone as (H1 & H2 & _). split; [exact H1 | exact H2]. Qed.
Lemma ex_item_ok_tgt : item_ok ex_svd knn_ref (ex_tgt, ex_tgt).
Proof.
  split; [apply ex_tgt_nonempty|]. cbn [fst snd]. intros Q HR.
  assert (H0 : cpdk knn_ref ex_tgt ex_tgt = 0).
  { apply (cpdk_on_target knn_ref ex_tgt ex_tgt (seq 0 (length ex_tgt)) (proj1 ex_pass_ok_tgt)).
    - apply Forall_forall. intros i Hi. apply in_seq in Hi. lia.
    - rewrite ex_tgt_eq. reflexivity. }
  rewrite (reach_fixed ex_svd knn_ref ex_tgt ex_tgt ex_tgt_nonempty ex_pass_ok_tgt H0 Q HR). exact ex_pass_ok_tgt.
Qed.
Example batch_items_satisfiable : Forall (item_ok ex_svd knn_ref) [(ex_src, ex_tgt); (ex_tgt, ex_tgt)].
Proof. constructor; [exact ex_item_ok_src|]. constructor; [exact ex_item_ok_tgt | constructor]. Qed.

(* ---------------------------------------------------------------- svdtf(points, T0 @ points): T0 a translation *)
Example returns_T0_satisfiable :
  let T0 : se3R := (ex_shift, SO3_id) in
  unitq (snd T0) /\ noncollinear ex_src /\ svd_contract ex_svd (svdtf_M ex_src (se3_cloud T0 ex_src)).
Proof.
  cbv zeta. split; [unfold unitq; lie_unfold; ring|]. split; [apply wit_noncollinear|].
  assert (E : se3_cloud (ex_shift, SO3_id) ex_src = ex_tgt).
  { unfold se3_cloud, ex_tgt, ex_src. apply map_ext. intros p. unfold ex_shift. al_ring. }
  rewrite E. unfold svd_contract, ex_svd. rewrite ex_M1. apply wit_contract.
Qed.

(* ---------------------------------------------------------------- ICP.forward under GLOBAL contracts *)
(* the reader-friendly corollary: an SVD routine and a knn routine that meet their contracts on every input *)
Theorem icp_forward_monotone_global svd knn (target : cloudR) (cfg : rtb_cfg) (st0 : rtb_state)
  (init : option se3R) (source : cloudR) :
  source <> [] ->
  (forall T, init = Some T -> unitq (snd T)) ->
  (forall M, svd_contract svd M) ->
  (forall P, knn_ok P target (map snd (knn P target))) ->
  exists T st errs,
    icp_forward svd knn cfg st0 init source target = Some (T, st, errs) /\ unitq (snd T) /\
    mean_cpd knn target (se3_cloud T source) <= mean_cpd knn target (icp_start init source).
Proof.
  intros Hne Hinit Hsvd Hknn.
  apply icp_forward_mean_monotone; try assumption.
  - intros Q _. split; [apply Hknn | apply Hsvd].
  - intros Q _. apply Hsvd.
Qed.
