(* C19 (ape, part 6): the rigid counterpart of Proofs/Metric7.v.  align = True, scale = False (svdstf
   without scale estimation): when the estimate is an exact RIGID copy S . reference (S of scale 1), all
   translation-error statistics of ape are 0, relative only to the SVD contract on the one matrix. *)
From Coq Require Import Reals Lra Psatz List ZArith Lia Nsatz.
Import ListNotations.
From PV Require Import Base.Num Base.RTac Base.ListAux Model.LieGroup Model.LieExp Model.LieLog Model.Spline Model.Metric
  Model.Controller Model.Align Proofs.LieGroup Proofs.LieExp Proofs.LieLog Proofs.Spline Proofs.Metric Proofs.Align
  Proofs.Metric7.
Local Open Scope R_scope.
#[local] Remove Hints NumQ NumZ : typeclass_instances.

Section Core.
Variable svdstfO : list vec3R -> list vec3R -> bool -> sim3R.
Variable angleF : @mat3 R -> R.
Variable rad2degF : R -> R.

(* whatever the oracle: if its answer maps the estimate translations onto the reference translations,
   the translation errors of ape vanish *)
Lemma ape_copy_zero_core st (P : list se3R) tr (f : se3R -> se3R) diff al sc origin :
  mk_stamped st P = Some tr -> NoDup (map fst tr) -> 0 < diff -> (al || sc)%bool = true ->
  (forall Y, In Y P -> Sim3_act (svdstfO (map fst (map f P)) (map fst P) sc) (fst (f Y)) = fst Y) ->
  exists s, ape sqrt angleF rad2degF svdstfO st P st (map f P) Etrans diff 0 al sc origin = Some s /\ zero_stats s.
Proof.
  intros Hm Hnd Hd Hflag Hact.
  assert (HneP : P <> []) by (intros ->; cbn in Hm; discriminate).
  unfold ape. rewrite mk_stamped_map, Hm. cbn [option_map].
  rewrite associate_map_e. rewrite (associate_self tr diff (mk_stamped_ne _ _ _ Hm) Hnd Hd).
  rewrite (mk_stamped_snd _ _ _ Hm). cbn [option_map fst snd].
  unfold trans_of. rewrite Hflag. set (X := svdstfO (map fst (map f P)) (map fst P) sc) in *. clearbody X.
  apply compute_stats_zeros.
  - unfold errors. destruct P as [|p P']; [congruence|]. discriminate.
  - intros x Hin. unfold errors in Hin. apply in_map_iff in Hin. destruct Hin as ([r e] & <- & Hin).
    cbn [fst snd]. unfold ape_error.
    assert (E : fst e = fst r).
    { rewrite map_map in Hin.
      assert (Hin2 : exists Y, In Y P /\ r = Y /\ e = align_pose X (f Y)).
      { clear - Hin. induction P as [|Y P IH]; [destruct Hin|]. cbn [map combine] in Hin. destruct Hin as [E|Hin].
        - injection E as <- <-. exists Y. split; [now left|]. split; reflexivity.
        - destruct (IH Hin) as (Y' & H1 & H2). exists Y'. split; [now right|exact H2]. }
      destruct Hin2 as (Y & HY & -> & ->). rewrite fst_align_pose. now apply Hact. }
    rewrite E. unfold vnormS. replace (Model.Metric.sumsq (v3_l (vsub (fst r) (fst r)))) with 0; [apply sqrt_0|].
    destruct (fst r) as [[x y] z]. unfold v3_l. rewrite sumsq3. lie_unfold. ring.
Qed.
End Core.

Section RigidCopy.
Variable svd : mat3R -> mat3R * vec3R * mat3R.
Variable angleF : @mat3 R -> R.
Variable rad2degF : R -> R.

Theorem ape_rigid_copy_zero st (P : list se3R) tr (S : sim3R) diff origin :
  mk_stamped st P = Some tr -> NoDup (map fst tr) -> Forall valid_SE3 P -> 0 < diff ->
  unitq (fst (snd S)) -> snd (snd S) = 1 ->
  let src := map fst (map (align_pose S) P) in
  let tgt := map fst P in
  svd_contract svd (svdstf_H src tgt) ->
  exists s, ape sqrt angleF rad2degF (svd_oracle svd) st P st (map (align_pose S) P) Etrans diff 0 true false origin = Some s /\
            zero_stats s.
Proof.
  intros Hm Hnd HP Hd HSu HSs src tgt Hc.
  assert (HneP : P <> []) by (intros ->; cbn in Hm; discriminate).
  assert (Hlen : length src = length tgt) by (unfold src, tgt; now rewrite !map_length).
  assert (Hs : sizes_ok src tgt = true).
  { unfold sizes_ok. rewrite Hlen, Nat.eqb_refl. unfold tgt. rewrite map_length.
    destruct P; [congruence|reflexivity]. }
  assert (HSv : valid_Sim3 S) by (split; [assumption|lra]).
  assert (HSi : valid_Sim3 (Sim3_inv S)) by (now apply valid_Sim3_inv).
  destruct (Sim3_inv S) as [t0 [q0 c0]] eqn:ESi. destruct HSi as [Hq0 Hc0]. cbn [fst snd] in Hq0, Hc0.
  assert (Ec0 : c0 = 1).
  { assert (E : snd (snd (Sim3_inv S)) = c0) by (now rewrite ESi). rewrite <- E.
    unfold Sim3_inv, RxSO3_inv. cbn [fst snd]. rewrite HSs. cbn [div one NumR]. lra. }
  assert (Htgt : tgt = map (rigid_apply (SO3_matrix q0) t0) src).
  { assert (Hact : forall p, rigid_apply (SO3_matrix q0) t0 p = Sim3_act (Sim3_inv S) p).
    { intros p. rewrite ESi, Sim3_act_sim, Ec0. unfold sim_apply, rigid_apply. f_equal. f_equal.
      generalize (SO3_matrix q0). intros m. al_ring. }
    unfold tgt, src. rewrite !map_map. apply map_ext. intros X. rewrite fst_align_pose, Hact.
    rewrite <- Sim3_act_mul.
    - assert (HSn : snd (snd S) <> 0) by (rewrite HSs; lra).
      rewrite Sim3_inv_l by assumption. now rewrite Sim3_act_id.
    - rewrite ESi. exact Hq0.
    - exact HSu. }
  pose proof (svdstf_returns svd false src tgt Hs Hc) as Hret.
  unfold svd_contract in Hc. revert Hc Hret. destruct (svd (svdstf_H src tgt)) as [[U D] V] eqn:Esvd. intros Hc Hret.
  destruct (svdstf_noscale_optimal src tgt U D V Hs Hc) as (HRs & Hs1 & Hopt).
  assert (Hthr : 1 / 100000 < fst (fst (svdstf_mat false src tgt U D V))) by (rewrite Hs1; lra).
  destruct (Hret Hthr) as (X & HX & HXu & _ & HXact).
  specialize (Hopt (SO3_matrix q0) t0 (SO3_matrix_rot q0 Hq0)).
  assert (H0 : resid (rigid_apply (SO3_matrix q0) t0) src tgt = 0) by (rewrite Htgt; apply resid_self).
  rewrite H0 in Hopt.
  pose proof (resid_nonneg (sim_apply (fst (fst (svdstf_mat false src tgt U D V))) (snd (fst (svdstf_mat false src tgt U D V)))
                                      (snd (svdstf_mat false src tgt U D V))) src tgt) as Hnn.
  assert (Hrec : Forall2 (fun p q => sim_apply (fst (fst (svdstf_mat false src tgt U D V))) (snd (fst (svdstf_mat false src tgt U D V)))
                                               (snd (svdstf_mat false src tgt U D V)) p = q) src tgt)
    by (apply resid_zero; [exact Hlen|lra]).
  apply (ape_copy_zero_core (svd_oracle svd) angleF rad2degF st P tr (align_pose S) diff true false origin Hm Hnd Hd eq_refl).
  intros Y HY. fold src tgt. unfold svd_oracle. rewrite HX, HXact.
  assert (Hp : In (fst (align_pose S Y), fst Y) (combine src tgt)).
  { unfold src, tgt. rewrite map_map. clear - HY. induction P as [|Z P IH]; [destruct HY|].
    cbn [map combine]. destruct HY as [->|HY]; [now left|right; now apply IH]. }
  exact (Forall2_combine_map _ (fun q => q) src tgt Hrec _ Hp).
Qed.
End RigidCopy.

(* the hypotheses are satisfiable with S <> identity: the six poses of Proofs/Metric7.v, the estimate
   = the copy translated by (1, 2, 3); cross-covariance diag(3, 4/3, 1/3) *)
Definition S1 : sim3R := ((1, 2, 3), (SO3_id, 1)).
Definition svd6r (_ : mat3R) : mat3R * vec3R * mat3R := (mid3, (3, 4 / 3, 1 / 3), mid3).
Lemma src6r : map fst (map (align_pose S1) P6) = [(4, 2, 3); (-2, 2, 3); (1, 4, 3); (1, 0, 3); (1, 2, 4); (1, 2, 2)].
Proof.
  rewrite map_map. unfold P6, T6. cbn [map]. rewrite !fst_align_pose. cbn [fst]. unfold S1.
  repeat (apply f_equal2; [lie_unfold; split_pairs; ring|]). reflexivity.
Qed.
Lemma rigid_copy_hyps_ok :
  unitq (fst (snd S1)) /\ snd (snd S1) = 1 /\ S1 <> Sim3_id /\
  svd_contract svd6r (svdstf_H (map fst (map (align_pose S1) P6)) (map fst P6)).
Proof.
  rewrite src6r. assert (Etgt : map fst P6 = T6) by reflexivity. rewrite Etgt.
  split; [apply unitq_id|]. split; [reflexivity|]. split.
  - unfold S1, Sim3_id, vzero. intros E. injection E as E _ _. num_unfold. lra.
  - unfold svd_contract, svd6r, svd_ok. split; [apply orth_mid3|]. split; [apply orth_mid3|].
    split; [cbn [vx vy vz fst snd]; lra|].
    unfold svdstf_H, T6, centered.
    cbv [map crosscov length centroid vsum3 fold_right ofN Z.of_nat Pos.of_succ_nat Pos.succ vdivs mdivs3].
    al_unfold. split_pairs; field.
Qed.
